/- Helper lemmas for the C10 bit-operation models (Mpir/Model/Bits.lean). -/
import MpirProofs.Lemmas.Base
import Mpir.Model.Bits
import Mathlib.Data.Int.Bitwise
import Mathlib.Tactic.Ring
import Mathlib.Tactic.Linarith
import Mathlib.Data.List.Induction
import Mathlib.Data.Nat.Digits.Defs
namespace Mpir.Bits
open Mpir

/-! ## the Mathlib-free specification is Mathlib's -/

theorem ldiff_eq (m n : Nat) : ldiff m n = Nat.ldiff m n := rfl
theorem land_eq (x y : Int) : land x y = Int.land x y := by cases x <;> cases y <;> rfl
theorem lor_eq (x y : Int) : lor x y = Int.lor x y := by cases x <;> cases y <;> rfl
theorem lxor_eq (x y : Int) : lxor x y = Int.xor x y := by cases x <;> cases y <;> rfl
theorem lnot_eq (x : Int) : lnot x = Int.lnot x := by cases x <;> rfl
theorem lnot_eq' (x : Int) : lnot x = ~~~x := by cases x <;> rfl
theorem testBit_eq (x : Int) (i : Nat) : testBit x i = Int.testBit x i := by cases x <;> rfl

theorem B_pow (n : Nat) : B ^ n = 2 ^ (64 * n) := by unfold B; rw [← pow_mul]

/-- generic split of a bitwise operation at a power of two -/
theorem bitwise_split (f : Bool → Bool → Bool) (hf : f false false = false) (k x y p q : Nat)
    (hx : x < 2 ^ k) (hy : y < 2 ^ k) :
    Nat.bitwise f (x + 2 ^ k * p) (y + 2 ^ k * q) = Nat.bitwise f x y + 2 ^ k * Nat.bitwise f p q := by
  have hpos : 0 < 2 ^ k := Nat.pos_of_ne_zero (by positivity)
  have h1 : Nat.bitwise f (x + 2 ^ k * p) (y + 2 ^ k * q) % 2 ^ k = Nat.bitwise f x y := by
    rw [Nat.bitwise_mod_two_pow hf, Nat.add_mul_mod_self_left, Nat.add_mul_mod_self_left,
      Nat.mod_eq_of_lt hx, Nat.mod_eq_of_lt hy]
  have h2 : Nat.bitwise f (x + 2 ^ k * p) (y + 2 ^ k * q) / 2 ^ k = Nat.bitwise f p q := by
    rw [Nat.bitwise_div_two_pow hf, Nat.add_mul_div_left _ _ hpos, Nat.add_mul_div_left _ _ hpos,
      Nat.div_eq_of_lt hx, Nat.div_eq_of_lt hy, Nat.zero_add, Nat.zero_add]
  rw [← h1, ← h2, Nat.mod_add_div]

/-! ## limb-wise operations and values -/
/-- a limb operation `g` that agrees with `Nat.bitwise f` on limbs -/
def LimbOp (g : Nat → Nat → Nat) (f : Bool → Bool → Bool) : Prop :=
  f false false = false ∧ ∀ a b, a < B → b < B → g a b = Nat.bitwise f a b

theorem zipWith_eqlen {g f} (h : LimbOp g f) : ∀ (u v : List Nat), u.length = v.length → Limbs u → Limbs v →
    val (List.zipWith g u v) = Nat.bitwise f (val u) (val v) ∧ Limbs (List.zipWith g u v)
  | [], [], _, _, _ => by simp [Limbs_nil]
  | [], _ :: _, hl, _, _ => by simp at hl
  | _ :: _, [], hl, _, _ => by simp at hl
  | x :: xs, y :: ys, hl, hu, hv => by
    have ⟨hx, hxs⟩ := Limbs_cons.mp hu
    have ⟨hy, hys⟩ := Limbs_cons.mp hv
    have ⟨ih1, ih2⟩ := zipWith_eqlen h xs ys (by simpa using hl) hxs hys
    have hlt : Nat.bitwise f x y < B := by
      unfold B at *; exact Nat.bitwise_lt_two_pow hx hy
    constructor
    · simp only [List.zipWith_cons_cons, val_cons, ih1, h.2 x y hx hy]
      have := bitwise_split f h.1 64 x y (val xs) (val ys) (by unfold B at hx; exact hx) (by unfold B at hy; exact hy)
      unfold B; rw [this]
    · simp only [List.zipWith_cons_cons]
      exact Limbs_cons.mpr ⟨by rw [h.2 x y hx hy]; exact hlt, ih2⟩

theorem length_zipWith' (g : Nat → Nat → Nat) (u v : List Nat) :
    (List.zipWith g u v).length = min u.length v.length := by simp

theorem zipWith_take_min (g : Nat → Nat → Nat) (u v : List Nat) :
    List.zipWith g u v = List.zipWith g (u.take (min u.length v.length)) (v.take (min u.length v.length)) := by
  rw [← List.take_zipWith]; rw [List.take_of_length_le]; simp

/-- any lengths: the bitwise function of the values splits into the limb-wise part and the part above the
    shorter operand -/
theorem zipWith_val {g f} (h : LimbOp g f) (u v : List Nat) (hu : Limbs u) (hv : Limbs v) :
    Nat.bitwise f (val u) (val v) = val (List.zipWith g u v) +
      B ^ (min u.length v.length) * Nat.bitwise f (val (u.drop v.length)) (val (v.drop u.length)) ∧
    Limbs (List.zipWith g u v) := by
  set n := min u.length v.length with hn
  have hnu : n ≤ u.length := Nat.min_le_left _ _
  have hnv : n ≤ v.length := Nat.min_le_right _ _
  have e := zipWith_eqlen h (u.take n) (v.take n) (by simp [hnu, hnv])
    (Limbs_take hu n) (Limbs_take hv n)
  rw [← zipWith_take_min g u v] at e
  refine ⟨?_, e.2⟩
  have du : val (u.drop v.length) = val (u.drop n) := by
    by_cases hc : u.length ≤ v.length
    · have : n = u.length := by omega
      rw [this, List.drop_of_length_le hc, List.drop_of_length_le (le_refl _)]
    · have : n = v.length := by omega
      rw [this]
  have dv : val (v.drop u.length) = val (v.drop n) := by
    by_cases hc : v.length ≤ u.length
    · have : n = v.length := by omega
      rw [this, List.drop_of_length_le hc, List.drop_of_length_le (le_refl _)]
    · have : n = u.length := by omega
      rw [this]
  rw [du, dv, e.1]
  conv_lhs => rw [val_take_drop u n hnu, val_take_drop v n hnv]
  have l1 := val_lt _ (Limbs_take hu n); have l2 := val_lt _ (Limbs_take hv n)
  rw [List.length_take, Nat.min_eq_left hnu] at l1
  rw [List.length_take, Nat.min_eq_left hnv] at l2
  rw [B_pow] at *
  exact bitwise_split f h.1 (64 * n) _ _ _ _ l1 l2

theorem limbop_and : ∀ a b : Nat, (a &&& b) = Nat.bitwise and a b := fun _ _ => rfl
theorem limbop_or : ∀ a b : Nat, (a ||| b) = Nat.bitwise or a b := fun _ _ => rfl
theorem limbop_xor : ∀ a b : Nat, (a ^^^ b) = Nat.bitwise bne a b := fun _ _ => rfl

theorem testBit_lnotL (b : Nat) (hb : b < B) (i : Nat) : (lnotL b).testBit i = (decide (i < 64) && !b.testBit i) := by
  unfold lnotL B
  have : 2 ^ 64 - 1 - b = 2 ^ 64 - (b + 1) := by omega
  rw [this]; exact Nat.testBit_two_pow_sub_succ (by unfold B at hb; exact hb) i

theorem testBit_limb_high {a : Nat} (ha : a < B) {i : Nat} (hi : 64 ≤ i) : a.testBit i = false := by
  apply Nat.testBit_lt_two_pow
  calc a < 2 ^ 64 := by unfold B at ha; exact ha
    _ ≤ 2 ^ i := Nat.pow_le_pow_right (by decide) hi

theorem limbop_andn (a b : Nat) (ha : a < B) (hb : b < B) : a &&& lnotL b = ldiff a b := by
  apply Nat.eq_of_testBit_eq; intro i
  rw [Nat.testBit_and, testBit_lnotL b hb, ldiff, Nat.testBit_bitwise rfl]
  by_cases hi : i < 64
  · simp [hi]
  · simp [hi, testBit_limb_high ha (by omega : 64 ≤ i)]

theorem decr_val : ∀ (u : List Nat), Limbs u →
    val (decr u).1 + 1 = val u + B ^ u.length * (decr u).2 ∧ (decr u).2 ≤ 1 ∧ Limbs (decr u).1 ∧
    (decr u).1.length = u.length
  | [], _ => by simp [decr, Limbs_nil]
  | x :: xs, hu => by
    have ⟨hx, hxs⟩ := Limbs_cons.mp hu
    have ih := decr_val xs hxs
    unfold decr
    by_cases h0 : x < 1
    · simp only [h0, if_true]
      obtain ⟨i1, i2, i3, i4⟩ := ih
      have hx0 : x = 0 := by omega
      subst hx0
      have hB : (0 + B - 1) % B = B - 1 := by rw [B_eq]
      refine ⟨?_, i2, Limbs_cons.mpr ⟨by rw [hB]; have := B_pos; omega, i3⟩, by simp [i4]⟩
      simp only [val_cons, List.length_cons, pow_succ, hB]
      have := B_pos
      generalize (decr xs).1 = r at *; generalize (decr xs).2 = c at *
      have : B - 1 + B * val r + 1 = B * (val r + 1) := by
        have : B - 1 + 1 = B := by omega
        calc B - 1 + B * val r + 1 = (B - 1 + 1) + B * val r := by ring
          _ = B + B * val r := by rw [this]
          _ = B * (val r + 1) := by ring
      rw [this, i1]; ring
    · simp only [h0, if_false]
      have hm : (x + B - 1) % B = x - 1 := by
        have : x + B - 1 = (x - 1) + B := by omega
        rw [this, Nat.add_mod_right, Nat.mod_eq_of_lt (by omega)]
      refine ⟨?_, by omega, Limbs_cons.mpr ⟨by rw [hm]; omega, hxs⟩, by simp⟩
      simp only [val_cons, hm]; omega

theorem subLimb_val (x : Nat) (xs : List Nat) (v : Nat) (hu : Limbs (x :: xs)) (hv : v < B) :
    val (subLimb (x :: xs) v).1 + v = val (x :: xs) + B ^ (xs.length + 1) * (subLimb (x :: xs) v).2 ∧
    (subLimb (x :: xs) v).2 ≤ 1 ∧ Limbs (subLimb (x :: xs) v).1 ∧
    (subLimb (x :: xs) v).1.length = xs.length + 1 := by
  have ⟨hx, hxs⟩ := Limbs_cons.mp hu
  obtain ⟨i1, i2, i3, i4⟩ := decr_val xs hxs
  unfold subLimb
  by_cases h0 : x < v
  · simp only [h0, if_true]
    have hm : (x + B - v) % B = x + B - v := Nat.mod_eq_of_lt (by omega)
    refine ⟨?_, i2, Limbs_cons.mpr ⟨by rw [hm]; omega, i3⟩, by simp [i4]⟩
    simp only [val_cons, pow_succ, hm]
    generalize (decr xs).1 = r at *; generalize (decr xs).2 = c at *
    have : x + B - v + B * val r + v = x + B * (val r + 1) := by
      have : x + B - v + v = x + B := by omega
      calc x + B - v + B * val r + v = (x + B - v + v) + B * val r := by ring
        _ = x + B * (val r + 1) := by rw [this]; ring
    rw [this, i1]; ring
  · simp only [h0, if_false]
    have hm : (x + B - v) % B = x - v := by
      have : x + B - v = (x - v) + B := by omega
      rw [this, Nat.add_mod_right, Nat.mod_eq_of_lt (by omega)]
    refine ⟨?_, by omega, Limbs_cons.mpr ⟨by rw [hm]; omega, hxs⟩, by simp⟩
    simp only [val_cons, hm]; omega

theorem incr_val : ∀ (u : List Nat), Limbs u →
    val (incr u).1 + B ^ u.length * (incr u).2 = val u + 1 ∧ (incr u).2 ≤ 1 ∧ Limbs (incr u).1 ∧
    (incr u).1.length = u.length
  | [], _ => by simp [incr, Limbs_nil]
  | x :: xs, hu => by
    have ⟨hx, hxs⟩ := Limbs_cons.mp hu
    obtain ⟨i1, i2, i3, i4⟩ := incr_val xs hxs
    unfold incr
    by_cases h0 : (x + 1) % B < 1
    · simp only [h0, if_true]
      have hx1 : x + 1 = B := by
        by_contra hne
        rw [Nat.mod_eq_of_lt (by omega)] at h0; omega
      have hm : (x + 1) % B = 0 := by rw [hx1, Nat.mod_self]
      refine ⟨?_, i2, Limbs_cons.mpr ⟨by rw [hm]; exact B_pos, i3⟩, by simp [i4]⟩
      simp only [val_cons, List.length_cons, pow_succ, hm]
      generalize (incr xs).1 = r at *; generalize (incr xs).2 = c at *
      calc 0 + B * val r + B ^ xs.length * B * c = B * (val r + B ^ xs.length * c) := by ring
        _ = B * (val xs + 1) := by rw [i1]
        _ = (x + 1) + B * val xs := by rw [hx1]; ring
        _ = x + B * val xs + 1 := by ring
    · simp only [h0, if_false]
      have hm : (x + 1) % B = x + 1 := by
        apply Nat.mod_eq_of_lt
        by_contra hge
        have : x + 1 = B := by omega
        rw [this, Nat.mod_self] at h0; omega
      refine ⟨?_, by omega, Limbs_cons.mpr ⟨by rw [hm]; rw [← hm]; exact Nat.mod_lt _ B_pos, hxs⟩, by simp⟩
      simp only [val_cons, hm]; omega

theorem addLimb_val (x : Nat) (xs : List Nat) (v : Nat) (hu : Limbs (x :: xs)) (hv : v < B) :
    val (addLimb (x :: xs) v).1 + B ^ (xs.length + 1) * (addLimb (x :: xs) v).2 = val (x :: xs) + v ∧
    (addLimb (x :: xs) v).2 ≤ 1 ∧ Limbs (addLimb (x :: xs) v).1 ∧
    (addLimb (x :: xs) v).1.length = xs.length + 1 := by
  have ⟨hx, hxs⟩ := Limbs_cons.mp hu
  obtain ⟨i1, i2, i3, i4⟩ := incr_val xs hxs
  unfold addLimb
  have hlt : (x + v) % B < B := Nat.mod_lt _ B_pos
  by_cases h0 : (x + v) % B < v
  · simp only [h0, if_true]
    have hge : B ≤ x + v := by
      by_contra hlt'
      rw [Nat.mod_eq_of_lt (by omega)] at h0; omega
    have hm : (x + v) % B = x + v - B := by
      rw [Nat.mod_eq_sub_mod hge, Nat.mod_eq_of_lt (by omega)]
    refine ⟨?_, i2, Limbs_cons.mpr ⟨hlt, i3⟩, by simp [i4]⟩
    simp only [val_cons, pow_succ, hm]
    generalize (incr xs).1 = r at *; generalize (incr xs).2 = c at *
    have e : x + v - B + B * val r + B ^ xs.length * B * c = x + v - B + B * (val r + B ^ xs.length * c) := by ring
    rw [e, i1]
    have : x + v - B + B * (val xs + 1) = x + v - B + B + B * val xs := by ring
    rw [this]; omega
  · simp only [h0, if_false]
    have hm : (x + v) % B = x + v := by
      apply Nat.mod_eq_of_lt
      by_contra hge
      have hge : B ≤ x + v := by omega
      rw [Nat.mod_eq_sub_mod hge, Nat.mod_eq_of_lt (by omega)] at h0; omega
    refine ⟨?_, by omega, Limbs_cons.mpr ⟨hlt, hxs⟩, by simp⟩
    simp only [val_cons, hm]; omega

/-- high limb non-zero (or empty) -/
def Norm (l : List Nat) : Prop := l.getLast? ≠ some 0

theorem pow_B_pos (n : Nat) : 0 < B ^ n := Nat.pos_of_ne_zero (by have := B_pos; positivity)

theorem normalize_snoc (l : List Nat) (x : Nat) :
    normalize (l ++ [x]) = if x = 0 then normalize l else l ++ [x] := by
  unfold normalize
  rw [List.reverse_append, List.reverse_singleton, List.singleton_append, List.dropWhile_cons]
  by_cases hx : x = 0
  · simp [hx]
  · simp [hx]

theorem val_snoc (l : List Nat) (x : Nat) : val (l ++ [x]) = val l + B ^ l.length * x := by
  rw [val_append]; simp

theorem normalize_spec (l : List Nat) : val (normalize l) = val l ∧ Norm (normalize l) ∧
    (Limbs l → Limbs (normalize l)) ∧ (normalize l).length ≤ l.length ∧
    l.take (normalize l).length = normalize l := by
  induction l using List.reverseRecOn with
  | nil => simp [normalize, Norm]
  | append_singleton l x ih =>
    rw [normalize_snoc]
    by_cases hx : x = 0
    · simp only [hx, if_true]
      obtain ⟨i1, i2, i3, i4, i5⟩ := ih
      refine ⟨by rw [i1, val_snoc]; simp, i2, fun h => i3 (Limbs_append.mp h).1, by simp; omega, ?_⟩
      rw [List.take_append_of_le_length i4]; exact i5
    · rw [if_neg hx]
      exact ⟨rfl, by simp [Norm, hx], fun h => h, le_refl _, List.take_length⟩

theorem scanTop_eq (l : List Nat) : scanTop l = (normalize l).length := by
  unfold scanTop normalize; simp

theorem take_scanTop (l : List Nat) : l.take (scanTop l) = normalize l := by
  rw [scanTop_eq]; exact (normalize_spec l).2.2.2.2

theorem Norm_nil : Norm [] := by simp [Norm]

theorem norm_append {x y : List Nat} (hy : y ≠ []) (h : Norm y) : Norm (x ++ y) := by
  unfold Norm at *; rw [List.getLast?_append]; cases hq : y.getLast? with
  | none => exact absurd (List.getLast?_eq_none_iff.mp hq) hy
  | some v => simpa [hq] using h

/-- for proper limbs: high limb non-zero iff the value reaches the top limb -/
theorem norm_iff_ge (l : List Nat) (hl : Limbs l) (hne : l ≠ []) :
    Norm l ↔ B ^ (l.length - 1) ≤ val l := by
  induction l using List.reverseRecOn with
  | nil => exact absurd rfl hne
  | append_singleton l x _ =>
    have hlt := val_lt l (Limbs_append.mp hl).1
    have hpos := pow_B_pos l.length
    simp only [Norm, List.getLast?_append, List.getLast?_singleton, Option.some_or, ne_eq,
      Option.some.injEq, List.length_append, List.length_singleton, Nat.add_sub_cancel, val_snoc]
    constructor
    · intro hx
      have : 1 ≤ x := Nat.pos_of_ne_zero hx
      nlinarith
    · intro h hx; subst hx; simp at h
      generalize B ^ l.length = p at *; omega

theorem val_pos_of_norm {l : List Nat} (hl : Limbs l) (hne : l ≠ []) (h : Norm l) : 1 ≤ val l := by
  have := (norm_iff_ge l hl hne).mp h
  have hpos := pow_B_pos (l.length - 1)
  generalize B ^ (l.length - 1) = p at *
  omega

theorem addOneGrow_spec (r : List Nat) (hr : Limbs r) (hne : r ≠ []) :
    val (addOneGrow r) = val r + 1 ∧ Limbs (addOneGrow r) ∧ addOneGrow r ≠ [] ∧
    (Norm r → Norm (addOneGrow r)) := by
  match r, hne with
  | x :: xs, _ =>
    have h1B : 1 < B := by rw [B_eq]; norm_num
    obtain ⟨a1, a2, a3, a4⟩ := addLimb_val x xs 1 hr h1B
    have hn := norm_iff_ge (x :: xs) hr (by simp)
    unfold addOneGrow
    generalize addLimb (x :: xs) 1 = res at *
    obtain ⟨s, cy⟩ := res
    simp only at a1 a2 a3 a4 ⊢
    have hs : s ≠ [] := by intro h; rw [h] at a4; simp at a4
    have hns := norm_iff_ge s a3 hs
    rw [a4] at hns
    simp only [List.length_cons, Nat.add_sub_cancel] at hn hns
    by_cases hc : cy = 0
    · subst hc
      rw [Nat.mul_zero, Nat.add_zero] at a1
      simp only [ne_eq, not_true_eq_false, if_false]
      refine ⟨a1, a3, hs, fun h => ?_⟩
      rw [hns, a1]; exact Nat.le_succ_of_le (hn.mp h)
    · have hc1 : cy = 1 := by omega
      subst hc1
      rw [Nat.mul_one] at a1
      simp only [ne_eq, one_ne_zero, not_false_eq_true, if_true]
      refine ⟨by rw [val_snoc, a4, Nat.mul_one]; exact a1,
        Limbs_append.mpr ⟨a3, by intro y hy; simp at hy; rw [hy]; exact h1B⟩,
        by simp, fun _ => by simp [Norm]⟩

theorem dropTopZero_spec (l : List Nat) (hl : Limbs l) (hne : l ≠ []) (hge : B ^ (l.length - 1) - 1 ≤ val l) :
    val (dropTopZero l) = val l ∧ Limbs (dropTopZero l) ∧ Norm (dropTopZero l) ∧
    (dropTopZero l).length ≤ l.length := by
  induction l using List.reverseRecOn with
  | nil => exact absurd rfl hne
  | append_singleton l x _ =>
    have hll := (Limbs_append.mp hl).1
    unfold dropTopZero
    by_cases hx : x = 0
    · subst hx
      simp only [List.getLast?_append, List.getLast?_singleton, Option.some_or, if_true,
        List.dropLast_concat]
      refine ⟨by rw [val_snoc]; simp, hll, ?_, by simp⟩
      by_cases hl0 : l = []
      · subst hl0; exact Norm_nil
      · rw [norm_iff_ge l hll hl0]
        simp only [List.length_append, List.length_singleton, Nat.add_sub_cancel, val_snoc, Nat.mul_zero,
          Nat.add_zero] at hge
        have hlen : 1 ≤ l.length := List.length_pos_iff.mpr hl0
        have : B ^ l.length = B * B ^ (l.length - 1) := by
          rw [← pow_succ']; congr 1; omega
        have hpos := pow_B_pos (l.length - 1)
        generalize B ^ (l.length - 1) = p at *
        generalize B ^ l.length = q at *
        rw [B_eq] at this; omega
    · have : ¬ ((l ++ [x]).getLast? = some 0) := by simp [hx]
      rw [if_neg this]
      exact ⟨rfl, hl, by simp [Norm, hx], le_refl _⟩

theorem limbOp_and : LimbOp (fun a b => a &&& b) and := ⟨rfl, fun _ _ _ _ => rfl⟩
theorem limbOp_or : LimbOp (fun a b => a ||| b) or := ⟨rfl, fun _ _ _ _ => rfl⟩
theorem limbOp_xor : LimbOp (fun a b => a ^^^ b) bne := ⟨rfl, fun _ _ _ _ => rfl⟩
theorem limbOp_andn : LimbOp (fun a b => a &&& lnotL b) (fun a b => a && !b) :=
  ⟨rfl, fun a b ha hb => limbop_andn a b ha hb⟩

theorem zip_long_left {g f} (h : LimbOp g f) (hf : f true false = true) (u v : List Nat)
    (hu : Limbs u) (hv : Limbs v) (hl : v.length ≤ u.length) :
    val (List.zipWith g u v ++ u.drop v.length) = Nat.bitwise f (val u) (val v) ∧
    Limbs (List.zipWith g u v ++ u.drop v.length) ∧
    (List.zipWith g u v ++ u.drop v.length).length = u.length := by
  obtain ⟨e, l⟩ := zipWith_val h u v hu hv
  refine ⟨?_, Limbs_append.mpr ⟨l, Limbs_drop hu _⟩, by simp; omega⟩
  rw [e, val_append, List.drop_of_length_le hl, val_nil, Nat.bitwise_zero_right, if_pos hf]
  simp

theorem zip_long_right {g f} (h : LimbOp g f) (hf : f false true = true) (u v : List Nat)
    (hu : Limbs u) (hv : Limbs v) (hl : u.length ≤ v.length) :
    val (List.zipWith g u v ++ v.drop u.length) = Nat.bitwise f (val u) (val v) ∧
    Limbs (List.zipWith g u v ++ v.drop u.length) ∧
    (List.zipWith g u v ++ v.drop u.length).length = v.length := by
  obtain ⟨e, l⟩ := zipWith_val h u v hu hv
  refine ⟨?_, Limbs_append.mpr ⟨l, Limbs_drop hv _⟩, by simp; omega⟩
  rw [e, val_append, List.drop_of_length_le hl, val_nil, Nat.bitwise_zero_left, if_pos hf]
  simp

theorem zip_short_left {g f} (h : LimbOp g f) (hf : f false true = false) (u v : List Nat)
    (hu : Limbs u) (hv : Limbs v) (hl : u.length ≤ v.length) :
    val (List.zipWith g u v) = Nat.bitwise f (val u) (val v) ∧ Limbs (List.zipWith g u v) := by
  obtain ⟨e, l⟩ := zipWith_val h u v hu hv
  refine ⟨?_, l⟩
  rw [e, List.drop_of_length_le hl, val_nil, Nat.bitwise_zero_left, hf]; simp

theorem zip_short_right {g f} (h : LimbOp g f) (hf : f true false = false) (u v : List Nat)
    (hu : Limbs u) (hv : Limbs v) (hl : v.length ≤ u.length) :
    val (List.zipWith g u v) = Nat.bitwise f (val u) (val v) ∧ Limbs (List.zipWith g u v) := by
  obtain ⟨e, l⟩ := zipWith_val h u v hu hv
  refine ⟨?_, l⟩
  rw [e, List.drop_of_length_le hl, val_nil, Nat.bitwise_zero_right, hf]; simp

/-- mpn_and_n on any lengths (the shorter length counts) -/
theorem and_n_val_any (u v : List Nat) (hu : Limbs u) (hv : Limbs v) :
    val (and_n u v) = val u &&& val v ∧ Limbs (and_n u v) := by
  by_cases hl : u.length ≤ v.length
  · exact zip_short_left limbOp_and rfl u v hu hv hl
  · exact zip_short_right limbOp_and rfl u v hu hv (by omega)

/-- subtracting 1 from a non-zero magnitude -/
theorem subOne_val (u : List Nat) (hu : Limbs u) (h1 : 1 ≤ val u) :
    val (subLimb u 1).1 = val u - 1 ∧ Limbs (subLimb u 1).1 ∧ (subLimb u 1).1.length = u.length := by
  match u with
  | [] => simp at h1
  | x :: xs =>
    have h1B : 1 < B := by rw [B_eq]; norm_num
    obtain ⟨a1, a2, a3, a4⟩ := subLimb_val x xs 1 hu h1B
    have hlt := val_lt _ a3
    rw [a4] at hlt
    refine ⟨?_, a3, by simpa using a4⟩
    generalize (subLimb (x :: xs) 1).2 = c at *
    generalize val (subLimb (x :: xs) 1).1 = r at *
    generalize val (x :: xs) = vu at *
    have hc : c = 0 := by
      by_contra hc
      have : c = 1 := by omega
      subst this
      rw [Nat.mul_one] at a1
      generalize B ^ (xs.length + 1) = p at *
      omega
    subst hc; rw [Nat.mul_zero] at a1; omega

theorem and_n_take (a b : List Nat) (n : Nat) : and_n (a.take n) (b.take n) = (and_n a b).take n := by
  unfold and_n; rw [List.take_zipWith]
theorem andn_n_take (a b : List Nat) (n : Nat) : andn_n (a.take n) (b.take n) = (andn_n a b).take n := by
  unfold andn_n; rw [List.take_zipWith]

theorem andPP_spec (a b : List Nat) (ha : Limbs a) (hb : Limbs b) :
    (andPP a b).neg = false ∧ val (andPP a b).mag = val a &&& val b ∧ Limbs (andPP a b).mag ∧
    Norm (andPP a b).mag := by
  unfold andPP
  simp only [and_n_take, take_scanTop]
  obtain ⟨n1, n2, n3, _, _⟩ := normalize_spec (and_n a b)
  obtain ⟨e, l⟩ := and_n_val_any a b ha hb
  exact ⟨trivial, by rw [n1, e], n3 l, n2⟩

theorem andPN_spec (a b : List Nat) (ha : Limbs a) (hna : Norm a) (hb : Limbs b) (h1 : 1 ≤ val b) :
    (andPN a b).neg = false ∧ val (andPN a b).mag = ldiff (val a) (val b - 1) ∧ Limbs (andPN a b).mag ∧
    Norm (andPN a b).mag := by
  obtain ⟨s1, s2, s3⟩ := subOne_val b hb h1
  unfold andPN
  by_cases hl : a.length > b.length
  · simp only [hl, if_true]
    have := zip_long_left limbOp_andn rfl a (subLimb b 1).1 ha s2 (by omega)
    rw [s3, s1] at this
    refine ⟨trivial, this.1, this.2.1, ?_⟩
    have hd : a.drop b.length ≠ [] := by
      intro h; have := congrArg List.length h; simp at this; omega
    apply norm_append hd
    unfold Norm at *; rwa [List.getLast?_drop, if_neg (by omega)]
  · simp only [hl, if_false]
    simp only [andn_n_take, take_scanTop]
    obtain ⟨n1, n2, n3, _, _⟩ := normalize_spec (andn_n a (subLimb b 1).1)
    have := zip_short_left limbOp_andn rfl a (subLimb b 1).1 ha s2 (by omega)
    rw [s1] at this
    exact ⟨trivial, by rw [n1]; exact this.1, n3 this.2, n2⟩

/-- the grown result is normalised as soon as its value reaches the top limb (the "some analysis shows that we
    surely would get carry into the zero-limb" remark of and.c:88-91) -/
theorem addOneGrow_norm (r : List Nat) (hr : Limbs r) (hne : r ≠ []) (hge : B ^ (r.length - 1) ≤ val r + 1) :
    Norm (addOneGrow r) := by
  match r, hne with
  | x :: xs, _ =>
    have h1B : 1 < B := by rw [B_eq]; norm_num
    obtain ⟨a1, a2, a3, a4⟩ := addLimb_val x xs 1 hr h1B
    unfold addOneGrow
    generalize addLimb (x :: xs) 1 = res at *
    obtain ⟨s, cy⟩ := res
    simp only at a1 a2 a3 a4 ⊢
    have hs : s ≠ [] := by intro h; rw [h] at a4; simp at a4
    have hns := norm_iff_ge s a3 hs
    rw [a4] at hns
    simp only [List.length_cons, Nat.add_sub_cancel] at hge hns
    by_cases hc : cy = 0
    · subst hc
      rw [Nat.mul_zero, Nat.add_zero] at a1
      simp only [ne_eq, not_true_eq_false, if_false]
      rw [hns, a1]; exact hge
    · simp only [ne_eq, hc, not_false_eq_true, if_true]
      have hc1 : cy = 1 := by omega
      subst hc1; simp [Norm]

theorem andNN_spec (a b : List Nat) (ha : Limbs a) (hna : Norm a) (hb : Limbs b) (hnb : Norm b)
    (ha1 : 1 ≤ val a) (hb1 : 1 ≤ val b) :
    (andNN a b).neg = true ∧ val (andNN a b).mag = ((val a - 1) ||| (val b - 1)) + 1 ∧
    Limbs (andNN a b).mag ∧ Norm (andNN a b).mag ∧ (andNN a b).mag ≠ [] := by
  obtain ⟨s1, s2, s3⟩ := subOne_val a ha ha1
  obtain ⟨t1, t2, t3⟩ := subOne_val b hb hb1
  have hane : a ≠ [] := by intro h; subst h; simp at ha1
  have hbne : b ≠ [] := by intro h; subst h; simp at hb1
  have ga := (norm_iff_ge a ha hane).mp hna
  have gb := (norm_iff_ge b hb hbne).mp hnb
  have alen : 1 ≤ a.length := List.length_pos_iff.mpr hane
  have blen : 1 ≤ b.length := List.length_pos_iff.mpr hbne
  unfold andNN
  simp only
  -- the limb list before the `+ 1`
  have key : ∃ r, (if a.length ≥ b.length then ior_n (subLimb a 1).1 (subLimb b 1).1 ++ (subLimb a 1).1.drop b.length
      else ior_n (subLimb a 1).1 (subLimb b 1).1 ++ (subLimb b 1).1.drop a.length) = r ∧
      val r = (val a - 1) ||| (val b - 1) ∧ Limbs r ∧ r.length = max a.length b.length := by
    by_cases hl : a.length ≥ b.length
    · rw [if_pos hl]
      have := zip_long_left limbOp_or rfl (subLimb a 1).1 (subLimb b 1).1 s2 t2 (by omega)
      rw [t3, s1, t1, s3] at this
      exact ⟨_, rfl, this.1, this.2.1, by unfold ior_n; rw [this.2.2]; omega⟩
    · rw [if_neg hl]
      have := zip_long_right limbOp_or rfl (subLimb a 1).1 (subLimb b 1).1 s2 t2 (by omega)
      rw [s3, s1, t1, t3] at this
      exact ⟨_, rfl, this.1, this.2.1, by unfold ior_n; rw [this.2.2]; omega⟩
  obtain ⟨r, hr, rv, rl, rlen⟩ := key
  rw [hr]
  have rne : r ≠ [] := by intro h; subst h; simp at rlen; omega
  obtain ⟨g1, g2, g3, _⟩ := addOneGrow_spec r rl rne
  refine ⟨trivial, by rw [g1, rv], g2, ?_, g3⟩
  apply addOneGrow_norm r rl rne
  rw [rv, rlen]
  have o1 : val a - 1 ≤ (val a - 1) ||| (val b - 1) := Nat.left_le_or
  have o2 : val b - 1 ≤ (val a - 1) ||| (val b - 1) := Nat.right_le_or
  by_cases hl : a.length ≥ b.length
  · rw [Nat.max_eq_left hl]
    generalize B ^ (a.length - 1) = p at *; omega
  · rw [Nat.max_eq_right (by omega)]
    generalize B ^ (b.length - 1) = p at *; omega

theorem toInt_nonneg (z : Z) (h : z.neg = false) : z.toInt = Int.ofNat (val z.mag) := by
  unfold Z.toInt; simp [h]

theorem toInt_neg (z : Z) (h : z.neg = true) (h1 : 1 ≤ val z.mag) :
    z.toInt = Int.negSucc (val z.mag - 1) := by
  unfold Z.toInt; simp only [h, if_true]
  obtain ⟨k, hk⟩ : ∃ k, val z.mag = k + 1 := ⟨val z.mag - 1, by omega⟩
  rw [hk]; rfl

theorem Z.WF.limbs {z : Z} (h : z.WF) : Limbs z.mag := h.1
theorem Z.WF.norm {z : Z} (h : z.WF) : Norm z.mag := h.2.1
theorem Z.WF.pos {z : Z} (h : z.WF) (hn : z.neg = true) : 1 ≤ val z.mag :=
  val_pos_of_norm h.1 (h.2.2 hn) h.2.1
theorem Z.WF.mk' {z : Z} (h1 : Limbs z.mag) (h2 : Norm z.mag) (h3 : z.neg = true → z.mag ≠ []) : z.WF :=
  ⟨h1, h2, h3⟩

theorem mpz_and_land (a b : Z) (ha : a.WF) (hb : b.WF) :
    (mpz_and a b).toInt = land a.toInt b.toInt ∧ (mpz_and a b).WF := by
  unfold mpz_and
  cases hna : a.neg <;> cases hnb : b.neg <;> simp only [Bool.not_false, Bool.not_true, Bool.false_eq_true, ↓reduceIte]
  · obtain ⟨r1, r2, r3, r4⟩ := andPP_spec a.mag b.mag ha.limbs hb.limbs
    refine ⟨?_, Z.WF.mk' r3 r4 (by rw [r1]; intro h; cases h)⟩
    rw [toInt_nonneg _ r1, toInt_nonneg a hna, toInt_nonneg b hnb, r2]; rfl
  · obtain ⟨r1, r2, r3, r4⟩ := andPN_spec a.mag b.mag ha.limbs ha.norm hb.limbs (hb.pos hnb)
    refine ⟨?_, Z.WF.mk' r3 r4 (by rw [r1]; intro h; cases h)⟩
    rw [toInt_nonneg _ r1, toInt_nonneg a hna, toInt_neg b hnb (hb.pos hnb), r2]; rfl
  · obtain ⟨r1, r2, r3, r4⟩ := andPN_spec b.mag a.mag hb.limbs hb.norm ha.limbs (ha.pos hna)
    refine ⟨?_, Z.WF.mk' r3 r4 (by rw [r1]; intro h; cases h)⟩
    rw [toInt_nonneg _ r1, toInt_neg a hna (ha.pos hna), toInt_nonneg b hnb, r2]; rfl
  · obtain ⟨r1, r2, r3, r4, r5⟩ := andNN_spec a.mag b.mag ha.limbs ha.norm hb.limbs hb.norm (ha.pos hna) (hb.pos hnb)
    refine ⟨?_, Z.WF.mk' r3 r4 (fun _ => r5)⟩
    rw [toInt_neg _ r1 (by rw [r2]; omega), toInt_neg a hna (ha.pos hna), toInt_neg b hnb (hb.pos hnb), r2]; rfl

theorem norm_of_ge {l : List Nat} (hl : Limbs l) (h : l = [] ∨ B ^ (l.length - 1) ≤ val l) : Norm l := by
  by_cases hne : l = []
  · subst hne; exact Norm_nil
  · rcases h with h | h
    · exact absurd h hne
    · exact (norm_iff_ge l hl hne).mpr h

theorem iorPP_spec (a b : List Nat) (ha : Limbs a) (hna : Norm a) (hb : Limbs b) (hnb : Norm b) :
    (iorPP a b).neg = false ∧ val (iorPP a b).mag = val a ||| val b ∧ Limbs (iorPP a b).mag ∧
    Norm (iorPP a b).mag := by
  unfold iorPP
  have o1 : val a ≤ val a ||| val b := Nat.left_le_or
  have o2 : val b ≤ val a ||| val b := Nat.right_le_or
  by_cases hl : a.length ≥ b.length
  · rw [if_pos hl]
    obtain ⟨e, l, len⟩ := zip_long_left limbOp_or rfl a b ha hb hl
    refine ⟨rfl, e, l, norm_of_ge l ?_⟩
    by_cases hane : a = []
    · left; subst hane; simp at hl; subst hl; rfl
    · right
      have ga := (norm_iff_ge a ha hane).mp hna
      change B ^ ((List.zipWith (fun a b => a ||| b) a b ++ a.drop b.length).length - 1) ≤
        val (List.zipWith (fun a b => a ||| b) a b ++ a.drop b.length)
      rw [len, e]
      exact le_trans ga o1
  · rw [if_neg hl]
    obtain ⟨e, l, len⟩ := zip_long_right limbOp_or rfl a b ha hb (by omega)
    refine ⟨rfl, e, l, norm_of_ge l ?_⟩
    right
    have hbne : b ≠ [] := by intro h; subst h; simp at hl
    have gb := (norm_iff_ge b hb hbne).mp hnb
    change B ^ ((List.zipWith (fun a b => a ||| b) a b ++ b.drop a.length).length - 1) ≤
      val (List.zipWith (fun a b => a ||| b) a b ++ b.drop a.length)
    rw [len, e]
    exact le_trans gb o2

/-- the low `n` limbs of `val a - 1`, as computed by the truncated `mpn_sub_1` of ior.c:110-116 -/
theorem subOne_trunc (a : List Nat) (ha : Limbs a) (h1 : 1 ≤ val a) (n : Nat) (hn1 : 1 ≤ n) (hn : n ≤ a.length) :
    val (subLimb (a.take n) 1).1 = (val a - 1) % B ^ n ∧ Limbs (subLimb (a.take n) 1).1 ∧
    (subLimb (a.take n) 1).1.length = n := by
  have hlen : (a.take n).length = n := by simp [hn]
  have hlt := val_lt _ (Limbs_take ha n)
  rw [hlen] at hlt
  have hsplit := val_take_drop a n hn
  match hm : a.take n, hlen with
  | [], h0 => simp at h0; omega
  | x :: xs, hlen' =>
    have h1B : 1 < B := by rw [B_eq]; norm_num
    rw [hm] at hlt hsplit
    obtain ⟨a1, a2, a3, a4⟩ := subLimb_val x xs 1 (hm ▸ Limbs_take ha n) h1B
    have hrl := val_lt _ a3
    simp only [List.length_cons] at hlen'
    rw [a4, hlen'] at hrl
    rw [hlen'] at a1
    refine ⟨?_, a3, by rw [a4]; exact hlen'⟩
    have ppos := pow_B_pos n
    generalize (subLimb (x :: xs) 1).2 = c at *
    generalize val (subLimb (x :: xs) 1).1 = r at *
    generalize val (x :: xs) = lo at *
    generalize val (a.drop n) = hi at *
    generalize B ^ n = p at *
    rw [hsplit]
    by_cases hlo : 1 ≤ lo
    · have hc : c = 0 := by
        by_contra hc
        have : c = 1 := by omega
        subst this; omega
      subst hc
      have : lo + p * hi - 1 = (lo - 1) + p * hi := by omega
      rw [this, Nat.add_mul_mod_self_left, Nat.mod_eq_of_lt (by omega)]; omega
    · have hlo0 : lo = 0 := by omega
      subst hlo0
      have hc : c = 1 := by
        by_contra hc
        have : c = 0 := by omega
        subst this; omega
      subst hc
      obtain ⟨k, hk⟩ : ∃ k, hi = k + 1 := ⟨hi - 1, by
        rcases Nat.eq_zero_or_pos hi with h | h
        · subst h; simp at hsplit; omega
        · omega⟩
      subst hk
      have : 0 + p * (k + 1) - 1 = (p - 1) + p * k := by
        rw [Nat.mul_succ]; omega
      rw [this, Nat.add_mul_mod_self_left, Nat.mod_eq_of_lt (by omega)]; omega

/-- ior.c:128-150 / 200-232: size scan, `+ 1` with growth, or the literal 1 when everything is zero -/
theorem growScan_spec (X : List Nat) (hX : Limbs X) :
    val (if scanTop X ≠ 0 then addOneGrow (X.take (scanTop X)) else [1]) = val X + 1 ∧
    Limbs (if scanTop X ≠ 0 then addOneGrow (X.take (scanTop X)) else [1]) ∧
    Norm (if scanTop X ≠ 0 then addOneGrow (X.take (scanTop X)) else [1]) ∧
    (if scanTop X ≠ 0 then addOneGrow (X.take (scanTop X)) else [1]) ≠ [] := by
  obtain ⟨n1, n2, n3, _, _⟩ := normalize_spec X
  rw [take_scanTop, scanTop_eq]
  by_cases h0 : (normalize X).length ≠ 0
  · rw [if_pos h0]
    have hne : normalize X ≠ [] := by intro h; rw [h] at h0; simp at h0
    obtain ⟨g1, g2, g3, g4⟩ := addOneGrow_spec (normalize X) (n3 hX) hne
    exact ⟨by rw [g1, n1], g2, g4 n2, g3⟩
  · rw [if_neg h0]
    have hnil : normalize X = [] := by
      apply List.eq_nil_of_length_eq_zero; omega
    rw [hnil] at n1
    refine ⟨by rw [← n1]; simp, ?_, by simp [Norm], by simp⟩
    intro y hy; simp at hy; rw [hy, B_eq]; norm_num

theorem and_lt_of_left {m n p : Nat} (h : m < p) : m &&& n < p := lt_of_le_of_lt Nat.and_le_left h
theorem and_lt_of_right {m n p : Nat} (h : n < p) : m &&& n < p := lt_of_le_of_lt Nat.and_le_right h

theorem iorNN_spec (a b : List Nat) (ha : Limbs a) (hna : Norm a) (hb : Limbs b) (hnb : Norm b)
    (ha1 : 1 ≤ val a) (hb1 : 1 ≤ val b) :
    (iorNN a b).neg = true ∧ val (iorNN a b).mag = ((val a - 1) &&& (val b - 1)) + 1 ∧
    Limbs (iorNN a b).mag ∧ Norm (iorNN a b).mag ∧ (iorNN a b).mag ≠ [] := by
  have hane : a ≠ [] := by intro h; subst h; simp at ha1
  have hbne : b ≠ [] := by intro h; subst h; simp at hb1
  have alen : 1 ≤ a.length := List.length_pos_iff.mpr hane
  have blen : 1 ≤ b.length := List.length_pos_iff.mpr hbne
  set n := min a.length b.length with hn
  obtain ⟨s1, s2, s3⟩ := subOne_trunc a ha ha1 n (by omega) (by omega)
  obtain ⟨t1, t2, t3⟩ := subOne_trunc b hb hb1 n (by omega) (by omega)
  obtain ⟨e, l⟩ := zipWith_eqlen limbOp_and (subLimb (a.take n) 1).1 (subLimb (b.take n) 1).1
    (by rw [s3, t3]) s2 t2
  -- value of the limb-wise and
  have hv : val (and_n (subLimb (a.take n) 1).1 (subLimb (b.take n) 1).1) = (val a - 1) &&& (val b - 1) := by
    change val (List.zipWith (fun a b => a &&& b) _ _) = _
    rw [e, s1, t1]
    change (val a - 1) % B ^ n &&& (val b - 1) % B ^ n = _
    rw [B_pow, ← Nat.and_mod_two_pow, ← B_pow]
    apply Nat.mod_eq_of_lt
    have la := val_lt a ha; have lb := val_lt b hb
    by_cases hl : a.length ≤ b.length
    · have : n = a.length := by omega
      rw [this]; apply and_lt_of_left
      generalize B ^ a.length = p at *; omega
    · have : n = b.length := by omega
      rw [this]; apply and_lt_of_right
      generalize B ^ b.length = p at *; omega
  obtain ⟨g1, g2, g3, g4⟩ := growScan_spec (and_n (subLimb (a.take n) 1).1 (subLimb (b.take n) 1).1) l
  unfold iorNN
  simp only [and_n_take, ← hn]
  split
  · rename_i h; rw [if_pos h] at g1 g2 g3 g4
    exact ⟨rfl, by rw [g1, hv], g2, g3, g4⟩
  · rename_i h; rw [if_neg h] at g1 g2 g3 g4
    exact ⟨rfl, by rw [g1, hv], g2, g3, g4⟩

/-- `|op2| - 1` with its top limb dropped when it became zero (ior.c:180-183, com.c:80-81) -/
theorem subOneDrop_spec (b : List Nat) (hb : Limbs b) (hnb : Norm b) (hb1 : 1 ≤ val b) :
    val (dropTopZero (subLimb b 1).1) = val b - 1 ∧ Limbs (dropTopZero (subLimb b 1).1) ∧
    Norm (dropTopZero (subLimb b 1).1) ∧ (dropTopZero (subLimb b 1).1).length ≤ b.length := by
  have hbne : b ≠ [] := by intro h; subst h; simp at hb1
  obtain ⟨s1, s2, s3⟩ := subOne_val b hb hb1
  have gb := (norm_iff_ge b hb hbne).mp hnb
  have hne : (subLimb b 1).1 ≠ [] := by
    intro h; have h2 := congrArg List.length h; rw [s3, List.length_nil] at h2
    have : 1 ≤ b.length := List.length_pos_iff.mpr hbne
    omega
  obtain ⟨d1, d2, d3, d4⟩ := dropTopZero_spec (subLimb b 1).1 s2 hne (by
    rw [s3, s1]; exact Nat.sub_le_sub_right gb 1)
  exact ⟨by rw [d1, s1], d2, d3, by rw [← s3]; exact d4⟩

theorem iorPN_spec (a b : List Nat) (ha : Limbs a) (hb : Limbs b) (hnb : Norm b) (hb1 : 1 ≤ val b) :
    (iorPN a b).neg = true ∧ val (iorPN a b).mag = ldiff (val b - 1) (val a) + 1 ∧
    Limbs (iorPN a b).mag ∧ Norm (iorPN a b).mag ∧ (iorPN a b).mag ≠ [] := by
  obtain ⟨d1, d2, d3, _⟩ := subOneDrop_spec b hb hnb hb1
  unfold iorPN
  simp only
  generalize dropTopZero (subLimb b 1).1 = o2 at *
  by_cases hl : a.length ≥ o2.length
  · rw [if_pos hl]
    obtain ⟨e, l⟩ := zip_short_left limbOp_andn rfl o2 a d2 ha hl
    obtain ⟨g1, g2, g3, g4⟩ := growScan_spec (andn_n o2 a) l
    have hv : val (andn_n o2 a) = ldiff (val b - 1) (val a) := by rw [← d1]; exact e
    simp only [andn_n_take]
    split
    · rename_i h; rw [if_pos h] at g1 g2 g3 g4
      exact ⟨rfl, by rw [g1, hv], g2, g3, g4⟩
    · rename_i h; rw [if_neg h] at g1 g2 g3 g4
      exact ⟨rfl, by rw [g1, hv], g2, g3, g4⟩
  · rw [if_neg hl]
    obtain ⟨e, l, len⟩ := zip_long_left limbOp_andn rfl o2 a d2 ha (by omega)
    have hd : o2.drop a.length ≠ [] := by
      intro h; have := congrArg List.length h; simp at this; omega
    have hnorm : Norm (andn_n o2 a ++ o2.drop a.length) := by
      apply norm_append hd
      unfold Norm at *; rwa [List.getLast?_drop, if_neg (by omega)]
    have hne : andn_n o2 a ++ o2.drop a.length ≠ [] := by simp [hd]
    obtain ⟨g1, g2, g3, g4⟩ := addOneGrow_spec _ l hne
    exact ⟨rfl, by change val (addOneGrow (List.zipWith _ o2 a ++ _)) = _; rw [g1, e, d1]; rfl, g2, g4 hnorm, g3⟩

theorem mpz_ior_lor (a b : Z) (ha : a.WF) (hb : b.WF) :
    (mpz_ior a b).toInt = lor a.toInt b.toInt ∧ (mpz_ior a b).WF := by
  unfold mpz_ior
  cases hna : a.neg <;> cases hnb : b.neg <;>
    simp only [Bool.not_false, Bool.not_true, Bool.false_eq_true, ↓reduceIte]
  · obtain ⟨r1, r2, r3, r4⟩ := iorPP_spec a.mag b.mag ha.limbs ha.norm hb.limbs hb.norm
    refine ⟨?_, Z.WF.mk' r3 r4 (by rw [r1]; intro h; cases h)⟩
    rw [toInt_nonneg _ r1, toInt_nonneg a hna, toInt_nonneg b hnb, r2]; rfl
  · obtain ⟨r1, r2, r3, r4, r5⟩ := iorPN_spec a.mag b.mag ha.limbs hb.limbs hb.norm (hb.pos hnb)
    refine ⟨?_, Z.WF.mk' r3 r4 (fun _ => r5)⟩
    rw [toInt_neg _ r1 (by rw [r2]; omega), toInt_nonneg a hna, toInt_neg b hnb (hb.pos hnb), r2]; rfl
  · obtain ⟨r1, r2, r3, r4, r5⟩ := iorPN_spec b.mag a.mag hb.limbs ha.limbs ha.norm (ha.pos hna)
    refine ⟨?_, Z.WF.mk' r3 r4 (fun _ => r5)⟩
    rw [toInt_neg _ r1 (by rw [r2]; omega), toInt_neg a hna (ha.pos hna), toInt_nonneg b hnb, r2]; rfl
  · obtain ⟨r1, r2, r3, r4, r5⟩ := iorNN_spec a.mag b.mag ha.limbs ha.norm hb.limbs hb.norm (ha.pos hna) (hb.pos hnb)
    refine ⟨?_, Z.WF.mk' r3 r4 (fun _ => r5)⟩
    rw [toInt_neg _ r1 (by rw [r2]; omega), toInt_neg a hna (ha.pos hna), toInt_neg b hnb (hb.pos hnb), r2]; rfl

theorem xorCat_spec (a b : List Nat) (ha : Limbs a) (hb : Limbs b) :
    val (xorCat a b) = val a ^^^ val b ∧ Limbs (xorCat a b) ∧ (xorCat a b).length = max a.length b.length := by
  unfold xorCat
  by_cases hl : a.length > b.length
  · rw [if_pos hl]
    obtain ⟨e, l, len⟩ := zip_long_left limbOp_xor rfl a b ha hb (by omega)
    exact ⟨e, l, by unfold xor_n; rw [len]; omega⟩
  · rw [if_neg hl]
    obtain ⟨e, l, len⟩ := zip_long_right limbOp_xor rfl a b ha hb (by omega)
    exact ⟨e, l, by unfold xor_n; rw [len]; omega⟩

theorem xorPP_spec (a b : List Nat) (ha : Limbs a) (hb : Limbs b) :
    (xorPP a b).neg = false ∧ val (xorPP a b).mag = val a ^^^ val b ∧ Limbs (xorPP a b).mag ∧
    Norm (xorPP a b).mag := by
  obtain ⟨e, l, _⟩ := xorCat_spec a b ha hb
  obtain ⟨n1, n2, n3, _, _⟩ := normalize_spec (xorCat a b)
  exact ⟨rfl, by unfold xorPP; rw [n1, e], n3 l, n2⟩

theorem xorNN_spec (a b : List Nat) (ha : Limbs a) (hb : Limbs b) (ha1 : 1 ≤ val a) (hb1 : 1 ≤ val b) :
    (xorNN a b).neg = false ∧ val (xorNN a b).mag = (val a - 1) ^^^ (val b - 1) ∧ Limbs (xorNN a b).mag ∧
    Norm (xorNN a b).mag := by
  obtain ⟨s1, s2, _⟩ := subOne_val a ha ha1
  obtain ⟨t1, t2, _⟩ := subOne_val b hb hb1
  obtain ⟨e, l, _⟩ := xorCat_spec _ _ s2 t2
  obtain ⟨n1, n2, n3, _, _⟩ := normalize_spec (xorCat (subLimb a 1).1 (subLimb b 1).1)
  exact ⟨rfl, by unfold xorNN; rw [n1, e, s1, t1], n3 l, n2⟩

theorem xorPN_spec (a b : List Nat) (ha : Limbs a) (hb : Limbs b) (hb1 : 1 ≤ val b) :
    (xorPN a b).neg = true ∧ val (xorPN a b).mag = (val a ^^^ (val b - 1)) + 1 ∧ Limbs (xorPN a b).mag ∧
    Norm (xorPN a b).mag ∧ (xorPN a b).mag ≠ [] := by
  have hbne : b ≠ [] := by intro h; subst h; simp at hb1
  obtain ⟨t1, t2, t3⟩ := subOne_val b hb hb1
  obtain ⟨e, l, len⟩ := xorCat_spec a _ ha t2
  have hne : xorCat a (subLimb b 1).1 ≠ [] := by
    intro h; have h2 := congrArg List.length h
    rw [len, t3, List.length_nil] at h2
    have : 1 ≤ b.length := List.length_pos_iff.mpr hbne
    omega
  obtain ⟨g1, g2, _, _⟩ := addOneGrow_spec _ l hne
  obtain ⟨n1, n2, n3, _, _⟩ := normalize_spec (addOneGrow (xorCat a (subLimb b 1).1))
  have hv : val (xorPN a b).mag = (val a ^^^ (val b - 1)) + 1 := by
    unfold xorPN; rw [n1, g1, e, t1]
  refine ⟨rfl, hv, n3 g2, n2, ?_⟩
  intro h; rw [h] at hv; simp at hv

theorem mpz_xor_lxor (a b : Z) (ha : a.WF) (hb : b.WF) :
    (mpz_xor a b).toInt = lxor a.toInt b.toInt ∧ (mpz_xor a b).WF := by
  unfold mpz_xor
  cases hna : a.neg <;> cases hnb : b.neg <;>
    simp only [Bool.not_false, Bool.not_true, Bool.false_eq_true, ↓reduceIte]
  · obtain ⟨r1, r2, r3, r4⟩ := xorPP_spec a.mag b.mag ha.limbs hb.limbs
    refine ⟨?_, Z.WF.mk' r3 r4 (by rw [r1]; intro h; cases h)⟩
    rw [toInt_nonneg _ r1, toInt_nonneg a hna, toInt_nonneg b hnb, r2]; rfl
  · obtain ⟨r1, r2, r3, r4, r5⟩ := xorPN_spec a.mag b.mag ha.limbs hb.limbs (hb.pos hnb)
    refine ⟨?_, Z.WF.mk' r3 r4 (fun _ => r5)⟩
    rw [toInt_neg _ r1 (by rw [r2]; omega), toInt_nonneg a hna, toInt_neg b hnb (hb.pos hnb), r2]; rfl
  · obtain ⟨r1, r2, r3, r4, r5⟩ := xorPN_spec b.mag a.mag hb.limbs ha.limbs (ha.pos hna)
    refine ⟨?_, Z.WF.mk' r3 r4 (fun _ => r5)⟩
    rw [toInt_neg _ r1 (by rw [r2]; omega), toInt_neg a hna (ha.pos hna), toInt_nonneg b hnb, r2,
      Nat.xor_comm]; rfl
  · obtain ⟨r1, r2, r3, r4⟩ := xorNN_spec a.mag b.mag ha.limbs hb.limbs (ha.pos hna) (hb.pos hnb)
    refine ⟨?_, Z.WF.mk' r3 r4 (by rw [r1]; intro h; cases h)⟩
    rw [toInt_nonneg _ r1, toInt_neg a hna (ha.pos hna), toInt_neg b hnb (hb.pos hnb), r2]; rfl

theorem mpz_com_lnot (a : Z) (ha : a.WF) : (mpz_com a).toInt = lnot a.toInt ∧ (mpz_com a).WF := by
  unfold mpz_com
  cases hna : a.neg <;> simp only [Bool.not_false, Bool.not_true, Bool.false_eq_true, ↓reduceIte]
  · by_cases h0 : a.mag.length = 0
    · rw [if_pos h0]
      have hnil : a.mag = [] := List.eq_nil_of_length_eq_zero h0
      refine ⟨?_, ⟨by intro y hy; simp at hy; rw [hy, B_eq]; norm_num, by simp, by simp⟩⟩
      rw [toInt_nonneg a hna, hnil]; rfl
    · rw [if_neg h0]
      have hne : a.mag ≠ [] := by intro h; rw [h] at h0; simp at h0
      obtain ⟨g1, g2, g3, g4⟩ := addOneGrow_spec a.mag ha.limbs hne
      refine ⟨?_, Z.WF.mk' g2 (g4 ha.norm) (fun _ => g3)⟩
      rw [toInt_neg _ rfl (by change 1 ≤ val (addOneGrow a.mag); rw [g1]; omega), toInt_nonneg a hna]
      change Int.negSucc (val (addOneGrow a.mag) - 1) = _
      rw [g1]; rfl
  · obtain ⟨d1, d2, d3, _⟩ := subOneDrop_spec a.mag ha.limbs ha.norm (ha.pos hna)
    refine ⟨?_, Z.WF.mk' d2 d3 (by intro h; cases h)⟩
    rw [toInt_nonneg _ rfl, toInt_neg a hna (ha.pos hna)]
    change Int.ofNat (val (dropTopZero (subLimb a.mag 1).1)) = _
    rw [d1]; rfl

theorem com_n_val : ∀ (u : List Nat), Limbs u →
    val (com_n u) = B ^ u.length - 1 - val u ∧ Limbs (com_n u) ∧ (com_n u).length = u.length
  | [], _ => by simp [com_n, Limbs_nil]
  | x :: xs, hu => by
    have ⟨hx, hxs⟩ := Limbs_cons.mp hu
    obtain ⟨i1, i2, i3⟩ := com_n_val xs hxs
    have hlt := val_lt xs hxs
    unfold com_n at *
    simp only [List.map_cons, val_cons, List.length_cons, pow_succ]
    refine ⟨?_, Limbs_cons.mpr ⟨by unfold lnotL; omega, i2⟩, by simp [i3]⟩
    rw [i1]; unfold lnotL
    have hp := pow_B_pos xs.length
    generalize B ^ xs.length = p at *
    generalize val xs = v at *
    have hB := B_pos
    -- B - 1 - x + B * (p - 1 - v) = p * B - 1 - (x + B * v)
    obtain ⟨k, hk⟩ : ∃ k, p = v + 1 + k := ⟨p - 1 - v, by omega⟩
    subst hk
    have e1 : v + 1 + k - 1 - v = k := by omega
    rw [e1]
    have e2 : (v + 1 + k) * B = B * v + B + B * k := by ring
    rw [e2]; omega

theorem limb_iorn (a b : Nat) (ha : a < B) (hb : b < B) : a ||| lnotL b = lnotL (b &&& lnotL a) := by
  apply Nat.eq_of_testBit_eq; intro i
  have hlt : b &&& lnotL a < B := lt_of_le_of_lt Nat.and_le_left hb
  rw [Nat.testBit_or, testBit_lnotL b hb, testBit_lnotL _ hlt, Nat.testBit_and, testBit_lnotL a ha]
  by_cases hi : i < 64
  · simp [hi]; cases a.testBit i <;> cases b.testBit i <;> rfl
  · simp [hi, testBit_limb_high ha (by omega : 64 ≤ i)]

theorem zipWith_congr_limbs (g g' : Nat → Nat → Nat) (h : ∀ a b, a < B → b < B → g a b = g' a b) :
    ∀ (u v : List Nat), Limbs u → Limbs v → List.zipWith g u v = List.zipWith g' u v
  | [], _, _, _ => by simp
  | _ :: _, [], _, _ => by simp
  | x :: xs, y :: ys, hu, hv => by
    have ⟨hx, hxs⟩ := Limbs_cons.mp hu
    have ⟨hy, hys⟩ := Limbs_cons.mp hv
    simp only [List.zipWith_cons_cons, h x y hx hy, zipWith_congr_limbs g g' h xs ys hxs hys]

theorem nand_n_eq (u v : List Nat) : nand_n u v = com_n (and_n u v) := by
  unfold nand_n com_n and_n; rw [List.map_zipWith]
theorem nior_n_eq (u v : List Nat) : nior_n u v = com_n (ior_n u v) := by
  unfold nior_n com_n ior_n; rw [List.map_zipWith]
theorem xnor_n_eq (u v : List Nat) : xnor_n u v = com_n (xor_n u v) := by
  unfold xnor_n com_n xor_n; rw [List.map_zipWith]
theorem iorn_n_eq (u v : List Nat) (hu : Limbs u) (hv : Limbs v) : iorn_n u v = com_n (andn_n v u) := by
  unfold iorn_n com_n andn_n
  rw [List.map_zipWith, zipWith_congr_limbs _ _ limb_iorn u v hu hv, List.zipWith_comm]
theorem lnot_eq_neg (x : Int) : lnot x = -x - 1 := by
  cases x with
  | ofNat n => show Int.negSucc n = -(Int.ofNat n) - 1; rw [Int.negSucc_eq]; simp; omega
  | negSucc n => show Int.ofNat n = -(Int.negSucc n) - 1; rw [Int.negSucc_eq]; simp

theorem shr_mod2 (x k : Nat) : (x >>> k) % 2 = if x.testBit k then 1 else 0 := by
  rw [Nat.testBit_eq_decide_div_mod_eq, Nat.shiftRight_eq_div_pow]
  by_cases h : x / 2 ^ k % 2 = 1
  · simp [h]
  · simp [h]; omega

/-- bit `i` of `y` is bit `i % 64` of limb `i / 64` of `y` -/
theorem testBit_limbAt (y i : Nat) : y.testBit i = (y / B ^ (i / 64) % B).testBit (i % 64) := by
  rw [B_pow]; unfold B
  rw [Nat.testBit_mod_two_pow, Nat.testBit_div_two_pow]
  have h1 : i % 64 < 64 := Nat.mod_lt _ (by decide)
  have h2 : i % 64 + 64 * (i / 64) = i := by omega
  simp [h1, h2]

/-- decomposition of a limb vector at index `li` -/
theorem val_split_at (l : List Nat) (li : Nat) (h : li < l.length) :
    val l = val (l.take li) + B ^ li * (l.getD li 0 + B * val (l.drop (li + 1))) := by
  rw [val_take_drop l li (by omega)]
  congr 2
  rw [List.drop_eq_getElem_cons h, val_cons]
  congr 1
  simp [List.getD_eq_getElem?_getD, h]

theorem getD_lt {l : List Nat} (hl : Limbs l) (i : Nat) : l.getD i 0 < B := by
  by_cases h : i < l.length
  · rw [List.getD_eq_getElem?_getD, List.getElem?_eq_getElem h]; simp; exact hl _ (List.getElem_mem h)
  · rw [List.getD_eq_getElem?_getD, List.getElem?_eq_none (by omega)]; simp; exact B_pos

theorem val_limbAt (l : List Nat) (hl : Limbs l) (li : Nat) : val l / B ^ li % B = l.getD li 0 := by
  by_cases h : li < l.length
  · rw [val_split_at l li h]
    have hlt := val_lt _ (Limbs_take hl li)
    rw [List.length_take, Nat.min_eq_left (by omega)] at hlt
    have hp := pow_B_pos li
    rw [Nat.add_mul_div_left _ _ hp, Nat.div_eq_of_lt hlt, Nat.zero_add, Nat.add_mul_mod_self_left,
      Nat.mod_eq_of_lt (getD_lt hl li)]
  · have hlt := val_lt l hl
    have : B ^ l.length ≤ B ^ li := Nat.pow_le_pow_right B_pos (by omega)
    rw [Nat.div_eq_of_lt (lt_of_lt_of_le hlt this), Nat.zero_mod, List.getD_eq_getElem?_getD,
      List.getElem?_eq_none (by omega)]; rfl

theorem testBit_val (l : List Nat) (hl : Limbs l) (i : Nat) :
    (val l).testBit i = (l.getD (i / 64) 0).testBit (i % 64) := by
  rw [testBit_limbAt, val_limbAt l hl]

theorem val_eq_zero_iff (l : List Nat) : val l = 0 ↔ l.any (· != 0) = false := by
  induction l with
  | nil => simp
  | cons x xs ih =>
    have hB := B_pos
    simp only [val_cons, List.any_cons, Bool.or_eq_false_iff]
    constructor
    · intro h
      have hx : x = 0 := by omega
      have hv : val xs = 0 := by
        rcases Nat.eq_zero_or_pos (val xs) with h0 | h0
        · exact h0
        · have : 0 < B * val xs := Nat.mul_pos hB h0
          omega
      exact ⟨by simp [hx], ih.mp hv⟩
    · rintro ⟨h1, h2⟩
      have hx : x = 0 := by simpa using h1
      rw [hx, ih.mpr h2]; simp

theorem lnot_ones (d : Nat) (hd : d < B) : lnotL ((negL d + B - 1) % B) = d := by
  unfold lnotL negL; rw [B_eq] at *; omega
theorem lnot_neg_pos (d : Nat) (hd : d < B) (h1 : 1 ≤ d) : lnotL (negL d) = d - 1 := by
  unfold lnotL negL; rw [B_eq] at *; omega
theorem lnot_neg_zero : lnotL (negL 0) = B - 1 := by
  unfold lnotL negL; rw [B_eq]
theorem twosLimb_lt (mag : List Nat) (li : Nat) : twosLimb mag li < B := by
  unfold twosLimb negL; simp only; have := B_pos
  split <;> exact Nat.mod_lt _ this

/-- limb `li` of `|x| - 1` is the complement of the two's-complement limb the C computes
    (tstbit.c:54-67): `-limb` below/at the lowest non-zero limb, `~limb` above it -/
theorem limbAt_pred (mag : List Nat) (hl : Limbs mag) (h1 : 1 ≤ val mag) (li : Nat) (h : li < mag.length) :
    (val mag - 1) / B ^ li % B = lnotL (twosLimb mag li) := by
  have hs := val_split_at mag li h
  have hlo := val_lt _ (Limbs_take hl li)
  rw [List.length_take, Nat.min_eq_left (by omega)] at hlo
  have hd := getD_lt hl li
  have hp := pow_B_pos li
  have hz := val_eq_zero_iff (mag.take li)
  unfold twosLimb
  simp only
  generalize mag.getD li 0 = d at *
  generalize val (mag.drop (li + 1)) = hi at *
  generalize val (mag.take li) = lo at *
  generalize hpe : B ^ li = p at *
  rw [hs] at h1 ⊢
  by_cases hany : (mag.take li).any (· != 0) = true
  · rw [if_pos hany, lnot_ones d hd]
    have hlo1 : 1 ≤ lo := by
      rcases Nat.eq_zero_or_pos lo with h0 | h0
      · rw [hz.mp h0] at hany; cases hany
      · exact h0
    have e : lo + p * (d + B * hi) - 1 = (lo - 1) + p * (d + B * hi) := by omega
    rw [e, Nat.add_mul_div_left _ _ hp, Nat.div_eq_of_lt (by omega), Nat.zero_add,
      Nat.add_mul_mod_self_left, Nat.mod_eq_of_lt hd]
  · rw [if_neg hany]
    have hlo0 : lo = 0 := hz.mpr (by simpa using hany)
    subst hlo0
    rw [Nat.zero_add] at h1 ⊢
    have hw : 1 ≤ d + B * hi := by
      rcases Nat.eq_zero_or_pos (d + B * hi) with h0 | h0
      · rw [h0] at h1; simp at h1
      · exact h0
    obtain ⟨w, hw'⟩ : ∃ w, d + B * hi = w + 1 := ⟨d + B * hi - 1, by omega⟩
    have e : p * (d + B * hi) - 1 = (p - 1) + p * w := by
      rw [hw', Nat.mul_succ]; omega
    rw [e, Nat.add_mul_div_left _ _ hp, Nat.div_eq_of_lt (by omega), Nat.zero_add]
    have hweq : w = d + B * hi - 1 := by omega
    rw [hweq]
    by_cases hd0 : d = 0
    · subst hd0
      rw [lnot_neg_zero]
      have hhi : 1 ≤ hi := by
        rcases Nat.eq_zero_or_pos hi with h0 | h0
        · subst h0; simp at hw
        · exact h0
      obtain ⟨k, hk⟩ : ∃ k, hi = k + 1 := ⟨hi - 1, by omega⟩
      subst hk
      have hB := B_pos
      have : 0 + B * (k + 1) - 1 = (B - 1) + B * k := by rw [Nat.mul_succ]; omega
      rw [this, Nat.add_mul_mod_self_left, Nat.mod_eq_of_lt (by omega)]
    · rw [lnot_neg_pos d hd (by omega)]
      have : d + B * hi - 1 = (d - 1) + B * hi := by omega
      rw [this, Nat.add_mul_mod_self_left, Nat.mod_eq_of_lt (by omega)]

/-- bit `i` (inside the operand) of `|x| - 1` -/
theorem testBit_pred (mag : List Nat) (hl : Limbs mag) (h1 : 1 ≤ val mag) (i : Nat) (h : i / 64 < mag.length) :
    (val mag - 1).testBit i = !(twosLimb mag (i / 64)).testBit (i % 64) := by
  rw [testBit_limbAt, limbAt_pred mag hl h1 _ h, testBit_lnotL _ (twosLimb_lt _ _)]
  have : i % 64 < 64 := Nat.mod_lt _ (by decide)
  simp [this]

theorem testBit_high (l : List Nat) (hl : Limbs l) (i : Nat) (h : l.length ≤ i / 64) (v : Nat) (hv : v ≤ val l) :
    v.testBit i = false := by
  apply Nat.testBit_lt_two_pow
  have := val_lt l hl
  rw [B_pow] at this
  calc v ≤ val l := hv
    _ < 2 ^ (64 * l.length) := this
    _ ≤ 2 ^ i := Nat.pow_le_pow_right (by decide) (by omega)

theorem mpz_tstbit_testBit (u : Z) (hu : u.WF) (i : Nat) :
    mpz_tstbit u i = if testBit u.toInt i then 1 else 0 := by
  unfold mpz_tstbit
  simp only
  cases hn : u.neg
  · rw [toInt_nonneg u hn]
    change _ = if (val u.mag).testBit i then 1 else 0
    by_cases hli : i / 64 ≥ u.mag.length
    · rw [if_pos hli, testBit_high u.mag hu.limbs i hli _ (le_refl _)]
    · rw [if_neg hli, testBit_val u.mag hu.limbs, shr_mod2]; simp
  · rw [toInt_neg u hn (hu.pos hn)]
    change _ = if !(val u.mag - 1).testBit i then 1 else 0
    by_cases hli : i / 64 ≥ u.mag.length
    · rw [if_pos hli, testBit_high u.mag hu.limbs i hli _ (Nat.sub_le _ _)]; simp
    · rw [if_neg hli, testBit_pred u.mag hu.limbs (hu.pos hn) i (by omega), shr_mod2]; simp

/-- the bit of `y` at position `r`, as a number -/
def bitAt (y r : Nat) : Nat := if y.testBit r then 1 else 0

theorem bitAt_lt (y r : Nat) : bitAt y r < 2 := by unfold bitAt; split <;> omega

theorem bit_decomp (y r : Nat) : y = y % 2 ^ r + 2 ^ r * (bitAt y r + 2 * (y / 2 ^ (r + 1))) := by
  have h1 := (Nat.mod_add_div y (2 ^ r)).symm
  have h2 := (Nat.mod_add_div (y / 2 ^ r) 2).symm
  have h3 : y / 2 ^ r / 2 = y / 2 ^ (r + 1) := by rw [Nat.div_div_eq_div_mul, pow_succ]
  have h4 : y / 2 ^ r % 2 = bitAt y r := by
    unfold bitAt; rw [Nat.testBit_eq_decide_div_mod_eq]
    by_cases h : y / 2 ^ r % 2 = 1
    · simp [h]
    · simp [h]; omega
  rw [h3, h4] at h2
  conv_lhs => rw [h1, h2]

theorem bw11 : Nat.bitwise (fun a b => a && !b) 1 1 = 0 := by simp [Nat.bitwise]
theorem bw01 : Nat.bitwise (fun a b => a && !b) 0 1 = 0 := by simp
theorem bx11 : Nat.bitwise bne 1 1 = 0 := by simp [Nat.bitwise]
theorem bx01 : Nat.bitwise bne 0 1 = 1 := by simp
theorem bo01 : Nat.bitwise or 0 1 = 1 := by simp
theorem bo11 : Nat.bitwise or 1 1 = 1 := by simp [Nat.bitwise]

theorem bitwise_two_pow (f : Bool → Bool → Bool) (hf : f false false = false) (hf1 : f true false = true)
    (y r : Nat) :
    Nat.bitwise f y (2 ^ r) = y % 2 ^ r + 2 ^ r * (Nat.bitwise f (bitAt y r) 1 + 2 * (y / 2 ^ (r + 1))) := by
  have hlt : y % 2 ^ r < 2 ^ r := Nat.mod_lt _ (Nat.two_pow_pos r)
  have s1 := bitwise_split f hf r (y % 2 ^ r) 0 (bitAt y r + 2 * (y / 2 ^ (r + 1))) 1 hlt (Nat.two_pow_pos r)
  rw [← bit_decomp y r, Nat.bitwise_zero_right, if_pos hf1] at s1
  simp only [Nat.zero_add, Nat.mul_one] at s1
  have s2 := bitwise_split f hf 1 (bitAt y r) 1 (y / 2 ^ (r + 1)) 0 (by simpa using bitAt_lt y r) (by norm_num)
  rw [Nat.bitwise_zero_right, if_pos hf1] at s2
  simp only [pow_one, Nat.mul_zero, Nat.add_zero] at s2
  rw [s1, s2]

theorem or_two_pow_of_set {y r : Nat} (h : y.testBit r = true) : y ||| 2 ^ r = y := by
  have := bitwise_two_pow or rfl rfl y r
  have hb : bitAt y r = 1 := by simp [bitAt, h]
  rw [hb, bo11] at this
  conv_rhs => rw [bit_decomp y r, hb]
  exact this

theorem or_two_pow_of_clear {y r : Nat} (h : y.testBit r = false) : y ||| 2 ^ r = y + 2 ^ r := by
  have := bitwise_two_pow or rfl rfl y r
  have hb : bitAt y r = 0 := by simp [bitAt, h]
  rw [hb] at this
  have hd := bit_decomp y r
  rw [hb] at hd
  have e := bo01
  rw [e] at this
  change y ||| 2 ^ r = _ at this
  rw [this]; conv_rhs => rw [hd]
  ring

theorem ldiff_two_pow_of_set {y r : Nat} (h : y.testBit r = true) : ldiff y (2 ^ r) = y - 2 ^ r := by
  have := bitwise_two_pow (fun a b => a && !b) rfl rfl y r
  have hb : bitAt y r = 1 := by simp [bitAt, h]
  rw [hb] at this
  have hd := bit_decomp y r
  rw [hb] at hd
  have e := bw11
  rw [e] at this
  change ldiff y (2 ^ r) = _ at this
  rw [this]; conv_rhs => rw [hd]
  have : y % 2 ^ r + 2 ^ r * (1 + 2 * (y / 2 ^ (r + 1))) = (y % 2 ^ r + 2 ^ r * (0 + 2 * (y / 2 ^ (r + 1)))) + 2 ^ r := by ring
  rw [this, Nat.add_sub_cancel]

theorem ldiff_two_pow_of_clear {y r : Nat} (h : y.testBit r = false) : ldiff y (2 ^ r) = y := by
  have := bitwise_two_pow (fun a b => a && !b) rfl rfl y r
  have hb : bitAt y r = 0 := by simp [bitAt, h]
  rw [hb] at this
  have hd := bit_decomp y r
  rw [hb] at hd
  have e := bw01
  rw [e] at this
  change ldiff y (2 ^ r) = _ at this
  rw [this]; exact hd.symm

theorem xor_two_pow_of_set {y r : Nat} (h : y.testBit r = true) : y ^^^ 2 ^ r = y - 2 ^ r := by
  have := bitwise_two_pow bne rfl rfl y r
  have hb : bitAt y r = 1 := by simp [bitAt, h]
  rw [hb] at this
  have hd := bit_decomp y r
  rw [hb] at hd
  have e := bx11
  rw [e] at this
  change y ^^^ 2 ^ r = _ at this
  rw [this]; conv_rhs => rw [hd]
  have : y % 2 ^ r + 2 ^ r * (1 + 2 * (y / 2 ^ (r + 1))) = (y % 2 ^ r + 2 ^ r * (0 + 2 * (y / 2 ^ (r + 1)))) + 2 ^ r := by ring
  rw [this, Nat.add_sub_cancel]

theorem xor_two_pow_of_clear {y r : Nat} (h : y.testBit r = false) : y ^^^ 2 ^ r = y + 2 ^ r := by
  have := bitwise_two_pow bne rfl rfl y r
  have hb : bitAt y r = 0 := by simp [bitAt, h]
  rw [hb] at this
  have hd := bit_decomp y r
  rw [hb] at hd
  have e := bx01
  rw [e] at this
  change y ^^^ 2 ^ r = _ at this
  rw [this]; conv_rhs => rw [hd]
  ring

theorem two_pow_split (i : Nat) : 2 ^ i = B ^ (i / 64) * 2 ^ (i % 64) := by
  rw [B_pow, ← pow_add]; congr 1; omega

theorem bit_lt_B (i : Nat) : 2 ^ (i % 64) < B := by
  unfold B; exact Nat.pow_lt_pow_right (by decide) (Nat.mod_lt _ (by decide))

theorem two_bit_le_B (i : Nat) : 2 * 2 ^ (i % 64) ≤ B := by
  unfold B
  have : i % 64 + 1 ≤ 64 := by have := Nat.mod_lt i (by decide : 0 < 64); omega
  calc 2 * 2 ^ (i % 64) = 2 ^ (i % 64 + 1) := by rw [pow_succ]; ring
    _ ≤ 2 ^ 64 := Nat.pow_le_pow_right (by decide) this

theorem val_replicate_zero (k : Nat) : val (List.replicate k 0) = 0 := by
  induction k with
  | zero => rfl
  | succ k ih => simp [List.replicate_succ, ih]

theorem Limbs_replicate_zero (k : Nat) : Limbs (List.replicate k 0) := by
  intro x hx; rw [List.eq_of_mem_replicate hx]; exact B_pos

theorem set_eq_split (l : List Nat) (li : Nat) (y : Nat) (h : li < l.length) :
    l.set li y = l.take li ++ y :: l.drop (li + 1) := by
  rw [List.set_eq_take_append_cons_drop, if_pos h]

theorem val_set (l : List Nat) (li y : Nat) (h : li < l.length) :
    val (l.set li y) = val (l.take li) + B ^ li * (y + B * val (l.drop (li + 1))) := by
  rw [set_eq_split l li y h, val_append, List.length_take, Nat.min_eq_left (by omega), val_cons]

theorem Limbs_set {l : List Nat} (hl : Limbs l) (li y : Nat) (hy : y < B) : Limbs (l.set li y) := by
  intro x hx
  rcases List.mem_or_eq_of_mem_set hx with h | h
  · exact hl x h
  · rw [h]; exact hy

theorem norm_set {l : List Nat} (hn : Norm l) (li y : Nat) (h : li < l.length)
    (hy : li + 1 = l.length → y ≠ 0) : Norm (l.set li y) := by
  rw [set_eq_split l li y h]
  by_cases ht : li + 1 = l.length
  · have : l.drop (li + 1) = [] := List.drop_of_length_le (by omega)
    rw [this]; unfold Norm; simp [hy ht]
  · have hd : l.drop (li + 1) ≠ [] := by
      intro h2; have := congrArg List.length h2; simp at this; omega
    rw [show l.take li ++ y :: l.drop (li + 1) = (l.take li ++ [y]) ++ l.drop (li + 1) by simp]
    apply norm_append hd
    unfold Norm at *; rwa [List.getLast?_drop, if_neg (by omega)]

/-- a bitwise operation with a one-limb second operand placed at limb `li` -/
theorem bitwise_limb_at (f : Bool → Bool → Bool) (hf : f false false = false) (hf1 : f true false = true)
    (li lo d e hi : Nat) (hlo : lo < B ^ li) (hd : d < B) (he : e < B) :
    Nat.bitwise f (lo + B ^ li * (d + B * hi)) (B ^ li * e) =
      lo + B ^ li * (Nat.bitwise f d e + B * hi) := by
  have s1 := bitwise_split f hf (64 * li) lo 0 (d + B * hi) e (by rw [← B_pow]; exact hlo) (Nat.two_pow_pos _)
  rw [← B_pow, Nat.bitwise_zero_right, if_pos hf1, Nat.zero_add] at s1
  have s2 := bitwise_split f hf 64 d e hi 0 (by unfold B at hd; exact hd) (by unfold B at he; exact he)
  rw [Nat.bitwise_zero_right, if_pos hf1, Nat.mul_zero, Nat.add_zero] at s2
  change Nat.bitwise f (d + B * hi) e = Nat.bitwise f d e + B * hi at s2
  rw [s1, s2]

/-- the lowest non-zero limb -/
theorem zeroBound_spec : ∀ (l : List Nat), 1 ≤ val l →
    zeroBound l < l.length ∧ l.getD (zeroBound l) 0 ≠ 0 ∧
    (∀ k, k ≤ zeroBound l → val (l.take k) = 0) ∧ (∀ k, zeroBound l < k → 1 ≤ val (l.take k))
  | [], h => by simp at h
  | x :: xs, h => by
    unfold zeroBound
    by_cases hx : x = 0
    · subst hx
      have hB := B_pos
      have h' : 1 ≤ val xs := by
        rcases Nat.eq_zero_or_pos (val xs) with h0 | h0
        · simp [h0] at h
        · exact h0
      obtain ⟨i1, i2, i3, i4⟩ := zeroBound_spec xs h'
      unfold zeroBound at i1 i2 i3 i4
      simp only [List.takeWhile_cons, beq_self_eq_true, if_true, List.length_cons]
      refine ⟨by omega, by simpa using i2, ?_, ?_⟩
      · intro k hk
        cases k with
        | zero => rfl
        | succ k => simp [i3 k (by omega)]
      · intro k hk
        cases k with
        | zero => omega
        | succ k =>
          have := i4 k (by omega)
          simp only [List.take_succ_cons, val_cons, Nat.zero_add]
          exact Nat.mul_pos hB this
    · have : (x == 0) = false := by simp [hx]
      simp only [List.takeWhile_cons, this, Bool.false_eq_true, if_false, List.length_nil, List.length_cons]
      refine ⟨by omega, by simpa using hx, ?_, ?_⟩
      · intro k hk; have : k = 0 := by omega
        subst this; rfl
      · intro k hk
        cases k with
        | zero => omega
        | succ k => simp only [List.take_succ_cons, val_cons]; omega

/-- `size -= (ptr[size-1] == 0)` normalises as soon as the value reaches the limb below the top one -/
theorem dropTopZero_spec2 (l : List Nat) (hl : Limbs l) (hge : 2 ≤ l.length → B ^ (l.length - 2) ≤ val l) :
    val (dropTopZero l) = val l ∧ Limbs (dropTopZero l) ∧ Norm (dropTopZero l) := by
  induction l using List.reverseRecOn with
  | nil => simp [dropTopZero, Limbs_nil, Norm_nil]
  | append_singleton l x _ =>
    have hll := (Limbs_append.mp hl).1
    unfold dropTopZero
    by_cases hx : x = 0
    · subst hx
      simp only [List.getLast?_append, List.getLast?_singleton, Option.some_or, if_true,
        List.dropLast_concat]
      refine ⟨by rw [val_snoc]; simp, hll, ?_⟩
      by_cases hl0 : l = []
      · subst hl0; exact Norm_nil
      · rw [norm_iff_ge l hll hl0]
        have hlen : 1 ≤ l.length := List.length_pos_iff.mpr hl0
        have := hge (by simp; omega)
        simpa [val_snoc] using this
    · have : ¬ ((l ++ [x]).getLast? = some 0) := by simp [hx]
      rw [if_neg this]
      exact ⟨rfl, hl, by simp [Norm, hx]⟩

/-- the three parts of a limb vector around index `li`, with their bounds -/
theorem split_facts (mag : List Nat) (hl : Limbs mag) (li : Nat) (h : li < mag.length) :
    val mag = val (mag.take li) + B ^ li * (mag.getD li 0 + B * val (mag.drop (li + 1))) ∧
    val (mag.take li) < B ^ li ∧ mag.getD li 0 < B := by
  have hlo := val_lt _ (Limbs_take hl li)
  rw [List.length_take, Nat.min_eq_left (by omega)] at hlo
  exact ⟨val_split_at mag li h, hlo, getD_lt hl li⟩

theorem ne_nil_of_lt {l : List Nat} {k : Nat} (h : k < l.length) : l ≠ [] := by
  intro h2; rw [h2] at h; simp at h

theorem setbit_pos_in (mag : List Nat) (i : Nat) (hl : Limbs mag) (hn : Norm mag) (h : i / 64 < mag.length) :
    val (mag.set (i / 64) (mag.getD (i / 64) 0 ||| 2 ^ (i % 64))) = val mag ||| 2 ^ i ∧
    Limbs (mag.set (i / 64) (mag.getD (i / 64) 0 ||| 2 ^ (i % 64))) ∧
    Norm (mag.set (i / 64) (mag.getD (i / 64) 0 ||| 2 ^ (i % 64))) := by
  obtain ⟨hs, hlo, hd⟩ := split_facts mag hl (i / 64) h
  have hbit := bit_lt_B i
  have hor : mag.getD (i / 64) 0 ||| 2 ^ (i % 64) < B := by
    unfold B at *; exact Nat.or_lt_two_pow hd hbit
  have hv : val (mag.set (i / 64) (mag.getD (i / 64) 0 ||| 2 ^ (i % 64))) = val mag ||| 2 ^ i := by
    rw [val_set _ _ _ h]
    conv_rhs => rw [hs, two_pow_split i]
    exact (bitwise_limb_at or rfl rfl _ _ _ _ _ hlo hd hbit).symm
  have hl' := Limbs_set hl (i / 64) _ hor
  refine ⟨hv, hl', ?_⟩
  have hne : mag.set (i / 64) (mag.getD (i / 64) 0 ||| 2 ^ (i % 64)) ≠ [] := by
    apply ne_nil_of_lt (k := i / 64); simpa using h
  rw [norm_iff_ge _ hl' hne, hv, List.length_set]
  exact le_trans ((norm_iff_ge mag hl (ne_nil_of_lt h)).mp hn) Nat.left_le_or

theorem val_lt_two_pow_of_short (mag : List Nat) (hl : Limbs mag) (i : Nat) (h : mag.length ≤ i / 64) :
    val mag < 2 ^ i := by
  have := val_lt mag hl
  rw [B_pow] at this
  exact lt_of_lt_of_le this (Nat.pow_le_pow_right (by decide) (by omega))

/-- setbit.c:41-50 / clrbit.c:75-85: zero-extend to limb `li` and store the bit there -/
theorem extend_bit (mag : List Nat) (i : Nat) (hl : Limbs mag) (h : mag.length ≤ i / 64) :
    val (mag ++ List.replicate (i / 64 - mag.length) 0 ++ [2 ^ (i % 64)]) = val mag + 2 ^ i ∧
    Limbs (mag ++ List.replicate (i / 64 - mag.length) 0 ++ [2 ^ (i % 64)]) ∧
    Norm (mag ++ List.replicate (i / 64 - mag.length) 0 ++ [2 ^ (i % 64)]) := by
  refine ⟨?_, ?_, ?_⟩
  · rw [val_snoc, val_append, val_replicate_zero, List.length_append, List.length_replicate,
      Nat.mul_zero, Nat.add_zero, two_pow_split i]
    congr 3; omega
  · apply Limbs_append.mpr ⟨Limbs_append.mpr ⟨hl, Limbs_replicate_zero _⟩, ?_⟩
    intro x hx; simp at hx; rw [hx]; exact bit_lt_B i
  · unfold Norm; simp

/-- bits of `|x| - 1` below or at the lowest non-zero limb are the two's complement `-limb` -/
theorem testBit_pred_low (mag : List Nat) (hl : Limbs mag) (h1 : 1 ≤ val mag) (i : Nat)
    (h : i / 64 < zeroBound mag) : (val mag - 1).testBit i = true := by
  obtain ⟨z1, z2, z3, z4⟩ := zeroBound_spec mag h1
  have hli : i / 64 < mag.length := by omega
  rw [testBit_pred mag hl h1 i hli]
  unfold twosLimb
  simp only
  have hany : (mag.take (i / 64)).any (· != 0) = false := (val_eq_zero_iff _).mp (z3 _ (by omega))
  rw [hany]
  have hd0 : mag.getD (i / 64) 0 = 0 := by
    have e1 := z3 (i / 64 + 1) (by omega)
    rw [List.take_add_one, val_append] at e1
    have hp := pow_B_pos (mag.take (i / 64)).length
    have : val (mag[i / 64]?).toList = 0 := by
      rcases Nat.eq_zero_or_pos (val (mag[i / 64]?).toList) with h0 | h0
      · exact h0
      · have := Nat.mul_pos hp h0; omega
    rw [List.getD_eq_getElem?_getD, List.getElem?_eq_getElem hli] at *
    simpa using this
  rw [hd0]; simp [negL]

theorem ldiff_le (y z : Nat) : ldiff y z ≤ y := by
  apply Nat.le_of_testBit; intro i h
  rw [ldiff, Nat.testBit_bitwise rfl] at h
  simp at h; exact h.1

theorem ne_nil_of_val_pos {l : List Nat} (h : 1 ≤ val l) : l ≠ [] := by
  intro h2; rw [h2] at h; simp at h

theorem pred_mod_B (d : Nat) (hd : d < B) (h0 : d ≠ 0) : (d + B - 1) % B = d - 1 := by
  rw [B_eq] at *; omega

/-- setbit on a negative number, bit above the lowest non-zero limb and inside the operand
    (setbit.c:69-87): clear the bit of the magnitude limb, re-normalise if the high limb vanished -/
theorem setbit_neg_above (mag : List Nat) (i : Nat) (hl : Limbs mag) (hn : Norm mag) (h1 : 1 ≤ val mag)
    (hzb : zeroBound mag < i / 64) (h : i / 64 < mag.length) (res : List Nat)
    (hres : (res = mag.set (i / 64) (mag.getD (i / 64) 0 &&& lnotL (2 ^ (i % 64))) ∧
        (i / 64 + 1 = mag.length → mag.getD (i / 64) 0 &&& lnotL (2 ^ (i % 64)) ≠ 0)) ∨
      (mag.getD (i / 64) 0 &&& lnotL (2 ^ (i % 64)) = 0 ∧
        res = normalize (mag.set (i / 64) (mag.getD (i / 64) 0 &&& lnotL (2 ^ (i % 64)))))) :
    val res = ldiff (val mag - 1) (2 ^ i) + 1 ∧ Limbs res ∧ Norm res ∧ res ≠ [] := by
  obtain ⟨hs, hlo, hd⟩ := split_facts mag hl (i / 64) h
  obtain ⟨_, _, _, z4⟩ := zeroBound_spec mag h1
  have hlo1 := z4 (i / 64) hzb
  have hbit := bit_lt_B i
  have hdl : mag.getD (i / 64) 0 &&& lnotL (2 ^ (i % 64)) = ldiff (mag.getD (i / 64) 0) (2 ^ (i % 64)) :=
    limbop_andn _ _ hd hbit
  have hdlt : ldiff (mag.getD (i / 64) 0) (2 ^ (i % 64)) < B := lt_of_le_of_lt (ldiff_le _ _) hd
  have hv : val (mag.set (i / 64) (mag.getD (i / 64) 0 &&& lnotL (2 ^ (i % 64)))) =
      ldiff (val mag - 1) (2 ^ i) + 1 := by
    rw [val_set _ _ _ h, hdl]
    have e1 : val mag - 1 = (val (mag.take (i / 64)) - 1) +
        B ^ (i / 64) * (mag.getD (i / 64) 0 + B * val (mag.drop (i / 64 + 1))) := by
      rw [hs]
      generalize B ^ (i / 64) * (mag.getD (i / 64) 0 + B * val (mag.drop (i / 64 + 1))) = t
      omega
    have key := bitwise_limb_at (fun a b => a && !b) rfl rfl (i / 64) (val (mag.take (i / 64)) - 1)
      (mag.getD (i / 64) 0) (2 ^ (i % 64)) (val (mag.drop (i / 64 + 1))) (by omega) hd hbit
    change ldiff _ _ = _ + _ * (ldiff _ _ + _) at key
    rw [e1, two_pow_split i, key]
    generalize B ^ (i / 64) * (ldiff (mag.getD (i / 64) 0) (2 ^ (i % 64)) + B * val (mag.drop (i / 64 + 1))) = t
    omega
  have hl' := Limbs_set hl (i / 64) _ (hdl ▸ hdlt)
  rcases hres with ⟨hr, hres2⟩ | ⟨_, hr⟩
  · rw [hr]
    refine ⟨hv, hl', norm_set hn _ _ h hres2, ne_nil_of_val_pos (by rw [hv]; omega)⟩
  · obtain ⟨n1, n2, n3, _, _⟩ := normalize_spec (mag.set (i / 64) (mag.getD (i / 64) 0 &&& lnotL (2 ^ (i % 64))))
    rw [hr]
    refine ⟨by rw [n1, hv], n3 hl', n2, ne_nil_of_val_pos (by rw [n1, hv]; omega)⟩

/-- value of `|x| - 1` when limb `li` is the lowest non-zero limb `d` -/
theorem pred_at_zb (p d hi : Nat) (hp : 0 < p) (hd : 1 ≤ d) :
    p * (d + B * hi) - 1 = (p - 1) + p * ((d - 1) + B * hi) := by
  have : d + B * hi = ((d - 1) + B * hi) + 1 := by omega
  rw [this, Nat.mul_succ]
  generalize p * (d - 1 + B * hi) = t
  omega

/-- setbit on a negative number at its lowest non-zero limb (setbit.c:88-110); the carry branch is dead:
    clearing a bit of `limb - 1` and adding 1 cannot wrap. -/
theorem setbit_neg_at (mag : List Nat) (i : Nat) (hl : Limbs mag) (hn : Norm mag) (h1 : 1 ≤ val mag)
    (hzb : i / 64 = zeroBound mag) :
    ((((mag.getD (i / 64) 0 + B - 1) % B) &&& lnotL (2 ^ (i % 64))) + 1) % B ≠ 0 ∧
    val (mag.set (i / 64) (((((mag.getD (i / 64) 0 + B - 1) % B) &&& lnotL (2 ^ (i % 64))) + 1) % B)) =
      ldiff (val mag - 1) (2 ^ i) + 1 ∧
    Limbs (mag.set (i / 64) (((((mag.getD (i / 64) 0 + B - 1) % B) &&& lnotL (2 ^ (i % 64))) + 1) % B)) ∧
    Norm (mag.set (i / 64) (((((mag.getD (i / 64) 0 + B - 1) % B) &&& lnotL (2 ^ (i % 64))) + 1) % B)) := by
  obtain ⟨z1, z2, z3, _⟩ := zeroBound_spec mag h1
  rw [← hzb] at z1 z2
  have hlo0 := z3 (i / 64) (by omega)
  obtain ⟨hs, hlo, hd⟩ := split_facts mag hl (i / 64) z1
  have hbit := bit_lt_B i
  have hp := pow_B_pos (i / 64)
  rw [hlo0, Nat.zero_add] at hs
  generalize hdd : mag.getD (i / 64) 0 = d at *
  have hd1 : 1 ≤ d := Nat.pos_of_ne_zero z2
  rw [pred_mod_B d hd z2, limbop_andn (d - 1) _ (by omega) hbit]
  have hle := ldiff_le (d - 1) (2 ^ (i % 64))
  have hx : (ldiff (d - 1) (2 ^ (i % 64)) + 1) % B = ldiff (d - 1) (2 ^ (i % 64)) + 1 :=
    Nat.mod_eq_of_lt (by omega)
  rw [hx]
  have hxlt : ldiff (d - 1) (2 ^ (i % 64)) + 1 < B := by omega
  refine ⟨by omega, ?_, Limbs_set hl _ _ hxlt, norm_set hn _ _ z1 (fun _ => by omega)⟩
  rw [val_set _ _ _ z1, hlo0, Nat.zero_add, hs, pred_at_zb _ _ _ hp hd1, two_pow_split i]
  have key := bitwise_limb_at (fun a b => a && !b) rfl rfl (i / 64) (B ^ (i / 64) - 1) (d - 1) (2 ^ (i % 64))
    (val (mag.drop (i / 64 + 1))) (by omega) (by omega) hbit
  change ldiff _ _ = _ + _ * (ldiff _ _ + _) at key
  rw [key]
  generalize ldiff (d - 1) (2 ^ (i % 64)) = e
  generalize val (mag.drop (i / 64 + 1)) = hi
  generalize B ^ (i / 64) = p at *
  have : p * (e + 1 + B * hi) = p * (e + B * hi) + p := by ring
  rw [this]; omega

/-- setbit on a negative number beyond its length: the bit is already 1 (sign extension) -/
theorem setbit_neg_beyond (mag : List Nat) (i : Nat) (hl : Limbs mag) (h1 : 1 ≤ val mag)
    (h : mag.length ≤ i / 64) : val mag = ldiff (val mag - 1) (2 ^ i) + 1 := by
  have := testBit_high mag hl i h (val mag - 1) (Nat.sub_le _ _)
  rw [ldiff_two_pow_of_clear this]; omega

/-- mpn_sub_1 / mpn_decr_u without borrow out -/
theorem subLimb_noborrow (u : List Nat) (hu : Limbs u) (v : Nat) (hv : v < B) (hne : u ≠ []) (hge : v ≤ val u) :
    val (subLimb u v).1 = val u - v ∧ Limbs (subLimb u v).1 ∧ (subLimb u v).1.length = u.length := by
  match u, hne with
  | x :: xs, _ =>
    obtain ⟨a1, a2, a3, a4⟩ := subLimb_val x xs v hu hv
    have hlt := val_lt _ a3
    rw [a4] at hlt
    refine ⟨?_, a3, by simpa using a4⟩
    generalize (subLimb (x :: xs) v).2 = c at *
    generalize val (subLimb (x :: xs) v).1 = r at *
    generalize val (x :: xs) = vu at *
    have hc : c = 0 := by
      by_contra hc
      have : c = 1 := by omega
      subst this
      rw [Nat.mul_one] at a1
      generalize B ^ (xs.length + 1) = p at *
      omega
    subst hc; rw [Nat.mul_zero] at a1; omega

/-- mpn_add_1 on the high part: value and growth -/
theorem addLimb_spec (u : List Nat) (hu : Limbs u) (v : Nat) (hv : v < B) (hne : u ≠ []) :
    val (addLimb u v).1 + B ^ u.length * (addLimb u v).2 = val u + v ∧ (addLimb u v).2 ≤ 1 ∧
    Limbs (addLimb u v).1 ∧ (addLimb u v).1.length = u.length := by
  match u, hne with
  | x :: xs, _ => simpa using addLimb_val x xs v hu hv

/-- setbit on a negative number below its lowest non-zero limb (setbit.c:111-117): the magnitude
    decreases by 2^i; at most the top limb becomes zero. -/
theorem setbit_neg_below (mag : List Nat) (i : Nat) (hl : Limbs mag) (hn : Norm mag) (h1 : 1 ≤ val mag)
    (hzb : i / 64 < zeroBound mag) :
    val (dropTopZero (mag.take (i / 64) ++ (subLimb (mag.drop (i / 64)) (2 ^ (i % 64))).1)) =
      ldiff (val mag - 1) (2 ^ i) + 1 ∧
    Limbs (dropTopZero (mag.take (i / 64) ++ (subLimb (mag.drop (i / 64)) (2 ^ (i % 64))).1)) ∧
    Norm (dropTopZero (mag.take (i / 64) ++ (subLimb (mag.drop (i / 64)) (2 ^ (i % 64))).1)) ∧
    dropTopZero (mag.take (i / 64) ++ (subLimb (mag.drop (i / 64)) (2 ^ (i % 64))).1) ≠ [] := by
  obtain ⟨z1, _, z3, _⟩ := zeroBound_spec mag h1
  have hli : i / 64 < mag.length := by omega
  have hlo0 := z3 (i / 64) (by omega)
  have hbit := bit_lt_B i
  have hp := pow_B_pos (i / 64)
  have htb := testBit_pred_low mag hl h1 i hzb
  have hge := Nat.ge_two_pow_of_testBit htb
  have hsplit := val_take_drop mag (i / 64) (by omega)
  rw [hlo0, Nat.zero_add] at hsplit
  have hdne : mag.drop (i / 64) ≠ [] := by
    intro h2; have := congrArg List.length h2; simp at this; omega
  -- W ≥ bit
  have hW : 2 ^ (i % 64) ≤ val (mag.drop (i / 64)) := by
    by_contra hlt
    have hlt : val (mag.drop (i / 64)) < 2 ^ (i % 64) := by omega
    have := Nat.mul_lt_mul_of_pos_left hlt hp
    rw [← hsplit, ← two_pow_split i] at this; omega
  obtain ⟨s1, s2, s3⟩ := subLimb_noborrow (mag.drop (i / 64)) (Limbs_drop hl _) _ hbit hdne hW
  have hlen : (mag.take (i / 64) ++ (subLimb (mag.drop (i / 64)) (2 ^ (i % 64))).1).length = mag.length := by
    rw [List.length_append, s3, List.length_take, List.length_drop]; omega
  have hv : val (mag.take (i / 64) ++ (subLimb (mag.drop (i / 64)) (2 ^ (i % 64))).1) =
      ldiff (val mag - 1) (2 ^ i) + 1 := by
    rw [val_append, hlo0, Nat.zero_add, List.length_take, Nat.min_eq_left (by omega), s1,
      ldiff_two_pow_of_set htb, Nat.mul_sub, ← hsplit, ← two_pow_split i]
    omega
  have hl' : Limbs (mag.take (i / 64) ++ (subLimb (mag.drop (i / 64)) (2 ^ (i % 64))).1) :=
    Limbs_append.mpr ⟨Limbs_take hl _, s2⟩
  obtain ⟨d1, d2, d3⟩ := dropTopZero_spec2 _ hl' (by
    intro h2
    rw [hlen] at h2 ⊢
    rw [hv, ldiff_two_pow_of_set htb]
    have gb := (norm_iff_ge mag hl (ne_nil_of_lt hli)).mp hn
    -- 2 * 2^i ≤ B^(n-1) = B * B^(n-2)
    have e1 : 2 * 2 ^ i ≤ B ^ (mag.length - 1) := by
      rw [two_pow_split i]
      calc 2 * (B ^ (i / 64) * 2 ^ (i % 64)) = B ^ (i / 64) * (2 * 2 ^ (i % 64)) := by ring
        _ ≤ B ^ (i / 64) * B := Nat.mul_le_mul_left _ (two_bit_le_B i)
        _ = B ^ (i / 64 + 1) := by rw [pow_succ]
        _ ≤ B ^ (mag.length - 1) := Nat.pow_le_pow_right B_pos (by omega)
    have e2 : B ^ (mag.length - 1) = B * B ^ (mag.length - 2) := by
      rw [← pow_succ']; congr 1; omega
    generalize B ^ (mag.length - 1) = P at *
    generalize B ^ (mag.length - 2) = Q at *
    generalize (2 : Nat) ^ i = t at *
    rw [B_eq] at e2; omega)
  refine ⟨by rw [d1, hv], d2, d3, ne_nil_of_val_pos (by rw [d1, hv]; omega)⟩

theorem lor_pos (x k : Nat) : lor (Int.ofNat x) (Int.ofNat k) = Int.ofNat (x ||| k) := rfl
theorem lor_neg (m k : Nat) : lor (Int.negSucc m) (Int.ofNat k) = Int.negSucc (ldiff m k) := rfl

/-- shape of the negative-operand result: sign kept, magnitude = (bits of |x|-1 updated) + 1 -/
theorem neg_result (r : Z) (m' : Nat)
    (h : r.neg = true ∧ val r.mag = m' + 1 ∧ Limbs r.mag ∧ Norm r.mag ∧ r.mag ≠ []) :
    r.toInt = Int.negSucc m' ∧ r.WF := by
  obtain ⟨r1, r2, r3, r4, r5⟩ := h
  refine ⟨?_, Z.WF.mk' r3 r4 (fun _ => r5)⟩
  rw [toInt_neg r r1 (by omega), r2]; rfl

theorem mpz_setbit_lor (d : Z) (hd : d.WF) (i : Nat) :
    (mpz_setbit d i).toInt = lor d.toInt (Int.ofNat (2 ^ i)) ∧ (mpz_setbit d i).WF := by
  unfold mpz_setbit
  simp only
  cases hn : d.neg
  · simp only [Bool.not_false, ↓reduceIte]
    rw [toInt_nonneg d hn, lor_pos]
    by_cases hli : i / 64 < d.mag.length
    · rw [if_pos hli]
      obtain ⟨v, l, n⟩ := setbit_pos_in d.mag i hd.limbs hd.norm hli
      refine ⟨?_, Z.WF.mk' l n (by intro h; cases h)⟩
      rw [toInt_nonneg _ rfl]; exact congrArg Int.ofNat v
    · rw [if_neg hli]
      obtain ⟨v, l, n⟩ := extend_bit d.mag i hd.limbs (by omega)
      refine ⟨?_, Z.WF.mk' l n (by intro h; cases h)⟩
      rw [toInt_nonneg _ rfl]
      change Int.ofNat (val (d.mag ++ List.replicate (i / 64 - d.mag.length) 0 ++ [2 ^ (i % 64)])) = _
      rw [v, Nat.or_two_pow_eq_add_of_lt (val_lt_two_pow_of_short d.mag hd.limbs i (by omega))]
  · simp only [Bool.not_true, Bool.false_eq_true, ↓reduceIte]
    have h1 := hd.pos hn
    rw [toInt_neg d hn h1, lor_neg]
    by_cases hgt : i / 64 > zeroBound d.mag
    · rw [if_pos hgt]
      by_cases hli : i / 64 < d.mag.length
      · rw [if_pos hli]
        split
        · rename_i hc
          exact neg_result _ _ ⟨rfl,
            setbit_neg_above d.mag i hd.limbs hd.norm h1 hgt hli _ (Or.inr ⟨hc.1, rfl⟩)⟩
        · rename_i hc
          exact neg_result _ _ ⟨rfl,
            setbit_neg_above d.mag i hd.limbs hd.norm h1 hgt hli _
              (Or.inl ⟨rfl, fun ht h0 => hc ⟨h0, by omega⟩⟩)⟩
      · rw [if_neg hli]
        refine ⟨?_, hd⟩
        rw [toInt_neg d hn h1]
        have := setbit_neg_beyond d.mag i hd.limbs h1 (by omega)
        congr 1; omega
    · rw [if_neg hgt]
      by_cases heq : i / 64 = zeroBound d.mag
      · rw [if_pos heq]
        obtain ⟨x0, v, l, n⟩ := setbit_neg_at d.mag i hd.limbs hd.norm h1 heq
        rw [if_neg x0]
        exact neg_result _ _ ⟨rfl, v, l, n, ne_nil_of_val_pos (by rw [v]; omega)⟩
      · rw [if_neg heq]
        exact neg_result _ _ ⟨rfl, setbit_neg_below d.mag i hd.limbs hd.norm h1 (by omega)⟩

theorem land_lnot_pos (x k : Nat) : land (Int.ofNat x) (lnot (Int.ofNat k)) = Int.ofNat (ldiff x k) := rfl
theorem land_lnot_neg (m k : Nat) : land (Int.negSucc m) (lnot (Int.ofNat k)) = Int.negSucc (m ||| k) := rfl

/-- clrbit on a non-negative number inside the operand (clrbit.c:35-50) -/
theorem clrbit_pos_in (mag : List Nat) (i : Nat) (hl : Limbs mag) (hn : Norm mag) (h : i / 64 < mag.length)
    (res : List Nat)
    (hres : (res = mag.set (i / 64) (mag.getD (i / 64) 0 &&& lnotL (2 ^ (i % 64))) ∧
        (i / 64 + 1 = mag.length → mag.getD (i / 64) 0 &&& lnotL (2 ^ (i % 64)) ≠ 0)) ∨
      res = normalize (mag.set (i / 64) (mag.getD (i / 64) 0 &&& lnotL (2 ^ (i % 64))))) :
    val res = ldiff (val mag) (2 ^ i) ∧ Limbs res ∧ Norm res := by
  obtain ⟨hs, hlo, hd⟩ := split_facts mag hl (i / 64) h
  have hbit := bit_lt_B i
  have hdl : mag.getD (i / 64) 0 &&& lnotL (2 ^ (i % 64)) = ldiff (mag.getD (i / 64) 0) (2 ^ (i % 64)) :=
    limbop_andn _ _ hd hbit
  have hdlt : ldiff (mag.getD (i / 64) 0) (2 ^ (i % 64)) < B := lt_of_le_of_lt (ldiff_le _ _) hd
  have hv : val (mag.set (i / 64) (mag.getD (i / 64) 0 &&& lnotL (2 ^ (i % 64)))) = ldiff (val mag) (2 ^ i) := by
    rw [val_set _ _ _ h, hdl]
    have key := bitwise_limb_at (fun a b => a && !b) rfl rfl (i / 64) (val (mag.take (i / 64)))
      (mag.getD (i / 64) 0) (2 ^ (i % 64)) (val (mag.drop (i / 64 + 1))) hlo hd hbit
    change ldiff _ _ = _ + _ * (ldiff _ _ + _) at key
    conv_rhs => rw [hs, two_pow_split i]
    exact key.symm
  have hl' := Limbs_set hl (i / 64) _ (hdl ▸ hdlt)
  rcases hres with ⟨hr, hres2⟩ | hr
  · rw [hr]; exact ⟨hv, hl', norm_set hn _ _ h hres2⟩
  · obtain ⟨n1, n2, n3, _, _⟩ := normalize_spec (mag.set (i / 64) (mag.getD (i / 64) 0 &&& lnotL (2 ^ (i % 64))))
    rw [hr]; exact ⟨by rw [n1, hv], n3 hl', n2⟩

/-- clrbit on a negative number above its lowest non-zero limb, inside the operand (clrbit.c:71-74) -/
theorem clrbit_neg_above (mag : List Nat) (i : Nat) (hl : Limbs mag) (hn : Norm mag) (h1 : 1 ≤ val mag)
    (hzb : zeroBound mag < i / 64) (h : i / 64 < mag.length) :
    val (mag.set (i / 64) (mag.getD (i / 64) 0 ||| 2 ^ (i % 64))) = ((val mag - 1) ||| 2 ^ i) + 1 ∧
    Limbs (mag.set (i / 64) (mag.getD (i / 64) 0 ||| 2 ^ (i % 64))) ∧
    Norm (mag.set (i / 64) (mag.getD (i / 64) 0 ||| 2 ^ (i % 64))) := by
  obtain ⟨hs, hlo, hd⟩ := split_facts mag hl (i / 64) h
  obtain ⟨_, _, _, z4⟩ := zeroBound_spec mag h1
  have hlo1 := z4 (i / 64) hzb
  have hbit := bit_lt_B i
  have hor : mag.getD (i / 64) 0 ||| 2 ^ (i % 64) < B := by
    unfold B at *; exact Nat.or_lt_two_pow hd hbit
  refine ⟨?_, Limbs_set hl _ _ hor, norm_set hn _ _ h (fun _ h0 => ?_)⟩
  · rw [val_set _ _ _ h]
    have e1 : val mag - 1 = (val (mag.take (i / 64)) - 1) +
        B ^ (i / 64) * (mag.getD (i / 64) 0 + B * val (mag.drop (i / 64 + 1))) := by
      rw [hs]
      generalize B ^ (i / 64) * (mag.getD (i / 64) 0 + B * val (mag.drop (i / 64 + 1))) = t
      omega
    have key := bitwise_limb_at or rfl rfl (i / 64) (val (mag.take (i / 64)) - 1)
      (mag.getD (i / 64) 0) (2 ^ (i % 64)) (val (mag.drop (i / 64 + 1))) (by omega) hd hbit
    change (_ : Nat) ||| (_ : Nat) = _ + _ * (((_ : Nat) ||| (_ : Nat)) + _) at key
    rw [e1, two_pow_split i, key]
    generalize B ^ (i / 64) * ((mag.getD (i / 64) 0 ||| 2 ^ (i % 64)) + B * val (mag.drop (i / 64 + 1))) = t
    omega
  · have := Nat.or_eq_zero_iff.mp h0
    have := Nat.two_pow_pos (i % 64); omega

/-- the carry loop of clrbit.c:92-110 (also setbit.c:92-109): the limb at `li` is 0 after the `+1`, the carry
    goes into the limbs above and may grow the number by one limb.  `hi` = value of the limbs above. -/
theorem carryAbove_spec (m : List Nat) (li : Nat) (hl : Limbs m) (h : li < m.length) (h0 : m.getD li 0 = 0) :
    val (carryAbove m li) = val (m.take li) + B ^ li * (B * (val (m.drop (li + 1)) + 1)) ∧
    Limbs (carryAbove m li) ∧
    (carryAbove m li).length ≥ m.length ∧
    ((carryAbove m li).length = m.length ∨ (carryAbove m li).getLast? = some 1) := by
  obtain ⟨i1, i2, i3, i4⟩ := incr_val (m.drop (li + 1)) (Limbs_drop hl _)
  unfold carryAbove
  generalize incr (m.drop (li + 1)) = res at *
  obtain ⟨r, c⟩ := res
  simp only at i1 i2 i3 i4 ⊢
  have htake : m.take (li + 1) = m.take li ++ [0] := by
    rw [List.take_add_one]; congr 1
    rw [List.getD_eq_getElem?_getD, List.getElem?_eq_getElem h] at h0
    rw [List.getElem?_eq_getElem h]; simp at h0 ⊢; exact h0
  have hlen : (m.take li).length = li := by rw [List.length_take]; omega
  have h1B : 1 < B := by rw [B_eq]; norm_num
  by_cases hc : c = 0
  · subst hc
    rw [Nat.mul_zero, Nat.add_zero] at i1
    simp only [ne_eq, not_true_eq_false, if_false]
    refine ⟨?_, Limbs_append.mpr ⟨Limbs_take hl _, i3⟩, ?_, Or.inl ?_⟩
    · rw [htake, List.append_assoc, val_append, hlen, List.singleton_append, val_cons, i1]; ring
    · rw [List.length_append, i4, List.length_take, List.length_drop]; omega
    · rw [List.length_append, i4, List.length_take, List.length_drop]; omega
  · have hc1 : c = 1 := by omega
    subst hc1
    rw [Nat.mul_one] at i1
    simp only [ne_eq, one_ne_zero, not_false_eq_true, if_true]
    refine ⟨?_, Limbs_append.mpr ⟨Limbs_take hl _, Limbs_append.mpr ⟨i3, ?_⟩⟩, ?_, Or.inr ?_⟩
    · rw [htake, List.append_assoc, val_append, hlen, List.singleton_append, val_cons, val_snoc, i4,
        Nat.mul_one, i1]; ring
    · intro y hy; simp at hy; rw [hy]; exact h1B
    · simp only [List.length_append, i4, List.length_take, List.length_drop, List.length_singleton]; omega
    · simp [List.getLast?_append]

/-- clrbit on a negative number at its lowest non-zero limb (clrbit.c:87-111) -/
theorem clrbit_neg_at (mag : List Nat) (i : Nat) (hl : Limbs mag) (hn : Norm mag) (h1 : 1 ≤ val mag)
    (hzb : i / 64 = zeroBound mag) (x : Nat)
    (hx : x = ((((mag.getD (i / 64) 0 + B - 1) % B) ||| 2 ^ (i % 64)) + 1) % B) (res : List Nat)
    (hres : res = if x = 0 then carryAbove (mag.set (i / 64) x) (i / 64) else mag.set (i / 64) x) :
    val res = ((val mag - 1) ||| 2 ^ i) + 1 ∧ Limbs res ∧ Norm res ∧ res ≠ [] := by
  obtain ⟨z1, z2, z3, _⟩ := zeroBound_spec mag h1
  rw [← hzb] at z1 z2
  have hlo0 := z3 (i / 64) (by omega)
  obtain ⟨hs, hlo, hd⟩ := split_facts mag hl (i / 64) z1
  have hbit := bit_lt_B i
  have hp := pow_B_pos (i / 64)
  rw [hlo0, Nat.zero_add] at hs
  generalize hdd : mag.getD (i / 64) 0 = d at *
  have hd1 : 1 ≤ d := Nat.pos_of_ne_zero z2
  rw [pred_mod_B d hd z2] at hx
  have hy : (d - 1) ||| 2 ^ (i % 64) < B := by
    unfold B at *; exact Nat.or_lt_two_pow (by omega) hbit
  -- target value in limb form
  have key := bitwise_limb_at or rfl rfl (i / 64) (B ^ (i / 64) - 1) (d - 1) (2 ^ (i % 64))
    (val (mag.drop (i / 64 + 1))) (by omega) (by omega) hbit
  change (_ : Nat) ||| (_ : Nat) = _ + _ * (((_ : Nat) ||| (_ : Nat)) + _) at key
  have htarget : ((val mag - 1) ||| 2 ^ i) + 1 =
      B ^ (i / 64) * ((((d - 1) ||| 2 ^ (i % 64)) + 1) + B * val (mag.drop (i / 64 + 1))) := by
    rw [hs, pred_at_zb _ _ _ hp hd1, two_pow_split i, key]
    generalize (d - 1) ||| 2 ^ (i % 64) = e
    generalize val (mag.drop (i / 64 + 1)) = hi
    generalize B ^ (i / 64) = p at *
    have : p * (e + 1 + B * hi) = p * (e + B * hi) + p := by ring
    rw [this]; omega
  have hge : val mag ≤ ((val mag - 1) ||| 2 ^ i) + 1 := by
    have : val mag - 1 ≤ (val mag - 1) ||| 2 ^ i := Nat.left_le_or
    omega
  have gb := (norm_iff_ge mag hl (ne_nil_of_lt z1)).mp hn
  have hxlt : x < B := by rw [hx]; exact Nat.mod_lt _ B_pos
  have hlm := Limbs_set hl (i / 64) x hxlt
  by_cases hx0 : x = 0
  · rw [if_pos hx0] at hres
    have hyB : ((d - 1) ||| 2 ^ (i % 64)) + 1 = B := by
      by_contra hne
      rw [Nat.mod_eq_of_lt (by omega)] at hx; omega
    have hg0 : (mag.set (i / 64) x).getD (i / 64) 0 = 0 := by
      rw [List.getD_eq_getElem?_getD, List.getElem?_set_self (by simpa using z1)]; simpa using hx0
    obtain ⟨c1, c2, c3, c4⟩ := carryAbove_spec (mag.set (i / 64) x) (i / 64) hlm (by simpa using z1) hg0
    have hval : val res = ((val mag - 1) ||| 2 ^ i) + 1 := by
      rw [hres, c1, htarget, hyB, List.take_set_of_le (le_refl _), List.drop_set_of_lt (by omega), hlo0]
      ring
    have hl' : Limbs res := by rw [hres]; exact c2
    have hne : res ≠ [] := ne_nil_of_val_pos (by rw [hval]; omega)
    refine ⟨hval, hl', ?_, hne⟩
    rcases c4 with c4 | c4
    · rw [norm_iff_ge res hl' hne, hval, hres, c4, List.length_set]
      exact le_trans gb hge
    · rw [hres]; unfold Norm; rw [c4]; simp
  · rw [if_neg hx0] at hres
    have hyB : ((d - 1) ||| 2 ^ (i % 64)) + 1 < B := by
      by_contra hne
      have : ((d - 1) ||| 2 ^ (i % 64)) + 1 = B := by omega
      rw [this, Nat.mod_self] at hx; exact hx0 hx
    rw [Nat.mod_eq_of_lt hyB] at hx
    have hval : val res = ((val mag - 1) ||| 2 ^ i) + 1 := by
      rw [hres, val_set _ _ _ z1, hlo0, Nat.zero_add, htarget, hx]
    have hl' : Limbs res := by rw [hres]; exact hlm
    exact ⟨hval, hl', by rw [hres]; exact norm_set hn _ _ z1 (fun _ => hx0),
      ne_nil_of_val_pos (by rw [hval]; omega)⟩

theorem mpz_clrbit_land (d : Z) (hd : d.WF) (i : Nat) :
    (mpz_clrbit d i).toInt = land d.toInt (lnot (Int.ofNat (2 ^ i))) ∧ (mpz_clrbit d i).WF := by
  unfold mpz_clrbit
  simp only
  cases hn : d.neg
  · simp only [Bool.not_false, ↓reduceIte]
    rw [toInt_nonneg d hn, land_lnot_pos]
    by_cases hli : i / 64 < d.mag.length
    · rw [if_pos hli]
      split
      · obtain ⟨v, l, n⟩ := clrbit_pos_in d.mag i hd.limbs hd.norm hli _ (Or.inr rfl)
        refine ⟨?_, Z.WF.mk' l n (by intro h; cases h)⟩
        rw [toInt_nonneg _ rfl]; exact congrArg Int.ofNat v
      · rename_i hc
        obtain ⟨v, l, n⟩ := clrbit_pos_in d.mag i hd.limbs hd.norm hli _
          (Or.inl ⟨rfl, fun ht h0 => hc ⟨h0, by omega⟩⟩)
        refine ⟨?_, Z.WF.mk' l n (by intro h; cases h)⟩
        rw [toInt_nonneg _ rfl]; exact congrArg Int.ofNat v
    · rw [if_neg hli]
      refine ⟨?_, hd⟩
      rw [toInt_nonneg d hn,
        ldiff_two_pow_of_clear (testBit_high d.mag hd.limbs i (by omega) _ (le_refl _))]
  · simp only [Bool.not_true, Bool.false_eq_true, ↓reduceIte]
    have h1 := hd.pos hn
    rw [toInt_neg d hn h1, land_lnot_neg]
    by_cases hgt : i / 64 > zeroBound d.mag
    · rw [if_pos hgt]
      by_cases hli : i / 64 < d.mag.length
      · rw [if_pos hli]
        obtain ⟨v, l, n⟩ := clrbit_neg_above d.mag i hd.limbs hd.norm h1 hgt hli
        exact neg_result _ _ ⟨rfl, v, l, n, ne_nil_of_val_pos (by rw [v]; omega)⟩
      · rw [if_neg hli]
        obtain ⟨v, l, n⟩ := extend_bit d.mag i hd.limbs (by omega)
        apply neg_result _ _ ⟨rfl, ?_, l, n, by simp⟩
        change val (d.mag ++ List.replicate (i / 64 - d.mag.length) 0 ++ [2 ^ (i % 64)]) = _
        have hlt : val d.mag - 1 < 2 ^ i :=
          lt_of_le_of_lt (Nat.sub_le _ _) (val_lt_two_pow_of_short d.mag hd.limbs i (by omega))
        rw [v, Nat.or_two_pow_eq_add_of_lt hlt]; omega
    · rw [if_neg hgt]
      by_cases heq : i / 64 = zeroBound d.mag
      · rw [if_pos heq]
        exact neg_result _ _ ⟨by split <;> rfl, by
          have := clrbit_neg_at d.mag i hd.limbs hd.norm h1 heq _ rfl _ rfl
          split <;> rename_i hx0
          · rw [if_pos hx0] at this; exact this
          · rw [if_neg hx0] at this; exact this⟩
      · rw [if_neg heq]
        refine ⟨?_, hd⟩
        rw [toInt_neg d hn h1, or_two_pow_of_set (testBit_pred_low d.mag hd.limbs h1 i (by omega))]

theorem lxor_pos (x k : Nat) : lxor (Int.ofNat x) (Int.ofNat k) = Int.ofNat (x ^^^ k) := rfl
theorem lxor_neg (m k : Nat) : lxor (Int.negSucc m) (Int.ofNat k) = Int.negSucc (m ^^^ k) := rfl

/-- combit.c:34-41: zero-extend so that limb `li` exists -/
theorem pad_spec (mag : List Nat) (hl : Limbs mag) (li : Nat) :
    val (if li ≥ mag.length then mag ++ List.replicate (li + 1 - mag.length) 0 else mag) = val mag ∧
    Limbs (if li ≥ mag.length then mag ++ List.replicate (li + 1 - mag.length) 0 else mag) ∧
    li < (if li ≥ mag.length then mag ++ List.replicate (li + 1 - mag.length) 0 else mag).length := by
  by_cases h : li ≥ mag.length
  · rw [if_pos h]
    refine ⟨by rw [val_append, val_replicate_zero]; simp, Limbs_append.mpr ⟨hl, Limbs_replicate_zero _⟩, ?_⟩
    rw [List.length_append, List.length_replicate]; omega
  · rw [if_neg h]; exact ⟨rfl, hl, by omega⟩

theorem and_bit_ne_zero (x r : Nat) : x &&& 2 ^ r ≠ 0 ↔ x.testBit r = true := by
  rw [Nat.and_two_pow]
  have := Nat.two_pow_pos r
  cases h : x.testBit r
  · simp
  · simp

theorem combit_pos (dp : List Nat) (i : Nat) (hl : Limbs dp) (h : i / 64 < dp.length) :
    val (normalize (dp.set (i / 64) (dp.getD (i / 64) 0 ^^^ 2 ^ (i % 64)))) = val dp ^^^ 2 ^ i ∧
    Limbs (normalize (dp.set (i / 64) (dp.getD (i / 64) 0 ^^^ 2 ^ (i % 64)))) ∧
    Norm (normalize (dp.set (i / 64) (dp.getD (i / 64) 0 ^^^ 2 ^ (i % 64)))) := by
  obtain ⟨hs, hlo, hd⟩ := split_facts dp hl (i / 64) h
  have hbit := bit_lt_B i
  have hx : dp.getD (i / 64) 0 ^^^ 2 ^ (i % 64) < B := by
    unfold B at *; exact Nat.xor_lt_two_pow hd hbit
  obtain ⟨n1, n2, n3, _, _⟩ := normalize_spec (dp.set (i / 64) (dp.getD (i / 64) 0 ^^^ 2 ^ (i % 64)))
  refine ⟨?_, n3 (Limbs_set hl _ _ hx), n2⟩
  rw [n1, val_set _ _ _ h]
  have key := bitwise_limb_at bne rfl rfl (i / 64) (val (dp.take (i / 64)))
    (dp.getD (i / 64) 0) (2 ^ (i % 64)) (val (dp.drop (i / 64 + 1))) hlo hd hbit
  change (_ : Nat) ^^^ (_ : Nat) = _ + _ * (((_ : Nat) ^^^ (_ : Nat)) + _) at key
  conv_rhs => rw [hs, two_pow_split i]
  exact key.symm

/-- combit.c:62-74: clearing the two's-complement bit increases the magnitude by 2^i -/
theorem combit_neg_add (dp : List Nat) (i : Nat) (hl : Limbs dp) (h : i / 64 < dp.length) :
    val (normalize (dp.take (i / 64) ++ (addLimb (dp.drop (i / 64)) (2 ^ (i % 64))).1 ++
      [(addLimb (dp.drop (i / 64)) (2 ^ (i % 64))).2])) = val dp + 2 ^ i ∧
    Limbs (normalize (dp.take (i / 64) ++ (addLimb (dp.drop (i / 64)) (2 ^ (i % 64))).1 ++
      [(addLimb (dp.drop (i / 64)) (2 ^ (i % 64))).2])) ∧
    Norm (normalize (dp.take (i / 64) ++ (addLimb (dp.drop (i / 64)) (2 ^ (i % 64))).1 ++
      [(addLimb (dp.drop (i / 64)) (2 ^ (i % 64))).2])) := by
  have hbit := bit_lt_B i
  have hdne : dp.drop (i / 64) ≠ [] := by
    intro h2; have := congrArg List.length h2; simp at this; omega
  obtain ⟨a1, a2, a3, a4⟩ := addLimb_spec (dp.drop (i / 64)) (Limbs_drop hl _) _ hbit hdne
  obtain ⟨n1, n2, n3, _, _⟩ := normalize_spec (dp.take (i / 64) ++ (addLimb (dp.drop (i / 64)) (2 ^ (i % 64))).1 ++
      [(addLimb (dp.drop (i / 64)) (2 ^ (i % 64))).2])
  have h1B : 1 < B := by rw [B_eq]; norm_num
  refine ⟨?_, n3 (Limbs_append.mpr ⟨Limbs_append.mpr ⟨Limbs_take hl _, a3⟩, ?_⟩), n2⟩
  · rw [n1, List.append_assoc, val_append, val_snoc, a4, a1, List.length_take, Nat.min_eq_left (by omega)]
    conv_rhs => rw [val_take_drop dp (i / 64) (by omega), two_pow_split i]
    ring
  · intro y hy; simp at hy; rw [hy]; omega

/-- combit.c:75-77: setting the two's-complement bit decreases the magnitude by 2^i (no borrow out) -/
theorem combit_neg_sub (dp : List Nat) (i : Nat) (hl : Limbs dp) (h : i / 64 < dp.length)
    (hge : 2 ^ i + 1 ≤ val dp) :
    val (normalize (dp.take (i / 64) ++ (subLimb (dp.drop (i / 64)) (2 ^ (i % 64))).1)) = val dp - 2 ^ i ∧
    Limbs (normalize (dp.take (i / 64) ++ (subLimb (dp.drop (i / 64)) (2 ^ (i % 64))).1)) ∧
    Norm (normalize (dp.take (i / 64) ++ (subLimb (dp.drop (i / 64)) (2 ^ (i % 64))).1)) := by
  have hbit := bit_lt_B i
  have hp := pow_B_pos (i / 64)
  have hdne : dp.drop (i / 64) ≠ [] := by
    intro h2; have := congrArg List.length h2; simp at this; omega
  have hsplit := val_take_drop dp (i / 64) (by omega)
  have hlo := val_lt _ (Limbs_take hl (i / 64))
  rw [List.length_take, Nat.min_eq_left (by omega)] at hlo
  have hW : 2 ^ (i % 64) ≤ val (dp.drop (i / 64)) := by
    by_contra hlt
    have hlt : val (dp.drop (i / 64)) + 1 ≤ 2 ^ (i % 64) := by omega
    have := Nat.mul_le_mul_left (B ^ (i / 64)) hlt
    rw [← two_pow_split i, Nat.mul_add, Nat.mul_one] at this
    omega
  obtain ⟨s1, s2, s3⟩ := subLimb_noborrow (dp.drop (i / 64)) (Limbs_drop hl _) _ hbit hdne hW
  obtain ⟨n1, n2, n3, _, _⟩ := normalize_spec (dp.take (i / 64) ++ (subLimb (dp.drop (i / 64)) (2 ^ (i % 64))).1)
  refine ⟨?_, n3 (Limbs_append.mpr ⟨Limbs_take hl _, s2⟩), n2⟩
  rw [n1, val_append, s1, List.length_take, Nat.min_eq_left (by omega), Nat.mul_sub, ← two_pow_split i]
  have : 2 ^ i ≤ B ^ (i / 64) * val (dp.drop (i / 64)) := by
    rw [two_pow_split i]; exact Nat.mul_le_mul_left _ hW
  omega

theorem mpz_combit_lxor (d : Z) (hd : d.WF) (i : Nat) :
    (mpz_combit d i).toInt = lxor d.toInt (Int.ofNat (2 ^ i)) ∧ (mpz_combit d i).WF := by
  unfold mpz_combit
  simp only
  obtain ⟨p1, p2, p3⟩ := pad_spec d.mag hd.limbs (i / 64)
  generalize (if i / 64 ≥ d.mag.length then d.mag ++ List.replicate (i / 64 + 1 - d.mag.length) 0 else d.mag) = dp at *
  cases hn : d.neg
  · simp only [Bool.not_false, ↓reduceIte]
    rw [toInt_nonneg d hn, lxor_pos]
    obtain ⟨v, l, n⟩ := combit_pos dp i p2 p3
    refine ⟨?_, Z.WF.mk' l n (by intro h; cases h)⟩
    rw [toInt_nonneg _ rfl]
    change Int.ofNat (val (normalize (dp.set (i / 64) (dp.getD (i / 64) 0 ^^^ 2 ^ (i % 64))))) = _
    rw [v, p1]
  · simp only [Bool.not_true, Bool.false_eq_true, ↓reduceIte]
    have h1 := hd.pos hn
    rw [toInt_neg d hn h1, lxor_neg]
    have htb := testBit_pred dp p2 (by omega) i p3
    rw [p1] at htb
    by_cases hx : twosLimb dp (i / 64) &&& 2 ^ (i % 64) ≠ 0
    · rw [if_pos hx]
      have hx' := (and_bit_ne_zero _ _).mp hx
      rw [hx'] at htb
      obtain ⟨v, l, n⟩ := combit_neg_add dp i p2 p3
      apply neg_result _ _ ⟨rfl, ?_, l, n, ne_nil_of_val_pos (by rw [v, p1]; exact Nat.le_add_right_of_le h1)⟩
      change val (normalize (dp.take (i / 64) ++ (addLimb (dp.drop (i / 64)) (2 ^ (i % 64))).1 ++
        [(addLimb (dp.drop (i / 64)) (2 ^ (i % 64))).2])) = _
      rw [v, p1, xor_two_pow_of_clear (by simpa using htb)]; omega
    · rw [if_neg hx]
      have hx' : (twosLimb dp (i / 64)).testBit (i % 64) = false := by
        cases h : (twosLimb dp (i / 64)).testBit (i % 64)
        · rfl
        · exact absurd ((and_bit_ne_zero _ _).mpr h) hx
      rw [hx'] at htb
      have htb' : (val d.mag - 1).testBit i = true := by simpa using htb
      have hge := Nat.ge_two_pow_of_testBit htb'
      obtain ⟨v, l, n⟩ := combit_neg_sub dp i p2 p3 (by omega)
      apply neg_result _ _ ⟨rfl, ?_, l, n, ne_nil_of_val_pos (by rw [v]; omega)⟩
      change val (normalize (dp.take (i / 64) ++ (subLimb (dp.drop (i / 64)) (2 ^ (i % 64))).1)) = _
      rw [v, p1, xor_two_pow_of_set htb']; omega

theorem ofNat_two_pow (i : Nat) : Int.ofNat (2 ^ i) = (2 : Int) ^ i := by
  change ((2 ^ i : Nat) : Int) = _; push_cast; rfl

theorem popcount_zero : popcount 0 = 0 := by rw [popcount]; simp
theorem popcount_step (n : Nat) : popcount n = n % 2 + popcount (n / 2) := by
  by_cases h : n = 0
  · subst h; simp [popcount_zero]
  · rw [popcount, dif_neg h]

/-- the specification's bit count is the sum of the binary digits -/
theorem popcount_eq_digits (n : Nat) : popcount n = (Nat.digits 2 n).sum := by
  induction n using Nat.strongRecOn with
  | ind n ih =>
    by_cases h : n = 0
    · subst h; simp [popcount_zero]
    · rw [popcount_step, Nat.digits_def' (by decide) (Nat.pos_of_ne_zero h), List.sum_cons,
        ih (n / 2) (Nat.div_lt_self (Nat.pos_of_ne_zero h) (by decide))]

theorem popcount_split (k : Nat) : ∀ (x v : Nat), x < 2 ^ k → popcount (x + 2 ^ k * v) = popcount x + popcount v := by
  induction k with
  | zero => intro x v hx; have : x = 0 := by simpa using hx
            subst this; simp [popcount_zero]
  | succ k ih =>
    intro x v hx
    have e0 : 2 ^ (k + 1) * v = 2 * (2 ^ k * v) := by rw [pow_succ]; ring
    have e1 : (x + 2 ^ (k + 1) * v) % 2 = x % 2 := by
      rw [e0, Nat.add_mul_mod_self_left]
    have e2 : (x + 2 ^ (k + 1) * v) / 2 = x / 2 + 2 ^ k * v := by
      rw [e0, Nat.add_mul_div_left _ _ (by decide : 0 < 2)]
    have hx2 : x / 2 < 2 ^ k := by rw [pow_succ] at hx; omega
    rw [popcount_step, e1, e2, ih _ _ hx2, popcount_step x]; omega

theorem popcAux_eq (k : Nat) : ∀ x, popcAux k x = popcount (x % 2 ^ k) := by
  induction k with
  | zero => intro x; simp [popcAux, Nat.mod_one, popcount_zero]
  | succ k ih =>
    intro x
    have e1 : (x % 2 ^ (k + 1)) % 2 = x % 2 := by
      rw [pow_succ']; exact Nat.mod_mod_of_dvd _ (Dvd.intro _ rfl)
    have e2 : (x % 2 ^ (k + 1)) / 2 = (x / 2) % 2 ^ k := by
      rw [pow_succ']; exact Nat.mod_mul_right_div_self _ _ _
    rw [popcAux, ih, popcount_step (x % 2 ^ (k + 1)), e1, e2]

theorem popc_eq (x : Nat) (hx : x < B) : popc x = popcount x := by
  unfold popc; rw [popcAux_eq, Nat.mod_eq_of_lt (by unfold B at hx; exact hx)]

theorem mpn_popcount_eq : ∀ (u : List Nat), Limbs u → mpn_popcount u = popcount (val u)
  | [], _ => by simp [mpn_popcount, popcount_zero]
  | x :: xs, hu => by
    have ⟨hx, hxs⟩ := Limbs_cons.mp hu
    have ih := mpn_popcount_eq xs hxs
    unfold mpn_popcount at *
    rw [List.map_cons, List.sum_cons, ih, popc_eq x hx, val_cons]
    unfold B at *
    rw [popcount_split 64 x (val xs) hx]

theorem mpn_popcount_append (u v : List Nat) : mpn_popcount (u ++ v) = mpn_popcount u + mpn_popcount v := by
  unfold mpn_popcount; simp

theorem mpz_popcount_eq (u : Z) (hu : u.WF) :
    mpz_popcount u = if u.toInt < 0 then BITCNT_MAX else popcount u.toInt.toNat := by
  unfold mpz_popcount
  cases hn : u.neg
  · simp only [Bool.false_eq_true, ↓reduceIte]
    rw [toInt_nonneg u hn]
    have : ¬ (Int.ofNat (val u.mag) < 0) := by simp
    rw [if_neg this]
    by_cases h0 : u.mag.length > 0
    · rw [if_pos h0, mpn_popcount_eq u.mag hu.limbs]; rfl
    · rw [if_neg h0]
      have : u.mag = [] := List.eq_nil_of_length_eq_zero (by omega)
      rw [this]; simp [popcount_zero]
  · simp only [↓reduceIte]
    rw [toInt_neg u hn (hu.pos hn)]
    have : Int.negSucc (val u.mag - 1) < 0 := Int.negSucc_lt_zero _
    rw [if_pos this]

theorem ctzAux_spec (k : Nat) : ∀ x, x % 2 ^ k ≠ 0 →
    ctzAux k x < k ∧ x.testBit (ctzAux k x) = true ∧ ∀ t, t < ctzAux k x → x.testBit t = false := by
  induction k with
  | zero => intro x h; simp [Nat.mod_one] at h
  | succ k ih =>
    intro x h
    unfold ctzAux
    by_cases h1 : x % 2 = 1
    · rw [if_pos h1]
      refine ⟨by omega, by rw [Nat.testBit_zero]; simp [h1], fun t ht => by omega⟩
    · rw [if_neg h1]
      have hx2 : (x / 2) % 2 ^ k ≠ 0 := by
        intro h0
        apply h
        have e : x % 2 ^ (k + 1) = x % 2 + 2 * ((x / 2) % 2 ^ k) := by
          rw [pow_succ', Nat.mod_mul, ]
        rw [e, h0]; omega
      obtain ⟨i1, i2, i3⟩ := ih (x / 2) hx2
      refine ⟨by omega, ?_, ?_⟩
      · rw [show 1 + ctzAux k (x / 2) = ctzAux k (x / 2) + 1 by omega, Nat.testBit_add_one]; exact i2
      · intro t ht
        cases t with
        | zero => rw [Nat.testBit_zero]; simp [h1]
        | succ t => rw [Nat.testBit_add_one]; exact i3 t (by omega)

/-- count_trailing_zeros on a non-zero limb -/
theorem ctz_spec (x : Nat) (h0 : x ≠ 0) (hx : x < B) :
    ctz x < 64 ∧ x.testBit (ctz x) = true ∧ ∀ t, t < ctz x → x.testBit t = false := by
  unfold ctz
  apply ctzAux_spec 64 x
  rw [Nat.mod_eq_of_lt (by unfold B at hx; exact hx)]; exact h0

theorem testBit_maskHi (k t : Nat) (hk : k ≤ 64) : (maskHi k).testBit t = (decide (k ≤ t) && decide (t < 64)) := by
  unfold maskHi B
  have e : 2 ^ 64 - 2 ^ k = 2 ^ k * (2 ^ (64 - k) - 1) := by
    rw [Nat.mul_sub, ← pow_add, Nat.mul_one]; congr 2; omega
  rw [e, Nat.testBit_two_pow_mul, Nat.testBit_two_pow_sub_one]
  by_cases h1 : k ≤ t <;> by_cases h2 : t < 64 <;> simp [h1, h2] <;> omega

theorem testBit_maskLo (k t : Nat) : (maskLo k).testBit t = decide (t < k) := by
  unfold maskLo; exact Nat.testBit_two_pow_sub_one k t

theorem maskHi_lt (k : Nat) : maskHi k < B := by
  unfold maskHi; have := Nat.two_pow_pos k; have := B_pos; omega

theorem maskLo_lt (k : Nat) (hk : k ≤ 64) : maskLo k < B := by
  unfold maskLo B
  have : 2 ^ k ≤ 2 ^ 64 := Nat.pow_le_pow_right (by decide) hk
  have := Nat.two_pow_pos k; omega

theorem skipZero_spec : ∀ (l : List Nat) (i0 : Nat),
    match skipZero l i0 with
    | some (i, x) => ∃ k, i = i0 + k ∧ k < l.length ∧ l.getD k 0 = x ∧ x ≠ 0 ∧ ∀ j, j < k → l.getD j 0 = 0
    | none => ∀ j, l.getD j 0 = 0
  | [], i0 => by simp [skipZero]
  | x :: xs, i0 => by
    unfold skipZero
    by_cases hx : x = 0
    · rw [if_pos hx]
      have ih := skipZero_spec xs (i0 + 1)
      cases hs : skipZero xs (i0 + 1) with
      | none =>
        rw [hs] at ih; simp only at ih ⊢
        intro j; cases j with
        | zero => simpa using hx
        | succ j => simpa using ih j
      | some p =>
        obtain ⟨i, y⟩ := p
        rw [hs] at ih; simp only at ih ⊢
        obtain ⟨k, e1, e2, e3, e4, e5⟩ := ih
        refine ⟨k + 1, by omega, by simpa using e2, by simpa using e3, e4, ?_⟩
        intro j hj; cases j with
        | zero => simpa using hx
        | succ j => simpa using e5 j (by omega)
    · rw [if_neg hx]
      exact ⟨0, rfl, by simp, by simp, hx, fun j hj => by omega⟩

theorem skipOnes_spec : ∀ (l : List Nat) (i0 : Nat),
    match skipOnes l i0 with
    | some (i, x) => ∃ k, i = i0 + k ∧ k < l.length ∧ l.getD k 0 = x ∧ x ≠ B - 1 ∧ ∀ j, j < k → l.getD j 0 = B - 1
    | none => ∀ j, j < l.length → l.getD j 0 = B - 1
  | [], i0 => by simp [skipOnes]
  | x :: xs, i0 => by
    unfold skipOnes
    by_cases hx : x = B - 1
    · rw [if_pos hx]
      have ih := skipOnes_spec xs (i0 + 1)
      cases hs : skipOnes xs (i0 + 1) with
      | none =>
        rw [hs] at ih; simp only at ih ⊢
        intro j hj; cases j with
        | zero => simpa using hx
        | succ j => simpa using ih j (by simpa using hj)
      | some p =>
        obtain ⟨i, y⟩ := p
        rw [hs] at ih; simp only at ih ⊢
        obtain ⟨k, e1, e2, e3, e4, e5⟩ := ih
        refine ⟨k + 1, by omega, by simpa using e2, by simpa using e3, e4, ?_⟩
        intro j hj; cases j with
        | zero => simpa using hx
        | succ j => simpa using e5 j (by omega)
    · rw [if_neg hx]
      exact ⟨0, rfl, by simp, by simp, hx, fun j hj => by omega⟩

/-- bit `j` of a limb list whose first limb sits at limb index `p` (zero outside the list) -/
def limbBit (L : List Nat) (p j : Nat) : Bool := (L.getD (j / 64 - p) 0).testBit (j % 64)

theorem limbBit_first (x : List Nat) (l : Nat) (p j : Nat) (h : j / 64 = p) :
    limbBit (l :: x) p j = l.testBit (j % 64) := by
  unfold limbBit; rw [h, Nat.sub_self]; rfl

theorem limbBit_rest (x : List Nat) (l : Nat) (p j : Nat) (h : p < j / 64) :
    limbBit (l :: x) p j = (x.getD (j / 64 - (p + 1)) 0).testBit (j % 64) := by
  unfold limbBit
  have : j / 64 - p = (j / 64 - (p + 1)) + 1 := by omega
  rw [this]; rfl

/-- scan1.c:51-72 / scan0.c:92-113 -/
theorem seekOne_spec (limb : Nat) (rest : List Nat) (p start : Nat) (hl : Limbs (limb :: rest))
    (hp : start / 64 = p) :
    match seekOne limb rest p start with
    | some r => start ≤ r ∧ limbBit (limb :: rest) p r = true ∧
        (∀ j, start ≤ j → j < r → limbBit (limb :: rest) p j = false) ∧ r / 64 < p + 1 + rest.length
    | none => ∀ j, start ≤ j → limbBit (limb :: rest) p j = false := by
  have ⟨hlimb, hrest⟩ := Limbs_cons.mp hl
  have hs64 : start % 64 < 64 := Nat.mod_lt _ (by decide)
  have hstart : start = 64 * p + start % 64 := by omega
  have hmlt : limb &&& maskHi (start % 64) < B := lt_of_le_of_lt Nat.and_le_left hlimb
  have hmbit : ∀ t, (limb &&& maskHi (start % 64)).testBit t =
      (limb.testBit t && (decide (start % 64 ≤ t) && decide (t < 64))) := by
    intro t; rw [Nat.testBit_and, testBit_maskHi _ _ (by omega)]
  -- bits of the first limb at or above start%64 vanish when the masked limb is zero
  have hfirst0 : limb &&& maskHi (start % 64) = 0 → ∀ j, start ≤ j → j / 64 = p →
      limbBit (limb :: rest) p j = false := by
    intro h0 j hj hjp
    rw [limbBit_first _ _ _ _ hjp]
    have := hmbit (j % 64)
    rw [h0, Nat.zero_testBit] at this
    have h1 : start % 64 ≤ j % 64 := by omega
    have h2 : j % 64 < 64 := Nat.mod_lt _ (by decide)
    simp [h1, h2] at this; exact this
  unfold seekOne
  simp only
  by_cases hm : limb &&& maskHi (start % 64) = 0
  · rw [if_pos hm]
    by_cases hr : rest.length = 0
    · rw [if_pos hr]
      simp only
      intro j hj
      by_cases hjp : j / 64 = p
      · exact hfirst0 hm j hj hjp
      · rw [limbBit_rest _ _ _ _ (by omega)]
        have : rest = [] := List.eq_nil_of_length_eq_zero hr
        rw [this]; simp
    · rw [if_neg hr]
      have hsz := skipZero_spec rest (p + 1)
      cases hs : skipZero rest (p + 1) with
      | none =>
        rw [hs] at hsz; simp only [Option.map_none] at hsz ⊢
        intro j hj
        by_cases hjp : j / 64 = p
        · exact hfirst0 hm j hj hjp
        · rw [limbBit_rest _ _ _ _ (by omega), hsz]; simp
      | some q =>
        obtain ⟨i, l⟩ := q
        rw [hs] at hsz; simp only [Option.map_some] at hsz ⊢
        obtain ⟨k, e1, e2, e3, e4, e5⟩ := hsz
        have hll : l < B := by rw [← e3]; exact getD_lt hrest k
        obtain ⟨c1, c2, c3⟩ := ctz_spec l e4 hll
        have hr64 : (i * 64 + ctz l) / 64 = i := by omega
        have hr64' : (i * 64 + ctz l) % 64 = ctz l := by omega
        refine ⟨by omega, ?_, ?_, by omega⟩
        · rw [limbBit_rest _ _ _ _ (by omega), hr64, hr64', e1]
          have : p + 1 + k - (p + 1) = k := by omega
          rw [this, e3]; exact c2
        · intro j hj hjr
          by_cases hjp : j / 64 = p
          · exact hfirst0 hm j hj hjp
          · rw [limbBit_rest _ _ _ _ (by omega)]
            by_cases hjk : j / 64 - (p + 1) < k
            · rw [e5 _ hjk]; simp
            · have : j / 64 - (p + 1) = k := by omega
              rw [this, e3]
              exact c3 _ (by omega)
  · rw [if_neg hm]
    simp only
    obtain ⟨c1, c2, c3⟩ := ctz_spec _ hm hmlt
    have hc := hmbit (ctz (limb &&& maskHi (start % 64)))
    rw [c2] at hc
    have hc' : limb.testBit (ctz (limb &&& maskHi (start % 64))) = true ∧
        start % 64 ≤ ctz (limb &&& maskHi (start % 64)) := by
      simp at hc; exact ⟨hc.1, hc.2.1⟩
    have hr64 : (p * 64 + ctz (limb &&& maskHi (start % 64))) / 64 = p := by omega
    have hr64' : (p * 64 + ctz (limb &&& maskHi (start % 64))) % 64 = ctz (limb &&& maskHi (start % 64)) := by omega
    refine ⟨by omega, ?_, ?_, by omega⟩
    · rw [limbBit_first _ _ _ _ hr64, hr64']; exact hc'.1
    · intro j hj hjr
      have hjp : j / 64 = p := by omega
      rw [limbBit_first _ _ _ _ hjp]
      have := hmbit (j % 64)
      rw [c3 _ (by omega)] at this
      have h1 : start % 64 ≤ j % 64 := by omega
      have h2 : j % 64 < 64 := Nat.mod_lt _ (by decide)
      simp [h1, h2] at this; exact this

theorem testBit_ones (t : Nat) : (B - 1).testBit t = decide (t < 64) := by
  unfold B; exact Nat.testBit_two_pow_sub_one 64 t

/-- a limb that is not all ones has a zero bit; `ctz (~l)` is the lowest one -/
theorem ctz_lnot_spec (l : Nat) (hl : l < B) (hne : l ≠ B - 1) :
    ctz (lnotL l) < 64 ∧ l.testBit (ctz (lnotL l)) = false ∧ ∀ t, t < ctz (lnotL l) → l.testBit t = true := by
  have hn0 : lnotL l ≠ 0 := by unfold lnotL; omega
  have hnl : lnotL l < B := by unfold lnotL; have := B_pos; omega
  obtain ⟨c1, c2, c3⟩ := ctz_spec _ hn0 hnl
  refine ⟨c1, ?_, ?_⟩
  · rw [testBit_lnotL l hl] at c2; simp [c1] at c2; exact c2
  · intro t ht
    have := c3 t ht
    rw [testBit_lnotL l hl] at this
    have h64 : t < 64 := by omega
    simp [h64] at this; exact this

/-- scan0.c:56-65 / scan1.c:113-130 -/
theorem seekZero_spec (limb : Nat) (rest : List Nat) (p start : Nat) (hl : Limbs (limb :: rest))
    (hp : start / 64 = p) :
    start ≤ seekZero limb rest p start (p + 1 + rest.length) ∧
    limbBit (limb :: rest) p (seekZero limb rest p start (p + 1 + rest.length)) = false ∧
    (∀ j, start ≤ j → j < seekZero limb rest p start (p + 1 + rest.length) →
      limbBit (limb :: rest) p j = true) ∧
    seekZero limb rest p start (p + 1 + rest.length) ≤ (p + 1 + rest.length) * 64 := by
  have ⟨hlimb, hrest⟩ := Limbs_cons.mp hl
  have hs64 : start % 64 < 64 := Nat.mod_lt _ (by decide)
  have hmlo := maskLo_lt (start % 64) (by omega)
  have horlt : limb ||| maskLo (start % 64) < B := by
    unfold B at *; exact Nat.or_lt_two_pow hlimb hmlo
  have hobit : ∀ t, (limb ||| maskLo (start % 64)).testBit t = (limb.testBit t || decide (t < start % 64)) := by
    intro t; rw [Nat.testBit_or, testBit_maskLo]
  unfold seekZero
  have hso := skipOnes_spec ((limb ||| maskLo (start % 64)) :: rest) p
  cases hs : skipOnes ((limb ||| maskLo (start % 64)) :: rest) p with
  | none =>
    rw [hs] at hso; simp only at hso ⊢
    have hfirst : ∀ t, start % 64 ≤ t → t < 64 → limb.testBit t = true := by
      intro t h1 h2
      have h0 := hso 0 (by simp)
      simp only [List.getD_cons_zero] at h0
      have := hobit t
      rw [h0, testBit_ones] at this
      have h3 : ¬ t < start % 64 := by omega
      simp [h2, h3] at this; exact this
    refine ⟨by omega, ?_, ?_, le_refl _⟩
    · unfold limbBit
      have : (p + 1 + rest.length) * 64 / 64 - p = rest.length + 1 := by omega
      rw [this]; simp
    · intro j hj hjr
      by_cases hjp : j / 64 = p
      · rw [limbBit_first _ _ _ _ hjp]; exact hfirst _ (by omega) (Nat.mod_lt _ (by decide))
      · rw [limbBit_rest _ _ _ _ (by omega)]
        have := hso (j / 64 - (p + 1) + 1) (by simp; omega)
        simp only [List.getD_cons_succ] at this
        rw [this, testBit_ones]; simp; exact Nat.mod_lt _ (by decide)
  | some q =>
    obtain ⟨i, l⟩ := q
    rw [hs] at hso; simp only at hso ⊢
    obtain ⟨k, e1, e2, e3, e4, e5⟩ := hso
    cases k with
    | zero =>
      simp only [List.getD_cons_zero] at e3
      subst e3
      obtain ⟨c1, c2, c3⟩ := ctz_lnot_spec _ horlt e4
      have hc := hobit (ctz (lnotL (limb ||| maskLo (start % 64))))
      rw [c2] at hc
      have hc' : limb.testBit (ctz (lnotL (limb ||| maskLo (start % 64)))) = false ∧
          start % 64 ≤ ctz (lnotL (limb ||| maskLo (start % 64))) := by
        have := hc.symm; simp at this; exact this
      have hi : i = p := by omega
      subst hi
      have hr64 : (i * 64 + ctz (lnotL (limb ||| maskLo (start % 64)))) / 64 = i := by omega
      have hr64' : (i * 64 + ctz (lnotL (limb ||| maskLo (start % 64)))) % 64 =
          ctz (lnotL (limb ||| maskLo (start % 64))) := by omega
      refine ⟨by omega, ?_, ?_, by omega⟩
      · rw [limbBit_first _ _ _ _ hr64, hr64']; exact hc'.1
      · intro j hj hjr
        have hjp : j / 64 = i := by omega
        rw [limbBit_first _ _ _ _ hjp]
        have := hobit (j % 64)
        rw [c3 _ (by omega)] at this
        have h3 : ¬ j % 64 < start % 64 := by omega
        simp [h3] at this; exact this
    | succ k =>
      simp only [List.getD_cons_succ, List.length_cons] at e2 e3
      have hll : l < B := by rw [← e3]; exact getD_lt hrest k
      obtain ⟨c1, c2, c3⟩ := ctz_lnot_spec l hll e4
      have hfirst : ∀ t, start % 64 ≤ t → t < 64 → limb.testBit t = true := by
        intro t h1 h2
        have h0 := e5 0 (by omega)
        simp only [List.getD_cons_zero] at h0
        have := hobit t
        rw [h0, testBit_ones] at this
        have h3 : ¬ t < start % 64 := by omega
        simp [h2, h3] at this; exact this
      have hr64 : (i * 64 + ctz (lnotL l)) / 64 = i := by omega
      have hr64' : (i * 64 + ctz (lnotL l)) % 64 = ctz (lnotL l) := by omega
      refine ⟨by omega, ?_, ?_, by omega⟩
      · rw [limbBit_rest _ _ _ _ (by omega), hr64, hr64']
        have : i - (p + 1) = k := by omega
        rw [this, e3]; exact c2
      · intro j hj hjr
        by_cases hjp : j / 64 = p
        · rw [limbBit_first _ _ _ _ hjp]; exact hfirst _ (by omega) (Nat.mod_lt _ (by decide))
        · rw [limbBit_rest _ _ _ _ (by omega)]
          by_cases hjk : j / 64 - (p + 1) < k
          · have := e5 (j / 64 - (p + 1) + 1) (by omega)
            simp only [List.getD_cons_succ] at this
            rw [this, testBit_ones]; simp; exact Nat.mod_lt _ (by decide)
          · have : j / 64 - (p + 1) = k := by omega
            rw [this, e3]
            exact c3 _ (by omega)

/-- limb `k` of the infinite two's-complement expansion of `u` -/
def E (u : Z) (k : Nat) : Nat :=
  if u.neg then (if k < u.mag.length then twosLimb u.mag k else B - 1) else u.mag.getD k 0

theorem testBit_E (u : Z) (hu : u.WF) (j : Nat) : testBit u.toInt j = (E u (j / 64)).testBit (j % 64) := by
  unfold E
  have h64 : j % 64 < 64 := Nat.mod_lt _ (by decide)
  cases hn : u.neg
  · rw [toInt_nonneg u hn]; simp only [Bool.false_eq_true, ↓reduceIte]
    exact testBit_val u.mag hu.limbs j
  · rw [toInt_neg u hn (hu.pos hn)]; simp only [↓reduceIte]
    change (!(val u.mag - 1).testBit j) = _
    by_cases hk : j / 64 < u.mag.length
    · rw [if_pos hk, testBit_pred u.mag hu.limbs (hu.pos hn) j hk]; simp
    · rw [if_neg hk, testBit_high u.mag hu.limbs j (by omega) _ (Nat.sub_le _ _), testBit_ones]; simp [h64]

theorem any_take_iff (mag : List Nat) (h1 : 1 ≤ val mag) (k : Nat) :
    (mag.take k).any (· != 0) = true ↔ zeroBound mag < k := by
  obtain ⟨_, _, z3, z4⟩ := zeroBound_spec mag h1
  constructor
  · intro h
    by_contra hle
    have := (val_eq_zero_iff _).mp (z3 k (by omega))
    rw [this] at h; cases h
  · intro h
    have := z4 k h
    cases hany : (mag.take k).any (· != 0)
    · rw [(val_eq_zero_iff _).mpr hany] at this; omega
    · rfl

theorem lnotL_lnotL (y : Nat) (hy : y < B) : lnotL (lnotL y) = y := by unfold lnotL; omega

/-- above the lowest non-zero limb the expansion is the one's complement of the magnitude limb
    (also beyond the operand: `~0`) -/
theorem E_above (u : Z) (hu : u.WF) (hn : u.neg = true) (k : Nat) (hk : zeroBound u.mag < k) :
    E u k = lnotL (u.mag.getD k 0) := by
  unfold E; rw [hn]; simp only [↓reduceIte]
  by_cases hkn : k < u.mag.length
  · rw [if_pos hkn]; unfold twosLimb; simp only
    rw [(any_take_iff u.mag (hu.pos hn) k).mpr hk, if_pos rfl]
    have hd := getD_lt hu.limbs k
    have := lnot_ones _ hd
    rw [← this, lnotL_lnotL _ (Nat.mod_lt _ B_pos), this]
  · rw [if_neg hkn, List.getD_eq_getElem?_getD, List.getElem?_eq_none (by omega)]; rfl

/-- at or below the lowest non-zero limb it is the two's complement `-limb` -/
theorem E_at (u : Z) (hu : u.WF) (hn : u.neg = true) (k : Nat) (hk : k ≤ zeroBound u.mag) :
    E u k = negL (u.mag.getD k 0) := by
  obtain ⟨z1, _, _, _⟩ := zeroBound_spec u.mag (hu.pos hn)
  unfold E; rw [hn]; simp only [↓reduceIte]
  rw [if_pos (by omega)]; unfold twosLimb; simp only
  have : ¬ ((u.mag.take k).any (· != 0) = true) := by
    rw [any_take_iff u.mag (hu.pos hn) k]; omega
  rw [if_neg this]

theorem limb_below_zb (mag : List Nat) (h1 : 1 ≤ val mag) (k : Nat) (hk : k < zeroBound mag) :
    mag.getD k 0 = 0 := by
  obtain ⟨z1, _, z3, _⟩ := zeroBound_spec mag h1
  have e1 := z3 (k + 1) (by omega)
  have hkl : k < mag.length := by omega
  rw [List.take_add_one, val_append] at e1
  have hp := pow_B_pos (mag.take k).length
  have : val (mag[k]?).toList = 0 := by
    rcases Nat.eq_zero_or_pos (val (mag[k]?).toList) with h0 | h0
    · exact h0
    · have := Nat.mul_pos hp h0; omega
  rw [List.getD_eq_getElem?_getD, List.getElem?_eq_getElem hkl] at *
  simpa using this

/-- first index ≥ start whose bit equals `b` -/
def FirstBit (x : Int) (b : Bool) (start r : Nat) : Prop :=
  start ≤ r ∧ testBit x r = b ∧ ∀ j, start ≤ j → j < r → testBit x j = !b

theorem limbBit_drop (mag : List Nat) (sl j : Nat) (h : sl ≤ j / 64) :
    limbBit (mag.getD sl 0 :: mag.drop (sl + 1)) sl j = (mag.getD (j / 64) 0).testBit (j % 64) := by
  unfold limbBit
  congr 1
  by_cases he : j / 64 = sl
  · rw [he, Nat.sub_self]; rfl
  · have : j / 64 - sl = (j / 64 - (sl + 1)) + 1 := by omega
    rw [this, List.getD_cons_succ, List.getD_eq_getElem?_getD, List.getElem?_drop,
      List.getD_eq_getElem?_getD]
    congr 2; omega

/-- for a negative operand, at or above its lowest non-zero limb, the expansion is the complement of the limb
    list `c :: mag.drop (sl+1)` where `c` is the adjusted limb the C works with -/
theorem inverted_view (u : Z) (hu : u.WF) (hn : u.neg = true) (sl start : Nat) (hsl : start / 64 = sl)
    (hzb : zeroBound u.mag ≤ sl) (c : Nat) (hc : c < B) (hE : E u sl = lnotL c) (j : Nat) (hj : start ≤ j) :
    testBit u.toInt j = !limbBit (c :: u.mag.drop (sl + 1)) sl j := by
  have h64 : j % 64 < 64 := Nat.mod_lt _ (by decide)
  rw [testBit_E u hu]
  by_cases hjs : j / 64 = sl
  · rw [limbBit_first _ _ _ _ hjs, hjs, hE, testBit_lnotL c hc]; simp [h64]
  · have hgt : sl < j / 64 := by omega
    rw [limbBit_rest _ _ _ _ hgt, E_above u hu hn _ (by omega), testBit_lnotL _ (getD_lt hu.limbs _)]
    rw [List.getD_eq_getElem?_getD (l := u.mag.drop (sl + 1)), List.getElem?_drop, List.getD_eq_getElem?_getD]
    have : sl + 1 + (j / 64 - (sl + 1)) = j / 64 := by omega
    rw [this]; simp [h64]

theorem Limbs_view (mag : List Nat) (hl : Limbs mag) (c sl : Nat) (hc : c < B) :
    Limbs (c :: mag.drop (sl + 1)) := Limbs_cons.mpr ⟨hc, Limbs_drop hl _⟩

theorem view_len (mag : List Nat) (sl : Nat) (h : sl < mag.length) :
    sl + 1 + (mag.drop (sl + 1)).length = mag.length := by rw [List.length_drop]; omega

theorem scan1_inverted (u : Z) (hu : u.WF) (hn : u.neg = true) (sl start : Nat) (hsl : start / 64 = sl)
    (hlt : sl < u.mag.length) (hzb : zeroBound u.mag ≤ sl) (c : Nat) (hc : c < B) (hE : E u sl = lnotL c) :
    FirstBit u.toInt true start (seekZero c (u.mag.drop (sl + 1)) sl start u.mag.length) := by
  obtain ⟨s1, s2, s3, _⟩ := seekZero_spec c (u.mag.drop (sl + 1)) sl start (Limbs_view u.mag hu.limbs c sl hc) hsl
  rw [view_len u.mag sl hlt] at s1 s2 s3
  have hv := inverted_view u hu hn sl start hsl hzb c hc hE
  refine ⟨s1, by rw [hv _ s1, s2]; rfl, fun j h1 h2 => by rw [hv _ h1, s3 j h1 h2]⟩

theorem scan0_inverted (u : Z) (hu : u.WF) (hn : u.neg = true) (sl start : Nat) (hsl : start / 64 = sl)
    (hzb : zeroBound u.mag ≤ sl) (c : Nat) (hc : c < B) (hE : E u sl = lnotL c) :
    match seekOne c (u.mag.drop (sl + 1)) sl start with
    | some r => FirstBit u.toInt false start r
    | none => ∀ j, start ≤ j → testBit u.toInt j = true := by
  have hs := seekOne_spec c (u.mag.drop (sl + 1)) sl start (Limbs_view u.mag hu.limbs c sl hc) hsl
  have hv := inverted_view u hu hn sl start hsl hzb c hc hE
  cases hso : seekOne c (u.mag.drop (sl + 1)) sl start with
  | none =>
    rw [hso] at hs; simp only at hs ⊢
    intro j hj; rw [hv j hj, hs j hj]; rfl
  | some r =>
    rw [hso] at hs; simp only at hs ⊢
    obtain ⟨s1, s2, s3, _⟩ := hs
    exact ⟨s1, by rw [hv _ s1, s2]; rfl, fun j h1 h2 => by rw [hv _ h1, s3 j h1 h2]⟩

theorem E_nonneg (u : Z) (hn : u.neg = false) (k : Nat) : E u k = u.mag.getD k 0 := by
  unfold E; rw [hn]; simp

theorem negL_eq_lnot (d : Nat) (hd : d < B) (h1 : d ≠ 0) : negL d = lnotL ((d + B - 1) % B) := by
  rw [pred_mod_B d hd h1]
  have := lnot_neg_pos d hd (by omega)
  rw [← this, lnotL_lnotL _ (by unfold negL; exact Nat.mod_lt _ B_pos)]

theorem negL_pos (d : Nat) (hd : d < B) (h1 : d ≠ 0) : negL d ≠ 0 ∧ negL d < B := by
  unfold negL; rw [B_eq] at *; omega

theorem mpz_scan1_cases (u : Z) (hu : u.WF) (start : Nat) :
    FirstBit u.toInt true start (mpz_scan1 u start) ∨
    (mpz_scan1 u start = BITCNT_MAX ∧ ∀ j, start ≤ j → testBit u.toInt j = false) := by
  unfold mpz_scan1
  simp only
  have h64 : start % 64 < 64 := Nat.mod_lt _ (by decide)
  by_cases hsl : start / 64 ≥ u.mag.length
  · rw [if_pos hsl]
    cases hn : u.neg
    · right
      simp only [Bool.not_false, ↓reduceIte, true_and]
      intro j hj
      rw [testBit_E u hu, E_nonneg u hn, List.getD_eq_getElem?_getD,
        List.getElem?_eq_none (by omega)]; simp
    · left
      simp only [Bool.not_true, Bool.false_eq_true, ↓reduceIte]
      refine ⟨le_refl _, ?_, fun j h1 h2 => by omega⟩
      rw [testBit_E u hu]; unfold E; rw [hn]; simp only [↓reduceIte]
      rw [if_neg (by omega), testBit_ones]; simp [h64]
  · rw [if_neg hsl]
    have hlt : start / 64 < u.mag.length := by omega
    cases hn : u.neg
    · simp only [Bool.not_false, ↓reduceIte]
      have hs := seekOne_spec (u.mag.getD (start / 64) 0) (u.mag.drop (start / 64 + 1)) (start / 64) start
        (Limbs_view u.mag hu.limbs _ _ (getD_lt hu.limbs _)) rfl
      have hv : ∀ j, start ≤ j → testBit u.toInt j =
          limbBit (u.mag.getD (start / 64) 0 :: u.mag.drop (start / 64 + 1)) (start / 64) j := by
        intro j hj
        rw [testBit_E u hu, E_nonneg u hn, limbBit_drop u.mag _ j (by omega)]
      cases hso : seekOne (u.mag.getD (start / 64) 0) (u.mag.drop (start / 64 + 1)) (start / 64) start with
      | none =>
        rw [hso] at hs; simp only at hs
        right; simp only [Option.getD_none]
        exact ⟨trivial, fun j hj => by rw [hv j hj, hs j hj]⟩
      | some r =>
        rw [hso] at hs; simp only at hs
        obtain ⟨s1, s2, s3, _⟩ := hs
        left; simp only [Option.getD_some]
        exact ⟨s1, by rw [hv _ s1, s2], fun j h1 h2 => by rw [hv _ h1, s3 j h1 h2]; rfl⟩
    · left
      simp only [Bool.not_true, Bool.false_eq_true, ↓reduceIte]
      have h1 := hu.pos hn
      obtain ⟨z1, z2, z3, z4⟩ := zeroBound_spec u.mag h1
      by_cases hany : (u.mag.take (start / 64)).any (· != 0) = true
      · rw [if_pos hany]
        have hzb := (any_take_iff u.mag h1 _).mp hany
        exact scan1_inverted u hu hn _ start rfl hlt (by omega) _ (getD_lt hu.limbs _)
          (E_above u hu hn _ hzb)
      · rw [if_neg hany]
        have hzb : start / 64 ≤ zeroBound u.mag := by
          by_contra h; exact hany ((any_take_iff u.mag h1 _).mpr (by omega))
        by_cases hl0 : u.mag.getD (start / 64) 0 = 0
        · rw [if_pos hl0]
          have hzb' : start / 64 < zeroBound u.mag := by
            rcases Nat.lt_or_ge (start / 64) (zeroBound u.mag) with h | h
            · exact h
            · have : start / 64 = zeroBound u.mag := by omega
              rw [this] at hl0; exact absurd hl0 z2
          have hsz := skipZero_spec (u.mag.drop (start / 64 + 1)) (start / 64 + 1)
          have hget : ∀ k, (u.mag.drop (start / 64 + 1)).getD k 0 = u.mag.getD (start / 64 + 1 + k) 0 := by
            intro k
            rw [List.getD_eq_getElem?_getD, List.getElem?_drop, List.getD_eq_getElem?_getD]
          cases hs : skipZero (u.mag.drop (start / 64 + 1)) (start / 64 + 1) with
          | none =>
            rw [hs] at hsz; simp only at hsz
            have := hsz (zeroBound u.mag - (start / 64 + 1))
            rw [hget] at this
            have e : start / 64 + 1 + (zeroBound u.mag - (start / 64 + 1)) = zeroBound u.mag := by omega
            rw [e] at this; exact absurd this z2
          | some q =>
            obtain ⟨i, l⟩ := q
            rw [hs] at hsz; simp only at hsz ⊢
            obtain ⟨k, e1, e2, e3, e4, e5⟩ := hsz
            rw [hget] at e3
            have hi : i = zeroBound u.mag := by
              have a1 : ¬ (i < zeroBound u.mag) := by
                intro hlt'
                have := limb_below_zb u.mag h1 i hlt'
                rw [e1, e3] at this; exact e4 this
              have a2 : ¬ (zeroBound u.mag - (start / 64 + 1) < k) := by
                intro hlt'
                have := e5 _ hlt'
                rw [hget] at this
                have e : start / 64 + 1 + (zeroBound u.mag - (start / 64 + 1)) = zeroBound u.mag := by omega
                rw [e] at this; exact z2 this
              omega
            have hlB : l < B := by rw [← e3]; exact getD_lt hu.limbs _
            obtain ⟨n1, n2⟩ := negL_pos l hlB e4
            obtain ⟨c1, c2, c3⟩ := ctz_spec (negL l) n1 n2
            have hr64 : (i * 64 + ctz (negL l)) / 64 = i := by omega
            have hr64' : (i * 64 + ctz (negL l)) % 64 = ctz (negL l) := by omega
            have hEi : E u i = negL l := by
              rw [E_at u hu hn i (by omega), ← e3, e1]
            refine ⟨by omega, by rw [testBit_E u hu, hr64, hr64', hEi]; exact c2, ?_⟩
            intro j hj1 hj2
            rw [testBit_E u hu]
            by_cases hji : j / 64 = i
            · rw [hji, hEi]; exact c3 _ (by omega)
            · have hjlt : j / 64 < zeroBound u.mag := by omega
              rw [E_at u hu hn _ (by omega), limb_below_zb u.mag h1 _ hjlt]; simp [negL]
        · rw [if_neg hl0]
          have hzbe : start / 64 = zeroBound u.mag := by
            by_contra hne
            exact hl0 (limb_below_zb u.mag h1 _ (by omega))
          have hd := getD_lt hu.limbs (start / 64)
          exact scan1_inverted u hu hn _ start rfl hlt (by omega) _ (Nat.mod_lt _ B_pos)
            (by rw [E_at u hu hn _ hzb]; exact negL_eq_lnot _ hd hl0)

theorem mpz_scan0_cases (u : Z) (hu : u.WF) (start : Nat) :
    FirstBit u.toInt false start (mpz_scan0 u start) ∨
    (mpz_scan0 u start = BITCNT_MAX ∧ ∀ j, start ≤ j → testBit u.toInt j = true) := by
  unfold mpz_scan0
  simp only
  have h64 : start % 64 < 64 := Nat.mod_lt _ (by decide)
  by_cases hsl : start / 64 ≥ u.mag.length
  · rw [if_pos hsl]
    cases hn : u.neg
    · left
      simp only [Bool.not_false, ↓reduceIte]
      refine ⟨le_refl _, ?_, fun j h1 h2 => by omega⟩
      rw [testBit_E u hu, E_nonneg u hn, List.getD_eq_getElem?_getD,
        List.getElem?_eq_none (by omega)]; simp
    · right
      simp only [Bool.not_true, Bool.false_eq_true, ↓reduceIte, true_and]
      intro j hj
      rw [testBit_E u hu]; unfold E; rw [hn]; simp only [↓reduceIte]
      rw [if_neg (by omega), testBit_ones]; simp; exact Nat.mod_lt _ (by decide)
  · rw [if_neg hsl]
    have hlt : start / 64 < u.mag.length := by omega
    cases hn : u.neg
    · left
      simp only [Bool.not_false, ↓reduceIte]
      obtain ⟨s1, s2, s3, _⟩ := seekZero_spec (u.mag.getD (start / 64) 0) (u.mag.drop (start / 64 + 1))
        (start / 64) start (Limbs_view u.mag hu.limbs _ _ (getD_lt hu.limbs _)) rfl
      rw [view_len u.mag _ hlt] at s1 s2 s3
      have hv : ∀ j, start ≤ j → testBit u.toInt j =
          limbBit (u.mag.getD (start / 64) 0 :: u.mag.drop (start / 64 + 1)) (start / 64) j := by
        intro j hj
        rw [testBit_E u hu, E_nonneg u hn, limbBit_drop u.mag _ j (by omega)]
      exact ⟨s1, by rw [hv _ s1, s2], fun j h1 h2 => by rw [hv _ h1, s3 j h1 h2]; rfl⟩
    · simp only [Bool.not_true, Bool.false_eq_true, ↓reduceIte]
      have h1 := hu.pos hn
      obtain ⟨z1, z2, z3, z4⟩ := zeroBound_spec u.mag h1
      have hd := getD_lt hu.limbs (start / 64)
      by_cases hany : (u.mag.take (start / 64)).any (· != 0) = true
      · rw [if_pos hany]
        have hzb := (any_take_iff u.mag h1 _).mp hany
        have := scan0_inverted u hu hn _ start rfl (by omega) _ hd (E_above u hu hn _ hzb)
        cases hso : seekOne (u.mag.getD (start / 64) 0) (u.mag.drop (start / 64 + 1)) (start / 64) start with
        | none => rw [hso] at this; right; exact ⟨rfl, this⟩
        | some r => rw [hso] at this; left; exact this
      · rw [if_neg hany]
        have hzb : start / 64 ≤ zeroBound u.mag := by
          by_contra h; exact hany ((any_take_iff u.mag h1 _).mpr (by omega))
        have hcB : (u.mag.getD (start / 64) 0 + B - 1) % B < B := Nat.mod_lt _ B_pos
        by_cases hzbe : start / 64 = zeroBound u.mag
        · have hl0 : u.mag.getD (start / 64) 0 ≠ 0 := by rw [hzbe]; exact z2
          have := scan0_inverted u hu hn _ start rfl (by omega) _ hcB
            (by rw [E_at u hu hn _ hzb]; exact negL_eq_lnot _ hd hl0)
          cases hso : seekOne ((u.mag.getD (start / 64) 0 + B - 1) % B) (u.mag.drop (start / 64 + 1))
              (start / 64) start with
          | none => rw [hso] at this; right; exact ⟨rfl, this⟩
          | some r => rw [hso] at this; left; exact this
        · -- below the lowest non-zero limb: the limb is 0, `limb - 1` is all ones, the answer is `start`
          have hl0 := limb_below_zb u.mag h1 (start / 64) (by omega)
          have hs := seekOne_spec ((u.mag.getD (start / 64) 0 + B - 1) % B) (u.mag.drop (start / 64 + 1))
            (start / 64) start (Limbs_view u.mag hu.limbs _ _ hcB) rfl
          have hc1 : (u.mag.getD (start / 64) 0 + B - 1) % B = B - 1 := by
            rw [hl0, Nat.zero_add, Nat.mod_eq_of_lt (by have := B_pos; omega)]
          have hbit : limbBit ((u.mag.getD (start / 64) 0 + B - 1) % B :: u.mag.drop (start / 64 + 1))
              (start / 64) start = true := by
            rw [limbBit_first _ _ _ _ rfl, hc1, testBit_ones]; simp [h64]
          cases hso : seekOne ((u.mag.getD (start / 64) 0 + B - 1) % B) (u.mag.drop (start / 64 + 1))
              (start / 64) start with
          | none =>
            rw [hso] at hs; simp only at hs
            rw [hs start (le_refl _)] at hbit; cases hbit
          | some r =>
            rw [hso] at hs; simp only at hs
            obtain ⟨s1, s2, s3, _⟩ := hs
            have hr : r = start := by
              by_contra hne
              have := s3 start (le_refl _) (by omega)
              rw [this] at hbit; cases hbit
            left; simp only [Option.getD_some]
            subst hr
            refine ⟨le_refl _, ?_, fun j h1 h2 => by omega⟩
            rw [testBit_E u hu, E_at u hu hn _ hzb, hl0]; simp [negL]

theorem first_or_max {x : Int} {b : Bool} {start r : Nat}
    (h : FirstBit x b start r ∨ (r = BITCNT_MAX ∧ ∀ j, start ≤ j → testBit x j = !b)) :
    ((∃ j, start ≤ j ∧ Int.testBit x j = b) →
      start ≤ r ∧ Int.testBit x r = b ∧ ∀ j, start ≤ j → j < r → Int.testBit x j = !b) ∧
    ((∀ j, start ≤ j → Int.testBit x j = !b) → r = BITCNT_MAX) := by
  simp only [← testBit_eq]
  constructor
  · rintro ⟨j, hj, hb⟩
    rcases h with h | ⟨_, h⟩
    · exact h
    · have := h j hj; rw [hb] at this; cases b <;> cases this
  · intro hall
    rcases h with ⟨h1, h2, _⟩ | ⟨h, _⟩
    · have := hall r h1; rw [h2] at this; cases b <;> cases this
    · exact h

theorem skipZero_cons_eq_seekOne (x : Nat) (rest : List Nat) (w start : Nat) :
    (skipZero ((x &&& maskHi (start % 64)) :: rest) w).map (fun (p : Nat × Nat) => p.1 * 64 + ctz p.2) =
    seekOne x rest w start := by
  unfold seekOne
  rw [skipZero]
  simp only
  by_cases hm : x &&& maskHi (start % 64) = 0
  · rw [if_pos hm, if_pos hm]
    by_cases hr : rest.length = 0
    · rw [if_pos hr]
      have : rest = [] := List.eq_nil_of_length_eq_zero hr
      rw [this]; simp [skipZero]
    · rw [if_neg hr]
  · rw [if_neg hm, if_neg hm]; rfl

theorem drop_cons_of_lt (u : List Nat) (w : Nat) (h : w < u.length) :
    u.drop w = u.getD w 0 :: u.drop (w + 1) := by
  rw [List.drop_eq_getElem_cons h]; congr 1
  rw [List.getD_eq_getElem?_getD, List.getElem?_eq_getElem h]; rfl

/-- mpn_scan1 inside its precondition (a one bit at or after `start` exists): the first such bit -/
theorem mpn_scan1_correct (u : List Nat) (hu : Limbs u) (start : Nat)
    (hpre : ∃ j, start ≤ j ∧ (val u).testBit j = true) :
    ∃ r, mpn_scan1 u start = some r ∧ start ≤ r ∧ (val u).testBit r = true ∧
      ∀ j, start ≤ j → j < r → (val u).testBit j = false := by
  obtain ⟨j0, hj0, hb0⟩ := hpre
  have hw : start / 64 < u.length := by
    by_contra h
    rw [testBit_high u hu j0 (by omega) _ (le_refl _)] at hb0; cases hb0
  unfold mpn_scan1
  simp only
  rw [drop_cons_of_lt u _ hw]
  simp only
  have hv : ∀ j, start ≤ j → (val u).testBit j =
      limbBit (u.getD (start / 64) 0 :: u.drop (start / 64 + 1)) (start / 64) j := by
    intro j hj; rw [testBit_val u hu, limbBit_drop u _ j (by omega)]
  have hs := seekOne_spec (u.getD (start / 64) 0) (u.drop (start / 64 + 1)) (start / 64) start
    (Limbs_view u hu _ _ (getD_lt hu _)) rfl
  have heq := skipZero_cons_eq_seekOne (u.getD (start / 64) 0) (u.drop (start / 64 + 1)) (start / 64) start
  rw [show (fun (x : Nat × Nat) => match x with | (i, l) => i * 64 + ctz l) =
      (fun (p : Nat × Nat) => p.1 * 64 + ctz p.2) from rfl, heq]
  cases hso : seekOne (u.getD (start / 64) 0) (u.drop (start / 64 + 1)) (start / 64) start with
  | none =>
    rw [hso] at hs; simp only at hs
    rw [hv j0 hj0, hs j0 hj0] at hb0; cases hb0
  | some r =>
    rw [hso] at hs; simp only at hs
    obtain ⟨s1, s2, s3, _⟩ := hs
    exact ⟨r, rfl, s1, by rw [hv _ s1, s2], fun j h1 h2 => by rw [hv _ h1, s3 j h1 h2]⟩

theorem com_n_getD (l : List Nat) (k : Nat) (h : k < l.length) : (com_n l).getD k 0 = lnotL (l.getD k 0) := by
  unfold com_n
  rw [List.getD_eq_getElem?_getD, List.getD_eq_getElem?_getD, List.getElem?_map,
    List.getElem?_eq_getElem h]; rfl

theorem Limbs_com_n (l : List Nat) : Limbs (com_n l) := by
  intro x hx; unfold com_n at hx
  obtain ⟨y, _, rfl⟩ := List.mem_map.mp hx
  unfold lnotL; have := B_pos; omega

/-- mpn_scan0 inside its precondition (a zero bit at or after `start` exists inside the operand) -/
theorem mpn_scan0_correct (u : List Nat) (hu : Limbs u) (start : Nat)
    (hpre : ∃ j, start ≤ j ∧ j / 64 < u.length ∧ (val u).testBit j = false) :
    ∃ r, mpn_scan0 u start = some r ∧ start ≤ r ∧ r / 64 < u.length ∧ (val u).testBit r = false ∧
      ∀ j, start ≤ j → j < r → (val u).testBit j = true := by
  obtain ⟨j0, hj0, hk0, hb0⟩ := hpre
  have hw : start / 64 < u.length := by omega
  unfold mpn_scan0
  simp only
  rw [drop_cons_of_lt u _ hw]
  simp only
  have hlen : start / 64 + 1 + (com_n (u.drop (start / 64 + 1))).length = u.length := by
    unfold com_n; rw [List.length_map, List.length_drop]; omega
  have hv : ∀ j, start ≤ j → j / 64 < u.length → (val u).testBit j =
      !limbBit (lnotL (u.getD (start / 64) 0) :: com_n (u.drop (start / 64 + 1))) (start / 64) j := by
    intro j hj hjl
    have h64 : j % 64 < 64 := Nat.mod_lt _ (by decide)
    rw [testBit_val u hu]
    by_cases hjs : j / 64 = start / 64
    · rw [limbBit_first _ _ _ _ hjs, hjs, testBit_lnotL _ (getD_lt hu _)]; simp [h64]
    · rw [limbBit_rest _ _ _ _ (by omega), com_n_getD _ _ (by rw [List.length_drop]; omega),
        testBit_lnotL _ (getD_lt (Limbs_drop hu _) _)]
      rw [List.getD_eq_getElem?_getD (l := u.drop (start / 64 + 1)), List.getElem?_drop,
        List.getD_eq_getElem?_getD]
      have : start / 64 + 1 + (j / 64 - (start / 64 + 1)) = j / 64 := by omega
      rw [this]; simp [h64]
  have hlnot : lnotL (u.getD (start / 64) 0) < B := by unfold lnotL; have := B_pos; omega
  have hs := seekOne_spec (lnotL (u.getD (start / 64) 0)) (com_n (u.drop (start / 64 + 1))) (start / 64) start
    (Limbs_cons.mpr ⟨hlnot, Limbs_com_n _⟩) rfl
  have heq := skipZero_cons_eq_seekOne (lnotL (u.getD (start / 64) 0)) (com_n (u.drop (start / 64 + 1)))
    (start / 64) start
  rw [show (fun (x : Nat × Nat) => match x with | (i, l) => i * 64 + ctz l) =
      (fun (p : Nat × Nat) => p.1 * 64 + ctz p.2) from rfl, heq]
  cases hso : seekOne (lnotL (u.getD (start / 64) 0)) (com_n (u.drop (start / 64 + 1))) (start / 64) start with
  | none =>
    rw [hso] at hs; simp only at hs
    rw [hv j0 hj0 hk0, hs j0 hj0] at hb0; cases hb0
  | some r =>
    rw [hso] at hs; simp only at hs
    obtain ⟨s1, s2, s3, s4⟩ := hs
    rw [hlen] at s4
    exact ⟨r, rfl, s1, s4, by rw [hv _ s1 s4, s2]; rfl,
      fun j h1 h2 => by rw [hv _ h1 (by omega), s3 j h1 h2]; rfl⟩

/-- xor and bit count split at a power of two -/
theorem xor_split (k x y p q : Nat) (hx : x < 2 ^ k) (hy : y < 2 ^ k) :
    (x + 2 ^ k * p) ^^^ (y + 2 ^ k * q) = (x ^^^ y) + 2 ^ k * (p ^^^ q) :=
  bitwise_split bne rfl k x y p q hx hy

theorem popcount_xor_split (k x y p q : Nat) (hx : x < 2 ^ k) (hy : y < 2 ^ k) :
    popcount ((x + 2 ^ k * p) ^^^ (y + 2 ^ k * q)) = popcount (x ^^^ y) + popcount (p ^^^ q) := by
  rw [xor_split k x y p q hx hy, popcount_split k _ _ (Nat.xor_lt_two_pow hx hy)]

theorem popcount_xor_split_B (x y p q : Nat) (hx : x < B) (hy : y < B) :
    popcount ((x + B * p) ^^^ (y + B * q)) = popcount (x ^^^ y) + popcount (p ^^^ q) := by
  unfold B at *; exact popcount_xor_split 64 x y p q hx hy

/-- complementing the low `k` bits -/
theorem popcount_compl (k : Nat) : ∀ x, x < 2 ^ k → popcount (x ^^^ (2 ^ k - 1)) + popcount x = k := by
  induction k with
  | zero => intro x hx; have : x = 0 := by simpa using hx
            subst this; simp [popcount_zero]
  | succ k ih =>
    intro x hx
    have hx2 : x / 2 < 2 ^ k := by rw [pow_succ] at hx; omega
    have hpos := Nat.two_pow_pos k
    have e1 : (2 ^ (k + 1) - 1) / 2 = 2 ^ k - 1 := by rw [pow_succ]; omega
    have e2 : (2 ^ (k + 1) - 1) % 2 = 1 := by rw [pow_succ]; omega
    have hm : (x ^^^ (2 ^ (k + 1) - 1)) % 2 = 1 - x % 2 := by
      have := @Nat.xor_mod_two_eq_one x (2 ^ (k + 1) - 1)
      rw [e2] at this
      rcases Nat.mod_two_eq_zero_or_one x with h0 | h0
      · have : (x ^^^ (2 ^ (k + 1) - 1)) % 2 = 1 := this.mpr (by simp [h0])
        omega
      · have hne : ¬ ((x ^^^ (2 ^ (k + 1) - 1)) % 2 = 1) := fun h => (this.mp h) (by simp [h0])
        have := Nat.mod_two_eq_zero_or_one (x ^^^ (2 ^ (k + 1) - 1))
        omega
    rw [popcount_step (x ^^^ (2 ^ (k + 1) - 1)), popcount_step x, Nat.xor_div_two, e1, hm]
    have := ih (x / 2) hx2
    have := Nat.mod_two_eq_zero_or_one x
    omega

theorem lnotL_eq_xor (y : Nat) (hy : y < B) : lnotL y = y ^^^ (B - 1) := by
  apply Nat.eq_of_testBit_eq; intro i
  rw [testBit_lnotL y hy, Nat.testBit_xor, testBit_ones]
  by_cases hi : i < 64
  · simp [hi]
  · simp [hi, testBit_limb_high hy (by omega : 64 ≤ i)]

theorem lnotL_xor_lnotL (p q : Nat) (hp : p < B) (hq : q < B) : lnotL p ^^^ lnotL q = p ^^^ q := by
  rw [lnotL_eq_xor p hp, lnotL_eq_xor q hq]
  rw [Nat.xor_assoc, Nat.xor_comm q, ← Nat.xor_assoc (B - 1), Nat.xor_self, Nat.zero_xor]

theorem negL_eq_lnot' (d : Nat) (hd : d < B) (h1 : d ≠ 0) : negL d = lnotL (d - 1) := by
  rw [negL_eq_lnot d hd h1, pred_mod_B d hd h1]

/-- hamdist.c:137-162 -/
theorem hamTail_eq (up vp : List Nat) (hu : Limbs up) (hv : Limbs vp) :
    hamTail up vp = popcount (val up ^^^ val vp) := by
  unfold hamTail
  simp only
  have hx := zipWith_val limbOp_xor up vp hu hv
  change val up ^^^ val vp = val (xor_n up vp) + _ * (_ ^^^ _) ∧ Limbs (xor_n up vp) at hx
  obtain ⟨e, l⟩ := hx
  have hlen : (xor_n up vp).length = min up.length vp.length := by simp [xor_n]
  have hlt := val_lt _ l
  rw [hlen, B_pow] at hlt
  rw [e, B_pow, popcount_split _ _ _ hlt, ← mpn_popcount_eq _ l]
  have hham : mpn_hamdist (up.take (min up.length vp.length)) (vp.take (min up.length vp.length)) =
      mpn_popcount (xor_n up vp) := by
    unfold mpn_hamdist mpn_popcount xor_n
    rw [← zipWith_take_min]
  have hc : (if min up.length vp.length ≠ 0 then
      mpn_hamdist (up.take (min up.length vp.length)) (vp.take (min up.length vp.length)) else 0) =
      mpn_popcount (xor_n up vp) := by
    by_cases h0 : min up.length vp.length ≠ 0
    · rw [if_pos h0, hham]
    · rw [if_neg h0]
      have : xor_n up vp = [] := List.eq_nil_of_length_eq_zero (by rw [hlen]; omega)
      rw [this]; rfl
  rw [hc]
  by_cases hl : up.length ≤ vp.length
  · have hmin : min up.length vp.length = up.length := by omega
    have hdu : up.drop vp.length = [] := List.drop_of_length_le hl
    rw [hmin, List.drop_of_length_le (le_refl up.length), hdu]
    simp only [List.length_nil, ne_eq, not_true_eq_false, if_false, val_nil, Nat.zero_xor]
    by_cases hv0 : (vp.drop up.length).length ≠ 0
    · rw [if_pos hv0, mpn_popcount_eq _ (Limbs_drop hv _)]
    · rw [if_neg hv0]
      have : vp.drop up.length = [] := List.eq_nil_of_length_eq_zero (by omega)
      rw [this]; simp [popcount_zero]
  · have hmin : min up.length vp.length = vp.length := by omega
    have hdv : vp.drop up.length = [] := List.drop_of_length_le (by omega)
    rw [hmin, hdv]
    simp only [val_nil, Nat.xor_zero]
    have hu0 : (up.drop vp.length).length ≠ 0 := by rw [List.length_drop]; omega
    rw [if_pos hu0, mpn_popcount_eq _ (Limbs_drop hu _)]

theorem val_take_zero : ∀ (l : List Nat) (k : Nat), (∀ j, j < k → l.getD j 0 = 0) → val (l.take k) = 0
  | [], k, _ => by simp
  | x :: xs, 0, _ => by simp
  | x :: xs, k + 1, h => by
    have h0 : x = 0 := by simpa using h 0 (by omega)
    have ih := val_take_zero xs k (fun j hj => by simpa using h (j + 1) (by omega))
    simp [h0, ih]

theorem val_zero_of_all_zero (l : List Nat) (h : ∀ j, l.getD j 0 = 0) : val l = 0 := by
  have := val_take_zero l l.length (fun j _ => h j)
  rwa [List.take_length] at this

/-- split of `up` at the `k` limbs that face the low zero limbs of `v` (hamdist.c:114-123) -/
theorem split_min (up : List Nat) (hu : Limbs up) (k : Nat) :
    val up = val (up.take (min k up.length)) + B ^ k * val (up.drop (min k up.length)) ∧
    val (up.take (min k up.length)) < B ^ k := by
  by_cases hk : k ≤ up.length
  · rw [Nat.min_eq_left hk]
    have hlt := val_lt _ (Limbs_take hu k)
    rw [List.length_take, Nat.min_eq_left hk] at hlt
    exact ⟨val_take_drop up k hk, hlt⟩
  · rw [Nat.min_eq_right (by omega), List.take_length, List.drop_of_length_le (le_refl _)]
    have hlt := val_lt _ hu
    have : B ^ up.length ≤ B ^ k := Nat.pow_le_pow_right B_pos (by omega)
    exact ⟨by simp, lt_of_lt_of_le hlt this⟩

theorem popc_xor_limbs (p q : Nat) (hp : p < B) (hq : q < B) : popc (p ^^^ q) = popcount (p ^^^ q) :=
  popc_eq _ (by unfold B at *; exact Nat.xor_lt_two_pow hp hq)

theorem hamBody_eq (ul vl : Nat) (up vp : List Nat) (hul : ul < B) (hul0 : ul ≠ 0) (hvl : vl < B)
    (hu : Limbs up) (hv : Limbs vp) (h1 : 1 ≤ vl + B * val vp) :
    hamBody ul vl up vp = popcount ((ul + B * val up - 1) ^^^ (vl + B * val vp - 1)) := by
  have hul1 : ul - 1 < B := by omega
  have eU : ul + B * val up - 1 = (ul - 1) + B * val up := by omega
  unfold hamBody
  simp only
  by_cases hv0 : vl = 0
  · subst hv0
    have hneg0 : negL 0 = 0 := by simp [negL]
    rw [hneg0, if_pos rfl, Nat.xor_zero]
    have hBv : 1 ≤ val vp := by
      rcases Nat.eq_zero_or_pos (val vp) with h | h
      · rw [h] at h1; simp at h1
      · exact h
    have hsz := skipZero_spec vp 0
    cases hs : skipZero vp 0 with
    | none =>
      rw [hs] at hsz; simp only at hsz
      rw [val_zero_of_all_zero vp hsz] at hBv; omega
    | some q =>
      obtain ⟨i, vl1⟩ := q
      rw [hs] at hsz; simp only at hsz ⊢
      obtain ⟨k, e1, e2, e3, e4, e5⟩ := hsz
      have hik : i = k := by omega
      subst hik
      have hvl1 : vl1 < B := by rw [← e3]; exact getD_lt hv i
      -- value of vp
      have hvp : val vp = B ^ i * (vl1 + B * val (vp.drop (i + 1))) := by
        rw [val_split_at vp i e2, val_take_zero vp i e5, e3, Nat.zero_add]
      obtain ⟨hA, hAlo⟩ := split_min up hu i
      have hp := pow_B_pos i
      -- the count after the subtraction
      have hsub : (if min i up.length ≠ 0 then popc (negL ul) + i * 64 - mpn_popcount (up.take (min i up.length))
          else popc (negL ul) + i * 64) = popc (negL ul) + i * 64 - popcount (val (up.take (min i up.length))) := by
        by_cases hm : min i up.length ≠ 0
        · rw [if_pos hm, mpn_popcount_eq _ (Limbs_take hu _)]
        · rw [if_neg hm]
          have : min i up.length = 0 := by omega
          rw [this]; simp [popcount_zero]
      rw [hsub]
      -- target
      have eV : 0 + B * val vp - 1 = (B - 1) + B * (val vp - 1) := by
        have := pred_at_zb B 1 (val vp - 1) B_pos (le_refl 1)
        have hB := B_pos
        obtain ⟨w, hw⟩ : ∃ w, val vp = w + 1 := ⟨val vp - 1, by omega⟩
        rw [hw, Nat.zero_add, Nat.mul_succ]; simp; omega
      rw [eU, eV, popcount_xor_split_B _ _ _ _ hul1 (by have := B_pos; omega)]
      have ec0 : popc (negL ul) = popcount ((ul - 1) ^^^ (B - 1)) := by
        rw [negL_eq_lnot' ul hul hul0, lnotL_eq_xor _ hul1]
        exact popc_xor_limbs _ _ hul1 (by have := B_pos; omega)
      rw [ec0]
      -- the part above limb 0
      have eBv : val vp - 1 = (B ^ i - 1) + B ^ i * ((vl1 - 1) + B * val (vp.drop (i + 1))) := by
        rw [hvp]; exact pred_at_zb _ _ _ hp (Nat.pos_of_ne_zero e4)
      have hsplit : popcount (val up ^^^ (val vp - 1)) =
          popcount (val (up.take (min i up.length)) ^^^ (B ^ i - 1)) +
          popcount (val (up.drop (min i up.length)) ^^^ ((vl1 - 1) + B * val (vp.drop (i + 1)))) := by
        conv_lhs => rw [hA, eBv]
        rw [B_pow] at *
        exact popcount_xor_split _ _ _ _ _ hAlo (by omega)
      have hcompl := popcount_compl (64 * i) (val (up.take (min i up.length))) (by rw [← B_pow]; exact hAlo)
      rw [← B_pow] at hcompl
      rw [hsplit]
      -- the limb facing the first non-zero limb of v, and the tails
      have hdl := Limbs_drop hu (min i up.length)
      generalize hcnt : popcount ((ul - 1) ^^^ (B - 1)) = c0 at *
      generalize popcount (val (up.take (min i up.length))) = pa at *
      generalize popcount (val (up.take (min i up.length)) ^^^ (B ^ i - 1)) = pc at *
      generalize up.drop (min i up.length) = dl at *
      cases dl with
      | nil =>
        simp only [val_nil, Nat.zero_xor]
        rw [hamTail_eq [] _ Limbs_nil (Limbs_drop hv _), val_nil, Nat.zero_xor, popc_eq _ (by omega)]
        have : popcount (vl1 - 1 + B * val (vp.drop (i + 1))) =
            popcount (vl1 - 1) + popcount (val (vp.drop (i + 1))) := by
          unfold B at *; exact popcount_split 64 _ _ (by omega)
        rw [this]; omega
      | cons x xs =>
        have ⟨hx, hxs⟩ := Limbs_cons.mp hdl
        simp only [val_cons]
        rw [hamTail_eq xs _ hxs (Limbs_drop hv _), popcount_xor_split_B _ _ _ _ hx (by omega),
          popc_xor_limbs _ _ (by omega) hx, Nat.xor_comm x]
        omega
  · have hnv : negL vl ≠ 0 := (negL_pos vl hvl hv0).1
    rw [if_neg hnv]
    have hvl1 : vl - 1 < B := by omega
    have eV : vl + B * val vp - 1 = (vl - 1) + B * val vp := by omega
    rw [eU, eV, popcount_xor_split_B _ _ _ _ hul1 hvl1, hamTail_eq up vp hu hv,
      negL_eq_lnot' ul hul hul0, negL_eq_lnot' vl hvl hv0, lnotL_xor_lnotL _ _ hul1 hvl1,
      popc_xor_limbs _ _ hul1 hvl1]
theorem hamLong_eq (up vp : List Nat) (hu : Limbs up) (hv : Limbs vp) (hl : vp.length ≤ up.length) :
    hamLong up vp = popcount (val up ^^^ val vp) := by
  obtain ⟨e, l, _⟩ := zip_long_left limbOp_xor rfl up vp hu hv hl
  change val (xor_n up vp ++ _) = _ ^^^ _ at e
  have l' : Limbs (xor_n up vp ++ up.drop vp.length) := l
  rw [← e, ← mpn_popcount_eq _ l', mpn_popcount_append]
  unfold hamLong
  simp only
  have hc : (if vp.length ≠ 0 then mpn_hamdist up vp else 0) = mpn_popcount (xor_n up vp) := by
    by_cases h0 : vp.length ≠ 0
    · rw [if_pos h0]; rfl
    · rw [if_neg h0]
      have : vp = [] := List.eq_nil_of_length_eq_zero (by omega)
      rw [this]; simp [xor_n, mpn_popcount]
  rw [hc]
  by_cases hd : (up.drop vp.length).length ≠ 0
  · rw [if_pos hd]
  · rw [if_neg hd]
    have : up.drop vp.length = [] := List.eq_nil_of_length_eq_zero (by omega)
    rw [this]; simp [mpn_popcount]

theorem pos_of_mul_pos {A : Nat} (h : 1 ≤ 0 + B * A) : 1 ≤ A := by
  rcases Nat.eq_zero_or_pos A with h0 | h0
  · subst h0; simp at h
  · exact h0

theorem hamSkip_spec : ∀ (u v : List Nat), Limbs u → Limbs v → 1 ≤ val u → 1 ≤ val v →
    ∃ ul vl up vp, hamSkip u v = some (ul, vl, up, vp) ∧ ul ≠ 0 ∧ ul < B ∧ vl < B ∧ Limbs up ∧ Limbs vp ∧
      1 ≤ vl + B * val vp ∧
      popcount ((val u - 1) ^^^ (val v - 1)) = popcount ((ul + B * val up - 1) ^^^ (vl + B * val vp - 1))
  | [], _, _, _, h, _ => by simp at h
  | _ :: _, [], _, _, _, h => by simp at h
  | x :: xs, y :: ys, hu, hv, h1, h2 => by
    have ⟨hx, hxs⟩ := Limbs_cons.mp hu
    have ⟨hy, hys⟩ := Limbs_cons.mp hv
    unfold hamSkip
    by_cases hx0 : x ≠ 0
    · rw [if_pos hx0]
      exact ⟨x, y, xs, ys, rfl, hx0, hx, hy, hxs, hys, h2, rfl⟩
    · rw [if_neg hx0]
      have hx0' : x = 0 := by simpa using hx0
      by_cases hy0 : y ≠ 0
      · rw [if_pos hy0]
        refine ⟨y, 0, ys, xs, rfl, hy0, hy, B_pos, hys, hxs, by rw [← hx0']; exact h1, ?_⟩
        rw [Nat.xor_comm]; simp only [val_cons, hx0']
      · rw [if_neg hy0]
        have hy0' : y = 0 := by simpa using hy0
        subst hx0' hy0'
        simp only [val_cons] at h1 h2 ⊢
        have hA := pos_of_mul_pos h1
        have hC := pos_of_mul_pos h2
        obtain ⟨ul, vl, up, vp, e, r1, r2, r3, r4, r5, r6, r7⟩ := hamSkip_spec xs ys hxs hys hA hC
        refine ⟨ul, vl, up, vp, e, r1, r2, r3, r4, r5, r6, ?_⟩
        rw [← r7]
        have hB := B_pos
        have e1 : 0 + B * val xs - 1 = (B - 1) + B * (val xs - 1) := by
          obtain ⟨w, hw⟩ : ∃ w, val xs = w + 1 := ⟨val xs - 1, by omega⟩
          rw [hw, Nat.zero_add, Nat.mul_succ]; simp; omega
        have e2 : 0 + B * val ys - 1 = (B - 1) + B * (val ys - 1) := by
          obtain ⟨w, hw⟩ : ∃ w, val ys = w + 1 := ⟨val ys - 1, by omega⟩
          rw [hw, Nat.zero_add, Nat.mul_succ]; simp; omega
        rw [e1, e2, popcount_xor_split_B _ _ _ _ (by omega) (by omega), Nat.xor_self, popcount_zero,
          Nat.zero_add]

theorem mpz_hamdist_eq (u v : Z) (hu : u.WF) (hv : v.WF) :
    mpz_hamdist u v = specHamdist u.toInt v.toInt := by
  unfold mpz_hamdist specHamdist
  cases hnu : u.neg <;> cases hnv : v.neg <;>
    simp only [Bool.not_false, Bool.not_true, Bool.false_eq_true, ↓reduceIte]
  · rw [toInt_nonneg u hnu, toInt_nonneg v hnv]
    have hd1 : ¬ (Int.ofNat (val u.mag) < 0) := by simp
    have hd2 : ¬ (Int.ofNat (val v.mag) < 0) := by simp
    have hne : ¬ (decide (Int.ofNat (val u.mag) < 0) ≠ decide (Int.ofNat (val v.mag) < 0)) := by
      rw [decide_eq_false hd1, decide_eq_false hd2]; simp
    rw [if_neg hne]
    change _ = popcount (val u.mag ^^^ val v.mag)
    by_cases hl : u.mag.length < v.mag.length
    · rw [if_pos hl, hamLong_eq v.mag u.mag hv.limbs hu.limbs (by omega), Nat.xor_comm]
    · rw [if_neg hl, hamLong_eq u.mag v.mag hu.limbs hv.limbs (by omega)]
  · rw [toInt_nonneg u hnu, toInt_neg v hnv (hv.pos hnv)]
    have hd1 : ¬ (Int.ofNat (val u.mag) < 0) := by simp
    have hne : decide (Int.ofNat (val u.mag) < 0) ≠ decide (Int.negSucc (val v.mag - 1) < 0) := by
      rw [decide_eq_false hd1, decide_eq_true (Int.negSucc_lt_zero _)]; simp
    rw [if_pos hne]
  · rw [toInt_neg u hnu (hu.pos hnu), toInt_nonneg v hnv]
    have hd1 : ¬ (Int.ofNat (val v.mag) < 0) := by simp
    have hne : decide (Int.negSucc (val u.mag - 1) < 0) ≠ decide (Int.ofNat (val v.mag) < 0) := by
      rw [decide_eq_false hd1, decide_eq_true (Int.negSucc_lt_zero _)]; simp
    rw [if_pos hne]
  · rw [toInt_neg u hnu (hu.pos hnu), toInt_neg v hnv (hv.pos hnv)]
    have hne : ¬ (decide (Int.negSucc (val u.mag - 1) < 0) ≠ decide (Int.negSucc (val v.mag - 1) < 0)) := by
      rw [decide_eq_true (Int.negSucc_lt_zero _), decide_eq_true (Int.negSucc_lt_zero _)]; simp
    rw [if_neg hne]
    change _ = popcount ((val u.mag - 1) ^^^ (val v.mag - 1))
    obtain ⟨ul, vl, up, vp, e, r1, r2, r3, r4, r5, r6, r7⟩ :=
      hamSkip_spec u.mag v.mag hu.limbs hv.limbs (hu.pos hnu) (hv.pos hnv)
    unfold hamNN
    rw [e]; simp only
    rw [hamBody_eq ul vl up vp r2 r1 r3 r4 r5 r6, r7]

theorem natLimbs_spec (v : Nat) : val (natLimbs v) = v ∧ Limbs (natLimbs v) ∧ Norm (natLimbs v) := by
  induction v using Nat.strongRecOn with
  | ind v ih =>
    rw [natLimbs]
    by_cases h : v = 0
    · subst h; simp [Limbs_nil, Norm_nil]
    · rw [dif_neg h]
      have hB := B_pos
      have hlt : v / B < v := Nat.div_lt_self (Nat.pos_of_ne_zero h) (by rw [B_eq]; norm_num)
      obtain ⟨i1, i2, i3⟩ := ih (v / B) hlt
      refine ⟨by rw [val_cons, i1]; exact Nat.mod_add_div v B, Limbs_cons.mpr ⟨Nat.mod_lt _ hB, i2⟩, ?_⟩
      by_cases hq : v / B = 0
      · rw [hq, natLimbs]; simp [Norm]
        intro h0
        have := Nat.mod_add_div v B
        rw [hq, h0] at this; omega
      · have hne : natLimbs (v / B) ≠ [] := by
          intro hnil; rw [hnil] at i1; simp at i1; exact hq i1.symm
        rw [show v % B :: natLimbs (v / B) = [v % B] ++ natLimbs (v / B) from rfl]
        exact norm_append hne i3

/-- every integer is represented by a well-formed `Z` (what the driver feeds the models) -/
theorem ofInt_spec (x : Int) : (Z.ofInt x).toInt = x ∧ (Z.ofInt x).WF := by
  obtain ⟨n1, n2, n3⟩ := natLimbs_spec x.natAbs
  unfold Z.ofInt
  refine ⟨?_, n2, n3, ?_⟩
  · unfold Z.toInt; simp only [n1]
    by_cases hx : x < 0
    · simp only [hx, decide_true, if_true]
      change -((x.natAbs : Nat) : Int) = x; omega
    · simp only [hx, decide_false, Bool.false_eq_true, if_false]
      change ((x.natAbs : Nat) : Int) = x; omega
  · intro hneg hnil
    simp only [decide_eq_true_eq] at hneg
    simp only at hnil
    rw [hnil] at n1; simp at n1; omega

end Mpir.Bits
