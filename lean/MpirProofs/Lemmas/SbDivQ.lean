/-
  Lemmas for C02 part c02_sbq (mpn_sb_divappr_q): specifications of the limb-level steps of Mpir/Model/SbDivQ.lean
  (3/2 step with borrow and add-back; q = B-1 step; the test "truncation ruins normalisation").
  The arithmetic cores `regular_nb`, `regular_b`, `special_arith`, `special_ge` are those of MpirProofs/Lemmas/SbDiv.lean.
  Property theorems: MpirProofs/Props/C02_sbq.lean.
-/
import MpirProofs.Lemmas.SbDiv
import Mpir.Model.SbDivQ
namespace Mpir.SbDivQ
open Mpir Mpir.DivWord Mpir.SbDiv

/-- mpn_cmp on equal lengths decides the order of the values -/
theorem cmp_ge_iff (a b : List Nat) (ha : Limbs a) (hb : Limbs b) (hl : a.length = b.length) :
    cmp a b ≥ 0 ↔ val b ≤ val a := by
  have hc := cmpRev_spec a.reverse b.reverse (Limbs_reverse ha) (Limbs_reverse hb) (by simpa using hl)
  rw [List.reverse_reverse, List.reverse_reverse] at hc
  change (cmp a b = -1 ∧ _) ∨ (cmp a b = 0 ∧ _) ∨ (cmp a b = 1 ∧ _) at hc
  rcases hc with ⟨e, h⟩ | ⟨e, h⟩ | ⟨e, h⟩ <;> rw [e] <;> constructor <;> intro h' <;> omega

/-- the two add_ssaaaa of the add-back add d1·B + d0 + carry to the two register limbs modulo B² -/
theorem add_ssaaaa_twice (cy n1 d1 d0 c : Nat) (_hcy : cy < B) (_hn1 : n1 < B) (_hd1 : d1 < B) (_hd0 : d0 < B) (_hc : c ≤ 1) :
    (add_ssaaaa (add_ssaaaa cy n1 d1 d0).1 (add_ssaaaa cy n1 d1 d0).2 0 c).2 = (n1 + d0 + c) % B ∧
    (add_ssaaaa (add_ssaaaa cy n1 d1 d0).1 (add_ssaaaa cy n1 d1 d0).2 0 c).1 = (cy + d1 + (n1 + d0 + c) / B) % B := by
  unfold add_ssaaaa
  simp only [B_eq] at *
  constructor <;> omega

/-- the ordinary step of mpn_sb_divappr_q (3/2 quotient estimate, submul_1, sub_333, at most one add-back) is an exact
    division step of the window (low limbs `alo`, then m0, n1, cy) by the current divisor (low limbs `dlo`, then d0, d1) -/
theorem daRegFix_spec (dlo alo : List Nat) (d0 d1 m0 n1 cy dinv : Nat) (hlen : alo.length = dlo.length)
    (hdlo : Limbs dlo) (halo : Limbs alo) (hd0 : d0 < B) (hd1 : d1 < B) (hm0 : m0 < B) (hn1 : n1 < B)
    (hcy : cy < B) (hnorm : B / 2 ≤ d1) (hdinv : dinv = invert_pi1 d1 d0)
    (hN : cy * B + n1 < d1 * B + d0) :
    ∃ q w cy' n1', daFix dlo d1 d0 (daRegular dlo d1 d0 dinv alo m0 n1 cy) = (q, w, cy', n1') ∧
      val alo + B ^ dlo.length * (m0 + B * n1 + B * B * cy)
        = q * (val dlo + B ^ dlo.length * (d0 + B * d1)) + (val w + B ^ dlo.length * (n1' + B * cy')) ∧
      val w + B ^ dlo.length * (n1' + B * cy') < val dlo + B ^ dlo.length * (d0 + B * d1) ∧
      q < B ∧ Limbs w ∧ w.length = dlo.length ∧ n1' < B ∧ cy' < B := by
  have hB := B_pos
  have hDlt := val_lt dlo hdlo
  have hAlt := val_lt alo halo
  rw [hlen] at hAlt
  unfold daRegular daFix
  rw [udiv_qr_3by2_eq cy n1 m0 d1 d0 dinv hcy hn1 hm0 hd1 hd0 hnorm hN
      (by rw [hdinv]; exact invert_pi1_eq d1 d0 hnorm hd1 hd0)]
  simp only []
  have hddpos : 0 < d1 * B + d0 := by omega
  have hdm := Nat.div_add_mod (cy * B * B + n1 * B + m0) (d1 * B + d0)
  have hrem := Nat.mod_lt (cy * B * B + n1 * B + m0) hddpos
  have hddlt : d1 * B + d0 < B * B := by nlinarith
  have hqB : (cy * B * B + n1 * B + m0) / (d1 * B + d0) < B := by
    rw [Nat.div_lt_iff_lt_mul hddpos]
    nlinarith
  have hddB : B ≤ d1 * B + d0 := by
    have : 1 * B ≤ d1 * B := Nat.mul_le_mul_right _ (by simp only [B_eq] at *; omega)
    omega
  generalize (cy * B * B + n1 * B + m0) / (d1 * B + d0) = q at *
  generalize (cy * B * B + n1 * B + m0) % (d1 * B + d0) = rem at *
  obtain ⟨hv, hc, hrl, hrn⟩ := submul1C_val q hqB alo dlo 0 halo hdlo hlen hB
  change val (submul_1 _ _ _).1 + _ + 0 = _ + _ * (submul_1 _ _ _).2 at hv
  change (submul_1 _ _ _).2 < B at hc
  change Limbs (submul_1 _ _ _).1 at hrl
  change (submul_1 _ _ _).1.length = _ at hrn
  generalize submul_1 alo dlo q = res at *
  obtain ⟨rl, cy1⟩ := res
  simp only at hv hc hrl hrn ⊢
  have hrlt := val_lt rl hrl
  rw [hrn] at hrlt
  obtain ⟨hs1, hs0, hnb, hbo⟩ := sub_333_0_spec rem cy1 (by omega) hc
  generalize sub_333_0 (rem / B) (rem % B) cy1 = s at *
  obtain ⟨cy2, n1s, n0s⟩ := s
  simp only at hs1 hs0 hnb hbo ⊢
  have hWN : val alo + B ^ dlo.length * (m0 + B * n1 + B * B * cy)
      = val alo + B ^ dlo.length * ((d1 * B + d0) * q + rem) := by rw [hdm]; ring
  have e2 : val dlo + B ^ dlo.length * (d0 + B * d1) = val dlo + B ^ dlo.length * (d1 * B + d0) := by ring
  by_cases hcase : cy1 ≤ rem
  · obtain ⟨hcy2, ht⟩ := hnb hcase
    rw [if_neg (by simpa using hcy2)]
    obtain ⟨k1, k2⟩ := regular_nb (B ^ dlo.length) (val alo) (val dlo) (d1 * B + d0) q rem cy1 (val rl)
      (n1s * B + n0s) hAlt hrem (by linarith) ht
    refine ⟨_, _, _, _, rfl, ?_, ?_, hqB, hrl, hrn, hs0, hs1⟩
    · rw [hWN, k1]; ring
    · rw [e2]
      have e : val rl + B ^ dlo.length * (n0s + B * n1s) = val rl + B ^ dlo.length * (n1s * B + n0s) := by ring
      rw [e]; exact k2
  · obtain ⟨hcy2, ht⟩ := hbo (by omega)
    rw [if_pos hcy2]
    obtain ⟨av, ac, al, an⟩ := addNC_val rl dlo 0 hrl hdlo hrn (by omega)
    change val (add_n _ _).1 + _ * (add_n _ _).2 = _ at av
    change (add_n _ _).2 ≤ 1 at ac
    change Limbs (add_n _ _).1 at al
    change (add_n _ _).1.length = _ at an
    generalize add_n rl dlo = sc at *
    obtain ⟨vs, c1⟩ := sc
    simp only at av ac al an ⊢
    have hvs := val_lt vs al
    rw [an, hrn] at hvs
    rw [hrn] at av an
    obtain ⟨eb2, eb1⟩ := add_ssaaaa_twice n1s n0s d1 d0 c1 hs1 hs0 hd1 hd0 ac
    rw [eb2, eb1]
    have hlo : (n0s + d0 + c1) % B < B := Nat.mod_lt _ hB
    have hsplit := Nat.div_add_mod (n0s + d0 + c1) B
    generalize (n0s + d0 + c1) % B = n0' at *
    generalize (n0s + d0 + c1) / B = c at *
    obtain ⟨q', K', e1, e2', e3, e4, e5⟩ := regular_b (B ^ dlo.length) (val alo) (val dlo) (d1 * B + d0) d1 d0 q rem
      cy1 (val rl) n1s n0s (val vs + B ^ dlo.length * n0') c hDlt hrlt hqB hrem (by omega) rfl hddB hddlt
      (by linarith) ht (by
        have : B ^ dlo.length * (B * c + n0') = B ^ dlo.length * (n0s + d0 + c1) := by rw [hsplit]
        linarith) (by
        have : B ^ dlo.length * (n0' + 1) ≤ B ^ dlo.length * B := Nat.mul_le_mul_left _ hlo
        linarith)
    have eq' : (q + B - 1) % B = q' := by
      rw [e1, show q' + 1 + B - 1 = q' + B by omega, Nat.add_mod_right, Nat.mod_eq_of_lt (by omega)]
    have eK : (n1s + d1 + c) % B = K' := by rw [e2', Nat.add_mod_right, Nat.mod_eq_of_lt e3]
    rw [eq', eK]
    refine ⟨_, _, _, _, rfl, ?_, ?_, by omega, al, an, hlo, e3⟩
    · rw [hWN, e4]; ring
    · rw [e2]
      have e : val vs + B ^ dlo.length * (n0' + B * K') = val vs + B ^ dlo.length * n0' + B ^ dlo.length * B * K' := by ring
      rw [e]; exact e5

theorem split_top2_val (r : List Nat) (k : Nat) (h : r.length = k + 2) :
    val (r.take k) + B ^ k * (r.getD k 0 + B * r.getD (k + 1) 0) = val r := by
  have hs := split_top2 r k h
  have hl : (r.take k).length = k := by rw [List.length_take, h]; omega
  conv_rhs => rw [hs]
  rw [val_top2, hl]

/-- the q = B-1 step of mpn_sb_divappr_q: when the two top limbs of the window equal d1, d0 and the window is below B·d,
    the borrow out of mpn_submul_1 equals the top limb (cy2 = 0: no add-back) and B-1 is the exact quotient limb -/
theorem daSpecial_spec (dlo alo : List Nat) (d0 d1 m0 : Nat) (hlen : alo.length = dlo.length)
    (hdlo : Limbs dlo) (halo : Limbs alo) (hd0 : d0 < B) (hd1 : d1 < B) (hm0 : m0 < B)
    (hnorm : B / 2 ≤ d1)
    (hW : val alo + B ^ dlo.length * (m0 + B * d0 + B * B * d1) < B * (val dlo + B ^ dlo.length * (d0 + B * d1))) :
    ∃ w cy' n1', daFix dlo d1 d0 (daSpecial (dlo ++ [d0, d1]) (alo ++ [m0, d0]) d1) = (B - 1, w, cy', n1') ∧
      val alo + B ^ dlo.length * (m0 + B * d0 + B * B * d1)
        = (B - 1) * (val dlo + B ^ dlo.length * (d0 + B * d1)) + (val w + B ^ dlo.length * (n1' + B * cy')) ∧
      val w + B ^ dlo.length * (n1' + B * cy') < val dlo + B ^ dlo.length * (d0 + B * d1) ∧
      Limbs w ∧ w.length = dlo.length ∧ n1' < B ∧ cy' < B := by
  have hB := B_pos
  have hd : Limbs (dlo ++ [d0, d1]) := Limbs_append.mpr ⟨hdlo, Limbs_pair hd0 hd1⟩
  have ha : Limbs (alo ++ [m0, d0]) := Limbs_append.mpr ⟨halo, Limbs_pair hm0 hd0⟩
  have hl : (alo ++ [m0, d0]).length = (dlo ++ [d0, d1]).length := by simp [hlen]
  obtain ⟨hv, hc, hrl, hrn⟩ := submul1C_val (B - 1) (by omega) _ _ 0 ha hd hl hB
  unfold daSpecial daFix
  simp only []
  change val (submul_1 _ _ _).1 + _ + 0 = _ + _ * (submul_1 _ _ _).2 at hv
  change (submul_1 _ _ _).2 < B at hc
  change Limbs (submul_1 _ _ _).1 at hrl
  change (submul_1 _ _ _).1.length = _ at hrn
  generalize submul_1 (alo ++ [m0, d0]) (dlo ++ [d0, d1]) (B - 1) = res at *
  obtain ⟨r, cy⟩ := res
  simp only at hv hc hrl hrn ⊢
  have eL : (dlo ++ [d0, d1]).length = dlo.length + 2 := by simp
  have eLa : (alo ++ [m0, d0]).length = dlo.length + 2 := by simp [hlen]
  rw [eL] at hrn hv
  have eV : val (dlo ++ [d0, d1]) = val dlo + B ^ dlo.length * (d0 + B * d1) := val_top2 _ _ _
  have eA : val (alo ++ [m0, d0]) = val alo + B ^ dlo.length * (m0 + B * d0) := by rw [val_top2, hlen]
  have hvr := val_lt r hrl
  have hVlt := val_d_lt dlo d0 d1 hdlo hd0 hd1
  have hDlt := val_lt dlo hdlo
  rw [hrn, pow_k2] at hvr
  rw [eV, eA, pow_k2] at hv
  obtain ⟨b1, hb1⟩ : ∃ b1, B = b1 + 1 := ⟨B - 1, by omega⟩
  have hbb : B - 1 = b1 := by omega
  have hdd : b1 ≤ d0 + B * d1 := by
    have : B / 2 * 2 ≤ d1 * 2 := Nat.mul_le_mul_right _ hnorm
    simp only [B_eq] at *; omega
  have hge := special_ge (B ^ dlo.length) (val alo) (val dlo) (d0 + B * d1) m0 b1 hDlt hdd
  rw [← hb1] at hge
  rw [hbb] at hv
  have key := special_arith (B ^ dlo.length * B * B) (val dlo + B ^ dlo.length * (d0 + B * d1))
    (val alo + B ^ dlo.length * (m0 + B * d0)) d1 cy (val r) b1 hVlt hvr (by linarith)
    (by rw [← hb1]; linarith) (by
      have e : val alo + B ^ dlo.length * (m0 + B * d0) + B ^ dlo.length * B * B * d1
          = val alo + B ^ dlo.length * (m0 + B * (d0 + B * d1)) := by ring
      rw [e]; exact hge)
  obtain ⟨hcy, k1, k2⟩ := key
  subst hcy
  have hz : (cy + B - cy) % B = 0 := by rw [Nat.add_sub_cancel_left]; exact Nat.mod_self _
  rw [hz, eLa]
  simp only [ne_eq, not_true_eq_false, if_false]
  have hsp := split_top2_val r dlo.length hrn
  refine ⟨_, _, _, rfl, ?_, ?_, Limbs_take hrl _, by rw [List.length_take, hrn]; omega, limb_getD hrl _, limb_getD hrl _⟩
  · rw [show dlo.length + 2 - 2 = dlo.length from rfl, show dlo.length + 2 - 1 = dlo.length + 1 from rfl, hsp, hbb]
    linarith
  · rw [show dlo.length + 2 - 2 = dlo.length from rfl, show dlo.length + 2 - 1 = dlo.length + 1 from rfl, hsp]
    exact k2

end Mpir.SbDivQ
