/- Arithmetic of one Newton step of mpn_binvert through the wrap-around product (no limbs here). -/
import Mathlib.Tactic.Ring
import Mathlib.Tactic.Linarith
import Mathlib.Tactic.LinearCombination
import Mathlib.Data.Nat.ModEq
import Mathlib.Data.Int.ModEq
namespace Mpir.Binvert

/-- The product `P = 1 + X·a` (`a = B^rn`; `U·R ≡ 1 mod a`) is known only modulo `a·c − 1` (`a·c = B^m`), as a
    representative `Y ∈ [1, a·c − 1]`.  Because `P < a·c·(a − 1)`, the part `H = ⌊X/c⌋` that wrapped is below `a − 1`
    and lands on the low limbs `1, 0, …, 0` without a carry: the limbs of `Y` from `a` on are those of `X mod c`. -/
theorem wrap_recover (a c X Y : Nat) (ha : 2 ≤ a) (hc : 1 ≤ c)
    (hP : 1 + X * a < a * c * (a - 1)) (hY : Y ≤ a * c - 1) (hY0 : Y ≠ 0)
    (hmod : Y % (a * c - 1) = (1 + X * a) % (a * c - 1)) : Y / a = X % c := by
  obtain ⟨M, hM⟩ : ∃ M, a * c = M + 1 := ⟨a * c - 1, by have : 0 < a * c := Nat.mul_pos (by omega) hc; omega⟩
  obtain ⟨a', rfl⟩ : ∃ a', a = a' + 2 := ⟨a - 2, by omega⟩
  have hX := Nat.div_add_mod X c
  have hXlc : X % c < c := Nat.mod_lt _ hc
  generalize X / c = H at *
  generalize X % c = Xl at *
  subst hX
  have e1 : a' + 2 - 1 = a' + 1 := by omega
  rw [e1] at hP
  have hHlt : H < a' + 1 := by
    by_contra hge; rw [Nat.not_lt] at hge
    have h1 : (a' + 2) * c * (a' + 1) ≤ (a' + 2) * c * H := Nat.mul_le_mul_left _ hge
    nlinarith
  have hS : 1 + (c * H + Xl) * (a' + 2) = (1 + H + Xl * (a' + 2)) + H * M := by
    have : H * (M + 1) = H * ((a' + 2) * c) := by rw [hM]
    nlinarith
  have hSle : 1 + H + Xl * (a' + 2) ≤ M := by
    have : (Xl + 1) * (a' + 2) ≤ c * (a' + 2) := Nat.mul_le_mul_right _ hXlc
    nlinarith
  have hM' : (a' + 2) * c - 1 = M := by omega
  rw [hM'] at hY hmod
  rw [hS, Nat.add_mul_mod_self_right] at hmod
  have hYS : Y = 1 + H + Xl * (a' + 2) := by
    have hS1 : 1 ≤ 1 + H + Xl * (a' + 2) := by omega
    generalize 1 + H + Xl * (a' + 2) = S at *
    rcases Nat.lt_or_ge Y M with h | h
    · rw [Nat.mod_eq_of_lt h] at hmod
      rcases Nat.lt_or_ge S M with h' | h'
      · rw [Nat.mod_eq_of_lt h'] at hmod; exact hmod
      · have : S = M := by omega
        rw [this, Nat.mod_self] at hmod; omega
    · have hYM : Y = M := by omega
      rw [hYM, Nat.mod_self] at hmod
      rcases Nat.lt_or_ge S M with h' | h'
      · rw [Nat.mod_eq_of_lt h'] at hmod; omega
      · omega
  rw [hYS, Nat.add_mul_div_right _ _ (by omega), Nat.div_eq_of_lt (by omega)]; simp

/-- The Newton update: with `R·U ≡ 1 (mod a)`, `U'·R = 1 + X·a` for `U' ≡ U (mod a·b)`, `b ∣ a`, and
    `T ≡ −(R mod b)·(X mod b) (mod b)`, the extended `R + a·T` inverts `U` modulo `a·b`. -/
theorem newton_update (a b d U U' R X T : Nat) (hb : 2 ≤ b) (hab : a = b * d) (hd : 1 ≤ d)
    (hRU : (R * U) % a = 1) (hU' : U' = U % (a * b)) (hP : U' * R = 1 + X * a)
    (hT : T = (b - (R % b * (X % b)) % b) % b) : ((R + a * T) * U) % (a * b) = 1 := by
  have hN : 1 < a * b := by subst hab; nlinarith [Nat.mul_le_mul hb hd]
  -- everything in ℤ
  have hTz : ((T : ℤ) + R * X) % b = 0 := by
    have h1 : (T + (R % b * (X % b)) % b) % b = 0 := by
      subst hT
      have hlt : (R % b * (X % b)) % b < b := Nat.mod_lt _ (by omega)
      generalize (R % b * (X % b)) % b = w at *
      rcases Nat.eq_zero_or_pos w with h | h
      · subst h; simp
      · rw [Nat.mod_eq_of_lt (by omega : b - w < b)]
        have : b - w + w = b := by omega
        rw [this, Nat.mod_self]
    have h2 : (T + R * X) % b = 0 := by
      have : (T + R * X) % b = (T + (R % b * (X % b)) % b) % b := by
        rw [Nat.add_mod, Nat.mul_mod R X b]; simp [Nat.add_mod]
      rw [this, h1]
    have := congrArg (fun n : ℕ => (n : ℤ)) h2
    push_cast at this; exact this
  have hd1 : (b : ℤ) ∣ (T : ℤ) + R * X := Int.dvd_of_emod_eq_zero hTz
  have hd2 : (b : ℤ) ∣ (R : ℤ) * U - 1 := by
    have h1 : (R * U) % b = 1 % b := by
      rw [← Nat.mod_mod_of_dvd (R * U) (Dvd.intro d hab.symm), hRU]
    have h2 : ((R * U : ℕ) : ℤ) ≡ ((1 : ℕ) : ℤ) [ZMOD (b : ℤ)] := Int.natCast_modEq_iff.mpr h1
    have := (Int.modEq_iff_dvd.mp h2.symm)
    push_cast at this; exact this
  have hd3 : (b : ℤ) ∣ (X : ℤ) + T * U := by
    have e : (X : ℤ) + T * U = ((T : ℤ) + R * X) * U - X * ((R : ℤ) * U - 1) := by ring
    rw [e]; exact Int.dvd_sub (Dvd.dvd.mul_right hd1 _) (Dvd.dvd.mul_left hd2 _)
  have hUq := Nat.mod_add_div U (a * b)
  rw [← hU'] at hUq
  generalize U / (a * b) = q at hUq
  have hd4 : ((a * b : ℕ) : ℤ) ∣ (((R + a * T) * U : ℕ) : ℤ) - ((1 : ℕ) : ℤ) := by
    obtain ⟨z, hz⟩ := hd3
    refine ⟨z + R * q, ?_⟩
    have hPz : (U' : ℤ) * R = 1 + X * a := by exact_mod_cast hP
    have hUz : (U : ℤ) = U' + (a : ℤ) * b * q := by exact_mod_cast hUq.symm
    push_cast
    linear_combination (R : ℤ) * hUz + hPz + (a : ℤ) * hz
  have h5 : ((1 : ℕ) : ℤ) ≡ (((R + a * T) * U : ℕ) : ℤ) [ZMOD ((a * b : ℕ) : ℤ)] := Int.modEq_iff_dvd.mpr hd4
  have h6 := Int.natCast_modEq_iff.mp h5
  have h7 : (R + a * T) * U % (a * b) = 1 % (a * b) := h6.symm
  rw [h7, Nat.mod_eq_of_lt hN]

end Mpir.Binvert
