/- mpn_gcd_subdiv_step has one `return 0` path that has already recorded a subtraction (b = 2a: a = b after
   subtracting).  mpn_hgcd_step reaches mpn_gcd_subdiv_step only when mpn_hgcd2 fails; this file shows that
   mpn_hgcd2 cannot fail on b = 2a (or a = 2b) when the top limbs are normalised (the case n ≠ s + 1), so the
   path is confined to n = s + 1, i.e. to calls of mpn_hgcd with 3 or 4 limbs. -/
import MpirProofs.Lemmas.HgcdStep
namespace Mpir.Hgcd
open Mpir Mpir.Gcd
set_option linter.unusedSimpArgs false

/-- the only ways mpn_hgcd2 returns 0 (hgcd2.c:240-258) -/
theorem hgcd2_none_cases (ah al bh bl : Nat) (h : hgcd2 ah al bh bl = none) :
    ah < 2 ∨ bh < 2 ∨
    ((ah > bh ∨ (ah = bh ∧ al > bl)) ∧ (ah * B + al - (bh * B + bl)) / B < 2) ∨
    (¬(ah > bh ∨ (ah = bh ∧ al > bl)) ∧ (bh * B + bl - (ah * B + al)) / B < 2) := by
  unfold hgcd2 at h
  split at h
  · rename_i h1; rcases h1 with h1 | h1
    · left; exact h1
    · right; left; exact h1
  · simp only at h
    split at h
    · rename_i hc
      split at h
      · rename_i h2; right; right; left; exact ⟨hc, h2⟩
      · exact absurd h (by simp)
    · rename_i hc
      split at h
      · rename_i h2; right; right; right; exact ⟨hc, h2⟩
      · exact absurd h (by simp)

theorem or_ge_two_pow {x y k : Nat} (h : 2 ^ k ≤ x ||| y) : 2 ^ k ≤ x ∨ 2 ^ k ≤ y := by
  by_contra hc
  have := Nat.or_lt_two_pow (x := x) (y := y) (n := k) (by omega) (by omega)
  omega

/-- in the case n ≠ s + 1 one of the two high limbs handed to mpn_hgcd2 has its top bit set -/
theorem stepTop_norm (n a b s : Nat) (t : Nat × Nat × Nat × Nat) (hn : 3 ≤ n) (hns : n ≠ s + 1)
    (ha : a < B ^ n) (hb : b < B ^ n) (htop : B ^ (n - 1) ≤ a ∨ B ^ (n - 1) ≤ b)
    (h : stepTop n a b s = some t) : 2 ^ 63 ≤ t.1 ∨ 2 ^ 63 ≤ t.2.2.1 := by
  unfold stepTop at h
  simp only [if_neg hns] at h
  have hmask : limbAt a (n - 1) ||| limbAt b (n - 1) ≠ 0 := by
    intro hz
    rw [Nat.or_eq_zero_iff] at hz
    have h1 := (limbAt_top_zero a n (by omega) ha).mp hz.1
    have h2 := (limbAt_top_zero b n (by omega) hb).mp hz.2
    omega
  split at h
  · rename_i hm
    have := Option.some.inj h
    subst this
    exact or_ge_two_pow hm
  · rename_i hm
    have := Option.some.inj h
    subst this
    simp only
    obtain ⟨hs1, hs, hta, htb⟩ := clz_mask _ _ hm
    have hlog : 2 ^ (limbAt a (n - 1) ||| limbAt b (n - 1)).log2 ≤ limbAt a (n - 1) ||| limbAt b (n - 1) :=
      Nat.log2_self_le hmask
    have hl63 : (limbAt a (n - 1) ||| limbAt b (n - 1)).log2 < 63 :=
      (Nat.log2_lt hmask).mpr (by omega)
    have hclz : clz (limbAt a (n - 1) ||| limbAt b (n - 1)) = 63 - (limbAt a (n - 1) ||| limbAt b (n - 1)).log2 := rfl
    generalize (limbAt a (n - 1) ||| limbAt b (n - 1)).log2 = L at *
    generalize clz (limbAt a (n - 1) ||| limbAt b (n - 1)) = sh at *
    have hlimb : ∀ x i, limbAt x i < B := fun x i => by rw [limbAt_eq]; exact Nat.mod_lt _ B_pos
    have key : ∀ th tl, th < 2 ^ (64 - sh) → tl < B → 2 ^ L ≤ th → 2 ^ 63 ≤ extractNumb sh th tl := by
      intro th tl h1 h2 h3
      rw [extractNumb_eq sh th tl hs1 hs h2, Nat.mod_eq_of_lt h1]
      have : 2 ^ L * 2 ^ sh ≤ th * 2 ^ sh := Nat.mul_le_mul_right _ h3
      have e : 2 ^ L * 2 ^ sh = 2 ^ 63 := by rw [← Nat.pow_add]; congr 1; omega
      exact le_trans (by omega) (Nat.le_add_right _ _)
    rcases or_ge_two_pow hlog with h1 | h1
    · left; exact key _ _ hta (hlimb _ _) h1
    · right; exact key _ _ htb (hlimb _ _) h1

/-- windows of X and 2X -/
theorem window_double (A0 B0 W rx ry X : Nat) (hW : 0 < W) (hrx : rx < W) (hry : ry < W)
    (ea : X = W * A0 + rx) (eb : 2 * X = W * B0 + ry) : 2 * A0 ≤ B0 ∧ B0 < 2 * A0 + 2 := by
  have h1 : W * (2 * A0) ≤ W * B0 + ry := by rw [← eb, ea]; ring_nf; omega
  have h2 : W * B0 < W * (2 * A0 + 2) := by
    have : W * B0 + ry = 2 * (W * A0 + rx) := by rw [← eb, ea]
    have : W * (2 * A0 + 2) = 2 * (W * A0) + 2 * W := by ring
    omega
  constructor
  · by_contra hc
    have : W * (B0 + 1) ≤ W * (2 * A0) := Nat.mul_le_mul_left _ (by omega)
    rw [Nat.mul_add] at this; omega
  · exact Nat.lt_of_mul_lt_mul_left h2

/-- mpn_hgcd2 succeeds when one two-limb operand is normalised and (up to the truncation) twice the other -/
theorem hgcd2_double (t : Nat × Nat × Nat × Nat)
    (t1 : t.1 < B) (t2 : t.2.1 < B) (t3 : t.2.2.1 < B) (t4 : t.2.2.2 < B)
    (hnorm : 2 ^ 63 ≤ t.1 ∨ 2 ^ 63 ≤ t.2.2.1)
    (hd : (2 * (t.1 * B + t.2.1) ≤ t.2.2.1 * B + t.2.2.2 ∧ t.2.2.1 * B + t.2.2.2 < 2 * (t.1 * B + t.2.1) + 2) ∨
          (2 * (t.2.2.1 * B + t.2.2.2) ≤ t.1 * B + t.2.1 ∧ t.1 * B + t.2.1 < 2 * (t.2.2.1 * B + t.2.2.2) + 2)) :
    hgcd2 t.1 t.2.1 t.2.2.1 t.2.2.2 ≠ none := by
  intro hnone
  rw [B_eq] at t1 t2 t3 t4 hd
  rcases hgcd2_none_cases _ _ _ _ hnone with h | h | ⟨hc, h⟩ | ⟨hc, h⟩
  · omega
  · omega
  · rw [B_eq] at h
    rcases hc with hc | ⟨hc1, hc2⟩ <;> omega
  · rw [B_eq] at h
    rw [not_or, not_and_or] at hc
    omega

/-- mpn_hgcd_step with n ≠ s + 1: a `return 0` leaves a, b and M untouched. -/
theorem hgcdStep_unchanged (n a b s : Nat) (M : HM) (hM : MOk M) (hn : 3 ≤ n) (hs : s < n) (hs0 : 1 ≤ s)
    (hns : n ≠ s + 1) (ha : a < B ^ n) (hb : b < B ^ n) (htop : B ^ (n - 1) ≤ a ∨ B ^ (n - 1) ≤ b)
    (hret : (hgcdStep n a b s M).ret = 0) :
    (hgcdStep n a b s M).a = a ∧ (hgcdStep n a b s M).b = b ∧ (hgcdStep n a b s M).M = M := by
  obtain ⟨E, _, _, _, _, _, h0⟩ := hgcdStep_spec n a b s M hM (by omega) hs hs0 ha hb
  obtain ⟨_, _, _, hcase⟩ := h0 hret
  rcases hcase with h | ⟨hS, _, hd⟩
  · exact h
  · exfalso
    -- the recorded-subtraction path: b = 2a or a = 2b, reached through subdivStepS, so hgcd2 failed
    have hsome : ∃ t, stepTop n a b s = some t := by
      unfold stepTop; simp only [if_neg hns]; split <;> exact ⟨_, rfl⟩
    obtain ⟨t, ht⟩ := hsome
    have hbind : (stepTop n a b s).bind (fun t => hgcd2 t.1 t.2.1 t.2.2.1 t.2.2.2) = none := by
      by_contra hc
      obtain ⟨m1, hm1⟩ := Option.ne_none_iff_exists'.mp hc
      obtain ⟨t', ht', h2'⟩ := Option.bind_eq_some_iff.mp hm1
      obtain ⟨_, _, x, y, hr, _, _, _, _⟩ := hgcd2_step_spec n a b s t' m1 (by omega) hs hs0 ha hb ht' h2'
      obtain ⟨_, _, _, _, _, v6, _⟩ := mul1InvVec_spec m1 a b n x y hr ha hb (by omega)
      unfold hgcdStep at hret
      rw [hm1] at hret
      simp only at hret
      omega
    rw [ht] at hbind
    simp only [Option.bind_some] at hbind
    obtain ⟨sh, rx, ry, hsh, _, hrx, hry, t1, t2, t3, t4, ea, eb⟩ := stepTop_spec n a b s t (by omega) hs hs0 ha hb ht
    have hnorm := stepTop_norm n a b s t hn hns ha hb htop ht
    have hW : 0 < B ^ (n - 2) := pow_pos B_pos _
    rcases hd with hd | hd
    · have := window_double _ _ (B ^ (n - 2)) rx ry (a * 2 ^ sh) hW hrx hry ea (by rw [← eb, hd]; ring)
      exact hgcd2_double t t1 t2 t3 t4 hnorm (Or.inl this) hbind
    · have := window_double _ _ (B ^ (n - 2)) ry rx (b * 2 ^ sh) hW hry hrx eb (by rw [← ea, hd]; ring)
      exact hgcd2_double t t1 t2 t3 t4 hnorm (Or.inr this) hbind

end Mpir.Hgcd
