/- mpn_hgcd_step (hgcd_step.c) and mpn_gcd_subdiv_step with s > 0 (gcd_subdiv_step.c, hook = hgcd_hook):
   every step multiplies M by a non-negative unimodular E from the right with (a; b) = E·(a'; b'), and a
   successful step leaves both numbers with more than s limbs. -/
import MpirProofs.Lemmas.HgcdMatrix2
namespace Mpir.Hgcd
open Mpir Mpir.Gcd
set_option linter.unusedSimpArgs false

def idM : M1 := ⟨1, 0, 0, 1⟩

theorem mmul_id (m : M1) : mmul m idM = m := by
  cases m; simp [mmul, idM]

theorem mrel_id (a b : Nat) : MRel idM a b a b := by
  refine ⟨by simp [idM], ?_, ?_⟩ <;> simp [idM]

theorem mmul_assoc (a b c : M1) : mmul (mmul a b) c = mmul a (mmul b c) := by
  simp only [mmul, M1.mk.injEq]
  refine ⟨?_, ?_, ?_, ?_⟩ <;> ring

theorem det1_pos {m : M1} (h : det1 m) : 1 ≤ m.u00 ∧ 1 ≤ m.u11 := by
  unfold det1 at h
  constructor
  · rcases Nat.eq_zero_or_pos m.u00 with h0 | h0
    · rw [h0] at h; simp at h
    · exact h0
  · rcases Nat.eq_zero_or_pos m.u11 with h0 | h0
    · rw [h0] at h; simp at h
    · exact h0

theorem nonId_mmul {m n : M1} (h : NonId m) (hn : det1 n) : NonId (mmul m n) := by
  obtain ⟨p0, p1⟩ := det1_pos hn
  rcases h with h | h
  · left
    show m.u00 * n.u01 + m.u01 * n.u11 ≠ 0
    have : 0 < m.u01 * n.u11 := Nat.mul_pos (Nat.pos_of_ne_zero h) p1
    omega
  · right
    show m.u10 * n.u00 + m.u11 * n.u10 ≠ 0
    have : 0 < m.u10 * n.u00 := Nat.mul_pos (Nat.pos_of_ne_zero h) p0
    omega

theorem nonId_elemQ {q col : Nat} (hq : 0 < q) : NonId (elemQ q col) := by
  unfold elemQ NonId
  split
  · right; simp; omega
  · left; simp; omega

theorem mrel_det {m : M1} {x y X Y : Nat} (h : MRel m x y X Y) : det1 m := h.1

/-- (a; b) = E·(a'; b') for the elementary matrix of "subtract q times the other one" -/
theorem mrel_elemQ1 (q x y : Nat) (h : q * y ≤ x) : MRel (elemQ q 1) (x - q * y) y x y := by
  refine ⟨by simp [elemQ], ?_, ?_⟩ <;> simp [elemQ] <;> omega

theorem mrel_elemQ0 (q x y : Nat) (h : q * x ≤ y) : MRel (elemQ q 0) x (y - q * x) x y := by
  refine ⟨by simp [elemQ], ?_, ?_⟩ <;> simp [elemQ] <;> omega

/-! ### the mpn_hgcd2 branch -/

/-- sharper form of `post_extend`: both components of M⁻¹ applied to any extension keep at least W·B -/
theorem post_extend' {A0 B0 : Nat} {m : M1} (hA : A0 < B * B) (hB : B0 < B * B) (h : Post A0 B0 m)
    (W rx ry : Nat) (hrx : rx < W) (hry : ry < W) :
    ∃ x y, MRel m x y (W * A0 + rx) (W * B0 + ry) ∧ W * B ≤ x ∧ W * B ≤ y := by
  obtain ⟨x, y, hr, hx, hy, _, r1, r2⟩ := h
  have hA' : A0 < 12297829382473034411 * (3 * 2 ^ 63) := by rw [B_eq] at hA; omega
  have hB' : B0 < 12297829382473034411 * (3 * 2 ^ 63) := by rw [B_eq] at hB; omega
  obtain ⟨x', y', hr', hx', hy', _, _⟩ := trunc_lift W rx ry hr (le_of_lt hrx) (le_of_lt hry) (by omega) (by omega)
  refine ⟨x', y', hr', le_trans (Nat.mul_le_mul_left _ ?_) hx', le_trans (Nat.mul_le_mul_left _ ?_) hy'⟩
  · rw [B_eq]; omega
  · rw [B_eq]; omega

theorem post_msb0 {A0 B0 : Nat} {m : M1} (h : Post A0 B0 m) : Msb0 m := by
  obtain ⟨x, y, _, _, _, _, r1, r2⟩ := h
  exact ⟨by omega, by omega, by omega, by omega⟩

theorem post_nonId {A0 B0 : Nat} {m : M1} (h : Post A0 B0 m) : NonId m := by
  obtain ⟨x, y, _, _, _, hn, _, _⟩ := h
  exact hn

/-- The four limbs mpn_hgcd_step hands to mpn_hgcd2 are ⌊a·2^sh / B^(n-2)⌋, ⌊b·2^sh / B^(n-2)⌋ for a common
    shift sh ≤ 63, and sh = 0 in the case n = s + 1. -/
theorem stepTop_spec (n a b s : Nat) (t : Nat × Nat × Nat × Nat) (hn : 2 ≤ n) (hs : s < n) (hs0 : 1 ≤ s)
    (ha : a < B ^ n) (hb : b < B ^ n) (h : stepTop n a b s = some t) :
    ∃ sh rx ry, sh ≤ 63 ∧ (n = s + 1 → sh = 0) ∧ rx < B ^ (n - 2) ∧ ry < B ^ (n - 2) ∧
      t.1 < B ∧ t.2.1 < B ∧ t.2.2.1 < B ∧ t.2.2.2 < B ∧
      a * 2 ^ sh = B ^ (n - 2) * (t.1 * B + t.2.1) + rx ∧
      b * 2 ^ sh = B ^ (n - 2) * (t.2.2.1 * B + t.2.2.2) + ry := by
  obtain ⟨k, rfl⟩ : ∃ k, n = k + 2 := ⟨n - 2, by omega⟩
  have e1 : k + 2 - 1 = k + 1 := rfl
  have e2 : k + 2 - 2 = k := rfl
  have noshift : ∀ t', t' = (limbAt a (k + 1), limbAt a k, limbAt b (k + 1), limbAt b k) →
      ∃ sh rx ry, sh ≤ 63 ∧ (k + 2 = s + 1 → sh = 0) ∧ rx < B ^ k ∧ ry < B ^ k ∧
        t'.1 < B ∧ t'.2.1 < B ∧ t'.2.2.1 < B ∧ t'.2.2.2 < B ∧
        a * 2 ^ sh = B ^ k * (t'.1 * B + t'.2.1) + rx ∧ b * 2 ^ sh = B ^ k * (t'.2.2.1 * B + t'.2.2.2) + ry := by
    intro t' ht'
    obtain ⟨a1, a2, a3⟩ := top_noshift a k ha
    obtain ⟨b1, b2, b3⟩ := top_noshift b k hb
    subst ht'
    exact ⟨0, a % B ^ k, b % B ^ k, by omega, fun _ => rfl, Nat.mod_lt _ (pow_pos B_pos _), Nat.mod_lt _ (pow_pos B_pos _),
      a1, a2, b1, b2, a3, b3⟩
  unfold stepTop at h
  simp only [e1, e2] at h
  rw [e2]
  by_cases hs1 : k + 2 = s + 1
  · rw [if_pos hs1] at h
    split at h
    · exact absurd h (by simp)
    · exact noshift t (Option.some.inj h).symm
  · rw [if_neg hs1] at h
    split at h
    · exact noshift t (Option.some.inj h).symm
    · rename_i hm
      -- shifted: this is `top2` for n ≥ 3
      have hk : 1 ≤ k := by omega
      have h2 : ¬ (k + 2 = 2) := by omega
      obtain ⟨sh, rx, ry, q1, q2, q3, q4, q5, q6, q7, q8, q9⟩ := top2_spec a b (k + 2) (by omega) ha hb
      have ht : top2 a b (k + 2) = t := by
        unfold top2
        simp only [e1, e2, if_neg hm, if_neg h2]
        exact Option.some.inj h
      simp only [ht, e2] at q2 q3 q4 q5 q6 q7 q8 q9
      exact ⟨sh, rx, ry, q1, fun hc => absurd hc hs1, q2, q3, q4, q5, q6, q7, q8, q9⟩

/-- what a successful mpn_hgcd2 call inside mpn_hgcd_step guarantees for the FULL numbers: M1 has limbs
    below 2^63, is not the identity, (a; b) = M1·(x; y) exactly and x, y ≥ B^s (both keep more than s limbs). -/
theorem hgcd2_step_spec (n a b s : Nat) (t : Nat × Nat × Nat × Nat) (m1 : M1) (hn : 2 ≤ n) (hs : s < n) (hs0 : 1 ≤ s)
    (ha : a < B ^ n) (hb : b < B ^ n) (h : stepTop n a b s = some t)
    (h2 : hgcd2 t.1 t.2.1 t.2.2.1 t.2.2.2 = some m1) :
    Msb0 m1 ∧ NonId m1 ∧ ∃ x y, MRel m1 x y a b ∧ B ^ s ≤ x ∧ B ^ s ≤ y ∧ B ^ (n - 2) ≤ x ∧ B ^ (n - 2) ≤ y := by
  obtain ⟨sh, rx, ry, hsh, hsh0, hrx, hry, t1, t2, t3, t4, ea, eb⟩ := stepTop_spec n a b s t hn hs hs0 ha hb h
  have hp := hgcd2_post _ _ _ _ m1 t1 t2 t3 t4 h2
  have hA : t.1 * B + t.2.1 < B * B := by
    have : (t.1 + 1) * B ≤ B * B := Nat.mul_le_mul_right _ t1
    rw [Nat.add_mul] at this; omega
  have hB : t.2.2.1 * B + t.2.2.2 < B * B := by
    have : (t.2.2.1 + 1) * B ≤ B * B := Nat.mul_le_mul_right _ t3
    rw [Nat.add_mul] at this; omega
  refine ⟨post_msb0 hp, post_nonId hp, ?_⟩
  obtain ⟨x, y, hr, hx, hy⟩ := post_extend' hA hB hp (B ^ (n - 2)) rx ry hrx hry
  rw [← ea, ← eb] at hr
  have hW : 0 < B ^ (n - 2) := pow_pos B_pos _
  have hBB : B ^ (n - 2) * B = 2 * B ^ (n - 2) * 2 ^ 63 := by rw [B_eq]; ring
  obtain ⟨c1, c2, c3, c4, c5⟩ := contract_of_mrel (W := 2 * B ^ (n - 2)) hsh hr (by rw [← hBB]; exact hx)
    (by rw [← hBB]; exact hy) (by omega)
  have hstep := lehmerOk_stepOk m1 ⟨a, b, 0, 1⟩ c1
  obtain ⟨hd, hea, heb, _, _⟩ := hstep
  simp only [applyM] at hea heb
  refine ⟨m1.u11 * a - m1.u01 * b, m1.u00 * b - m1.u10 * a, ⟨hd, hea, heb⟩, ?_, ?_, by omega, by omega⟩
  · by_cases hc : n = s + 1
    · -- no shift: x = a' exactly, and x ≥ B^(n-2)·B = B^s
      have h0 := hsh0 hc
      subst h0
      simp only [pow_zero, Nat.mul_one] at hr
      obtain ⟨i1, _⟩ := mrel_inverse hr
      have : m1.u11 * a - m1.u01 * b = x := by omega
      rw [this]
      have : B ^ s = B ^ (n - 2) * B := by rw [← pow_succ]; congr 1; omega
      rw [this]; exact hx
    · have hle : B ^ s ≤ B ^ (n - 2) := Nat.pow_le_pow_right B_pos (by omega)
      omega
  · by_cases hc : n = s + 1
    · have h0 := hsh0 hc
      subst h0
      simp only [pow_zero, Nat.mul_one] at hr
      obtain ⟨_, i2⟩ := mrel_inverse hr
      have : m1.u00 * b - m1.u10 * a = y := by omega
      rw [this]
      have : B ^ s = B ^ (n - 2) * B := by rw [← pow_succ]; congr 1; omega
      rw [this]; exact hy
    · have hle : B ^ s ≤ B ^ (n - 2) := Nat.pow_le_pow_right B_pos (by omega)
      omega

/-! ### mpn_gcd_subdiv_step with s > 0 -/

def absDiff (a b : Nat) : Nat := if a ≥ b then a - b else b - a

/-- invariant of an hgcd matrix: entries fit the size field, size positive -/
def MOk (M : HM) : Prop := M.Fits ∧ 1 ≤ M.n

/-- What one call of mpn_hgcd_step / mpn_gcd_subdiv_step (s > 0) guarantees, whatever it returns:
    M' = M·E and (a; b) = E·(a'; b') for a non-negative E of determinant 1 (so gcd and cofactors are
    preserved even on the `return 0` paths that have already recorded a subtraction); on success E ≠ I,
    both numbers keep more than s limbs and the returned size is exact; on `return 0` one of a', b',
    |a' - b'| fits in s limbs. -/
def StepPost (n a b s : Nat) (M : HM) (r : StepRes) : Prop :=
  ∃ E : M1, r.M.toM1 = mmul M.toM1 E ∧ MRel E r.a r.b a b ∧ MOk r.M ∧ r.M.alloc = M.alloc ∧
    (r.ret ≠ 0 → NonId E ∧ B ^ s ≤ r.a ∧ B ^ s ≤ r.b ∧ r.a < B ^ r.ret ∧ r.b < B ^ r.ret ∧
        (B ^ (r.ret - 1) ≤ r.a ∨ B ^ (r.ret - 1) ≤ r.b) ∧ r.ret ≤ n) ∧
    (r.ret = 0 → r.a < B ^ n ∧ r.b < B ^ n ∧ (r.a < B ^ s ∨ r.b < B ^ s ∨ absDiff r.a r.b < B ^ s) ∧
        ((r.a = a ∧ r.b = b ∧ r.M = M) ∨ (B ^ s ≤ r.a ∧ r.a = r.b ∧ (b = 2 * a ∨ a = 2 * b))))

theorem nlimbs_le_iff' (x k : Nat) : nlimbs x ≤ k ↔ x < B ^ k :=
  ⟨lt_pow_of_nlimbs_le, nlimbs_le_of_lt⟩

theorem elemQ_zero (c : Nat) : elemQ 0 c = idM := by unfold elemQ idM; split <;> rfl

theorem updateQ_n_pos (M : HM) (q col : Nat) (hq : 0 < q) (hn : 1 ≤ M.n) : 1 ≤ (updateQ M q col).n := by
  have hqn : 1 ≤ nlimbs q := nlimbs_pos hq
  unfold updateQ
  simp only
  split
  · simp only [HM.setCol]; split <;> (simp only; split <;> omega)
  · simp only [HM.setCol]
    split <;> (simp only; split; · omega
               split <;> omega)

/-- hgcd_hook: M := M·(1 q; 0 1) for d = 1, M·(1 0; q 1) for d = 0 (nothing for q = 0) -/
theorem hgcdHook_spec (M : HM) (q : Nat) (d : Bool) (hM : MOk M) :
    (hgcdHook M q d).toM1 = mmul M.toM1 (elemQ q (if d then 1 else 0)) ∧ MOk (hgcdHook M q d) ∧
    (hgcdHook M q d).alloc = M.alloc := by
  unfold hgcdHook
  split
  · rename_i h; subst h
    rw [elemQ_zero, mmul_id]; exact ⟨rfl, hM, rfl⟩
  · rename_i h
    have hq : 0 < q := Nat.pos_of_ne_zero h
    have hc : (if d = true then 1 else 0) ≤ 1 := by split <;> omega
    obtain ⟨e, f, al, _, _⟩ := updateQ_spec M q (if d = true then 1 else 0) hq hc hM.1 hM.2
    exact ⟨e, ⟨f, updateQ_n_pos M q _ hq hM.2⟩, al⟩

/-- the caller's current pair is the local pair (la, lb), exchanged when `sw` -/
def LRel (sw : Bool) (E : M1) (la lb a b : Nat) : Prop := if sw then MRel E lb la a b else MRel E la lb a b

theorem lrel_sub {sw : Bool} {E : M1} {la lb a b : Nat} (q : Nat) (h : LRel sw E la lb a b) (hq : q * la ≤ lb) :
    LRel sw (mmul E (elemQ q (if sw then 1 else 0))) la (lb - q * la) a b := by
  unfold LRel at *
  cases sw
  · simp only [Bool.false_eq_true, ↓reduceIte] at h ⊢
    exact mrel_comp h (mrel_elemQ0 q la lb hq)
  · simp only [↓reduceIte] at h ⊢
    exact mrel_comp h (mrel_elemQ1 q lb la hq)

theorem lrel_swap {sw : Bool} {E : M1} {la lb a b : Nat} (h : LRel sw E la lb a b) : LRel (!sw) E lb la a b := by
  unfold LRel at *
  cases sw <;> simpa using h

theorem lrel_out {sw : Bool} {E : M1} {la lb a b : Nat} (h : LRel sw E la lb a b) :
    MRel E (if sw then lb else la) (if sw then la else lb) a b := by
  unfold LRel at h
  cases sw <;> simpa using h

theorem absDiff_comm (a b : Nat) : absDiff a b = absDiff b a := by
  unfold absDiff; split <;> split <;> omega

theorem order_lt (x y : Nat) (hne : ¬(nlimbs x = nlimbs y ∧ x = y)) (sw : Bool)
    (hsw : (if nlimbs x = nlimbs y then decide (x > y) else decide (nlimbs x > nlimbs y)) = sw) :
    (if sw = true then y else x) < (if sw = true then x else y) := by
  rw [← hsw]
  by_cases h1 : nlimbs x = nlimbs y
  · simp only [h1, ↓reduceIte, decide_eq_true_eq]
    have : x ≠ y := fun hc => hne ⟨h1, hc⟩
    split <;> omega
  · simp only [h1, ↓reduceIte, decide_eq_true_eq]
    split
    · rename_i h2
      by_contra hc
      have : nlimbs x ≤ nlimbs y := nlimbs_le_of_lt (lt_of_le_of_lt (not_lt.mp hc) (lt_pow_nlimbs y))
      omega
    · rename_i h2
      by_contra hc
      have : nlimbs y ≤ nlimbs x := nlimbs_le_of_lt (lt_of_le_of_lt (not_lt.mp hc) (lt_pow_nlimbs x))
      omega

theorem subdivStepS_spec (a b n s : Nat) (M : HM) (hM : MOk M) (ha : a < B ^ n) (hb : b < B ^ n) :
    StepPost n a b s M (subdivStepS a b s M) := by
  have hid : M.toM1 = mmul M.toM1 idM := (mmul_id _).symm
  -- the exits that change nothing
  have unchanged : (a < B ^ s ∨ b < B ^ s ∨ absDiff a b < B ^ s) → StepPost n a b s M ⟨0, a, b, M⟩ := fun h =>
    ⟨idM, hid, mrel_id a b, hM, rfl, fun hc => absurd rfl hc, fun _ => ⟨ha, hb, h, Or.inl ⟨rfl, rfl, rfl⟩⟩⟩
  unfold subdivStepS
  extract_lets an bn sw la lb lb1 M1 sw2 la2 lb2 sw' q r r2 M2 M3
  have e : an = nlimbs a := rfl
  clear_value an; subst e
  have e : bn = nlimbs b := rfl
  clear_value bn; subst e
  have hsw : (if nlimbs a = nlimbs b then decide (a > b) else decide (nlimbs a > nlimbs b)) = sw := rfl
  clear_value sw
  have ela : (if sw = true then b else a) = la := rfl
  have elb : (if sw = true then a else b) = lb := rfl
  clear_value la lb
  have elb1 : lb - la = lb1 := rfl
  clear_value lb1
  have eM1 : hgcdHook M 1 sw = M1 := rfl
  clear_value M1
  have hsw2 : (if nlimbs la = nlimbs lb1 then decide (la > lb1) else decide (nlimbs la > nlimbs lb1)) = sw2 := rfl
  clear_value sw2
  have ela2 : (if sw2 = true then lb1 else la) = la2 := rfl
  have elb2 : (if sw2 = true then la else lb1) = lb2 := rfl
  have esw' : (if sw2 = true then !sw else sw) = sw' := rfl
  clear_value la2 lb2 sw'
  have eq : lb2 / la2 = q := rfl
  have er : lb2 % la2 = r := rfl
  clear_value q r
  have er2 : r + la2 = r2 := rfl
  clear_value r2
  have eM2 : hgcdHook M1 (q - 1) sw' = M2 := rfl
  have eM3 : hgcdHook M1 q sw' = M3 := rfl
  clear_value M2 M3
  split
  · rename_i h; exact unchanged (Or.inr (Or.inr (by rw [h.2]; simp [absDiff]; exact pow_pos B_pos _)))
  rename_i hne
  -- order the pair
  have hord : la < lb := by rw [← ela, ← elb]; exact order_lt a b hne sw hsw
  have hL0 : LRel sw idM la lb a b := by
    rw [← ela, ← elb]; unfold LRel; cases sw <;> simp [mrel_id]
  have hlaB : la < B ^ n := by rw [← ela]; split <;> assumption
  have hlbB : lb < B ^ n := by rw [← elb]; split <;> assumption
  have hab : (a = la ∧ b = lb) ∨ (a = lb ∧ b = la) := by
    rw [← ela, ← elb]; cases sw <;> simp
  clear ela elb
  split
  · rename_i h
    refine unchanged ?_
    have := (nlimbs_le_iff' la s).mp h
    rcases hab with ⟨e1, e2⟩ | ⟨e1, e2⟩
    · left; omega
    · right; left; omega
  rename_i hla
  have hlaS : B ^ s ≤ la := by
    by_contra hc; exact hla ((nlimbs_le_iff' la s).mpr (by omega))
  split
  · rename_i h
    refine unchanged (Or.inr (Or.inr ?_))
    have := (nlimbs_le_iff' lb1 s).mp h
    rw [← elb1] at this
    rcases hab with ⟨e1, e2⟩ | ⟨e1, e2⟩
    · rw [e1, e2, absDiff_comm]; unfold absDiff; rw [if_pos (by omega)]; exact this
    · rw [e1, e2]; unfold absDiff; rw [if_pos (by omega)]; exact this
  rename_i hlb
  have hlbS : B ^ s ≤ lb1 := by
    by_contra hc; exact hlb ((nlimbs_le_iff' lb1 s).mpr (by omega))
  -- the subtraction is recorded
  obtain ⟨hk1, hk2, hk3⟩ := hgcdHook_spec M 1 sw hM
  rw [eM1] at hk1 hk2 hk3
  have hL1 : LRel sw (mmul idM (elemQ 1 (if sw = true then 1 else 0))) la (lb - 1 * la) a b :=
    lrel_sub 1 hL0 (by omega)
  rw [Nat.one_mul, elb1] at hL1
  have hE1 : NonId (mmul idM (elemQ 1 (if sw = true then 1 else 0))) := by
    have : mmul idM (elemQ 1 (if sw = true then 1 else 0)) = elemQ 1 (if sw = true then 1 else 0) := by
      simp [mmul, idM]
    rw [this]; exact nonId_elemQ (by omega)
  have hM1 : M1.toM1 = mmul M.toM1 (mmul idM (elemQ 1 (if sw = true then 1 else 0))) := by
    rw [hk1]; congr 1; simp [mmul, idM]
  generalize mmul idM (elemQ 1 (if sw = true then 1 else 0)) = E1 at *
  have hlb1B : lb1 < B ^ n := by omega
  have hlb1e : lb1 + la = lb := by omega
  rw [eM1]
  clear eM1 elb1
  split
  · -- a = b after the subtraction: recorded, 0 returned
    rename_i h
    have hout := lrel_out hL1
    refine ⟨E1, hM1, hout, hk2, hk3, fun hc => absurd rfl hc, fun _ => ⟨?_, ?_, Or.inr (Or.inr ?_), Or.inr ⟨?_, ?_, ?_⟩⟩⟩
    · cases sw <;> simp <;> omega
    · cases sw <;> simp <;> omega
    · rw [h.2]; cases sw <;> simp [absDiff] <;> exact pow_pos B_pos _
    · cases sw <;> simp <;> omega
    · rw [h.2]
    · have h2 := h.2
      rcases hab with ⟨e1, e2⟩ | ⟨e1, e2⟩
      · left; omega
      · right; omega
  rename_i hne2
  -- order again
  have hord2 : la2 < lb2 := by rw [← ela2, ← elb2]; exact order_lt la lb1 hne2 sw2 hsw2
  have hL2 : LRel sw' E1 la2 lb2 a b := by
    rw [← ela2, ← elb2, ← esw']
    cases sw2
    · simpa using hL1
    · simpa using lrel_swap hL1
  have hla2S : B ^ s ≤ la2 := by rw [← ela2]; split <;> assumption
  have hlb2B : lb2 < B ^ n := by rw [← elb2]; split <;> assumption
  clear ela2 elb2 esw' hsw2
  have hla2pos : 0 < la2 := lt_of_lt_of_le (pow_pos B_pos s) hla2S
  have hdm : la2 * q + r = lb2 := by rw [← eq, ← er]; exact Nat.div_add_mod lb2 la2
  have hrlt : r < la2 := by rw [← er]; exact Nat.mod_lt _ hla2pos
  have hqpos : 1 ≤ q := by rw [← eq]; exact (Nat.one_le_div_iff hla2pos).mpr (le_of_lt hord2)
  clear eq er
  have hE1d : det1 E1 := by unfold LRel at hL1; cases sw <;> simp at hL1 <;> exact hL1.1
  split
  · -- remainder too small: quotient decremented, a added back
    rename_i hr
    obtain ⟨hq1, hq2, hq3⟩ := hgcdHook_spec M1 (q - 1) sw' hk2
    rw [eM2] at hq1 hq2 hq3
    have hle : (q - 1) * la2 ≤ lb2 := by
      calc (q - 1) * la2 ≤ q * la2 := Nat.mul_le_mul_right _ (by omega)
        _ = la2 * q := Nat.mul_comm _ _
        _ ≤ lb2 := by omega
    have hL3 := lrel_sub (q - 1) hL2 hle
    have hval : lb2 - (q - 1) * la2 = r2 := by
      obtain ⟨k, hk⟩ : ∃ k, q = k + 1 := ⟨q - 1, by omega⟩
      rw [hk] at hdm ⊢
      simp only [Nat.add_sub_cancel]
      have : la2 * (k + 1) = k * la2 + la2 := by ring
      omega
    rw [hval] at hL3
    have hout := lrel_out hL3
    have hsum : r2 ≤ lb2 := by
      have : la2 * 1 ≤ la2 * q := Nat.mul_le_mul_left _ hqpos
      omega
    have hpos : 0 < r2 := by omega
    obtain ⟨nb1, nb2⟩ := nlimbs_bounds _ hpos
    refine ⟨mmul E1 (elemQ (q - 1) (if sw' = true then 1 else 0)), ?_, hout, hq2, by rw [hq3, hk3], fun _ => ?_, fun hc => ?_⟩
    · rw [hq1, hM1, mmul_assoc]
    · refine ⟨nonId_mmul hE1 (det1_elemQ _ _), ?_, ?_, ?_, ?_, ?_, ?_⟩
      · cases sw' <;> simp <;> omega
      · cases sw' <;> simp <;> omega
      · cases sw' <;> simp <;> omega
      · cases sw' <;> simp <;> omega
      · cases sw' <;> simp
        · right; exact nb2
        · left; exact nb2
      · exact nlimbs_le_of_lt (by omega)
    · exfalso
      have : nlimbs r2 = 0 := hc
      have := nlimbs_pos hpos
      omega
  · rename_i hr
    have hrS : B ^ s ≤ r := by
      by_contra hc; exact hr ((nlimbs_le_iff' _ s).mpr (by omega))
    obtain ⟨hq1, hq2, hq3⟩ := hgcdHook_spec M1 q sw' hk2
    rw [eM3] at hq1 hq2 hq3
    have hle : q * la2 ≤ lb2 := by rw [Nat.mul_comm]; omega
    have hL3 := lrel_sub q hL2 hle
    have hval : lb2 - q * la2 = r := by rw [Nat.mul_comm]; omega
    rw [hval] at hL3
    have hout := lrel_out hL3
    obtain ⟨nb1, nb2⟩ := nlimbs_bounds _ hla2pos
    refine ⟨mmul E1 (elemQ q (if sw' = true then 1 else 0)), ?_, hout, hq2, by rw [hq3, hk3], fun _ => ?_, fun hc => ?_⟩
    · rw [hq1, hM1, mmul_assoc]
    · refine ⟨nonId_mmul hE1 (det1_elemQ _ _), ?_, ?_, ?_, ?_, ?_, ?_⟩
      · cases sw' <;> simp <;> omega
      · cases sw' <;> simp <;> omega
      · cases sw' <;> simp <;> omega
      · cases sw' <;> simp <;> omega
      · cases sw' <;> simp
        · left; exact nb2
        · right; exact nb2
      · exact nlimbs_le_of_lt (by omega)
    · exfalso
      have : nlimbs la2 = 0 := hc
      have := nlimbs_pos hla2pos
      omega

/-! ### mpn_hgcd_step -/

theorem hgcdStep_spec (n a b s : Nat) (M : HM) (hM : MOk M) (hn : 2 ≤ n) (hs : s < n) (hs0 : 1 ≤ s)
    (ha : a < B ^ n) (hb : b < B ^ n) : StepPost n a b s M (hgcdStep n a b s M) := by
  unfold hgcdStep
  cases hbind : (stepTop n a b s).bind (fun t => hgcd2 t.1 t.2.1 t.2.2.1 t.2.2.2) with
  | none => exact subdivStepS_spec a b n s M hM ha hb
  | some m1 =>
    obtain ⟨t, ht, h2⟩ := Option.bind_eq_some_iff.mp hbind
    obtain ⟨hmsb, hnid, x, y, hr, hx, hy, hx2, hy2⟩ := hgcd2_step_spec n a b s t m1 hn hs hs0 ha hb ht h2
    obtain ⟨v1, v2, v3, v4, v5, v6, v7⟩ := mul1InvVec_spec m1 a b n x y hr ha hb (by omega)
    obtain ⟨w1, w2, w3, w4, w5⟩ := matMul1_spec M m1 hM.1 hmsb
    have hn1 : 1 ≤ (matMul1 M m1).n := by have := hM.2; omega
    simp only
    refine ⟨m1, w1, by rw [v1, v2]; exact hr, ⟨w2, hn1⟩, w3, fun _ => ?_, fun hc => ?_⟩
    · simp only [v1, v2]
      refine ⟨hnid, hx, hy, v3, v4, ?_, v5⟩
      by_cases hc : (mul1InvVec m1 a b n).2.2 = n
      · rw [hc]; exact v7 hc
      · have : (mul1InvVec m1 a b n).2.2 = n - 1 := by omega
        rw [this]
        have : n - 1 - 1 = n - 2 := by omega
        rw [this]; left; exact hx2
    · exfalso
      have : (mul1InvVec m1 a b n).2.2 = 0 := hc
      omega

end Mpir.Hgcd
