/- Helper lemmas for mpn_binvert (Mpir/Model/Binvert.lean): the precision schedule, the bounds-checked areas,
   the arithmetic of one Newton step through the wrap-around product. -/
import MpirProofs.Lemmas.Powm
import MpirProofs.Lemmas.PowmLimb
import Mpir.Model.Binvert
import MpirProofs.Lemmas.BinvertArith
import MpirProofs.Props.C08_mm1
namespace Mpir.Binvert
open Mpir Mpir.Powm Mpir.PowmL

/-! ### the schedule -/

/-- `sizes[]` as pushed from `cur` on: every entry is at or above the threshold, each is `(previous + 1) >> 1`,
    and the base size `rn` is the first value below the threshold. -/
def ChainOk (thr : Nat) : Nat → List Nat → Nat → Prop
  | cur, [], rn => rn = cur ∧ cur < thr
  | cur, s :: rest, rn => s = cur ∧ thr ≤ cur ∧ ChainOk thr ((cur + 1) / 2) rest rn

theorem aboveThr_iff (size thr : Nat) (h : 1 ≤ thr) : aboveThr size thr = true ↔ thr ≤ size := by
  unfold aboveThr
  have : (thr == 0) = false := by simp; omega
  simp [this]

theorem schedule_chain (thr : Nat) (hthr : 2 ≤ thr) : ∀ (f rn : Nat), 1 ≤ rn → rn ≤ f →
    (schedule thr f rn).2.2 = true ∧ ChainOk thr rn (schedule thr f rn).1 (schedule thr f rn).2.1 ∧
    1 ≤ (schedule thr f rn).2.1 ∧ (schedule thr f rn).2.1 ≤ rn
  | 0, rn, h1, h2 => by omega
  | f + 1, rn, h1, h2 => by
    unfold schedule
    by_cases ha : aboveThr rn thr = true
    · rw [if_pos ha]
      have hge := (aboveThr_iff rn thr (by omega)).mp ha
      obtain ⟨i1, i2, i3, i4⟩ := schedule_chain thr hthr f ((rn + 1) / 2) (by omega) (by omega)
      refine ⟨i1, ⟨rfl, hge, i2⟩, i3, by simp only; omega⟩
    · rw [if_neg ha]
      have : ¬ thr ≤ rn := fun h => ha ((aboveThr_iff rn thr (by omega)).mpr h)
      exact ⟨rfl, ⟨rfl, by omega⟩, h1, le_refl _⟩

/-! ### bounds-checked areas -/

theorem load_eq (a : List Nat) (off len : Nat) (h : off + len ≤ a.length) :
    load a off len = ((a.drop off).take len, true) := by simp [load, h]

theorem store_eq (a : List Nat) (off : Nat) (d : List Nat) (h : off + d.length ≤ a.length) :
    store a off d = (a.take off ++ d ++ a.drop (off + d.length), true) := by simp [store, h]

theorem store_length (a : List Nat) (off : Nat) (d : List Nat) : (store a off d).1.length = a.length := by
  unfold store
  split
  · simp; omega
  · rfl

theorem store_take_hi (a : List Nat) (off : Nat) (d : List Nat) (h : off + d.length ≤ a.length) :
    (store a off d).1.take (off + d.length) = a.take off ++ d := by
  rw [store_eq a off d h]
  have : (a.take off ++ d).length = off + d.length := by simp; omega
  simp only
  rw [← this, List.take_left']
  rfl

theorem store_take_lo (a : List Nat) (off : Nat) (d : List Nat) (h : off + d.length ≤ a.length) (j : Nat) (hj : j ≤ off) :
    (store a off d).1.take j = a.take j := by
  rw [store_eq a off d h]
  simp only
  rw [List.append_assoc, List.take_append_of_le_length (by simp; omega), List.take_take, Nat.min_eq_left hj]

theorem store_read (a : List Nat) (off : Nat) (d : List Nat) (h : off + d.length ≤ a.length) (i : Nat) (hi : i ≤ d.length) :
    ((store a off d).1.drop off).take i = d.take i := by
  rw [store_eq a off d h]
  simp only
  have hl : (a.take off).length = off := by simp; omega
  have e : (a.take off ++ d ++ a.drop (off + d.length)).drop off = d ++ a.drop (off + d.length) := by
    rw [List.append_assoc]
    have g : ∀ (t r : List Nat), t.length = off → (t ++ r).drop off = r := by
      intro t r ht; subst ht; exact List.drop_left
    exact g _ _ hl
  rw [e, List.take_append_of_le_length hi]

theorem window_of_take {l l' : List Nat} (m off len : Nat) (h : l.take m = l'.take m) (hm : off + len ≤ m) :
    (l.drop off).take len = (l'.drop off).take len := by
  have e : ∀ (x : List Nat), (x.drop off).take len = ((x.take m).drop off).take len := by
    intro x
    rw [List.drop_take, List.take_take, Nat.min_eq_left (by omega)]
  rw [e l, e l', h]

end Mpir.Binvert
