/- mpn_hgcd / mpn_hgcd_reduce: the contract, by induction over the recursion (operands below HGCD_REDUCE_THRESHOLD
   limbs, so that mpn_hgcd_reduce recurses through mpn_hgcd and not through mpn_hgcd_appr). -/
import MpirProofs.Lemmas.HgcdRec
namespace Mpir.Hgcd
open Mpir Mpir.Gcd
set_option linter.unusedSimpArgs false

/-- precondition of mpn_hgcd: M freshly initialised (identity), numbers of n limbs, one of them using limb n-1 -/
def HPre (n a b : Nat) (M : HM) : Prop := M.toM1 = idM ∧ MOk M ∧ a < B ^ n ∧ b < B ^ n ∧ Tight n a b

/-- the contract of mpn_hgcd (n limbs, s = n/2 + 1): see `LoopRet`; when 0 is returned nothing was changed
    (for n ≥ 5; for n = 3, 4 a subtraction may have been recorded, see HgcdQuirk) -/
def HPost (n a b : Nat) (M : HM) (r : StepRes) : Prop :=
  LoopRet (n / 2 + 1) a b M.alloc n r ∧
  (r.ret = 0 → r.a < B ^ n ∧ r.b < B ^ n ∧ (5 ≤ n → r.a = a ∧ r.b = b ∧ r.M = M))

/-- the contract of mpn_hgcd_reduce (M, a, b, n, p) -/
def RPost (n p a b : Nat) (M : HM) (r : StepRes) : Prop :=
  MOk r.M ∧ r.M.alloc = M.alloc ∧
  (r.ret ≠ 0 → MRel r.M.toM1 r.a r.b a b ∧ NonId r.M.toM1 ∧ B ^ (p + (n - p) / 2) ≤ r.a ∧ B ^ (p + (n - p) / 2) ≤ r.b ∧
      r.a < B ^ r.ret ∧ r.b < B ^ r.ret ∧ Tight r.ret r.a r.b ∧ r.ret ≤ n) ∧
  (r.ret = 0 → 5 ≤ n - p → r.a = a ∧ r.b = b ∧ r.M = M)

theorem rpost_mk (n p a b : Nat) (M : HM) (ret' a' b' : Nat) (M' : HM) (h1 : MOk M') (h2 : M'.alloc = M.alloc)
    (h3 : ret' ≠ 0 → MRel M'.toM1 a' b' a b ∧ NonId M'.toM1 ∧ B ^ (p + (n - p) / 2) ≤ a' ∧ B ^ (p + (n - p) / 2) ≤ b' ∧
      a' < B ^ ret' ∧ b' < B ^ ret' ∧ Tight ret' a' b' ∧ ret' ≤ n)
    (h4 : ret' = 0 → 5 ≤ n - p → a' = a ∧ b' = b ∧ M' = M) : RPost n p a b M ⟨ret', a', b', M'⟩ := ⟨h1, h2, h3, h4⟩

theorem tight_div {n p a b : Nat} (hp : p < n) (h : Tight n a b) : Tight (n - p) (a / B ^ p) (b / B ^ p) := by
  have hpp : 0 < B ^ p := pow_pos B_pos _
  have e : B ^ (n - 1) = B ^ (n - p - 1) * B ^ p := by
    rw [← pow_add]; congr 1; omega
  unfold Tight at *
  rw [e] at h
  rcases h with h | h
  · left; exact (Nat.le_div_iff_mul_le hpp).mpr h
  · right; exact (Nat.le_div_iff_mul_le hpp).mpr h

theorem hpre_high {n p a b : Nat} {M : HM} (hp : p < n) (h : HPre n a b M) : HPre (n - p) (a / B ^ p) (b / B ^ p) M :=
  ⟨h.1, h.2.1, div_pow_lt (by omega) h.2.2.1, div_pow_lt (by omega) h.2.2.2.1, tight_div hp h.2.2.2.2⟩

theorem nonId_mmul_right {m n : M1} (hm : det1 m) (h : NonId n) : NonId (mmul m n) := by
  obtain ⟨p0, p1⟩ := det1_pos hm
  rcases h with h | h
  · left
    show m.u00 * n.u01 + m.u01 * n.u11 ≠ 0
    have : 0 < m.u00 * n.u01 := Nat.mul_pos p0 (Nat.pos_of_ne_zero h)
    omega
  · right
    show m.u10 * n.u00 + m.u11 * n.u10 ≠ 0
    have : 0 < m.u11 * n.u10 := Nat.mul_pos p1 (Nat.pos_of_ne_zero h)
    omega

/-- mpn_hgcd_reduce below HGCD_REDUCE_THRESHOLD, given the contract of the recursive mpn_hgcd -/
theorem reduceBody_spec (thr : Thr) (ns : Nat → Nat) (rc : Fns) (M : HM) (a b n p : Nat)
    (hrc : ∀ a' b' M', HPre (n - p) a' b' M' → HPost (n - p) a' b' M' (rc.hgcd (n - p) a' b' M'))
    (hpn : p < n) (hthr : n < thr.reduce) (hpre : HPre n a b M) :
    RPost n p a b M (reduceBody thr ns rc M a b n p) := by
  unfold reduceBody
  rw [if_pos hthr]
  obtain ⟨hl, hz⟩ := hrc _ _ _ (hpre_high hpn hpre)
  generalize rc.hgcd (n - p) (a / B ^ p) (b / B ^ p) M = r at *
  simp only
  by_cases hret : r.ret > 0
  · rw [if_pos hret]
    have hret' : r.ret ≠ 0 := Nat.ne_of_gt hret
    have hadj := adjust_after n a b p M.alloc r hpn hpre.2.2.1 hpre.2.2.2.1 hl hret'
    generalize matAdjust r.M (p + r.ret) (a % B ^ p + B ^ p * r.a) (b % B ^ p + B ^ p * r.b) p = adj at hadj ⊢
    obtain ⟨q1, q2, q3, q4, q5, q6, q7⟩ := hadj
    obtain ⟨_, hMok, hal, _, hsucc⟩ := hl
    refine rpost_mk n p a b M adj.1 adj.2.1 adj.2.2 r.M hMok hal
      (fun _ => ⟨q1, (hsucc hret').1, q5, q6, q2, q3, q4, q7⟩) (fun hc => ?_)
    exfalso
    rw [hc, pow_zero] at q2
    have hp0 : 0 < B ^ (p + (n - p) / 2) := pow_pos B_pos _
    have e0 : adj.2.1 = 0 := Nat.lt_one_iff.mp q2
    rw [e0] at q5
    exact absurd q5 (Nat.not_le.mpr hp0)
  · rw [if_neg hret]
    obtain ⟨_, hMok, hal, _, _⟩ := hl
    have hr0 : r.ret = 0 := by omega
    obtain ⟨_, _, hu⟩ := hz hr0
    refine rpost_mk n p a b M 0 _ _ r.M hMok hal (fun hc => absurd rfl hc) (fun _ h5 => ?_)
    obtain ⟨u1, u2, u3⟩ := hu h5
    rw [u1, u2, u3]
    refine ⟨?_, ?_, rfl⟩
    · rw [Nat.add_comm]; exact Nat.div_add_mod a (B ^ p)
    · rw [Nat.add_comm]; exact Nat.div_add_mod b (B ^ p)

/-- the final loop of mpn_hgcd gives the contract -/
theorem hpost_of_fin (n a b : Nat) (M : HM) (n' a' b' : Nat) (M' : HM) (su : Bool) (hpre : HPre n a b M) (hn : 3 ≤ n)
    (hacc : Acc (n / 2 + 1) a b M.alloc n' a' b' M' su) (hle : n' ≤ n)
    (hinit : su = false → n' = n ∧ a' = a ∧ b' = b ∧ M' = M) :
    HPost n a b M (hgcdFin n' a' b' (n / 2 + 1) M' su) := by
  obtain ⟨h1, h2⟩ := hgcdFin_spec (n / 2 + 1) a b M.alloc n' a' b' M' su (by omega) hacc
  refine ⟨⟨h1.1, h1.2.1, h1.2.2.1, by have := h1.2.2.2.1; omega, h1.2.2.2.2⟩, fun hc => ?_⟩
  obtain ⟨g1, g2, g3, g4, g5⟩ := h2 hc
  obtain ⟨e1, e2, e3, e4⟩ := hinit g1
  subst e1 e2 e3 e4
  obtain ⟨hid, hMok, ha, hb, ht⟩ := hpre
  obtain ⟨E, _, _, _, _, _, s0⟩ := hgcdStep_spec n' a' b' (n' / 2 + 1) M' hMok (by omega) (by omega) (by omega) ha hb
  obtain ⟨k1, k2, _, _⟩ := s0 g5
  rw [g2, g3, g4]
  refine ⟨k1, k2, fun h5 => ?_⟩
  exact hgcdStep_unchanged n' a' b' (n' / 2 + 1) M' hMok (by omega) (by omega) (by omega) (by omega) ha hb ht g5

theorem acc_mk (s a0 b0 al n a b : Nat) (M : HM) (su : Bool) (h1 : MRel M.toM1 a b a0 b0) (h2 : MOk M) (h3 : M.alloc = al)
    (h4 : a < B ^ n) (h5 : b < B ^ n) (h6 : Tight n a b) (h7 : s < n)
    (h8 : su = true → NonId M.toM1 ∧ B ^ s ≤ a ∧ B ^ s ≤ b) : Acc s a0 b0 al n a b M su :=
  ⟨h1, h2, h3, h4, h5, h6, h7, h8⟩

theorem hpre_matInit (n a b : Nat) (ha : a < B ^ n) (hb : b < B ^ n) (ht : Tight n a b) : HPre n a b (matInit n) := by
  obtain ⟨e1, e2, _, e4, _⟩ := matInit_spec n
  exact ⟨e1, ⟨e4, by rw [e2]⟩, ha, hb, ht⟩

/-- hgcd.c:114-170 -/
theorem hgcdTail_spec (thr : Thr) (rc : Fns) (n a b : Nat) (M : HM) (r : StepRes) (su : Bool) (hpre : HPre n a b M)
    (hn : 5 ≤ n) (hrc : ∀ n' a' b' M', n' < n → HPre n' a' b' M' → HPost n' a' b' M' (rc.hgcd n' a' b' M'))
    (hacc : Acc (n / 2 + 1) a b M.alloc r.ret r.a r.b r.M su) (hle : r.ret ≤ n)
    (hinit : su = false → r.ret = n ∧ r.a = a ∧ r.b = b ∧ r.M = M) :
    HPost n a b M (hgcdTail thr rc (n / 2 + 1) r su) := by
  unfold hgcdTail
  obtain ⟨c1, c2, c3, c4, c5, c6, c7, c8⟩ := hacc
  have hacc' : Acc (n / 2 + 1) a b M.alloc r.ret r.a r.b r.M su := ⟨c1, c2, c3, c4, c5, c6, c7, c8⟩
  have hfin0 := hpost_of_fin n a b M r.ret r.a r.b r.M su hpre (by omega) hacc' hle hinit
  by_cases hbig : r.ret > n / 2 + 1 + 2
  · rw [if_pos hbig]
    simp only
    have hp : 2 * (n / 2 + 1) - r.ret + 1 < r.ret := by omega
    generalize hpdef : 2 * (n / 2 + 1) - r.ret + 1 = p at *
    have hn' : r.ret - p < n := by omega
    have hpre1 : HPre (r.ret - p) (r.a / B ^ p) (r.b / B ^ p) (matInit (r.ret - p)) :=
      hpre_matInit _ _ _ (div_pow_lt (by omega) c4) (div_pow_lt (by omega) c5) (tight_div hp c6)
    obtain ⟨hl, hz⟩ := hrc _ _ _ _ hn' hpre1
    generalize rc.hgcd (r.ret - p) (r.a / B ^ p) (r.b / B ^ p) (matInit (r.ret - p)) = r1 at *
    by_cases hret : r1.ret > 0
    · rw [if_pos hret]
      have hret' : r1.ret ≠ 0 := Nat.ne_of_gt hret
      have hadj := adjust_after r.ret r.a r.b p _ r1 hp c4 c5 hl hret'
      generalize matAdjust r1.M (p + r1.ret) (r.a % B ^ p + B ^ p * r1.a) (r.b % B ^ p + B ^ p * r1.b) p = adj at hadj ⊢
      obtain ⟨q1, q2, q3, q4, q5, q6, q7⟩ := hadj
      obtain ⟨_, hMok1, _, _, hsucc⟩ := hl
      obtain ⟨w1, w2, w3, w4, _⟩ := matMul_spec thr.strassen r.M r1.M c2.1 hMok1.1
      have hs : p + (r.ret - p) / 2 = n / 2 + 1 := by omega
      rw [hs] at q5 q6
      have hnid : NonId (matMul thr.strassen r.M r1.M).toM1 := by
        rw [w1]; exact nonId_mmul_right (mrel_det c1) (hsucc hret').1
      have hacc2 : Acc (n / 2 + 1) a b M.alloc adj.1 adj.2.1 adj.2.2 (matMul thr.strassen r.M r1.M) true :=
        acc_mk _ _ _ _ _ _ _ _ _ (by rw [w1]; exact mrel_comp c1 q1) ⟨w2, w4⟩ (by rw [w3, c3]) q2 q3 q4 (pow_lt_of q5 q2)
          (fun _ => ⟨hnid, q5, q6⟩)
      exact hpost_of_fin n a b M adj.1 adj.2.1 adj.2.2 _ true hpre (by omega) hacc2 (by omega) (fun hc => absurd hc (by simp))
    · rw [if_neg hret]
      have hr0 : r1.ret = 0 := by omega
      obtain ⟨_, _, hu⟩ := hz hr0
      obtain ⟨u1, u2, _⟩ := hu (by omega)
      have ea : r.a % B ^ p + B ^ p * r1.a = r.a := by rw [u1, Nat.add_comm]; exact Nat.div_add_mod _ _
      have eb : r.b % B ^ p + B ^ p * r1.b = r.b := by rw [u2, Nat.add_comm]; exact Nat.div_add_mod _ _
      rw [ea, eb]
      exact hfin0
  · rw [if_neg hbig]
    exact hfin0

theorem hpost_mk0 (n a b : Nat) (M : HM) (hpre : HPre n a b M) (hn : n ≤ 2) : HPost n a b M ⟨0, a, b, M⟩ := by
  obtain ⟨hid, hMok, ha, hb, _⟩ := hpre
  refine ⟨⟨by rw [hid]; exact mrel_id a b, hMok, rfl, Nat.zero_le _, fun hc => absurd rfl hc⟩, fun _ => ⟨ha, hb, fun h5 => by omega⟩⟩

/-- mpn_hgcd, one level: given the contracts of the recursive calls -/
theorem hgcdBody_spec (thr : Thr) (rc : Fns) (n a b : Nat) (M : HM) (h8 : 8 ≤ thr.hgcd) (hpre : HPre n a b M)
    (hrcH : ∀ n' a' b' M', n' < n → HPre n' a' b' M' → HPost n' a' b' M' (rc.hgcd n' a' b' M'))
    (hrcR : thr.hgcd < n → RPost n (n / 2) a b M (rc.reduce M a b n (n / 2))) :
    HPost n a b M (hgcdBody thr rc n a b M) := by
  unfold hgcdBody
  simp only
  by_cases h2 : n ≤ n / 2 + 1
  · rw [if_pos h2]; exact hpost_mk0 n a b M hpre (by omega)
  rw [if_neg h2]
  obtain ⟨hid, hMok, ha, hb, ht⟩ := hpre
  have hpre' : HPre n a b M := ⟨hid, hMok, ha, hb, ht⟩
  have hacc0 : Acc (n / 2 + 1) a b M.alloc n a b M false :=
    acc_mk _ _ _ _ _ _ _ _ _ (by rw [hid]; exact mrel_id a b) hMok rfl ha hb ht (by omega) (fun hc => absurd hc (by simp))
  by_cases hthr : n > thr.hgcd
  · rw [if_pos hthr]
    obtain ⟨r1, r2, r3, r4⟩ := hrcR hthr
    generalize rc.reduce M a b n (n / 2) = r at *
    -- the state after mpn_hgcd_reduce
    have hst : ∃ su, Acc (n / 2 + 1) a b M.alloc (if r.ret ≠ 0 then (r, true) else (⟨n, r.a, r.b, r.M⟩, false) : StepRes × Bool).1.ret
        (if r.ret ≠ 0 then (r, true) else (⟨n, r.a, r.b, r.M⟩, false) : StepRes × Bool).1.a
        (if r.ret ≠ 0 then (r, true) else (⟨n, r.a, r.b, r.M⟩, false) : StepRes × Bool).1.b
        (if r.ret ≠ 0 then (r, true) else (⟨n, r.a, r.b, r.M⟩, false) : StepRes × Bool).1.M su ∧
        (if r.ret ≠ 0 then (r, true) else (⟨n, r.a, r.b, r.M⟩, false) : StepRes × Bool).2 = su ∧
        (if r.ret ≠ 0 then (r, true) else (⟨n, r.a, r.b, r.M⟩, false) : StepRes × Bool).1.ret ≤ n ∧
        (su = false → (if r.ret ≠ 0 then (r, true) else (⟨n, r.a, r.b, r.M⟩, false) : StepRes × Bool).1 = ⟨n, a, b, M⟩) := by
      by_cases hr : r.ret ≠ 0
      · rw [if_pos hr]
        obtain ⟨k1, k2, k3, k4, k5, k6, k7, k8⟩ := r3 hr
        have hs : B ^ (n / 2 + 1) ≤ B ^ (n / 2 + (n - n / 2) / 2) := Nat.pow_le_pow_right B_pos (by omega)
        exact ⟨true, acc_mk _ _ _ _ _ _ _ _ _ k1 r1 r2 k5 k6 k7 (pow_lt_of (le_trans hs k3) k5)
          (fun _ => ⟨k2, le_trans hs k3, le_trans hs k4⟩), rfl, k8, fun hc => absurd hc (by simp)⟩
      · rw [if_neg hr]
        obtain ⟨u1, u2, u3⟩ := r4 (by omega) (by omega)
        rw [u1, u2, u3]
        exact ⟨false, hacc0, rfl, le_refl _, fun _ => rfl⟩
    obtain ⟨su, hacc1, hsu, hle1, hinit1⟩ := hst
    generalize (if r.ret ≠ 0 then (r, true) else (⟨n, r.a, r.b, r.M⟩, false) : StepRes × Bool) = st at *
    rw [hsu]
    have hloop := stepLoop_spec (n / 2 + 1) a b M.alloc (3 * n / 4 + 1) (by omega) (st.1.a + st.1.b + 1) st.1.ret st.1.a st.1.b
      st.1.M su hacc1 (by omega)
    cases hl : stepLoop (st.1.a + st.1.b + 1) (3 * n / 4 + 1) st.1.ret st.1.a st.1.b (n / 2 + 1) st.1.M su with
    | inl r2 =>
      rw [hl] at hloop
      simp only
      obtain ⟨⟨l1, l2, l3, l4, l5⟩, l6⟩ := hloop
      refine ⟨⟨l1, l2, l3, by omega, l5⟩, fun hc => ?_⟩
      obtain ⟨g1, g2, g3, g4, g5, _⟩ := l6 hc
      have hi := hinit1 g1
      rw [hi] at g2 g3 g4 g5
      simp only at g2 g3 g4 g5
      obtain ⟨E, _, _, _, _, _, s0⟩ := hgcdStep_spec n a b (n / 2 + 1) M hMok (by omega) (by omega) (by omega) ha hb
      obtain ⟨k1, k2, _, _⟩ := s0 g5
      rw [g2, g3, g4]
      exact ⟨k1, k2, fun _ => hgcdStep_unchanged n a b (n / 2 + 1) M hMok (by omega) (by omega) (by omega) (by omega) ha hb ht g5⟩
    | inr q =>
      rw [hl] at hloop
      obtain ⟨r2, su2⟩ := q
      simp only
      obtain ⟨l1, l2, l3, l4, l5⟩ := hloop
      refine hgcdTail_spec thr rc n a b M r2 su2 hpre' (by omega) hrcH l1 (by omega) (fun hc => ?_)
      have hsu0 : su = false := by
        cases su
        · rfl
        · exact absurd (l4 rfl) (by rw [hc]; simp)
      have h1 := l5 hc
      have h2 := hinit1 hsu0
      rw [h1, h2]
      exact ⟨rfl, rfl, rfl, rfl⟩
  · rw [if_neg hthr]
    exact hpost_of_fin n a b M n a b M false hpre' (by omega) hacc0 (le_refl _) (fun _ => ⟨rfl, rfl, rfl, rfl⟩)

/-- the recursion by levels -/
theorem fns_spec (thr : Thr) (ns : Nat → Nat) (h8 : 8 ≤ thr.hgcd) : ∀ f,
    (∀ n a b M, 2 * n ≤ f → n < thr.reduce → HPre n a b M → HPost n a b M ((fns thr ns f).hgcd n a b M)) ∧
    (∀ M a b n p, 2 * (n - p) + 1 ≤ f → p < n → n < thr.reduce → HPre n a b M →
      RPost n p a b M ((fns thr ns f).reduce M a b n p)) := by
  intro f
  induction f with
  | zero =>
    refine ⟨fun n a b M h _ hpre => ?_, fun M a b n p h => by omega⟩
    have : n = 0 := by omega
    subst this
    exact hpost_mk0 0 a b M hpre (by omega)
  | succ f ih =>
    obtain ⟨ihH, ihR⟩ := ih
    refine ⟨fun n a b M h hthr hpre => ?_, fun M a b n p h hpn hthr hpre => ?_⟩
    · show HPost n a b M (hgcdBody thr (fns thr ns f) n a b M)
      apply hgcdBody_spec thr _ n a b M h8 hpre
      · intro n' a' b' M' hlt hpre'
        exact ihH n' a' b' M' (by omega) (by omega) hpre'
      · intro hgt
        exact ihR M a b n (n / 2) (by omega) (by omega) hthr hpre
    · show RPost n p a b M (reduceBody thr ns (fns thr ns f) M a b n p)
      apply reduceBody_spec thr ns _ M a b n p _ hpn hthr hpre
      intro a' b' M' hpre'
      exact ihH (n - p) a' b' M' (by omega) (by omega) hpre'

/-- **mpn_hgcd** (model `hgcd`) for operands below HGCD_REDUCE_THRESHOLD limbs, any thresholds with
    HGCD_THRESHOLD ≥ 8: the contract `HPost`. -/
theorem hgcd_spec (thr : Thr) (ns : Nat → Nat) (h8 : 8 ≤ thr.hgcd) (n a b : Nat) (M : HM) (hthr : n < thr.reduce)
    (hpre : HPre n a b M) : HPost n a b M (hgcd thr ns n a b M) :=
  (fns_spec thr ns h8 (depth n)).1 n a b M (by unfold depth; omega) hthr hpre

theorem hgcdReduce_spec (thr : Thr) (ns : Nat → Nat) (h8 : 8 ≤ thr.hgcd) (M : HM) (a b n p : Nat) (hpn : p < n)
    (hthr : n < thr.reduce) (hpre : HPre n a b M) : RPost n p a b M (hgcdReduce thr ns M a b n p) :=
  (fns_spec thr ns h8 (depth n)).2 M a b n p (by unfold depth; omega) hpn hthr hpre

end Mpir.Hgcd
