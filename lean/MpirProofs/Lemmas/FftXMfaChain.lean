/- The outer inverse pass of the matrix Fourier multiplication and the whole chain
   outer → inner → inverse outer = the acyclic convolution (Mpir/Model/FftMfa.lean). -/
import MpirProofs.Lemmas.FftXMfaInv
set_option linter.unusedSimpArgs false
namespace Mpir.FftX
open Mpir Finset

section ring
variable {S : Type} [CommRing S] (f : ℤ →+* S)

/-- one column of the last loop of the inverse MFA transform: given k·n2·(first-layer sums) in the first-half column and
    k·(twiddled column transform of the first-layer differences) in the relevant rows of the second-half column, both
    columns come out as 2·k·n2·(coefficients) -/
theorem imfaG2u_val (e1 e2 w trunc : Nat) (hd : 64 ∣ 2 ^ (e1 + e2 + 1) * w) (hw : 1 ≤ w)
    (hz : f 2 ^ (2 ^ (e1 + e2 + 1) * w) = -1) (ht : TruncSOk (e1 + e2 + 1) trunc) (hdiv : 2 * 2 ^ (e1 + 1) ∣ trunc)
    (x : List Int) (h0 : ∀ j, trunc ≤ j → j < 4 * 2 ^ (e1 + e2 + 1) → f (el x j) = 0) (k : S)
    (i : Nat) (hi : i < 2 ^ (e1 + 1)) (ca cb0 : List Int) (hcbl : cb0.length = 2 ^ (e2 + 1))
    (hca : ∀ m < 2 ^ (e2 + 1), f (el ca m) = k * 2 ^ (e2 + 1) *
      (f (el x (i + m * 2 ^ (e1 + 1))) + f (el x (2 * 2 ^ (e1 + e2 + 1) + (i + m * 2 ^ (e1 + 1))))))
    (hcb : ∀ s < (trunc - 2 * 2 ^ (e1 + e2 + 1)) / 2 ^ (e1 + 1), f (el cb0 (rev (e2 + 1) s)) =
      k * f (el (fft_radix2_twiddle e2 (w * 2 ^ (e1 + 1)) w 0 i 1
        (getCol (layerDiffs (2 ^ (e1 + e2 + 1)) w x) i (2 ^ (e1 + 1)) (2 ^ (e2 + 1)))) s)) :
    (∀ m < 2 ^ (e2 + 1), f (el (imfaG2u e1 e2 w trunc i ca cb0).1 m) =
      2 * (k * 2 ^ (e2 + 1)) * f (el x (i + m * 2 ^ (e1 + 1)))) ∧
    (∀ m < (trunc - 2 * 2 ^ (e1 + e2 + 1)) / 2 ^ (e1 + 1), f (el (imfaG2u e1 e2 w trunc i ca cb0).2 m) =
      2 * (k * 2 ^ (e2 + 1)) * f (el x (2 * 2 ^ (e1 + e2 + 1) + (i + m * 2 ^ (e1 + 1))))) := by
  have hN : 2 ^ (e1 + 1) * 2 ^ (e2 + 1) = 2 * 2 ^ (e1 + e2 + 1) := by
    rw [← pow_add, ← pow_succ']; congr 1; ring
  have ht2' := truncOk_of_dvd e1 e2 trunc ht hdiv
  obtain ⟨ht1, ht2, ht3⟩ := ht
  have hn1 := two_pow_pos' (e1 + 1)
  -- trunc − 2n = trunc2·n1
  have htr : trunc - 2 * 2 ^ (e1 + e2 + 1) = (trunc - 2 * 2 ^ (e1 + e2 + 1)) / 2 ^ (e1 + 1) * 2 ^ (e1 + 1) := by
    have h1 : 2 ^ (e1 + 1) ∣ trunc := Dvd.dvd.trans (Dvd.intro_left 2 rfl) hdiv
    have h2 : 2 ^ (e1 + 1) ∣ 2 * 2 ^ (e1 + e2 + 1) := by rw [← hN]; exact Dvd.intro _ rfl
    exact (Nat.div_mul_cancel (Nat.dvd_sub h1 h2)).symm
  generalize htr2 : (trunc - 2 * 2 ^ (e1 + e2 + 1)) / 2 ^ (e1 + 1) = trunc2 at *
  have ewn : wnOf (2 ^ (e1 + e2 + 1)) w = 2 ^ (e1 + e2 + 1) * w := wnOf_eq _ _ hd
  have hu : f 2 ^ (2 * (2 ^ (e1 + e2 + 1) * w)) = 1 := by rw [pow_mul' (f 2) 2 _, hz]; norm_num
  have hnw : 2 ^ e2 * (w * 2 ^ (e1 + 1)) = 2 ^ (e1 + e2 + 1) * w := by
    rw [show e1 + e2 + 1 = e2 + (e1 + 1) by ring, pow_add]; ring
  have hd' : 64 ∣ 2 ^ e2 * (w * 2 ^ (e1 + 1)) := by rw [hnw]; exact hd
  have hu' : f 2 ^ (2 * (2 ^ e2 * (w * 2 ^ (e1 + 1)))) = 1 := by rw [hnw]; exact hu
  have hw' : 1 ≤ w * 2 ^ (e1 + 1) := Nat.mul_pos hw hn1
  have hb' : (0 + 1 * (2 ^ (e2 + 1) - 1)) * i * w ≤ 2 * (2 ^ e2 * (w * 2 ^ (e1 + 1))) := by
    have e : 2 * (2 ^ e2 * (w * 2 ^ (e1 + 1))) = 2 ^ (e2 + 1) * 2 ^ (e1 + 1) * w := by rw [pow_succ]; ring
    rw [e, Nat.zero_add, Nat.one_mul]
    exact Nat.mul_le_mul_right w (Nat.mul_le_mul (Nat.sub_le _ _) (le_of_lt hi))
  -- index facts
  have hidx : ∀ m < 2 ^ (e2 + 1), i + m * 2 ^ (e1 + 1) < 2 * 2 ^ (e1 + e2 + 1) := fun m hm => by
    rw [← hN]; exact idx_lt _ _ i m hi hm
  have hpar : ∀ m, (i + m * 2 ^ (e1 + 1)) % 2 = i % 2 := fun m => by
    rw [pow_succ, ← Nat.mul_assoc, Nat.add_mul_mod_self_right]
  have hlow : ∀ m, m < trunc2 → i + m * 2 ^ (e1 + 1) < trunc - 2 * 2 ^ (e1 + e2 + 1) := fun m hm => by
    rw [htr]
    calc i + m * 2 ^ (e1 + 1) < 2 ^ (e1 + 1) + m * 2 ^ (e1 + 1) := by omega
      _ = (m + 1) * 2 ^ (e1 + 1) := by ring
      _ ≤ trunc2 * 2 ^ (e1 + 1) := Nat.mul_le_mul_right _ hm
  have hhigh : ∀ m, trunc2 ≤ m → ¬ i + m * 2 ^ (e1 + 1) < trunc - 2 * 2 ^ (e1 + e2 + 1) := fun m hm => by
    rw [htr]
    have : trunc2 * 2 ^ (e1 + 1) ≤ m * 2 ^ (e1 + 1) := Nat.mul_le_mul_right _ hm
    omega
  have hzero : ∀ m < 2 ^ (e2 + 1), trunc2 ≤ m → f (el x (2 * 2 ^ (e1 + e2 + 1) + (i + m * 2 ^ (e1 + 1)))) = 0 := by
    intro m hm hm2
    have := hhigh m hm2; have := hidx m hm
    exact h0 _ (by omega) (by omega)
  -- the value of an entry of layerDiffs
  have hDiff : ∀ m < 2 ^ (e2 + 1),
      f (el (getCol (layerDiffs (2 ^ (e1 + e2 + 1)) w x) i (2 ^ (e1 + 1)) (2 ^ (e2 + 1))) m) =
        (f (el x (i + m * 2 ^ (e1 + 1))) - f (el x (2 * 2 ^ (e1 + e2 + 1) + (i + m * 2 ^ (e1 + 1))))) *
          f (if w % 2 = 0 then 2 ^ ((i + m * 2 ^ (e1 + 1)) * (w / 2))
             else if (i + m * 2 ^ (e1 + 1)) % 2 = 0 then 2 ^ ((i + m * 2 ^ (e1 + 1)) / 2 * w)
             else sq2 (2 ^ (e1 + e2 + 1) * w) (i + m * 2 ^ (e1 + 1)) w) := by
    intro m hm
    rw [el_getCol _ _ _ _ _ hm, layerDiffs, el_range_map _ _ _ (hidx m hm), ewn, map_mul, map_sub]
  unfold imfaG2u
  simp only [htr2, ewn]
  obtain ⟨rl, rv⟩ := revSwaps_spec (e2 + 1) cb0 hcbl trunc2 ht2'.2.2
  -- the column handed to the truncated inverse transform
  set cb1 := (List.range (2 ^ (e2 + 1))).map (fun j =>
    if trunc2 ≤ j then
      if w % 2 = 1 then
        if i % 2 = 1 then adjSqrt2 (2 ^ (e1 + e2 + 1) * w) (el ca j) (i + j * 2 ^ (e1 + 1)) w
        else adj (el ca j) ((i + j * 2 ^ (e1 + 1)) / 2) w
      else adj (el ca j) (i + j * 2 ^ (e1 + 1)) (w / 2)
    else el (revSwaps (e2 + 1) trunc2 cb0) j) with hcb1
  have I := ifft_trunc1_twiddle_spec f e2 (w * 2 ^ (e1 + 1)) w 0 i 1 trunc2 ht2' hd' hw' hu' hb' k
    (getCol (layerDiffs (2 ^ (e1 + e2 + 1)) w x) i (2 ^ (e1 + 1)) (2 ^ (e2 + 1))) cb1
    (fun m hm => by
      have hm2 : m < 2 ^ (e2 + 1) := lt_of_lt_of_le hm ht2'.2.2
      rw [hcb1, el_range_map _ _ _ hm2, if_neg (by omega), rv m hm2, if_pos (Or.inl hm)]
      exact hcb m hm)
    (fun j hj1 hj2 => by
      rw [hcb1, el_range_map _ _ _ hj2, if_pos hj1, hDiff j hj2, hzero j hj2 hj1]
      have hp := hpar j
      by_cases hw2 : w % 2 = 0
      · rw [if_neg (by omega), if_pos hw2]
        simp only [adj, map_mul, map_pow]
        rw [hca j hj2, hzero j hj2 hj1]; ring
      · rw [if_pos (by omega), if_neg hw2]
        by_cases hi2 : i % 2 = 1
        · rw [if_pos hi2, if_neg (by omega)]
          simp only [adjSqrt2, map_mul]
          rw [hca j hj2, hzero j hj2 hj1]; ring
        · rw [if_neg hi2, if_pos (by omega)]
          simp only [adj, map_mul, map_pow]
          rw [hca j hj2, hzero j hj2 hj1]; ring)
  -- the final layer
  have key : ∀ m < trunc2, ∀ a b : Int,
      f a = k * 2 ^ (e2 + 1) * (f (el x (i + m * 2 ^ (e1 + 1))) + f (el x (2 * 2 ^ (e1 + e2 + 1) + (i + m * 2 ^ (e1 + 1))))) →
      f b = k * 2 ^ (e2 + 1) * f (el (getCol (layerDiffs (2 ^ (e1 + e2 + 1)) w x) i (2 ^ (e1 + 1)) (2 ^ (e2 + 1))) m) →
      f (if w % 2 = 1 then
          (if (i + m * 2 ^ (e1 + 1)) % 2 = 1 then ibflySqrt2 (2 ^ (e1 + e2 + 1) * w) a b (i + m * 2 ^ (e1 + 1)) w
           else ibfly (2 ^ (e1 + e2 + 1) * w) a b ((i + m * 2 ^ (e1 + 1)) / 2) w)
         else ibfly (2 ^ (e1 + e2 + 1) * w) a b (i + m * 2 ^ (e1 + 1)) (w / 2)).1 =
        2 * (k * 2 ^ (e2 + 1)) * f (el x (i + m * 2 ^ (e1 + 1))) ∧
      f (if w % 2 = 1 then
          (if (i + m * 2 ^ (e1 + 1)) % 2 = 1 then ibflySqrt2 (2 ^ (e1 + e2 + 1) * w) a b (i + m * 2 ^ (e1 + 1)) w
           else ibfly (2 ^ (e1 + e2 + 1) * w) a b ((i + m * 2 ^ (e1 + 1)) / 2) w)
         else ibfly (2 ^ (e1 + e2 + 1) * w) a b (i + m * 2 ^ (e1 + 1)) (w / 2)).2 =
        2 * (k * 2 ^ (e2 + 1)) * f (el x (2 * 2 ^ (e1 + e2 + 1) + (i + m * 2 ^ (e1 + 1)))) := by
    intro m hm a b ha hb
    have hm2 : m < 2 ^ (e2 + 1) := lt_of_lt_of_le hm ht2'.2.2
    apply sqrt2_layer_inv f (e1 + e2 + 1) w _ hd hz (hidx m hm2) a b _ _ _ ha
    rw [hb, hDiff m hm2]
  constructor
  · intro m hm
    rw [el_fsts _ _ _ hm]
    by_cases hm2 : m < trunc2
    · rw [if_pos (hlow m hm2)]
      exact (key m hm2 _ _ (hca m hm) (I m hm2)).1
    · rw [if_neg (hhigh m (by omega)), map_mul, hca m hm, hzero m hm (by omega)]
      simp; ring
  · intro m hm
    have hm2 : m < 2 ^ (e2 + 1) := lt_of_lt_of_le hm ht2'.2.2
    rw [el_snds _ _ _ hm2, if_pos (hlow m hm)]
    exact (key m hm _ _ (hca m hm2) (I m hm)).2

/-- … and of the second loop of the outer variant: the same, divided by 2^(depth+depth2+1) -/
theorem imfaG2_val (e1 e2 w trunc : Nat) (hd : 64 ∣ 2 ^ (e1 + e2 + 1) * w) (hw : 1 ≤ w)
    (hz : f 2 ^ (2 ^ (e1 + e2 + 1) * w) = -1) (ht : TruncSOk (e1 + e2 + 1) trunc) (hdiv : 2 * 2 ^ (e1 + 1) ∣ trunc)
    (x : List Int) (h0 : ∀ j, trunc ≤ j → j < 4 * 2 ^ (e1 + e2 + 1) → f (el x j) = 0) (k : S)
    (i : Nat) (hi : i < 2 ^ (e1 + 1)) (ca cb0 : List Int) (hcbl : cb0.length = 2 ^ (e2 + 1))
    (hca : ∀ m < 2 ^ (e2 + 1), f (el ca m) = k * 2 ^ (e2 + 1) *
      (f (el x (i + m * 2 ^ (e1 + 1))) + f (el x (2 * 2 ^ (e1 + e2 + 1) + (i + m * 2 ^ (e1 + 1))))))
    (hcb : ∀ s < (trunc - 2 * 2 ^ (e1 + e2 + 1)) / 2 ^ (e1 + 1), f (el cb0 (rev (e2 + 1) s)) =
      k * f (el (fft_radix2_twiddle e2 (w * 2 ^ (e1 + 1)) w 0 i 1
        (getCol (layerDiffs (2 ^ (e1 + e2 + 1)) w x) i (2 ^ (e1 + 1)) (2 ^ (e2 + 1)))) s)) :
    (∀ m < 2 ^ (e2 + 1), f (el (imfaG2 e1 e2 w trunc i ca cb0).1 m) =
      2 * (k * 2 ^ (e2 + 1)) * f (el x (i + m * 2 ^ (e1 + 1))) *
        f 2 ^ (2 * (2 ^ (e1 + e2 + 1) * w) - (e2 + 1 + (e1 + 1) + 1))) ∧
    (∀ m < (trunc - 2 * 2 ^ (e1 + e2 + 1)) / 2 ^ (e1 + 1), f (el (imfaG2 e1 e2 w trunc i ca cb0).2 m) =
      2 * (k * 2 ^ (e2 + 1)) * f (el x (2 * 2 ^ (e1 + e2 + 1) + (i + m * 2 ^ (e1 + 1)))) *
        f 2 ^ (2 * (2 ^ (e1 + e2 + 1) * w) - (e2 + 1 + (e1 + 1) + 1))) := by
  obtain ⟨U1, U2⟩ := imfaG2u_val f e1 e2 w trunc hd hw hz ht hdiv x h0 k i hi ca cb0 hcbl hca hcb
  have ht2' := truncOk_of_dvd e1 e2 trunc ht hdiv
  have ewn : wnOf (2 ^ (e1 + e2 + 1)) w = 2 ^ (e1 + e2 + 1) * w := wnOf_eq _ _ hd
  have hl1 : (imfaG2u e1 e2 w trunc i ca cb0).1.length = 2 ^ (e2 + 1) := by simp [imfaG2u, length_fsts]
  unfold imfaG2
  simp only [ewn]
  constructor
  · intro m hm
    rw [el_map_lt _ _ _ (by rw [hl1]; exact hm), map_mul, map_pow, U1 m hm]
  · intro m hm
    have hm2 : m < 2 ^ (e2 + 1) := lt_of_lt_of_le hm ht2'.2.2
    rw [el_range_map _ _ _ hm2, if_pos hm, map_mul, map_pow, U2 m hm]

/-- the outer inverse pass: from k·(column-transformed matrices) of a coefficient vector that vanishes from `trunc`
    on, 2·k·n2·2^(−(depth+depth2+1)) times the coefficients (all of the first half, the first trunc − 2n of the second) -/
theorem ifft_mfa_outer_spec (e1 e2 w trunc : Nat) (hd : 64 ∣ 2 ^ (e1 + e2 + 1) * w) (hw : 1 ≤ w)
    (hz : f 2 ^ (2 ^ (e1 + e2 + 1) * w) = -1) (ht : TruncSOk (e1 + e2 + 1) trunc) (hdiv : 2 * 2 ^ (e1 + 1) ∣ trunc)
    (x : List Int) (h0 : ∀ j, trunc ≤ j → j < 4 * 2 ^ (e1 + e2 + 1) → f (el x j) = 0) (k : S)
    (R : List Int) (hlen : R.length = 4 * 2 ^ (e1 + e2 + 1))
    (hR1 : ∀ i < 2 ^ (e1 + 1), ∀ j < 2 ^ (e2 + 1), f (el R (i + j * 2 ^ (e1 + 1))) =
      k * f (el (mfaCol e2 w (2 ^ (e1 + 1)) (layerSums (2 ^ (e1 + e2 + 1)) x) i) j))
    (hR2 : ∀ i < 2 ^ (e1 + 1), ∀ s < (trunc - 2 * 2 ^ (e1 + e2 + 1)) / 2 ^ (e1 + 1),
      f (el R (2 ^ (e1 + 1) * 2 ^ (e2 + 1) + i + rev (e2 + 1) s * 2 ^ (e1 + 1))) =
        k * f (el (mfaCol e2 w (2 ^ (e1 + 1)) (layerDiffs (2 ^ (e1 + e2 + 1)) w x) i) (rev (e2 + 1) s))) :
    (∀ i < 2 ^ (e1 + 1), ∀ j < 2 ^ (e2 + 1),
      f (el (ifft_mfa_trunc_sqrt2_outer (e1 + e2 + 1) w (2 ^ (e1 + 1)) trunc R) (i + j * 2 ^ (e1 + 1))) =
        2 * (k * 2 ^ (e2 + 1)) * f (el x (i + j * 2 ^ (e1 + 1))) *
          f 2 ^ (2 * (2 ^ (e1 + e2 + 1) * w) - (e2 + 1 + (e1 + 1) + 1))) ∧
    (∀ i < 2 ^ (e1 + 1), ∀ m < (trunc - 2 * 2 ^ (e1 + e2 + 1)) / 2 ^ (e1 + 1),
      f (el (ifft_mfa_trunc_sqrt2_outer (e1 + e2 + 1) w (2 ^ (e1 + 1)) trunc R)
          (2 ^ (e1 + 1) * 2 ^ (e2 + 1) + i + m * 2 ^ (e1 + 1))) =
        2 * (k * 2 ^ (e2 + 1)) * f (el x (2 * 2 ^ (e1 + e2 + 1) + (i + m * 2 ^ (e1 + 1)))) *
          f 2 ^ (2 * (2 ^ (e1 + e2 + 1) * w) - (e2 + 1 + (e1 + 1) + 1))) := by
  have hN : 2 ^ (e1 + 1) * 2 ^ (e2 + 1) = 2 * 2 ^ (e1 + e2 + 1) := by
    rw [← pow_add, ← pow_succ']; congr 1; ring
  have ht2' := truncOk_of_dvd e1 e2 trunc ht hdiv
  have hn1 := two_pow_pos' (e1 + 1)
  have hu : f 2 ^ (2 * (2 ^ (e1 + e2 + 1) * w)) = 1 := by rw [pow_mul' (f 2) 2 _, hz]; norm_num
  have hnw : 2 ^ e2 * (w * 2 ^ (e1 + 1)) = 2 ^ (e1 + e2 + 1) * w := by
    rw [show e1 + e2 + 1 = e2 + (e1 + 1) by ring, pow_add]; ring
  have hd' : 64 ∣ 2 ^ e2 * (w * 2 ^ (e1 + 1)) := by rw [hnw]; exact hd
  have hu' : f 2 ^ (2 * (2 ^ e2 * (w * 2 ^ (e1 + 1)))) = 1 := by rw [hnw]; exact hu
  have hb' : ∀ i < 2 ^ (e1 + 1), (0 + 1 * (2 ^ (e2 + 1) - 1)) * i * w ≤ 2 * (2 ^ e2 * (w * 2 ^ (e1 + 1))) := by
    intro i hi
    have e : 2 * (2 ^ e2 * (w * 2 ^ (e1 + 1))) = 2 ^ (e2 + 1) * 2 ^ (e1 + 1) * w := by rw [pow_succ]; ring
    rw [e, Nat.zero_add, Nat.one_mul]
    exact Nat.mul_le_mul_right w (Nat.mul_le_mul (Nat.sub_le _ _) (le_of_lt hi))
  rw [ifft_mfa_outer_unfold]
  have hxl : R.length = 2 * (2 ^ (e1 + 1) * 2 ^ (e2 + 1)) := by rw [hlen, hN]; ring
  -- stage 1: first-half columns
  obtain ⟨l1, v1⟩ := fold_lo_cols_val (2 ^ (e1 + 1)) (2 ^ (e2 + 1)) (imfaH1 e1 e2 w)
    (fun i c => length_ifft_radix2_twiddle _ _ _ _ _ _ _) R hxl (2 ^ (e1 + 1)) le_rfl
  generalize hY1 : (List.range (2 ^ (e1 + 1))).foldl
    (fun xs i => setCol xs i (2 ^ (e1 + 1)) (imfaH1 e1 e2 w i (getCol xs i (2 ^ (e1 + 1)) (2 ^ (e2 + 1))))) R = Y1 at *
  have S1 : ∀ i < 2 ^ (e1 + 1), ∀ j < 2 ^ (e2 + 1), f (el Y1 (i + j * 2 ^ (e1 + 1))) =
      k * 2 ^ (e2 + 1) * (f (el x (i + j * 2 ^ (e1 + 1))) + f (el x (2 * 2 ^ (e1 + e2 + 1) + (i + j * 2 ^ (e1 + 1))))) := by
    intro i hi j hj
    have hidx : i + j * 2 ^ (e1 + 1) < 2 * 2 ^ (e1 + e2 + 1) := by rw [← hN]; exact idx_lt _ _ i j hi hj
    rw [(v1 i hi j hj).1, if_pos hi]
    unfold imfaH1
    have h := ifft_radix2_twiddle_spec f e2 (w * 2 ^ (e1 + 1)) w 0 i 1 hd' hu' (hb' i hi) k
      (getCol (layerSums (2 ^ (e1 + e2 + 1)) x) i (2 ^ (e1 + 1)) (2 ^ (e2 + 1)))
      (revPerm (e2 + 1) (getCol R i (2 ^ (e1 + 1)) (2 ^ (e2 + 1))))
      (fun m hm => by
        rw [el_revPerm _ _ (length_getCol _ _ _ _) m hm, el_getCol _ _ _ _ _ (rev_lt _ _), hR1 i hi _ (rev_lt _ _)]
        unfold mfaCol
        rw [el_revPerm _ _ (length_fft_radix2_twiddle _ _ _ _ _ _ _) _ (rev_lt _ _), rev_rev _ _ hm]) j hj
    rw [h, el_getCol _ _ _ _ _ hj, layerSums, el_range_map _ _ _ hidx, map_add]
  have S2 : ∀ i < 2 ^ (e1 + 1), ∀ j < 2 ^ (e2 + 1),
      el Y1 (2 ^ (e1 + 1) * 2 ^ (e2 + 1) + i + j * 2 ^ (e1 + 1)) = el R (2 ^ (e1 + 1) * 2 ^ (e2 + 1) + i + j * 2 ^ (e1 + 1)) :=
    fun i hi j hj => (v1 i hi j hj).2
  -- stage 2: both columns
  have hG2 : ∀ i ca cb, (imfaG2 e1 e2 w trunc i ca cb).1.length = 2 ^ (e2 + 1) ∧
      (imfaG2 e1 e2 w trunc i ca cb).2.length = 2 ^ (e2 + 1) := by
    intro i ca cb; simp [imfaG2, imfaG2u, length_fsts]
  obtain ⟨l2, v2⟩ := fold_cols (2 ^ (e1 + 1)) (2 ^ (e2 + 1)) (imfaG2 e1 e2 w trunc) hG2 Y1 (by rw [l1, hxl])
    (2 ^ (e1 + 1)) le_rfl
  have col : ∀ i < 2 ^ (e1 + 1), _ := fun i hi =>
    imfaG2_val f e1 e2 w trunc hd hw hz ht hdiv x h0 k i hi
      (getCol Y1 i (2 ^ (e1 + 1)) (2 ^ (e2 + 1)))
      (getCol Y1 (2 ^ (e1 + 1) * 2 ^ (e2 + 1) + i) (2 ^ (e1 + 1)) (2 ^ (e2 + 1))) (length_getCol _ _ _ _)
      (fun m hm => by rw [el_getCol _ _ _ _ _ hm]; exact S1 i hi m hm)
      (fun s hs => by
        have hs2 : s < 2 ^ (e2 + 1) := lt_of_lt_of_le hs ht2'.2.2
        rw [el_getCol _ _ _ _ _ (rev_lt _ _), S2 i hi _ (rev_lt _ _), hR2 i hi s hs]
        unfold mfaCol
        rw [el_revPerm _ _ (length_fft_radix2_twiddle _ _ _ _ _ _ _) _ (rev_lt _ _), rev_rev _ _ hs2])
  constructor
  · intro i hi j hj
    rw [(v2 i hi j hj).1, if_pos hi]
    exact (col i hi).1 j hj
  · intro i hi m hm
    have hm2 : m < 2 ^ (e2 + 1) := lt_of_lt_of_le hm ht2'.2.2
    rw [(v2 i hi m hm2).2, if_pos hi]
    exact (col i hi).2 m hm

end ring

/-! ### the chain -/

/-- Transform both (zero-padded) coefficient vectors with the outer forward pass, convolve the rows with the inner pass
    (row transforms, pointwise mpn_mulmod_Bexpp1, inverse row transforms), apply the outer inverse pass (column inverse
    transforms, √2 layer, division by 4n): every entry below `trunc` is congruent to the acyclic convolution. -/
theorem mfa_conv_chain (e1 e2 w L trunc j1 j2 : Nat) (a b : List Int) (hL : 2 ^ (e1 + e2 + 1) * w = 64 * L) (hw : 1 ≤ w)
    (hla : a.length = 4 * 2 ^ (e1 + e2 + 1)) (hlb : b.length = 4 * 2 ^ (e1 + e2 + 1))
    (ht : TruncSOk (e1 + e2 + 1) trunc) (hdiv : 2 * 2 ^ (e1 + 1) ∣ trunc)
    (ha : ∀ i, j1 ≤ i → el a i = 0) (hb : ∀ k, j2 ≤ k → el b k = 0)
    (hj1 : 1 ≤ j1) (hj2 : 1 ≤ j2) (hJ : j1 + j2 ≤ trunc + 1) (p : Nat) (hp : p < trunc) :
    el (ifft_mfa_trunc_sqrt2_outer (e1 + e2 + 1) w (2 ^ (e1 + 1)) trunc
        (fft_mfa_trunc_sqrt2_inner (e1 + e2 + 1) w (2 ^ (e1 + 1)) trunc
          (fft_mfa_trunc_sqrt2_outer (e1 + e2 + 1) w (2 ^ (e1 + 1)) trunc a)
          (fft_mfa_trunc_sqrt2_outer (e1 + e2 + 1) w (2 ^ (e1 + 1)) trunc b))) p
      ≡ el (conv a b (4 * 2 ^ (e1 + e2 + 1))) p [ZMOD pOf (64 * L)] := by
  have hd : 64 ∣ 2 ^ (e1 + e2 + 1) * w := ⟨L, hL⟩
  have hL1 : 1 ≤ L := by
    have : 1 ≤ 2 ^ (e1 + e2 + 1) * w := Nat.mul_pos (two_pow_pos' _) hw
    omega
  have hN : 2 ^ (e1 + 1) * 2 ^ (e2 + 1) = 2 * 2 ^ (e1 + e2 + 1) := by
    rw [← pow_add, ← pow_succ']; congr 1; ring
  have hP : 2 ^ (e1 + e2 + 1 + 1) = 2 * 2 ^ (e1 + e2 + 1) := by rw [pow_succ]; ring
  have hPP : 2 ^ (e1 + e2 + 1 + 1 + 1) = 4 * 2 ^ (e1 + e2 + 1) := by rw [pow_succ, pow_succ]; ring
  have ht2' := truncOk_of_dvd e1 e2 trunc ht hdiv
  have hn1 := two_pow_pos' (e1 + 1)
  obtain ⟨ht1, ht2, ht3⟩ := ht
  have ht : TruncSOk (e1 + e2 + 1) trunc := ⟨ht1, ht2, ht3⟩
  rw [← zmod_eq_iff]
  set F := Int.castRingHom (ZMod (2 ^ (64 * L) + 1)) with hF
  have hz' : F 2 ^ (64 * L) = -1 := zmod_two_pow (64 * L)
  have hz : F 2 ^ (2 ^ (e1 + e2 + 1) * w) = -1 := (congrArg (fun e => F 2 ^ e) hL).trans hz'
  have hu : F 2 ^ (2 * (2 ^ (e1 + e2 + 1) * w)) = 1 := by rw [pow_mul' (F 2) 2 _, hz]; norm_num
  have hza : ∀ i, trunc ≤ i → el a i = 0 := fun i hi => ha i (by omega)
  have hzb : ∀ i, trunc ≤ i → el b i = 0 := fun i hi => hb i (by omega)
  obtain ⟨lA, A1, A2⟩ := fft_mfa_outer_spec e1 e2 w trunc a hla ht ht2' hza
  obtain ⟨lB, B1, B2⟩ := fft_mfa_outer_spec e1 e2 w trunc b hlb ht ht2' hzb
  set x := conv a b (4 * 2 ^ (e1 + e2 + 1)) with hx
  have hconv : ∀ K < 2 ^ (e1 + e2 + 1 + 1 + 1), F (el (fft_full_sqrt2 (e1 + e2 + 1) w x) K) =
      F (el (fft_full_sqrt2 (e1 + e2 + 1) w a) K) * F (el (fft_full_sqrt2 (e1 + e2 + 1) w b) K) :=
    fun K hK => fft_full_sqrt2_conv F (e1 + e2 + 1) w hd hz a b j1 j2 ha hb (by omega) K hK
  have hS : ∀ K < 2 ^ (e1 + e2 + 1 + 1),
      F (el (fft_radix2 (e1 + e2 + 1) w (layerSums (2 ^ (e1 + e2 + 1)) x)) K) =
      F (el (fft_radix2 (e1 + e2 + 1) w (layerSums (2 ^ (e1 + e2 + 1)) a)) K) *
      F (el (fft_radix2 (e1 + e2 + 1) w (layerSums (2 ^ (e1 + e2 + 1)) b)) K) := by
    intro K hK
    rw [← fft_full_sqrt2_low _ _ _ _ hK, ← fft_full_sqrt2_low _ _ _ _ hK, ← fft_full_sqrt2_low _ _ _ _ hK]
    exact hconv K (by omega)
  have hD : ∀ K < 2 ^ (e1 + e2 + 1 + 1),
      F (el (fft_radix2 (e1 + e2 + 1) w (layerDiffs (2 ^ (e1 + e2 + 1)) w x)) K) =
      F (el (fft_radix2 (e1 + e2 + 1) w (layerDiffs (2 ^ (e1 + e2 + 1)) w a)) K) *
      F (el (fft_radix2 (e1 + e2 + 1) w (layerDiffs (2 ^ (e1 + e2 + 1)) w b)) K) := by
    intro K hK
    rw [← fft_full_sqrt2_high, ← fft_full_sqrt2_high, ← fft_full_sqrt2_high]
    exact hconv _ (by omega)
  obtain ⟨lR, R1, R2⟩ := fft_mfa_inner_spec e1 e2 w L trunc hL hL1 ht2' _ _ _ _ _ _ _ _ (by rw [lA, hla])
    A1 A2 B1 B2 hS hD
  have h0 : ∀ j, trunc ≤ j → j < 4 * 2 ^ (e1 + e2 + 1) → F (el x j) = 0 := by
    intro j hj _
    rw [hx, conv_zero a b _ j1 j2 j ha hb (by omega)]; simp
  obtain ⟨O1, O2⟩ := ifft_mfa_outer_spec F e1 e2 w trunc hd hw hz ht hdiv x h0 (2 ^ (e1 + 1)) _
    (by rw [lR, lA, hla]) R1 R2
  -- the scaling: 2·n1·n2·2^(−(depth+depth2+1)) = 1
  have hle : e2 + 1 + (e1 + 1) + 1 ≤ 2 * (2 ^ (e1 + e2 + 1) * w) := by
    have := two_pow_ge (e1 + e2 + 1)
    have : 2 ^ (e1 + e2 + 1) ≤ 2 ^ (e1 + e2 + 1) * w := Nat.le_mul_of_pos_right _ hw
    omega
  have e := pow_mul_pow_sub_eq_one (F 2) (2 * (2 ^ (e1 + e2 + 1) * w)) (e2 + 1 + (e1 + 1) + 1) hu hle
  have f2 : F 2 = 2 := by simp [hF]
  rw [f2] at e O1 O2
  have hsc : ∀ X : ZMod (2 ^ (64 * L) + 1),
      2 * (2 ^ (e1 + 1) * 2 ^ (e2 + 1)) * X * 2 ^ (2 * (2 ^ (e1 + e2 + 1) * w) - (e2 + 1 + (e1 + 1) + 1)) = X := by
    intro X
    have e' : (2 : ZMod (2 ^ (64 * L) + 1)) * (2 ^ (e1 + 1) * 2 ^ (e2 + 1)) = 2 ^ (e2 + 1 + (e1 + 1) + 1) := by
      rw [pow_succ _ (e2 + 1 + (e1 + 1)), pow_add]; ring
    rw [e']
    linear_combination X * e
  by_cases hp2 : p < 2 * 2 ^ (e1 + e2 + 1)
  · have hdm := Nat.mod_add_div p (2 ^ (e1 + 1))
    have hi : p % 2 ^ (e1 + 1) < 2 ^ (e1 + 1) := Nat.mod_lt _ hn1
    have hj : p / 2 ^ (e1 + 1) < 2 ^ (e2 + 1) := by
      apply Nat.div_lt_of_lt_mul; rw [hN]; exact hp2
    have ep : p = p % 2 ^ (e1 + 1) + p / 2 ^ (e1 + 1) * 2 ^ (e1 + 1) := by
      rw [Nat.mul_comm (p / 2 ^ (e1 + 1))]; exact hdm.symm
    rw [ep, O1 _ hi _ hj, hsc]
  · have hq : p - 2 * 2 ^ (e1 + e2 + 1) < (trunc - 2 * 2 ^ (e1 + e2 + 1)) / 2 ^ (e1 + 1) * 2 ^ (e1 + 1) := by
      have h1 : 2 ^ (e1 + 1) ∣ trunc := Dvd.dvd.trans (Dvd.intro_left 2 rfl) hdiv
      have h2 : 2 ^ (e1 + 1) ∣ 2 * 2 ^ (e1 + e2 + 1) := by rw [← hN]; exact Dvd.intro _ rfl
      rw [Nat.div_mul_cancel (Nat.dvd_sub h1 h2)]; omega
    generalize hq' : p - 2 * 2 ^ (e1 + e2 + 1) = q at *
    have hdm := Nat.mod_add_div q (2 ^ (e1 + 1))
    have hi : q % 2 ^ (e1 + 1) < 2 ^ (e1 + 1) := Nat.mod_lt _ hn1
    have hm : q / 2 ^ (e1 + 1) < (trunc - 2 * 2 ^ (e1 + e2 + 1)) / 2 ^ (e1 + 1) := by
      apply Nat.div_lt_of_lt_mul; rw [Nat.mul_comm]; exact hq
    have eq : q = q % 2 ^ (e1 + 1) + q / 2 ^ (e1 + 1) * 2 ^ (e1 + 1) := by
      rw [Nat.mul_comm (q / 2 ^ (e1 + 1))]; exact hdm.symm
    have ep : p = 2 ^ (e1 + 1) * 2 ^ (e2 + 1) + q % 2 ^ (e1 + 1) + q / 2 ^ (e1 + 1) * 2 ^ (e1 + 1) := by
      rw [hN]; omega
    have ep2 : p = 2 * 2 ^ (e1 + e2 + 1) + (q % 2 ^ (e1 + 1) + q / 2 ^ (e1 + 1) * 2 ^ (e1 + 1)) := by omega
    rw [ep, O2 _ hi _ hm, hsc, ← ep2, ← ep]

end Mpir.FftX
