/- Helper lemmas for the accumulating multiplies of the mpz object layer: `mpz_aorsmul_1`
   (mpz/aorsmul_i.c) and `mpz_aorsmul` (mpz/aorsmul.c) as modelled in Mpir/Model/Mpz.lean. -/
import MpirProofs.Lemmas.Mpz
namespace Mpir.Mpz
open Mpir

/-- the high carry of `x·y + c` over a `P`-sized window is a limb -/
theorem carry_sum_lt {P X y c a s : Nat} (hX : X < P) (hy : y < B) (hc : c < B)
    (h : a + P * s = X * y + c) : s < B := by
  obtain ⟨b, hb⟩ : ∃ b, B = b + 1 := ⟨B - 1, by have := B_pos; omega⟩
  rw [hb] at hy hc ⊢
  have h1 : X * y ≤ X * b := Nat.mul_le_mul_left _ (by omega)
  have h2 : (X + 1) * b ≤ P * b := Nat.mul_le_mul_right _ hX
  have h3 : P * s < P * (b + 1) := by nlinarith
  exact Nat.lt_of_mul_lt_mul_left h3

theorem length_ne_zero {l : List Nat} (h : l ≠ []) : l.length ≠ 0 :=
  fun h0 => h (List.length_eq_zero_iff.mp h0)

theorem aorsmul_1_add_spec (wp xp : List Nat) (y : Nat) (hw : Norm wp) (hx : Norm xp)
    (hwne : wp ≠ []) (hxne : xp ≠ []) (hy : y < B) (hy0 : y ≠ 0) :
    val (aorsmul_1_add wp xp y).2 = val wp + val xp * y ∧
    (aorsmul_1_add wp xp y).2.length = (aorsmul_1_add wp xp y).1 ∧
    Norm (aorsmul_1_add wp xp y).2 ∧ (aorsmul_1_add wp xp y).1 ≤ max wp.length xp.length + 1 := by
  have hwl := hw.lower hwne
  have hxl := hx.lower hxne
  have hwlen := length_ne_zero hwne
  have hxlen := length_ne_zero hxne
  have hy1 : val xp * 1 ≤ val xp * y := Nat.mul_le_mul_left _ (Nat.pos_of_ne_zero hy0)
  have htot : B ^ (max wp.length xp.length - 1) ≤ val wp + val xp * y := by
    rcases Nat.le_total wp.length xp.length with h | h
    · rw [Nat.max_eq_right h]; omega
    · rw [Nat.max_eq_left h]; omega
  unfold aorsmul_1_add
  dsimp only
  rcases Nat.lt_trichotomy xp.length wp.length with hlt | heq | hgt
  · -- xsize < wsize: add the carry into the rest of w
    have e1 : min wp.length xp.length = xp.length := Nat.min_eq_right (by omega)
    have e2 : max wp.length xp.length = wp.length := Nat.max_eq_left (by omega)
    have e3 : (xp.length != wp.length) = true := by simp; omega
    have e4 : ¬ xp.length > wp.length := by omega
    rw [e1, e2] at *
    rw [e3]
    simp only [if_true, if_neg e4, Nat.zero_add]
    rw [List.take_of_length_le (le_refl xp.length)]
    have htl : (wp.take xp.length).length = xp.length := by simp; omega
    obtain ⟨av, ac, al, an⟩ := K.addmul_1_val (wp.take xp.length) xp y (Limbs_take hw.1 _) hx.1 hy htl
    have hdl : (wp.drop xp.length).length = wp.length - xp.length := by simp
    have hdne : wp.drop xp.length ≠ [] := by
      intro h; rw [h] at hdl; simp at hdl; omega
    obtain ⟨bv, bc, bl, bn⟩ := K.add_1_val (wp.drop xp.length) (addmul_1 (wp.take xp.length) xp y).2
      (Limbs_drop hw.1 _) ac hdne
    have hsplit := val_take_drop wp xp.length (by omega)
    generalize addmul_1 (wp.take xp.length) xp y = r at *
    generalize add_1 (wp.drop xp.length) r.2 = a at *
    have hmod : a.2 % B = a.2 := Nat.mod_eq_of_lt (by have := B_eq; omega)
    rw [hmod]
    have hlen : (r.1 ++ a.1).length = wp.length := by simp [an, bn, hdl]; omega
    have hval : val (r.1 ++ a.1) + B ^ wp.length * a.2 = val wp + val xp * y := by
      rw [val_append, an]
      have hp : B ^ wp.length = B ^ xp.length * B ^ (wp.length - xp.length) := by
        rw [← pow_add]; congr 1; omega
      rw [hp]; rw [hdl] at bv
      generalize B ^ xp.length = P at *
      generalize B ^ (wp.length - xp.length) = Q at *
      nlinarith [av, bv, hsplit]
    obtain ⟨tv, tl, tn⟩ := take_carry (r.1 ++ a.1) a.2 wp.length hlen (Limbs_append.mpr ⟨al, bl⟩)
      (by have := B_eq; omega) (Or.inr (by omega))
    exact ⟨tv.trans hval, tl, tn, by split_ifs <;> omega⟩
  · -- xsize = wsize
    have e1 : min wp.length xp.length = wp.length := Nat.min_eq_left (by omega)
    have e2 : max wp.length xp.length = wp.length := Nat.max_eq_left (by omega)
    have e3 : (xp.length != wp.length) = false := by simp; omega
    rw [e1, e2] at *
    rw [e3]
    simp only [Bool.false_eq_true, if_false, List.append_nil]
    rw [List.take_of_length_le (le_refl wp.length), List.take_of_length_le (by omega : xp.length ≤ wp.length)]
    obtain ⟨av, ac, al, an⟩ := K.addmul_1_val wp xp y hw.1 hx.1 hy heq.symm
    rw [heq] at av an
    generalize addmul_1 wp xp y = r at *
    obtain ⟨tv, tl, tn⟩ := take_carry r.1 r.2 wp.length an al ac (Or.inr (by omega))
    exact ⟨tv.trans av, tl, tn, by split_ifs <;> omega⟩
  · -- xsize > wsize: mul_1 on the rest of x, plus the carry
    have e1 : min wp.length xp.length = wp.length := Nat.min_eq_left (by omega)
    have e2 : max wp.length xp.length = xp.length := Nat.max_eq_right (by omega)
    have e3 : (xp.length != wp.length) = true := by simp; omega
    rw [e1, e2] at *
    rw [e3]
    simp only [if_true, if_pos hgt]
    rw [List.take_of_length_le (le_refl wp.length)]
    have htl : (xp.take wp.length).length = wp.length := by simp; omega
    obtain ⟨av, ac, al, an⟩ := K.addmul_1_val wp (xp.take wp.length) y hw.1 (Limbs_take hx.1 _) hy htl.symm
    rw [htl] at av an
    have hdl : (xp.drop wp.length).length = xp.length - wp.length := by simp
    obtain ⟨mv, mc, ml, mn⟩ := K.mul_1_val (xp.drop wp.length) y (Limbs_drop hx.1 _) hy
    rw [hdl] at mv mn
    have hmne : (mul_1 (xp.drop wp.length) y).1 ≠ [] := by
      intro h; rw [h] at mn; simp at mn; omega
    obtain ⟨bv, bc, bl, bn⟩ := K.add_1_val (mul_1 (xp.drop wp.length) y).1
      (addmul_1 wp (xp.take wp.length) y).2 ml ac hmne
    rw [mn] at bv bn
    have hsplit := val_take_drop xp wp.length (by omega)
    have hXhi := val_lt _ (Limbs_drop hx.1 wp.length)
    rw [hdl] at hXhi
    generalize addmul_1 wp (xp.take wp.length) y = r at *
    generalize mul_1 (xp.drop wp.length) y = m at *
    generalize add_1 m.1 r.2 = a at *
    have hcs : val a.1 + B ^ (xp.length - wp.length) * (m.2 + a.2) =
        val (xp.drop wp.length) * y + r.2 := by rw [Nat.mul_add]; omega
    have hsum : m.2 + a.2 < B := carry_sum_lt hXhi hy ac hcs
    rw [Nat.mod_eq_of_lt hsum]
    have hlen : (r.1 ++ a.1).length = xp.length := by simp [an, bn]; omega
    have hval : val (r.1 ++ a.1) + B ^ xp.length * (m.2 + a.2) = val wp + val xp * y := by
      rw [val_append, an]
      have hp : B ^ xp.length = B ^ wp.length * B ^ (xp.length - wp.length) := by
        rw [← pow_add]; congr 1; omega
      rw [hp]
      generalize B ^ wp.length = P at *
      generalize B ^ (xp.length - wp.length) = Q at *
      generalize val (xp.take wp.length) = Xlo at *
      generalize val (xp.drop wp.length) = Xhi at *
      have bv' : P * val a.1 + P * (Q * a.2) = P * val m.1 + P * r.2 := by
        rw [← Nat.mul_add, ← Nat.mul_add, bv]
      have mv' : P * val m.1 + P * (Q * m.2) = P * (Xhi * y) := by rw [← Nat.mul_add, mv]
      have hs' : val xp * y = Xlo * y + P * (Xhi * y) := by rw [hsplit]; ring
      have e : P * Q * (m.2 + a.2) = P * (Q * m.2) + P * (Q * a.2) := by ring
      rw [e, hs']
      omega
    obtain ⟨tv, tl, tn⟩ := take_carry (r.1 ++ a.1) (m.2 + a.2) xp.length hlen
      (Limbs_append.mpr ⟨al, bl⟩) hsum (Or.inr (by omega))
    exact ⟨tv.trans hval, tl, tn, by split_ifs <;> omega⟩

/-- proof-side names for the two phases of `aorsmul_1_sub_ge` -/
def subGeBorrow (wp : List Nat) (xs : Nat) (c : Nat) : List Nat × Nat :=
  if wp.length != xs then sub_1 (wp.drop xs) c else ([], c)

def subGeFix (buf : List Nat) (cy : Nat) : Bool × List Nat :=
  if cy != 0 then (true, normalize (incr (com_n buf ++ [B - 1 - (B - cy) % B])).1)
  else (false, normalize buf)

theorem aorsmul_1_sub_ge_eq (wp xp : List Nat) (y : Nat) :
    aorsmul_1_sub_ge wp xp y =
      subGeFix ((submul_1 (wp.take xp.length) xp y).1 ++
          (subGeBorrow wp xp.length (submul_1 (wp.take xp.length) xp y).2).1)
        (subGeBorrow wp xp.length (submul_1 (wp.take xp.length) xp y).2).2 := rfl

theorem subGeBorrow_spec (wp : List Nat) (xs c : Nat) (lo : List Nat) (hw : Limbs wp) (hc : c < B)
    (hle : xs ≤ wp.length) (hlo : Limbs lo) (hln : lo.length = xs) :
    Limbs (lo ++ (subGeBorrow wp xs c).1) ∧ (lo ++ (subGeBorrow wp xs c).1).length = wp.length ∧
    val (lo ++ (subGeBorrow wp xs c).1) + B ^ xs * c =
      val lo + B ^ xs * val (wp.drop xs) + B ^ wp.length * (subGeBorrow wp xs c).2 ∧
    (subGeBorrow wp xs c).2 < B := by
  unfold subGeBorrow
  by_cases he : wp.length = xs
  · have e : (wp.length != xs) = false := by simp [he]
    rw [e]
    have hd : wp.drop xs = [] := by simp [he]
    simp only [Bool.false_eq_true, if_false, List.append_nil, hd, val_nil, Nat.mul_zero, Nat.add_zero]
    exact ⟨hlo, by omega, by rw [he], hc⟩
  · have e : (wp.length != xs) = true := by simp [he]
    rw [e]
    simp only [if_true]
    have hdl : (wp.drop xs).length = wp.length - xs := by simp
    have hdne : wp.drop xs ≠ [] := by
      intro h; rw [h] at hdl; simp at hdl; omega
    obtain ⟨bv, bc, bl, bn⟩ := K.sub_1_val (wp.drop xs) c (Limbs_drop hw _) hc hdne
    refine ⟨Limbs_append.mpr ⟨hlo, bl⟩, by simp [hln, bn, hdl]; omega, ?_, by have := B_eq; omega⟩
    rw [val_append, hln]
    have hp : B ^ wp.length = B ^ xs * B ^ (wp.length - xs) := by
      rw [← pow_add]; congr 1; omega
    rw [hp]; rw [hdl] at bv
    generalize sub_1 (wp.drop xs) c = b at *
    generalize B ^ xs = P at *
    generalize B ^ (wp.length - xs) = Q at *
    have bv' : P * val b.1 + P * c = P * val (wp.drop xs) + P * (Q * b.2) := by
      rw [← Nat.mul_add, ← Nat.mul_add, bv]
    have e2 : P * Q * b.2 = P * (Q * b.2) := by ring
    rw [e2]
    omega

theorem subGeFix_spec (buf : List Nat) (cy n : Nat) (hbl : Limbs buf) (hbn : buf.length = n)
    (hc : cy < B) :
    Norm (subGeFix buf cy).2 ∧ (subGeFix buf cy).2.length ≤ n + 1 ∧
    (if (subGeFix buf cy).1 = true then val (subGeFix buf cy).2 + val buf = B ^ n * cy
     else val (subGeFix buf cy).2 = val buf ∧ cy = 0) := by
  unfold subGeFix
  by_cases hc0 : cy = 0
  · have e : (cy != 0) = false := by simp [hc0]
    rw [e]
    simp only [Bool.false_eq_true, if_false]
    exact ⟨Norm_normalize hbl, by have := normalize_length_le buf; omega, val_normalize _, hc0⟩
  · have e : (cy != 0) = true := by simp [hc0]
    rw [e]
    simp only [if_true]
    obtain ⟨k, hk⟩ : ∃ k, cy = k + 1 := ⟨cy - 1, by omega⟩
    subst hk
    have htop : B - 1 - (B - (k + 1)) % B = k := by
      rw [Nat.mod_eq_of_lt (by omega)]; omega
    rw [htop]
    obtain ⟨cv, cl, cn⟩ := K.com_n_val buf hbl
    have hb1l : Limbs (com_n buf ++ [k]) :=
      Limbs_append.mpr ⟨cl, Limbs_cons.mpr ⟨by omega, Limbs_nil⟩⟩
    obtain ⟨iv, ic, il, in_⟩ := K.incr_val (com_n buf ++ [k]) hb1l
    have hlen1 : (com_n buf ++ [k]).length = n + 1 := by simp [cn, hbn]
    rw [hlen1] at iv in_
    rw [val_append, cn, hbn] at iv
    simp only [val_cons, val_nil, Nat.mul_zero, Nat.add_zero] at iv
    have hup := val_lt _ il
    rw [in_, pow_succ] at hup
    rw [pow_succ] at iv
    rw [hbn] at cv
    generalize incr (com_n buf ++ [k]) = res at *
    generalize B ^ n = P at *
    have hk1 : P * (k + 2) ≤ P * B := Nat.mul_le_mul_left _ (by omega)
    have e3 : P * (k + 1) = P * k + P := by ring
    have e4 : P * (k + 2) = P * k + P + P := by ring
    have hc' : res.2 = 0 := by
      rcases Nat.le_one_iff_eq_zero_or_eq_one.mp ic with h | h
      · exact h
      · rw [h] at iv; omega
    rw [hc'] at iv
    refine ⟨Norm_normalize il, by have := normalize_length_le res.1; omega, ?_⟩
    rw [val_normalize]
    omega

theorem aorsmul_1_sub_ge_spec (wp xp : List Nat) (y : Nat) (hw : Norm wp) (hx : Norm xp)
    (hy : y < B) (hle : xp.length ≤ wp.length) :
    Norm (aorsmul_1_sub_ge wp xp y).2 ∧ (aorsmul_1_sub_ge wp xp y).2.length ≤ wp.length + 1 ∧
    (if (aorsmul_1_sub_ge wp xp y).1 = true
      then val (aorsmul_1_sub_ge wp xp y).2 + val wp = val xp * y
      else val (aorsmul_1_sub_ge wp xp y).2 + val xp * y = val wp) := by
  have htl : (wp.take xp.length).length = xp.length := by simp; omega
  obtain ⟨sv, sc, sl, sn⟩ := K.submul_1_val (wp.take xp.length) xp y (Limbs_take hw.1 _) hx.1 hy htl
  have hsplit := val_take_drop wp xp.length hle
  rw [aorsmul_1_sub_ge_eq]
  obtain ⟨b1, b2, b3, b4⟩ := subGeBorrow_spec wp xp.length (submul_1 (wp.take xp.length) xp y).2
    (submul_1 (wp.take xp.length) xp y).1 hw.1 sc hle sl sn
  obtain ⟨f1, f2, f3⟩ := subGeFix_spec _ _ wp.length b1 b2 b4
  refine ⟨f1, f2, ?_⟩
  generalize subGeFix _ _ = res at *
  generalize subGeBorrow wp xp.length (submul_1 (wp.take xp.length) xp y).2 = bw at *
  generalize submul_1 (wp.take xp.length) xp y = r at *
  generalize B ^ xp.length * val (wp.drop xp.length) = T at *
  by_cases hr : res.1 = true
  · rw [if_pos hr] at f3 ⊢; omega
  · rw [if_neg hr] at f3 ⊢
    obtain ⟨f3a, f3b⟩ := f3
    rw [f3b] at b3; omega

theorem take_carry_weak (r : List Nat) (c n : Nat) (hn : r.length = n) (hl : Limbs r) (hc : c < B) :
    val ((r ++ [c]).take (n + (if c != 0 then 1 else 0))) = val r + B ^ n * c ∧
    ((r ++ [c]).take (n + (if c != 0 then 1 else 0))).length = n + (if c != 0 then 1 else 0) ∧
    Limbs ((r ++ [c]).take (n + (if c != 0 then 1 else 0))) := by
  by_cases h0 : c = 0
  · subst h0
    simp only [bne_self_eq_false, Bool.false_eq_true, if_false, Nat.add_zero, Nat.mul_zero]
    rw [List.take_left' hn]
    exact ⟨rfl, hn, hl⟩
  · have hb : (c != 0) = true := by simp [h0]
    simp only [hb, if_true]
    rw [List.take_of_length_le (by simp [hn])]
    exact ⟨by rw [val_append, hn]; simp, by simp [hn],
      Limbs_append.mpr ⟨hl, Limbs_cons.mpr ⟨hc, Limbs_nil⟩⟩⟩

/-- aorsmul_i.c:165-170: `cy -= 1; cy2 = (cy == MAX); cy += cy2` on a limb. -/
theorem cy_fix (cy1 : Nat) (h : cy1 < B) :
    ((cy1 + B - 1) % B + (if ((cy1 + B - 1) % B == B - 1) = true then 1 else 0)) % B + 1
      = cy1 + (if ((cy1 + B - 1) % B == B - 1) = true then 1 else 0) ∧
    ((cy1 + B - 1) % B + (if ((cy1 + B - 1) % B == B - 1) = true then 1 else 0)) % B < B ∧
    (if ((cy1 + B - 1) % B == B - 1) = true then 1 else 0) ≤ 1 := by
  by_cases h0 : cy1 = 0
  · subst h0
    have e : (0 + B - 1) % B = B - 1 := by rw [Nat.zero_add]; exact Nat.mod_eq_of_lt (by have := B_pos; omega)
    rw [e]
    simp only [beq_self_eq_true, if_true]
    have e2 : B - 1 + 1 = B := by have := B_pos; omega
    rw [e2, Nat.mod_self]
    exact ⟨rfl, B_pos, le_refl _⟩
  · have e : (cy1 + B - 1) % B = cy1 - 1 := by
      have : cy1 + B - 1 = (cy1 - 1) + B := by omega
      rw [this, Nat.add_mod_right]; exact Nat.mod_eq_of_lt (by omega)
    rw [e]
    have e2 : (cy1 - 1 == B - 1) = false := by simp; omega
    rw [e2]
    simp only [Bool.false_eq_true, if_false, Nat.add_zero]
    rw [Nat.mod_eq_of_lt (by omega)]
    exact ⟨by omega, by omega, by omega⟩

theorem mul_1c_spec (x : List Nat) (y cin : Nat) (hx : Limbs x) (hne : x ≠ []) (hy : y < B)
    (hc : cin < B) :
    val (mul_1c x y cin).1 + B ^ x.length * (mul_1c x y cin).2 = val x * y + cin ∧
    (mul_1c x y cin).2 < B ∧ Limbs (mul_1c x y cin).1 ∧ (mul_1c x y cin).1.length = x.length := by
  obtain ⟨mv, mc, ml, mn⟩ := K.mul_1_val x y hx hy
  have hmne : (mul_1 x y).1 ≠ [] := by
    intro h; rw [h] at mn; exact hne (List.length_eq_zero_iff.mp mn.symm)
  obtain ⟨bv, bc, bl, bn⟩ := K.add_1_val (mul_1 x y).1 cin ml hc hmne
  rw [mn] at bv bn
  have e : mul_1c x y cin =
      ((add_1 (mul_1 x y).1 cin).1, ((mul_1 x y).2 + (add_1 (mul_1 x y).1 cin).2) % B) := rfl
  rw [e]
  dsimp only
  generalize mul_1 x y = m at *
  generalize add_1 m.1 cin = a at *
  have hcs : val a.1 + B ^ x.length * (m.2 + a.2) = val x * y + cin := by
    rw [Nat.mul_add]; omega
  have hsum : m.2 + a.2 < B := carry_sum_lt (val_lt x hx) hy hc hcs
  rw [Nat.mod_eq_of_lt hsum]
  exact ⟨hcs, hsum, bl, bn⟩

/-- proof-side name for the part of `aorsmul_1_sub_lt` after the `submul_1` call -/
def subLtCore (ws xs : Nat) (xhi : List Nat) (y : Nat) (r : List Nat × Nat) : List Nat :=
  let a := add_1 (com_n r.1) 1
  let cy := ((r.2 + a.2) % B + B - 1) % B
  let cy2 := if cy == B - 1 then 1 else 0
  let m := mul_1c xhi y ((cy + cy2) % B)
  let n := xs + (if m.2 != 0 then 1 else 0)
  let hi := (m.1 ++ [m.2]).take (n - ws)
  normalize (a.1 ++ (if cy2 != 0 then (decr hi).1 else hi))

theorem aorsmul_1_sub_lt_eq (wp xp : List Nat) (y : Nat) :
    aorsmul_1_sub_lt wp xp y =
      subLtCore wp.length xp.length (xp.drop wp.length) y (submul_1 wp (xp.take wp.length) y) := rfl

theorem subLtCore_spec (ws xs : Nat) (xhi : List Nat) (y : Nat) (r : List Nat × Nat) (W Xlo : Nat)
    (hws : 1 ≤ ws) (hxs : ws < xs) (hxl : Limbs xhi) (hxn : xhi.length = xs - ws)
    (hxpos : 1 ≤ val xhi) (hy : y < B) (hy0 : y ≠ 0) (hrl : Limbs r.1) (hrn : r.1.length = ws)
    (hrc : r.2 < B) (hXlo : Xlo < B ^ ws) (hr : val r.1 + Xlo * y = W + B ^ ws * r.2) :
    Norm (subLtCore ws xs xhi y r) ∧ (subLtCore ws xs xhi y r).length ≤ xs + 1 ∧
    val (subLtCore ws xs xhi y r) + W = (Xlo + B ^ ws * val xhi) * y := by
  have hB := B_eq
  unfold subLtCore
  dsimp only
  -- two's complement of the low limbs
  obtain ⟨cv, cl, cn⟩ := K.com_n_val r.1 hrl
  have hcne : com_n r.1 ≠ [] := by
    intro h; rw [h] at cn; simp at cn; omega
  obtain ⟨av, ac, al, an⟩ := K.add_1_val (com_n r.1) 1 cl (by omega) hcne
  rw [cn, hrn] at av an
  rw [hrn] at cv
  generalize add_1 (com_n r.1) 1 = a at *
  -- the borrow of submul_1 plus the carry of the negation fits a limb
  have hsum : r.2 + a.2 < B := by
    rcases Nat.le_one_iff_eq_zero_or_eq_one.mp ac with h | h
    · omega
    · rw [h] at av ⊢
      have hlo : val r.1 = 0 := by omega
      rw [hlo] at hr
      by_contra hge
      have h1 : B ^ ws * (B - 1) ≤ B ^ ws * r.2 := Nat.mul_le_mul_left _ (by omega)
      have h2 : Xlo * y ≤ Xlo * (B - 1) := Nat.mul_le_mul_left _ (by omega)
      have h3 : Xlo * (B - 1) < B ^ ws * (B - 1) := Nat.mul_lt_mul_of_pos_right hXlo (by omega)
      omega
  rw [Nat.mod_eq_of_lt hsum]
  obtain ⟨f1, f2, f3⟩ := cy_fix (r.2 + a.2) hsum
  generalize (if ((r.2 + a.2 + B - 1) % B == B - 1) = true then 1 else 0) = cy2 at *
  generalize ((r.2 + a.2 + B - 1) % B + cy2) % B = cyB at *
  -- the high limbs
  have hxne : xhi ≠ [] := by
    intro h; rw [h] at hxn; simp at hxn; omega
  obtain ⟨mv, mc, ml, mn⟩ := mul_1c_spec xhi y cyB hxl hxne hy f2
  rw [hxn] at mv mn
  generalize mul_1c xhi y cyB = m at *
  have e : xs + (if (m.2 != 0) = true then 1 else 0) - ws =
      (xs - ws) + (if (m.2 != 0) = true then 1 else 0) := by split_ifs <;> omega
  rw [e]
  obtain ⟨tv, tl, tL⟩ := take_carry_weak m.1 m.2 (xs - ws) mn ml mc
  generalize List.take (xs - ws + if (m.2 != 0) = true then 1 else 0) (m.1 ++ [m.2]) = hi at *
  have hy1 : val xhi * 1 ≤ val xhi * y := Nat.mul_le_mul_left _ (Nat.pos_of_ne_zero hy0)
  -- the held -1
  have hdec : ∃ hi' : List Nat, (if (cy2 != 0) = true then (decr hi).1 else hi) = hi' ∧
      Limbs hi' ∧ hi'.length = hi.length ∧ val hi' + cy2 = val hi := by
    by_cases h0 : cy2 = 0
    · have eb : (cy2 != 0) = false := by simp [h0]
      rw [eb]
      exact ⟨hi, by simp, tL, rfl, by omega⟩
    · have eb : (cy2 != 0) = true := by simp [h0]
      rw [eb]
      obtain ⟨dv, dc, dl, dn⟩ := K.decr_val hi tL
      have hup := val_lt _ dl
      rw [dn] at hup
      refine ⟨_, by simp, dl, dn, ?_⟩
      rcases Nat.le_one_iff_eq_zero_or_eq_one.mp dc with h | h
      · rw [h] at dv; omega
      · rw [h] at dv; omega
  obtain ⟨hi', hhi', hL', hn', hv'⟩ := hdec
  rw [hhi']
  refine ⟨Norm_normalize (Limbs_append.mpr ⟨al, hL'⟩), ?_, ?_⟩
  · have := normalize_length_le (a.1 ++ hi')
    simp only [List.length_append] at this
    have : (if (m.2 != 0) = true then 1 else 0) ≤ 1 := by split_ifs <;> omega
    omega
  · rw [val_normalize, val_append, an]
    generalize B ^ ws = P at *
    generalize B ^ (xs - ws) = Q at *
    have p1 : P * cyB + P = P * r.2 + P * a.2 + P * cy2 := by
      have := congrArg (P * ·) f1
      simp only [Nat.mul_add, Nat.mul_one] at this
      omega
    have p2 : P * val hi = P * (val xhi * y) + P * cyB := by
      rw [tv, mv, Nat.mul_add]
    have p3 : P * val hi' + P * cy2 = P * val hi := by rw [← Nat.mul_add, hv']
    have e2 : (Xlo + P * val xhi) * y = Xlo * y + P * (val xhi * y) := by ring
    rw [e2]
    omega

theorem aorsmul_1_sub_lt_spec (wp xp : List Nat) (y : Nat) (hw : Norm wp) (hx : Norm xp)
    (hwne : wp ≠ []) (hy : y < B) (hy0 : y ≠ 0) (hlt : wp.length < xp.length) :
    Norm (aorsmul_1_sub_lt wp xp y) ∧ (aorsmul_1_sub_lt wp xp y).length ≤ xp.length + 1 ∧
    val (aorsmul_1_sub_lt wp xp y) + val wp = val xp * y := by
  have hwlen := length_ne_zero hwne
  have hxne : xp ≠ [] := by intro h; rw [h] at hlt; simp at hlt
  have htl : (xp.take wp.length).length = wp.length := by simp; omega
  obtain ⟨sv, sc, sl, sn⟩ := K.submul_1_val wp (xp.take wp.length) y hw.1 (Limbs_take hx.1 _) hy htl.symm
  rw [htl] at sv sn
  have hsplit := val_take_drop xp wp.length (by omega)
  have hXlo := val_lt _ (Limbs_take hx.1 wp.length)
  rw [htl] at hXlo
  have hdl : (xp.drop wp.length).length = xp.length - wp.length := by simp
  have hxpos : 1 ≤ val (xp.drop wp.length) := by
    have hlow := hx.lower hxne
    by_contra h0
    have h0' : val (xp.drop wp.length) = 0 := by omega
    rw [h0'] at hsplit
    have : B ^ wp.length ≤ B ^ (xp.length - 1) := Nat.pow_le_pow_right B_pos (by omega)
    simp only [Nat.mul_zero, Nat.add_zero] at hsplit
    omega
  rw [aorsmul_1_sub_lt_eq]
  obtain ⟨c1, c2, c3⟩ := subLtCore_spec wp.length xp.length (xp.drop wp.length) y
    (submul_1 wp (xp.take wp.length) y) (val wp) (val (xp.take wp.length)) (by omega) hlt
    (Limbs_drop hx.1 _) hdl hxpos hy hy0 sl sn sc hXlo sv
  exact ⟨c1, c2, by rw [c3, ← hsplit]⟩

/-! ## signs of the accumulating forms -/

/-- `w ± p` from magnitudes: same sign → add; different sign → subtract the smaller from the
    larger and flip the sign of `w` when `|w| < |p|`. -/
theorem acc_finish (sw sp flip : Bool) (Wm Pm D : Nat)
    (h : if sw = sp then (flip = false ∧ D = Wm + Pm)
         else if flip = true then D + Wm = Pm else D + Pm = Wm) :
    (if (sw != flip) = true then -(D : Int) else (D : Int)) =
      (if sw = true then -(Wm : Int) else (Wm : Int)) +
      (if sp = true then -(Pm : Int) else (Pm : Int)) := by
  cases sw <;> cases sp <;> cases flip <;> simp at h ⊢ <;> omega

theorem prod_sign (sub : Bool) (xs : Int) (xd : List Nat) (y : Nat) :
    (if (sub != decide (xs < 0)) = true then -((val xd * y : Nat) : Int) else ((val xd * y : Nat) : Int))
      = if sub = true then -(sval xs xd * (y : Int)) else sval xs xd * (y : Int) := by
  unfold sval
  cases sub <;> by_cases h : xs < 0 <;> simp [h]

theorem aorsmul_1_spec (w x : Mpz) (y : Nat) (sub : Bool) (hw : WF w) (hx : WF x) (hy : y < B) :
    WF (aorsmul_1 w x y sub) ∧
    toInt (aorsmul_1 w x y sub) =
      toInt w + (if sub = true then -(toInt x * (y : Int)) else toInt x * (y : Int)) := by
  obtain ⟨hw1, hw2, hwl, hwn⟩ := (WF_iff w).mp hw
  obtain ⟨_, _, hxl, hxn⟩ := (WF_iff x).mp hx
  unfold aorsmul_1
  dsimp only
  by_cases h0 : (x.size == 0 || y == 0) = true
  · rw [if_pos h0]
    refine ⟨hw, ?_⟩
    rcases (by simpa using h0 : x.size = 0 ∨ y = 0) with h | h
    · rw [toInt_zero_of_size hx h]; simp
    · subst h; simp
  rw [if_neg h0]
  have ⟨hx0, hy0⟩ : x.size ≠ 0 ∧ y ≠ 0 := by simpa using h0
  have hxne := size_ne_zero hx hx0
  rw [toInt_eq x, ← prod_sign sub x.size x.d y]
  by_cases hw0 : (w.size == 0) = true
  · -- aorsmul_i.c:77-87
    rw [if_pos hw0]
    have hw0' : w.size = 0 := by simpa using hw0
    obtain ⟨ga1, ga2⟩ := grow_alloc w (x.size.natAbs + 1)
    obtain ⟨tv, tl, tn⟩ := mul_1_take x.d y hxn hxne hy hy0
    rw [hxl] at tv tl tn
    obtain ⟨wf, ti⟩ := mk_spec (grow w (x.size.natAbs + 1)).alloc _ (sub != decide (x.size < 0)) _ tl tn
      (by split_ifs <;> omega) (by omega)
    refine ⟨wf, ?_⟩
    rw [ti, tv, toInt_zero_of_size hw hw0']; simp
  rw [if_neg hw0]
  have hw0' : w.size ≠ 0 := by simpa using hw0
  have hwne := size_ne_zero hw hw0'
  obtain ⟨ga1, ga2⟩ := grow_alloc w (max w.size.natAbs x.size.natAbs + 1)
  rw [toInt_eq w]
  have hsw : sval w.size w.d = if decide (w.size < 0) = true then -(val w.d : Int) else (val w.d : Int) := by
    unfold sval; by_cases h : w.size < 0 <;> simp [h]
  rw [hsw]
  generalize hsp : (sub != decide (x.size < 0)) = sp
  generalize hwneg : decide (w.size < 0) = wneg
  by_cases hadd : (!(sp != wneg)) = true
  · -- addmul of absolute values
    rw [if_pos hadd]
    have hsame : wneg = sp := by cases sp <;> cases wneg <;> simp at hadd ⊢
    obtain ⟨a1, a2, a3, a4⟩ := aorsmul_1_add_spec w.d x.d y hwn hxn hwne hxne hy hy0
    rw [hwl, hxl] at a4
    generalize aorsmul_1_add w.d x.d y = r at *
    obtain ⟨wf, ti⟩ := mk_spec (grow w (max w.size.natAbs x.size.natAbs + 1)).alloc r.1 wneg r.2 a2 a3
      (by omega) (by omega)
    refine ⟨wf, ?_⟩
    rw [ti, a1]
    have := acc_finish wneg sp false (val w.d) (val x.d * y) (val w.d + val x.d * y)
      (by rw [if_pos hsame]; exact ⟨rfl, rfl⟩)
    simpa using this
  rw [if_neg hadd]
  have hdiff : ¬ wneg = sp := by cases sp <;> cases wneg <;> simp at hadd ⊢
  by_cases hge : w.size.natAbs ≥ x.size.natAbs
  · -- submul, w at least as long as x
    rw [if_pos hge]
    obtain ⟨b1, b2, b3⟩ := aorsmul_1_sub_ge_spec w.d x.d y hwn hxn hy (by omega)
    rw [hwl] at b2
    generalize aorsmul_1_sub_ge w.d x.d y = r at *
    obtain ⟨wf, ti⟩ := mk_spec (grow w (max w.size.natAbs x.size.natAbs + 1)).alloc r.2.length
      (wneg != r.1) r.2 rfl b1 (by omega) (by omega)
    refine ⟨wf, ?_⟩
    rw [ti]
    exact acc_finish wneg sp r.1 (val w.d) (val x.d * y) (val r.2) (by rw [if_neg hdiff]; exact b3)
  · -- submul, x longer than w
    rw [if_neg hge]
    obtain ⟨c1, c2, c3⟩ := aorsmul_1_sub_lt_spec w.d x.d y hwn hxn hwne hy hy0 (by omega)
    rw [hxl] at c2
    generalize aorsmul_1_sub_lt w.d x.d y = D at *
    obtain ⟨wf, ti⟩ := mk_spec (grow w (max w.size.natAbs x.size.natAbs + 1)).alloc D.length
      (!wneg) D rfl c1 (by omega) (by omega)
    refine ⟨wf, ?_⟩
    rw [ti]
    have := acc_finish wneg sp true (val w.d) (val x.d * y) (val D)
      (by rw [if_neg hdiff]; simpa using c3)
    simpa using this

/-! ## mpz_addmul / mpz_submul (mpz/aorsmul.c) -/

theorem len_le_of_val_le {x y : List Nat} (hx : Norm x) (hy : Norm y) (h : val x ≤ val y) :
    x.length ≤ y.length := by
  by_contra hgt
  have hxne : x ≠ [] := by intro h0; rw [h0] at hgt; simp at hgt
  have h1 := hx.lower hxne
  have h2 := hy.upper
  have h3 : B ^ y.length ≤ B ^ (x.length - 1) := Nat.pow_le_pow_right B_pos (by omega)
  omega

theorem cmp_twosizes_lt_iff (x y : List Nat) (hx : Norm x) (hy : Norm y) :
    cmp_twosizes_lt x y = true ↔ val x < val y := by
  unfold cmp_twosizes_lt
  simp only [Bool.or_eq_true, Bool.and_eq_true, decide_eq_true_eq, beq_iff_eq]
  rcases Nat.lt_trichotomy x.length y.length with hlt | heq | hgt
  · have : val x < val y := by
      by_contra h
      have := len_le_of_val_le hy hx (by omega)
      omega
    exact ⟨fun _ => this, fun _ => Or.inl hlt⟩
  · have := K.cmp_lt_iff x y hx.1 hy.1 heq
    constructor
    · rintro (h | ⟨_, h⟩)
      · omega
      · exact this.mp h
    · intro h; exact Or.inr ⟨heq, this.mpr h⟩
  · have : ¬ val x < val y := by
      intro h
      have := len_le_of_val_le hx hy (by omega)
      omega
    constructor
    · rintro (h | ⟨h, _⟩) <;> omega
    · intro h; exact absurd h this

/-- proof-side name for `mpz_aorsmul` after the operand swap (aorsmul.c:63-143) -/
def aorsmulCore (w x' y' : Mpz) (sub : Bool) : Mpz :=
  let sub := sub != decide (y'.size < 0)
  let ysize := y'.size.natAbs
  if ysize == 1 then aorsmul_1 w x' (y'.d.headD 0) sub
  else
    let sub := sub != decide (x'.size < 0)
    let xsize := x'.size.natAbs
    let wsize_signed := w.size
    let sub := sub != decide (wsize_signed < 0)
    let wsize := wsize_signed.natAbs
    let tsize := xsize + ysize
    let w1 := grow w (max wsize tsize + 1)
    let wp := w.d
    let t := mpn_mul x'.d y'.d
    let tsize := tsize - (if topLimb t == 0 then 1 else 0)
    let tp := t.take tsize
    if wsize_signed == 0 then
      { alloc := w1.alloc, size := sgn sub tsize, d := tp }
    else if !sub then
      let big := if wsize < tsize then tp else wp
      let small := if wsize < tsize then wp else tp
      let r := Mpir.add big small
      let n := big.length + (if r.2 != 0 then 1 else 0)
      { alloc := w1.alloc, size := sgn (wsize_signed < 0) n, d := (r.1 ++ [r.2]).take n }
    else
      let lt := cmp_twosizes_lt wp tp
      let big := if lt then tp else wp
      let small := if lt then wp else tp
      let wd := normalize (Mpir.sub big small).1
      { alloc := w1.alloc, size := sgn (decide (wsize_signed < 0) != lt) wd.length, d := wd }

theorem aorsmul_eq (w x y : Mpz) (sub : Bool) :
    aorsmul w x y sub =
      if x.size == 0 || y.size == 0 then w
      else aorsmulCore w (if y.size.natAbs > x.size.natAbs then y else x)
        (if y.size.natAbs > x.size.natAbs then x else y) sub := rfl

theorem sign3 (sub yneg : Bool) (X : Int) (y0 : Nat) :
    (if (sub != yneg) = true then -(X * (y0 : Int)) else X * (y0 : Int)) =
      if sub = true then -(X * (if yneg = true then -(y0 : Int) else (y0 : Int)))
      else X * (if yneg = true then -(y0 : Int) else (y0 : Int)) := by
  cases sub <;> cases yneg <;> simp

theorem sval_decide (s : Int) (d : List Nat) :
    sval s d = if decide (s < 0) = true then -(val d : Int) else (val d : Int) := by
  unfold sval; by_cases h : s < 0 <;> simp [h]

theorem sign4 (sub yneg xneg : Bool) (X Y : Nat) :
    (if ((sub != yneg) != xneg) = true then -((X * Y : Nat) : Int) else ((X * Y : Nat) : Int)) =
      if sub = true
      then -((if xneg = true then -(X : Int) else (X : Int)) * (if yneg = true then -(Y : Int) else (Y : Int)))
      else (if xneg = true then -(X : Int) else (X : Int)) * (if yneg = true then -(Y : Int) else (Y : Int)) := by
  cases sub <;> cases yneg <;> cases xneg <;> simp

theorem aorsmulCore_spec (w x y : Mpz) (sub : Bool) (hw : WF w) (hx : WF x) (hy : WF y)
    (hx0 : x.size ≠ 0) (hy0 : y.size ≠ 0) (_hle : y.size.natAbs ≤ x.size.natAbs) :
    WF (aorsmulCore w x y sub) ∧
    toInt (aorsmulCore w x y sub) =
      toInt w + (if sub = true then -(toInt x * toInt y) else toInt x * toInt y) := by
  obtain ⟨hw1, hw2, hwl, hwn⟩ := (WF_iff w).mp hw
  obtain ⟨_, _, hxl, hxn⟩ := (WF_iff x).mp hx
  obtain ⟨_, _, hyl, hyn⟩ := (WF_iff y).mp hy
  have hxne := size_ne_zero hx hx0
  have hyne := size_ne_zero hy hy0
  unfold aorsmulCore
  dsimp only
  by_cases h1 : (y.size.natAbs == 1) = true
  · -- aorsmul.c:67-71
    rw [if_pos h1]
    have h1' : y.size.natAbs = 1 := by simpa using h1
    obtain ⟨y0, hy0'⟩ := List.length_eq_one_iff.mp (hyl.trans h1')
    have hyB : y0 < B := by have := hyn.1; rw [hy0'] at this; exact (Limbs_cons.mp this).1
    have hh : y.d.headD 0 = y0 := by rw [hy0']; rfl
    rw [hh]
    obtain ⟨wf, ti⟩ := aorsmul_1_spec w x y0 (sub != decide (y.size < 0)) hw hx hyB
    refine ⟨wf, ?_⟩
    rw [ti, sign3, toInt_eq y, sval_decide y.size, hy0']
    simp
  rw [if_neg h1]
  obtain ⟨ga1, ga2⟩ := grow_alloc w (max w.size.natAbs (x.size.natAbs + y.size.natAbs) + 1)
  obtain ⟨p1, p2, p3⟩ := K.mul_basecase_val x.d y.d hxn.1 hyn.1 hyne
  obtain ⟨tv, tl, tn⟩ := prod_strip (mpn_mul x.d y.d) x.d y.d hxn hyn hxne hyne p1 p2 p3
  rw [hxl, hyl] at tv tl tn
  have htle : x.size.natAbs + y.size.natAbs - (if (topLimb (mpn_mul x.d y.d) == 0) = true then 1 else 0)
      ≤ x.size.natAbs + y.size.natAbs := Nat.sub_le _ _
  generalize x.size.natAbs + y.size.natAbs - (if (topLimb (mpn_mul x.d y.d) == 0) = true then 1 else 0)
    = tsize at *
  generalize List.take tsize (mpn_mul x.d y.d) = tp at *
  rw [toInt_eq x, toInt_eq y, sval_decide x.size, sval_decide y.size, ← sign4, ← tv]
  generalize hsp : ((sub != decide (y.size < 0)) != decide (x.size < 0)) = sp
  by_cases hw0 : (w.size == 0) = true
  · rw [if_pos hw0]
    have hw0' : w.size = 0 := by simpa using hw0
    have hwneg : decide (w.size < 0) = false := by simp [hw0']
    rw [hwneg]
    obtain ⟨wf, ti⟩ := mk_spec (grow w (max w.size.natAbs (x.size.natAbs + y.size.natAbs) + 1)).alloc
      tsize (sp != false) tp tl tn (by omega) (by omega)
    refine ⟨wf, ?_⟩
    rw [ti, toInt_zero_of_size hw hw0']; simp
  rw [if_neg hw0]
  have hw0' : w.size ≠ 0 := by simpa using hw0
  have hwne := size_ne_zero hw hw0'
  rw [toInt_eq w, sval_decide w.size]
  generalize hwneg : decide (w.size < 0) = wneg
  by_cases hadd : (!(sp != wneg)) = true
  · -- aorsmul.c:100-118
    rw [if_pos hadd]
    have hsame : wneg = sp := by cases sp <;> cases wneg <;> simp at hadd ⊢
    have hfin : ∀ big small : List Nat, Norm big → Norm small → big ≠ [] → small.length ≤ big.length →
        big.length ≤ max w.size.natAbs (x.size.natAbs + y.size.natAbs) →
        val big + val small = val w.d + val tp →
        WF ⟨(grow w (max w.size.natAbs (x.size.natAbs + y.size.natAbs) + 1)).alloc,
            sgn wneg (big.length + (if ((Mpir.add big small).2 != 0) = true then 1 else 0)),
            ((Mpir.add big small).1 ++ [(Mpir.add big small).2]).take
              (big.length + (if ((Mpir.add big small).2 != 0) = true then 1 else 0))⟩ ∧
        toInt ⟨(grow w (max w.size.natAbs (x.size.natAbs + y.size.natAbs) + 1)).alloc,
            sgn wneg (big.length + (if ((Mpir.add big small).2 != 0) = true then 1 else 0)),
            ((Mpir.add big small).1 ++ [(Mpir.add big small).2]).take
              (big.length + (if ((Mpir.add big small).2 != 0) = true then 1 else 0))⟩ =
          (if wneg = true then -(val w.d : Int) else (val w.d : Int)) +
          (if sp = true then -(val tp : Int) else (val tp : Int)) := by
      intro big small hb hs hbne hlen hbl hsum
      obtain ⟨av, ac, al, an⟩ := K.add_val big small hb.1 hs.1 hlen
      have hlow := hb.lower hbne
      obtain ⟨cv, cl, cn⟩ := take_carry (Mpir.add big small).1 (Mpir.add big small).2 big.length an al
        (by have := B_eq; omega) (Or.inr (by omega))
      obtain ⟨wf, ti⟩ := mk_spec (grow w (max w.size.natAbs (x.size.natAbs + y.size.natAbs) + 1)).alloc
        _ wneg _ cl cn (by split_ifs <;> omega) (by omega)
      refine ⟨wf, ?_⟩
      rw [ti, cv, av, hsum]
      have := acc_finish wneg sp false (val w.d) (val tp) (val w.d + val tp)
        (by rw [if_pos hsame]; exact ⟨rfl, rfl⟩)
      simpa using this
    by_cases hlt : w.size.natAbs < tsize
    · simp only [if_pos hlt]
      have htne : tp ≠ [] := by intro h; rw [h] at tl; simp at tl; omega
      exact hfin tp w.d tn hwn htne (by omega) (by omega) (by omega)
    · simp only [if_neg hlt]
      exact hfin w.d tp hwn tn hwne (by omega) (by omega) rfl
  · -- aorsmul.c:119-138
    rw [if_neg hadd]
    have hdiff : ¬ wneg = sp := by cases sp <;> cases wneg <;> simp at hadd ⊢
    have hiff := cmp_twosizes_lt_iff w.d tp hwn tn
    have hfin : ∀ (big small : List Nat) (lt : Bool), Norm big → Norm small → val small ≤ val big →
        big.length ≤ max w.size.natAbs (x.size.natAbs + y.size.natAbs) →
        (if lt = true then val big = val tp ∧ val small = val w.d
          else val big = val w.d ∧ val small = val tp) →
        WF ⟨(grow w (max w.size.natAbs (x.size.natAbs + y.size.natAbs) + 1)).alloc,
            sgn (wneg != lt) (normalize (Mpir.sub big small).1).length,
            normalize (Mpir.sub big small).1⟩ ∧
        toInt ⟨(grow w (max w.size.natAbs (x.size.natAbs + y.size.natAbs) + 1)).alloc,
            sgn (wneg != lt) (normalize (Mpir.sub big small).1).length,
            normalize (Mpir.sub big small).1⟩ =
          (if wneg = true then -(val w.d : Int) else (val w.d : Int)) +
          (if sp = true then -(val tp : Int) else (val tp : Int)) := by
      intro big small lt hb hs hle' hbl hcase
      have hlen := len_le_of_val_le hs hb hle'
      obtain ⟨sv, sc, sl, sn⟩ := K.sub_val big small hb.1 hs.1 hlen
      have hrup := val_lt _ sl
      rw [sn] at hrup
      obtain ⟨_, sv'⟩ := borrow_zero sv sc hrup hle'
      obtain ⟨wf, ti⟩ := mk_spec (grow w (max w.size.natAbs (x.size.natAbs + y.size.natAbs) + 1)).alloc
        _ (wneg != lt) _ rfl (Norm_normalize sl)
        (by have := normalize_length_le (Mpir.sub big small).1; omega) (by omega)
      refine ⟨wf, ?_⟩
      rw [ti, val_normalize]
      apply acc_finish wneg sp lt (val w.d) (val tp)
      rw [if_neg hdiff]
      cases lt
      · simp only [Bool.false_eq_true, if_false] at hcase ⊢; omega
      · simp only [if_true] at hcase ⊢; omega
    by_cases hlt : cmp_twosizes_lt w.d tp = true
    · rw [hlt]
      simp only [if_true]
      have hv := hiff.mp hlt
      exact hfin tp w.d true tn hwn (by omega) (by omega) ⟨rfl, rfl⟩
    · have hlt' : cmp_twosizes_lt w.d tp = false := by simpa using hlt
      rw [hlt']
      simp only [Bool.false_eq_true, if_false]
      have hv : ¬ val w.d < val tp := fun h => hlt (hiff.mpr h)
      exact hfin w.d tp false hwn tn (by omega) (by omega) ⟨rfl, rfl⟩

theorem aorsmul_spec (w x y : Mpz) (sub : Bool) (hw : WF w) (hx : WF x) (hy : WF y) :
    WF (aorsmul w x y sub) ∧
    toInt (aorsmul w x y sub) =
      toInt w + (if sub = true then -(toInt x * toInt y) else toInt x * toInt y) := by
  rw [aorsmul_eq]
  by_cases h0 : (x.size == 0 || y.size == 0) = true
  · rw [if_pos h0]
    refine ⟨hw, ?_⟩
    rcases (by simpa using h0 : x.size = 0 ∨ y.size = 0) with h | h
    · rw [toInt_zero_of_size hx h]; simp
    · rw [toInt_zero_of_size hy h]; simp
  rw [if_neg h0]
  have ⟨hx0, hy0⟩ : x.size ≠ 0 ∧ y.size ≠ 0 := by simpa using h0
  by_cases hsw : y.size.natAbs > x.size.natAbs
  · simp only [if_pos hsw]
    obtain ⟨wf, ti⟩ := aorsmulCore_spec w y x sub hw hy hx hy0 hx0 (by omega)
    exact ⟨wf, by rw [ti, Int.mul_comm]⟩
  · simp only [if_neg hsw]
    exact aorsmulCore_spec w x y sub hw hx hy hx0 hy0 (by omega)

end Mpir.Mpz
