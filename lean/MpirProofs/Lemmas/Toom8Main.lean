/- Main lemmas for Mpir/Model/Toom8.lean: the complete routines. -/
import MpirProofs.Lemmas.Toom8Points
namespace Mpir.Toom8
set_option linter.unusedVariables false

theorem list_len15 (l : List Int) (h : l.length = 15) : ∃ c0 c1 c2 c3 c4 c5 c6 c7 c8 c9 c10 c11 c12 c13 c14 : Int, l = [c0, c1, c2, c3, c4, c5, c6, c7, c8, c9, c10, c11, c12, c13, c14] := by
  rcases l with _ | ⟨c0, l⟩
  · simp at h
  rcases l with _ | ⟨c1, l⟩
  · simp at h
  rcases l with _ | ⟨c2, l⟩
  · simp at h
  rcases l with _ | ⟨c3, l⟩
  · simp at h
  rcases l with _ | ⟨c4, l⟩
  · simp at h
  rcases l with _ | ⟨c5, l⟩
  · simp at h
  rcases l with _ | ⟨c6, l⟩
  · simp at h
  rcases l with _ | ⟨c7, l⟩
  · simp at h
  rcases l with _ | ⟨c8, l⟩
  · simp at h
  rcases l with _ | ⟨c9, l⟩
  · simp at h
  rcases l with _ | ⟨c10, l⟩
  · simp at h
  rcases l with _ | ⟨c11, l⟩
  · simp at h
  rcases l with _ | ⟨c12, l⟩
  · simp at h
  rcases l with _ | ⟨c13, l⟩
  · simp at h
  rcases l with _ | ⟨c14, l⟩
  · simp at h
  rcases l with _ | ⟨x, l⟩
  · exact ⟨c0, c1, c2, c3, c4, c5, c6, c7, c8, c9, c10, c11, c12, c13, c14, rfl⟩
  · simp only [List.length_cons] at h; omega

theorem list_len16 (l : List Int) (h : l.length = 16) : ∃ c0 c1 c2 c3 c4 c5 c6 c7 c8 c9 c10 c11 c12 c13 c14 c15 : Int, l = [c0, c1, c2, c3, c4, c5, c6, c7, c8, c9, c10, c11, c12, c13, c14, c15] := by
  rcases l with _ | ⟨c0, l⟩
  · simp at h
  rcases l with _ | ⟨c1, l⟩
  · simp at h
  rcases l with _ | ⟨c2, l⟩
  · simp at h
  rcases l with _ | ⟨c3, l⟩
  · simp at h
  rcases l with _ | ⟨c4, l⟩
  · simp at h
  rcases l with _ | ⟨c5, l⟩
  · simp at h
  rcases l with _ | ⟨c6, l⟩
  · simp at h
  rcases l with _ | ⟨c7, l⟩
  · simp at h
  rcases l with _ | ⟨c8, l⟩
  · simp at h
  rcases l with _ | ⟨c9, l⟩
  · simp at h
  rcases l with _ | ⟨c10, l⟩
  · simp at h
  rcases l with _ | ⟨c11, l⟩
  · simp at h
  rcases l with _ | ⟨c12, l⟩
  · simp at h
  rcases l with _ | ⟨c13, l⟩
  · simp at h
  rcases l with _ | ⟨c14, l⟩
  · simp at h
  rcases l with _ | ⟨c15, l⟩
  · simp at h
  rcases l with _ | ⟨x, l⟩
  · exact ⟨c0, c1, c2, c3, c4, c5, c6, c7, c8, c9, c10, c11, c12, c13, c14, c15, rfl⟩
  · simp only [List.length_cons] at h; omega

/-- the seven couples of one call, as interp16 needs them, for a product polynomial of degree 14 (half = 0) -/
theorem core_h0 (as bs : List Nat) (n q : Nat) (has : as ≠ []) (hq : bs.length = q + 1)
    (hlen : as.length + bs.length = 16) :
    recompose16 ((B : Int) ^ n) (core (· * ·) as bs n q false).2
      = (evalH ((B : Int) ^ n) 1 (toZ as) * evalH ((B : Int) ^ n) 1 (toZ bs)).toNat := by
  have hbs : bs ≠ [] := by intro h; simp [h] at hq
  obtain ⟨cs, hl, he⟩ := exists_prod (toZ as) (toZ bs) (by simpa [toZ] using has) (by simpa [toZ] using hbs)
  simp only [toZ_length] at hl
  simp only [core, Bool.false_eq_true, if_false, Nat.add_zero, Nat.mul_one, Nat.mul_zero, Nat.cast_zero]
  unfold recompose16
  generalize (B : Int) ^ n = W
  obtain ⟨c0, c1, c2, c3, c4, c5, c6, c7, c8, c9, c10, c11, c12, c13, c14, hcs⟩ := list_len15 cs (by omega)
  subst hcs
  have hW : evalH W 1 (toZ as) * evalH W 1 (toZ bs) = c0 + W * (c1 + W * c2) + W ^ 3 * (c3 + W * c4)
      + W ^ 5 * (c5 + W * c6) + W ^ 7 * (c7 + W * c8) + W ^ 9 * (c9 + W * c10) + W ^ 11 * (c11 + W * c12)
      + W ^ 13 * (c13 + W * c14) + W ^ 15 * 0 := by
    rw [← he]; simp only [evalH, List.length_cons, List.length_nil]; ring
  have hb1 : EvalSpec (if q = 3 then evalDgr3Pm1 bs else evalPm1 bs) (evalH 1 1 (toZ bs)) (evalH (-1) 1 (toZ bs)) := by
    split
    · exact evalDgr3Pm1_spec bs (by omega)
    · exact evalPm1_spec bs
  have h8 : (((as.getD 0 0 * bs.getD 0 0 : Nat)) : Int) = c0 := by
    have := he 0 1
    rw [evalH_zero_one, toZ_head as has, toZ_head bs hbs] at this
    push_cast; exact this.symm
  have hc := interp16_coeffs_h0 (W := W) (c1 := c1) (c2 := c2) (c3 := c3) (c4 := c4) (c5 := c5) (c6 := c6) (c7 := c7) (c8 := c8) (c9 := c9) (c10 := c10) (c11 := c11) (c12 := c12) (c13 := c13) (c14 := c14) h8
    ((point_val _ _ _ _ _ _ (evalPm2rexp_spec as 3 has) (evalPm2rexp_spec bs 3 hbs) W 3 0).trans (by rw [← he, ← he]; exact couple_r7_h0 ..))
    ((point_val _ _ _ _ _ _ (evalPm2rexp_spec as 1 has) (evalPm2rexp_spec bs 1 hbs) W 1 0).trans (by rw [← he, ← he]; exact couple_r6_h0 ..))
    ((point_val _ _ _ _ _ _ (evalPm2rexp_spec as 2 has) (evalPm2rexp_spec bs 2 hbs) W 2 0).trans (by rw [← he, ← he]; exact couple_r5_h0 ..))
    ((point_val _ _ _ _ _ _ (evalPm1_spec as) hb1 W 0 0).trans (by rw [← he, ← he]; exact couple_r4_h0 ..))
    ((point_val _ _ _ _ _ _ (evalPm2_spec as) (evalPm2_spec bs) W 1 2).trans (by rw [← he, ← he]; exact couple_r3_h0 ..))
    ((point_val _ _ _ _ _ _ (evalPm2exp_spec as 2) (evalPm2exp_spec bs 2) W 2 4).trans (by rw [← he, ← he]; exact couple_r2_h0 ..))
    ((point_val _ _ _ _ _ _ (evalPm2exp_spec as 3) (evalPm2exp_spec bs 3) W 3 6).trans (by rw [← he, ← he]; exact couple_r1_h0 ..))
  rw [hc, hW]

/-- … and of degree 15 (half ≠ 0: the point ∞ is used) -/
theorem core_h1 (as bs : List Nat) (n q : Nat) (has : as ≠ []) (hq : bs.length = q + 1)
    (hlen : as.length + bs.length = 17) :
    recompose16 ((B : Int) ^ n) (core (· * ·) as bs n q true).2
      = (evalH ((B : Int) ^ n) 1 (toZ as) * evalH ((B : Int) ^ n) 1 (toZ bs)).toNat := by
  have hbs : bs ≠ [] := by intro h; simp [h] at hq
  obtain ⟨cs, hl, he⟩ := exists_prod (toZ as) (toZ bs) (by simpa [toZ] using has) (by simpa [toZ] using hbs)
  simp only [toZ_length] at hl
  simp only [core, if_true, Nat.reduceAdd, Nat.reduceMul]
  unfold recompose16
  generalize (B : Int) ^ n = W
  obtain ⟨c0, c1, c2, c3, c4, c5, c6, c7, c8, c9, c10, c11, c12, c13, c14, c15, hcs⟩ := list_len16 cs (by omega)
  subst hcs
  have hW : evalH W 1 (toZ as) * evalH W 1 (toZ bs) = c0 + W * (c1 + W * c2) + W ^ 3 * (c3 + W * c4)
      + W ^ 5 * (c5 + W * c6) + W ^ 7 * (c7 + W * c8) + W ^ 9 * (c9 + W * c10) + W ^ 11 * (c11 + W * c12)
      + W ^ 13 * (c13 + W * c14) + W ^ 15 * c15 := by
    rw [← he]; simp only [evalH, List.length_cons, List.length_nil]; ring
  have hb1 : EvalSpec (if q = 3 then evalDgr3Pm1 bs else evalPm1 bs) (evalH 1 1 (toZ bs)) (evalH (-1) 1 (toZ bs)) := by
    split
    · exact evalDgr3Pm1_spec bs (by omega)
    · exact evalPm1_spec bs
  have h8 : (((as.getD 0 0 * bs.getD 0 0 : Nat)) : Int) = c0 := by
    have := he 0 1
    rw [evalH_zero_one, toZ_head as has, toZ_head bs hbs] at this
    push_cast; exact this.symm
  have h0 : (((as.getLastD 0 * bs.getLastD 0 : Nat)) : Int) = c15 := by
    have := he 1 0
    rw [evalH_one_zero, evalH_one_zero, evalH_one_zero, toZ_getLastD, toZ_getLastD] at this
    push_cast; rw [← this]; rfl
  have hc := interp16_coeffs_h1 (W := W) (c1 := c1) (c2 := c2) (c3 := c3) (c4 := c4) (c5 := c5) (c6 := c6) (c7 := c7) (c8 := c8) (c9 := c9) (c10 := c10) (c11 := c11) (c12 := c12) (c13 := c13) (c14 := c14) h8
    ((point_val _ _ _ _ _ _ (evalPm2rexp_spec as 3 has) (evalPm2rexp_spec bs 3 hbs) W 6 3).trans (by rw [← he, ← he]; exact couple_r7_h1 ..))
    ((point_val _ _ _ _ _ _ (evalPm2rexp_spec as 1 has) (evalPm2rexp_spec bs 1 hbs) W 2 1).trans (by rw [← he, ← he]; exact couple_r6_h1 ..))
    ((point_val _ _ _ _ _ _ (evalPm2rexp_spec as 2 has) (evalPm2rexp_spec bs 2 hbs) W 4 2).trans (by rw [← he, ← he]; exact couple_r5_h1 ..))
    ((point_val _ _ _ _ _ _ (evalPm1_spec as) hb1 W 0 0).trans (by rw [← he, ← he]; exact couple_r4_h1 ..))
    ((point_val _ _ _ _ _ _ (evalPm2_spec as) (evalPm2_spec bs) W 1 2).trans (by rw [← he, ← he]; exact couple_r3_h1 ..))
    ((point_val _ _ _ _ _ _ (evalPm2exp_spec as 2) (evalPm2exp_spec bs 2) W 2 4).trans (by rw [← he, ← he]; exact couple_r2_h1 ..))
    ((point_val _ _ _ _ _ _ (evalPm2exp_spec as 3) (evalPm2exp_spec bs 3) W 3 6).trans (by rw [← he, ← he]; exact couple_r1_h1 ..))
    h0
  rw [hc, hW]

/-- what toom8h_mul.c:145-148 asserts about the decomposition, and what the evaluation/interpolation needs:
    the degrees add up to 14 (half = 0) or 15 (half = 1); q ≥ 3 (the degree-3 helper is used exactly for 4 blocks);
    the recursive products are on n + 1 < bn limbs (the recursion is well founded) -/
def SplitOk (bn : Nat) (sp : Split) : Prop :=
  0 < sp.s ∧ sp.s ≤ sp.n ∧ 0 < sp.t ∧ sp.t ≤ sp.n ∧ (sp.half = true ∨ sp.s + sp.t > 3) ∧ sp.n > 2 ∧
  sp.p + sp.q = (if sp.half = true then 15 else 14) ∧ 3 ≤ sp.q ∧ sp.n + 1 < bn

theorem splitPQ_9_8 (an bn : Nat) (h1 : an ≥ bn) (h2 : bn ≥ 86) (h3 : an * 4 ≤ bn * 13)
    (hf : ¬ (an = bn ∨ an * 10 < 21 * (bn / 2)))  (hc : an * 13 < 16 * bn) :
    SplitOk bn (splitPQ an bn 9 8) := by
  unfold splitPQ SplitOk
  simp only [apply_ite Split.s, apply_ite Split.t, apply_ite Split.n, apply_ite Split.p, apply_ite Split.q,
    apply_ite Split.half]
  split_ifs <;> simp at * <;> omega

theorem splitPQ_9_7 (an bn : Nat) (h1 : an ≥ bn) (h2 : bn ≥ 86) (h3 : an * 4 ≤ bn * 13)
    (hf : ¬ (an = bn ∨ an * 10 < 21 * (bn / 2))) (n0 : ¬ an * 13 < 16 * bn) (hc : an * 10 < 27 * (bn / 2)) :
    SplitOk bn (splitPQ an bn 9 7) := by
  unfold splitPQ SplitOk
  simp only [apply_ite Split.s, apply_ite Split.t, apply_ite Split.n, apply_ite Split.p, apply_ite Split.q,
    apply_ite Split.half]
  split_ifs <;> simp at * <;> omega

theorem splitPQ_10_7 (an bn : Nat) (h1 : an ≥ bn) (h2 : bn ≥ 86) (h3 : an * 4 ≤ bn * 13)
    (hf : ¬ (an = bn ∨ an * 10 < 21 * (bn / 2))) (n0 : ¬ an * 13 < 16 * bn) (n1 : ¬ an * 10 < 27 * (bn / 2)) (hc : an * 10 < 33 * (bn / 2)) :
    SplitOk bn (splitPQ an bn 10 7) := by
  unfold splitPQ SplitOk
  simp only [apply_ite Split.s, apply_ite Split.t, apply_ite Split.n, apply_ite Split.p, apply_ite Split.q,
    apply_ite Split.half]
  split_ifs <;> simp at * <;> omega

theorem splitPQ_10_6 (an bn : Nat) (h1 : an ≥ bn) (h2 : bn ≥ 86) (h3 : an * 4 ≤ bn * 13)
    (hf : ¬ (an = bn ∨ an * 10 < 21 * (bn / 2))) (n0 : ¬ an * 13 < 16 * bn) (n1 : ¬ an * 10 < 27 * (bn / 2)) (n2 : ¬ an * 10 < 33 * (bn / 2)) (hc : an * 4 < 7 * bn) :
    SplitOk bn (splitPQ an bn 10 6) := by
  unfold splitPQ SplitOk
  simp only [apply_ite Split.s, apply_ite Split.t, apply_ite Split.n, apply_ite Split.p, apply_ite Split.q,
    apply_ite Split.half]
  split_ifs <;> simp at * <;> omega

theorem splitPQ_11_6 (an bn : Nat) (h1 : an ≥ bn) (h2 : bn ≥ 86) (h3 : an * 4 ≤ bn * 13)
    (hf : ¬ (an = bn ∨ an * 10 < 21 * (bn / 2))) (n0 : ¬ an * 13 < 16 * bn) (n1 : ¬ an * 10 < 27 * (bn / 2)) (n2 : ¬ an * 10 < 33 * (bn / 2)) (n3 : ¬ an * 4 < 7 * bn) (hc : an * 6 < 13 * bn) :
    SplitOk bn (splitPQ an bn 11 6) := by
  unfold splitPQ SplitOk
  simp only [apply_ite Split.s, apply_ite Split.t, apply_ite Split.n, apply_ite Split.p, apply_ite Split.q,
    apply_ite Split.half]
  split_ifs <;> simp at * <;> omega

theorem splitPQ_11_5 (an bn : Nat) (h1 : an ≥ bn) (h2 : bn ≥ 86) (h3 : an * 4 ≤ bn * 13)
    (hf : ¬ (an = bn ∨ an * 10 < 21 * (bn / 2))) (n0 : ¬ an * 13 < 16 * bn) (n1 : ¬ an * 10 < 27 * (bn / 2)) (n2 : ¬ an * 10 < 33 * (bn / 2)) (n3 : ¬ an * 4 < 7 * bn) (n4 : ¬ an * 6 < 13 * bn) (hc : an * 4 < 9 * bn) :
    SplitOk bn (splitPQ an bn 11 5) := by
  unfold splitPQ SplitOk
  simp only [apply_ite Split.s, apply_ite Split.t, apply_ite Split.n, apply_ite Split.p, apply_ite Split.q,
    apply_ite Split.half]
  split_ifs <;> simp at * <;> omega

theorem splitPQ_12_5 (an bn : Nat) (h1 : an ≥ bn) (h2 : bn ≥ 86) (h3 : an * 4 ≤ bn * 13)
    (hf : ¬ (an = bn ∨ an * 10 < 21 * (bn / 2))) (n0 : ¬ an * 13 < 16 * bn) (n1 : ¬ an * 10 < 27 * (bn / 2)) (n2 : ¬ an * 10 < 33 * (bn / 2)) (n3 : ¬ an * 4 < 7 * bn) (n4 : ¬ an * 6 < 13 * bn) (n5 : ¬ an * 4 < 9 * bn) (hc : an * 7 < 20 * bn) :
    SplitOk bn (splitPQ an bn 12 5) := by
  unfold splitPQ SplitOk
  simp only [apply_ite Split.s, apply_ite Split.t, apply_ite Split.n, apply_ite Split.p, apply_ite Split.q,
    apply_ite Split.half]
  split_ifs <;> simp at * <;> omega

theorem splitPQ_12_4 (an bn : Nat) (h1 : an ≥ bn) (h2 : bn ≥ 86) (h3 : an * 4 ≤ bn * 13)
    (hf : ¬ (an = bn ∨ an * 10 < 21 * (bn / 2))) (n0 : ¬ an * 13 < 16 * bn) (n1 : ¬ an * 10 < 27 * (bn / 2)) (n2 : ¬ an * 10 < 33 * (bn / 2)) (n3 : ¬ an * 4 < 7 * bn) (n4 : ¬ an * 6 < 13 * bn) (n5 : ¬ an * 4 < 9 * bn) (n6 : ¬ an * 7 < 20 * bn) (hc : an * 9 < 28 * bn) :
    SplitOk bn (splitPQ an bn 12 4) := by
  unfold splitPQ SplitOk
  simp only [apply_ite Split.s, apply_ite Split.t, apply_ite Split.n, apply_ite Split.p, apply_ite Split.q,
    apply_ite Split.half]
  split_ifs <;> simp at * <;> omega

theorem splitPQ_13_4 (an bn : Nat) (h1 : an ≥ bn) (h2 : bn ≥ 86) (h3 : an * 4 ≤ bn * 13)
    (hf : ¬ (an = bn ∨ an * 10 < 21 * (bn / 2))) (n0 : ¬ an * 13 < 16 * bn) (n1 : ¬ an * 10 < 27 * (bn / 2)) (n2 : ¬ an * 10 < 33 * (bn / 2)) (n3 : ¬ an * 4 < 7 * bn) (n4 : ¬ an * 6 < 13 * bn) (n5 : ¬ an * 4 < 9 * bn) (n6 : ¬ an * 7 < 20 * bn) (n7 : ¬ an * 9 < 28 * bn) :
    SplitOk bn (splitPQ an bn 13 4) := by
  unfold splitPQ SplitOk
  simp only [apply_ite Split.s, apply_ite Split.t, apply_ite Split.n, apply_ite Split.p, apply_ite Split.q,
    apply_ite Split.half]
  split_ifs <;> simp at * <;> omega

/-- toom8h_mul.c:97-148: for EVERY (an, bn) in the asserted domain the decomposition passes the C's own ASSERTs
    (0 < s ≤ n, 0 < t ≤ n, half || s + t > 3, n > 2), the degrees add up to 14 (half = 0) or 15 (half = 1), and
    q ≥ 3. -/
theorem split_ok (an bn : Nat) (h1 : an ≥ bn) (h2 : bn ≥ 86) (h3 : an * 4 ≤ bn * 13) : SplitOk bn (split an bn) := by
  unfold split
  by_cases hf : an = bn ∨ an * (20 / 2) < 21 * (bn / 2)
  · simp only [hf, if_true]
    unfold SplitOk
    simp at hf ⊢
    omega
  · simp only [hf, if_false]
    have hf' : ¬ (an = bn ∨ an * 10 < 21 * (bn / 2)) := by simpa using hf
    unfold choosePQ
    split_ifs with c0 c1 c2 c3 c4 c5 c6 c7
    · exact splitPQ_9_8 an bn h1 h2 h3 hf' (by simpa using c0)
    · exact splitPQ_9_7 an bn h1 h2 h3 hf' (by simpa using c0) (by simpa using c1)
    · exact splitPQ_10_7 an bn h1 h2 h3 hf' (by simpa using c0) (by simpa using c1) (by simpa using c2)
    · exact splitPQ_10_6 an bn h1 h2 h3 hf' (by simpa using c0) (by simpa using c1) (by simpa using c2) (by simpa using c3)
    · exact splitPQ_11_6 an bn h1 h2 h3 hf' (by simpa using c0) (by simpa using c1) (by simpa using c2) (by simpa using c3) (by simpa using c4)
    · exact splitPQ_11_5 an bn h1 h2 h3 hf' (by simpa using c0) (by simpa using c1) (by simpa using c2) (by simpa using c3) (by simpa using c4) (by simpa using c5)
    · exact splitPQ_12_5 an bn h1 h2 h3 hf' (by simpa using c0) (by simpa using c1) (by simpa using c2) (by simpa using c3) (by simpa using c4) (by simpa using c5) (by simpa using c6)
    · exact splitPQ_12_4 an bn h1 h2 h3 hf' (by simpa using c0) (by simpa using c1) (by simpa using c2) (by simpa using c3) (by simpa using c4) (by simpa using c5) (by simpa using c6) (by simpa using c7)
    · exact splitPQ_13_4 an bn h1 h2 h3 hf' (by simpa using c0) (by simpa using c1) (by simpa using c2) (by simpa using c3) (by simpa using c4) (by simpa using c5) (by simpa using c6) (by simpa using c7)

theorem blocks_prod (a b n p q : Nat) :
    (evalH ((B : Int) ^ n) 1 (toZ (blocks a (B ^ n) p)) * evalH ((B : Int) ^ n) 1 (toZ (blocks b (B ^ n) q))).toNat = a * b := by
  have ha := blocks_eval (B ^ n) p a
  have hb := blocks_eval (B ^ n) q b
  push_cast at ha hb
  rw [ha, hb, ← Nat.cast_mul, Int.toNat_natCast]

theorem toom8h_mul_eq (mul : Nat → Nat → Nat) (hmul : ∀ x y, mul x y = x * y) (a an b bn : Nat)
    (h1 : an ≥ bn) (h2 : bn ≥ 86) (h3 : an * 4 ≤ bn * 13) : toom8h_mul mul a an b bn = some (a * b) := by
  obtain rfl : mul = fun x y => x * y := by funext x y; exact hmul x y
  obtain ⟨s1, s2, s3, s4, s5, s6, s7, s8, _⟩ := split_ok an bn h1 h2 h3
  unfold toom8h_mul
  rw [if_neg (not_not.mpr ⟨h1, h2, h3⟩)]
  simp only []
  rw [if_neg (not_not.mpr ⟨s1, s2, s3, s4, s5, s6⟩)]
  congr 1
  have hne : blocks a (B ^ (split an bn).n) (split an bn).p ≠ [] := by
    intro h; have := blocks_length (B ^ (split an bn).n) (split an bn).p a; rw [h] at this; simp at this
  cases hh : (split an bn).half
  · rw [hh] at s7
    simp only [Bool.false_eq_true, if_false] at s7
    rw [core_h0 _ _ _ _ hne (blocks_length _ _ _) (by rw [blocks_length, blocks_length]; omega)]
    exact blocks_prod a b _ _ _
  · rw [hh] at s7
    simp only [if_true] at s7
    rw [core_h1 _ _ _ _ hne (blocks_length _ _ _) (by rw [blocks_length, blocks_length]; omega)]
    exact blocks_prod a b _ _ _

/-- the squaring: the same seven couples with nsign = 0 and degree 14 -/
theorem toom8_sqr_core (as : List Nat) (n : Nat) (hlen : as.length = 8) :
    let W : Int := (B : Int) ^ n
    recompose16 W (interp16 (((as.getD 0 0) * (as.getD 0 0) : Nat) : Int)
      (pointSqr (fun x => x * x) (evalPm2rexp as 3) W 3 0).val (pointSqr (fun x => x * x) (evalPm2rexp as 1) W 1 0).val
      (pointSqr (fun x => x * x) (evalPm2rexp as 2) W 2 0).val (pointSqr (fun x => x * x) (evalPm1 as) W 0 0).val
      (pointSqr (fun x => x * x) (evalPm2 as) W 1 2).val (pointSqr (fun x => x * x) (evalPm2exp as 2) W 2 4).val
      (pointSqr (fun x => x * x) (evalPm2exp as 3) W 3 6).val 0 W false)
      = (evalH W 1 (toZ as) * evalH W 1 (toZ as)).toNat := by
  intro W
  have has : as ≠ [] := by intro h; simp [h] at hlen
  obtain ⟨cs, hl, he⟩ := exists_prod (toZ as) (toZ as) (by simpa [toZ] using has) (by simpa [toZ] using has)
  simp only [toZ_length] at hl
  obtain ⟨c0, c1, c2, c3, c4, c5, c6, c7, c8, c9, c10, c11, c12, c13, c14, hcs⟩ := list_len15 cs (by omega)
  subst hcs
  have hW : evalH W 1 (toZ as) * evalH W 1 (toZ as) = c0 + W * (c1 + W * c2) + W ^ 3 * (c3 + W * c4)
      + W ^ 5 * (c5 + W * c6) + W ^ 7 * (c7 + W * c8) + W ^ 9 * (c9 + W * c10) + W ^ 11 * (c11 + W * c12)
      + W ^ 13 * (c13 + W * c14) + W ^ 15 * 0 := by
    rw [← he]; simp only [evalH, List.length_cons, List.length_nil]; ring
  have h8 : (((as.getD 0 0 * as.getD 0 0 : Nat)) : Int) = c0 := by
    have := he 0 1
    rw [evalH_zero_one, toZ_head as has] at this
    push_cast; exact this.symm
  have hc := interp16_coeffs_h0 (W := W) (c1 := c1) (c2 := c2) (c3 := c3) (c4 := c4) (c5 := c5) (c6 := c6) (c7 := c7) (c8 := c8) (c9 := c9) (c10 := c10) (c11 := c11) (c12 := c12) (c13 := c13) (c14 := c14) h8
    ((pointSqr_val _ _ _ (evalPm2rexp_spec as 3 has) W 3 0).trans (by rw [← he, ← he]; exact couple_r7_h0 ..))
    ((pointSqr_val _ _ _ (evalPm2rexp_spec as 1 has) W 1 0).trans (by rw [← he, ← he]; exact couple_r6_h0 ..))
    ((pointSqr_val _ _ _ (evalPm2rexp_spec as 2 has) W 2 0).trans (by rw [← he, ← he]; exact couple_r5_h0 ..))
    ((pointSqr_val _ _ _ (evalPm1_spec as) W 0 0).trans (by rw [← he, ← he]; exact couple_r4_h0 ..))
    ((pointSqr_val _ _ _ (evalPm2_spec as) W 1 2).trans (by rw [← he, ← he]; exact couple_r3_h0 ..))
    ((pointSqr_val _ _ _ (evalPm2exp_spec as 2) W 2 4).trans (by rw [← he, ← he]; exact couple_r2_h0 ..))
    ((pointSqr_val _ _ _ (evalPm2exp_spec as 3) W 3 6).trans (by rw [← he, ← he]; exact couple_r1_h0 ..))
  unfold recompose16
  rw [hc, hW]

/-- toom8_sqr_n.c:66-73: the ASSERTs of the decomposition hold from MPN_TOOM8_SQR_N_MINSIZE = 58 on
    (`ASSERT (an >= 40)` alone does not imply them: an = 41 gives s = −1). -/
theorem toom8_sqr_n_eq (sqr : Nat → Nat) (hsqr : ∀ x, sqr x = x * x) (a an : Nat) (h : an ≥ 58) :
    toom8_sqr_n sqr a an = some (a * a) := by
  obtain rfl : sqr = fun x => x * x := by funext x; exact hsqr x
  unfold toom8_sqr_n
  rw [if_neg (not_not.mpr (by omega))]
  simp only []
  rw [if_neg (not_not.mpr (by push_cast; omega))]
  congr 1
  have := toom8_sqr_core (blocks a (B ^ (1 + (an - 1) / 8)) 7) (1 + (an - 1) / 8) (blocks_length _ _ _)
  simp only [] at this
  rw [this]
  exact blocks_prod a a _ _ _

/-- whenever the ASSERTs of toom8_sqr_n.c pass, the result is the square -/
theorem toom8_sqr_n_some (sqr : Nat → Nat) (hsqr : ∀ x, sqr x = x * x) (a an r : Nat)
    (h : toom8_sqr_n sqr a an = some r) : r = a * a := by
  obtain rfl : sqr = fun x => x * x := by funext x; exact hsqr x
  unfold toom8_sqr_n at h
  split_ifs at h
  simp only [] at h
  split_ifs at h
  simp only [Option.some.injEq] at h
  rw [← h]
  have := toom8_sqr_core (blocks a (B ^ (1 + (an - 1) / 8)) 7) (1 + (an - 1) / 8) (blocks_length _ _ _)
  simp only [] at this
  rw [this]
  exact blocks_prod a a _ _ _

end Mpir.Toom8
