/- Main lemmas for Mpir/Model/Toom8.lean: the complete routines. -/
import MpirProofs.Lemmas.Toom8Points
namespace Mpir.Toom8

theorem list_len15 (l : List Int) (h : l.length = 15) : ∃ c0 c1 c2 c3 c4 c5 c6 c7 c8 c9 c10 c11 c12 c13 c14 : Int, l = [c0, c1, c2, c3, c4, c5, c6, c7, c8, c9, c10, c11, c12, c13, c14] := by
  rcases l with _ | ⟨c0, l⟩
  · simp at h
  rcases l with _ | ⟨c1, l⟩
  · simp at h
  rcases l with _ | ⟨c2, l⟩
  · simp at h
  rcases l with _ | ⟨c3, l⟩
  · simp at h
  rcases l with _ | ⟨c4, l⟩
  · simp at h
  rcases l with _ | ⟨c5, l⟩
  · simp at h
  rcases l with _ | ⟨c6, l⟩
  · simp at h
  rcases l with _ | ⟨c7, l⟩
  · simp at h
  rcases l with _ | ⟨c8, l⟩
  · simp at h
  rcases l with _ | ⟨c9, l⟩
  · simp at h
  rcases l with _ | ⟨c10, l⟩
  · simp at h
  rcases l with _ | ⟨c11, l⟩
  · simp at h
  rcases l with _ | ⟨c12, l⟩
  · simp at h
  rcases l with _ | ⟨c13, l⟩
  · simp at h
  rcases l with _ | ⟨c14, l⟩
  · simp at h
  rcases l with _ | ⟨x, l⟩
  · exact ⟨c0, c1, c2, c3, c4, c5, c6, c7, c8, c9, c10, c11, c12, c13, c14, rfl⟩
  · simp only [List.length_cons] at h; omega

theorem list_len16 (l : List Int) (h : l.length = 16) : ∃ c0 c1 c2 c3 c4 c5 c6 c7 c8 c9 c10 c11 c12 c13 c14 c15 : Int, l = [c0, c1, c2, c3, c4, c5, c6, c7, c8, c9, c10, c11, c12, c13, c14, c15] := by
  rcases l with _ | ⟨c0, l⟩
  · simp at h
  rcases l with _ | ⟨c1, l⟩
  · simp at h
  rcases l with _ | ⟨c2, l⟩
  · simp at h
  rcases l with _ | ⟨c3, l⟩
  · simp at h
  rcases l with _ | ⟨c4, l⟩
  · simp at h
  rcases l with _ | ⟨c5, l⟩
  · simp at h
  rcases l with _ | ⟨c6, l⟩
  · simp at h
  rcases l with _ | ⟨c7, l⟩
  · simp at h
  rcases l with _ | ⟨c8, l⟩
  · simp at h
  rcases l with _ | ⟨c9, l⟩
  · simp at h
  rcases l with _ | ⟨c10, l⟩
  · simp at h
  rcases l with _ | ⟨c11, l⟩
  · simp at h
  rcases l with _ | ⟨c12, l⟩
  · simp at h
  rcases l with _ | ⟨c13, l⟩
  · simp at h
  rcases l with _ | ⟨c14, l⟩
  · simp at h
  rcases l with _ | ⟨c15, l⟩
  · simp at h
  rcases l with _ | ⟨x, l⟩
  · exact ⟨c0, c1, c2, c3, c4, c5, c6, c7, c8, c9, c10, c11, c12, c13, c14, c15, rfl⟩
  · simp only [List.length_cons] at h; omega

/-- the seven couples of one call, as interp16 needs them, for a product polynomial of degree 14 (half = 0) -/
theorem core_h0 (as bs : List Nat) (n q : Nat) (has : as ≠ []) (hq : bs.length = q + 1)
    (hlen : as.length + bs.length = 16) :
    recompose16 ((B : Int) ^ n) (core (· * ·) as bs n q false).2
      = (evalH ((B : Int) ^ n) 1 (toZ as) * evalH ((B : Int) ^ n) 1 (toZ bs)).toNat := by
  have hbs : bs ≠ [] := by intro h; simp [h] at hq
  obtain ⟨cs, hl, he⟩ := exists_prod (toZ as) (toZ bs) (by simpa [toZ] using has) (by simpa [toZ] using hbs)
  simp only [toZ_length] at hl
  simp only [core, Bool.false_eq_true, if_false, Nat.add_zero, Nat.mul_one, Nat.mul_zero, Nat.cast_zero]
  unfold recompose16
  generalize (B : Int) ^ n = W
  obtain ⟨c0, c1, c2, c3, c4, c5, c6, c7, c8, c9, c10, c11, c12, c13, c14, hcs⟩ := list_len15 cs (by omega)
  subst hcs
  have hW : evalH W 1 (toZ as) * evalH W 1 (toZ bs) = c0 + W * (c1 + W * c2) + W ^ 3 * (c3 + W * c4)
      + W ^ 5 * (c5 + W * c6) + W ^ 7 * (c7 + W * c8) + W ^ 9 * (c9 + W * c10) + W ^ 11 * (c11 + W * c12)
      + W ^ 13 * (c13 + W * c14) + W ^ 15 * 0 := by
    rw [← he]; simp only [evalH, List.length_cons, List.length_nil]; ring
  have hb1 : EvalSpec (if q = 3 then evalDgr3Pm1 bs else evalPm1 bs) (evalH 1 1 (toZ bs)) (evalH (-1) 1 (toZ bs)) := by
    split
    · exact evalDgr3Pm1_spec bs (by omega)
    · exact evalPm1_spec bs
  have h8 : (((as.getD 0 0 * bs.getD 0 0 : Nat)) : Int) = c0 := by
    have := he 0 1
    rw [evalH_zero_one, toZ_head as has, toZ_head bs hbs] at this
    push_cast; exact this.symm
  have hc := interp16_coeffs_h0 (W := W) (c1 := c1) (c2 := c2) (c3 := c3) (c4 := c4) (c5 := c5) (c6 := c6) (c7 := c7) (c8 := c8) (c9 := c9) (c10 := c10) (c11 := c11) (c12 := c12) (c13 := c13) (c14 := c14) h8
    ((point_val _ _ _ _ _ _ (evalPm2rexp_spec as 3 has) (evalPm2rexp_spec bs 3 hbs) W 3 0).trans (by rw [← he, ← he]; exact couple_r7_h0 ..))
    ((point_val _ _ _ _ _ _ (evalPm2rexp_spec as 1 has) (evalPm2rexp_spec bs 1 hbs) W 1 0).trans (by rw [← he, ← he]; exact couple_r6_h0 ..))
    ((point_val _ _ _ _ _ _ (evalPm2rexp_spec as 2 has) (evalPm2rexp_spec bs 2 hbs) W 2 0).trans (by rw [← he, ← he]; exact couple_r5_h0 ..))
    ((point_val _ _ _ _ _ _ (evalPm1_spec as) hb1 W 0 0).trans (by rw [← he, ← he]; exact couple_r4_h0 ..))
    ((point_val _ _ _ _ _ _ (evalPm2_spec as) (evalPm2_spec bs) W 1 2).trans (by rw [← he, ← he]; exact couple_r3_h0 ..))
    ((point_val _ _ _ _ _ _ (evalPm2exp_spec as 2) (evalPm2exp_spec bs 2) W 2 4).trans (by rw [← he, ← he]; exact couple_r2_h0 ..))
    ((point_val _ _ _ _ _ _ (evalPm2exp_spec as 3) (evalPm2exp_spec bs 3) W 3 6).trans (by rw [← he, ← he]; exact couple_r1_h0 ..))
  rw [hc, hW]

/-- … and of degree 15 (half ≠ 0: the point ∞ is used) -/
theorem core_h1 (as bs : List Nat) (n q : Nat) (has : as ≠ []) (hq : bs.length = q + 1)
    (hlen : as.length + bs.length = 17) :
    recompose16 ((B : Int) ^ n) (core (· * ·) as bs n q true).2
      = (evalH ((B : Int) ^ n) 1 (toZ as) * evalH ((B : Int) ^ n) 1 (toZ bs)).toNat := by
  have hbs : bs ≠ [] := by intro h; simp [h] at hq
  obtain ⟨cs, hl, he⟩ := exists_prod (toZ as) (toZ bs) (by simpa [toZ] using has) (by simpa [toZ] using hbs)
  simp only [toZ_length] at hl
  simp only [core, if_true, Nat.reduceAdd, Nat.reduceMul]
  unfold recompose16
  generalize (B : Int) ^ n = W
  obtain ⟨c0, c1, c2, c3, c4, c5, c6, c7, c8, c9, c10, c11, c12, c13, c14, c15, hcs⟩ := list_len16 cs (by omega)
  subst hcs
  have hW : evalH W 1 (toZ as) * evalH W 1 (toZ bs) = c0 + W * (c1 + W * c2) + W ^ 3 * (c3 + W * c4)
      + W ^ 5 * (c5 + W * c6) + W ^ 7 * (c7 + W * c8) + W ^ 9 * (c9 + W * c10) + W ^ 11 * (c11 + W * c12)
      + W ^ 13 * (c13 + W * c14) + W ^ 15 * c15 := by
    rw [← he]; simp only [evalH, List.length_cons, List.length_nil]; ring
  have hb1 : EvalSpec (if q = 3 then evalDgr3Pm1 bs else evalPm1 bs) (evalH 1 1 (toZ bs)) (evalH (-1) 1 (toZ bs)) := by
    split
    · exact evalDgr3Pm1_spec bs (by omega)
    · exact evalPm1_spec bs
  have h8 : (((as.getD 0 0 * bs.getD 0 0 : Nat)) : Int) = c0 := by
    have := he 0 1
    rw [evalH_zero_one, toZ_head as has, toZ_head bs hbs] at this
    push_cast; exact this.symm
  have h0 : (((as.getLastD 0 * bs.getLastD 0 : Nat)) : Int) = c15 := by
    have := he 1 0
    rw [evalH_one_zero, evalH_one_zero, evalH_one_zero, toZ_getLastD, toZ_getLastD] at this
    push_cast; rw [← this]; rfl
  have hc := interp16_coeffs_h1 (W := W) (c1 := c1) (c2 := c2) (c3 := c3) (c4 := c4) (c5 := c5) (c6 := c6) (c7 := c7) (c8 := c8) (c9 := c9) (c10 := c10) (c11 := c11) (c12 := c12) (c13 := c13) (c14 := c14) h8
    ((point_val _ _ _ _ _ _ (evalPm2rexp_spec as 3 has) (evalPm2rexp_spec bs 3 hbs) W 6 3).trans (by rw [← he, ← he]; exact couple_r7_h1 ..))
    ((point_val _ _ _ _ _ _ (evalPm2rexp_spec as 1 has) (evalPm2rexp_spec bs 1 hbs) W 2 1).trans (by rw [← he, ← he]; exact couple_r6_h1 ..))
    ((point_val _ _ _ _ _ _ (evalPm2rexp_spec as 2 has) (evalPm2rexp_spec bs 2 hbs) W 4 2).trans (by rw [← he, ← he]; exact couple_r5_h1 ..))
    ((point_val _ _ _ _ _ _ (evalPm1_spec as) hb1 W 0 0).trans (by rw [← he, ← he]; exact couple_r4_h1 ..))
    ((point_val _ _ _ _ _ _ (evalPm2_spec as) (evalPm2_spec bs) W 1 2).trans (by rw [← he, ← he]; exact couple_r3_h1 ..))
    ((point_val _ _ _ _ _ _ (evalPm2exp_spec as 2) (evalPm2exp_spec bs 2) W 2 4).trans (by rw [← he, ← he]; exact couple_r2_h1 ..))
    ((point_val _ _ _ _ _ _ (evalPm2exp_spec as 3) (evalPm2exp_spec bs 3) W 3 6).trans (by rw [← he, ← he]; exact couple_r1_h1 ..))
    h0
  rw [hc, hW]

end Mpir.Toom8
