/- hgcd_matrix.c / matrix22_mul1_inverse_vector.c at value level: every update of an hgcd matrix is a right
   multiplication by a non-negative unimodular matrix, the size field stays a valid bound of the entries, and
   grows by no more than the C says. -/
import MpirProofs.Lemmas.Hgcd2
import MpirProofs.Lemmas.HgcdStrassen
namespace Mpir.Hgcd
open Mpir Mpir.Gcd
set_option linter.unusedSimpArgs false

/-- the entries as a 2×2 matrix of naturals -/
def HM.toM1 (M : HM) : M1 := ⟨M.e00, M.e01, M.e10, M.e11⟩

/-- every entry fits the size field: the invariant all mpn calls on M->p[i][j] rely on -/
def HM.Fits (M : HM) : Prop := M.e00 < B ^ M.n ∧ M.e01 < B ^ M.n ∧ M.e10 < B ^ M.n ∧ M.e11 < B ^ M.n

def det1 (m : M1) : Prop := m.u00 * m.u11 = m.u01 * m.u10 + 1

theorem det1_mmul {m n : M1} (h1 : det1 m) (h2 : det1 n) : det1 (mmul m n) := by
  unfold det1 mmul at *
  simp only
  zify at h1 h2 ⊢
  linear_combination ((n.u00 : ℤ) * n.u11 - n.u01 * n.u10) * h1 + h2

theorem det1_elem0 (q : Nat) : det1 ⟨1, 0, q, 1⟩ := by simp [det1]
theorem det1_elem1 (q : Nat) : det1 ⟨1, q, 0, 1⟩ := by simp [det1]

/-! ### sizes -/

theorem lt_pow_nlimbs (x : Nat) : x < B ^ nlimbs x := by
  rcases Nat.eq_zero_or_pos x with h | h
  · subst h; exact pow_pos B_pos _
  · exact (nlimbs_bounds x h).1

theorem lt_pow_of_nlimbs_le {x k : Nat} (h : nlimbs x ≤ k) : x < B ^ k :=
  lt_of_lt_of_le (lt_pow_nlimbs x) (Nat.pow_le_pow_right B_pos h)

theorem nlimbs_le_of_lt {x k : Nat} (h : x < B ^ k) : nlimbs x ≤ k := by
  rcases Nat.eq_zero_or_pos x with h0 | h0
  · subst h0; rw [nlimbs_zero]; exact Nat.zero_le _
  · exact (nlimbs_le_iff x k (by omega)).mpr h

theorem pow_le_of_nlimbs {x : Nat} (h : 0 < x) : B ^ (nlimbs x - 1) ≤ x := (nlimbs_bounds x h).2

theorem div_pow_ne_zero {x n : Nat} : x / B ^ n ≠ 0 ↔ B ^ n ≤ x := by
  rw [Ne, Nat.div_eq_zero_iff_lt (pow_pos B_pos n)]; omega

/-- the C's "top limbs of both are zero → n - 1" normalisation keeps the bound -/
theorem top_or_zero {x y n : Nat} (hn : 1 ≤ n) (hx : x < B ^ n) (hy : y < B ^ n)
    (h : limbAt x (n - 1) ||| limbAt y (n - 1) = 0) : x < B ^ (n - 1) ∧ y < B ^ (n - 1) := by
  rw [Nat.or_eq_zero_iff] at h
  exact ⟨(limbAt_top_zero x n hn hx).mp h.1, (limbAt_top_zero y n hn hy).mp h.2⟩

theorem top_or_nonzero {x y n : Nat} (hn : 1 ≤ n) (hx : x < B ^ n) (hy : y < B ^ n)
    (h : ¬ limbAt x (n - 1) ||| limbAt y (n - 1) = 0) : B ^ (n - 1) ≤ x ∨ B ^ (n - 1) ≤ y := by
  by_contra hc
  apply h
  rw [Nat.or_eq_zero_iff]
  exact ⟨(limbAt_top_zero x n hn hx).mpr (by omega), (limbAt_top_zero y n hn hy).mpr (by omega)⟩

/-! ### mpn_hgcd_matrix_init -/

theorem matInit_spec (n : Nat) :
    (matInit n).toM1 = ⟨1, 0, 0, 1⟩ ∧ (matInit n).n = 1 ∧ (matInit n).alloc = (n + 1) / 2 + 1 ∧ (matInit n).Fits ∧
    det1 (matInit n).toM1 := by
  have hB : 1 < B := by rw [B_eq]; norm_num
  refine ⟨rfl, rfl, rfl, ?_, by simp [det1, matInit, HM.toM1]⟩
  simp only [HM.Fits, matInit, pow_one]
  exact ⟨hB, B_pos, B_pos, hB⟩

/-! ### mpn_hgcd_matrix_update_q -/

/-- the elementary matrix recorded by the hook: d = 1 ("a multiple of B was subtracted from A") is (1 q; 0 1) -/
def elemQ (q col : Nat) : M1 := if col = 0 then ⟨1, 0, q, 1⟩ else ⟨1, q, 0, 1⟩

theorem det1_elemQ (q col : Nat) : det1 (elemQ q col) := by
  unfold elemQ; split <;> simp [det1]

theorem setCol_toM1_0 (M : HM) (x0 x1 n : Nat) : (M.setCol 0 x0 x1 n).toM1 = ⟨x0, M.e01, x1, M.e11⟩ := rfl
theorem setCol_toM1_1 (M : HM) (x0 x1 n : Nat) : (M.setCol 1 x0 x1 n).toM1 = ⟨M.e00, x0, M.e10, x1⟩ := rfl

/-- mpn_hgcd_matrix_update_q: M := M·E with E = (1 0; q 1) (col 0) or (1 q; 0 1) (col 1); the new size field
    bounds all entries and is at most M->n + qn + 1 (qn = 1: at most M->n + 1); alloc unchanged. -/
theorem updateQ_spec (M : HM) (q col : Nat) (hq : 0 < q) (hcol : col ≤ 1) (hf : M.Fits) (hn : 1 ≤ M.n) :
    (updateQ M q col).toM1 = mmul M.toM1 (elemQ q col) ∧ (updateQ M q col).Fits ∧
    (updateQ M q col).alloc = M.alloc ∧ (updateQ M q col).n ≤ M.n + nlimbs q + 1 ∧
    (nlimbs q = 1 → M.n ≤ (updateQ M q col).n ∧ (updateQ M q col).n ≤ M.n + 1) := by
  obtain ⟨f00, f01, f10, f11⟩ := hf
  have hqn : 1 ≤ nlimbs q := nlimbs_pos hq
  have hqB : q < B ^ nlimbs q := lt_pow_nlimbs q
  have hBn : 0 < B ^ M.n := pow_pos B_pos _
  rcases (by omega : col = 0 ∨ col = 1) with rfl | rfl
  · -- column 0 += q · column 1
    unfold updateQ
    simp only [HM.col, Nat.sub_zero, ↓reduceIte, one_ne_zero]
    by_cases h1 : nlimbs q = 1
    · simp only [h1, ↓reduceIte]
      refine ⟨?_, ?_, rfl, ?_, fun _ => ?_⟩
      · simp only [HM.setCol, ↓reduceIte, HM.toM1, mmul, elemQ, Nat.mul_one, Nat.mul_zero, Nat.add_zero, Nat.zero_add]
        simp only [Nat.mul_comm q]
      · have hq1 : q < B := by rw [h1, pow_one] at hqB; exact hqB
        have b0 : M.e00 + q * M.e01 < B ^ (M.n + 1) := by
          rw [pow_succ]
          have : q * M.e01 ≤ (B - 1) * (B ^ M.n - 1) := Nat.mul_le_mul (by omega) (by omega)
          have e : (B - 1) * (B ^ M.n - 1) + B ^ M.n ≤ B ^ M.n * B := by
            have h1 : 1 ≤ B := B_pos
            obtain ⟨b, hb⟩ : ∃ b, B = b + 1 := ⟨B - 1, by omega⟩
            obtain ⟨k, hk⟩ : ∃ k, B ^ M.n = k + 1 := ⟨B ^ M.n - 1, by omega⟩
            rw [hb] at *; rw [hk] at *
            simp only [Nat.add_sub_cancel]
            nlinarith
          omega
        have b1 : M.e10 + q * M.e11 < B ^ (M.n + 1) := by
          rw [pow_succ]
          have : q * M.e11 ≤ (B - 1) * (B ^ M.n - 1) := Nat.mul_le_mul (by omega) (by omega)
          have e : (B - 1) * (B ^ M.n - 1) + B ^ M.n ≤ B ^ M.n * B := by
            obtain ⟨b, hb⟩ : ∃ b, B = b + 1 := ⟨B - 1, by have := B_pos; omega⟩
            obtain ⟨k, hk⟩ : ∃ k, B ^ M.n = k + 1 := ⟨B ^ M.n - 1, by omega⟩
            rw [hb] at *; rw [hk] at *
            simp only [Nat.add_sub_cancel]
            nlinarith
          omega
        have hle : B ^ M.n ≤ B ^ (M.n + 1) := Nat.pow_le_pow_right B_pos (by omega)
        simp only [HM.Fits, HM.setCol, ↓reduceIte]
        split
        · exact ⟨b0, by omega, b1, by omega⟩
        · rename_i hc
          rw [not_or, not_not, not_not, Nat.div_eq_zero_iff_lt hBn, Nat.div_eq_zero_iff_lt hBn] at hc
          exact ⟨hc.1, f01, hc.2, f11⟩
      · simp only [HM.setCol, ↓reduceIte]; split <;> omega
      · simp only [HM.setCol, ↓reduceIte]; split <;> omega
    · simp only [h1, ↓reduceIte]
      have hq2 : 2 ≤ nlimbs q := by omega
      set n0 := max (max (nlimbs M.e01) (nlimbs M.e11)) (M.n - nlimbs q) with hn0
      have o0 : M.e01 < B ^ n0 := lt_pow_of_nlimbs_le (by omega)
      have o1 : M.e11 < B ^ n0 := lt_pow_of_nlimbs_le (by omega)
      have hn0le : n0 ≤ M.n := by
        have a := nlimbs_le_of_lt f01
        have b := nlimbs_le_of_lt f11
        omega
      have hcover : M.n ≤ n0 + nlimbs q := by omega
      have hP : B ^ (n0 + nlimbs q) = B ^ n0 * B ^ nlimbs q := pow_add _ _ _
      have hPp : 0 < B ^ (n0 + nlimbs q) := pow_pos B_pos _
      have hMle : B ^ M.n ≤ B ^ (n0 + nlimbs q) := Nat.pow_le_pow_right B_pos hcover
      have p0 : M.e01 * q < B ^ (n0 + nlimbs q) := by rw [hP]; exact Nat.mul_lt_mul'' o0 hqB
      have p1 : M.e11 * q < B ^ (n0 + nlimbs q) := by rw [hP]; exact Nat.mul_lt_mul'' o1 hqB
      have hB2 : 2 ≤ B := by rw [B_eq]; norm_num
      have hS : 2 * B ^ (n0 + nlimbs q) ≤ B ^ (n0 + nlimbs q + 1) := by
        rw [pow_succ, Nat.mul_comm]; exact Nat.mul_le_mul_left _ hB2
      have hle2 : B ^ n0 ≤ B ^ (n0 + nlimbs q - 1) := Nat.pow_le_pow_right B_pos (by omega)
      have hle3 : B ^ (n0 + nlimbs q - 1) ≤ B ^ (n0 + nlimbs q) := Nat.pow_le_pow_right B_pos (by omega)
      refine ⟨?_, ?_, ?_, ?_, fun h => h.elim⟩
      · simp only [HM.setCol, ↓reduceIte, HM.toM1, mmul, elemQ, Nat.mul_one, Nat.mul_zero, Nat.add_zero, Nat.zero_add]
      · simp only [HM.Fits, HM.setCol, ↓reduceIte]
        split
        · exact ⟨by omega, by omega, by omega, by omega⟩
        · rename_i hc
          rw [not_or, not_not, not_not, Nat.div_eq_zero_iff_lt hPp, Nat.div_eq_zero_iff_lt hPp] at hc
          split
          · rename_i hz
            obtain ⟨z0, z1⟩ := top_or_zero (by omega) hc.1 hc.2 hz
            exact ⟨z0, by omega, z1, by omega⟩
          · exact ⟨hc.1, by omega, hc.2, by omega⟩
      · simp only [HM.setCol, ↓reduceIte]
      · simp only [HM.setCol, ↓reduceIte]
        split
        · omega
        · split <;> omega
  · -- column 1 += q · column 0
    unfold updateQ
    simp only [HM.col, Nat.sub_self, ↓reduceIte, one_ne_zero]
    by_cases h1 : nlimbs q = 1
    · simp only [h1, ↓reduceIte]
      refine ⟨?_, ?_, rfl, ?_, fun _ => ?_⟩
      · simp only [HM.setCol, ↓reduceIte, one_ne_zero, HM.toM1, mmul, elemQ, Nat.mul_one, Nat.mul_zero, Nat.add_zero,
          Nat.zero_add]
        simp only [Nat.mul_comm q, Nat.add_comm]
      · have hq1 : q < B := by rw [h1, pow_one] at hqB; exact hqB
        have b0 : M.e01 + q * M.e00 < B ^ (M.n + 1) := by
          rw [pow_succ]
          have : q * M.e00 ≤ (B - 1) * (B ^ M.n - 1) := Nat.mul_le_mul (by omega) (by omega)
          have e : (B - 1) * (B ^ M.n - 1) + B ^ M.n ≤ B ^ M.n * B := by
            obtain ⟨b, hb⟩ : ∃ b, B = b + 1 := ⟨B - 1, by have := B_pos; omega⟩
            obtain ⟨k, hk⟩ : ∃ k, B ^ M.n = k + 1 := ⟨B ^ M.n - 1, by omega⟩
            rw [hb] at *; rw [hk] at *
            simp only [Nat.add_sub_cancel]
            nlinarith
          omega
        have b1 : M.e11 + q * M.e10 < B ^ (M.n + 1) := by
          rw [pow_succ]
          have : q * M.e10 ≤ (B - 1) * (B ^ M.n - 1) := Nat.mul_le_mul (by omega) (by omega)
          have e : (B - 1) * (B ^ M.n - 1) + B ^ M.n ≤ B ^ M.n * B := by
            obtain ⟨b, hb⟩ : ∃ b, B = b + 1 := ⟨B - 1, by have := B_pos; omega⟩
            obtain ⟨k, hk⟩ : ∃ k, B ^ M.n = k + 1 := ⟨B ^ M.n - 1, by omega⟩
            rw [hb] at *; rw [hk] at *
            simp only [Nat.add_sub_cancel]
            nlinarith
          omega
        have hle : B ^ M.n ≤ B ^ (M.n + 1) := Nat.pow_le_pow_right B_pos (by omega)
        simp only [HM.Fits, HM.setCol, ↓reduceIte, one_ne_zero]
        split
        · exact ⟨by omega, b0, by omega, b1⟩
        · rename_i hc
          rw [not_or, not_not, not_not, Nat.div_eq_zero_iff_lt hBn, Nat.div_eq_zero_iff_lt hBn] at hc
          exact ⟨f00, hc.1, f10, hc.2⟩
      · simp only [HM.setCol, ↓reduceIte, one_ne_zero]; split <;> omega
      · simp only [HM.setCol, ↓reduceIte, one_ne_zero]; split <;> omega
    · simp only [h1, ↓reduceIte]
      have hq2 : 2 ≤ nlimbs q := by omega
      set n0 := max (max (nlimbs M.e00) (nlimbs M.e10)) (M.n - nlimbs q) with hn0
      have o0 : M.e00 < B ^ n0 := lt_pow_of_nlimbs_le (by omega)
      have o1 : M.e10 < B ^ n0 := lt_pow_of_nlimbs_le (by omega)
      have hn0le : n0 ≤ M.n := by
        have a := nlimbs_le_of_lt f00
        have b := nlimbs_le_of_lt f10
        omega
      have hcover : M.n ≤ n0 + nlimbs q := by omega
      have hP : B ^ (n0 + nlimbs q) = B ^ n0 * B ^ nlimbs q := pow_add _ _ _
      have hPp : 0 < B ^ (n0 + nlimbs q) := pow_pos B_pos _
      have hMle : B ^ M.n ≤ B ^ (n0 + nlimbs q) := Nat.pow_le_pow_right B_pos hcover
      have p0 : M.e00 * q < B ^ (n0 + nlimbs q) := by rw [hP]; exact Nat.mul_lt_mul'' o0 hqB
      have p1 : M.e10 * q < B ^ (n0 + nlimbs q) := by rw [hP]; exact Nat.mul_lt_mul'' o1 hqB
      have hB2 : 2 ≤ B := by rw [B_eq]; norm_num
      have hS : 2 * B ^ (n0 + nlimbs q) ≤ B ^ (n0 + nlimbs q + 1) := by
        rw [pow_succ, Nat.mul_comm]; exact Nat.mul_le_mul_left _ hB2
      have hle2 : B ^ n0 ≤ B ^ (n0 + nlimbs q - 1) := Nat.pow_le_pow_right B_pos (by omega)
      have hle3 : B ^ (n0 + nlimbs q - 1) ≤ B ^ (n0 + nlimbs q) := Nat.pow_le_pow_right B_pos (by omega)
      refine ⟨?_, ?_, ?_, ?_, fun h => h.elim⟩
      · simp only [HM.setCol, ↓reduceIte, one_ne_zero, HM.toM1, mmul, elemQ, Nat.mul_one, Nat.mul_zero, Nat.add_zero,
          Nat.zero_add]
        simp only [Nat.add_comm]
      · simp only [HM.Fits, HM.setCol, ↓reduceIte, one_ne_zero]
        split
        · exact ⟨by omega, by omega, by omega, by omega⟩
        · rename_i hc
          rw [not_or, not_not, not_not, Nat.div_eq_zero_iff_lt hPp, Nat.div_eq_zero_iff_lt hPp] at hc
          split
          · rename_i hz
            obtain ⟨z0, z1⟩ := top_or_zero (by omega) hc.1 hc.2 hz
            exact ⟨by omega, z0, by omega, z1⟩
          · exact ⟨by omega, hc.1, by omega, hc.2⟩
      · simp only [HM.setCol, ↓reduceIte, one_ne_zero]
      · simp only [HM.setCol, ↓reduceIte, one_ne_zero]
        split
        · omega
        · split <;> omega

end Mpir.Hgcd
