/-
  Lemmas for C02 part c02_sbq (mpn_sb_div_q): the error term `terrM` of the loop invariant is what the triangularization
  loop subtracts (`triSum`), and its size.
-/
import MpirProofs.Lemmas.SbDivQFix2
namespace Mpir.SbDivQ
open Mpir Mpir.DivWord Mpir.SbDiv

theorem val_take_succ (q : List Nat) (i : Nat) : val (q.take (i + 1)) = val (q.take i) + B ^ i * q.getD i 0 := by
  by_cases h : i < q.length
  · have h1 := val_take_top (q.take (i + 1)) i (by rw [List.length_take]; omega)
    have e1 : (q.take (i + 1)).take i = q.take i := by rw [List.take_take]; congr 1; omega
    have e2 : (q.take (i + 1)).getD i 0 = q.getD i 0 := by simp [List.getD_eq_getElem?_getD]
    rw [e1, e2] at h1
    exact h1.symm
  · have e1 : q.take (i + 1) = q := List.take_of_length_le (by omega)
    have e2 : q.take i = q := List.take_of_length_le (by omega)
    have e3 : q.getD i 0 = 0 := by
      rw [List.getD_eq_getElem?_getD, List.getElem?_eq_none (by omega)]; rfl
    rw [e1, e2, e3]; simp

/-- peel the lowest divisor limb off `triSum` -/
theorem triSum_cons (q dp' : List Nat) (c j : Nat) : ∀ cnt, cnt ≤ j + 1 →
    triSum q (c :: dp') (j + 1) cnt = c * val (q.take cnt) + B * triSum q dp' j cnt
  | 0, _ => by simp [triSum]
  | i + 1, h => by
    have ih := triSum_cons q dp' c j i (by omega)
    have e : (c :: dp').take (j + 1 - i) = c :: dp'.take (j - i) := by
      rw [show j + 1 - i = (j - i) + 1 by omega]; rfl
    rw [triSum, ih, triSum, e, val_cons, val_take_succ]
    ring

theorem triSum_last (q dp' : List Nat) (j : Nat) : triSum q dp' j (j + 1) = triSum q dp' j j := by
  rw [triSum, Nat.sub_self]; simp

theorem triSum_congr (q q' dp : List Nat) (k : Nat) : ∀ cnt, (∀ i, i < cnt → q.getD i 0 = q'.getD i 0) →
    triSum q dp k cnt = triSum q' dp k cnt
  | 0, _ => rfl
  | i + 1, h => by
    rw [triSum, triSum, h i (by omega), triSum_congr q q' dp k i (fun t ht => h t (by omega))]

/-- `terrM` of the loop invariant = the sum the triangularization loop subtracts -/
theorem terrM_eq_triSum : ∀ (j : Nat) (ql dp : List Nat), ql.length = j + 1 → dp.length = j + 2 →
    terrM ql.reverse dp = triSum ql dp j j
  | 0, ql, dp, hq, _ => by
    match ql, hq with
    | [q0], _ => simp [terrM, triSum]
  | j + 1, ql, dp, hq, hd => by
    match dp, hd with
    | c :: dp', hd' =>
      have hsplit := split_top1 ql (j + 1) hq
      have hl' : (ql.take (j + 1)).length = j + 1 := by rw [List.length_take, hq]; omega
      have ih := terrM_eq_triSum j (ql.take (j + 1)) dp' hl' (by simpa using hd')
      have e1 : terrM ql.reverse (c :: dp') = B * terrM (ql.take (j + 1)).reverse dp' + c * val (ql.take (j + 1)) := by
        conv_lhs => rw [hsplit]
        rw [List.reverse_append, List.reverse_cons, List.reverse_nil, List.nil_append, List.singleton_append]
        simp only [terrM, List.drop_succ_cons, List.drop_zero, List.headD_cons, List.reverse_reverse]
      rw [e1, ih, triSum_cons ql dp' c j (j + 1) (by omega), triSum_last]
      have e2 : triSum (ql.take (j + 1)) dp' j j = triSum ql dp' j j := by
        apply triSum_congr
        intro i hi
        rw [List.getD_eq_getElem?_getD, List.getD_eq_getElem?_getD, List.getElem?_take, if_pos (by omega)]
      rw [e2]; ring

/-- size of the error term: less than cnt·B^(k+1) -/
theorem triSum_le (q dp : List Nat) (k : Nat) (hq : Limbs q) (hdp : Limbs dp) : ∀ cnt, cnt ≤ k →
    triSum q dp k cnt ≤ cnt * B ^ (k + 1)
  | 0, _ => by simp [triSum]
  | i + 1, h => by
    have ih := triSum_le q dp k hq hdp i (by omega)
    have hv : q.getD i 0 < B := limb_getD hq i
    have hu := val_lt _ (Limbs_take hdp (k - i))
    have hul : (dp.take (k - i)).length ≤ k - i := by rw [List.length_take]; omega
    have hpow : B ^ (dp.take (k - i)).length ≤ B ^ (k - i) := Nat.pow_le_pow_right B_pos hul
    have hp : B ^ (k + 1) = B * (B ^ i * B ^ (k - i)) := by
      rw [← pow_add, show i + (k - i) = k by omega, pow_succ]; ring
    rw [triSum, hp, Nat.add_mul, Nat.one_mul]
    have h1 : B ^ i * val (dp.take (k - i)) ≤ B ^ i * B ^ (k - i) := Nat.mul_le_mul_left _ (by omega)
    have h2 : q.getD i 0 * (B ^ i * val (dp.take (k - i))) ≤ B * (B ^ i * B ^ (k - i)) := Nat.mul_le_mul hv.le h1
    rw [hp] at ih
    omega

end Mpir.SbDivQ
