/- Helper lemmas for the mpz division wrapper models (Mpir/Model/DivZ.lean). -/
import MpirProofs.Lemmas.Base
import Mpir.Model.DivZ
import Mathlib.Tactic.Ring
import Mathlib.Tactic.Linarith
import Mathlib.Tactic.SplitIfs
namespace Mpir.DivZ
open Mpir

/-! ### sizes -/

theorem B_pow (k : Nat) : B ^ k = 2 ^ (64 * k) := by
  unfold B; rw [← Nat.pow_mul]

theorem sizeNat_le_iff (v k : Nat) : sizeNat v ≤ k ↔ v < B ^ k := by
  unfold sizeNat
  by_cases h : v = 0
  · subst h; simp [B_pow]
  · simp only [h, if_false]
    rw [B_pow, ← Nat.log2_lt h]
    omega

theorem lt_B_pow_sizeNat (v : Nat) : v < B ^ sizeNat v := (sizeNat_le_iff v _).mp (Nat.le_refl _)

theorem sizeNat_eq_zero {v : Nat} : sizeNat v = 0 ↔ v = 0 := by
  unfold sizeNat; by_cases h : v = 0 <;> simp [h]

theorem lt_of_sizeNat_lt {a b : Nat} (h : sizeNat a < sizeNat b) : a < b := by
  have ha := lt_B_pow_sizeNat a
  have hb : ¬ b < B ^ sizeNat a := fun hb => by
    have := (sizeNat_le_iff b (sizeNat a)).mpr hb; omega
  omega

theorem siz_natAbs (v : Int) : (siz v).natAbs = sizeNat v.natAbs := by
  unfold siz; split <;> simp

theorem siz_eq_zero {v : Int} : siz v = 0 ↔ v = 0 := by
  have := @sizeNat_eq_zero v.natAbs
  unfold siz; split <;> omega

theorem siz_neg_iff {v : Int} : siz v < 0 ↔ v < 0 := by
  have := @sizeNat_eq_zero v.natAbs
  unfold siz; split <;> omega

theorem siz_nonneg_iff {v : Int} : 0 ≤ siz v ↔ 0 ≤ v := by
  have := @siz_neg_iff v; omega

theorem sameSign_siz (x y : Int) : sameSign (siz x) (siz y) ↔ (x < 0 ↔ y < 0) := by
  unfold sameSign; rw [siz_neg_iff, siz_neg_iff]

theorem Store.set_apply (s : Store) (i : Nat) (v : Int) (j : Nat) :
    (s.set i v) j = if j = i then v else s j := rfl

/-! ### truncating division by sign and magnitude -/

theorem tdiv_sign_mag (x y : Int) :
    Int.tdiv x y = if (x < 0 ↔ y < 0) then ((x.natAbs / y.natAbs : Nat) : Int) else -((x.natAbs / y.natAbs : Nat) : Int) := by
  obtain ⟨a, rfl | rfl⟩ := Int.eq_nat_or_neg x <;> obtain ⟨b, rfl | rfl⟩ := Int.eq_nat_or_neg y
  · have hc : (((a : Int) < 0) ↔ ((b : Int) < 0)) := by omega
    rw [if_pos hc, ← Int.ofNat_tdiv]; simp
  · by_cases hb : b = 0
    · subst hb; simp
    · have hc : ¬ (((a : Int) < 0) ↔ (-(b : Int) < 0)) := by omega
      rw [if_neg hc, Int.tdiv_neg, ← Int.ofNat_tdiv]; simp
  · by_cases ha : a = 0
    · subst ha; simp
    · have hc : ¬ ((-(a : Int) < 0) ↔ ((b : Int) < 0)) := by omega
      rw [if_neg hc, Int.neg_tdiv, ← Int.ofNat_tdiv]; simp
  · by_cases ha : a = 0
    · subst ha; simp
    · by_cases hb : b = 0
      · subst hb; simp
      · have hc : ((-(a : Int) < 0) ↔ (-(b : Int) < 0)) := by omega
        rw [if_pos hc, Int.neg_tdiv, Int.tdiv_neg, ← Int.ofNat_tdiv]; simp

theorem tmod_sign_mag (x y : Int) :
    Int.tmod x y = if 0 ≤ x then ((x.natAbs % y.natAbs : Nat) : Int) else -((x.natAbs % y.natAbs : Nat) : Int) := by
  obtain ⟨a, rfl | rfl⟩ := Int.eq_nat_or_neg x <;> obtain ⟨b, rfl | rfl⟩ := Int.eq_nat_or_neg y
  · have hc : (0 : Int) ≤ (a : Int) := by omega
    rw [if_pos hc, ← Int.ofNat_tmod]; simp
  · have hc : (0 : Int) ≤ (a : Int) := by omega
    rw [if_pos hc, Int.tmod_neg, ← Int.ofNat_tmod]; simp
  · by_cases ha : a = 0
    · subst ha; simp
    · have hc : ¬ ((0 : Int) ≤ -(a : Int)) := by omega
      rw [if_neg hc, Int.neg_tmod, ← Int.ofNat_tmod]; simp
  · by_cases ha : a = 0
    · subst ha; simp
    · have hc : ¬ ((0 : Int) ≤ -(a : Int)) := by omega
      rw [if_neg hc, Int.neg_tmod, Int.tmod_neg, ← Int.ofNat_tmod]; simp

theorem tdiv_tmod_of_natAbs_lt {x y : Int} (h : x.natAbs < y.natAbs) : Int.tdiv x y = 0 ∧ Int.tmod x y = x := by
  have h0 : Int.tdiv x y = 0 := by
    rw [tdiv_sign_mag, Nat.div_eq_of_lt h]; simp
  refine ⟨h0, ?_⟩
  rw [Int.tmod_def, h0]; simp

/-! ### floor and ceiling from truncation -/

theorem fdiv_from_tdiv {x y : Int} (hy : y ≠ 0) :
    Int.fdiv x y = if ¬ (x < 0 ↔ y < 0) ∧ Int.tmod x y ≠ 0 then Int.tdiv x y - 1 else Int.tdiv x y := by
  rw [Int.fdiv_eq_tdiv]
  by_cases hdv : y ∣ x
  · have h0 : Int.tmod x y = 0 := Int.dvd_iff_tmod_eq_zero.mp hdv
    simp [hdv, h0]
  · have h0 : Int.tmod x y ≠ 0 := fun h => hdv (Int.dvd_iff_tmod_eq_zero.mpr h)
    have hx : x ≠ 0 := fun h => hdv (h ▸ Int.dvd_zero y)
    simp only [hdv, if_false, h0, ne_eq, not_false_eq_true, and_true]
    rcases Int.lt_or_gt_of_ne hy with hneg | hpos
    · have : y.sign = -1 := Int.sign_eq_neg_one_of_neg hneg
      rw [this]; split_ifs <;> omega
    · have : y.sign = 1 := Int.sign_eq_one_of_pos hpos
      rw [this]; split_ifs <;> omega

theorem fmod_from_tmod {x y : Int} (hy : y ≠ 0) :
    Int.fmod x y = if ¬ (x < 0 ↔ y < 0) ∧ Int.tmod x y ≠ 0 then Int.tmod x y + y else Int.tmod x y := by
  rw [Int.fmod_def, fdiv_from_tdiv hy]
  by_cases h : ¬ (x < 0 ↔ y < 0) ∧ Int.tmod x y ≠ 0
  · rw [if_pos h, if_pos h, Int.tmod_def]; ring
  · rw [if_neg h, if_neg h, Int.tmod_def]

theorem cdivQ_from_tdiv {x y : Int} (hy : y ≠ 0) :
    cdivQ x y = if (x < 0 ↔ y < 0) ∧ Int.tmod x y ≠ 0 then Int.tdiv x y + 1 else Int.tdiv x y := by
  unfold cdivQ
  rw [fdiv_from_tdiv hy, Int.neg_tdiv, Int.neg_tmod]
  by_cases h0 : Int.tmod x y = 0
  · simp [h0]
  · have hx : x ≠ 0 := fun h => h0 (by rw [h]; simp)
    have e : (¬ (-x < 0 ↔ y < 0)) ↔ (x < 0 ↔ y < 0) := by omega
    by_cases h : (x < 0 ↔ y < 0)
    · have h1 : ¬ (-x < 0 ↔ y < 0) ∧ -Int.tmod x y ≠ 0 := ⟨e.mpr h, by omega⟩
      rw [if_pos h1, if_pos ⟨h, h0⟩]; ring
    · have h1 : ¬ (¬ (-x < 0 ↔ y < 0) ∧ -Int.tmod x y ≠ 0) := fun hh => h (e.mp hh.1)
      have h2 : ¬ ((x < 0 ↔ y < 0) ∧ Int.tmod x y ≠ 0) := fun hh => h hh.1
      rw [if_neg h1, if_neg h2]; ring

theorem cdivR_from_tmod {x y : Int} (hy : y ≠ 0) :
    cdivR x y = if (x < 0 ↔ y < 0) ∧ Int.tmod x y ≠ 0 then Int.tmod x y - y else Int.tmod x y := by
  unfold cdivR
  rw [cdivQ_from_tdiv hy]
  by_cases h : (x < 0 ↔ y < 0) ∧ Int.tmod x y ≠ 0
  · rw [if_pos h, if_pos h, Int.tmod_def]; ring
  · rw [if_neg h, if_neg h, Int.tmod_def]; ring

/-! ### the wrappers -/

theorem siz_natAbs_ne_zero {v : Int} (h : v ≠ 0) : (siz v).natAbs ≠ 0 := by
  rw [siz_natAbs]; intro h'; exact h (by have := sizeNat_eq_zero.mp h'; omega)

theorem tmod_lt_zero_iff {x y : Int} (h : Int.tmod x y ≠ 0) : Int.tmod x y < 0 ↔ x < 0 := by
  rw [tmod_sign_mag] at h ⊢
  split_ifs at h ⊢ <;> omega

theorem tdiv_qr_eq (s : Store) (q r n d : Nat) (hqr : q ≠ r) (hd : s d ≠ 0) :
    tdiv_qr s q r n d = .ok (fun j => if j = r then Int.tmod (s n) (s d) else if j = q then Int.tdiv (s n) (s d) else s j) := by
  have hdl : (siz (s d)).natAbs ≠ 0 := by
    rw [siz_natAbs]; intro h; exact hd (by have := sizeNat_eq_zero.mp h; omega)
  unfold tdiv_qr mpn_tdiv_qr
  simp only [hdl, if_false]
  split
  · rename_i h
    have hlt : (s n).natAbs < (s d).natAbs := lt_of_sizeNat_lt (by rw [siz_natAbs, siz_natAbs] at h; omega)
    obtain ⟨h0, h1⟩ := tdiv_tmod_of_natAbs_lt hlt
    congr 1; funext j
    simp only [Store.set_apply, h0, h1]
    by_cases hnr : n = r
    · subst hnr; simp only [ne_eq, not_true_eq_false, if_false]; split_ifs <;> simp_all
    · simp only [ne_eq, hnr, not_false_eq_true, if_true, Store.set_apply]; split_ifs <;> simp_all
  · congr 1; funext j
    simp only [Store.set_apply, tdiv_sign_mag (s n) (s d), tmod_sign_mag (s n) (s d), sameSign_siz, ge_iff_le, siz_nonneg_iff]

theorem tdiv_q_eq (s : Store) (q n d : Nat) (hd : s d ≠ 0) :
    tdiv_q s q n d = .ok (s.set q (Int.tdiv (s n) (s d))) := by
  have hdl := siz_natAbs_ne_zero hd
  unfold tdiv_q mpn_tdiv_q
  simp only [hdl, if_false]
  split
  · rename_i h
    have hlt : (s n).natAbs < (s d).natAbs := lt_of_sizeNat_lt (by rw [siz_natAbs, siz_natAbs] at h; omega)
    rw [(tdiv_tmod_of_natAbs_lt hlt).1]
  · simp only [tdiv_sign_mag (s n) (s d), sameSign_siz]

theorem tdiv_r_eq (s : Store) (r n d : Nat) (hd : s d ≠ 0) :
    tdiv_r s r n d = .ok (s.set r (Int.tmod (s n) (s d))) := by
  have hdl := siz_natAbs_ne_zero hd
  unfold tdiv_r mpn_tdiv_qr
  simp only [hdl, if_false]
  split
  · rename_i h
    have hlt : (s n).natAbs < (s d).natAbs := lt_of_sizeNat_lt (by rw [siz_natAbs, siz_natAbs] at h; omega)
    rw [(tdiv_tmod_of_natAbs_lt hlt).2]
    congr 1; funext j
    by_cases hnr : n = r
    · subst hnr; simp only [ne_eq, not_true_eq_false, if_false, Store.set_apply]; split_ifs <;> simp_all
    · simp only [ne_eq, hnr, not_false_eq_true, if_true]
  · simp only [tmod_sign_mag (s n) (s d), ge_iff_le, siz_nonneg_iff]

theorem fresh_ne (a b c d : Nat) : fresh a b c d ≠ a ∧ fresh a b c d ≠ b ∧ fresh a b c d ≠ c ∧ fresh a b c d ≠ d := by
  unfold fresh; omega

theorem cfdiv_qr_eq (ceil : Bool) (s : Store) (q r n d : Nat) (hqr : q ≠ r) (hd : s d ≠ 0) :
    cfdiv_qr ceil s q r n d = .ok (fun j =>
      if j = r then (if ceil then cdivR (s n) (s d) else Int.fmod (s n) (s d))
      else if j = q then (if ceil then cdivQ (s n) (s d) else Int.fdiv (s n) (s d)) else s j) := by
  obtain ⟨htq, htr, htn, htd⟩ := fresh_ne q r n d
  unfold cfdiv_qr
  generalize fresh q r n d = t at *
  have hrq : r ≠ q := Ne.symm hqr
  rw [show (fun j => if j = r then (if ceil then cdivR (s n) (s d) else Int.fmod (s n) (s d))
      else if j = q then (if ceil then cdivQ (s n) (s d) else Int.fdiv (s n) (s d)) else s j) =
      (fun j => if j = r then (if ceil then (if (s n < 0 ↔ s d < 0) ∧ Int.tmod (s n) (s d) ≠ 0 then Int.tmod (s n) (s d) - s d else Int.tmod (s n) (s d))
                               else (if ¬ (s n < 0 ↔ s d < 0) ∧ Int.tmod (s n) (s d) ≠ 0 then Int.tmod (s n) (s d) + s d else Int.tmod (s n) (s d)))
      else if j = q then (if ceil then (if (s n < 0 ↔ s d < 0) ∧ Int.tmod (s n) (s d) ≠ 0 then Int.tdiv (s n) (s d) + 1 else Int.tdiv (s n) (s d))
                               else (if ¬ (s n < 0 ↔ s d < 0) ∧ Int.tmod (s n) (s d) ≠ 0 then Int.tdiv (s n) (s d) - 1 else Int.tdiv (s n) (s d))) else s j) from by
    rw [cdivR_from_tmod hd, cdivQ_from_tdiv hd, fmod_from_tmod hd, fdiv_from_tdiv hd]]
  by_cases hc : q = d ∨ r = d
  · simp only [hc, if_true]
    have h0 : (s.set t (s d)) t ≠ 0 := by simp [Store.set_apply, hd]
    rw [tdiv_qr_eq _ q r n t hqr h0]
    simp only [Store.set_apply, if_pos, htn.symm, if_false, hqr, hrq, htq, htr, sameSign_siz, ne_eq, siz_eq_zero]
    congr 1; funext j
    cases ceil <;> simp only [Store.set_apply, Bool.false_eq_true, if_false, if_true] <;> split_ifs <;> simp_all [Store.set_apply]
  · have hqd : q ≠ d := fun h => hc (Or.inl h)
    have hrd : r ≠ d := fun h => hc (Or.inr h)
    simp only [hc, if_false]
    rw [tdiv_qr_eq _ q r n d hqr hd]
    simp only [Store.set_apply, if_pos, htn.symm, if_false, hqr, hrq, htq, htr, hqd.symm, hrd.symm, sameSign_siz, ne_eq, siz_eq_zero]
    congr 1; funext j
    cases ceil <;> simp only [Store.set_apply, Bool.false_eq_true, if_false, if_true] <;> split_ifs <;> simp_all [Store.set_apply]

theorem cfdiv_q_eq (ceil : Bool) (s : Store) (q n d : Nat) (hd : s d ≠ 0) :
    cfdiv_q ceil s q n d = .ok (s.set q (if ceil then cdivQ (s n) (s d) else Int.fdiv (s n) (s d))) := by
  obtain ⟨htq, htn, htd, _⟩ := fresh_ne q n d 0
  unfold cfdiv_q
  generalize fresh q n d 0 = t at *
  dsimp only
  rw [cdivQ_from_tdiv hd, fdiv_from_tdiv hd, tdiv_qr_eq s q t n d (Ne.symm htq) hd]
  simp only [Store.set_apply, if_pos, if_false, htq, Ne.symm htq, sameSign_siz, ne_eq, siz_eq_zero]
  congr 1; funext j
  have e : (s d < 0 ↔ s n < 0) ↔ (s n < 0 ↔ s d < 0) := by omega
  cases ceil <;> simp only [Store.set_apply, Bool.false_eq_true, if_false, if_true, e] <;> split_ifs <;> simp_all [Store.set_apply]

theorem cfdiv_r_eq (ceil : Bool) (s : Store) (r n d : Nat) (hd : s d ≠ 0) :
    cfdiv_r ceil s r n d = .ok (s.set r (if ceil then cdivR (s n) (s d) else Int.fmod (s n) (s d))) := by
  obtain ⟨htr, htn, htd, _⟩ := fresh_ne r n d 0
  unfold cfdiv_r
  generalize fresh r n d 0 = t at *
  rw [cdivR_from_tmod hd, fmod_from_tmod hd]
  by_cases hc : r = d
  · simp only [hc, if_true]
    subst hc
    have h0 : (s.set t (s r)) t ≠ 0 := by simp [Store.set_apply, hd]
    rw [tdiv_r_eq _ r n t h0]
    simp only [Store.set_apply, if_pos, if_false, htn.symm, htr, Ne.symm htr, sameSign_siz, ne_eq, siz_eq_zero]
    congr 1; funext j
    by_cases hnr : n = r
    · subst hnr
      simp only [if_true]
      by_cases hz : Int.tmod (s n) (s n) = 0
      · cases ceil <;> simp_all [Store.set_apply]
      · exact absurd (Int.tmod_self) hz
    · simp only [hnr, if_false]
      have e : (s r < 0 ↔ s n < 0) ↔ (s n < 0 ↔ s r < 0) := by omega
      cases ceil <;> simp only [Store.set_apply, Bool.false_eq_true, if_false, if_true, e] <;> split_ifs <;> simp_all [Store.set_apply]
  · simp only [hc, if_false]
    rw [tdiv_r_eq _ r n d hd]
    simp only [Store.set_apply, if_pos, if_false, Ne.symm hc, sameSign_siz, ne_eq, siz_eq_zero]
    congr 1; funext j
    by_cases hnr : n = r
    · subst hnr
      simp only [if_true]
      by_cases hz : Int.tmod (s n) (s d) = 0
      · cases ceil <;> simp_all [Store.set_apply]
      · have e : (s d < 0 ↔ Int.tmod (s n) (s d) < 0) ↔ (s n < 0 ↔ s d < 0) := by
          rw [tmod_lt_zero_iff hz]; omega
        cases ceil <;> simp only [Store.set_apply, Bool.false_eq_true, if_false, if_true, e] <;> split_ifs <;> simp_all [Store.set_apply]
    · simp only [hnr, if_false]
      have e : (s d < 0 ↔ s n < 0) ↔ (s n < 0 ↔ s d < 0) := by omega
      cases ceil <;> simp only [Store.set_apply, Bool.false_eq_true, if_false, if_true, e] <;> split_ifs <;> simp_all [Store.set_apply]

theorem emod_from_tmod (x y : Int) :
    x % y = if Int.tmod x y ≠ 0 ∧ x < 0 then (if y < 0 then Int.tmod x y - y else Int.tmod x y + y) else Int.tmod x y := by
  rw [Int.emod_eq_tmod]
  by_cases hdv : y ∣ x
  · have h0 : Int.tmod x y = 0 := Int.dvd_iff_tmod_eq_zero.mp hdv
    simp [hdv, h0]
  · have h0 : Int.tmod x y ≠ 0 := fun h => hdv (Int.dvd_iff_tmod_eq_zero.mpr h)
    simp only [hdv, or_false, h0, ne_eq, not_false_eq_true, true_and]
    split_ifs <;> omega

theorem mod_eq (s : Store) (r n d : Nat) (hd : s d ≠ 0) :
    mod s r n d = .ok (s.set r (s n % s d)) := by
  obtain ⟨htr, htn, htd, _⟩ := fresh_ne r n d 0
  unfold mod
  generalize fresh r n d 0 = t at *
  dsimp only
  rw [emod_from_tmod]
  by_cases hc : r = d
  · simp only [hc, if_true]
    subst hc
    have h0 : (s.set t (s r)) t ≠ 0 := by simp [Store.set_apply, hd]
    rw [tdiv_r_eq _ r n t h0]
    simp only [Store.set_apply, if_pos, if_false, htn.symm, htr, Ne.symm htr, ne_eq, siz_eq_zero, siz_neg_iff]
    congr 1; funext j
    by_cases hnr : n = r
    · subst hnr
      have hz : Int.tmod (s n) (s n) = 0 := Int.tmod_self
      simp_all [Store.set_apply]
    · simp only [hnr, if_false]
      split_ifs <;> simp_all [Store.set_apply]
  · simp only [hc, if_false]
    rw [tdiv_r_eq _ r n d hd]
    simp only [Store.set_apply, if_pos, if_false, Ne.symm hc, ne_eq, siz_eq_zero, siz_neg_iff]
    congr 1; funext j
    by_cases hnr : n = r
    · subst hnr
      simp only [if_true]
      by_cases hz : Int.tmod (s n) (s d) = 0
      · simp_all [Store.set_apply]
      · have e := tmod_lt_zero_iff hz
        simp only [e]
        split_ifs <;> simp_all [Store.set_apply]
    · simp only [hnr, if_false]
      split_ifs <;> simp_all [Store.set_apply]

theorem tdiv_qr_div0 (s : Store) (q r n d : Nat) (hd : s d = 0) : tdiv_qr s q r n d = .error "div0" := by
  unfold tdiv_qr; simp [hd, siz, sizeNat]
theorem tdiv_q_div0 (s : Store) (q n d : Nat) (hd : s d = 0) : tdiv_q s q n d = .error "div0" := by
  unfold tdiv_q; simp [hd, siz, sizeNat]
theorem tdiv_r_div0 (s : Store) (r n d : Nat) (hd : s d = 0) : tdiv_r s r n d = .error "div0" := by
  unfold tdiv_r; simp [hd, siz, sizeNat]
theorem cfdiv_qr_div0 (c : Bool) (s : Store) (q r n d : Nat) (hd : s d = 0) : cfdiv_qr c s q r n d = .error "div0" := by
  obtain ⟨htq, htr, htn, htd⟩ := fresh_ne q r n d
  unfold cfdiv_qr
  generalize fresh q r n d = t at *
  dsimp only
  by_cases hc : q = d ∨ r = d
  · simp only [hc, if_true]; rw [tdiv_qr_div0 _ q r n t (by simp [Store.set_apply, hd])]
  · simp only [hc, if_false]; rw [tdiv_qr_div0 _ q r n d hd]
theorem cfdiv_q_div0 (c : Bool) (s : Store) (q n d : Nat) (hd : s d = 0) : cfdiv_q c s q n d = .error "div0" := by
  unfold cfdiv_q; dsimp only; rw [tdiv_qr_div0 _ _ _ _ _ hd]
theorem cfdiv_r_div0 (c : Bool) (s : Store) (r n d : Nat) (hd : s d = 0) : cfdiv_r c s r n d = .error "div0" := by
  obtain ⟨htr, htn, htd, _⟩ := fresh_ne r n d 0
  unfold cfdiv_r
  generalize fresh r n d 0 = t at *
  dsimp only
  by_cases hc : r = d
  · simp only [hc, if_true]; rw [tdiv_r_div0 _ _ n t (by simp [Store.set_apply, hd])]
  · simp only [hc, if_false]; rw [tdiv_r_div0 _ r n d hd]
theorem mod_div0 (s : Store) (r n d : Nat) (hd : s d = 0) : mod s r n d = .error "div0" := by
  obtain ⟨htr, htn, htd, _⟩ := fresh_ne r n d 0
  unfold mod
  generalize fresh r n d 0 = t at *
  dsimp only
  by_cases hc : r = d
  · simp only [hc, if_true]; rw [tdiv_r_div0 _ _ n t (by simp [Store.set_apply, hd])]
  · simp only [hc, if_false]; rw [tdiv_r_div0 _ r n d hd]

/-- the specified quotient / remainder of a rounding direction: 0 truncate, -1 floor, 1 ceiling -/
def specQ (dir : Int) (x y : Int) : Int := if dir = 0 then Int.tdiv x y else if dir = -1 then Int.fdiv x y else cdivQ x y
def specR (dir : Int) (x y : Int) : Int := if dir = 0 then Int.tmod x y else if dir = -1 then Int.fmod x y else cdivR x y

theorem spec_ui (dir : Int) (hdir : dir = 0 ∨ dir = -1 ∨ dir = 1) (x : Int) (u : Nat) (hu : u ≠ 0) :
    specQ dir x u = (if uiAdjust dir (x.natAbs % u) (siz x)
        then (if 0 ≤ x then ((x.natAbs / u + 1 : Nat) : Int) else -((x.natAbs / u + 1 : Nat) : Int))
        else (if 0 ≤ x then ((x.natAbs / u : Nat) : Int) else -((x.natAbs / u : Nat) : Int))) ∧
    specR dir x u = (if x.natAbs % u = 0 then 0
        else uiRem dir (siz x) (if uiAdjust dir (x.natAbs % u) (siz x) then u - x.natAbs % u else x.natAbs % u)) := by
  have hy : (u : Int) ≠ 0 := by omega
  have hy0 : ¬ ((u : Int) < 0) := by omega
  have hlt : x.natAbs % u < u := Nat.mod_lt _ (by omega)
  have hq := tdiv_sign_mag x u
  have hr := tmod_sign_mag x u
  have hF := fdiv_from_tdiv (x := x) hy
  have hFm := fmod_from_tmod (x := x) hy
  have hC := cdivQ_from_tdiv (x := x) hy
  have hCm := cdivR_from_tmod (x := x) hy
  simp only [Int.natAbs_natCast, hy0, iff_false, not_lt] at hq hr hF hFm hC hCm
  have hsz : siz x < 0 ↔ x < 0 := siz_neg_iff
  unfold specQ specR uiAdjust uiRem
  generalize x.natAbs / u = k at *
  generalize x.natAbs % u = m at *
  generalize siz x = sz at *
  generalize Int.tdiv x u = T at *
  generalize Int.tmod x u = M at *
  by_cases hx : 0 ≤ x <;>
    simp only [hx, if_true, if_false, not_true_eq_false, not_false_eq_true, false_and, true_and] at hq hr hF hFm hC hCm <;>
    subst hq hr <;>
    rcases hdir with rfl | rfl | rfl
  all_goals (
    simp only [Int.reduceNeg, Int.reduceEq, if_false, if_true, true_and, false_and, or_false, false_or]
    try rw [hF, hFm]
    try rw [hC, hCm]
    constructor <;> split_ifs <;> first | omega | (exfalso; simp_all))

theorem ui_incr_fits {a u : Nat} (hu0 : u ≠ 0) (h : a % u ≠ 0) : ¬ (a / u + 1 ≥ B ^ sizeNat a) := by
  have h1 := lt_B_pow_sizeNat a
  have hu : 2 ≤ u := by
    rcases Nat.lt_or_ge u 2 with h2 | h2
    · have : u = 1 := by omega
      subst this; exact absurd (Nat.mod_one a) h
    · exact h2
  have h2 := Nat.div_add_mod a u
  have h3 : 2 * (a / u) ≤ u * (a / u) := Nat.mul_le_mul_right _ hu
  omega

theorem uiRem_natAbs (dir ns : Int) (k : Nat) : (uiRem dir ns k).natAbs = k := by
  unfold uiRem; split_ifs <;> simp

theorem div_q_ui_eq (dir : Int) (hdir : dir = 0 ∨ dir = -1 ∨ dir = 1) (s : Store) (q n : Nat) (u : Nat) (hu : u ≠ 0) :
    div_q_ui dir s q n u = .ok (s.set q (specQ dir (s n) u), (specR dir (s n) u).natAbs) := by
  obtain ⟨hQ, hR⟩ := spec_ui dir hdir (s n) u hu
  rw [hQ, hR]
  unfold div_q_ui mpn_divrem_1
  simp only [hu, if_false]
  have hnn : siz (s n) ≥ 0 ↔ 0 ≤ s n := siz_nonneg_iff
  by_cases hz : siz (s n) = 0
  · have h0 : s n = 0 := siz_eq_zero.mp hz
    simp [hz, h0, uiAdjust]
  · simp only [hz, if_false, siz_natAbs]
    by_cases hadj : uiAdjust dir ((s n).natAbs % u) (siz (s n))
    · have hrl : (s n).natAbs % u ≠ 0 := hadj.1
      simp only [hadj, if_true, ui_incr_fits hu hrl, if_false, hrl, uiRem_natAbs, hnn]
    · simp only [hadj, if_false, hnn]
      by_cases hrl : (s n).natAbs % u = 0
      · simp [hrl]
      · simp only [hrl, if_false, uiRem_natAbs]

theorem div_r_ui_eq (dir : Int) (hdir : dir = 0 ∨ dir = -1 ∨ dir = 1) (s : Store) (r n : Nat) (u : Nat) (hu : u ≠ 0) :
    div_r_ui dir s r n u = .ok (s.set r (specR dir (s n) u), (specR dir (s n) u).natAbs) := by
  obtain ⟨_, hR⟩ := spec_ui dir hdir (s n) u hu
  rw [hR]
  unfold div_r_ui mpn_mod_1
  simp only [hu, if_false]
  by_cases hz : siz (s n) = 0
  · have h0 : s n = 0 := siz_eq_zero.mp hz
    simp [hz, h0]
  · simp only [hz, if_false]
    by_cases hrl : (s n).natAbs % u = 0
    · simp [hrl]
    · simp only [hrl, if_false, uiRem_natAbs]

theorem div_qr_ui_eq (dir : Int) (hdir : dir = 0 ∨ dir = -1 ∨ dir = 1) (s : Store) (q r n : Nat) (hqr : q ≠ r) (u : Nat) (hu : u ≠ 0) :
    div_qr_ui dir s q r n u = .ok ((s.set r (specR dir (s n) u)).set q (specQ dir (s n) u), (specR dir (s n) u).natAbs) := by
  obtain ⟨hQ, hR⟩ := spec_ui dir hdir (s n) u hu
  rw [hQ, hR]
  unfold div_qr_ui mpn_divrem_1
  simp only [hu, if_false]
  have hnn : siz (s n) ≥ 0 ↔ 0 ≤ s n := siz_nonneg_iff
  by_cases hz : siz (s n) = 0
  · have h0 : s n = 0 := siz_eq_zero.mp hz
    simp only [hz, h0, if_true]
    simp [uiAdjust]
    intro _; funext j; simp only [Store.set_apply]; split_ifs <;> simp_all
  · simp only [hz, if_false, siz_natAbs]
    by_cases hrl : (s n).natAbs % u = 0
    · have hadj : ¬ uiAdjust dir 0 (siz (s n)) := fun h => h.1 rfl
      simp [hrl, hadj, hnn]
    · simp only [hrl, if_false]
      by_cases hadj : uiAdjust dir ((s n).natAbs % u) (siz (s n))
      · simp only [hadj, if_true, ui_incr_fits hu hrl, if_false, uiRem_natAbs, hnn]
      · simp only [hadj, if_false, hnn, uiRem_natAbs]

theorem div_ui_eq (dir : Int) (hdir : dir = 0 ∨ dir = -1 ∨ dir = 1) (x : Int) (u : Nat) (hu : u ≠ 0) :
    div_ui dir x u = .ok (specR dir x u).natAbs := by
  obtain ⟨_, hR⟩ := spec_ui dir hdir x u hu
  rw [hR]
  unfold div_ui mpn_mod_1
  simp only [hu, if_false]
  by_cases hz : siz x = 0
  · have h0 : x = 0 := siz_eq_zero.mp hz
    simp [hz, h0]
  · simp only [hz, if_false]
    by_cases hrl : x.natAbs % u = 0
    · simp [hrl]
    · simp only [hrl, if_false, uiRem_natAbs]

theorem div_ui_div0 (dir : Int) (s : Store) (q r n : Nat) (x : Int) :
    div_q_ui dir s q n 0 = .error "div0" ∧ div_r_ui dir s r n 0 = .error "div0" ∧
    div_qr_ui dir s q r n 0 = .error "div0" ∧ div_ui dir x 0 = .error "div0" := by
  simp [div_q_ui, div_r_ui, div_qr_ui, div_ui]

/-! ### what the specified pairs are -/

theorem tmod_facts (n d : Int) (hd : d ≠ 0) :
    (Int.tmod n d).natAbs < d.natAbs ∧ (Int.tmod n d = 0 ∨ (Int.tmod n d < 0 ↔ n < 0)) ∧
    n = Int.tdiv n d * d + Int.tmod n d := by
  refine ⟨?_, ?_, ?_⟩
  · rw [Int.natAbs_tmod]; exact Nat.mod_lt _ (by omega)
  · by_cases h : Int.tmod n d = 0
    · exact Or.inl h
    · exact Or.inr (tmod_lt_zero_iff h)
  · have := Int.tdiv_mul_add_tmod n d; omega

theorem tdiv_pair (n d : Int) (hd : d ≠ 0) :
    n = tdivQ n d * d + tdivR n d ∧ (tdivR n d).natAbs < d.natAbs ∧ (tdivR n d = 0 ∨ (tdivR n d < 0 ↔ n < 0)) ∧
    (tdivQ n d).natAbs = n.natAbs / d.natAbs := by
  obtain ⟨h1, h2, h3⟩ := tmod_facts n d hd
  exact ⟨h3, h1, h2, by unfold tdivQ; rw [Int.natAbs_tdiv]; rfl⟩

theorem fdiv_pair (n d : Int) (hd : d ≠ 0) :
    n = fdivQ n d * d + fdivR n d ∧ (fdivR n d).natAbs < d.natAbs ∧ (fdivR n d = 0 ∨ (fdivR n d < 0 ↔ d < 0)) := by
  obtain ⟨h1, h2, h3⟩ := tmod_facts n d hd
  have e := Int.fdiv_mul_add_fmod n d
  unfold fdivQ fdivR
  refine ⟨by omega, ?_, ?_⟩ <;> rw [fmod_from_tmod hd] <;> split_ifs <;> omega

theorem cdiv_pair (n d : Int) (hd : d ≠ 0) :
    n = cdivQ n d * d + cdivR n d ∧ (cdivR n d).natAbs < d.natAbs ∧ (cdivR n d = 0 ∨ (cdivR n d < 0 ↔ 0 < d)) := by
  obtain ⟨h1, h2, h3⟩ := tmod_facts n d hd
  refine ⟨by unfold cdivR; omega, ?_, ?_⟩ <;> rw [cdivR_from_tmod hd] <;> split_ifs <;> omega

/-- floor: q is the largest integer with q·d ≤ n (d > 0), resp. q·d ≥ n (d < 0) -/
theorem fdiv_floor (n d : Int) (hd : d ≠ 0) :
    (0 < d → fdivQ n d * d ≤ n ∧ n < (fdivQ n d + 1) * d) ∧ (d < 0 → (fdivQ n d + 1) * d < n ∧ n ≤ fdivQ n d * d) := by
  obtain ⟨h1, h2, h3⟩ := fdiv_pair n d hd
  have e : (fdivQ n d + 1) * d = fdivQ n d * d + d := by ring
  constructor <;> intro hdd <;> rw [e] <;> omega

/-- ceiling: q is the smallest integer with q·d ≥ n (d > 0), resp. q·d ≤ n (d < 0) -/
theorem cdiv_ceil (n d : Int) (hd : d ≠ 0) :
    (0 < d → (cdivQ n d - 1) * d < n ∧ n ≤ cdivQ n d * d) ∧ (d < 0 → cdivQ n d * d ≤ n ∧ n < (cdivQ n d - 1) * d) := by
  obtain ⟨h1, h2, h3⟩ := cdiv_pair n d hd
  have e : (cdivQ n d - 1) * d = cdivQ n d * d - d := by ring
  constructor <;> intro hdd <;> rw [e] <;> omega

theorem mod_range (n d : Int) (hd : d ≠ 0) : 0 ≤ modS n d ∧ modS n d < |d| ∧ d ∣ n - modS n d := by
  unfold modS
  exact ⟨Int.emod_nonneg _ hd, Int.emod_lt_abs _ hd, Int.dvd_self_sub_emod⟩

end Mpir.DivZ
