/- Helper lemmas for the mpz division wrapper models (Mpir/Model/DivZ.lean). -/
import MpirProofs.Lemmas.Base
import Mpir.Model.DivZ
import Mathlib.Tactic.Ring
import Mathlib.Tactic.Linarith
import Mathlib.Tactic.SplitIfs
import Mathlib.Tactic.Tauto
namespace Mpir.DivZ
open Mpir

/-! ### sizes -/

theorem B_pow (k : Nat) : B ^ k = 2 ^ (64 * k) := by
  unfold B; rw [← Nat.pow_mul]

theorem sizeNat_le_iff (v k : Nat) : sizeNat v ≤ k ↔ v < B ^ k := by
  unfold sizeNat
  by_cases h : v = 0
  · subst h; simp [B_pow]
  · simp only [h, if_false]
    rw [B_pow, ← Nat.log2_lt h]
    omega

theorem lt_B_pow_sizeNat (v : Nat) : v < B ^ sizeNat v := (sizeNat_le_iff v _).mp (Nat.le_refl _)

theorem sizeNat_eq_zero {v : Nat} : sizeNat v = 0 ↔ v = 0 := by
  unfold sizeNat; by_cases h : v = 0 <;> simp [h]

theorem lt_of_sizeNat_lt {a b : Nat} (h : sizeNat a < sizeNat b) : a < b := by
  have ha := lt_B_pow_sizeNat a
  have hb : ¬ b < B ^ sizeNat a := fun hb => by
    have := (sizeNat_le_iff b (sizeNat a)).mpr hb; omega
  omega

theorem siz_natAbs (v : Int) : (siz v).natAbs = sizeNat v.natAbs := by
  unfold siz; split <;> simp

theorem siz_eq_zero {v : Int} : siz v = 0 ↔ v = 0 := by
  have := @sizeNat_eq_zero v.natAbs
  unfold siz; split <;> omega

theorem siz_neg_iff {v : Int} : siz v < 0 ↔ v < 0 := by
  have := @sizeNat_eq_zero v.natAbs
  unfold siz; split <;> omega

theorem siz_nonneg_iff {v : Int} : 0 ≤ siz v ↔ 0 ≤ v := by
  have := @siz_neg_iff v; omega

theorem sameSign_siz (x y : Int) : sameSign (siz x) (siz y) ↔ (x < 0 ↔ y < 0) := by
  unfold sameSign; rw [siz_neg_iff, siz_neg_iff]

theorem Store.set_apply (s : Store) (i : Nat) (v : Int) (j : Nat) :
    (s.set i v) j = if j = i then v else s j := rfl

/-! ### truncating division by sign and magnitude -/

theorem tdiv_sign_mag (x y : Int) :
    Int.tdiv x y = if (x < 0 ↔ y < 0) then ((x.natAbs / y.natAbs : Nat) : Int) else -((x.natAbs / y.natAbs : Nat) : Int) := by
  obtain ⟨a, rfl | rfl⟩ := Int.eq_nat_or_neg x <;> obtain ⟨b, rfl | rfl⟩ := Int.eq_nat_or_neg y
  · have hc : (((a : Int) < 0) ↔ ((b : Int) < 0)) := by omega
    rw [if_pos hc, ← Int.ofNat_tdiv]; simp
  · by_cases hb : b = 0
    · subst hb; simp
    · have hc : ¬ (((a : Int) < 0) ↔ (-(b : Int) < 0)) := by omega
      rw [if_neg hc, Int.tdiv_neg, ← Int.ofNat_tdiv]; simp
  · by_cases ha : a = 0
    · subst ha; simp
    · have hc : ¬ ((-(a : Int) < 0) ↔ ((b : Int) < 0)) := by omega
      rw [if_neg hc, Int.neg_tdiv, ← Int.ofNat_tdiv]; simp
  · by_cases ha : a = 0
    · subst ha; simp
    · by_cases hb : b = 0
      · subst hb; simp
      · have hc : ((-(a : Int) < 0) ↔ (-(b : Int) < 0)) := by omega
        rw [if_pos hc, Int.neg_tdiv, Int.tdiv_neg, ← Int.ofNat_tdiv]; simp

theorem tmod_sign_mag (x y : Int) :
    Int.tmod x y = if 0 ≤ x then ((x.natAbs % y.natAbs : Nat) : Int) else -((x.natAbs % y.natAbs : Nat) : Int) := by
  obtain ⟨a, rfl | rfl⟩ := Int.eq_nat_or_neg x <;> obtain ⟨b, rfl | rfl⟩ := Int.eq_nat_or_neg y
  · have hc : (0 : Int) ≤ (a : Int) := by omega
    rw [if_pos hc, ← Int.ofNat_tmod]; simp
  · have hc : (0 : Int) ≤ (a : Int) := by omega
    rw [if_pos hc, Int.tmod_neg, ← Int.ofNat_tmod]; simp
  · by_cases ha : a = 0
    · subst ha; simp
    · have hc : ¬ ((0 : Int) ≤ -(a : Int)) := by omega
      rw [if_neg hc, Int.neg_tmod, ← Int.ofNat_tmod]; simp
  · by_cases ha : a = 0
    · subst ha; simp
    · have hc : ¬ ((0 : Int) ≤ -(a : Int)) := by omega
      rw [if_neg hc, Int.neg_tmod, Int.tmod_neg, ← Int.ofNat_tmod]; simp

theorem tdiv_tmod_of_natAbs_lt {x y : Int} (h : x.natAbs < y.natAbs) : Int.tdiv x y = 0 ∧ Int.tmod x y = x := by
  have h0 : Int.tdiv x y = 0 := by
    rw [tdiv_sign_mag, Nat.div_eq_of_lt h]; simp
  refine ⟨h0, ?_⟩
  rw [Int.tmod_def, h0]; simp

/-! ### floor and ceiling from truncation -/

theorem fdiv_from_tdiv {x y : Int} (hy : y ≠ 0) :
    Int.fdiv x y = if ¬ (x < 0 ↔ y < 0) ∧ Int.tmod x y ≠ 0 then Int.tdiv x y - 1 else Int.tdiv x y := by
  rw [Int.fdiv_eq_tdiv]
  by_cases hdv : y ∣ x
  · have h0 : Int.tmod x y = 0 := Int.dvd_iff_tmod_eq_zero.mp hdv
    simp [hdv, h0]
  · have h0 : Int.tmod x y ≠ 0 := fun h => hdv (Int.dvd_iff_tmod_eq_zero.mpr h)
    have hx : x ≠ 0 := fun h => hdv (h ▸ Int.dvd_zero y)
    simp only [hdv, if_false, h0, ne_eq, not_false_eq_true, and_true]
    rcases Int.lt_or_gt_of_ne hy with hneg | hpos
    · have : y.sign = -1 := Int.sign_eq_neg_one_of_neg hneg
      rw [this]; split_ifs <;> omega
    · have : y.sign = 1 := Int.sign_eq_one_of_pos hpos
      rw [this]; split_ifs <;> omega

theorem fmod_from_tmod {x y : Int} (hy : y ≠ 0) :
    Int.fmod x y = if ¬ (x < 0 ↔ y < 0) ∧ Int.tmod x y ≠ 0 then Int.tmod x y + y else Int.tmod x y := by
  rw [Int.fmod_def, fdiv_from_tdiv hy]
  by_cases h : ¬ (x < 0 ↔ y < 0) ∧ Int.tmod x y ≠ 0
  · rw [if_pos h, if_pos h, Int.tmod_def]; ring
  · rw [if_neg h, if_neg h, Int.tmod_def]

theorem cdivQ_from_tdiv {x y : Int} (hy : y ≠ 0) :
    cdivQ x y = if (x < 0 ↔ y < 0) ∧ Int.tmod x y ≠ 0 then Int.tdiv x y + 1 else Int.tdiv x y := by
  unfold cdivQ
  rw [fdiv_from_tdiv hy, Int.neg_tdiv, Int.neg_tmod]
  by_cases h0 : Int.tmod x y = 0
  · simp [h0]
  · have hx : x ≠ 0 := fun h => h0 (by rw [h]; simp)
    have e : (¬ (-x < 0 ↔ y < 0)) ↔ (x < 0 ↔ y < 0) := by omega
    by_cases h : (x < 0 ↔ y < 0)
    · have h1 : ¬ (-x < 0 ↔ y < 0) ∧ -Int.tmod x y ≠ 0 := ⟨e.mpr h, by omega⟩
      rw [if_pos h1, if_pos ⟨h, h0⟩]; ring
    · have h1 : ¬ (¬ (-x < 0 ↔ y < 0) ∧ -Int.tmod x y ≠ 0) := fun hh => h (e.mp hh.1)
      have h2 : ¬ ((x < 0 ↔ y < 0) ∧ Int.tmod x y ≠ 0) := fun hh => h hh.1
      rw [if_neg h1, if_neg h2]; ring

theorem cdivR_from_tmod {x y : Int} (hy : y ≠ 0) :
    cdivR x y = if (x < 0 ↔ y < 0) ∧ Int.tmod x y ≠ 0 then Int.tmod x y - y else Int.tmod x y := by
  unfold cdivR
  rw [cdivQ_from_tdiv hy]
  by_cases h : (x < 0 ↔ y < 0) ∧ Int.tmod x y ≠ 0
  · rw [if_pos h, if_pos h, Int.tmod_def]; ring
  · rw [if_neg h, if_neg h, Int.tmod_def]; ring

/-! ### the wrappers -/

theorem siz_natAbs_ne_zero {v : Int} (h : v ≠ 0) : (siz v).natAbs ≠ 0 := by
  rw [siz_natAbs]; intro h'; exact h (by have := sizeNat_eq_zero.mp h'; omega)

theorem tmod_lt_zero_iff {x y : Int} (h : Int.tmod x y ≠ 0) : Int.tmod x y < 0 ↔ x < 0 := by
  rw [tmod_sign_mag] at h ⊢
  split_ifs at h ⊢ <;> omega

theorem tdiv_qr_eq (s : Store) (q r n d : Nat) (hqr : q ≠ r) (hd : s d ≠ 0) :
    tdiv_qr s q r n d = .ok (fun j => if j = r then Int.tmod (s n) (s d) else if j = q then Int.tdiv (s n) (s d) else s j) := by
  have hdl : (siz (s d)).natAbs ≠ 0 := by
    rw [siz_natAbs]; intro h; exact hd (by have := sizeNat_eq_zero.mp h; omega)
  unfold tdiv_qr mpn_tdiv_qr
  simp only [hdl, if_false]
  split
  · rename_i h
    have hlt : (s n).natAbs < (s d).natAbs := lt_of_sizeNat_lt (by rw [siz_natAbs, siz_natAbs] at h; omega)
    obtain ⟨h0, h1⟩ := tdiv_tmod_of_natAbs_lt hlt
    congr 1; funext j
    simp only [Store.set_apply, h0, h1]
    by_cases hnr : n = r
    · subst hnr; simp only [ne_eq, not_true_eq_false, if_false]; split_ifs <;> simp_all
    · simp only [ne_eq, hnr, not_false_eq_true, if_true, Store.set_apply]; split_ifs <;> simp_all
  · congr 1; funext j
    simp only [Store.set_apply, tdiv_sign_mag (s n) (s d), tmod_sign_mag (s n) (s d), sameSign_siz, ge_iff_le, siz_nonneg_iff]

theorem tdiv_q_eq (s : Store) (q n d : Nat) (hd : s d ≠ 0) :
    tdiv_q s q n d = .ok (s.set q (Int.tdiv (s n) (s d))) := by
  have hdl := siz_natAbs_ne_zero hd
  unfold tdiv_q mpn_tdiv_q
  simp only [hdl, if_false]
  split
  · rename_i h
    have hlt : (s n).natAbs < (s d).natAbs := lt_of_sizeNat_lt (by rw [siz_natAbs, siz_natAbs] at h; omega)
    rw [(tdiv_tmod_of_natAbs_lt hlt).1]
  · simp only [tdiv_sign_mag (s n) (s d), sameSign_siz]

theorem tdiv_r_eq (s : Store) (r n d : Nat) (hd : s d ≠ 0) :
    tdiv_r s r n d = .ok (s.set r (Int.tmod (s n) (s d))) := by
  have hdl := siz_natAbs_ne_zero hd
  unfold tdiv_r mpn_tdiv_qr
  simp only [hdl, if_false]
  split
  · rename_i h
    have hlt : (s n).natAbs < (s d).natAbs := lt_of_sizeNat_lt (by rw [siz_natAbs, siz_natAbs] at h; omega)
    rw [(tdiv_tmod_of_natAbs_lt hlt).2]
    congr 1; funext j
    by_cases hnr : n = r
    · subst hnr; simp only [ne_eq, not_true_eq_false, if_false, Store.set_apply]; split_ifs <;> simp_all
    · simp only [ne_eq, hnr, not_false_eq_true, if_true]
  · simp only [tmod_sign_mag (s n) (s d), ge_iff_le, siz_nonneg_iff]

theorem fresh_ne (a b c d : Nat) : fresh a b c d ≠ a ∧ fresh a b c d ≠ b ∧ fresh a b c d ≠ c ∧ fresh a b c d ≠ d := by
  unfold fresh; omega

theorem cfdiv_qr_eq (ceil : Bool) (s : Store) (q r n d : Nat) (hqr : q ≠ r) (hd : s d ≠ 0) :
    cfdiv_qr ceil s q r n d = .ok (fun j =>
      if j = r then (if ceil then cdivR (s n) (s d) else Int.fmod (s n) (s d))
      else if j = q then (if ceil then cdivQ (s n) (s d) else Int.fdiv (s n) (s d)) else s j) := by
  obtain ⟨htq, htr, htn, htd⟩ := fresh_ne q r n d
  unfold cfdiv_qr
  generalize fresh q r n d = t at *
  have hrq : r ≠ q := Ne.symm hqr
  rw [show (fun j => if j = r then (if ceil then cdivR (s n) (s d) else Int.fmod (s n) (s d))
      else if j = q then (if ceil then cdivQ (s n) (s d) else Int.fdiv (s n) (s d)) else s j) =
      (fun j => if j = r then (if ceil then (if (s n < 0 ↔ s d < 0) ∧ Int.tmod (s n) (s d) ≠ 0 then Int.tmod (s n) (s d) - s d else Int.tmod (s n) (s d))
                               else (if ¬ (s n < 0 ↔ s d < 0) ∧ Int.tmod (s n) (s d) ≠ 0 then Int.tmod (s n) (s d) + s d else Int.tmod (s n) (s d)))
      else if j = q then (if ceil then (if (s n < 0 ↔ s d < 0) ∧ Int.tmod (s n) (s d) ≠ 0 then Int.tdiv (s n) (s d) + 1 else Int.tdiv (s n) (s d))
                               else (if ¬ (s n < 0 ↔ s d < 0) ∧ Int.tmod (s n) (s d) ≠ 0 then Int.tdiv (s n) (s d) - 1 else Int.tdiv (s n) (s d))) else s j) from by
    rw [cdivR_from_tmod hd, cdivQ_from_tdiv hd, fmod_from_tmod hd, fdiv_from_tdiv hd]]
  by_cases hc : q = d ∨ r = d
  · simp only [hc, if_true]
    have h0 : (s.set t (s d)) t ≠ 0 := by simp [Store.set_apply, hd]
    rw [tdiv_qr_eq _ q r n t hqr h0]
    simp only [Store.set_apply, if_pos, htn.symm, if_false, hqr, hrq, htq, htr, sameSign_siz, ne_eq, siz_eq_zero]
    congr 1; funext j
    cases ceil <;> simp only [Store.set_apply, Bool.false_eq_true, if_false, if_true] <;> split_ifs <;> simp_all [Store.set_apply]
  · have hqd : q ≠ d := fun h => hc (Or.inl h)
    have hrd : r ≠ d := fun h => hc (Or.inr h)
    simp only [hc, if_false]
    rw [tdiv_qr_eq _ q r n d hqr hd]
    simp only [Store.set_apply, if_pos, htn.symm, if_false, hqr, hrq, htq, htr, hqd.symm, hrd.symm, sameSign_siz, ne_eq, siz_eq_zero]
    congr 1; funext j
    cases ceil <;> simp only [Store.set_apply, Bool.false_eq_true, if_false, if_true] <;> split_ifs <;> simp_all [Store.set_apply]

theorem cfdiv_q_eq (ceil : Bool) (s : Store) (q n d : Nat) (hd : s d ≠ 0) :
    cfdiv_q ceil s q n d = .ok (s.set q (if ceil then cdivQ (s n) (s d) else Int.fdiv (s n) (s d))) := by
  obtain ⟨htq, htn, htd, _⟩ := fresh_ne q n d 0
  unfold cfdiv_q
  generalize fresh q n d 0 = t at *
  dsimp only
  rw [cdivQ_from_tdiv hd, fdiv_from_tdiv hd, tdiv_qr_eq s q t n d (Ne.symm htq) hd]
  simp only [Store.set_apply, if_pos, if_false, htq, Ne.symm htq, sameSign_siz, ne_eq, siz_eq_zero]
  congr 1; funext j
  have e : (s d < 0 ↔ s n < 0) ↔ (s n < 0 ↔ s d < 0) := by omega
  cases ceil <;> simp only [Store.set_apply, Bool.false_eq_true, if_false, if_true, e] <;> split_ifs <;> simp_all [Store.set_apply]

theorem cfdiv_r_eq (ceil : Bool) (s : Store) (r n d : Nat) (hd : s d ≠ 0) :
    cfdiv_r ceil s r n d = .ok (s.set r (if ceil then cdivR (s n) (s d) else Int.fmod (s n) (s d))) := by
  obtain ⟨htr, htn, htd, _⟩ := fresh_ne r n d 0
  unfold cfdiv_r
  generalize fresh r n d 0 = t at *
  rw [cdivR_from_tmod hd, fmod_from_tmod hd]
  by_cases hc : r = d
  · simp only [hc, if_true]
    subst hc
    have h0 : (s.set t (s r)) t ≠ 0 := by simp [Store.set_apply, hd]
    rw [tdiv_r_eq _ r n t h0]
    simp only [Store.set_apply, if_pos, if_false, htn.symm, htr, Ne.symm htr, sameSign_siz, ne_eq, siz_eq_zero]
    congr 1; funext j
    by_cases hnr : n = r
    · subst hnr
      simp only [if_true]
      by_cases hz : Int.tmod (s n) (s n) = 0
      · cases ceil <;> simp_all [Store.set_apply]
      · exact absurd (Int.tmod_self) hz
    · simp only [hnr, if_false]
      have e : (s r < 0 ↔ s n < 0) ↔ (s n < 0 ↔ s r < 0) := by omega
      cases ceil <;> simp only [Store.set_apply, Bool.false_eq_true, if_false, if_true, e] <;> split_ifs <;> simp_all [Store.set_apply]
  · simp only [hc, if_false]
    rw [tdiv_r_eq _ r n d hd]
    simp only [Store.set_apply, if_pos, if_false, Ne.symm hc, sameSign_siz, ne_eq, siz_eq_zero]
    congr 1; funext j
    by_cases hnr : n = r
    · subst hnr
      simp only [if_true]
      by_cases hz : Int.tmod (s n) (s d) = 0
      · cases ceil <;> simp_all [Store.set_apply]
      · have e : (s d < 0 ↔ Int.tmod (s n) (s d) < 0) ↔ (s n < 0 ↔ s d < 0) := by
          rw [tmod_lt_zero_iff hz]; omega
        cases ceil <;> simp only [Store.set_apply, Bool.false_eq_true, if_false, if_true, e] <;> split_ifs <;> simp_all [Store.set_apply]
    · simp only [hnr, if_false]
      have e : (s d < 0 ↔ s n < 0) ↔ (s n < 0 ↔ s d < 0) := by omega
      cases ceil <;> simp only [Store.set_apply, Bool.false_eq_true, if_false, if_true, e] <;> split_ifs <;> simp_all [Store.set_apply]

theorem emod_from_tmod (x y : Int) :
    x % y = if Int.tmod x y ≠ 0 ∧ x < 0 then (if y < 0 then Int.tmod x y - y else Int.tmod x y + y) else Int.tmod x y := by
  rw [Int.emod_eq_tmod]
  by_cases hdv : y ∣ x
  · have h0 : Int.tmod x y = 0 := Int.dvd_iff_tmod_eq_zero.mp hdv
    simp [hdv, h0]
  · have h0 : Int.tmod x y ≠ 0 := fun h => hdv (Int.dvd_iff_tmod_eq_zero.mpr h)
    simp only [hdv, or_false, h0, ne_eq, not_false_eq_true, true_and]
    split_ifs <;> omega

theorem mod_eq (s : Store) (r n d : Nat) (hd : s d ≠ 0) :
    mod s r n d = .ok (s.set r (s n % s d)) := by
  obtain ⟨htr, htn, htd, _⟩ := fresh_ne r n d 0
  unfold mod
  generalize fresh r n d 0 = t at *
  dsimp only
  rw [emod_from_tmod]
  by_cases hc : r = d
  · simp only [hc, if_true]
    subst hc
    have h0 : (s.set t (s r)) t ≠ 0 := by simp [Store.set_apply, hd]
    rw [tdiv_r_eq _ r n t h0]
    simp only [Store.set_apply, if_pos, if_false, htn.symm, htr, Ne.symm htr, ne_eq, siz_eq_zero, siz_neg_iff]
    congr 1; funext j
    by_cases hnr : n = r
    · subst hnr
      have hz : Int.tmod (s n) (s n) = 0 := Int.tmod_self
      simp_all [Store.set_apply]
    · simp only [hnr, if_false]
      split_ifs <;> simp_all [Store.set_apply]
  · simp only [hc, if_false]
    rw [tdiv_r_eq _ r n d hd]
    simp only [Store.set_apply, if_pos, if_false, Ne.symm hc, ne_eq, siz_eq_zero, siz_neg_iff]
    congr 1; funext j
    by_cases hnr : n = r
    · subst hnr
      simp only [if_true]
      by_cases hz : Int.tmod (s n) (s d) = 0
      · simp_all [Store.set_apply]
      · have e := tmod_lt_zero_iff hz
        simp only [e]
        split_ifs <;> simp_all [Store.set_apply]
    · simp only [hnr, if_false]
      split_ifs <;> simp_all [Store.set_apply]

theorem tdiv_qr_div0 (s : Store) (q r n d : Nat) (hd : s d = 0) : tdiv_qr s q r n d = .error "div0" := by
  unfold tdiv_qr; simp [hd, siz, sizeNat]
theorem tdiv_q_div0 (s : Store) (q n d : Nat) (hd : s d = 0) : tdiv_q s q n d = .error "div0" := by
  unfold tdiv_q; simp [hd, siz, sizeNat]
theorem tdiv_r_div0 (s : Store) (r n d : Nat) (hd : s d = 0) : tdiv_r s r n d = .error "div0" := by
  unfold tdiv_r; simp [hd, siz, sizeNat]
theorem cfdiv_qr_div0 (c : Bool) (s : Store) (q r n d : Nat) (hd : s d = 0) : cfdiv_qr c s q r n d = .error "div0" := by
  obtain ⟨htq, htr, htn, htd⟩ := fresh_ne q r n d
  unfold cfdiv_qr
  generalize fresh q r n d = t at *
  dsimp only
  by_cases hc : q = d ∨ r = d
  · simp only [hc, if_true]; rw [tdiv_qr_div0 _ q r n t (by simp [Store.set_apply, hd])]
  · simp only [hc, if_false]; rw [tdiv_qr_div0 _ q r n d hd]
theorem cfdiv_q_div0 (c : Bool) (s : Store) (q n d : Nat) (hd : s d = 0) : cfdiv_q c s q n d = .error "div0" := by
  unfold cfdiv_q; dsimp only; rw [tdiv_qr_div0 _ _ _ _ _ hd]
theorem cfdiv_r_div0 (c : Bool) (s : Store) (r n d : Nat) (hd : s d = 0) : cfdiv_r c s r n d = .error "div0" := by
  obtain ⟨htr, htn, htd, _⟩ := fresh_ne r n d 0
  unfold cfdiv_r
  generalize fresh r n d 0 = t at *
  dsimp only
  by_cases hc : r = d
  · simp only [hc, if_true]; rw [tdiv_r_div0 _ _ n t (by simp [Store.set_apply, hd])]
  · simp only [hc, if_false]; rw [tdiv_r_div0 _ r n d hd]
theorem mod_div0 (s : Store) (r n d : Nat) (hd : s d = 0) : mod s r n d = .error "div0" := by
  obtain ⟨htr, htn, htd, _⟩ := fresh_ne r n d 0
  unfold mod
  generalize fresh r n d 0 = t at *
  dsimp only
  by_cases hc : r = d
  · simp only [hc, if_true]; rw [tdiv_r_div0 _ _ n t (by simp [Store.set_apply, hd])]
  · simp only [hc, if_false]; rw [tdiv_r_div0 _ r n d hd]

/-- the specified quotient / remainder of a rounding direction: 0 truncate, -1 floor, 1 ceiling -/
def specQ (dir : Int) (x y : Int) : Int := if dir = 0 then Int.tdiv x y else if dir = -1 then Int.fdiv x y else cdivQ x y
def specR (dir : Int) (x y : Int) : Int := if dir = 0 then Int.tmod x y else if dir = -1 then Int.fmod x y else cdivR x y

theorem spec_ui (dir : Int) (hdir : dir = 0 ∨ dir = -1 ∨ dir = 1) (x : Int) (u : Nat) (hu : u ≠ 0) :
    specQ dir x u = (if uiAdjust dir (x.natAbs % u) (siz x)
        then (if 0 ≤ x then ((x.natAbs / u + 1 : Nat) : Int) else -((x.natAbs / u + 1 : Nat) : Int))
        else (if 0 ≤ x then ((x.natAbs / u : Nat) : Int) else -((x.natAbs / u : Nat) : Int))) ∧
    specR dir x u = (if x.natAbs % u = 0 then 0
        else uiRem dir (siz x) (if uiAdjust dir (x.natAbs % u) (siz x) then u - x.natAbs % u else x.natAbs % u)) := by
  have hy : (u : Int) ≠ 0 := by omega
  have hy0 : ¬ ((u : Int) < 0) := by omega
  have hlt : x.natAbs % u < u := Nat.mod_lt _ (by omega)
  have hq := tdiv_sign_mag x u
  have hr := tmod_sign_mag x u
  have hF := fdiv_from_tdiv (x := x) hy
  have hFm := fmod_from_tmod (x := x) hy
  have hC := cdivQ_from_tdiv (x := x) hy
  have hCm := cdivR_from_tmod (x := x) hy
  simp only [Int.natAbs_natCast, hy0, iff_false, not_lt] at hq hr hF hFm hC hCm
  have hsz : siz x < 0 ↔ x < 0 := siz_neg_iff
  unfold specQ specR uiAdjust uiRem
  generalize x.natAbs / u = k at *
  generalize x.natAbs % u = m at *
  generalize siz x = sz at *
  generalize Int.tdiv x u = T at *
  generalize Int.tmod x u = M at *
  by_cases hx : 0 ≤ x <;>
    simp only [hx, if_true, if_false, not_true_eq_false, not_false_eq_true, false_and, true_and] at hq hr hF hFm hC hCm <;>
    subst hq hr <;>
    rcases hdir with rfl | rfl | rfl
  all_goals (
    simp only [Int.reduceNeg, Int.reduceEq, if_false, if_true, true_and, false_and, or_false, false_or]
    try rw [hF, hFm]
    try rw [hC, hCm]
    constructor <;> split_ifs <;> first | omega | (exfalso; simp_all))

theorem ui_incr_fits {a u : Nat} (hu0 : u ≠ 0) (h : a % u ≠ 0) : ¬ (a / u + 1 ≥ B ^ sizeNat a) := by
  have h1 := lt_B_pow_sizeNat a
  have hu : 2 ≤ u := by
    rcases Nat.lt_or_ge u 2 with h2 | h2
    · have : u = 1 := by omega
      subst this; exact absurd (Nat.mod_one a) h
    · exact h2
  have h2 := Nat.div_add_mod a u
  have h3 : 2 * (a / u) ≤ u * (a / u) := Nat.mul_le_mul_right _ hu
  omega

theorem uiRem_natAbs (dir ns : Int) (k : Nat) : (uiRem dir ns k).natAbs = k := by
  unfold uiRem; split_ifs <;> simp

theorem div_q_ui_eq (dir : Int) (hdir : dir = 0 ∨ dir = -1 ∨ dir = 1) (s : Store) (q n : Nat) (u : Nat) (hu : u ≠ 0) :
    div_q_ui dir s q n u = .ok (s.set q (specQ dir (s n) u), (specR dir (s n) u).natAbs) := by
  obtain ⟨hQ, hR⟩ := spec_ui dir hdir (s n) u hu
  rw [hQ, hR]
  unfold div_q_ui mpn_divrem_1
  simp only [hu, if_false]
  have hnn : siz (s n) ≥ 0 ↔ 0 ≤ s n := siz_nonneg_iff
  by_cases hz : siz (s n) = 0
  · have h0 : s n = 0 := siz_eq_zero.mp hz
    simp [hz, h0, uiAdjust]
  · simp only [hz, if_false, siz_natAbs]
    by_cases hadj : uiAdjust dir ((s n).natAbs % u) (siz (s n))
    · have hrl : (s n).natAbs % u ≠ 0 := hadj.1
      simp only [hadj, if_true, ui_incr_fits hu hrl, if_false, hrl, uiRem_natAbs, hnn]
    · simp only [hadj, if_false, hnn]
      by_cases hrl : (s n).natAbs % u = 0
      · simp [hrl]
      · simp only [hrl, if_false, uiRem_natAbs]

theorem div_r_ui_eq (dir : Int) (hdir : dir = 0 ∨ dir = -1 ∨ dir = 1) (s : Store) (r n : Nat) (u : Nat) (hu : u ≠ 0) :
    div_r_ui dir s r n u = .ok (s.set r (specR dir (s n) u), (specR dir (s n) u).natAbs) := by
  obtain ⟨_, hR⟩ := spec_ui dir hdir (s n) u hu
  rw [hR]
  unfold div_r_ui mpn_mod_1
  simp only [hu, if_false]
  by_cases hz : siz (s n) = 0
  · have h0 : s n = 0 := siz_eq_zero.mp hz
    simp [hz, h0]
  · simp only [hz, if_false]
    by_cases hrl : (s n).natAbs % u = 0
    · simp [hrl]
    · simp only [hrl, if_false, uiRem_natAbs]

theorem div_qr_ui_eq (dir : Int) (hdir : dir = 0 ∨ dir = -1 ∨ dir = 1) (s : Store) (q r n : Nat) (hqr : q ≠ r) (u : Nat) (hu : u ≠ 0) :
    div_qr_ui dir s q r n u = .ok ((s.set r (specR dir (s n) u)).set q (specQ dir (s n) u), (specR dir (s n) u).natAbs) := by
  obtain ⟨hQ, hR⟩ := spec_ui dir hdir (s n) u hu
  rw [hQ, hR]
  unfold div_qr_ui mpn_divrem_1
  simp only [hu, if_false]
  have hnn : siz (s n) ≥ 0 ↔ 0 ≤ s n := siz_nonneg_iff
  by_cases hz : siz (s n) = 0
  · have h0 : s n = 0 := siz_eq_zero.mp hz
    simp only [hz, h0, if_true]
    simp [uiAdjust]
    intro _; funext j; simp only [Store.set_apply]; split_ifs <;> simp_all
  · simp only [hz, if_false, siz_natAbs]
    by_cases hrl : (s n).natAbs % u = 0
    · have hadj : ¬ uiAdjust dir 0 (siz (s n)) := fun h => h.1 rfl
      simp [hrl, hadj, hnn]
    · simp only [hrl, if_false]
      by_cases hadj : uiAdjust dir ((s n).natAbs % u) (siz (s n))
      · simp only [hadj, if_true, ui_incr_fits hu hrl, if_false, uiRem_natAbs, hnn]
      · simp only [hadj, if_false, hnn, uiRem_natAbs]

theorem div_ui_eq (dir : Int) (hdir : dir = 0 ∨ dir = -1 ∨ dir = 1) (x : Int) (u : Nat) (hu : u ≠ 0) :
    div_ui dir x u = .ok (specR dir x u).natAbs := by
  obtain ⟨_, hR⟩ := spec_ui dir hdir x u hu
  rw [hR]
  unfold div_ui mpn_mod_1
  simp only [hu, if_false]
  by_cases hz : siz x = 0
  · have h0 : x = 0 := siz_eq_zero.mp hz
    simp [hz, h0]
  · simp only [hz, if_false]
    by_cases hrl : x.natAbs % u = 0
    · simp [hrl]
    · simp only [hrl, if_false, uiRem_natAbs]

theorem div_ui_div0 (dir : Int) (s : Store) (q r n : Nat) (x : Int) :
    div_q_ui dir s q n 0 = .error "div0" ∧ div_r_ui dir s r n 0 = .error "div0" ∧
    div_qr_ui dir s q r n 0 = .error "div0" ∧ div_ui dir x 0 = .error "div0" := by
  simp [div_q_ui, div_r_ui, div_qr_ui, div_ui]

/-! ### what the specified pairs are -/

theorem tmod_facts (n d : Int) (hd : d ≠ 0) :
    (Int.tmod n d).natAbs < d.natAbs ∧ (Int.tmod n d = 0 ∨ (Int.tmod n d < 0 ↔ n < 0)) ∧
    n = Int.tdiv n d * d + Int.tmod n d := by
  refine ⟨?_, ?_, ?_⟩
  · rw [Int.natAbs_tmod]; exact Nat.mod_lt _ (by omega)
  · by_cases h : Int.tmod n d = 0
    · exact Or.inl h
    · exact Or.inr (tmod_lt_zero_iff h)
  · have := Int.tdiv_mul_add_tmod n d; omega

theorem tdiv_pair (n d : Int) (hd : d ≠ 0) :
    n = tdivQ n d * d + tdivR n d ∧ (tdivR n d).natAbs < d.natAbs ∧ (tdivR n d = 0 ∨ (tdivR n d < 0 ↔ n < 0)) ∧
    (tdivQ n d).natAbs = n.natAbs / d.natAbs := by
  obtain ⟨h1, h2, h3⟩ := tmod_facts n d hd
  exact ⟨h3, h1, h2, by unfold tdivQ; rw [Int.natAbs_tdiv]; rfl⟩

theorem fdiv_pair (n d : Int) (hd : d ≠ 0) :
    n = fdivQ n d * d + fdivR n d ∧ (fdivR n d).natAbs < d.natAbs ∧ (fdivR n d = 0 ∨ (fdivR n d < 0 ↔ d < 0)) := by
  obtain ⟨h1, h2, h3⟩ := tmod_facts n d hd
  have e := Int.fdiv_mul_add_fmod n d
  unfold fdivQ fdivR
  refine ⟨by omega, ?_, ?_⟩ <;> rw [fmod_from_tmod hd] <;> split_ifs <;> omega

theorem cdiv_pair (n d : Int) (hd : d ≠ 0) :
    n = cdivQ n d * d + cdivR n d ∧ (cdivR n d).natAbs < d.natAbs ∧ (cdivR n d = 0 ∨ (cdivR n d < 0 ↔ 0 < d)) := by
  obtain ⟨h1, h2, h3⟩ := tmod_facts n d hd
  refine ⟨by unfold cdivR; omega, ?_, ?_⟩ <;> rw [cdivR_from_tmod hd] <;> split_ifs <;> omega

/-- floor: q is the largest integer with q·d ≤ n (d > 0), resp. q·d ≥ n (d < 0) -/
theorem fdiv_floor (n d : Int) (hd : d ≠ 0) :
    (0 < d → fdivQ n d * d ≤ n ∧ n < (fdivQ n d + 1) * d) ∧ (d < 0 → (fdivQ n d + 1) * d < n ∧ n ≤ fdivQ n d * d) := by
  obtain ⟨h1, h2, h3⟩ := fdiv_pair n d hd
  have e : (fdivQ n d + 1) * d = fdivQ n d * d + d := by ring
  constructor <;> intro hdd <;> rw [e] <;> omega

/-- ceiling: q is the smallest integer with q·d ≥ n (d > 0), resp. q·d ≤ n (d < 0) -/
theorem cdiv_ceil (n d : Int) (hd : d ≠ 0) :
    (0 < d → (cdivQ n d - 1) * d < n ∧ n ≤ cdivQ n d * d) ∧ (d < 0 → cdivQ n d * d ≤ n ∧ n < (cdivQ n d - 1) * d) := by
  obtain ⟨h1, h2, h3⟩ := cdiv_pair n d hd
  have e : (cdivQ n d - 1) * d = cdivQ n d * d - d := by ring
  constructor <;> intro hdd <;> rw [e] <;> omega

theorem mod_range (n d : Int) (hd : d ≠ 0) : 0 ≤ modS n d ∧ modS n d < |d| ∧ d ∣ n - modS n d := by
  unfold modS
  exact ⟨Int.emod_nonneg _ hd, Int.emod_lt_abs _ hd, Int.dvd_self_sub_emod⟩

/-! ### powers of two -/

theorem pow_split (cnt : Nat) : B ^ (cnt / 64) * 2 ^ (cnt % 64) = 2 ^ cnt := by
  rw [B_pow, ← Nat.pow_add]; congr 1; omega

theorem div_split (a cnt : Nat) : a / B ^ (cnt / 64) / 2 ^ (cnt % 64) = a / 2 ^ cnt := by
  rw [Nat.div_div_eq_div_mul, pow_split]

theorem mod_split (a cnt : Nat) :
    a % 2 ^ cnt = a % B ^ (cnt / 64) + B ^ (cnt / 64) * (a / B ^ (cnt / 64) % 2 ^ (cnt % 64)) := by
  rw [← pow_split cnt, Nat.mod_mul]

theorem Bpow_pos (k : Nat) : 0 < B ^ k := Nat.pow_pos (by decide)

theorem lt_two_pow_of_size {a cnt : Nat} (h : sizeNat a ≤ cnt / 64) : a < 2 ^ cnt := by
  have h1 := (sizeNat_le_iff a _).mp h
  have h2 : B ^ (cnt / 64) ≤ B ^ (cnt / 64) * 2 ^ (cnt % 64) := Nat.le_mul_of_pos_right _ (Nat.pow_pos (by decide))
  rw [pow_split] at h2; omega

theorem two_pow_dvd_Bsucc (cnt : Nat) : 2 ^ cnt ∣ B ^ (cnt / 64 + 1) := by
  rw [B_pow]; exact Nat.pow_dvd_pow 2 (by omega)

theorem mod_Bsucc_mod (a cnt : Nat) : (a % B ^ (cnt / 64 + 1)) % (B ^ (cnt / 64) * 2 ^ (cnt % 64)) = a % 2 ^ cnt := by
  rw [pow_split]; exact Nat.mod_mod_of_dvd a (two_pow_dvd_Bsucc cnt)

theorem limb_mod (h cnt : Nat) : (h % B) % 2 ^ (cnt % 64) = h % 2 ^ (cnt % 64) := by
  apply Nat.mod_mod_of_dvd
  unfold B; exact Nat.pow_dvd_pow 2 (by omega)

theorem low_bits_ne_zero_iff (a cnt : Nat) :
    (a % B ^ (cnt / 64) ≠ 0 ∨ a / B ^ (cnt / 64) % 2 ^ (cnt % 64) ≠ 0) ↔ a % 2 ^ cnt ≠ 0 := by
  rw [mod_split a cnt]
  have hp := Bpow_pos (cnt / 64)
  generalize a % B ^ (cnt / 64) = p
  generalize a / B ^ (cnt / 64) % 2 ^ (cnt % 64) = q
  generalize B ^ (cnt / 64) = b at *
  simp only [ne_eq, Nat.add_eq_zero_iff, Nat.mul_eq_zero]
  constructor
  · rintro (h | h) ⟨h1, h2 | h2⟩ <;> omega
  · intro h; by_cases h1 : p = 0
    · right; intro h2; exact h ⟨h1, Or.inr h2⟩
    · exact Or.inl h1

theorem neg_mod_pow {a cnt : Nat} (h : a % 2 ^ cnt ≠ 0) :
    a % B ^ (cnt / 64 + 1) ≠ 0 ∧
    (B ^ (cnt / 64 + 1) - a % B ^ (cnt / 64 + 1)) % (B ^ (cnt / 64) * 2 ^ (cnt % 64)) = 2 ^ cnt - a % 2 ^ cnt := by
  rw [pow_split]
  obtain ⟨k, hk⟩ := two_pow_dvd_Bsucc cnt
  have hMpos := Bpow_pos (cnt / 64 + 1)
  generalize B ^ (cnt / 64 + 1) = M at *
  generalize hm : 2 ^ cnt = m at *
  have hmpos : 0 < m := by rw [← hm]; exact Nat.pow_pos (by decide)
  subst hk
  have ht : (a % (m * k)) % m = a % m := Nat.mod_mod_of_dvd a (Dvd.intro k rfl)
  generalize hr : a % (m * k) = r at *
  generalize a % m = t at *
  have hkpos : 0 < k := by
    rcases Nat.eq_zero_or_pos k with h0 | h0
    · subst h0; simp at hMpos
    · exact h0
  have hrlt : r < m * k := by rw [← hr]; exact Nat.mod_lt _ (Nat.mul_pos hmpos hkpos)
  refine ⟨by intro h0; rw [h0, Nat.zero_mod] at ht; omega, ?_⟩
  have hdm := Nat.div_add_mod r m
  have hj : r / m < k := (Nat.div_lt_iff_lt_mul hmpos).mpr (by rw [Nat.mul_comm]; exact hrlt)
  obtain ⟨e, he⟩ := Nat.exists_eq_add_of_lt hj
  have hlt : r % m < m := Nat.mod_lt _ hmpos
  have : m * k - r = m * e + (m - r % m) := by
    subst he
    have : m * (r / m + e + 1) = m * (r / m) + m * e + m := by ring
    omega
  rw [this, Nat.mul_add_mod, ht, Nat.mod_eq_of_lt (by omega)]

theorem tdiv_natCast (x : Int) (u : Nat) :
    Int.tdiv x u = if 0 ≤ x then ((x.natAbs / u : Nat) : Int) else -((x.natAbs / u : Nat) : Int) := by
  have hq := tdiv_sign_mag x u
  have hy0 : ¬ ((u : Int) < 0) := by omega
  simp only [Int.natAbs_natCast, hy0, iff_false, not_lt] at hq
  exact hq

theorem tmod_natCast (x : Int) (u : Nat) :
    Int.tmod x u = if 0 ≤ x then ((x.natAbs % u : Nat) : Int) else -((x.natAbs % u : Nat) : Int) := by
  have hr := tmod_sign_mag x u
  simp only [Int.natAbs_natCast] at hr
  exact hr

theorem wsize_le_iff (x : Int) (cnt : Nat) :
    ((siz x).natAbs : Int) - ((cnt / 64 : Nat) : Int) ≤ 0 ↔ sizeNat x.natAbs ≤ cnt / 64 := by
  rw [siz_natAbs]; omega

theorem tdiv_q_2exp_eq (s : Store) (w u cnt : Nat) :
    tdiv_q_2exp s w u cnt = s.set w (Int.tdiv (s u) ((2 ^ cnt : Nat) : Int)) := by
  unfold tdiv_q_2exp
  simp only [wsize_le_iff, tdiv_natCast, ge_iff_le, siz_nonneg_iff]
  split
  · rename_i h
    rw [Nat.div_eq_of_lt (lt_two_pow_of_size h)]; simp
  · have e : (if cnt % 64 ≠ 0 then (s u).natAbs / B ^ (cnt / 64) / 2 ^ (cnt % 64) else (s u).natAbs / B ^ (cnt / 64)) = (s u).natAbs / 2 ^ cnt := by
      rw [← div_split (s u).natAbs cnt]; split_ifs with hc
      · rfl
      · have : cnt % 64 = 0 := by omega
        rw [this]; simp
    rw [e]

theorem tdiv_r_2exp_eq (s : Store) (w u cnt : Nat) :
    tdiv_r_2exp s w u cnt = s.set w (Int.tmod (s u) ((2 ^ cnt : Nat) : Int)) := by
  unfold tdiv_r_2exp
  simp only [tmod_natCast, ge_iff_le, siz_nonneg_iff, siz_natAbs, limb_mod]
  congr 1
  have e : (if sizeNat (s u).natAbs > cnt / 64 then
        (if (s u).natAbs / B ^ (cnt / 64) % 2 ^ (cnt % 64) ≠ 0 then
          (s u).natAbs / B ^ (cnt / 64) % 2 ^ (cnt % 64) * B ^ (cnt / 64) + (s u).natAbs % B ^ (cnt / 64)
        else (s u).natAbs % B ^ (cnt / 64))
      else (s u).natAbs) = (s u).natAbs % 2 ^ cnt := by
    split_ifs with h1 h2
    · rw [mod_split (s u).natAbs cnt]; ring
    · rw [mod_split (s u).natAbs cnt]; simp only [ne_eq, not_not] at h2; rw [h2]; simp
    · rw [Nat.mod_eq_of_lt (lt_two_pow_of_size (by omega))]
  rw [e]

theorem sameSign_dir (sz dir : Int) (hdir : dir = -1 ∨ dir = 1) :
    sameSign sz dir ↔ ((dir = -1 ∧ sz < 0) ∨ (dir = 1 ∧ sz ≥ 0)) := by
  unfold sameSign; rcases hdir with rfl | rfl <;> omega

theorem cfdiv_q_2exp_eq (dir : Int) (hdir : dir = -1 ∨ dir = 1) (s : Store) (w u cnt : Nat) :
    cfdiv_q_2exp s w u cnt dir = s.set w (specQ dir (s u) ((2 ^ cnt : Nat) : Int)) := by
  have hpos : (2 ^ cnt : Nat) ≠ 0 := (Nat.pow_pos (by decide)).ne'
  obtain ⟨hQ, _⟩ := spec_ui dir (Or.inr hdir) (s u) (2 ^ cnt) hpos
  rw [hQ]
  unfold cfdiv_q_2exp
  simp only [wsize_le_iff]
  have hz : siz (s u) = 0 ↔ s u = 0 := siz_eq_zero
  have hn : siz (s u) < 0 ↔ s u < 0 := siz_neg_iff
  have ha : (s u).natAbs = 0 ↔ s u = 0 := Int.natAbs_eq_zero
  split
  · rename_i h
    have hlt := lt_two_pow_of_size h
    rw [Nat.div_eq_of_lt hlt, Nat.mod_eq_of_lt hlt]
    congr 1
    unfold uiAdjust
    simp only [sameSign_dir _ _ hdir]
    generalize siz (s u) = sz at *
    generalize (s u).natAbs = a at *
    rcases hdir with rfl | rfl <;> simp only [Int.reduceNeg, Int.reduceEq, true_and, false_and, or_false, false_or] <;> split_ifs <;> omega
  · have e : (if cnt % 64 ≠ 0 then (s u).natAbs / B ^ (cnt / 64) / 2 ^ (cnt % 64) else (s u).natAbs / B ^ (cnt / 64)) = (s u).natAbs / 2 ^ cnt := by
      rw [← div_split (s u).natAbs cnt]; split_ifs with hc
      · rfl
      · have : cnt % 64 = 0 := by omega
        rw [this]; simp
    have er : (if cnt % 64 ≠ 0 then
          (decide (sameSign (siz (s u)) dir) && decide ((s u).natAbs % B ^ (cnt / 64) ≠ 0) ||
            decide (sameSign (siz (s u)) dir) && decide ((s u).natAbs / B ^ (cnt / 64) % 2 ^ (cnt % 64) ≠ 0))
        else (decide (sameSign (siz (s u)) dir) && decide ((s u).natAbs % B ^ (cnt / 64) ≠ 0))) =
        decide (uiAdjust dir ((s u).natAbs % 2 ^ cnt) (siz (s u))) := by
      have h1 := low_bits_ne_zero_iff (s u).natAbs cnt
      have h2 := sameSign_dir (siz (s u)) dir hdir
      rw [Bool.eq_iff_iff, decide_eq_true_eq]
      unfold uiAdjust
      by_cases hc : cnt % 64 = 0
      · simp only [hc, ne_eq, not_true_eq_false, if_false, pow_zero, Nat.mod_one, or_false, Bool.and_eq_true,
          decide_eq_true_eq, not_false_eq_true] at h1 ⊢
        rw [← h1, ← h2]; exact and_comm
      · simp only [hc, ne_eq, not_false_eq_true, if_true, Bool.or_eq_true, Bool.and_eq_true, decide_eq_true_eq] at h1 ⊢
        rw [← h1, ← h2]
        constructor
        · rintro (⟨hp, hx⟩ | ⟨hp, hy⟩)
          · exact ⟨Or.inl hx, hp⟩
          · exact ⟨Or.inr hy, hp⟩
        · rintro ⟨hx | hy, hp⟩
          · exact Or.inl ⟨hp, hx⟩
          · exact Or.inr ⟨hp, hy⟩
    rw [e, er]
    congr 1
    by_cases hadj : uiAdjust dir ((s u).natAbs % 2 ^ cnt) (siz (s u))
    · simp only [hadj, decide_true, if_true, ge_iff_le, siz_nonneg_iff]
      have : (if (s u).natAbs / 2 ^ cnt ≠ 0 then (s u).natAbs / 2 ^ cnt + 1 else 1) = (s u).natAbs / 2 ^ cnt + 1 := by
        split_ifs with h0
        · rfl
        · simp only [ne_eq, not_not] at h0; rw [h0]
      rw [this]
    · simp only [hadj, decide_false, if_false, ge_iff_le, siz_nonneg_iff, Bool.false_eq_true]

theorem negate_iff (a cnt : Nat) (ha : a ≠ 0) :
    (decide (sizeNat a ≤ cnt / 64) || decide (a % B ^ (cnt / 64) ≠ 0) ||
      decide ((a / B ^ (cnt / 64) % B) % 2 ^ (cnt % 64) ≠ 0)) = true ↔ a % 2 ^ cnt ≠ 0 := by
  simp only [Bool.or_eq_true, decide_eq_true_eq, limb_mod]
  rw [← low_bits_ne_zero_iff a cnt]
  constructor
  · rintro ((h | h) | h)
    · left; rw [Nat.mod_eq_of_lt ((sizeNat_le_iff a _).mp h)]; exact ha
    · exact Or.inl h
    · exact Or.inr h
  · rintro (h | h)
    · exact Or.inl (Or.inr h)
    · exact Or.inr h

theorem sub_one_add_one {M r : Nat} (h : r < M) (h0 : r ≠ 0) : M - 1 - r + 1 = M - r ∧ ¬ (M - r ≥ M) := by omega

theorem cfdiv_r_2exp_eq (dir : Int) (hdir : dir = -1 ∨ dir = 1) (s : Store) (w u cnt : Nat) :
    cfdiv_r_2exp s w u cnt dir = .ok (s.set w (specR dir (s u) ((2 ^ cnt : Nat) : Int))) := by
  have hpos : (2 ^ cnt : Nat) ≠ 0 := (Nat.pow_pos (by decide)).ne'
  obtain ⟨_, hR⟩ := spec_ui dir (Or.inr hdir) (s u) (2 ^ cnt) hpos
  rw [hR]
  unfold cfdiv_r_2exp
  dsimp only
  have hzz : siz (s u) = 0 ↔ s u = 0 := siz_eq_zero
  have hn : siz (s u) < 0 ↔ s u < 0 := siz_neg_iff
  have ha0 : (s u).natAbs = 0 ↔ s u = 0 := Int.natAbs_eq_zero
  have hsd := sameSign_dir (siz (s u)) dir hdir
  by_cases hz : siz (s u) = 0
  · have h0 : s u = 0 := hzz.mp hz
    simp only [hz, if_true]
    simp [h0]
  · have hx : s u ≠ 0 := fun h => hz (hzz.mpr h)
    have ha : (s u).natAbs ≠ 0 := fun h => hx (ha0.mp h)
    simp only [hz, if_false, siz_natAbs]
    by_cases hs : sameSign (siz (s u)) dir
    · have hadj : ∀ m, m ≠ 0 → uiAdjust dir m (siz (s u)) := fun m hm => ⟨hm, hsd.mp hs⟩
      simp only [hs, not_true_eq_false, if_false]
      by_cases hm : (s u).natAbs % 2 ^ cnt = 0
      · have hneg : ¬ ((decide (sizeNat (s u).natAbs ≤ cnt / 64) || decide ((s u).natAbs % B ^ (cnt / 64) ≠ 0) ||
            decide (((s u).natAbs / B ^ (cnt / 64) % B) % 2 ^ (cnt % 64) ≠ 0)) = true) := by
          rw [negate_iff _ _ ha]; simpa using hm
        simp only [hneg, Bool.false_eq_true, not_false_eq_true, if_true, hm]
      · have hneg : (decide (sizeNat (s u).natAbs ≤ cnt / 64) || decide ((s u).natAbs % B ^ (cnt / 64) ≠ 0) ||
            decide (((s u).natAbs / B ^ (cnt / 64) % B) % 2 ^ (cnt % 64) ≠ 0)) = true := (negate_iff _ _ ha).mpr hm
        obtain ⟨hr0, hval⟩ := neg_mod_pow hm
        have hrlt : (s u).natAbs % B ^ (cnt / 64 + 1) < B ^ (cnt / 64 + 1) := Nat.mod_lt _ (Bpow_pos _)
        obtain ⟨e1, e2⟩ := sub_one_add_one hrlt hr0
        simp only [hneg, not_true_eq_false, if_false, e1, e2, hval, hm, hadj _ hm, if_true]
        congr 2
        unfold uiRem
        generalize siz (s u) = sz at *
        generalize (2 ^ cnt - (s u).natAbs % 2 ^ cnt) = m at *
        have hs' := hsd.mp hs
        rcases hdir with rfl | rfl <;> simp only [Int.reduceNeg, Int.reduceEq, true_and, false_and, or_false, false_or, if_true, if_false] at hs' ⊢ <;> split_ifs <;> omega
    · have hnadj : ∀ m, ¬ uiAdjust dir m (siz (s u)) := fun m h => hs (hsd.mpr h.2)
      simp only [hs, not_false_eq_true, if_true, hnadj, if_false]
      by_cases hsz : sizeNat (s u).natAbs ≤ cnt / 64
      · have hlt := lt_two_pow_of_size hsz
        simp only [hsz, if_true, Nat.mod_eq_of_lt hlt, ha, if_false]
        congr 1
        have hv : s u = uiRem dir (siz (s u)) (s u).natAbs := by
          unfold uiRem
          generalize siz (s u) = sz at *
          have hs' : ¬ (dir = -1 ∧ sz < 0 ∨ dir = 1 ∧ sz ≥ 0) := fun h => hs (hsd.mpr h)
          rcases hdir with rfl | rfl <;> simp only [Int.reduceNeg, Int.reduceEq, true_and, false_and, or_false, false_or, if_true, if_false] at hs' ⊢ <;> omega
        rw [← hv]
        by_cases hwu : w = u
        · subst hwu; simp only [if_true]; funext j; simp only [Store.set_apply]; split_ifs with h <;> simp [h]
        · simp only [hwu, if_false]
      · simp only [hsz, if_false, mod_Bsucc_mod]
        congr 2
        unfold uiRem
        generalize siz (s u) = sz at *
        generalize (s u).natAbs % 2 ^ cnt = m at *
        have hs' : ¬ (dir = -1 ∧ sz < 0 ∨ dir = 1 ∧ sz ≥ 0) := fun h => hs (hsd.mpr h)
        rcases hdir with rfl | rfl <;> simp only [Int.reduceNeg, Int.reduceEq, true_and, false_and, or_false, false_or, if_true, if_false] at hs' ⊢ <;> split_ifs <;> omega

/-! ### divisibility -/

theorem ctz_spec : ∀ (d : Nat), d ≠ 0 → 2 ^ ctz d ∣ d ∧ (d / 2 ^ ctz d) % 2 = 1 := by
  intro d
  induction d using Nat.strongRecOn with
  | _ d ih =>
    intro hd
    unfold ctz
    simp only [hd, dite_false]
    split
    · rename_i h1; simp [h1]
    · rename_i h1
      have h2 : d % 2 = 0 := by omega
      have hd2 : d / 2 ≠ 0 := by omega
      obtain ⟨i1, i2⟩ := ih (d / 2) (by omega) hd2
      have e : 2 ^ (1 + ctz (d / 2)) = 2 * 2 ^ ctz (d / 2) := by rw [Nat.pow_add]
      rw [e]
      constructor
      · have : d = 2 * (d / 2) := by omega
        rw [this]; exact Nat.mul_dvd_mul_left 2 (by rw [← this]; exact i1)
      · rw [← Nat.div_div_eq_div_mul]; exact i2

theorem coprime_two_pow_odd (t n : Nat) (h : n % 2 = 1) : Nat.Coprime (2 ^ t) n := by
  apply Nat.Coprime.pow_left
  unfold Nat.Coprime
  rw [Nat.gcd_rec, h]; simp

theorem mod_eq_zero_beq (a d : Nat) : (a % d == 0) = true ↔ d ∣ a := by
  rw [beq_iff_eq, Nat.dvd_iff_mod_eq_zero]

theorem divisible_p_iff' (a d : Int) : divisible_p a d = true ↔ d ∣ a := by
  unfold divisible_p mpn_divisible_p
  simp only [siz_eq_zero]
  by_cases hd : d = 0
  · subst hd; simp
  · simp only [hd, if_false, mod_eq_zero_beq, Int.natAbs_dvd_natAbs]

theorem divisible_ui_p_iff' (thr : Nat) (a : Int) (d : Nat) (hdB : d < B) :
    divisible_ui_p thr a d = true ↔ (d : Int) ∣ a := by
  unfold divisible_ui_p mpn_mod_1
  simp only [siz_eq_zero]
  have hcast : ∀ k : Nat, (k : Int) ∣ a ↔ k ∣ a.natAbs := fun k => by
    rw [← Int.natAbs_dvd_natAbs]; simp
  by_cases hd : d = 0
  · subst hd; simp
  · simp only [hd, if_false]
    by_cases ha : a = 0
    · subst ha; simp
    · simp only [ha, if_false, hcast]
      split
      · exact mod_eq_zero_beq _ _
      · split
        · obtain ⟨c1, c2⟩ := ctz_spec d hd
          have ht : 2 ^ ctz d ∣ B := by
            have hle : 2 ^ ctz d ≤ d := Nat.le_of_dvd (by omega) c1
            have : ctz d < 64 := by
              by_contra hge
              have : 2 ^ 64 ≤ 2 ^ ctz d := Nat.pow_le_pow_right (by decide) (by omega)
              unfold B at hdB; omega
            unfold B; exact Nat.pow_dvd_pow 2 (by omega)
          have hlz : lowZerosMod d = 2 ^ ctz d := by unfold lowZerosMod; simp [hd]
          rw [hlz, Nat.mod_mod_of_dvd _ ht]
          have hpos : 0 < 2 ^ ctz d := Nat.pow_pos (by decide)
          have hcop : ∀ n, n % 2 = 1 → Nat.Coprime (2 ^ ctz d) n := fun n hn => coprime_two_pow_odd _ n hn
          generalize 2 ^ ctz d = p at *
          obtain ⟨d', hd'⟩ := c1
          have hdd : d / p = d' := by rw [hd']; exact Nat.mul_div_cancel_left _ hpos
          rw [hdd] at c2 ⊢
          split
          · rename_i hne
            constructor
            · intro h; exact absurd h (by simp)
            · intro h
              have : p ∣ a.natAbs := Nat.dvd_trans (Dvd.intro _ hd'.symm) h
              exact absurd (Nat.dvd_iff_mod_eq_zero.mp this) hne
          · rename_i hne
            simp only [ne_eq, not_not] at hne
            rw [mod_eq_zero_beq]
            constructor
            · intro h
              rw [hd']
              exact Nat.Coprime.mul_dvd_of_dvd_of_dvd (hcop _ c2) (Nat.dvd_iff_mod_eq_zero.mpr hne) h
            · intro h; exact Nat.dvd_trans (Dvd.intro_left _ hd'.symm) h
        · exact mod_eq_zero_beq _ _

theorem divisible_2exp_p_iff' (a : Int) (d : Nat) :
    divisible_2exp_p a d = true ↔ ((2 ^ d : Nat) : Int) ∣ a := by
  have hcast : ((2 ^ d : Nat) : Int) ∣ a ↔ 2 ^ d ∣ a.natAbs := by
    rw [← Int.natAbs_dvd_natAbs]; simp
  rw [hcast, Nat.dvd_iff_mod_eq_zero]
  unfold divisible_2exp_p
  simp only [siz_natAbs, limb_mod]
  split
  · rename_i h
    have hlt := lt_two_pow_of_size h
    rw [Nat.mod_eq_of_lt hlt]; simp [sizeNat_eq_zero]
  · have hl := low_bits_ne_zero_iff a.natAbs d
    split
    · rename_i h1
      constructor
      · intro h; exact absurd h (by simp)
      · intro h; exact absurd h (hl.mp (Or.inl h1))
    · rename_i h1
      simp only [ne_eq, not_not] at h1
      simp only [decide_eq_true_eq]
      constructor
      · intro h; by_contra hne; rcases hl.mpr hne with h2 | h2
        · exact h2 h1
        · exact h2 h
      · intro h; by_contra hne; exact (hl.mp (Or.inr hne)) h

theorem divexact_eq (s : Store) (q n d : Nat) (hd : s d ≠ 0) :
    divexact s q n d = .ok (s.set q (Int.tdiv (s n) (s d))) := by
  have hdl := siz_natAbs_ne_zero hd
  unfold divexact mpn_divexact
  simp only [hdl, if_false]
  split
  · rename_i h
    have hlt : (s n).natAbs < (s d).natAbs := lt_of_sizeNat_lt (by rw [siz_natAbs, siz_natAbs] at h; exact h)
    rw [(tdiv_tmod_of_natAbs_lt hlt).1]
  · simp only [tdiv_sign_mag (s n) (s d), sameSign_siz]

theorem divexact_ui_eq (s : Store) (q n : Nat) (u : Nat) (hu : u ≠ 0) :
    divexact_ui s q n u = .ok (s.set q (Int.tdiv (s n) u)) := by
  unfold divexact_ui mpn_divexact
  simp only [hu, if_false, siz_eq_zero]
  split
  · rename_i h; rw [h]; simp
  · simp only [tdiv_natCast, ge_iff_le, siz_nonneg_iff]

/-! ### congruences -/

/-- NEG_MOD: the result is congruent to -a modulo d (and is a limb) -/
theorem negMod_spec (a d : Nat) (hd : d ≠ 0) (ha : a < B) (hdB : d < B) : d ∣ negMod a d + a ∧ negMod a d < B := by
  unfold negMod
  split
  · rename_i h
    constructor
    · have : d - a + a = d := by omega
      rw [this]
    · omega
  · rename_i h
    have h1 := Nat.log2_self_le hd
    have h2 := @Nat.lt_log2_self d
    have hl : d.log2 < 64 := (Nat.log2_lt hd).mpr (by unfold B at hdB; exact hdB)
    -- dnorm = d * 2^(63 - log2 d) is in [2^63, 2^64)
    have e : 2 ^ (d.log2 + 1) * 2 ^ (63 - d.log2) = B := by unfold B; rw [← Nat.pow_add]; congr 1; omega
    have e' : 2 ^ d.log2 * 2 ^ (63 - d.log2) = B / 2 := by
      have : 2 ^ d.log2 * 2 ^ (63 - d.log2) = 2 ^ 63 := by rw [← Nat.pow_add]; congr 1; omega
      rw [this]; unfold B; decide
    have hp : 0 < 2 ^ (63 - d.log2) := Nat.pow_pos (by decide)
    have hn1 : d * 2 ^ (63 - d.log2) < B := by rw [← e]; exact Nat.mul_lt_mul_of_pos_right h2 hp
    have hn2 : B / 2 ≤ d * 2 ^ (63 - d.log2) := by rw [← e']; exact Nat.mul_le_mul_right _ h1
    have hB : B = 2 * (B / 2) := by unfold B; decide
    dsimp only
    generalize hk : 2 ^ (63 - d.log2) = k at *
    rw [Nat.mod_eq_of_lt hn1]
    have hdvd : d ∣ d * k := Dvd.intro _ rfl
    generalize hn : d * k = dn at *
    split
    · rename_i h3
      have : (dn + B - a) % B = dn - a := by
        have : dn + B - a = (dn - a) + B := by omega
        rw [this, Nat.add_mod_right, Nat.mod_eq_of_lt (by omega)]
      rw [this]
      constructor
      · have : dn - a + a = dn := by omega
        rw [this]; exact hdvd
      · omega
    · rename_i h3
      have h4 : (2 * dn) % B = 2 * dn - B := by
        have : 2 * dn = (2 * dn - B) + B := by omega
        rw [this, Nat.add_mod_right, Nat.mod_eq_of_lt (by omega)]; omega
      rw [h4]
      have : (2 * dn - B + B - a) % B = 2 * dn - a := by
        have : 2 * dn - B + B - a = 2 * dn - a := by omega
        rw [this, Nat.mod_eq_of_lt (by omega)]
      rw [this]
      constructor
      · have : 2 * dn - a + a = 2 * dn := by omega
        rw [this]; exact Dvd.dvd.mul_left hdvd 2
      · omega

/-- a - c in terms of magnitudes: with s = +1 if the signs agree and -1 otherwise, a - c = ±(|a| - s|c|) -/
theorem dvd_sub_iff_mag (a c m : Int) :
    m ∣ a - c ↔ m ∣ (a.natAbs : Int) - (if (a < 0 ↔ c < 0) then (c.natAbs : Int) else -(c.natAbs : Int)) := by
  split
  · rename_i h
    by_cases ha : a < 0
    · have hc : c < 0 := h.mp ha
      have : (a.natAbs : Int) - c.natAbs = -(a - c) := by omega
      rw [this, Int.dvd_neg]
    · have hc : ¬ c < 0 := fun hc => ha (h.mpr hc)
      have : (a.natAbs : Int) - c.natAbs = a - c := by omega
      rw [this]
  · rename_i h
    by_cases ha : a < 0
    · have hc : ¬ c < 0 := fun hc => h ⟨fun _ => hc, fun _ => ha⟩
      have : (a.natAbs : Int) - -(c.natAbs : Int) = -(a - c) := by omega
      rw [this, Int.dvd_neg]
    · have hc : c < 0 := by
        by_contra hc; exact h ⟨fun h1 => absurd h1 ha, fun h1 => absurd h1 hc⟩
      have : (a.natAbs : Int) - -(c.natAbs : Int) = a - c := by omega
      rw [this]

/-- signed magnitude of c relative to a: +C if the signs agree, -C otherwise -/
def sgnC (same : Prop) [Decidable same] (C : Nat) : Int := if same then (C : Int) else -(C : Int)

theorem nat_mod_eq_zero_iff_int_dvd (x m : Nat) : x % m = 0 ↔ (m : Int) ∣ (x : Int) := by
  rw [Int.natCast_dvd_natCast, Nat.dvd_iff_mod_eq_zero]

theorem B_dvd_negLow (A : Nat) : (B : Int) ∣ (((B - A % B) % B : Nat) : Int) + (A : Int) := by
  have hB : 0 < B := by unfold B; decide
  have hr : A % B < B := Nat.mod_lt _ hB
  have hd : (B : Int) ∣ (A : Int) - ((A % B : Nat) : Int) := by
    rw [Int.natCast_emod]; exact Int.dvd_self_sub_emod
  by_cases h0 : A % B = 0
  · rw [h0] at hd ⊢; simp at hd ⊢; exact hd
  · rw [Nat.mod_eq_of_lt (by omega)]
    have : (((B - A % B : Nat)) : Int) + (A : Int) = (B : Int) + ((A : Int) - ((A % B : Nat) : Int)) := by omega
    rw [this]; exact Int.dvd_add (Int.dvd_refl _) hd

/-- the low-bits quick rejection of cong.c:91-94 and cong_ui.c:98 -/
theorem quick_iff (same : Prop) [Decidable same] (A C m : Nat) (hmB : m ∣ B) :
    (((if same then A % B else (B - A % B) % B) + B - C % B) % B) % m = 0 ↔ (m : Int) ∣ (A : Int) - sgnC same C := by
  have hB : 0 < B := by unfold B; decide
  have hc : C % B < B := Nat.mod_lt _ hB
  rw [Nat.mod_mod_of_dvd _ hmB, nat_mod_eq_zero_iff_int_dvd]
  have hmB' : (m : Int) ∣ (B : Int) := Int.natCast_dvd_natCast.mpr hmB
  have hC : (B : Int) ∣ (C : Int) - ((C % B : Nat) : Int) := by rw [Int.natCast_emod]; exact Int.dvd_self_sub_emod
  have hA : (B : Int) ∣ (A : Int) - ((A % B : Nat) : Int) := by rw [Int.natCast_emod]; exact Int.dvd_self_sub_emod
  unfold sgnC
  by_cases hs : same
  · simp only [hs, if_true]
    apply Int.dvd_iff_dvd_of_dvd_sub
    have : ((A % B + B - C % B : Nat) : Int) - ((A : Int) - (C : Int)) =
        (B : Int) - ((A : Int) - ((A % B : Nat) : Int)) + ((C : Int) - ((C % B : Nat) : Int)) := by omega
    rw [this]
    exact Int.dvd_trans hmB' (Int.dvd_add (Int.dvd_sub (Int.dvd_refl _) hA) hC)
  · simp only [hs, if_false]
    have hN := B_dvd_negLow A
    rw [← Int.dvd_neg (b := (A : Int) - -(C : Int))]
    apply Int.dvd_iff_dvd_of_dvd_sub
    have : (((B - A % B) % B + B - C % B : Nat) : Int) - -((A : Int) - -(C : Int)) =
        ((((B - A % B) % B : Nat) : Int) + (A : Int)) + (B : Int) + ((C : Int) - ((C % B : Nat) : Int)) := by omega
    rw [this]
    exact Int.dvd_trans hmB' (Int.dvd_add (Int.dvd_add hN (Int.dvd_refl _)) hC)

/-- |a - c| as computed by cong.c:151-168 -/
theorem general_iff (same : Prop) [Decidable same] (A C D : Nat) :
    mpn_divisible_p (if same then (if A ≥ C then A - C else C - A) else A + C) D = true ↔
      (D : Int) ∣ (A : Int) - sgnC same C := by
  unfold mpn_divisible_p sgnC
  rw [mod_eq_zero_beq, ← Int.natCast_dvd_natCast]
  by_cases hs : same
  · simp only [hs, if_true]
    split
    · have : ((A - C : Nat) : Int) = (A : Int) - C := by omega
      rw [this]
    · have : ((C - A : Nat) : Int) = -((A : Int) - C) := by omega
      rw [this, Int.dvd_neg]
  · simp only [hs, if_false]
    have : ((A + C : Nat) : Int) = (A : Int) - -(C : Int) := by omega
    rw [this]

/-- the `cong_1` block of cong.c:100-125 (and the tail of cong_ui.c), as it appears inside the models -/
def cong1 (same : Prop) [Decidable same] (thr asize A : Nat) (dlow clow : Nat) : Bool :=
  let clow := if same then clow else negMod clow dlow
  if asize < thr then
    let r := mpn_mod_1 A dlow
    if clow < dlow then r == clow else r == clow % dlow
  else
    let dlow := if dlow % 2 = 0 then dlow / 2 ^ ctz dlow else dlow
    modexact_1c_odd_divides A dlow clow

theorem nat_mod_eq_iff (A c D : Nat) : A % D = c % D ↔ (D : Int) ∣ (A : Int) - (c : Int) := by
  rw [Int.dvd_iff_emod_eq_zero, ← Int.emod_eq_emod_iff_emod_sub_eq_zero, ← Int.natCast_emod, ← Int.natCast_emod]
  exact Int.natCast_inj.symm

theorem int_coprime_mul_dvd {p q : Nat} (hc : Nat.Coprime p q) {x : Int} (hp : (p : Int) ∣ x) (hq : (q : Int) ∣ x) :
    ((p * q : Nat) : Int) ∣ x := by
  rw [Int.natCast_dvd] at *
  exact Nat.Coprime.mul_dvd_of_dvd_of_dvd hc hp hq

theorem cong1_iff (same : Prop) [Decidable same] (thr asize A D1 cl : Nat) (hD0 : D1 ≠ 0) (hDB : D1 < B) (hcl : cl < B)
    (hq : ((2 ^ ctz D1 : Nat) : Int) ∣ (A : Int) - sgnC same cl) :
    cong1 same thr asize A D1 cl = true ↔ (D1 : Int) ∣ (A : Int) - sgnC same cl := by
  unfold cong1
  -- the adjusted c is congruent to ±c modulo D1
  have hF : (D1 : Int) ∣ ((if same then cl else negMod cl D1 : Nat) : Int) - sgnC same cl := by
    unfold sgnC
    by_cases hs : same
    · simp [hs]
    · simp only [hs, if_false]
      have := (negMod_spec cl D1 hD0 hcl hDB).1
      have h2 : ((negMod cl D1 : Nat) : Int) - -(cl : Int) = ((negMod cl D1 + cl : Nat) : Int) := by omega
      rw [h2]; exact Int.natCast_dvd_natCast.mpr this
  generalize (if same then cl else negMod cl D1) = cl' at *
  have hswap : ∀ D2 : Nat, D2 ∣ D1 → (((D2 : Int) ∣ (A : Int) - (cl' : Int)) ↔ (D2 : Int) ∣ (A : Int) - sgnC same cl) := by
    intro D2 h2
    apply Int.dvd_iff_dvd_of_dvd_sub
    have : (A : Int) - (cl' : Int) - ((A : Int) - sgnC same cl) = -((cl' : Int) - sgnC same cl) := by omega
    rw [this, Int.dvd_neg]
    exact Int.dvd_trans (Int.natCast_dvd_natCast.mpr h2) hF
  dsimp only
  split
  · -- mpn_mod_1 branch
    unfold mpn_mod_1
    rw [← hswap D1 (Nat.dvd_refl _), ← nat_mod_eq_iff]
    split
    · rename_i h; rw [beq_iff_eq, Nat.mod_eq_of_lt h]
    · rw [beq_iff_eq]
  · -- modexact branch
    unfold modexact_1c_odd_divides
    rw [beq_iff_eq, ← Int.dvd_iff_emod_eq_zero]
    split
    · rename_i _ heven
      obtain ⟨c1, c2⟩ := ctz_spec D1 hD0
      have hcop := coprime_two_pow_odd (ctz D1) _ c2
      have hpos : 0 < 2 ^ ctz D1 := Nat.pow_pos (by decide)
      generalize 2 ^ ctz D1 = p at *
      obtain ⟨D2, hD2⟩ := c1
      have hdd : D1 / p = D2 := by rw [hD2]; exact Nat.mul_div_cancel_left _ hpos
      rw [hdd] at hcop ⊢
      rw [hswap D2 (Dvd.intro_left _ hD2.symm)]
      constructor
      · intro h; rw [hD2]; exact int_coprime_mul_dvd hcop hq h
      · intro h; exact Int.dvd_trans (Int.natCast_dvd_natCast.mpr (Dvd.intro_left _ hD2.symm)) h
    · exact hswap D1 (Nat.dvd_refl _)

theorem two_pow_ctz_dvd_B {d : Nat} (hd : d ≠ 0) (hdB : d < B) : 2 ^ ctz d ∣ B := by
  obtain ⟨c1, _⟩ := ctz_spec d hd
  have hle : 2 ^ ctz d ≤ d := Nat.le_of_dvd (by omega) c1
  have : ctz d < 64 := by
    by_contra hge
    have : 2 ^ 64 ≤ 2 ^ ctz d := Nat.pow_le_pow_right (by decide) (by omega)
    unfold B at hdB; omega
  unfold B; exact Nat.pow_dvd_pow 2 (by omega)

theorem congruent_ui_p_iff' (thr : Nat) (a : Int) (cu du : Nat) (hcB : cu < B) (hdB : du < B) :
    congruent_ui_p thr a cu du = true ↔ (du : Int) ∣ a - (cu : Int) := by
  unfold congruent_ui_p
  by_cases hd : du = 0
  · subst hd
    simp only [if_true, decide_eq_true_eq, Int.natCast_zero, Int.zero_dvd]; omega
  · simp only [hd, if_false, siz_eq_zero]
    by_cases ha : a = 0
    · subst ha
      simp only [if_true, Int.zero_sub, Int.dvd_neg, Int.natCast_dvd_natCast]
      split
      · rename_i h
        rw [decide_eq_true_eq]
        constructor
        · intro h0; rw [h0]; exact Nat.dvd_zero _
        · intro h0; exact Nat.eq_zero_of_dvd_of_lt h0 h
      · rw [decide_eq_true_eq, Nat.dvd_iff_mod_eq_zero]
    · simp only [ha, if_false]
      rw [dvd_sub_iff_mag a cu du]
      have hcn : ¬ ((cu : Int) < 0) := by omega
      simp only [hcn, iff_false, Int.natAbs_natCast]
      change _ ↔ (du : Int) ∣ (a.natAbs : Int) - sgnC (¬ a < 0) cu
      have hsz : siz a < 0 ↔ a < 0 := siz_neg_iff
      -- the adjusted c is congruent to ±cu modulo du
      have hF : (du : Int) ∣ ((if siz a < 0 then negMod cu du else cu : Nat) : Int) - sgnC (¬ a < 0) cu := by
        unfold sgnC
        by_cases hs : a < 0
        · have := (negMod_spec cu du hd hcB hdB).1
          simp only [hsz.mpr hs, if_true, hs, not_true_eq_false, if_false]
          have h2 : ((negMod cu du : Nat) : Int) - -(cu : Int) = ((negMod cu du + cu : Nat) : Int) := by omega
          rw [h2]; exact Int.natCast_dvd_natCast.mpr this
        · have : ¬ siz a < 0 := fun h => hs (hsz.mp h)
          simp [this, hs]
      have hcB' : (if siz a < 0 then negMod cu du else cu) < B := by
        split
        · exact (negMod_spec cu du hd hcB hdB).2
        · exact hcB
      generalize (if siz a < 0 then negMod cu du else cu) = c' at *
      generalize a.natAbs = A at *
      have hswap : ∀ D2 : Nat, D2 ∣ du → (((D2 : Int) ∣ (A : Int) - (c' : Int)) ↔ (D2 : Int) ∣ (A : Int) - sgnC (¬ a < 0) cu) := by
        intro D2 h2
        apply Int.dvd_iff_dvd_of_dvd_sub
        have : (A : Int) - (c' : Int) - ((A : Int) - sgnC (¬ a < 0) cu) = -((c' : Int) - sgnC (¬ a < 0) cu) := by omega
        rw [this, Int.dvd_neg]
        exact Int.dvd_trans (Int.natCast_dvd_natCast.mpr h2) hF
      split
      · unfold mpn_mod_1
        rw [← hswap du (Nat.dvd_refl _), ← nat_mod_eq_iff]
        split
        · rename_i h; rw [beq_iff_eq, Nat.mod_eq_of_lt h]
        · rw [beq_iff_eq]
      · split
        · -- even divisor: low-bits test, then modexact on the odd part
          obtain ⟨c1, c2⟩ := ctz_spec du hd
          have hcop := coprime_two_pow_odd (ctz du) _ c2
          have hpB := two_pow_ctz_dvd_B hd hdB
          have hlz : lowZerosMod du = 2 ^ ctz du := by unfold lowZerosMod; simp [hd]
          have hpos : 0 < 2 ^ ctz du := Nat.pow_pos (by decide)
          rw [hlz]
          generalize 2 ^ ctz du = p at *
          obtain ⟨D2, hD2⟩ := c1
          have hdd : du / p = D2 := by rw [hD2]; exact Nat.mul_div_cancel_left _ hpos
          rw [hdd] at hcop ⊢
          have hq := quick_iff True A c' p hpB
          simp only [if_true, Nat.mod_eq_of_lt hcB', sgnC] at hq
          split
          · rename_i hne
            constructor
            · intro h; exact absurd h (by simp)
            · intro h
              have h1 : (p : Int) ∣ (A : Int) - (c' : Int) :=
                (hswap p (Dvd.intro _ hD2.symm)).mpr (Int.dvd_trans (Int.natCast_dvd_natCast.mpr (Dvd.intro _ hD2.symm)) h)
              exact absurd (hq.mpr h1) hne
          · rename_i hne
            simp only [ne_eq, not_not] at hne
            have h1 : (p : Int) ∣ (A : Int) - (c' : Int) := hq.mp hne
            unfold modexact_1c_odd_divides
            rw [beq_iff_eq, ← Int.dvd_iff_emod_eq_zero, ← hswap du (Nat.dvd_refl _)]
            constructor
            · intro h; rw [hD2]; exact int_coprime_mul_dvd hcop h1 h
            · intro h; exact Int.dvd_trans (Int.natCast_dvd_natCast.mpr (Dvd.intro_left _ hD2.symm)) h
        · unfold modexact_1c_odd_divides
          rw [beq_iff_eq, ← Int.dvd_iff_emod_eq_zero]
          exact hswap du (Nat.dvd_refl _)

theorem lowZerosMod_dvd (D : Nat) (hD : D ≠ 0) : lowZerosMod (D % B) ∣ B ∧ lowZerosMod (D % B) ∣ D := by
  have hB : 0 < B := by unfold B; decide
  unfold lowZerosMod
  split
  · rename_i h; exact ⟨Nat.dvd_refl _, Nat.dvd_of_mod_eq_zero h⟩
  · rename_i h
    have hlt : D % B < B := Nat.mod_lt _ hB
    have h1 := two_pow_ctz_dvd_B h hlt
    obtain ⟨c1, _⟩ := ctz_spec (D % B) h
    refine ⟨h1, ?_⟩
    generalize 2 ^ ctz (D % B) = p at *
    rw [← Nat.div_add_mod D B]
    exact Nat.dvd_add (Nat.dvd_trans h1 (Dvd.intro _ rfl)) c1

theorem ctz_odd {n : Nat} (h : n % 2 = 1) : ctz n = 0 := by
  unfold ctz
  have : n ≠ 0 := by omega
  simp [this, h]

/-- a two-limb divisor whose odd part fits a limb (cong.c:130-144) -/
theorem two_limb_odd_part {D : Nat} (hlow : D % B ≠ 0) (hsec : D / B ≤ 2 ^ ctz (D % B) - 1) :
    ∃ D1, D / 2 ^ ctz (D % B) = D1 ∧ D = 2 ^ ctz (D % B) * D1 ∧ D1 % 2 = 1 ∧ D1 < B ∧ D1 ≠ 0 := by
  have hB : 0 < B := by unfold B; decide
  have hlt : D % B < B := Nat.mod_lt _ hB
  obtain ⟨c1, c2⟩ := ctz_spec (D % B) hlow
  have hpB := two_pow_ctz_dvd_B hlow hlt
  have hpos : 0 < 2 ^ ctz (D % B) := Nat.pow_pos (by decide)
  have ht : ctz (D % B) < 64 := by
    have hle : 2 ^ ctz (D % B) ≤ D % B := Nat.le_of_dvd (by omega) c1
    by_contra hge
    have : 2 ^ 64 ≤ 2 ^ ctz (D % B) := Nat.pow_le_pow_right (by decide) (by omega)
    have hBv : B = 2 ^ 64 := rfl
    omega
  generalize ctz (D % B) = t at *
  have hBsplit : B = 2 ^ t * (2 * 2 ^ (63 - t)) := by
    have hBv : B = 2 ^ 64 := rfl
    rw [hBv, ← Nat.pow_succ', ← Nat.pow_add]; congr 1; omega
  generalize hp : 2 ^ t = p at *
  generalize 2 ^ (63 - t) = e at *
  obtain ⟨o, ho⟩ := c1
  have hoo : D % B / p = o := by rw [ho]; exact Nat.mul_div_cancel_left _ hpos
  rw [hoo] at c2
  have hD : D = p * (D / B * (2 * e) + o) := by
    have := Nat.div_add_mod D B
    calc D = B * (D / B) + D % B := this.symm
      _ = p * (2 * e) * (D / B) + p * o := by rw [← hBsplit, ho]
      _ = p * (D / B * (2 * e) + o) := by ring
  refine ⟨D / B * (2 * e) + o, ?_, hD, ?_, ?_, ?_⟩
  · conv_lhs => rw [hD]
    exact Nat.mul_div_cancel_left _ hpos
  · have : D / B * (2 * e) = 2 * (D / B * e) := by ring
    rw [this]; omega
  · have h1 : D / B * (2 * e) + o < p * (2 * e) := by
      have : o < 2 * e := by
        have : p * o < p * (2 * e) := by rw [← ho, ← hBsplit]; exact hlt
        exact Nat.lt_of_mul_lt_mul_left this
      have h3 : (D / B + 1) * (2 * e) ≤ p * (2 * e) := Nat.mul_le_mul_right _ (by omega)
      have : (D / B + 1) * (2 * e) = D / B * (2 * e) + 2 * e := by ring
      omega
    exact Nat.lt_of_lt_of_eq h1 hBsplit.symm
  · omega

theorem sizeNat_eq_one {v : Nat} : sizeNat v = 1 ↔ v ≠ 0 ∧ v < B := by
  have h1 := sizeNat_le_iff v 1
  have h0 := @sizeNat_eq_zero v
  rw [Nat.pow_one] at h1
  omega

theorem sizeNat_eq_two {v : Nat} (h : sizeNat v = 2) : v / B < B := by
  have h2 := (sizeNat_le_iff v 2).mp (by omega)
  have hB : 0 < B := by unfold B; decide
  rw [Nat.div_lt_iff_lt_mul hB]
  have : B ^ 2 = B * B := by ring
  omega

/-- body of mpz_congruent_p after the d = 0 test and the operand swap -/
theorem cong_body_iff (thr : Nat) (a c d : Int) (hd : d ≠ 0) :
    (let dsize := (siz d).natAbs
     let dp := d.natAbs
     let sign_nonneg := sameSign (siz a) (siz c)
     let asize := (siz a).natAbs
     let ap := a.natAbs
     if siz c = 0 then mpn_divisible_p ap dp else
     let csize := (siz c).natAbs
     let cp := c.natAbs
     let alow0 := ap % B
     let clow := cp % B
     let dlow := dp % B
     let dmaskMod := lowZerosMod dlow
     let alow := if sign_nonneg then alow0 else (B - alow0) % B
     if ((alow + B - clow) % B) % dmaskMod ≠ 0 then false else
     let cong_1 (dlow clow : Nat) : Bool :=
       let clow := if sign_nonneg then clow else negMod clow dlow
       if asize < thr then
         let r := mpn_mod_1 ap dlow
         if clow < dlow then r == clow else r == clow % dlow
       else
         let dlow := if dlow % 2 = 0 then dlow / 2 ^ ctz dlow else dlow
         modexact_1c_odd_divides ap dlow clow
     let general : Bool :=
       let x := if sign_nonneg then (if ap ≥ cp then ap - cp else cp - ap) else ap + cp
       mpn_divisible_p x dp
     if csize = 1 then
       if dsize = 1 then cong_1 dlow clow
       else if dsize = 2 ∧ dlow ≠ 0 then
         let dsecond := dp / B % B
         if dsecond ≤ dmaskMod - 1 then cong_1 (dp / 2 ^ ctz dlow) clow
         else general
       else general
     else general) = true ↔ d ∣ a - c := by
  rw [dvd_sub_iff_mag a c d, ← Int.natAbs_dvd]
  change _ ↔ (d.natAbs : Int) ∣ (a.natAbs : Int) - sgnC (a < 0 ↔ c < 0) c.natAbs
  have hD : d.natAbs ≠ 0 := by omega
  have hB : 0 < B := by unfold B; decide
  dsimp only
  simp only [siz_natAbs, siz_eq_zero, sameSign_siz]
  generalize d.natAbs = D at *
  generalize a.natAbs = A
  by_cases hc : c = 0
  · subst hc
    simp only [if_true]
    unfold mpn_divisible_p sgnC
    rw [mod_eq_zero_beq, ← Int.natCast_dvd_natCast]
    simp
  · have hC : c.natAbs ≠ 0 := by omega
    simp only [hc, if_false]
    generalize c.natAbs = C at *
    obtain ⟨hmB, hmD⟩ := lowZerosMod_dvd D hD
    have hq := quick_iff (a < 0 ↔ c < 0) A C _ hmB
    have hgen := general_iff (a < 0 ↔ c < 0) A C D
    by_cases hquick : ((((if (a < 0 ↔ c < 0) then A % B else (B - A % B) % B) + B - C % B) % B) % lowZerosMod (D % B)) = 0
    · have hqm := hq.mp hquick
      simp only [hquick, ne_eq, not_true_eq_false, if_false]
      by_cases hcs : sizeNat C = 1
      · have hCB : C < B := (sizeNat_eq_one.mp hcs).2
        simp only [hcs, if_true, Nat.mod_eq_of_lt hCB]
        by_cases hds : sizeNat D = 1
        · have hDB : D < B := (sizeNat_eq_one.mp hds).2
          simp only [hds, if_true, Nat.mod_eq_of_lt hDB] at hqm ⊢
          have hlz : lowZerosMod D = 2 ^ ctz D := by unfold lowZerosMod; simp [hD]
          rw [hlz] at hqm
          exact cong1_iff (a < 0 ↔ c < 0) thr (sizeNat A) A D C hD hDB hCB hqm
        · simp only [hds, if_false]
          by_cases hd2 : sizeNat D = 2 ∧ D % B ≠ 0
          · have hsec : D / B % B = D / B := Nat.mod_eq_of_lt (sizeNat_eq_two hd2.1)
            have hlz : lowZerosMod (D % B) = 2 ^ ctz (D % B) := by unfold lowZerosMod; simp [hd2.2]
            simp only [hd2, and_self, if_true, hsec, hlz, ne_eq, not_false_eq_true] at hqm ⊢
            by_cases hsm : D / B ≤ 2 ^ ctz (D % B) - 1
            · simp only [hsm, if_true]
              obtain ⟨D1, e1, e2, hodd, hD1B, hD10⟩ := two_limb_odd_part hd2.2 hsm
              rw [e1]
              have h1 := cong1_iff (a < 0 ↔ c < 0) thr (sizeNat A) A D1 C hD10 hD1B hCB (by rw [ctz_odd hodd]; simp)
              refine Iff.trans h1 ?_
              have hcop := coprime_two_pow_odd (ctz (D % B)) D1 hodd
              constructor
              · intro h; rw [e2]; exact int_coprime_mul_dvd hcop hqm h
              · intro h; exact Int.dvd_trans (Int.natCast_dvd_natCast.mpr (Dvd.intro_left _ e2.symm)) h
            · simp only [hsm, if_false]; exact hgen
          · simp only [hd2, if_false]; exact hgen
      · simp only [hcs, if_false]; exact hgen
    · simp only [hquick, ne_eq, not_false_eq_true, if_true]
      constructor
      · intro h; exact absurd h (by simp)
      · intro h
        exact absurd (hq.mpr (Int.dvd_trans (Int.natCast_dvd_natCast.mpr hmD) h)) hquick

theorem congruent_p_iff' (thr : Nat) (a0 c0 d : Int) : congruent_p thr a0 c0 d = true ↔ d ∣ a0 - c0 := by
  unfold congruent_p
  by_cases hd : d = 0
  · subst hd
    have : siz 0 = 0 := siz_eq_zero.mpr rfl
    rw [if_pos this, decide_eq_true_eq, Int.zero_dvd]; omega
  · have hsd : ¬ siz d = 0 := fun h => hd (siz_eq_zero.mp h)
    rw [if_neg hsd]
    by_cases hsw : (siz a0).natAbs < (siz c0).natAbs
    · simp only [hsw, if_true]
      have e : d ∣ a0 - c0 ↔ d ∣ c0 - a0 := by
        rw [← Int.dvd_neg]; have : -(a0 - c0) = c0 - a0 := by omega
        rw [this]
      rw [e]
      exact cong_body_iff thr c0 a0 d hd
    · simp only [hsw, if_false]
      exact cong_body_iff thr a0 c0 d hd

/-! ### mpn contract models -/

theorem val_toLimbs : ∀ (k v : Nat), val (toLimbs k v) = v % B ^ k ∧ (toLimbs k v).length = k ∧ Limbs (toLimbs k v)
  | 0, v => by simp [toLimbs, Nat.mod_one, Limbs_nil]
  | k + 1, v => by
    obtain ⟨ih1, ih2, ih3⟩ := val_toLimbs k (v / B)
    have hB : 0 < B := by unfold B; decide
    refine ⟨?_, by simp [toLimbs, ih2], ?_⟩
    · simp only [toLimbs, val_cons, ih1]
      rw [Nat.pow_succ, Nat.mul_comm (B ^ k) B, Nat.mod_mul]
    · simp only [toLimbs]
      exact Limbs_cons.mpr ⟨Nat.mod_lt _ hB, ih3⟩

theorem val_ge_of_topNonzero {d : List Nat} (h : topNonzero d = true) : B ^ (d.length - 1) ≤ val d := by
  unfold topNonzero at h
  cases hl : d.getLast? with
  | none => simp [hl] at h
  | some x =>
    simp only [hl, bne_iff_ne, ne_eq] at h
    obtain ⟨ys, hd⟩ := List.getLast?_eq_some_iff.mp hl
    subst hd
    rw [val_append]
    simp only [List.length_append, List.length_cons, List.length_nil, val_cons, val_nil]
    have hx : 1 ≤ x := Nat.pos_of_ne_zero h
    have : ys.length + (0 + 1) - 1 = ys.length := by omega
    rw [this]
    have : B ^ ys.length * 1 ≤ B ^ ys.length * (x + B * 0) := Nat.mul_le_mul_left _ (by omega)
    omega

/-- the contract model of mpn_tdiv_qr is total on the documented domain and its outputs are the exact
    quotient and remainder: nn-dn+1 limbs always hold ⌊n/d⌋ -/
theorem mpnTdivQr_contract (n d : List Nat) (hn : Limbs n) (hd : Limbs d) (ht : topNonzero d = true) (hl : d.length ≤ n.length) :
    ∃ q r, mpnTdivQr n d = some (q, r) ∧ q.length = n.length - d.length + 1 ∧ r.length = d.length ∧ Limbs q ∧ Limbs r ∧
      val q = val n / val d ∧ val r = val n % val d ∧ val n = val q * val d + val r ∧ val r < val d := by
  have hdpos : 0 < val d := Nat.lt_of_lt_of_le (Bpow_pos _) (val_ge_of_topNonzero ht)
  unfold mpnTdivQr
  have hc : ¬ (¬ topNonzero d = true ∨ n.length < d.length) := by
    intro h; rcases h with h | h
    · exact h ht
    · omega
  simp only [hc, if_false]
  obtain ⟨q1, q2, q3⟩ := val_toLimbs (n.length - d.length + 1) (val n / val d)
  obtain ⟨r1, r2, r3⟩ := val_toLimbs d.length (val n % val d)
  have hrlt : val n % val d < val d := Nat.mod_lt _ hdpos
  have hdlt := val_lt d hd
  have hnlt := val_lt n hn
  have hqfit : val n / val d < B ^ (n.length - d.length + 1) := by
    rw [Nat.div_lt_iff_lt_mul hdpos]
    have hge := val_ge_of_topNonzero ht
    have hdl : 1 ≤ d.length := by
      rcases Nat.eq_zero_or_pos d.length with h0 | h0
      · have : d = [] := List.length_eq_zero_iff.mp h0
        subst this; simp [topNonzero] at ht
      · exact h0
    have e : B ^ n.length = B ^ (n.length - d.length + 1) * B ^ (d.length - 1) := by
      rw [← Nat.pow_add]; congr 1; omega
    calc val n < B ^ n.length := hnlt
      _ = B ^ (n.length - d.length + 1) * B ^ (d.length - 1) := e
      _ ≤ B ^ (n.length - d.length + 1) * val d := Nat.mul_le_mul_left _ hge
  refine ⟨_, _, rfl, q2, r2, q3, r3, ?_, ?_, ?_, ?_⟩
  · rw [q1, Nat.mod_eq_of_lt hqfit]
  · rw [r1, Nat.mod_eq_of_lt (Nat.lt_trans hrlt hdlt)]
  · rw [q1, r1, Nat.mod_eq_of_lt hqfit, Nat.mod_eq_of_lt (Nat.lt_trans hrlt hdlt)]
    have := Nat.div_add_mod (val n) (val d)
    rw [Nat.mul_comm] at this; omega
  · rw [r1, Nat.mod_eq_of_lt (Nat.lt_trans hrlt hdlt)]; exact hrlt

end Mpir.DivZ
