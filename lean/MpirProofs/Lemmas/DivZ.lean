/- Helper lemmas for the mpz division wrapper models (Mpir/Model/DivZ.lean). -/
import MpirProofs.Lemmas.Base
import Mpir.Model.DivZ
import Mathlib.Tactic.Ring
import Mathlib.Tactic.Linarith
namespace Mpir.DivZ
end Mpir.DivZ
