/- Helper lemmas for the mpz division wrapper models (Mpir/Model/DivZ.lean). -/
import MpirProofs.Lemmas.Base
import Mpir.Model.DivZ
import Mathlib.Tactic.Ring
import Mathlib.Tactic.Linarith
import Mathlib.Tactic.SplitIfs
import Mathlib.Tactic.Tauto
namespace Mpir.DivZ
open Mpir

/-! ### sizes -/

theorem B_pow (k : Nat) : B ^ k = 2 ^ (64 * k) := by
  unfold B; rw [← Nat.pow_mul]

theorem sizeNat_le_iff (v k : Nat) : sizeNat v ≤ k ↔ v < B ^ k := by
  unfold sizeNat
  by_cases h : v = 0
  · subst h; simp [B_pow]
  · simp only [h, if_false]
    rw [B_pow, ← Nat.log2_lt h]
    omega

theorem lt_B_pow_sizeNat (v : Nat) : v < B ^ sizeNat v := (sizeNat_le_iff v _).mp (Nat.le_refl _)

theorem sizeNat_eq_zero {v : Nat} : sizeNat v = 0 ↔ v = 0 := by
  unfold sizeNat; by_cases h : v = 0 <;> simp [h]

theorem lt_of_sizeNat_lt {a b : Nat} (h : sizeNat a < sizeNat b) : a < b := by
  have ha := lt_B_pow_sizeNat a
  have hb : ¬ b < B ^ sizeNat a := fun hb => by
    have := (sizeNat_le_iff b (sizeNat a)).mpr hb; omega
  omega

theorem siz_natAbs (v : Int) : (siz v).natAbs = sizeNat v.natAbs := by
  unfold siz; split <;> simp

theorem siz_eq_zero {v : Int} : siz v = 0 ↔ v = 0 := by
  have := @sizeNat_eq_zero v.natAbs
  unfold siz; split <;> omega

theorem siz_neg_iff {v : Int} : siz v < 0 ↔ v < 0 := by
  have := @sizeNat_eq_zero v.natAbs
  unfold siz; split <;> omega

theorem siz_nonneg_iff {v : Int} : 0 ≤ siz v ↔ 0 ≤ v := by
  have := @siz_neg_iff v; omega

theorem sameSign_siz (x y : Int) : sameSign (siz x) (siz y) ↔ (x < 0 ↔ y < 0) := by
  unfold sameSign; rw [siz_neg_iff, siz_neg_iff]

theorem Store.set_apply (s : Store) (i : Nat) (v : Int) (j : Nat) :
    (s.set i v) j = if j = i then v else s j := rfl

/-! ### truncating division by sign and magnitude -/

theorem tdiv_sign_mag (x y : Int) :
    Int.tdiv x y = if (x < 0 ↔ y < 0) then ((x.natAbs / y.natAbs : Nat) : Int) else -((x.natAbs / y.natAbs : Nat) : Int) := by
  obtain ⟨a, rfl | rfl⟩ := Int.eq_nat_or_neg x <;> obtain ⟨b, rfl | rfl⟩ := Int.eq_nat_or_neg y
  · have hc : (((a : Int) < 0) ↔ ((b : Int) < 0)) := by omega
    rw [if_pos hc, ← Int.ofNat_tdiv]; simp
  · by_cases hb : b = 0
    · subst hb; simp
    · have hc : ¬ (((a : Int) < 0) ↔ (-(b : Int) < 0)) := by omega
      rw [if_neg hc, Int.tdiv_neg, ← Int.ofNat_tdiv]; simp
  · by_cases ha : a = 0
    · subst ha; simp
    · have hc : ¬ ((-(a : Int) < 0) ↔ ((b : Int) < 0)) := by omega
      rw [if_neg hc, Int.neg_tdiv, ← Int.ofNat_tdiv]; simp
  · by_cases ha : a = 0
    · subst ha; simp
    · by_cases hb : b = 0
      · subst hb; simp
      · have hc : ((-(a : Int) < 0) ↔ (-(b : Int) < 0)) := by omega
        rw [if_pos hc, Int.neg_tdiv, Int.tdiv_neg, ← Int.ofNat_tdiv]; simp

theorem tmod_sign_mag (x y : Int) :
    Int.tmod x y = if 0 ≤ x then ((x.natAbs % y.natAbs : Nat) : Int) else -((x.natAbs % y.natAbs : Nat) : Int) := by
  obtain ⟨a, rfl | rfl⟩ := Int.eq_nat_or_neg x <;> obtain ⟨b, rfl | rfl⟩ := Int.eq_nat_or_neg y
  · have hc : (0 : Int) ≤ (a : Int) := by omega
    rw [if_pos hc, ← Int.ofNat_tmod]; simp
  · have hc : (0 : Int) ≤ (a : Int) := by omega
    rw [if_pos hc, Int.tmod_neg, ← Int.ofNat_tmod]; simp
  · by_cases ha : a = 0
    · subst ha; simp
    · have hc : ¬ ((0 : Int) ≤ -(a : Int)) := by omega
      rw [if_neg hc, Int.neg_tmod, ← Int.ofNat_tmod]; simp
  · by_cases ha : a = 0
    · subst ha; simp
    · have hc : ¬ ((0 : Int) ≤ -(a : Int)) := by omega
      rw [if_neg hc, Int.neg_tmod, Int.tmod_neg, ← Int.ofNat_tmod]; simp

theorem tdiv_tmod_of_natAbs_lt {x y : Int} (h : x.natAbs < y.natAbs) : Int.tdiv x y = 0 ∧ Int.tmod x y = x := by
  have h0 : Int.tdiv x y = 0 := by
    rw [tdiv_sign_mag, Nat.div_eq_of_lt h]; simp
  refine ⟨h0, ?_⟩
  rw [Int.tmod_def, h0]; simp

/-! ### floor and ceiling from truncation -/

theorem fdiv_from_tdiv {x y : Int} (hy : y ≠ 0) :
    Int.fdiv x y = if ¬ (x < 0 ↔ y < 0) ∧ Int.tmod x y ≠ 0 then Int.tdiv x y - 1 else Int.tdiv x y := by
  rw [Int.fdiv_eq_tdiv]
  by_cases hdv : y ∣ x
  · have h0 : Int.tmod x y = 0 := Int.dvd_iff_tmod_eq_zero.mp hdv
    simp [hdv, h0]
  · have h0 : Int.tmod x y ≠ 0 := fun h => hdv (Int.dvd_iff_tmod_eq_zero.mpr h)
    have hx : x ≠ 0 := fun h => hdv (h ▸ Int.dvd_zero y)
    simp only [hdv, if_false, h0, ne_eq, not_false_eq_true, and_true]
    rcases Int.lt_or_gt_of_ne hy with hneg | hpos
    · have : y.sign = -1 := Int.sign_eq_neg_one_of_neg hneg
      rw [this]; split_ifs <;> omega
    · have : y.sign = 1 := Int.sign_eq_one_of_pos hpos
      rw [this]; split_ifs <;> omega

theorem fmod_from_tmod {x y : Int} (hy : y ≠ 0) :
    Int.fmod x y = if ¬ (x < 0 ↔ y < 0) ∧ Int.tmod x y ≠ 0 then Int.tmod x y + y else Int.tmod x y := by
  rw [Int.fmod_def, fdiv_from_tdiv hy]
  by_cases h : ¬ (x < 0 ↔ y < 0) ∧ Int.tmod x y ≠ 0
  · rw [if_pos h, if_pos h, Int.tmod_def]; ring
  · rw [if_neg h, if_neg h, Int.tmod_def]

theorem cdivQ_from_tdiv {x y : Int} (hy : y ≠ 0) :
    cdivQ x y = if (x < 0 ↔ y < 0) ∧ Int.tmod x y ≠ 0 then Int.tdiv x y + 1 else Int.tdiv x y := by
  unfold cdivQ
  rw [fdiv_from_tdiv hy, Int.neg_tdiv, Int.neg_tmod]
  by_cases h0 : Int.tmod x y = 0
  · simp [h0]
  · have hx : x ≠ 0 := fun h => h0 (by rw [h]; simp)
    have e : (¬ (-x < 0 ↔ y < 0)) ↔ (x < 0 ↔ y < 0) := by omega
    by_cases h : (x < 0 ↔ y < 0)
    · have h1 : ¬ (-x < 0 ↔ y < 0) ∧ -Int.tmod x y ≠ 0 := ⟨e.mpr h, by omega⟩
      rw [if_pos h1, if_pos ⟨h, h0⟩]; ring
    · have h1 : ¬ (¬ (-x < 0 ↔ y < 0) ∧ -Int.tmod x y ≠ 0) := fun hh => h (e.mp hh.1)
      have h2 : ¬ ((x < 0 ↔ y < 0) ∧ Int.tmod x y ≠ 0) := fun hh => h hh.1
      rw [if_neg h1, if_neg h2]; ring

theorem cdivR_from_tmod {x y : Int} (hy : y ≠ 0) :
    cdivR x y = if (x < 0 ↔ y < 0) ∧ Int.tmod x y ≠ 0 then Int.tmod x y - y else Int.tmod x y := by
  unfold cdivR
  rw [cdivQ_from_tdiv hy]
  by_cases h : (x < 0 ↔ y < 0) ∧ Int.tmod x y ≠ 0
  · rw [if_pos h, if_pos h, Int.tmod_def]; ring
  · rw [if_neg h, if_neg h, Int.tmod_def]; ring

/-! ### the wrappers -/

theorem siz_natAbs_ne_zero {v : Int} (h : v ≠ 0) : (siz v).natAbs ≠ 0 := by
  rw [siz_natAbs]; intro h'; exact h (by have := sizeNat_eq_zero.mp h'; omega)

theorem tmod_lt_zero_iff {x y : Int} (h : Int.tmod x y ≠ 0) : Int.tmod x y < 0 ↔ x < 0 := by
  rw [tmod_sign_mag] at h ⊢
  split_ifs at h ⊢ <;> omega

theorem tdiv_qr_eq (s : Store) (q r n d : Nat) (hqr : q ≠ r) (hd : s d ≠ 0) :
    tdiv_qr s q r n d = .ok (fun j => if j = r then Int.tmod (s n) (s d) else if j = q then Int.tdiv (s n) (s d) else s j) := by
  have hdl : (siz (s d)).natAbs ≠ 0 := by
    rw [siz_natAbs]; intro h; exact hd (by have := sizeNat_eq_zero.mp h; omega)
  unfold tdiv_qr mpn_tdiv_qr
  simp only [hdl, if_false]
  split
  · rename_i h
    have hlt : (s n).natAbs < (s d).natAbs := lt_of_sizeNat_lt (by rw [siz_natAbs, siz_natAbs] at h; omega)
    obtain ⟨h0, h1⟩ := tdiv_tmod_of_natAbs_lt hlt
    congr 1; funext j
    simp only [Store.set_apply, h0, h1]
    by_cases hnr : n = r
    · subst hnr; simp only [ne_eq, not_true_eq_false, if_false]; split_ifs <;> simp_all
    · simp only [ne_eq, hnr, not_false_eq_true, if_true, Store.set_apply]; split_ifs <;> simp_all
  · congr 1; funext j
    simp only [Store.set_apply, tdiv_sign_mag (s n) (s d), tmod_sign_mag (s n) (s d), sameSign_siz, ge_iff_le, siz_nonneg_iff]

theorem tdiv_q_eq (s : Store) (q n d : Nat) (hd : s d ≠ 0) :
    tdiv_q s q n d = .ok (s.set q (Int.tdiv (s n) (s d))) := by
  have hdl := siz_natAbs_ne_zero hd
  unfold tdiv_q mpn_tdiv_q
  simp only [hdl, if_false]
  split
  · rename_i h
    have hlt : (s n).natAbs < (s d).natAbs := lt_of_sizeNat_lt (by rw [siz_natAbs, siz_natAbs] at h; omega)
    rw [(tdiv_tmod_of_natAbs_lt hlt).1]
  · simp only [tdiv_sign_mag (s n) (s d), sameSign_siz]

theorem tdiv_r_eq (s : Store) (r n d : Nat) (hd : s d ≠ 0) :
    tdiv_r s r n d = .ok (s.set r (Int.tmod (s n) (s d))) := by
  have hdl := siz_natAbs_ne_zero hd
  unfold tdiv_r mpn_tdiv_qr
  simp only [hdl, if_false]
  split
  · rename_i h
    have hlt : (s n).natAbs < (s d).natAbs := lt_of_sizeNat_lt (by rw [siz_natAbs, siz_natAbs] at h; omega)
    rw [(tdiv_tmod_of_natAbs_lt hlt).2]
    congr 1; funext j
    by_cases hnr : n = r
    · subst hnr; simp only [ne_eq, not_true_eq_false, if_false, Store.set_apply]; split_ifs <;> simp_all
    · simp only [ne_eq, hnr, not_false_eq_true, if_true]
  · simp only [tmod_sign_mag (s n) (s d), ge_iff_le, siz_nonneg_iff]

theorem fresh_ne (a b c d : Nat) : fresh a b c d ≠ a ∧ fresh a b c d ≠ b ∧ fresh a b c d ≠ c ∧ fresh a b c d ≠ d := by
  unfold fresh; omega

theorem cfdiv_qr_eq (ceil : Bool) (s : Store) (q r n d : Nat) (hqr : q ≠ r) (hd : s d ≠ 0) :
    cfdiv_qr ceil s q r n d = .ok (fun j =>
      if j = r then (if ceil then cdivR (s n) (s d) else Int.fmod (s n) (s d))
      else if j = q then (if ceil then cdivQ (s n) (s d) else Int.fdiv (s n) (s d)) else s j) := by
  obtain ⟨htq, htr, htn, htd⟩ := fresh_ne q r n d
  unfold cfdiv_qr
  generalize fresh q r n d = t at *
  have hrq : r ≠ q := Ne.symm hqr
  rw [show (fun j => if j = r then (if ceil then cdivR (s n) (s d) else Int.fmod (s n) (s d))
      else if j = q then (if ceil then cdivQ (s n) (s d) else Int.fdiv (s n) (s d)) else s j) =
      (fun j => if j = r then (if ceil then (if (s n < 0 ↔ s d < 0) ∧ Int.tmod (s n) (s d) ≠ 0 then Int.tmod (s n) (s d) - s d else Int.tmod (s n) (s d))
                               else (if ¬ (s n < 0 ↔ s d < 0) ∧ Int.tmod (s n) (s d) ≠ 0 then Int.tmod (s n) (s d) + s d else Int.tmod (s n) (s d)))
      else if j = q then (if ceil then (if (s n < 0 ↔ s d < 0) ∧ Int.tmod (s n) (s d) ≠ 0 then Int.tdiv (s n) (s d) + 1 else Int.tdiv (s n) (s d))
                               else (if ¬ (s n < 0 ↔ s d < 0) ∧ Int.tmod (s n) (s d) ≠ 0 then Int.tdiv (s n) (s d) - 1 else Int.tdiv (s n) (s d))) else s j) from by
    rw [cdivR_from_tmod hd, cdivQ_from_tdiv hd, fmod_from_tmod hd, fdiv_from_tdiv hd]]
  by_cases hc : q = d ∨ r = d
  · simp only [hc, if_true]
    have h0 : (s.set t (s d)) t ≠ 0 := by simp [Store.set_apply, hd]
    rw [tdiv_qr_eq _ q r n t hqr h0]
    simp only [Store.set_apply, if_pos, htn.symm, if_false, hqr, hrq, htq, htr, sameSign_siz, ne_eq, siz_eq_zero]
    congr 1; funext j
    cases ceil <;> simp only [Store.set_apply, Bool.false_eq_true, if_false, if_true] <;> split_ifs <;> simp_all [Store.set_apply]
  · have hqd : q ≠ d := fun h => hc (Or.inl h)
    have hrd : r ≠ d := fun h => hc (Or.inr h)
    simp only [hc, if_false]
    rw [tdiv_qr_eq _ q r n d hqr hd]
    simp only [Store.set_apply, if_pos, htn.symm, if_false, hqr, hrq, htq, htr, hqd.symm, hrd.symm, sameSign_siz, ne_eq, siz_eq_zero]
    congr 1; funext j
    cases ceil <;> simp only [Store.set_apply, Bool.false_eq_true, if_false, if_true] <;> split_ifs <;> simp_all [Store.set_apply]

theorem cfdiv_q_eq (ceil : Bool) (s : Store) (q n d : Nat) (hd : s d ≠ 0) :
    cfdiv_q ceil s q n d = .ok (s.set q (if ceil then cdivQ (s n) (s d) else Int.fdiv (s n) (s d))) := by
  obtain ⟨htq, htn, htd, _⟩ := fresh_ne q n d 0
  unfold cfdiv_q
  generalize fresh q n d 0 = t at *
  dsimp only
  rw [cdivQ_from_tdiv hd, fdiv_from_tdiv hd, tdiv_qr_eq s q t n d (Ne.symm htq) hd]
  simp only [Store.set_apply, if_pos, if_false, htq, Ne.symm htq, sameSign_siz, ne_eq, siz_eq_zero]
  congr 1; funext j
  have e : (s d < 0 ↔ s n < 0) ↔ (s n < 0 ↔ s d < 0) := by omega
  cases ceil <;> simp only [Store.set_apply, Bool.false_eq_true, if_false, if_true, e] <;> split_ifs <;> simp_all [Store.set_apply]

theorem cfdiv_r_eq (ceil : Bool) (s : Store) (r n d : Nat) (hd : s d ≠ 0) :
    cfdiv_r ceil s r n d = .ok (s.set r (if ceil then cdivR (s n) (s d) else Int.fmod (s n) (s d))) := by
  obtain ⟨htr, htn, htd, _⟩ := fresh_ne r n d 0
  unfold cfdiv_r
  generalize fresh r n d 0 = t at *
  rw [cdivR_from_tmod hd, fmod_from_tmod hd]
  by_cases hc : r = d
  · simp only [hc, if_true]
    subst hc
    have h0 : (s.set t (s r)) t ≠ 0 := by simp [Store.set_apply, hd]
    rw [tdiv_r_eq _ r n t h0]
    simp only [Store.set_apply, if_pos, if_false, htn.symm, htr, Ne.symm htr, sameSign_siz, ne_eq, siz_eq_zero]
    congr 1; funext j
    by_cases hnr : n = r
    · subst hnr
      simp only [if_true]
      by_cases hz : Int.tmod (s n) (s n) = 0
      · cases ceil <;> simp_all [Store.set_apply]
      · exact absurd (Int.tmod_self) hz
    · simp only [hnr, if_false]
      have e : (s r < 0 ↔ s n < 0) ↔ (s n < 0 ↔ s r < 0) := by omega
      cases ceil <;> simp only [Store.set_apply, Bool.false_eq_true, if_false, if_true, e] <;> split_ifs <;> simp_all [Store.set_apply]
  · simp only [hc, if_false]
    rw [tdiv_r_eq _ r n d hd]
    simp only [Store.set_apply, if_pos, if_false, Ne.symm hc, sameSign_siz, ne_eq, siz_eq_zero]
    congr 1; funext j
    by_cases hnr : n = r
    · subst hnr
      simp only [if_true]
      by_cases hz : Int.tmod (s n) (s d) = 0
      · cases ceil <;> simp_all [Store.set_apply]
      · have e : (s d < 0 ↔ Int.tmod (s n) (s d) < 0) ↔ (s n < 0 ↔ s d < 0) := by
          rw [tmod_lt_zero_iff hz]; omega
        cases ceil <;> simp only [Store.set_apply, Bool.false_eq_true, if_false, if_true, e] <;> split_ifs <;> simp_all [Store.set_apply]
    · simp only [hnr, if_false]
      have e : (s d < 0 ↔ s n < 0) ↔ (s n < 0 ↔ s d < 0) := by omega
      cases ceil <;> simp only [Store.set_apply, Bool.false_eq_true, if_false, if_true, e] <;> split_ifs <;> simp_all [Store.set_apply]

theorem emod_from_tmod (x y : Int) :
    x % y = if Int.tmod x y ≠ 0 ∧ x < 0 then (if y < 0 then Int.tmod x y - y else Int.tmod x y + y) else Int.tmod x y := by
  rw [Int.emod_eq_tmod]
  by_cases hdv : y ∣ x
  · have h0 : Int.tmod x y = 0 := Int.dvd_iff_tmod_eq_zero.mp hdv
    simp [hdv, h0]
  · have h0 : Int.tmod x y ≠ 0 := fun h => hdv (Int.dvd_iff_tmod_eq_zero.mpr h)
    simp only [hdv, or_false, h0, ne_eq, not_false_eq_true, true_and]
    split_ifs <;> omega

theorem mod_eq (s : Store) (r n d : Nat) (hd : s d ≠ 0) :
    mod s r n d = .ok (s.set r (s n % s d)) := by
  obtain ⟨htr, htn, htd, _⟩ := fresh_ne r n d 0
  unfold mod
  generalize fresh r n d 0 = t at *
  dsimp only
  rw [emod_from_tmod]
  by_cases hc : r = d
  · simp only [hc, if_true]
    subst hc
    have h0 : (s.set t (s r)) t ≠ 0 := by simp [Store.set_apply, hd]
    rw [tdiv_r_eq _ r n t h0]
    simp only [Store.set_apply, if_pos, if_false, htn.symm, htr, Ne.symm htr, ne_eq, siz_eq_zero, siz_neg_iff]
    congr 1; funext j
    by_cases hnr : n = r
    · subst hnr
      have hz : Int.tmod (s n) (s n) = 0 := Int.tmod_self
      simp_all [Store.set_apply]
    · simp only [hnr, if_false]
      split_ifs <;> simp_all [Store.set_apply]
  · simp only [hc, if_false]
    rw [tdiv_r_eq _ r n d hd]
    simp only [Store.set_apply, if_pos, if_false, Ne.symm hc, ne_eq, siz_eq_zero, siz_neg_iff]
    congr 1; funext j
    by_cases hnr : n = r
    · subst hnr
      simp only [if_true]
      by_cases hz : Int.tmod (s n) (s d) = 0
      · simp_all [Store.set_apply]
      · have e := tmod_lt_zero_iff hz
        simp only [e]
        split_ifs <;> simp_all [Store.set_apply]
    · simp only [hnr, if_false]
      split_ifs <;> simp_all [Store.set_apply]

theorem tdiv_qr_div0 (s : Store) (q r n d : Nat) (hd : s d = 0) : tdiv_qr s q r n d = .error "div0" := by
  unfold tdiv_qr; simp [hd, siz, sizeNat]
theorem tdiv_q_div0 (s : Store) (q n d : Nat) (hd : s d = 0) : tdiv_q s q n d = .error "div0" := by
  unfold tdiv_q; simp [hd, siz, sizeNat]
theorem tdiv_r_div0 (s : Store) (r n d : Nat) (hd : s d = 0) : tdiv_r s r n d = .error "div0" := by
  unfold tdiv_r; simp [hd, siz, sizeNat]
theorem cfdiv_qr_div0 (c : Bool) (s : Store) (q r n d : Nat) (hd : s d = 0) : cfdiv_qr c s q r n d = .error "div0" := by
  obtain ⟨htq, htr, htn, htd⟩ := fresh_ne q r n d
  unfold cfdiv_qr
  generalize fresh q r n d = t at *
  dsimp only
  by_cases hc : q = d ∨ r = d
  · simp only [hc, if_true]; rw [tdiv_qr_div0 _ q r n t (by simp [Store.set_apply, hd])]
  · simp only [hc, if_false]; rw [tdiv_qr_div0 _ q r n d hd]
theorem cfdiv_q_div0 (c : Bool) (s : Store) (q n d : Nat) (hd : s d = 0) : cfdiv_q c s q n d = .error "div0" := by
  unfold cfdiv_q; dsimp only; rw [tdiv_qr_div0 _ _ _ _ _ hd]
theorem cfdiv_r_div0 (c : Bool) (s : Store) (r n d : Nat) (hd : s d = 0) : cfdiv_r c s r n d = .error "div0" := by
  obtain ⟨htr, htn, htd, _⟩ := fresh_ne r n d 0
  unfold cfdiv_r
  generalize fresh r n d 0 = t at *
  dsimp only
  by_cases hc : r = d
  · simp only [hc, if_true]; rw [tdiv_r_div0 _ _ n t (by simp [Store.set_apply, hd])]
  · simp only [hc, if_false]; rw [tdiv_r_div0 _ r n d hd]
theorem mod_div0 (s : Store) (r n d : Nat) (hd : s d = 0) : mod s r n d = .error "div0" := by
  obtain ⟨htr, htn, htd, _⟩ := fresh_ne r n d 0
  unfold mod
  generalize fresh r n d 0 = t at *
  dsimp only
  by_cases hc : r = d
  · simp only [hc, if_true]; rw [tdiv_r_div0 _ _ n t (by simp [Store.set_apply, hd])]
  · simp only [hc, if_false]; rw [tdiv_r_div0 _ r n d hd]

/-- the specified quotient / remainder of a rounding direction: 0 truncate, -1 floor, 1 ceiling -/
def specQ (dir : Int) (x y : Int) : Int := if dir = 0 then Int.tdiv x y else if dir = -1 then Int.fdiv x y else cdivQ x y
def specR (dir : Int) (x y : Int) : Int := if dir = 0 then Int.tmod x y else if dir = -1 then Int.fmod x y else cdivR x y

theorem spec_ui (dir : Int) (hdir : dir = 0 ∨ dir = -1 ∨ dir = 1) (x : Int) (u : Nat) (hu : u ≠ 0) :
    specQ dir x u = (if uiAdjust dir (x.natAbs % u) (siz x)
        then (if 0 ≤ x then ((x.natAbs / u + 1 : Nat) : Int) else -((x.natAbs / u + 1 : Nat) : Int))
        else (if 0 ≤ x then ((x.natAbs / u : Nat) : Int) else -((x.natAbs / u : Nat) : Int))) ∧
    specR dir x u = (if x.natAbs % u = 0 then 0
        else uiRem dir (siz x) (if uiAdjust dir (x.natAbs % u) (siz x) then u - x.natAbs % u else x.natAbs % u)) := by
  have hy : (u : Int) ≠ 0 := by omega
  have hy0 : ¬ ((u : Int) < 0) := by omega
  have hlt : x.natAbs % u < u := Nat.mod_lt _ (by omega)
  have hq := tdiv_sign_mag x u
  have hr := tmod_sign_mag x u
  have hF := fdiv_from_tdiv (x := x) hy
  have hFm := fmod_from_tmod (x := x) hy
  have hC := cdivQ_from_tdiv (x := x) hy
  have hCm := cdivR_from_tmod (x := x) hy
  simp only [Int.natAbs_natCast, hy0, iff_false, not_lt] at hq hr hF hFm hC hCm
  have hsz : siz x < 0 ↔ x < 0 := siz_neg_iff
  unfold specQ specR uiAdjust uiRem
  generalize x.natAbs / u = k at *
  generalize x.natAbs % u = m at *
  generalize siz x = sz at *
  generalize Int.tdiv x u = T at *
  generalize Int.tmod x u = M at *
  by_cases hx : 0 ≤ x <;>
    simp only [hx, if_true, if_false, not_true_eq_false, not_false_eq_true, false_and, true_and] at hq hr hF hFm hC hCm <;>
    subst hq hr <;>
    rcases hdir with rfl | rfl | rfl
  all_goals (
    simp only [Int.reduceNeg, Int.reduceEq, if_false, if_true, true_and, false_and, or_false, false_or]
    try rw [hF, hFm]
    try rw [hC, hCm]
    constructor <;> split_ifs <;> first | omega | (exfalso; simp_all))

theorem ui_incr_fits {a u : Nat} (hu0 : u ≠ 0) (h : a % u ≠ 0) : ¬ (a / u + 1 ≥ B ^ sizeNat a) := by
  have h1 := lt_B_pow_sizeNat a
  have hu : 2 ≤ u := by
    rcases Nat.lt_or_ge u 2 with h2 | h2
    · have : u = 1 := by omega
      subst this; exact absurd (Nat.mod_one a) h
    · exact h2
  have h2 := Nat.div_add_mod a u
  have h3 : 2 * (a / u) ≤ u * (a / u) := Nat.mul_le_mul_right _ hu
  omega

theorem uiRem_natAbs (dir ns : Int) (k : Nat) : (uiRem dir ns k).natAbs = k := by
  unfold uiRem; split_ifs <;> simp

theorem div_q_ui_eq (dir : Int) (hdir : dir = 0 ∨ dir = -1 ∨ dir = 1) (s : Store) (q n : Nat) (u : Nat) (hu : u ≠ 0) :
    div_q_ui dir s q n u = .ok (s.set q (specQ dir (s n) u), (specR dir (s n) u).natAbs) := by
  obtain ⟨hQ, hR⟩ := spec_ui dir hdir (s n) u hu
  rw [hQ, hR]
  unfold div_q_ui mpn_divrem_1
  simp only [hu, if_false]
  have hnn : siz (s n) ≥ 0 ↔ 0 ≤ s n := siz_nonneg_iff
  by_cases hz : siz (s n) = 0
  · have h0 : s n = 0 := siz_eq_zero.mp hz
    simp [hz, h0, uiAdjust]
  · simp only [hz, if_false, siz_natAbs]
    by_cases hadj : uiAdjust dir ((s n).natAbs % u) (siz (s n))
    · have hrl : (s n).natAbs % u ≠ 0 := hadj.1
      simp only [hadj, if_true, ui_incr_fits hu hrl, if_false, hrl, uiRem_natAbs, hnn]
    · simp only [hadj, if_false, hnn]
      by_cases hrl : (s n).natAbs % u = 0
      · simp [hrl]
      · simp only [hrl, if_false, uiRem_natAbs]

theorem div_r_ui_eq (dir : Int) (hdir : dir = 0 ∨ dir = -1 ∨ dir = 1) (s : Store) (r n : Nat) (u : Nat) (hu : u ≠ 0) :
    div_r_ui dir s r n u = .ok (s.set r (specR dir (s n) u), (specR dir (s n) u).natAbs) := by
  obtain ⟨_, hR⟩ := spec_ui dir hdir (s n) u hu
  rw [hR]
  unfold div_r_ui mpn_mod_1
  simp only [hu, if_false]
  by_cases hz : siz (s n) = 0
  · have h0 : s n = 0 := siz_eq_zero.mp hz
    simp [hz, h0]
  · simp only [hz, if_false]
    by_cases hrl : (s n).natAbs % u = 0
    · simp [hrl]
    · simp only [hrl, if_false, uiRem_natAbs]

theorem div_qr_ui_eq (dir : Int) (hdir : dir = 0 ∨ dir = -1 ∨ dir = 1) (s : Store) (q r n : Nat) (hqr : q ≠ r) (u : Nat) (hu : u ≠ 0) :
    div_qr_ui dir s q r n u = .ok ((s.set r (specR dir (s n) u)).set q (specQ dir (s n) u), (specR dir (s n) u).natAbs) := by
  obtain ⟨hQ, hR⟩ := spec_ui dir hdir (s n) u hu
  rw [hQ, hR]
  unfold div_qr_ui mpn_divrem_1
  simp only [hu, if_false]
  have hnn : siz (s n) ≥ 0 ↔ 0 ≤ s n := siz_nonneg_iff
  by_cases hz : siz (s n) = 0
  · have h0 : s n = 0 := siz_eq_zero.mp hz
    simp only [hz, h0, if_true]
    simp [uiAdjust]
    intro _; funext j; simp only [Store.set_apply]; split_ifs <;> simp_all
  · simp only [hz, if_false, siz_natAbs]
    by_cases hrl : (s n).natAbs % u = 0
    · have hadj : ¬ uiAdjust dir 0 (siz (s n)) := fun h => h.1 rfl
      simp [hrl, hadj, hnn]
    · simp only [hrl, if_false]
      by_cases hadj : uiAdjust dir ((s n).natAbs % u) (siz (s n))
      · simp only [hadj, if_true, ui_incr_fits hu hrl, if_false, uiRem_natAbs, hnn]
      · simp only [hadj, if_false, hnn, uiRem_natAbs]

theorem div_ui_eq (dir : Int) (hdir : dir = 0 ∨ dir = -1 ∨ dir = 1) (x : Int) (u : Nat) (hu : u ≠ 0) :
    div_ui dir x u = .ok (specR dir x u).natAbs := by
  obtain ⟨_, hR⟩ := spec_ui dir hdir x u hu
  rw [hR]
  unfold div_ui mpn_mod_1
  simp only [hu, if_false]
  by_cases hz : siz x = 0
  · have h0 : x = 0 := siz_eq_zero.mp hz
    simp [hz, h0]
  · simp only [hz, if_false]
    by_cases hrl : x.natAbs % u = 0
    · simp [hrl]
    · simp only [hrl, if_false, uiRem_natAbs]

theorem div_ui_div0 (dir : Int) (s : Store) (q r n : Nat) (x : Int) :
    div_q_ui dir s q n 0 = .error "div0" ∧ div_r_ui dir s r n 0 = .error "div0" ∧
    div_qr_ui dir s q r n 0 = .error "div0" ∧ div_ui dir x 0 = .error "div0" := by
  simp [div_q_ui, div_r_ui, div_qr_ui, div_ui]

/-! ### what the specified pairs are -/

theorem tmod_facts (n d : Int) (hd : d ≠ 0) :
    (Int.tmod n d).natAbs < d.natAbs ∧ (Int.tmod n d = 0 ∨ (Int.tmod n d < 0 ↔ n < 0)) ∧
    n = Int.tdiv n d * d + Int.tmod n d := by
  refine ⟨?_, ?_, ?_⟩
  · rw [Int.natAbs_tmod]; exact Nat.mod_lt _ (by omega)
  · by_cases h : Int.tmod n d = 0
    · exact Or.inl h
    · exact Or.inr (tmod_lt_zero_iff h)
  · have := Int.tdiv_mul_add_tmod n d; omega

theorem tdiv_pair (n d : Int) (hd : d ≠ 0) :
    n = tdivQ n d * d + tdivR n d ∧ (tdivR n d).natAbs < d.natAbs ∧ (tdivR n d = 0 ∨ (tdivR n d < 0 ↔ n < 0)) ∧
    (tdivQ n d).natAbs = n.natAbs / d.natAbs := by
  obtain ⟨h1, h2, h3⟩ := tmod_facts n d hd
  exact ⟨h3, h1, h2, by unfold tdivQ; rw [Int.natAbs_tdiv]; rfl⟩

theorem fdiv_pair (n d : Int) (hd : d ≠ 0) :
    n = fdivQ n d * d + fdivR n d ∧ (fdivR n d).natAbs < d.natAbs ∧ (fdivR n d = 0 ∨ (fdivR n d < 0 ↔ d < 0)) := by
  obtain ⟨h1, h2, h3⟩ := tmod_facts n d hd
  have e := Int.fdiv_mul_add_fmod n d
  unfold fdivQ fdivR
  refine ⟨by omega, ?_, ?_⟩ <;> rw [fmod_from_tmod hd] <;> split_ifs <;> omega

theorem cdiv_pair (n d : Int) (hd : d ≠ 0) :
    n = cdivQ n d * d + cdivR n d ∧ (cdivR n d).natAbs < d.natAbs ∧ (cdivR n d = 0 ∨ (cdivR n d < 0 ↔ 0 < d)) := by
  obtain ⟨h1, h2, h3⟩ := tmod_facts n d hd
  refine ⟨by unfold cdivR; omega, ?_, ?_⟩ <;> rw [cdivR_from_tmod hd] <;> split_ifs <;> omega

/-- floor: q is the largest integer with q·d ≤ n (d > 0), resp. q·d ≥ n (d < 0) -/
theorem fdiv_floor (n d : Int) (hd : d ≠ 0) :
    (0 < d → fdivQ n d * d ≤ n ∧ n < (fdivQ n d + 1) * d) ∧ (d < 0 → (fdivQ n d + 1) * d < n ∧ n ≤ fdivQ n d * d) := by
  obtain ⟨h1, h2, h3⟩ := fdiv_pair n d hd
  have e : (fdivQ n d + 1) * d = fdivQ n d * d + d := by ring
  constructor <;> intro hdd <;> rw [e] <;> omega

/-- ceiling: q is the smallest integer with q·d ≥ n (d > 0), resp. q·d ≤ n (d < 0) -/
theorem cdiv_ceil (n d : Int) (hd : d ≠ 0) :
    (0 < d → (cdivQ n d - 1) * d < n ∧ n ≤ cdivQ n d * d) ∧ (d < 0 → cdivQ n d * d ≤ n ∧ n < (cdivQ n d - 1) * d) := by
  obtain ⟨h1, h2, h3⟩ := cdiv_pair n d hd
  have e : (cdivQ n d - 1) * d = cdivQ n d * d - d := by ring
  constructor <;> intro hdd <;> rw [e] <;> omega

theorem mod_range (n d : Int) (hd : d ≠ 0) : 0 ≤ modS n d ∧ modS n d < |d| ∧ d ∣ n - modS n d := by
  unfold modS
  exact ⟨Int.emod_nonneg _ hd, Int.emod_lt_abs _ hd, Int.dvd_self_sub_emod⟩

/-! ### powers of two -/

theorem pow_split (cnt : Nat) : B ^ (cnt / 64) * 2 ^ (cnt % 64) = 2 ^ cnt := by
  rw [B_pow, ← Nat.pow_add]; congr 1; omega

theorem div_split (a cnt : Nat) : a / B ^ (cnt / 64) / 2 ^ (cnt % 64) = a / 2 ^ cnt := by
  rw [Nat.div_div_eq_div_mul, pow_split]

theorem mod_split (a cnt : Nat) :
    a % 2 ^ cnt = a % B ^ (cnt / 64) + B ^ (cnt / 64) * (a / B ^ (cnt / 64) % 2 ^ (cnt % 64)) := by
  rw [← pow_split cnt, Nat.mod_mul]

theorem Bpow_pos (k : Nat) : 0 < B ^ k := Nat.pow_pos (by decide)

theorem lt_two_pow_of_size {a cnt : Nat} (h : sizeNat a ≤ cnt / 64) : a < 2 ^ cnt := by
  have h1 := (sizeNat_le_iff a _).mp h
  have h2 : B ^ (cnt / 64) ≤ B ^ (cnt / 64) * 2 ^ (cnt % 64) := Nat.le_mul_of_pos_right _ (Nat.pow_pos (by decide))
  rw [pow_split] at h2; omega

theorem two_pow_dvd_Bsucc (cnt : Nat) : 2 ^ cnt ∣ B ^ (cnt / 64 + 1) := by
  rw [B_pow]; exact Nat.pow_dvd_pow 2 (by omega)

theorem mod_Bsucc_mod (a cnt : Nat) : (a % B ^ (cnt / 64 + 1)) % (B ^ (cnt / 64) * 2 ^ (cnt % 64)) = a % 2 ^ cnt := by
  rw [pow_split]; exact Nat.mod_mod_of_dvd a (two_pow_dvd_Bsucc cnt)

theorem limb_mod (h cnt : Nat) : (h % B) % 2 ^ (cnt % 64) = h % 2 ^ (cnt % 64) := by
  apply Nat.mod_mod_of_dvd
  unfold B; exact Nat.pow_dvd_pow 2 (by omega)

theorem low_bits_ne_zero_iff (a cnt : Nat) :
    (a % B ^ (cnt / 64) ≠ 0 ∨ a / B ^ (cnt / 64) % 2 ^ (cnt % 64) ≠ 0) ↔ a % 2 ^ cnt ≠ 0 := by
  rw [mod_split a cnt]
  have hp := Bpow_pos (cnt / 64)
  generalize a % B ^ (cnt / 64) = p
  generalize a / B ^ (cnt / 64) % 2 ^ (cnt % 64) = q
  generalize B ^ (cnt / 64) = b at *
  simp only [ne_eq, Nat.add_eq_zero_iff, Nat.mul_eq_zero]
  constructor
  · rintro (h | h) ⟨h1, h2 | h2⟩ <;> omega
  · intro h; by_cases h1 : p = 0
    · right; intro h2; exact h ⟨h1, Or.inr h2⟩
    · exact Or.inl h1

theorem neg_mod_pow {a cnt : Nat} (h : a % 2 ^ cnt ≠ 0) :
    a % B ^ (cnt / 64 + 1) ≠ 0 ∧
    (B ^ (cnt / 64 + 1) - a % B ^ (cnt / 64 + 1)) % (B ^ (cnt / 64) * 2 ^ (cnt % 64)) = 2 ^ cnt - a % 2 ^ cnt := by
  rw [pow_split]
  obtain ⟨k, hk⟩ := two_pow_dvd_Bsucc cnt
  have hMpos := Bpow_pos (cnt / 64 + 1)
  generalize B ^ (cnt / 64 + 1) = M at *
  generalize hm : 2 ^ cnt = m at *
  have hmpos : 0 < m := by rw [← hm]; exact Nat.pow_pos (by decide)
  subst hk
  have ht : (a % (m * k)) % m = a % m := Nat.mod_mod_of_dvd a (Dvd.intro k rfl)
  generalize hr : a % (m * k) = r at *
  generalize a % m = t at *
  have hkpos : 0 < k := by
    rcases Nat.eq_zero_or_pos k with h0 | h0
    · subst h0; simp at hMpos
    · exact h0
  have hrlt : r < m * k := by rw [← hr]; exact Nat.mod_lt _ (Nat.mul_pos hmpos hkpos)
  refine ⟨by intro h0; rw [h0, Nat.zero_mod] at ht; omega, ?_⟩
  have hdm := Nat.div_add_mod r m
  have hj : r / m < k := (Nat.div_lt_iff_lt_mul hmpos).mpr (by rw [Nat.mul_comm]; exact hrlt)
  obtain ⟨e, he⟩ := Nat.exists_eq_add_of_lt hj
  have hlt : r % m < m := Nat.mod_lt _ hmpos
  have : m * k - r = m * e + (m - r % m) := by
    subst he
    have : m * (r / m + e + 1) = m * (r / m) + m * e + m := by ring
    omega
  rw [this, Nat.mul_add_mod, ht, Nat.mod_eq_of_lt (by omega)]

theorem tdiv_natCast (x : Int) (u : Nat) :
    Int.tdiv x u = if 0 ≤ x then ((x.natAbs / u : Nat) : Int) else -((x.natAbs / u : Nat) : Int) := by
  have hq := tdiv_sign_mag x u
  have hy0 : ¬ ((u : Int) < 0) := by omega
  simp only [Int.natAbs_natCast, hy0, iff_false, not_lt] at hq
  exact hq

theorem tmod_natCast (x : Int) (u : Nat) :
    Int.tmod x u = if 0 ≤ x then ((x.natAbs % u : Nat) : Int) else -((x.natAbs % u : Nat) : Int) := by
  have hr := tmod_sign_mag x u
  simp only [Int.natAbs_natCast] at hr
  exact hr

theorem wsize_le_iff (x : Int) (cnt : Nat) :
    ((siz x).natAbs : Int) - ((cnt / 64 : Nat) : Int) ≤ 0 ↔ sizeNat x.natAbs ≤ cnt / 64 := by
  rw [siz_natAbs]; omega

theorem tdiv_q_2exp_eq (s : Store) (w u cnt : Nat) :
    tdiv_q_2exp s w u cnt = s.set w (Int.tdiv (s u) ((2 ^ cnt : Nat) : Int)) := by
  unfold tdiv_q_2exp
  simp only [wsize_le_iff, tdiv_natCast, ge_iff_le, siz_nonneg_iff]
  split
  · rename_i h
    rw [Nat.div_eq_of_lt (lt_two_pow_of_size h)]; simp
  · have e : (if cnt % 64 ≠ 0 then (s u).natAbs / B ^ (cnt / 64) / 2 ^ (cnt % 64) else (s u).natAbs / B ^ (cnt / 64)) = (s u).natAbs / 2 ^ cnt := by
      rw [← div_split (s u).natAbs cnt]; split_ifs with hc
      · rfl
      · have : cnt % 64 = 0 := by omega
        rw [this]; simp
    rw [e]

theorem tdiv_r_2exp_eq (s : Store) (w u cnt : Nat) :
    tdiv_r_2exp s w u cnt = s.set w (Int.tmod (s u) ((2 ^ cnt : Nat) : Int)) := by
  unfold tdiv_r_2exp
  simp only [tmod_natCast, ge_iff_le, siz_nonneg_iff, siz_natAbs, limb_mod]
  congr 1
  have e : (if sizeNat (s u).natAbs > cnt / 64 then
        (if (s u).natAbs / B ^ (cnt / 64) % 2 ^ (cnt % 64) ≠ 0 then
          (s u).natAbs / B ^ (cnt / 64) % 2 ^ (cnt % 64) * B ^ (cnt / 64) + (s u).natAbs % B ^ (cnt / 64)
        else (s u).natAbs % B ^ (cnt / 64))
      else (s u).natAbs) = (s u).natAbs % 2 ^ cnt := by
    split_ifs with h1 h2
    · rw [mod_split (s u).natAbs cnt]; ring
    · rw [mod_split (s u).natAbs cnt]; simp only [ne_eq, not_not] at h2; rw [h2]; simp
    · rw [Nat.mod_eq_of_lt (lt_two_pow_of_size (by omega))]
  rw [e]

theorem sameSign_dir (sz dir : Int) (hdir : dir = -1 ∨ dir = 1) :
    sameSign sz dir ↔ ((dir = -1 ∧ sz < 0) ∨ (dir = 1 ∧ sz ≥ 0)) := by
  unfold sameSign; rcases hdir with rfl | rfl <;> omega

theorem cfdiv_q_2exp_eq (dir : Int) (hdir : dir = -1 ∨ dir = 1) (s : Store) (w u cnt : Nat) :
    cfdiv_q_2exp s w u cnt dir = s.set w (specQ dir (s u) ((2 ^ cnt : Nat) : Int)) := by
  have hpos : (2 ^ cnt : Nat) ≠ 0 := (Nat.pow_pos (by decide)).ne'
  obtain ⟨hQ, _⟩ := spec_ui dir (Or.inr hdir) (s u) (2 ^ cnt) hpos
  rw [hQ]
  unfold cfdiv_q_2exp
  simp only [wsize_le_iff]
  have hz : siz (s u) = 0 ↔ s u = 0 := siz_eq_zero
  have hn : siz (s u) < 0 ↔ s u < 0 := siz_neg_iff
  have ha : (s u).natAbs = 0 ↔ s u = 0 := Int.natAbs_eq_zero
  split
  · rename_i h
    have hlt := lt_two_pow_of_size h
    rw [Nat.div_eq_of_lt hlt, Nat.mod_eq_of_lt hlt]
    congr 1
    unfold uiAdjust
    simp only [sameSign_dir _ _ hdir]
    generalize siz (s u) = sz at *
    generalize (s u).natAbs = a at *
    rcases hdir with rfl | rfl <;> simp only [Int.reduceNeg, Int.reduceEq, true_and, false_and, or_false, false_or] <;> split_ifs <;> omega
  · have e : (if cnt % 64 ≠ 0 then (s u).natAbs / B ^ (cnt / 64) / 2 ^ (cnt % 64) else (s u).natAbs / B ^ (cnt / 64)) = (s u).natAbs / 2 ^ cnt := by
      rw [← div_split (s u).natAbs cnt]; split_ifs with hc
      · rfl
      · have : cnt % 64 = 0 := by omega
        rw [this]; simp
    have er : (if cnt % 64 ≠ 0 then
          (decide (sameSign (siz (s u)) dir) && decide ((s u).natAbs % B ^ (cnt / 64) ≠ 0) ||
            decide (sameSign (siz (s u)) dir) && decide ((s u).natAbs / B ^ (cnt / 64) % 2 ^ (cnt % 64) ≠ 0))
        else (decide (sameSign (siz (s u)) dir) && decide ((s u).natAbs % B ^ (cnt / 64) ≠ 0))) =
        decide (uiAdjust dir ((s u).natAbs % 2 ^ cnt) (siz (s u))) := by
      have h1 := low_bits_ne_zero_iff (s u).natAbs cnt
      have h2 := sameSign_dir (siz (s u)) dir hdir
      rw [Bool.eq_iff_iff, decide_eq_true_eq]
      unfold uiAdjust
      by_cases hc : cnt % 64 = 0
      · simp only [hc, ne_eq, not_true_eq_false, if_false, pow_zero, Nat.mod_one, or_false, Bool.and_eq_true,
          decide_eq_true_eq, not_false_eq_true] at h1 ⊢
        rw [← h1, ← h2]; exact and_comm
      · simp only [hc, ne_eq, not_false_eq_true, if_true, Bool.or_eq_true, Bool.and_eq_true, decide_eq_true_eq] at h1 ⊢
        rw [← h1, ← h2]
        constructor
        · rintro (⟨hp, hx⟩ | ⟨hp, hy⟩)
          · exact ⟨Or.inl hx, hp⟩
          · exact ⟨Or.inr hy, hp⟩
        · rintro ⟨hx | hy, hp⟩
          · exact Or.inl ⟨hp, hx⟩
          · exact Or.inr ⟨hp, hy⟩
    rw [e, er]
    congr 1
    by_cases hadj : uiAdjust dir ((s u).natAbs % 2 ^ cnt) (siz (s u))
    · simp only [hadj, decide_true, if_true, ge_iff_le, siz_nonneg_iff]
      have : (if (s u).natAbs / 2 ^ cnt ≠ 0 then (s u).natAbs / 2 ^ cnt + 1 else 1) = (s u).natAbs / 2 ^ cnt + 1 := by
        split_ifs with h0
        · rfl
        · simp only [ne_eq, not_not] at h0; rw [h0]
      rw [this]
    · simp only [hadj, decide_false, if_false, ge_iff_le, siz_nonneg_iff, Bool.false_eq_true]

theorem negate_iff (a cnt : Nat) (ha : a ≠ 0) :
    (decide (sizeNat a ≤ cnt / 64) || decide (a % B ^ (cnt / 64) ≠ 0) ||
      decide ((a / B ^ (cnt / 64) % B) % 2 ^ (cnt % 64) ≠ 0)) = true ↔ a % 2 ^ cnt ≠ 0 := by
  simp only [Bool.or_eq_true, decide_eq_true_eq, limb_mod]
  rw [← low_bits_ne_zero_iff a cnt]
  constructor
  · rintro ((h | h) | h)
    · left; rw [Nat.mod_eq_of_lt ((sizeNat_le_iff a _).mp h)]; exact ha
    · exact Or.inl h
    · exact Or.inr h
  · rintro (h | h)
    · exact Or.inl (Or.inr h)
    · exact Or.inr h

theorem sub_one_add_one {M r : Nat} (h : r < M) (h0 : r ≠ 0) : M - 1 - r + 1 = M - r ∧ ¬ (M - r ≥ M) := by omega

theorem cfdiv_r_2exp_eq (dir : Int) (hdir : dir = -1 ∨ dir = 1) (s : Store) (w u cnt : Nat) :
    cfdiv_r_2exp s w u cnt dir = .ok (s.set w (specR dir (s u) ((2 ^ cnt : Nat) : Int))) := by
  have hpos : (2 ^ cnt : Nat) ≠ 0 := (Nat.pow_pos (by decide)).ne'
  obtain ⟨_, hR⟩ := spec_ui dir (Or.inr hdir) (s u) (2 ^ cnt) hpos
  rw [hR]
  unfold cfdiv_r_2exp
  dsimp only
  have hzz : siz (s u) = 0 ↔ s u = 0 := siz_eq_zero
  have hn : siz (s u) < 0 ↔ s u < 0 := siz_neg_iff
  have ha0 : (s u).natAbs = 0 ↔ s u = 0 := Int.natAbs_eq_zero
  have hsd := sameSign_dir (siz (s u)) dir hdir
  by_cases hz : siz (s u) = 0
  · have h0 : s u = 0 := hzz.mp hz
    simp only [hz, if_true]
    simp [h0]
  · have hx : s u ≠ 0 := fun h => hz (hzz.mpr h)
    have ha : (s u).natAbs ≠ 0 := fun h => hx (ha0.mp h)
    simp only [hz, if_false, siz_natAbs]
    by_cases hs : sameSign (siz (s u)) dir
    · have hadj : ∀ m, m ≠ 0 → uiAdjust dir m (siz (s u)) := fun m hm => ⟨hm, hsd.mp hs⟩
      simp only [hs, not_true_eq_false, if_false]
      by_cases hm : (s u).natAbs % 2 ^ cnt = 0
      · have hneg : ¬ ((decide (sizeNat (s u).natAbs ≤ cnt / 64) || decide ((s u).natAbs % B ^ (cnt / 64) ≠ 0) ||
            decide (((s u).natAbs / B ^ (cnt / 64) % B) % 2 ^ (cnt % 64) ≠ 0)) = true) := by
          rw [negate_iff _ _ ha]; simpa using hm
        simp only [hneg, Bool.false_eq_true, not_false_eq_true, if_true, hm]
      · have hneg : (decide (sizeNat (s u).natAbs ≤ cnt / 64) || decide ((s u).natAbs % B ^ (cnt / 64) ≠ 0) ||
            decide (((s u).natAbs / B ^ (cnt / 64) % B) % 2 ^ (cnt % 64) ≠ 0)) = true := (negate_iff _ _ ha).mpr hm
        obtain ⟨hr0, hval⟩ := neg_mod_pow hm
        have hrlt : (s u).natAbs % B ^ (cnt / 64 + 1) < B ^ (cnt / 64 + 1) := Nat.mod_lt _ (Bpow_pos _)
        obtain ⟨e1, e2⟩ := sub_one_add_one hrlt hr0
        simp only [hneg, not_true_eq_false, if_false, e1, e2, hval, hm, hadj _ hm, if_true]
        congr 2
        unfold uiRem
        generalize siz (s u) = sz at *
        generalize (2 ^ cnt - (s u).natAbs % 2 ^ cnt) = m at *
        have hs' := hsd.mp hs
        rcases hdir with rfl | rfl <;> simp only [Int.reduceNeg, Int.reduceEq, true_and, false_and, or_false, false_or, if_true, if_false] at hs' ⊢ <;> split_ifs <;> omega
    · have hnadj : ∀ m, ¬ uiAdjust dir m (siz (s u)) := fun m h => hs (hsd.mpr h.2)
      simp only [hs, not_false_eq_true, if_true, hnadj, if_false]
      by_cases hsz : sizeNat (s u).natAbs ≤ cnt / 64
      · have hlt := lt_two_pow_of_size hsz
        simp only [hsz, if_true, Nat.mod_eq_of_lt hlt, ha, if_false]
        congr 1
        have hv : s u = uiRem dir (siz (s u)) (s u).natAbs := by
          unfold uiRem
          generalize siz (s u) = sz at *
          have hs' : ¬ (dir = -1 ∧ sz < 0 ∨ dir = 1 ∧ sz ≥ 0) := fun h => hs (hsd.mpr h)
          rcases hdir with rfl | rfl <;> simp only [Int.reduceNeg, Int.reduceEq, true_and, false_and, or_false, false_or, if_true, if_false] at hs' ⊢ <;> omega
        rw [← hv]
        by_cases hwu : w = u
        · subst hwu; simp only [if_true]; funext j; simp only [Store.set_apply]; split_ifs with h <;> simp [h]
        · simp only [hwu, if_false]
      · simp only [hsz, if_false, mod_Bsucc_mod]
        congr 2
        unfold uiRem
        generalize siz (s u) = sz at *
        generalize (s u).natAbs % 2 ^ cnt = m at *
        have hs' : ¬ (dir = -1 ∧ sz < 0 ∨ dir = 1 ∧ sz ≥ 0) := fun h => hs (hsd.mpr h)
        rcases hdir with rfl | rfl <;> simp only [Int.reduceNeg, Int.reduceEq, true_and, false_and, or_false, false_or, if_true, if_false] at hs' ⊢ <;> split_ifs <;> omega

/-! ### divisibility -/

theorem ctz_spec : ∀ (d : Nat), d ≠ 0 → 2 ^ ctz d ∣ d ∧ (d / 2 ^ ctz d) % 2 = 1 := by
  intro d
  induction d using Nat.strongRecOn with
  | _ d ih =>
    intro hd
    unfold ctz
    simp only [hd, dite_false]
    split
    · rename_i h1; simp [h1]
    · rename_i h1
      have h2 : d % 2 = 0 := by omega
      have hd2 : d / 2 ≠ 0 := by omega
      obtain ⟨i1, i2⟩ := ih (d / 2) (by omega) hd2
      have e : 2 ^ (1 + ctz (d / 2)) = 2 * 2 ^ ctz (d / 2) := by rw [Nat.pow_add]
      rw [e]
      constructor
      · have : d = 2 * (d / 2) := by omega
        rw [this]; exact Nat.mul_dvd_mul_left 2 (by rw [← this]; exact i1)
      · rw [← Nat.div_div_eq_div_mul]; exact i2

theorem coprime_two_pow_odd (t n : Nat) (h : n % 2 = 1) : Nat.Coprime (2 ^ t) n := by
  apply Nat.Coprime.pow_left
  unfold Nat.Coprime
  rw [Nat.gcd_rec, h]; simp

theorem mod_eq_zero_beq (a d : Nat) : (a % d == 0) = true ↔ d ∣ a := by
  rw [beq_iff_eq, Nat.dvd_iff_mod_eq_zero]

theorem divisible_p_iff' (a d : Int) : divisible_p a d = true ↔ d ∣ a := by
  unfold divisible_p mpn_divisible_p
  simp only [siz_eq_zero]
  by_cases hd : d = 0
  · subst hd; simp
  · simp only [hd, if_false, mod_eq_zero_beq, Int.natAbs_dvd_natAbs]

theorem divisible_ui_p_iff' (thr : Nat) (a : Int) (d : Nat) (hdB : d < B) :
    divisible_ui_p thr a d = true ↔ (d : Int) ∣ a := by
  unfold divisible_ui_p mpn_mod_1
  simp only [siz_eq_zero]
  have hcast : ∀ k : Nat, (k : Int) ∣ a ↔ k ∣ a.natAbs := fun k => by
    rw [← Int.natAbs_dvd_natAbs]; simp
  by_cases hd : d = 0
  · subst hd; simp
  · simp only [hd, if_false]
    by_cases ha : a = 0
    · subst ha; simp
    · simp only [ha, if_false, hcast]
      split
      · exact mod_eq_zero_beq _ _
      · split
        · obtain ⟨c1, c2⟩ := ctz_spec d hd
          have ht : 2 ^ ctz d ∣ B := by
            have hle : 2 ^ ctz d ≤ d := Nat.le_of_dvd (by omega) c1
            have : ctz d < 64 := by
              by_contra hge
              have : 2 ^ 64 ≤ 2 ^ ctz d := Nat.pow_le_pow_right (by decide) (by omega)
              unfold B at hdB; omega
            unfold B; exact Nat.pow_dvd_pow 2 (by omega)
          have hlz : lowZerosMod d = 2 ^ ctz d := by unfold lowZerosMod; simp [hd]
          rw [hlz, Nat.mod_mod_of_dvd _ ht]
          have hpos : 0 < 2 ^ ctz d := Nat.pow_pos (by decide)
          have hcop : ∀ n, n % 2 = 1 → Nat.Coprime (2 ^ ctz d) n := fun n hn => coprime_two_pow_odd _ n hn
          generalize 2 ^ ctz d = p at *
          obtain ⟨d', hd'⟩ := c1
          have hdd : d / p = d' := by rw [hd']; exact Nat.mul_div_cancel_left _ hpos
          rw [hdd] at c2 ⊢
          split
          · rename_i hne
            constructor
            · intro h; exact absurd h (by simp)
            · intro h
              have : p ∣ a.natAbs := Nat.dvd_trans (Dvd.intro _ hd'.symm) h
              exact absurd (Nat.dvd_iff_mod_eq_zero.mp this) hne
          · rename_i hne
            simp only [ne_eq, not_not] at hne
            rw [mod_eq_zero_beq]
            constructor
            · intro h
              rw [hd']
              exact Nat.Coprime.mul_dvd_of_dvd_of_dvd (hcop _ c2) (Nat.dvd_iff_mod_eq_zero.mpr hne) h
            · intro h; exact Nat.dvd_trans (Dvd.intro_left _ hd'.symm) h
        · exact mod_eq_zero_beq _ _

theorem divisible_2exp_p_iff' (a : Int) (d : Nat) :
    divisible_2exp_p a d = true ↔ ((2 ^ d : Nat) : Int) ∣ a := by
  have hcast : ((2 ^ d : Nat) : Int) ∣ a ↔ 2 ^ d ∣ a.natAbs := by
    rw [← Int.natAbs_dvd_natAbs]; simp
  rw [hcast, Nat.dvd_iff_mod_eq_zero]
  unfold divisible_2exp_p
  simp only [siz_natAbs, limb_mod]
  split
  · rename_i h
    have hlt := lt_two_pow_of_size h
    rw [Nat.mod_eq_of_lt hlt]; simp [sizeNat_eq_zero]
  · have hl := low_bits_ne_zero_iff a.natAbs d
    split
    · rename_i h1
      constructor
      · intro h; exact absurd h (by simp)
      · intro h; exact absurd h (hl.mp (Or.inl h1))
    · rename_i h1
      simp only [ne_eq, not_not] at h1
      simp only [decide_eq_true_eq]
      constructor
      · intro h; by_contra hne; rcases hl.mpr hne with h2 | h2
        · exact h2 h1
        · exact h2 h
      · intro h; by_contra hne; exact (hl.mp (Or.inr hne)) h

theorem divexact_eq (s : Store) (q n d : Nat) (hd : s d ≠ 0) :
    divexact s q n d = .ok (s.set q (Int.tdiv (s n) (s d))) := by
  have hdl := siz_natAbs_ne_zero hd
  unfold divexact mpn_divexact
  simp only [hdl, if_false]
  split
  · rename_i h
    have hlt : (s n).natAbs < (s d).natAbs := lt_of_sizeNat_lt (by rw [siz_natAbs, siz_natAbs] at h; exact h)
    rw [(tdiv_tmod_of_natAbs_lt hlt).1]
  · simp only [tdiv_sign_mag (s n) (s d), sameSign_siz]

theorem divexact_ui_eq (s : Store) (q n : Nat) (u : Nat) (hu : u ≠ 0) :
    divexact_ui s q n u = .ok (s.set q (Int.tdiv (s n) u)) := by
  unfold divexact_ui mpn_divexact
  simp only [hu, if_false, siz_eq_zero]
  split
  · rename_i h; rw [h]; simp
  · simp only [tdiv_natCast, ge_iff_le, siz_nonneg_iff]

end Mpir.DivZ
