/- C06 — mpn_dc_set_str and mpn_set_str_compute_powtab (models in Mpir/Model/RadixDc.lean). -/
import MpirProofs.Lemmas.RadixDc
import Mathlib.Data.Nat.Bitwise
namespace Mpir.RadixDc
open Mpir Mpir.Radix

/-! ### the basecase returns a normalised result -/

/-- empty, or the top limb is non-zero (stated through the value) -/
def Norm (r : List Nat) : Prop := r = [] ∨ B ^ (r.length - 1) ≤ val r

theorem bcStep_norm (rp : List Nat) (m d : Nat) (hrp : Limbs rp) (hm : m < B) (hd : d < B) (hm1 : 1 ≤ m)
    (hn : Norm rp) : Norm (bcStep rp m d) := by
  obtain ⟨sv, sl⟩ := bcStep_val rp m d hrp hm hd
  unfold Norm
  rw [sv]
  unfold bcStep
  by_cases h0 : rp.length = 0
  · have : rp = [] := List.length_eq_zero_iff.mp h0
    subst this
    by_cases hd0 : d = 0
    · subst hd0; simp
    · have : (d != 0) = true := by simpa using hd0
      simp [this]; omega
  · have hne : rp ≠ [] := fun e => h0 (by rw [e]; rfl)
    have hb : (rp.length == 0) = false := by simpa using h0
    simp only [hb, Bool.false_eq_true, if_false]
    obtain ⟨mv, mc, ml, mn⟩ := Radix.mul1C_val rp m 0 hrp hm B_pos
    have hne1 : (mul_1 rp m).1 ≠ [] := by
      intro e; have := congrArg List.length e; rw [show (mul_1 rp m).1.length = rp.length from mn] at this
      simp at this; exact hne this
    obtain ⟨av, ac, al, an⟩ := Radix.add_1_val (mul_1 rp m).1 d ml hne1 hd
    rw [show (mul_1 rp m).1.length = rp.length from mn] at av an
    change val (mul_1 rp m).1 + B ^ rp.length * (mul_1 rp m).2 = val rp * m + 0 at mv
    have hge : B ^ (rp.length - 1) ≤ val rp := by
      rcases hn with h | h
      · exact absurd h hne
      · exact h
    have hge2 : B ^ (rp.length - 1) ≤ val rp * m + d :=
      le_trans hge (le_trans (Nat.le_mul_of_pos_right _ hm1) (Nat.le_add_right _ _))
    generalize mul_1 rp m = r1 at *
    obtain ⟨r1, cy1⟩ := r1
    generalize add_1 r1 d = r2 at *
    obtain ⟨r2, cy2⟩ := r2
    simp only at *
    right
    split
    · -- a carry limb is appended: the value is what bcStep_val says, at least B^n
      rename_i hc
      rw [List.length_append, an]
      simp only [List.length_cons, List.length_nil, Nat.zero_add, Nat.add_sub_cancel]
      have hcy : (cy1 + cy2) % B ≠ 0 := by simpa using hc
      unfold bcStep at sv
      simp only [hb, Bool.false_eq_true, if_false] at sv
      -- recompute the value of r2 ++ [cy]
      have : val (r2 ++ [(cy1 + cy2) % B]) = val rp * m + d := by
        have e : (mul_1 rp m) = (r1, cy1) → True := fun _ => trivial
        rw [val_snoc, an]
        have hsum : cy1 + cy2 < B := by
          by_contra hcon
          have hlt := val_lt rp hrp
          have hr2 := val_lt r2 al
          rw [an] at hr2
          have h1 : B ^ rp.length * B ≤ B ^ rp.length * (cy1 + cy2) := Nat.mul_le_mul_left _ (by omega)
          have h2 : val rp * m + d < B ^ rp.length * B := by
            have : (val rp + 1) * B ≤ B ^ rp.length * B := Nat.mul_le_mul_right _ hlt
            nlinarith
          nlinarith
        rw [Nat.mod_eq_of_lt hsum]
        nlinarith
      rw [← this, val_snoc, an]
      have : 1 ≤ (cy1 + cy2) % B := Nat.pos_of_ne_zero hcy
      nlinarith [Nat.pow_pos (n := rp.length) B_pos]
    · rw [an]; exact hge2

theorem bcLoop_norm {b cpl bb : Nat} (hb : 2 ≤ b) (hcpl : 0 < cpl) (hbb : bb = b ^ cpl) (hlt : bb < B) :
    ∀ (n : Nat) (str rp : List Nat), str.length = n → str ≠ [] → (∀ d ∈ str, d < b) → Limbs rp → Norm rp →
      Norm (bcLoop b cpl bb str rp) := by
  intro n
  induction n using Nat.strong_induction_on with
  | _ n ih =>
    intro str rp hn hne hd hrp hnorm
    have hbpos : 0 < b := by omega
    have hbbpos : 1 ≤ bb := by rw [hbb]; exact Nat.pow_pos hbpos
    rw [bcLoop]
    split
    · rename_i hc
      have htl : (str.take cpl).length = cpl := by rw [List.length_take]; omega
      have htd : ∀ d ∈ str.take cpl, d < b := fun d h => hd d (List.mem_of_mem_take h)
      have hcv : chunkVal b (str.take cpl) = ofDigits b (str.take cpl) :=
        chunkVal_eq hbpos _ htd (by rw [htl, ← hbb]; exact Nat.le_of_lt hlt)
      have hclt : ofDigits b (str.take cpl) < bb := by
        have := ofDigits_lt hbpos _ htd; rw [htl, ← hbb] at this; exact this
      have hdB : chunkVal b (str.take cpl) < B := by rw [hcv]; omega
      obtain ⟨_, sl⟩ := bcStep_val rp bb (chunkVal b (str.take cpl)) hrp hlt hdB
      have sn := bcStep_norm rp bb (chunkVal b (str.take cpl)) hrp hlt hdB hbbpos hnorm
      have hdl : (str.drop cpl).length = str.length - cpl := List.length_drop
      exact ih (str.drop cpl).length (by rw [hdl, ← hn]; omega) (str.drop cpl) _ rfl
        (by intro e; rw [e] at hdl; simp at hdl; omega)
        (fun d h => hd d (List.mem_of_mem_drop h)) sl sn
    · rename_i hc
      have hlen : str.length ≤ cpl := by omega
      have hpos : 0 < str.length := List.length_pos_iff.mpr hne
      have hple : b ^ str.length ≤ bb := by rw [hbb]; exact Nat.pow_le_pow_right hbpos hlen
      have hm : (str.drop 1).foldl (fun m _ => (m * b) % B) b = b ^ str.length := by
        have e : b * b ^ (str.drop 1).length = b ^ str.length := by
          rw [List.length_drop, ← pow_succ']; congr 1; omega
        rw [foldl_pow b _ b (by rw [e]; omega) hbpos, e]
      have hcv : chunkVal b str = ofDigits b str := chunkVal_eq hbpos _ hd (by omega)
      have hclt := ofDigits_lt hbpos _ hd
      rw [hm, hcv]
      exact bcStep_norm rp _ _ hrp (by omega) (by omega) (Nat.pow_pos hbpos) hnorm

/-- mpn_bc_set_str: value, proper limbs, and no high zero limb -/
theorem bc_set_str_full {b : Nat} (hb : 2 ≤ b) (hb62 : b ≤ 62) (hok : NonPow2Ok b)
    (str : List Nat) (hne : str ≠ []) (hd : ∀ d ∈ str, d < b) :
    val (bc_set_str b str) = ofDigits b str ∧ Limbs (bc_set_str b str) ∧ Norm (bc_set_str b str) := by
  have h1 := bcLoop_val hb (hok.cpl_pos hb62) hok.1 (hok.1 ▸ hok.2.1) str.length str [] rfl hne hd Limbs_nil
  have h2 := bcLoop_norm hb (hok.cpl_pos hb62) hok.1 (hok.1 ▸ hok.2.1) str.length str [] rfl hne hd Limbs_nil
    (Or.inl rfl)
  refine ⟨by simpa [bc_set_str] using h1.1, h1.2, h2⟩

/-! ### mpn_dc_set_str -/

/-- the multiply-and-add part of mpn_dc_set_str (set_str.c:238-265) -/
def dcCombine (pw : Pow) (h l : List Nat) : Option (List Nat) :=
  let rp := if h.length == 0 then List.replicate (pw.p.length + pw.shift) 0
            else List.replicate pw.shift 0 ++ toLimbs (pw.p.length + h.length) (val pw.p * val h)
  if l.length > h.length + pw.p.length + pw.shift then none else
  let sum := toLimbs (h.length + pw.p.length + pw.shift) (val rp + val l)
  some (if sum.getLast? == some 0 then sum.dropLast else sum)

/-- `BELOW_THRESHOLD (len, SET_STR_DC_THRESHOLD) ? mpn_bc_set_str : mpn_dc_set_str (…, powtab + 1, …)` -/
def dcPart (T base : Nat) (rest : List Pow) (len : Nat) (s : List Nat) : Option (List Nat) :=
  if len < T then some (bc_set_str base s) else dcSetStr T base rest s

theorem dcSetStr_cons (T base : Nat) (pw : Pow) (rest : List Pow) (str : List Nat) :
    dcSetStr T base (pw :: rest) str =
      if str.length ≤ pw.dib then dcPart T base rest str.length str
      else match dcPart T base rest (str.length - pw.dib) (str.take (str.length - pw.dib)),
                 dcPart T base rest pw.dib (str.drop (str.length - pw.dib)) with
        | some h, some l => dcCombine pw h l
        | _, _ => none := by
  rw [dcSetStr]; rfl

/-- result shape: empty or fewer limbs than the digit count allows -/
def Fits (b k : Nat) (r : List Nat) : Prop := r = [] ∨ B ^ (r.length - 1) < b ^ k

theorem combine_ok {b cpl e : Nat} {pw : Pow} (hb : 2 ≤ b) (hok : PowOk b cpl pw e) (k : Nat) (h l : List Nat)
    (hh : Limbs h) (_hl : Limbs l) (hvh : val h < b ^ k) (hvl : val l < (b ^ cpl) ^ e)
    (hfh : Fits b k h) (hfl : l = [] ∨ B ^ (l.length - 1) < (b ^ cpl) ^ e) :
    ∃ r, dcCombine pw h l = some r ∧ val r = val h * (b ^ cpl) ^ e + val l ∧ Limbs r ∧
      (r = [] ∨ B ^ (r.length - 1) < b ^ k * (b ^ cpl) ^ e) := by
  have hPlo := hok.lower
  have hPhi := hok.upper
  have hval := hok.value
  have hpl : 0 < pw.p.length := List.length_pos_iff.mpr hok.ne
  have hB1 : 1 < B := by rw [B_eq]; omega
  have hbk : 0 < b ^ k := Nat.pow_pos (by omega)
  generalize hP : (b ^ cpl) ^ e = P at *
  have hPpos : 0 < P := by rw [← hP]; exact Nat.pow_pos (Nat.pow_pos (by omega))
  generalize hlam : pw.p.length + pw.shift = lam at *
  have hlam1 : 1 ≤ lam := by omega
  -- ln ≤ λ
  have hll : l.length ≤ lam := by
    rcases hfl with h0 | h0
    · rw [h0]; simp
    · have := (Nat.pow_lt_pow_iff_right hB1).mp (lt_trans h0 hPhi); omega
  have hvhB := val_lt h hh
  -- value of rp
  have hrp : val (if h.length == 0 then List.replicate (pw.p.length + pw.shift) 0
            else List.replicate pw.shift 0 ++ toLimbs (pw.p.length + h.length) (val pw.p * val h)) = val h * P := by
    by_cases h0 : h.length = 0
    · have : h = [] := List.length_eq_zero_iff.mp h0
      subst this; simp [val_replicate_zero]
    · have hc : (h.length == 0) = false := by simpa using h0
      simp only [hc, Bool.false_eq_true, if_false]
      rw [val_append, val_replicate_zero, List.length_replicate, Nat.zero_add]
      have hfit : val pw.p * val h < B ^ (pw.p.length + h.length) := by
        rw [pow_add]; exact Nat.mul_lt_mul'' (val_lt _ hok.limbs) hvhB
      rw [val_toLimbs_lt hfit, ← hval]; ring
  unfold dcCombine
  simp only []
  rw [hrp, show h.length + pw.p.length + pw.shift = h.length + lam by omega, if_neg (by omega)]
  -- the sum fits n = hn + λ limbs
  have hfit : val h * P + val l < B ^ (h.length + lam) := by
    have h1 : val h * P + val l < (val h + 1) * P := by rw [Nat.add_mul, Nat.one_mul]; omega
    have h2 : (val h + 1) * P ≤ B ^ h.length * B ^ lam := Nat.mul_le_mul hvhB (Nat.le_of_lt hPhi)
    rw [pow_add]; omega
  have hV : val h * P + val l < b ^ k * P := by
    have h1 : val h * P + val l < (val h + 1) * P := by rw [Nat.add_mul, Nat.one_mul]; omega
    exact lt_of_lt_of_le h1 (Nat.mul_le_mul_right _ hvh)
  have sv := val_toLimbs_lt hfit
  have sl := toLimbs_length (h.length + lam) (val h * P + val l)
  have sL := Limbs_toLimbs (h.length + lam) (val h * P + val l)
  generalize toLimbs (h.length + lam) (val h * P + val l) = sum at *
  have sne : sum ≠ [] := by intro e0; rw [e0] at sl; simp at sl; omega
  have hs := dropLast_getLast! sum sne
  have hgl : sum.getLast? = some sum.getLast! := by
    conv_lhs => rw [← hs]
    simp
  rw [hgl]
  by_cases htop : sum.getLast! = 0
  · have hc : (some sum.getLast! == some 0) = true := by rw [htop]; rfl
    rw [if_pos hc]
    have dv : val sum.dropLast = val h * P + val l := by
      rw [← sv]; conv_rhs => rw [← hs]
      rw [val_snoc, htop]; simp
    refine ⟨_, rfl, dv, (Limbs_append.mp (hs ▸ sL)).1, ?_⟩
    rw [List.length_dropLast, sl]
    -- B^(n-2) < b^k·P unless the result is empty
    rcases Nat.lt_or_ge (h.length + lam) 2 with hsmall | hbig
    · left; apply List.eq_nil_of_length_eq_zero; rw [List.length_dropLast, sl]; omega
    · right
      rcases Nat.eq_zero_or_pos h.length with hz | hz
      · -- hn = 0: n = λ ≥ 2
        rw [hz] at hbig ⊢; simp only [Nat.zero_add] at hbig ⊢
        have h1 : B ^ (lam - 1 - 1) < B ^ (lam - 1) := Nat.pow_lt_pow_right hB1 (by omega)
        calc B ^ (lam - 1 - 1) < B ^ (lam - 1) := h1
          _ ≤ P := hPlo
          _ ≤ b ^ k * P := Nat.le_mul_of_pos_left _ hbk
      · have h0 : B ^ (h.length - 1) < b ^ k := by
          rcases hfh with h0 | h0
          · rw [h0] at hz; simp at hz
          · exact h0
        have e1 : h.length + lam - 1 - 1 = (h.length - 1) + (lam - 1) := by omega
        rw [e1, pow_add]
        exact Nat.mul_lt_mul_of_lt_of_le h0 hPlo hPpos
  · have hc : (some sum.getLast! == some 0) = false := by simpa using htop
    rw [if_neg (by rw [hc]; simp)]
    refine ⟨_, rfl, sv, sL, Or.inr ?_⟩
    have := val_ge_of_top sne htop
    rw [sv] at this
    exact lt_of_le_of_lt this hV

/-- what every part of the recursion returns -/
def SetRes (b : Nat) (s r : List Nat) : Prop := val r = ofDigits b s ∧ Limbs r ∧ Fits b s.length r

theorem bc_res {b : Nat} (hb : 2 ≤ b)
    (hbc : ∀ str : List Nat, str ≠ [] → (∀ d ∈ str, d < b) →
      val (bc_set_str b str) = ofDigits b str ∧ Limbs (bc_set_str b str) ∧ Norm (bc_set_str b str))
    (s : List Nat) (hne : s ≠ []) (hd : ∀ d ∈ s, d < b) : SetRes b s (bc_set_str b s) := by
  obtain ⟨h1, h2, h3⟩ := hbc s hne hd
  refine ⟨h1, h2, ?_⟩
  rcases h3 with h3 | h3
  · exact Or.inl h3
  · right; rw [h1] at h3; exact lt_of_le_of_lt h3 (ofDigits_lt (by omega) s hd)

/-- one level of mpn_dc_set_str, given that the parts (at most `digits_in_base` digits each) convert correctly -/
theorem dc_level {b cpl T e : Nat} {pw : Pow} {rest : List Pow} (hb : 2 ≤ b) (hcpl : 0 < cpl) (hok : PowOk b cpl pw e)
    (hp : ∀ (n : Nat) (s : List Nat), s.length = n → s ≠ [] → (∀ d ∈ s, d < b) → n ≤ cpl * e →
      ∃ r, dcPart T b rest n s = some r ∧ SetRes b s r)
    (str : List Nat) (hne : str ≠ []) (hd : ∀ d ∈ str, d < b) (hlen : str.length ≤ 2 * (cpl * e)) :
    ∃ r, dcSetStr T b (pw :: rest) str = some r ∧ SetRes b str r := by
  have hdib := hok.dib
  have he := hok.epos
  have hdpos : 0 < pw.dib := by rw [hdib]; exact Nat.mul_pos hcpl (by omega)
  rw [dcSetStr_cons]
  by_cases hle : str.length ≤ pw.dib
  · rw [if_pos hle]
    exact hp str.length str rfl hne hd (by omega)
  · rw [if_neg hle]
    have hhi_len : (str.take (str.length - pw.dib)).length = str.length - pw.dib := by
      rw [List.length_take]; omega
    have hlo_len : (str.drop (str.length - pw.dib)).length = pw.dib := by
      rw [List.length_drop]; omega
    obtain ⟨h, hh1, hh2, hh3, hh4⟩ := hp (str.length - pw.dib) (str.take (str.length - pw.dib)) hhi_len
      (by intro e0; rw [e0] at hhi_len; simp at hhi_len; omega)
      (fun d hm => hd d (List.mem_of_mem_take hm)) (by omega)
    obtain ⟨l, hl1, hl2, hl3, hl4⟩ := hp pw.dib (str.drop (str.length - pw.dib)) hlo_len
      (by intro e0; rw [e0] at hlo_len; simp at hlo_len; omega)
      (fun d hm => hd d (List.mem_of_mem_drop hm)) (by omega)
    rw [hh1, hl1]
    simp only []
    have hPb : (b ^ cpl) ^ e = b ^ pw.dib := by rw [hdib, pow_mul]
    have hvh : val h < b ^ (str.length - pw.dib) := by
      have := ofDigits_lt (b := b) (by omega) (str.take (str.length - pw.dib)) (fun d hm => hd d (List.mem_of_mem_take hm))
      rw [hhi_len] at this; rw [hh2]; exact this
    have hvl : val l < (b ^ cpl) ^ e := by
      have := ofDigits_lt (b := b) (by omega) (str.drop (str.length - pw.dib)) (fun d hm => hd d (List.mem_of_mem_drop hm))
      rw [hlo_len] at this; rw [hl2, hPb]; exact this
    unfold Fits at hl4
    rw [hhi_len] at hh4
    rw [hlo_len, ← hPb] at hl4
    obtain ⟨r, r1, r2, r3, r4⟩ := combine_ok hb hok (str.length - pw.dib) h l hh3 hl3 hvh hvl hh4 hl4
    refine ⟨r, r1, ?_, r3, ?_⟩
    · rw [r2, hh2, hl2, hPb]
      conv_rhs => rw [← List.take_append_drop (str.length - pw.dib) str, ofDigits_app, hlo_len]
    · rw [hPb, ← pow_add, show str.length - pw.dib + pw.dib = str.length by omega] at r4
      exact r4

/-- mpn_dc_set_str: for a table of exact powers (last entry = big_base, exponents at most doubling), digits
    below the base, at most `2·digits_in_base` digits at the current entry, and SET_STR_DC_THRESHOLD above
    chars_per_limb: the C never leaves the table, and the limbs returned have the value of the digit string. -/
theorem dcSetStr_ok {b cpl T : Nat} (hb : 2 ≤ b) (hcpl : 0 < cpl) (hT : cpl < T)
    (hbc : ∀ str : List Nat, str ≠ [] → (∀ d ∈ str, d < b) →
      val (bc_set_str b str) = ofDigits b str ∧ Limbs (bc_set_str b str) ∧ Norm (bc_set_str b str)) :
    ∀ (rest : List Pow) (es : List Nat) (pw : Pow) (e : Nat), GetTabOk b cpl (pw :: rest) (e :: es) →
    ∀ (str : List Nat), str ≠ [] → (∀ d ∈ str, d < b) → str.length ≤ 2 * (cpl * e) →
      ∃ r, dcSetStr T b (pw :: rest) str = some r ∧ SetRes b str r := by
  intro rest
  induction rest with
  | nil =>
    intro es pw e htab str hne hd hlen
    cases es with
    | cons _ _ => simp [GetTabOk] at htab
    | nil =>
    obtain ⟨hok, he⟩ := htab
    subst he
    refine dc_level hb hcpl hok ?_ str hne hd hlen
    intro n s hn sne sd hnle
    unfold dcPart
    rw [if_pos (by omega)]
    exact ⟨_, rfl, bc_res hb hbc s sne sd⟩
  | cons pw' tab ih =>
    intro es pw e htab str hne hd hlen
    cases es with
    | nil => simp [GetTabOk] at htab
    | cons e' es' =>
    obtain ⟨hok, hee, htab'⟩ := htab
    refine dc_level hb hcpl hok ?_ str hne hd hlen
    intro n s hn sne sd hnle
    unfold dcPart
    by_cases hlt : n < T
    · rw [if_pos hlt]; exact ⟨_, rfl, bc_res hb hbc s sne sd⟩
    · rw [if_neg hlt]
      exact ih es' pw' e' htab' s sne sd (by rw [hn]; nlinarith)

/-! ### mpn_set_str_compute_powtab -/

/-- per-base facts about `big_base & -big_base` (small numbers, checked by `decide`): it is a power of two
    dividing big_base and B, and the odd cofactor of big_base is coprime to B -/
def SetBaseOk (b : Nat) : Prop :=
  lowBit (bigBase b) = 2 ^ Nat.log2 (lowBit (bigBase b)) ∧ bigBase b % lowBit (bigBase b) = 0 ∧
  Nat.gcd (bigBase b / lowBit (bigBase b)) B = 1 ∧ B % lowBit (bigBase b) = 0
instance (b : Nat) : Decidable (SetBaseOk b) := by unfold SetBaseOk; infer_instance

theorem and_two_zero (x : Nat) : (x &&& 2 = 0) ↔ (x / 2) % 2 = 0 := by
  have := Nat.and_two_pow x 1
  simp at this
  rw [this, Nat.testBit_eq_decide_div_mod_eq]
  simp

/-- the strip loop of set_str.c:197 keeps the value, the top limb and divisibility by big_base -/
theorem stripLow2_spec {D lb od j : Nat} (hlb : lb = 2 ^ j) (hD : D = lb * od) (hco : Nat.Coprime od B)
    (hlbB : lb ∣ B) : ∀ (l : List Nat) (sh : Nat), D ∣ val l →
    val (stripLow2 (lb - 1) l sh).1 * B ^ (stripLow2 (lb - 1) l sh).2 = val l * B ^ sh ∧
    (∀ x ∈ (stripLow2 (lb - 1) l sh).1, x ∈ l) ∧
    ((stripLow2 (lb - 1) l sh).1 ≠ [] → (stripLow2 (lb - 1) l sh).1.getLast! = l.getLast!) ∧
    D ∣ val (stripLow2 (lb - 1) l sh).1
  | [], sh, h => by simp [stripLow2]
  | [x], sh, h => by simp [stripLow2]; exact h
  | t0 :: t1 :: rest, sh, h => by
    rw [stripLow2]
    split
    · rename_i hc
      simp only [Bool.and_eq_true, beq_iff_eq] at hc
      obtain ⟨h0, h1⟩ := hc
      subst h0
      -- big_base divides the number without its low zero limb
      have hv : val (0 :: t1 :: rest) = B * val (t1 :: rest) := by simp
      have hod : od ∣ val (t1 :: rest) := by
        have : od ∣ B * val (t1 :: rest) := by
          rw [← hv]; exact Dvd.dvd.trans ⟨lb, by rw [hD]; ring⟩ h
        exact Nat.Coprime.dvd_of_dvd_mul_left hco this
      have hlbd : lb ∣ val (t1 :: rest) := by
        rw [val_cons]
        refine Nat.dvd_add ?_ (Dvd.dvd.mul_right hlbB _)
        rw [hlb, Nat.and_two_pow_sub_one_eq_mod] at h1
        rw [hlb]; exact Nat.dvd_of_mod_eq_zero h1
      have hcop : Nat.Coprime lb od := (Nat.Coprime.coprime_dvd_right hlbB hco).symm
      have hDd : D ∣ val (t1 :: rest) := by
        rw [hD]; exact Nat.Coprime.mul_dvd_of_dvd_of_dvd hcop hlbd hod
      obtain ⟨r1, r2, r3, r4⟩ := stripLow2_spec hlb hD hco hlbB (t1 :: rest) (sh + 1) hDd
      refine ⟨?_, fun x hx => List.mem_cons_of_mem _ (r2 x hx), fun hne => ?_, r4⟩
      · rw [r1, hv, pow_succ]; ring
      · rw [r3 hne, getLast!_cons_cons]
    · exact ⟨rfl, fun x hx => hx, fun _ => rfl, h⟩

theorem GetTabOk.forall₂ {b cpl : Nat} : ∀ (tab : List Pow) (es : List Nat), GetTabOk b cpl tab es →
    List.Forall₂ (PowOk b cpl) tab es
  | [], [], h => by simp [GetTabOk] at h
  | [], _ :: _, h => by simp [GetTabOk] at h
  | _ :: _, [], h => by simp [GetTabOk] at h
  | [pw], [e], h => List.Forall₂.cons h.1 List.Forall₂.nil
  | [_], _ :: _ :: _, h => by simp [GetTabOk] at h
  | _ :: _ :: _, [_], h => by simp [GetTabOk] at h
  | pw :: pw' :: tab, e :: e' :: es, h => List.Forall₂.cons h.1 (GetTabOk.forall₂ (pw' :: tab) (e' :: es) h.2.2)

/-- exponent of big_base in powtab[pi]: `((un-1) >> (pi+1)) + 1` -/
def setExp (m pi : Nat) : Nat := (m >>> (pi + 1)) + 1

theorem setPowGo_ok {b cpl lb od j : Nat} (hb : 2 ≤ b) (hlb : lb = 2 ^ j) (hD : b ^ cpl = lb * od)
    (hco : Nat.Coprime od B) (hlbB : lb ∣ B) (hmask : lowBit (b ^ cpl) = lb) (m : Nat) :
    ∀ (k : Nat) (p : List Nat) (shift dib : Nat) (rest : List Pow) (n : Nat),
      GetTabOk b cpl (⟨p, shift, dib⟩ :: rest) ((List.range' k n).map (setExp m)) → 0 < n → b ^ cpl ∣ val p →
      GetTabOk b cpl (setPowGo (b ^ cpl) cpl m k p shift dib (⟨p, shift, dib⟩ :: rest))
        ((List.range' 0 (k + n)).map (setExp m))
  | 0, p, shift, dib, rest, n, htab, _, _ => by
    rw [setPowGo]; simpa using htab
  | pi + 1, p, shift, dib, rest, n, htab, hn, hdvd => by
    obtain ⟨n', rfl⟩ : ∃ n', n = n' + 1 := ⟨n - 1, by omega⟩
    rw [List.range'_succ, List.map_cons] at htab
    have hok := htab.head
    have hDpos : 0 < b ^ cpl := Nat.pow_pos (by omega)
    have hppos : 0 < val p := lt_of_lt_of_le (Nat.pow_pos B_pos) (val_ge_of_top hok.ne hok.top)
    have hv := hok.value
    have hdib := hok.dib
    have he1 := hok.epos
    simp only at hv hdib
    rw [setPowGo, hmask]
    simp only []
    -- the new exponent
    have hbit : setExp m pi = 2 * setExp m (pi + 1) - (if ((m >>> pi) &&& 2) == 0 then 1 else 0) := by
      unfold setExp
      have e1 : m >>> (pi + 1) = (m >>> pi) / 2 := by
        rw [Nat.shiftRight_succ]
      have e2 : m >>> (pi + 1 + 1) = (m >>> pi) / 2 / 2 := by
        rw [Nat.shiftRight_succ, Nat.shiftRight_succ]
      rw [e1, e2]
      generalize m >>> pi = x
      by_cases hz : x &&& 2 = 0
      · have hc : (x &&& 2 == 0) = true := by simpa using hz
        rw [if_pos hc]
        have := (and_two_zero _).mp hz
        omega
      · have hc : (x &&& 2 == 0) = false := by simpa using hz
        rw [if_neg (by rw [hc]; simp)]
        have : x / 2 % 2 ≠ 0 := fun h => hz ((and_two_zero _).mpr h)
        omega
    generalize hee : setExp m (pi + 1) = e at *
    generalize hdv : (((m >>> pi) &&& 2) == 0) = dv at *
    -- value, digit count and divisibility of the new power
    have key : ∃ t : Nat, t ≠ 0 ∧ t * B ^ (2 * shift) = (b ^ cpl) ^ (setExp m pi) ∧ b ^ cpl ∣ t ∧
        (if dv = true then val p * val p / b ^ cpl else val p * val p) = t ∧
        (if dv = true then 2 * dib - cpl else 2 * dib) = cpl * setExp m pi := by
      have hsq : val p * val p * B ^ (2 * shift) = (b ^ cpl) ^ (2 * e) := by
        have : (val p * B ^ shift) ^ 2 = ((b ^ cpl) ^ e) ^ 2 := by rw [hv]
        rw [← pow_mul, Nat.mul_comm e 2] at this
        rw [← this, Nat.mul_comm 2 shift, pow_mul]; ring
      obtain ⟨w, hw⟩ := hdvd
      have hwpos : 0 < w := by
        rcases Nat.eq_zero_or_pos w with h | h
        · rw [h] at hw; simp at hw; omega
        · exact h
      cases dv with
      | true =>
        simp only [if_true] at hbit ⊢
        have hq : val p * val p / b ^ cpl = w * (b ^ cpl * w) := by
          rw [hw, Nat.mul_assoc, Nat.mul_div_cancel_left _ hDpos]
        refine ⟨w * (b ^ cpl * w), Nat.mul_ne_zero (by omega) (Nat.mul_ne_zero (by omega) (by omega)), ?_,
          ⟨w * w, by ring⟩, hq, ?_⟩
        · have h2 : w * (b ^ cpl * w) * B ^ (2 * shift) * b ^ cpl = (b ^ cpl) ^ (2 * e - 1) * b ^ cpl := by
            rw [← pow_succ, show 2 * e - 1 + 1 = 2 * e by omega, ← hsq, hw]; ring
          rw [hbit]; exact Nat.eq_of_mul_eq_mul_right hDpos h2
        · rw [hbit, hdib, Nat.mul_sub, Nat.mul_one]; congr 1; ring
      | false =>
        simp only [Bool.false_eq_true, if_false] at hbit ⊢
        refine ⟨val p * val p, Nat.mul_ne_zero (by omega) (by omega), ?_, Dvd.dvd.mul_right ⟨w, hw⟩ _, rfl, ?_⟩
        · rw [hbit, Nat.sub_zero]; exact hsq
        · rw [hbit, hdib, Nat.sub_zero]; ring
    obtain ⟨t, ht0, htv, htd, e1, e2⟩ := key
    rw [e1, e2]
    obtain ⟨nv, nL⟩ := val_natLimbs t
    obtain ⟨nne, ntop⟩ := natLimbs_top t ht0
    obtain ⟨s1, s2, s3, s4⟩ := stripLow2_spec hlb hD hco hlbB (natLimbs t) (2 * shift) (by rw [nv]; exact htd)
    generalize hst : stripLow2 (lb - 1) (natLimbs t) (2 * shift) = st at *
    obtain ⟨tl, sh'⟩ := st
    simp only at s1 s2 s3 s4 ⊢
    rw [nv, htv] at s1
    have tlne : tl ≠ [] := by
      intro h0; rw [h0] at s1; simp at s1
      have := Nat.pow_pos (n := setExp m pi) hDpos; omega
    have tlL : Limbs tl := fun x hx => nL x (s2 x hx)
    have tltop : tl.getLast! ≠ 0 := by rw [s3 tlne]; exact ntop
    have hnew : PowOk b cpl ⟨tl, sh', cpl * setExp m pi⟩ (setExp m pi) :=
      ⟨s1, rfl, tlL, tlne, tltop, by unfold setExp; exact Nat.le_add_left 1 _⟩
    have hle : setExp m pi ≤ 2 * e := by rw [hbit]; omega
    have htab' : GetTabOk b cpl (⟨tl, sh', cpl * setExp m pi⟩ :: ⟨p, shift, dib⟩ :: rest)
        ((List.range' pi (n' + 1 + 1)).map (setExp m)) := by
      rw [List.range'_succ, List.map_cons, List.range'_succ, List.map_cons, hee]
      exact ⟨hnew, hle, htab⟩
    have := setPowGo_ok hb hlb hD hco hlbB hmask m pi tl sh' (cpl * setExp m pi) (⟨p, shift, dib⟩ :: rest)
      (n' + 1 + 1) htab' (by omega) s4
    rw [show pi + 1 + (n' + 1) = pi + (n' + 1 + 1) by omega]
    exact this

/-- the table mpn_set_str_compute_powtab builds: entry `pi` is `big_base^(((un-1) >> (pi+1)) + 1)` -/
theorem setPowtabX_ok {b cpl lb od j : Nat} (hb : 2 ≤ b) (hbb : b ^ cpl < B) (hlb : lb = 2 ^ j) (hD : b ^ cpl = lb * od)
    (hco : Nat.Coprime od B) (hlbB : lb ∣ B) (hmask : lowBit (b ^ cpl) = lb) (un : Nat) (hun : 2 ≤ un) :
    GetTabOk b cpl (setPowtabX (b ^ cpl) cpl un)
      ((List.range' 0 (Nat.log2 (un - 1) + 1)).map (setExp (un - 1))) := by
  unfold setPowtabX
  rw [if_neg (by omega)]
  simp only []
  have hp0 := p0_ok (cpl := cpl) hb hbb
  have hm : un - 1 ≠ 0 := by omega
  have hlog : un - 1 < 2 ^ (Nat.log2 (un - 1) + 1) := Nat.lt_log2_self
  have hbase : GetTabOk b cpl [⟨[b ^ cpl], 0, cpl⟩] ((List.range' (Nat.log2 (un - 1)) 1).map (setExp (un - 1))) := by
    simp only [List.range'_one, List.map_cons, List.map_nil]
    have : setExp (un - 1) (Nat.log2 (un - 1)) = 1 := by
      unfold setExp
      rw [Nat.shiftRight_eq_div_pow, Nat.div_eq_of_lt hlog]
    rw [this]
    exact ⟨hp0, rfl⟩
  exact setPowGo_ok hb hlb hD hco hlbB hmask (un - 1) (Nat.log2 (un - 1)) [b ^ cpl] 0 cpl [] 1 hbase (by omega)
    (by simp)

/-! ### mpn_set_str, all sizes -/

theorem cpl_lt_64 {b : Nat} (hb : 2 ≤ b) (hok : NonPow2Ok b) : charsPerLimb b < 64 := by
  have h1 : 2 ^ charsPerLimb b ≤ b ^ charsPerLimb b := Nat.pow_le_pow_left hb _
  have h2 := hok.2.1
  rw [B_eq] at h2
  have : (2 : Nat) ^ charsPerLimb b < 2 ^ 64 := by omega
  exact (Nat.pow_lt_pow_iff_right (by omega)).mp this

/-- the divide-and-conquer branch of mpn_set_str -/
theorem set_str_dc_branch {b : Nat} (hb : 2 ≤ b) (hb62 : b ≤ 62) (hok : NonPow2Ok b) (hsb : SetBaseOk b)
    (T : Nat) (hT : 64 ≤ T) (str : List Nat) (hd : ∀ d ∈ str, d < b) (hlen : charsPerLimb b ≤ str.length) :
    ∃ r, dcSetStr T b (setPowtab b (str.length / charsPerLimb b + 1)) str = some r ∧
      val r = ofDigits b str ∧ Limbs r := by
  have hcpl := hok.cpl_pos hb62
  have hbb : b ^ charsPerLimb b < B := hok.2.1
  have hc64 := cpl_lt_64 hb hok
  obtain ⟨s1, s2, s3, s4⟩ := hsb
  rw [hok.1] at s1 s2 s3 s4
  have hne : str ≠ [] := by intro e0; rw [e0] at hlen; simp at hlen; omega
  have hm1 : 1 ≤ str.length / charsPerLimb b := (Nat.one_le_div_iff hcpl).mpr hlen
  have htab := setPowtabX_ok (cpl := charsPerLimb b) (lb := lowBit (b ^ charsPerLimb b))
    (od := b ^ charsPerLimb b / lowBit (b ^ charsPerLimb b)) hb hbb s1
    (Nat.mul_div_cancel' (Nat.dvd_of_mod_eq_zero s2)).symm s3 (Nat.dvd_of_mod_eq_zero s4) rfl
    (str.length / charsPerLimb b + 1) (by omega)
  unfold setPowtab
  rw [hok.1]
  rw [Nat.add_sub_cancel] at htab
  rw [List.range'_succ, List.map_cons] at htab
  generalize setPowtabX (b ^ charsPerLimb b) (charsPerLimb b) (str.length / charsPerLimb b + 1) = tab at *
  cases tab with
  | nil => simp [GetTabOk] at htab
  | cons pw rest =>
    have hbc := fun (s : List Nat) (h1 : s ≠ []) (h2 : ∀ d ∈ s, d < b) => bc_set_str_full hb hb62 hok s h1 h2
    obtain ⟨r, r1, r2, r3, _⟩ := dcSetStr_ok hb hcpl (by omega : charsPerLimb b < T) hbc rest _ pw _ htab str hne hd
      (by
        unfold setExp
        rw [Nat.shiftRight_eq_div_pow]
        simp only [Nat.zero_add, pow_one]
        have h1 := Nat.lt_mul_div_succ str.length hcpl
        generalize str.length / charsPerLimb b = m at *
        have h2 : m + 1 ≤ 2 * (m / 2 + 1) := by omega
        have h3 : charsPerLimb b * (m + 1) ≤ charsPerLimb b * (2 * (m / 2 + 1)) := Nat.mul_le_mul_left _ h2
        have e : 2 * (charsPerLimb b * (m / 2 + 1)) = charsPerLimb b * (2 * (m / 2 + 1)) := by ring
        omega)
    exact ⟨r, r1, r2, r3⟩

/-- mpn_set_str with the divide-and-conquer branch modelled, every base 2..62, every non-empty digit string,
    every pair of thresholds with SET_STR_DC_THRESHOLD ≥ 100 and SET_STR_PRECOMPUTE_THRESHOLD at least that
    (the minima of tune/tuneup.c): the limbs returned have exactly the value of the digit string -/
theorem mpn_set_str_dc_of_table {b : Nat} (hb : 2 ≤ b) (hb62 : b ≤ 62)
    (hnp : pow2P b = false → NonPow2Ok b ∧ SetBaseOk b) (hp : pow2P b = true → Pow2Ok b)
    (dcT preT : Nat) (hdc : 100 ≤ dcT) (hpre : dcT ≤ preT) (str : List Nat) (hne : str ≠ [])
    (hd : ∀ d ∈ str, d < b) :
    ∃ r, mpn_set_str_dc dcT preT b str = some r ∧ val r = ofDigits b str ∧ Limbs r := by
  unfold mpn_set_str_dc
  cases hpw : pow2P b with
  | true =>
    simp only [if_true]
    have hok := hp hpw
    obtain ⟨h1, h2⟩ := set_str_pow2_of_table hok (bigBase_le_64 hb62 hok) str hd
    exact ⟨_, rfl, h1, h2⟩
  | false =>
    simp only [Bool.false_eq_true, if_false]
    obtain ⟨hok, hsb⟩ := hnp hpw
    split
    · obtain ⟨h1, h2, _⟩ := bc_set_str_full hb hb62 hok str hne hd
      exact ⟨_, rfl, h1, h2⟩
    · rename_i hlen
      have hc64 := cpl_lt_64 hb hok
      exact set_str_dc_branch hb hb62 hok hsb dcT (by omega) str hd (by omega)

end Mpir.RadixDc
