/- mpn_gcdext_lehmer_n: the loop (sized model against the value-level model, with the contract) and the
   single-limb endgame through mpn_gcdext_1. -/
import MpirProofs.Lemmas.GcdextLehmer
namespace Mpir.Gcdext
open Mpir Mpir.Gcd Mpir.Hgcd

/-- sized loop result vs. value-level loop result, and what holds of them -/
def LoopRel (A Bv G : Nat) : ((Nat × Nat × Ctx) ⊕ Fin) → ((Nat × Nat × Nat × Nat) ⊕ (Nat × Int)) → Prop
  | .inl (a, b, c), .inl (a', b', u0, u1) => a = a' ∧ b = b' ∧ c.u0 = u0 ∧ c.u1 = u1 ∧ SzInv c ∧
        0 < a ∧ 0 < b ∧ a < B ∧ b < B ∧ Nat.gcd a b = G ∧ CofOk A Bv a b u0 u1
  | .inr r, .inr (g, S) => FinOk r g S ∧ g = G ∧ (∃ t : Int, (A : Int) * S + Bv * t = g) ∧ CofBound Bv g S
  | _, _ => False

theorem lehmerLoopS_spec (hh : Hgcd2Contract) (A Bv N : Nat) (hBv : Bv < B ^ N) : ∀ (f a b n : Nat) (c : Ctx),
    LInv a b n → CofOk A Bv a b c.u0 c.u1 → SzInv c → a + b < f →
    LoopRel A Bv (Nat.gcd a b) (lehmerLoopS (N + 1) f a b n c) (gcdextLehmerLoop f a b n c.u0 c.u1)
  | 0, a, b, n, c, _, _, _, hf => by omega
  | f + 1, a, b, n, c, hinv, hcof, hsz, hf => by
    unfold lehmerLoopS gcdextLehmerLoop
    by_cases hn : n ≥ 2
    · rw [if_pos hn, if_pos hn]
      have hc := hh a b n
      have hmsb := hgcd2_top2_msb0 a b n
      generalize top2 a b n = t at hc hmsb ⊢
      obtain ⟨uh, ul, vh, vl⟩ := t
      simp only at hc hmsb ⊢
      cases hm : hgcd2 uh ul vh vl with
      | some m =>
        simp only
        obtain ⟨hl, hne, hpa, hpb, hnorm⟩ := hc m hinv hn hm
        obtain ⟨hle1, hle2⟩ := lehmer_step_le m a b hl
        have hdec := lehmer_step_lt m a b hl hne hpa hpb
        have hg := lehmer_step_gcd m a b hl
        have hinv' := hgcd2_step_inv a b n _ _ hinv hn hle1 hle2 hpa hpb hnorm
        have hst := lehmerOk_stepOk m ⟨a, b, c.u0, c.u1⟩ hl
        have hcof' : CofOk A Bv (m.u11 * a - m.u01 * b) (m.u00 * b - m.u10 * a)
            (c.u0 * m.u00 + c.u1 * m.u10) (c.u0 * m.u01 + c.u1 * m.u11) := by
          obtain ⟨v0, v1, hci⟩ := hcof
          exact ⟨_, _, stepOk_cof hst hci⟩
        obtain ⟨_, _, haB, hbB, _, _⟩ := hinv
        have hMsb := hmsb m hn haB hbB hm
        have hrel : MRel m (m.u11 * a - m.u01 * b) (m.u00 * b - m.u10 * a) a b := ⟨hst.1, hst.2.1, hst.2.2.1⟩
        obtain ⟨i1, i2, _⟩ := mul1InvVec_spec m a b n _ _ hrel haB hbB (by omega)
        have hlt := cof_lt hcof' hpa hpb hBv
        obtain ⟨w1, w2, hsz'⟩ := szInv_mulM1 N c m hMsb hl.1 hsz hlt.1 hlt.2
        have e3 : (mul1InvVec m a b n).2.2 = shrinkN (mul1InvVec m a b n).1 (mul1InvVec m a b n).2.1 n := rfl
        rw [e3, i1, i2]
        obtain ⟨c', hc'⟩ : ∃ c' : Ctx, c' = ⟨(mulMatrix1Vector m c.u0 c.u1 c.un).1, (mulMatrix1Vector m c.u0 c.u1 c.un).2.1,
          (mulMatrix1Vector m c.u0 c.u1 c.un).2.2, c.ok && decide (c.un < N + 1)⟩ := ⟨_, rfl⟩
        have hu0 : c'.u0 = c.u0 * m.u00 + c.u1 * m.u10 := by rw [hc']; exact w1
        have hu1 : c'.u1 = c.u0 * m.u01 + c.u1 * m.u11 := by rw [hc']; exact w2
        rw [← hc']
        have ih := lehmerLoopS_spec hh A Bv N hBv f _ _ _ c' hinv' (by rw [hu0, hu1]; exact hcof')
          (by rw [hc']; exact hsz') (by omega)
        rw [hu0, hu1, hg] at ih
        exact ih
      | none =>
        simp only
        obtain ⟨h0a, h0b, _⟩ := hinv
        obtain ⟨s1, s2⟩ := subdivStep_spec a b h0a h0b
        obtain ⟨_, k2⟩ := subdivStep_hook A Bv a b c.u0 c.u1 h0a h0b hcof
        have kx := subdivStep_exit A Bv a b c.u0 c.u1 h0a h0b hcof
        have hfold := hookQS_fold N (subdivStep a b).qs c hsz
        generalize hw : (subdivStep a b).qs.foldl hookQ (c.u0, c.u1) = w at k2 kx hfold ⊢
        obtain ⟨w0, w1⟩ := w
        generalize (subdivStep a b).qs.foldl (hookQS (N + 1)) c = c' at hfold ⊢
        simp only at k2 kx hfold ⊢
        cases hfin : (subdivStep a b).fin with
        | some gd =>
          obtain ⟨g, d⟩ := gd
          simp only
          have hex := kx g d hfin
          have hlt := exitOk_lt hex hBv
          obtain ⟨f0, f1, fs⟩ := hfold hlt.1 hlt.2
          obtain ⟨r1, r2⟩ := exitOk_result hex
          have hG := hookG_spec c' g d fs
          rw [f0, f1] at hG
          exact ⟨hG, s1 g d hfin, r1, r2⟩
        | none =>
          simp only
          obtain ⟨x1, x2, x3, x4, x5⟩ := s2 hfin
          have hmax : 0 < max (subdivStep a b).a (subdivStep a b).b := lt_of_lt_of_le x1 (le_max_left _ _)
          obtain ⟨y1, y2⟩ := nlimbs_bounds _ hmax
          have hinv' : LInv (subdivStep a b).a (subdivStep a b).b (subdivStep a b).n := by
            rw [x5]
            refine ⟨x1, x2, lt_of_le_of_lt (le_max_left _ _) y1, lt_of_le_of_lt (le_max_right _ _) y1, ?_, nlimbs_pos hmax⟩
            rcases le_total (subdivStep a b).a (subdivStep a b).b with h | h
            · right; rw [max_eq_right h] at y2 ⊢; exact y2
            · left; rw [max_eq_left h] at y2 ⊢; exact y2
          have hcf := k2 hfin
          have hlt := cof_lt hcf x1 x2 hBv
          obtain ⟨f0, f1, fs⟩ := hfold hlt.1 hlt.2
          have ih := lehmerLoopS_spec hh A Bv N hBv f _ _ _ c' hinv' (by rw [f0, f1]; exact hcf) fs (by omega)
          rw [f0, f1, x3] at ih
          exact ih
    · rw [if_neg hn, if_neg hn]
      obtain ⟨h0a, h0b, haB, hbB, _, h1⟩ := hinv
      have : n = 1 := by omega
      subst this
      rw [pow_one] at haB hbB
      exact ⟨rfl, rfl, rfl, rfl, hsz, h0a, h0b, haB, hbB, rfl, hcof⟩

/-! ### the endgame -/

theorem cofBound_of_lt {V G : Nat} {S : Int} (h : 2 * (G : Int) * |S| < V) : CofBound V G S := by
  left
  have : ((2 * G * S.natAbs : Nat) : Int) < V := by push_cast; exact h
  exact_mod_cast this

/-- S = u·u1 − v·u0 for the cofactors of mpn_gcdext_1 on the last limbs -/
theorem final_bound (a b g u0 u1 Bv : Nat) (u v : Int) (hs : u0 * a + u1 * b = Bv) (h1 : 1 ≤ u1)
    (hz : u0 = 0 → u1 = 1) (hg : 0 < g) (hbez : (a : Int) * u + b * v = g) (hb : Ext1Bound a b g u v) :
    CofBound Bv g (u * u1 - v * u0) := by
  have hsi : (u0 : Int) * a + u1 * b = Bv := by exact_mod_cast hs
  have h1i : (1 : Int) ≤ u1 := by exact_mod_cast h1
  have h0i : (0 : Int) ≤ u0 := Int.natCast_nonneg _
  have hgi : (0 : Int) < g := by exact_mod_cast hg
  rcases hb with ⟨hu, hv, b1, b2, beq⟩ | ⟨hu, hv, b1, b2⟩
  · have hS : 0 ≤ u * u1 - v * u0 := by nlinarith [mul_nonneg hu (by linarith : (0:Int) ≤ u1), mul_nonneg (by linarith : (0:Int) ≤ -v) h0i]
    by_cases he : 2 * (g : Int) * u = b
    · have hu1' := beq he
      subst hu1'
      by_cases h00 : u0 = 0
      · right
        have hu1 := hz h00
        subst h00; subst hu1
        refine ⟨by simp, ?_⟩
        have : (Bv : Int) = 2 * g := by simp at hsi; linarith
        exact_mod_cast this
      · have h0p : (1 : Int) ≤ u0 := by
          have : 1 ≤ u0 := Nat.pos_of_ne_zero h00
          exact_mod_cast this
        have hstrict : 2 * (g : Int) * (-v) < a := by
          rcases lt_or_eq_of_le b2 with h | h
          · exact h
          · exfalso; nlinarith
        apply cofBound_of_lt
        rw [abs_of_nonneg hS, ← hsi]
        nlinarith [mul_le_mul_of_nonneg_left h0p (by linarith : (0:Int) ≤ a - 2 * g * (-v) - 1)]
    · have hstrict : 2 * (g : Int) * u < b := lt_of_le_of_ne b1 he
      apply cofBound_of_lt
      rw [abs_of_nonneg hS, ← hsi]
      nlinarith [mul_le_mul_of_nonneg_left h1i (by linarith : (0:Int) ≤ b - 2 * g * u - 1),
        mul_nonneg (by linarith : (0:Int) ≤ a - 2 * g * (-v)) h0i]
  · have hS : u * u1 - v * u0 ≤ 0 := by nlinarith [mul_nonneg (by linarith : (0:Int) ≤ -u) (by linarith : (0:Int) ≤ u1), mul_nonneg hv h0i]
    apply cofBound_of_lt
    rw [abs_of_nonpos hS, ← hsi]
    nlinarith [mul_le_mul_of_nonneg_left h1i (by linarith : (0:Int) ≤ b - 2 * g * (-u) - 1),
      mul_nonneg (by linarith : (0:Int) ≤ a - 2 * g * v) h0i]

theorem toNat_mod_B (x : Int) (h0 : 0 ≤ x) (h1 : x ≤ 2 ^ 63) : ((x % (B : Int)).toNat : Int) = x := by
  have hB : x < (B : Int) := by rw [B_eq]; norm_num; linarith
  rw [Int.emod_eq_of_lt h0 hB, Int.toNat_of_nonneg h0]

theorem nlimbs_one {g : Nat} (h0 : 0 < g) (hB : g < B) : nlimbs g = 1 := (nlimbs_eq_one_iff g).mpr ⟨h0, hB⟩

/-- gcdext_lehmer.c:239-325 -/
theorem lehmerFinS_spec (A Bv N a b : Nat) (c : Ctx) (hBv : Bv < B ^ N) (hsz : SzInv c) (ha : 0 < a) (hb : 0 < b)
    (haB : a < B) (hbB : b < B) (hcof : CofOk A Bv a b c.u0 c.u1) :
    ∀ v : Nat × Int, v = (if a = b then (a, pickCofactor c.u0 c.u1 (-1))
        else (match gcdext_1 a b with | (g, u, v) => (g, u * c.u1 - v * c.u0))) →
    FinOk (lehmerFinS N a b c) v.1 v.2 ∧ v.1 = Nat.gcd a b ∧ (∃ t : Int, (A : Int) * v.2 + Bv * t = v.1) ∧
      CofBound Bv v.1 v.2 := by
  intro v hv
  unfold lehmerFinS
  rw [if_neg (by omega)]
  by_cases hab : a = b
  · rw [if_pos hab] at hv ⊢
    subst hv
    simp only
    have hex : ExitOk A Bv (c.u0, c.u1) a (-1) := ⟨a, b, ha, hb, hcof, Or.inl ⟨rfl, rfl, hab.symm⟩⟩
    obtain ⟨r1, r2⟩ := exitOk_result hex
    have hG := hookG_spec c a (-1) hsz
    rw [nlimbs_one ha haB] at hG
    exact ⟨hG, by rw [← hab, Nat.gcd_self], r1, r2⟩
  · rw [if_neg hab] at hv ⊢
    obtain ⟨g1, g2, g3, g4, g5, g6⟩ := gcdext_1_spec a b ha hb haB hbB
    have gb := gcdext_1_bound a b ha hb haB hbB hab
    generalize gcdext_1 a b = r at hv g1 g2 g3 g4 g5 g6 gb ⊢
    obtain ⟨g, u, w⟩ := r
    simp only at hv g1 g2 g3 g4 g5 g6 gb ⊢
    subst hv
    simp only
    obtain ⟨hs, h1, hz, _⟩ := cofOk_sum hcof
    have hgpos : 0 < g := by rw [g1]; exact Nat.gcd_pos_of_pos_left _ ha
    have hgb : g ≤ b := by rw [g1]; exact Nat.gcd_le_right _ hb
    have hga : g ≤ a := by rw [g1]; exact Nat.gcd_le_left _ ha
    have hgB : g < B := by omega
    have hbez : (a : Int) * u + b * w = g := by rw [g2, g1]
    have hbound := final_bound a b g c.u0 c.u1 Bv u w hs h1 hz hgpos hbez gb
    have hident : ∃ t : Int, (A : Int) * (u * c.u1 - w * c.u0) + Bv * t = g := by
      obtain ⟨ta, hta⟩ := cofOk_a hcof
      obtain ⟨tb, htb⟩ := cofOk_b hcof
      refine ⟨u * ta + w * tb, ?_⟩
      rw [← hbez, ← hta, ← htb]; ring
    refine ⟨?_, g1, hident, hbound⟩
    obtain ⟨_, _, _, _, hok⟩ := hsz
    have hgi : (0 : Int) < g := by exact_mod_cast hgpos
    have hai : (0 : Int) < a := by exact_mod_cast ha
    have hbi : (0 : Int) < b := by exact_mod_cast hb
    -- |S| < B^N from the bound
    have hSN : ∀ x : Nat, (x : Int) = |u * c.u1 - w * c.u0| → nlimbs x ≤ N := by
      intro x hx
      apply nlimbs_le_of_lt
      have hxa : x = (u * (c.u1 : Int) - w * c.u0).natAbs := by
        have := Int.natCast_natAbs (u * (c.u1 : Int) - w * c.u0)
        rw [← hx] at this; exact_mod_cast this.symm
      rcases hbound with h | ⟨h, _⟩
      · rw [← hxa] at h
        have : x ≤ 2 * g * x := Nat.le_mul_of_pos_left x (by omega)
        omega
      · rw [h] at hxa; simp at hxa
        have : 1 ≤ c.u1 * b := Nat.mul_pos h1 hb
        omega
    by_cases hu0 : u = 0
    · rw [if_pos hu0]
      subst hu0
      have hw1 : w = 1 := by
        have hbw : (b : Int) * w = g := by linarith
        have hwpos : 0 < w := by
          by_contra hc
          have : (b : Int) * w ≤ 0 := mul_nonpos_of_nonneg_of_nonpos (le_of_lt hbi) (by omega)
          omega
        by_contra hne
        have : (b : Int) * 2 ≤ b * w := mul_le_mul_of_nonneg_left (by omega) (le_of_lt hbi)
        have : (g : Int) ≤ b := by exact_mod_cast hgb
        omega
      subst hw1
      refine ⟨rfl, (nlimbs_one hgpos hgB).symm, hok, by simp, ?_⟩
      simp only [zero_mul, one_mul, zero_sub, Int.natAbs_neg, Int.natAbs_natCast]
      by_cases h00 : c.u0 = 0
      · rw [h00, nlimbs_zero]; simp
      · rw [if_pos (by omega)]; omega
    · rw [if_neg hu0]
      by_cases hw0 : w = 0
      · rw [if_pos hw0]
        subst hw0
        have hu1 : u = 1 := by
          have hau : (a : Int) * u = g := by linarith
          have hupos : 0 < u := by
            by_contra hc
            have : (a : Int) * u ≤ 0 := mul_nonpos_of_nonneg_of_nonpos (le_of_lt hai) (by omega)
            omega
          by_contra hne
          have : (a : Int) * 2 ≤ a * u := mul_le_mul_of_nonneg_left (by omega) (le_of_lt hai)
          have : (g : Int) ≤ a := by exact_mod_cast hga
          omega
        subst hu1
        refine ⟨rfl, (nlimbs_one hgpos hgB).symm, hok, by simp, ?_⟩
        simp only [zero_mul, one_mul, sub_zero, Int.natAbs_natCast]
        rw [if_neg (by omega)]; omega
      · rw [if_neg hw0]
        by_cases hup : u > 0
        · -- negate = 0
          have hwn : w < 0 := by
            rcases gb with ⟨_, hv, _⟩ | ⟨hu', _⟩
            · omega
            · omega
          simp only [hup, if_true, not_true_eq_false, decide_false, Bool.false_eq_true, if_false]
          have e1 := toNat_mod_B u (by omega) (le_of_lt g4)
          have e2 := toNat_mod_B (-w) (by omega) (by omega)
          generalize (u % (B : Int)).toNat = ul at e1 ⊢
          generalize (-w % (B : Int)).toNat = vl at e2 ⊢
          have hx : ((ul * c.u1 + vl * c.u0 : Nat) : Int) = u * c.u1 - w * c.u0 := by push_cast; rw [e1, e2]; ring
          have hnn : 0 ≤ u * (c.u1 : Int) - w * c.u0 := by rw [← hx]; exact Int.natCast_nonneg _
          have hN := hSN (ul * c.u1 + vl * c.u0) (by rw [hx, abs_of_nonneg hnn])
          refine ⟨rfl, (nlimbs_one hgpos hgB).symm, by rw [hok]; simp; exact hN, ?_, ?_⟩
          · rw [← hx, Int.natAbs_natCast]
          · rw [← hx, if_neg (not_lt.mpr (Int.natCast_nonneg _)), Int.natAbs_natCast, one_mul]
        · have hun : u < 0 := by omega
          have hwp : 0 < w := by
            rcases gb with ⟨hu', _⟩ | ⟨_, hv, _⟩
            · omega
            · omega
          simp only [hup, if_false, not_false_eq_true, decide_true, if_true]
          have e1 := toNat_mod_B (-u) (by omega) (by omega)
          have e2 := toNat_mod_B w (by omega) (le_of_lt g6)
          generalize (-u % (B : Int)).toNat = ul at e1 ⊢
          generalize (w % (B : Int)).toNat = vl at e2 ⊢
          have hx : ((ul * c.u1 + vl * c.u0 : Nat) : Int) = -(u * c.u1 - w * c.u0) := by push_cast; rw [e1, e2]; ring
          have hpos : 0 < -(u * (c.u1 : Int) - w * c.u0) := by
            have h1i : (1 : Int) ≤ c.u1 := by exact_mod_cast h1
            nlinarith [mul_le_mul_of_nonneg_left h1i (by omega : (0:Int) ≤ -u), mul_nonneg (le_of_lt hwp) (Int.natCast_nonneg c.u0)]
          have hN := hSN (ul * c.u1 + vl * c.u0) (by rw [hx, abs_of_neg (neg_pos.mp hpos)])
          refine ⟨rfl, (nlimbs_one hgpos hgB).symm, by rw [hok]; simp; exact hN, ?_, ?_⟩
          · have : (u * (c.u1 : Int) - w * c.u0).natAbs = (-(u * (c.u1 : Int) - w * c.u0)).natAbs := (Int.natAbs_neg _).symm
            rw [this, ← hx, Int.natAbs_natCast]
          · have : (u * (c.u1 : Int) - w * c.u0).natAbs = (-(u * (c.u1 : Int) - w * c.u0)).natAbs := (Int.natAbs_neg _).symm
            rw [this, ← hx, Int.natAbs_natCast, if_pos (neg_pos.mp hpos)]; ring

end Mpir.Gcdext
