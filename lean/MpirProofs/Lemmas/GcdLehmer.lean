/- The executable Lehmer model of mpn_gcd (gcdLehmerLoop, subdivStep, gcd_2, the n ≤ 2 endgame) computes
   the gcd, given the contract of hgcd2 on the calls the loop makes.  Every executable step is shown
   to be an instance of the abstract step contract `StepOk`. -/
import MpirProofs.Lemmas.GcdLoop
import MpirProofs.Lemmas.GcdMpz
namespace Mpir.Gcd
open Mpir

/-! ### hgcd2 steps are contract steps -/

theorem lehmerOk_stepOk (m : M1) (s : RState) (h : lehmerOk m s.a s.b) : StepOk m s (applyM m s) := by
  obtain ⟨hd, h1, h2⟩ := h
  refine ⟨hd, ?_, ?_, rfl, rfl⟩
  · show s.a = m.u00 * (m.u11 * s.a - m.u01 * s.b) + m.u01 * (m.u00 * s.b - m.u10 * s.a)
    rw [Nat.mul_sub, Nat.mul_sub]
    have e1 : m.u00 * (m.u11 * s.a) = (m.u01 * m.u10 + 1) * s.a := by rw [← Nat.mul_assoc, hd]
    have e2 : m.u00 * (m.u01 * s.b) = m.u01 * (m.u00 * s.b) := by ring
    have e3 : m.u01 * (m.u10 * s.a) = m.u01 * m.u10 * s.a := by ring
    have l1 : m.u00 * (m.u01 * s.b) ≤ m.u00 * (m.u11 * s.a) := Nat.mul_le_mul_left _ h1
    have l2 : m.u01 * (m.u10 * s.a) ≤ m.u01 * (m.u00 * s.b) := Nat.mul_le_mul_left _ h2
    rw [e1, e2] at *
    rw [e3] at *
    have : (m.u01 * m.u10 + 1) * s.a = m.u01 * m.u10 * s.a + s.a := by ring
    omega
  · show s.b = m.u10 * (m.u11 * s.a - m.u01 * s.b) + m.u11 * (m.u00 * s.b - m.u10 * s.a)
    rw [Nat.mul_sub, Nat.mul_sub]
    have e1 : m.u11 * (m.u00 * s.b) = (m.u01 * m.u10 + 1) * s.b := by
      rw [← Nat.mul_assoc, Nat.mul_comm m.u11, hd]
    have e2 : m.u11 * (m.u10 * s.a) = m.u10 * (m.u11 * s.a) := by ring
    have e3 : m.u10 * (m.u01 * s.b) = m.u01 * m.u10 * s.b := by ring
    have l1 : m.u10 * (m.u01 * s.b) ≤ m.u10 * (m.u11 * s.a) := Nat.mul_le_mul_left _ h1
    have l2 : m.u11 * (m.u10 * s.a) ≤ m.u11 * (m.u00 * s.b) := Nat.mul_le_mul_left _ h2
    rw [e1, e2] at *
    rw [e3] at *
    have : (m.u01 * m.u10 + 1) * s.b = m.u01 * m.u10 * s.b + s.b := by ring
    omega

/-- an hgcd2 step on values: gcd preserved -/
theorem lehmer_step_gcd (m : M1) (a b : Nat) (h : lehmerOk m a b) :
    Nat.gcd (m.u11 * a - m.u01 * b) (m.u00 * b - m.u10 * a) = Nat.gcd a b :=
  (stepOk_gcd (lehmerOk_stepOk m ⟨a, b, 0, 1⟩ h)).symm

theorem lehmer_step_lt (m : M1) (a b : Nat) (h : lehmerOk m a b) (hne : m.u01 ≠ 0 ∨ m.u10 ≠ 0)
    (ha : 0 < m.u11 * a - m.u01 * b) (hb : 0 < m.u00 * b - m.u10 * a) :
    (m.u11 * a - m.u01 * b) + (m.u00 * b - m.u10 * a) < a + b :=
  stepOk_decreases (lehmerOk_stepOk m ⟨a, b, 0, 1⟩ h) hne ha hb

theorem lehmer_step_le (m : M1) (a b : Nat) (h : lehmerOk m a b) :
    m.u11 * a - m.u01 * b ≤ a ∧ m.u00 * b - m.u10 * a ≤ b := by
  have hs := lehmerOk_stepOk m ⟨a, b, 0, 1⟩ h
  obtain ⟨hd, ha, hb, _, _⟩ := hs
  have h00 : 1 ≤ m.u00 := by
    rcases Nat.eq_zero_or_pos m.u00 with h | h
    · rw [h] at hd; simp at hd
    · exact h
  have h11 : 1 ≤ m.u11 := by
    rcases Nat.eq_zero_or_pos m.u11 with h | h
    · rw [h] at hd; simp at hd
    · exact h
  simp only [applyM] at ha hb
  constructor
  · calc m.u11 * a - m.u01 * b ≤ m.u00 * (m.u11 * a - m.u01 * b) := Nat.le_mul_of_pos_left _ h00
      _ ≤ a := by omega
  · calc m.u00 * b - m.u10 * a ≤ m.u11 * (m.u00 * b - m.u10 * a) := Nat.le_mul_of_pos_left _ h11
      _ ≤ b := by omega

end Mpir.Gcd
