/- mpz_and / mpz_xor / mpz_com (and the shared pointer plumbing `logicV`, which mpz_ior uses too) on the pointer-level
   model: pointers fetched before `_mpz_realloc (res, …)` are re-read after it unless they point to TMP space. -/
import MpirProofs.Lemmas.AliasShift
import MpirProofs.Lemmas.Bits
namespace Mpir.AliasMem
open Mpir
open Mpir.DivZ (sizeNat siz sameSign)

/-- blocks other than the old and the new block of `v` are not touched by MPZ_REALLOC -/
theorem realloc_blk_o {s : St} (h : Inv s) {v : Nat} (hv : v < s.nv) (n p : Nat) (hp : p ≠ s.ptr v) (hlt : p < s.next) :
    (s.mpzRealloc v n).blk p = s.blk p := by
  by_cases hlt' : s.alloc v < n
  · have : p ≠ s.next := by omega
    simp [St.mpzRealloc, hlt', St.setVar, St.malloc, St.free, St.setBlk, hp, this]
  · simp [St.mpzRealloc, hlt']

theorem realloc_next_le (s : St) (v n : Nat) : s.next ≤ (s.mpzRealloc v n).next := by
  by_cases hlt' : s.alloc v < n
  · simp [St.mpzRealloc, hlt', St.setVar, St.malloc, St.free, St.setBlk]
  · simp [St.mpzRealloc, hlt']

theorem realloc_noop {s : St} {v n : Nat} (h : ¬ s.alloc v < n) : s.mpzRealloc v n = s := by
  simp [St.mpzRealloc, h]

/-- the significant limbs of every variable are the same lists after MPZ_REALLOC -/
theorem realloc_limbs {s : St} (h : Inv s) {v : Nat} (hv : v < s.nv) (n : Nat) {i : Nat} (hi : i < s.nv) :
    (s.mpzRealloc v n).limbs i = s.limbs i := by
  by_cases hlt : s.alloc v < n
  · obtain ⟨l, hl, hlen, hL⟩ := h.live v hv
    have hfit := h.fits v hv
    by_cases hiv : i = v
    · subst hiv
      unfold St.limbs St.size St.ptr
      simp only [St.mpzRealloc, hlt, if_true, St.setVar, St.malloc, St.free, St.setBlk, hl, Option.getD_some]
      have hfit' : (s.size i).natAbs ≤ l.length := by rw [hlen]; exact hfit
      rw [List.take_append_of_le_length hfit']
      unfold St.ptr at hl; rw [hl]; rfl
    · have h1 : s.ptr i ≠ s.next := Nat.ne_of_lt (h.lt i hi)
      have h2 : s.ptr i ≠ s.ptr v := fun e => hiv (h.inj i v hi hv e)
      apply limbs_congr
      · simp [St.mpzRealloc, hlt, St.setVar, St.malloc, St.free, St.setBlk, hiv]
      · simp [St.mpzRealloc, hlt, St.setVar, St.malloc, St.free, St.setBlk, h1, h2]
  · rw [realloc_noop hlt]

/-- the value-level object of Mpir/Model/Bits.lean for a variable -/
def Zof (s : St) (i : Nat) : Bits.Z := ⟨decide (s.size i < 0), s.limbs i⟩

theorem Zof_toInt (s : St) (i : Nat) : (Zof s i).toInt = s.value i := by
  unfold Zof Bits.Z.toInt St.value St.mag
  by_cases h0 : s.size i < 0 <;> simp [h0]

theorem getLast_ne_zero_of_getD {l : List Nat} (h : l.getD (l.length - 1) 0 ≠ 0) : l.getLast? ≠ some 0 := by
  intro e
  cases l with
  | nil => simp at e
  | cons x xs =>
    rw [List.getLast?_eq_getElem?] at e
    apply h
    rw [List.getD_eq_getElem?_getD, e]; rfl

theorem Zof_WF {s : St} (h : Inv s) {i : Nat} (hi : i < s.nv) : (Zof s i).WF := by
  have hs := h.limbs_spec hi
  refine ⟨hs.2, ?_, ?_⟩
  · by_cases h0 : s.size i = 0
    · have : s.limbs i = [] := by
        apply List.eq_nil_of_length_eq_zero; rw [hs.1, h0]; rfl
      show (s.limbs i).getLast? ≠ some 0
      rw [this]; simp
    · apply getLast_ne_zero_of_getD
      show (s.limbs i).getD ((s.limbs i).length - 1) 0 ≠ 0
      rw [hs.1]; exact h.top_ne_zero hi h0
  · intro hn e
    have : s.size i < 0 := by simpa [Zof] using hn
    have hl : (s.limbs i).length = 0 := by
      have : (Zof s i).mag = s.limbs i := rfl
      rw [← this, e]; rfl
    rw [hs.1] at hl; omega

theorem sizeNat_of_norm {l : List Nat} (hL : Limbs l) (hn : l.getLast? ≠ some 0) : sizeNat (val l) = l.length := by
  cases hl : l.length with
  | zero =>
    have : l = [] := List.eq_nil_of_length_eq_zero hl
    rw [this]; simp [DivZ.sizeNat_eq_zero.mpr rfl]
  | succ k =>
    have hlt := val_lt l hL
    rw [hl] at hlt
    apply sizeNat_eq _ hlt (by omega)
    have htop : l.getD (k + 1 - 1) 0 ≠ 0 := by
      intro e
      apply hn
      rw [List.getLast?_eq_getElem?, hl]
      simp only [Nat.add_sub_cancel] at e ⊢
      rw [List.getD_eq_getElem?_getD] at e
      have hk : k < l.length := by omega
      rw [List.getElem?_eq_getElem hk] at e ⊢
      simpa using e
    have := (val_top hL (k + 1) (by omega) (by omega)).mp htop
    rwa [List.take_of_length_le (by omega)] at this

/-- store a well-formed value-level result into `w` through `PTR (w)`, set `SIZ (w)` -/
theorem putZ {s : St} (h : Inv s) {w : Nat} (hw : w < s.nv) (z : Bits.Z) (hz : z.WF) (hfit : z.mag.length ≤ s.alloc w) :
    ∃ X, s.store (s.ptr w) z.mag = .ok X ∧
      Inv (X.setSize w (if z.neg then -(z.mag.length : Int) else (z.mag.length : Int))) ∧
      Upd s (X.setSize w (if z.neg then -(z.mag.length : Int) else (z.mag.length : Int))) w ∧
      (X.setSize w (if z.neg then -(z.mag.length : Int) else (z.mag.length : Int))).value w = z.toInt := by
  obtain ⟨b, hb, hlen, hL, hst⟩ := store_var h hw z.mag hfit
  have p := put_list h hw hb z.mag (by omega) hz.1 (sizeNat_of_norm hz.1 hz.2.1) z.neg
  rw [wrAt_zero] at p
  refine ⟨_, hst, p.1, p.2.1, ?_⟩
  show (s.put w _ _).value w = _
  rw [p.2.2]; unfold Bits.Z.toInt
  cases z.neg <;> simp


theorem realloc_ptr (s : St) (v n i : Nat) :
    (s.mpzRealloc v n).ptr i = if i = v ∧ s.alloc v < n then s.next else s.ptr i := by
  by_cases hlt : s.alloc v < n
  · by_cases hiv : i = v
    · simp [St.mpzRealloc, hlt, St.setVar, St.malloc, St.free, St.setBlk, St.ptr, hiv]
    · simp [St.mpzRealloc, hlt, St.setVar, St.malloc, St.free, St.setBlk, St.ptr, hiv]
  · simp [St.mpzRealloc, hlt]

theorem load_eq_of_blk {s s' : St} {p : Nat} (h : s'.blk p = s.blk p) (n : Nat) : s'.load p n = s.load p n := by
  unfold St.load; rw [h]

theorem logic_ok (plan : Bool → List Nat → Bool → List Nat → LogicPlan) (F : Bits.Z → Bits.Z → Bits.Z)
    (hres : ∀ n1 a n2 b, (plan n1 a n2 b).result = F ⟨n1, a⟩ ⟨n2, b⟩)
    (hwf : ∀ x y : Bits.Z, x.WF → y.WF → (F x y).WF)
    (hfit : ∀ x y : Bits.Z, x.WF → y.WF → (F x y).mag.length ≤ (plan x.neg x.mag y.neg y.mag).need)
    {s : St} (h : Inv s) {res op1 op2 : Nat} (hr : res < s.nv) (h1 : op1 < s.nv) (h2 : op2 < s.nv) :
    ∃ s', logicV .c plan res op1 op2 s = .ok s' ∧ Res s s' res (F (Zof s op1) (Zof s op2)).toInt := by
  unfold logicV
  simp only [Variant.c, bind, Except.bind, pure, Except.pure, and_true, true_and, decide_true, Bool.and_true]
  have hl1 := h.load_var h1
  have hl2 := h.load_var h2
  rw [hl1]; simp only []
  rw [hl2]; simp only []
  set a := s.limbs op1 with ha
  set b := s.limbs op2 with hb
  set n1 := (s.size op1).natAbs with hn1
  set n2 := (s.size op2).natAbs with hn2
  set pl := plan (decide (s.size op1 < 0)) a (decide (s.size op2 < 0)) b with hpl
  have hz1 := Zof_WF h h1
  have hz2 := Zof_WF h h2
  have hzF : (F (Zof s op1) (Zof s op2)).WF := hwf _ _ hz1 hz2
  have hplres : pl.result = F (Zof s op1) (Zof s op2) := hres _ _ _ _
  have hneed : (F (Zof s op1) (Zof s op2)).mag.length ≤ pl.need := hfit _ _ hz1 hz2
  obtain ⟨q1, s1, e1, i1, x1, l1, t1, f1⟩ := copyIf_spec h pl.tmp1 hl1
  rw [e1]; simp only []
  obtain ⟨q2, s2, e2, i2, x2, l2, t2, f2⟩ := copyIf_spec i1 pl.tmp2 (x1.load hl2)
  rw [e2]; simp only []
  have x02 := x1.trans x2
  have nv2 : s2.nv = s.nv := x02.nv
  have hr2 : res < s2.nv := by rw [nv2]; exact hr
  obtain ⟨i3, nv3, size3, val3, a3, ag3⟩ := realloc_spec i2 hr2 pl.need
  set s3 := s2.mpzRealloc res pl.need with hs3
  have nv3' : s3.nv = s.nv := by rw [nv3, nv2]
  have hptr3 : ∀ i, s3.ptr i = if i = res ∧ s2.alloc res < pl.need then s2.next else s.ptr i := fun i => by
    rw [hs3, realloc_ptr, x02.ptr]
  have hnext1 : s.next ≤ s1.next := x1.next
  have hnext2 : s1.next ≤ s2.next := x2.next
  have hlt : ∀ i, i < s.nv → s.ptr i < s.next := fun i hi => h.lt i hi
  -- the pointers used by the limb loops
  have hpr : (if decide (s2.alloc res < pl.need) = true then s3.ptr res else s.ptr res) = s3.ptr res := by
    by_cases hm : s2.alloc res < pl.need
    · simp [hm]
    · simp only [hm, decide_false, Bool.false_eq_true, if_false]; rw [hptr3]; simp [hm]
  rw [hpr]
  have hq1 : ∀ i, i < s.nv → s3.ptr i ≠ q1 ∨ pl.tmp1 = false := fun i hi => by
    cases htmp : pl.tmp1
    · exact Or.inr rfl
    · left
      have := (t1 htmp).1
      have hh := (t1 htmp).2
      rw [hptr3, this]
      split
      · omega
      · exact Nat.ne_of_lt (hlt i hi)
  have hq2 : ∀ i, i < s.nv → s3.ptr i ≠ q2 ∨ pl.tmp2 = false := fun i hi => by
    cases htmp : pl.tmp2
    · exact Or.inr rfl
    · left
      have := (t2 htmp).1
      rw [hptr3, this]
      split
      · have := (t2 htmp).2; omega
      · have := hlt i hi; omega
  have hP1 : s3.load (if decide (s2.alloc res < pl.need) = true ∧ (!pl.tmp1) = true then s3.ptr op1 else q1) n1 = .ok a := by
    cases htmp : pl.tmp1
    · have hq : q1 = s.ptr op1 := (f1 htmp).1
      have hp : (if decide (s2.alloc res < pl.need) = true ∧ (!false) = true then s3.ptr op1 else q1) = s3.ptr op1 := by
        by_cases hm : s2.alloc res < pl.need
        · simp [hm]
        · simp only [hm, decide_false, Bool.false_eq_true, false_and, if_false]
          rw [hq, hs3, realloc_noop hm, x02.ptr]
      rw [hp]
      have := i3.load_var (i := op1) (by rw [nv3']; exact h1)
      rw [size3, x02.size] at this
      rw [this, hs3, realloc_limbs i2 hr2 _ (by rw [nv2]; exact h1)]
      obtain ⟨l, hl, _⟩ := h.live op1 h1
      rw [limbs_congr (x02.vars op1) (x02.blk _ (by rw [hl]; simp))]
    · simp only [Bool.not_true, Bool.false_eq_true, and_false, if_false]
      have hq : q1 = s.next := (t1 htmp).1
      have hne : q1 ≠ s2.ptr res := by rw [x02.ptr, hq]; exact Nat.ne_of_gt (hlt res hr)
      have hlt' : q1 < s2.next := by have := (t1 htmp).2; omega
      rw [load_eq_of_blk (realloc_blk_o i2 hr2 pl.need q1 hne hlt')]
      exact x2.load l1
  have hP2 : s3.load (if decide (s2.alloc res < pl.need) = true ∧ (!pl.tmp2) = true then s3.ptr op2 else q2) n2 = .ok b := by
    cases htmp : pl.tmp2
    · have hq : q2 = s.ptr op2 := (f2 htmp).1
      have hp : (if decide (s2.alloc res < pl.need) = true ∧ (!false) = true then s3.ptr op2 else q2) = s3.ptr op2 := by
        by_cases hm : s2.alloc res < pl.need
        · simp [hm]
        · simp only [hm, decide_false, Bool.false_eq_true, false_and, if_false]
          rw [hq, hs3, realloc_noop hm, x02.ptr]
      rw [hp]
      have := i3.load_var (i := op2) (by rw [nv3']; exact h2)
      rw [size3, x02.size] at this
      rw [this, hs3, realloc_limbs i2 hr2 _ (by rw [nv2]; exact h2)]
      obtain ⟨l, hl, _⟩ := h.live op2 h2
      rw [limbs_congr (x02.vars op2) (x02.blk _ (by rw [hl]; simp))]
    · simp only [Bool.not_true, Bool.false_eq_true, and_false, if_false]
      have hq : q2 = s1.next := (t2 htmp).1
      have hne : q2 ≠ s2.ptr res := by rw [x02.ptr, hq]; have := hlt res hr; omega
      have hlt' : q2 < s2.next := by have := (t2 htmp).2; omega
      rw [load_eq_of_blk (realloc_blk_o i2 hr2 pl.need q2 hne hlt')]
      exact l2
  rw [hP1]; simp only []
  rw [hP2]; simp only []
  rw [← hpl, hplres]
  obtain ⟨X, eX, iX, uX, vX⟩ := putZ i3 (w := res) (by rw [nv3']; exact hr) _ hzF (Nat.le_trans hneed a3)
  rw [eX]; simp only []
  set s4 := X.setSize res (if (F (Zof s op1) (Zof s op2)).neg = true then -((F (Zof s op1) (Zof s op2)).mag.length : Int)
    else ((F (Zof s op1) (Zof s op2)).mag.length : Int)) with hs4
  have nv4 : s4.nv = s.nv := by rw [uX.nv, nv3']
  obtain ⟨i5, nv5, v5⟩ := free_list_inv ((if pl.tmp1 = true then [q1] else []) ++ if pl.tmp2 = true then [q2] else []) iX
    (fun p hp i hi => by
      rw [nv4] at hi
      rw [uX.ptr]
      rcases List.mem_append.mp hp with hp | hp
      · cases htmp : pl.tmp1
        · simp [htmp] at hp
        · simp [htmp] at hp; rw [hp]
          rcases hq1 i hi with e | e
          · exact e
          · rw [htmp] at e; cases e
      · cases htmp : pl.tmp2
        · simp [htmp] at hp
        · simp [htmp] at hp; rw [hp]
          rcases hq2 i hi with e | e
          · exact e
          · rw [htmp] at e; cases e)
  refine ⟨_, rfl, i5, by rw [nv5, nv4], ?_, fun i hi hir => ?_⟩
  · rw [v5 res (by rw [nv4]; exact hr), vX]
  · rw [v5 i (by rw [nv4]; exact hi), uX.value_o i3 (by rw [nv3']; exact hr) (by rw [nv3']; exact hi) hir,
      val3 i (by rw [nv2]; exact hi), x02.value h hi]


/-! ### lengths of the value-level results (no hypotheses: they only bound the store) -/

theorem incr_len : ∀ u : List Nat, (Bits.incr u).1.length = u.length
  | [] => rfl
  | x :: xs => by
    unfold Bits.incr; simp only []
    split
    · simp [incr_len xs]
    · simp

theorem decr_len : ∀ u : List Nat, (Bits.decr u).1.length = u.length
  | [] => rfl
  | x :: xs => by
    unfold Bits.decr; simp only []
    split
    · simp [decr_len xs]
    · simp

theorem addLimb_len (u : List Nat) (v : Nat) : (Bits.addLimb u v).1.length = u.length := by
  cases u with
  | nil => rfl
  | cons x xs =>
    unfold Bits.addLimb; simp only []
    split
    · simp [incr_len xs]
    · simp

theorem subLimb_len (u : List Nat) (v : Nat) : (Bits.subLimb u v).1.length = u.length := by
  cases u with
  | nil => rfl
  | cons x xs =>
    unfold Bits.subLimb; simp only []
    split
    · simp [decr_len xs]
    · simp

theorem addOneGrow_len_le (r : List Nat) : (Bits.addOneGrow r).length ≤ r.length + 1 := by
  unfold Bits.addOneGrow
  have := addLimb_len r 1
  split
  split <;> simp_all

theorem normalize_len_le (l : List Nat) : (normalize l).length ≤ l.length := by
  unfold normalize
  rw [List.length_reverse]
  calc (l.reverse.dropWhile (· == 0)).length ≤ l.reverse.length := (List.dropWhile_sublist _).length_le
    _ = l.length := List.length_reverse

theorem xorCat_len (a b : List Nat) : (Bits.xorCat a b).length = max a.length b.length := by
  unfold Bits.xorCat Bits.xor_n
  split <;> simp <;> omega

theorem and_fit (x y : Bits.Z) : (Bits.mpz_and x y).mag.length ≤ (andPlan x.neg x.mag y.neg y.mag).need := by
  obtain ⟨xn, xm⟩ := x
  obtain ⟨yn, ym⟩ := y
  unfold andPlan
  cases xn <;> cases yn <;> simp only [Bool.and_true, Bool.and_false, Bool.false_eq_true, if_false, if_true, Bool.and_self]
  · exact Nat.le_refl _
  · exact Nat.le_refl _
  · exact Nat.le_refl _
  · have e : Bits.mpz_and ⟨true, xm⟩ ⟨true, ym⟩ = Bits.andNN xm ym := by unfold Bits.mpz_and; simp
    rw [e]; unfold Bits.andNN; simp only []
    refine Nat.le_trans (addOneGrow_len_le _) ?_
    split <;> simp [Bits.ior_n, subLimb_len] <;> omega

theorem xor_fit (x y : Bits.Z) : (Bits.mpz_xor x y).mag.length ≤ (xorPlan x.neg x.mag y.neg y.mag).need := by
  unfold xorPlan Bits.mpz_xor
  cases hx : x.neg <;> cases hy : y.neg <;>
    simp only [Bool.and_true, Bool.and_false, Bool.false_eq_true, if_false, if_true, Bool.true_and, Bool.or_true,
      Bool.or_false, Bool.not_true, Bool.not_false, Bool.and_self, Bool.or_self]
  · unfold Bits.xorPP; simp only []
    exact Nat.le_trans (normalize_len_le _) (Nat.le_of_eq (xorCat_len _ _))
  · unfold Bits.xorPN; simp only []
    refine Nat.le_trans (normalize_len_le _) (Nat.le_trans (addOneGrow_len_le _) ?_)
    rw [xorCat_len, subLimb_len]
  · unfold Bits.xorPN; simp only []
    refine Nat.le_trans (normalize_len_le _) (Nat.le_trans (addOneGrow_len_le _) ?_)
    rw [xorCat_len, subLimb_len, Nat.max_comm]
  · unfold Bits.xorNN; simp only []
    refine Nat.le_trans (normalize_len_le _) ?_
    rw [xorCat_len, subLimb_len, subLimb_len]

theorem mpz_and_ok {s : St} (h : Inv s) {res op1 op2 : Nat} (hr : res < s.nv) (h1 : op1 < s.nv) (h2 : op2 < s.nv) :
    ∃ s', mpz_and res op1 op2 s = .ok s' ∧ Res s s' res (Int.land (s.value op1) (s.value op2)) := by
  have := logic_ok andPlan Bits.mpz_and (fun n1 a n2 b => by unfold andPlan; split <;> rfl)
    (fun x y hx hy => (Bits.mpz_and_land x y hx hy).2) (fun x y _ _ => and_fit x y) h hr h1 h2
  rw [(Bits.mpz_and_land _ _ (Zof_WF h h1) (Zof_WF h h2)).1, Zof_toInt, Zof_toInt, Bits.land_eq] at this
  exact this

theorem mpz_xor_ok {s : St} (h : Inv s) {res op1 op2 : Nat} (hr : res < s.nv) (h1 : op1 < s.nv) (h2 : op2 < s.nv) :
    ∃ s', mpz_xor res op1 op2 s = .ok s' ∧ Res s s' res (Int.xor (s.value op1) (s.value op2)) := by
  have := logic_ok xorPlan Bits.mpz_xor (fun n1 a n2 b => by unfold xorPlan; split <;> [rfl; (split <;> rfl)])
    (fun x y hx hy => (Bits.mpz_xor_lxor x y hx hy).2) (fun x y _ _ => xor_fit x y) h hr h1 h2
  rw [(Bits.mpz_xor_lxor _ _ (Zof_WF h h1) (Zof_WF h h2)).1, Zof_toInt, Zof_toInt, Bits.lxor_eq] at this
  exact this


theorem dropTopZero_len_le (l : List Nat) : (Bits.dropTopZero l).length ≤ l.length := by
  unfold Bits.dropTopZero; split <;> simp

theorem com_fit (x : Bits.Z) : (Bits.mpz_com x).mag.length ≤ (if x.neg then x.mag.length else x.mag.length + 1) := by
  unfold Bits.mpz_com
  cases hx : x.neg <;> simp only [Bool.not_false, Bool.not_true, Bool.false_eq_true, if_true, if_false]
  · split
    · simp
    · exact addOneGrow_len_le _
  · exact Nat.le_trans (dropTopZero_len_le _) (Nat.le_of_eq (subLimb_len _ _))

theorem mpz_com_ok {s : St} (h : Inv s) {dst src : Nat} (hd : dst < s.nv) (hs : src < s.nv) :
    ∃ s', mpz_com dst src s = .ok s' ∧ Res s s' dst (-(s.value src) - 1) := by
  unfold mpz_com mpz_comV
  simp only [Variant.c, if_true, bind, Except.bind, pure, Except.pure]
  set need := (if s.size src ≥ 0 then (s.size src).natAbs + 1 else (s.size src).natAbs) with hneed
  obtain ⟨i1, nv1, size1, val1, a1, _⟩ := realloc_spec h hd need
  set s1 := s.mpzRealloc dst need with hs1
  have hs1' : src < s1.nv := by rw [nv1]; exact hs
  have hl := i1.load_var hs1'
  rw [size1, hs1, realloc_limbs h hd _ hs, ← hs1] at hl
  rw [hl]; simp only []
  have hz := Zof_WF h hs
  obtain ⟨e1, hwf⟩ := Bits.mpz_com_lnot (Zof s src) hz
  have hfit : (Bits.mpz_com (Zof s src)).mag.length ≤ s1.alloc dst := by
    refine Nat.le_trans (com_fit _) (Nat.le_trans ?_ a1)
    have hlen := (h.limbs_spec hs).1
    show (if decide (s.size src < 0) = true then (s.limbs src).length else (s.limbs src).length + 1) ≤ need
    rw [hlen, hneed]
    by_cases h0 : s.size src < 0
    · rw [if_pos (by simpa using h0), if_neg (by omega)]
    · rw [if_neg (by simpa using h0), if_pos (by omega)]
  obtain ⟨X, eX, iX, uX, vX⟩ := putZ i1 (w := dst) (by rw [nv1]; exact hd) _ hwf hfit
  have eX' : s1.store (s1.ptr dst) (Bits.mpz_com { neg := decide (s.size src < 0), mag := s.limbs src }).mag = .ok X := eX
  rw [eX']; simp only []
  have hv : (Bits.mpz_com (Zof s src)).toInt = -(s.value src) - 1 := by rw [e1, Zof_toInt, Bits.lnot_eq_neg]
  exact ⟨_, rfl, iX, uX.nv.trans nv1, vX.trans hv, fun i hi hid =>
    (uX.value_o i1 (by rw [nv1]; exact hd) (by rw [nv1]; exact hi) hid).trans (val1 i hi)⟩

/-! ### mpz_neg, mpz_abs -/

theorem setSize_setSize (s : St) (w : Nat) (a b : Int) : (s.setSize w a).setSize w b = s.setSize w b := by
  cases s with
  | mk nv vars blk next =>
    simp only [St.setSize, St.setVar, St.mk.injEq, true_and, and_true]
    funext j
    by_cases e : j = w <;> simp [e]

/-- rewriting the size field with the same magnitude: only the sign changes -/
theorem flip_spec {s : St} (h : Inv s) {w : Nat} (hw : w < s.nv) (z : Int) (hz : z.natAbs = (s.size w).natAbs) :
    Inv (s.setSize w z) ∧ Upd s (s.setSize w z) w ∧ (s.setSize w z).value w = sgnv z (s.mag w) := by
  obtain ⟨b, hb, hbl, hbL⟩ := h.live w hw
  rw [setSize_eq_put s hb]
  have hsn := h.size_natAbs hw
  have hfit := h.fits w hw
  have p := put_upd h hw b (s.mag w) (decide (z < 0)) hbl hbL (by rw [← hsn]; exact hfit)
    (by rw [← hsn]; unfold St.mag St.limbs; rw [hb]; rfl)
  have hsz : (if decide (z < 0) = true then -((sizeNat (s.mag w) : Nat) : Int) else ((sizeNat (s.mag w) : Nat) : Int)) = z := by
    rw [← hsn, ← hz]
    by_cases h0 : z < 0
    · rw [if_pos (by simpa using h0)]; omega
    · rw [if_neg (by simpa using h0)]; omega
  rw [hsz] at p
  refine ⟨p.1, p.2.1, ?_⟩
  rw [p.2.2]; unfold sgnv
  by_cases h0 : z < 0 <;> simp [h0]

theorem mpz_negabs_ok (isAbs : Bool) {s : St} (h : Inv s) {w u : Nat} (hw : w < s.nv) (hu : u < s.nv) :
    ∃ s', mpz_negabs isAbs w u s = .ok s' ∧ Res s s' w (if isAbs then ((s.value u).natAbs : Int) else -(s.value u)) := by
  unfold mpz_negabs
  simp only [bind, Except.bind, pure, Except.pure]
  set z : Int := (if isAbs then ((s.size u).natAbs : Int) else -(s.size u)) with hzdef
  have hzabs : z.natAbs = (s.size u).natAbs := by
    cases isAbs
    · simp [hzdef]
    · simp only [hzdef, if_true]; omega
  have hval : ∀ m : Nat, (s.size u = 0 → m = 0) →
      sgnv z m = (if isAbs then ((sgnv (s.size u) m).natAbs : Int) else -(sgnv (s.size u) m)) := by
    intro m hm
    cases isAbs
    · simp only [hzdef, Bool.false_eq_true, if_false]; exact sgnv_neg _ _ hm
    · simp only [hzdef, if_true, sgnv_natAbs]
      unfold sgnv; rw [if_neg (by omega)]
  by_cases huw : u = w
  · subst huw
    simp only [ne_eq, not_true_eq_false, if_false]
    obtain ⟨i1, u1, v1⟩ := flip_spec h hw z hzabs
    refine ⟨_, rfl, i1, u1.nv, ?_, fun i hi hiw => u1.value_o h hw hi hiw⟩
    rw [v1, hval _ (fun h0 => h.mag_zero hw h0), ← value_eq_sgnv]
  · rw [if_pos huw]
    obtain ⟨i1, nv1, size1, val1, a1, _⟩ := realloc_spec h hw (s.size u).natAbs
    set s1 := s.mpzRealloc w (s.size u).natAbs with hs1
    have hw1 : w < s1.nv := by rw [nv1]; exact hw
    have hu1 : u < s1.nv := by rw [nv1]; exact hu
    have hl := i1.load_var hu1; rw [size1] at hl
    rw [hl]; simp only []
    obtain ⟨X, eX, iX, nX, vX, oX⟩ := assign_spec i1 hw1 hu1 (by rw [size1]; exact a1)
    rw [eX]; simp only []
    set Y := X.setSize w (s1.size u) with hY
    have hYw : w < Y.nv := by rw [nX]; exact hw1
    have hYsz : Y.size w = s.size u := by
      simp [hY, St.setSize, St.setVar, St.size, size1]
      exact size1 u
    obtain ⟨i2, u2, v2⟩ := flip_spec iX hYw z (by rw [hzabs, hYsz])
    rw [hY, setSize_setSize] at i2 u2 v2
    refine ⟨_, rfl, i2, by rw [u2.nv, nX, nv1], ?_, fun i hi hiw => ?_⟩
    · rw [v2]
      have hm : Y.mag w = s.mag u := by
        rw [← value_natAbs, ← value_natAbs, vX, val1 u hu]
      rw [hm, hval _ (fun h0 => h.mag_zero hu h0), ← value_eq_sgnv]
    · rw [u2.value_o iX hYw (by rw [nX, nv1]; exact hi) hiw, oX i (by rw [nv1]; exact hi) hiw, val1 i hi]

end Mpir.AliasMem
