/- The sieving loops of primesieve.c (model Mpir/Model/Sieve.lean): striking the multiples of one prime,
   the outer loop of first_block_primesieve, the LOOP_ON_SIEVE of block_resieve. -/
import MpirProofs.Lemmas.Sieve
import Mathlib.NumberTheory.Bertrand
namespace Mpir.Sieve
open Mpir Mpir.Numth

/-- every limb of the array is a limb -/
def LimbsA (a : Array ℕ) : Prop := ∀ j, a.getD j 0 < B

/-- a set bit of the window [off, off+bits] never stands for a prime -/
def Sound (a : Array ℕ) (off bits : ℕ) : Prop :=
  ∀ b ≤ bits, sieveBit a b = true → ¬ (bit_to_n (b + off)).Prime

/-- every number of the window with a prime factor q < P, q² ≤ number, is marked -/
def Compl (a : Array ℕ) (off bits P : ℕ) : Prop :=
  ∀ b ≤ bits, ∀ q, q.Prime → 5 ≤ q → q < P → q ∣ bit_to_n (b + off) → q * q ≤ bit_to_n (b + off) →
    sieveBit a b = true

/-- first index ≥ offset of the progression lindex + k·step, relative to offset (primesieve.c:202-205) -/
def adj (lindex step offset : ℕ) : ℕ :=
  (if lindex < offset then lindex + step * ((offset - lindex - 1) / step + 1) else lindex) - offset

theorem adj_zero (l s : ℕ) : adj l s 0 = l := by simp [adj]

theorem adj_spec (L step off : ℕ) (hs : 0 < step) (b : ℕ) :
    (∃ k, b = adj L step off + k * step) ↔ (∃ k, b + off = L + k * step) := by
  unfold adj
  by_cases h : L < off
  · simp only [h, if_true]
    set t := (off - L - 1) / step with ht
    have h1 : t * step ≤ off - L - 1 := Nat.div_mul_le_self _ _
    have h2 : off - L - 1 < (t + 1) * step := by
      have := Nat.lt_div_mul_add (a := off - L - 1) hs
      rw [← ht] at this
      calc off - L - 1 < t * step + step := this
        _ = (t + 1) * step := by ring
    have e : step * (t + 1) = (t + 1) * step := by ring
    rw [e]
    constructor
    · rintro ⟨k, rfl⟩
      refine ⟨t + 1 + k, ?_⟩
      have : (t + 1 + k) * step = (t + 1) * step + k * step := by ring
      omega
    · rintro ⟨k, hk⟩
      have hk' : t + 1 ≤ k := by
        by_contra hlt
        have : k ≤ t := by omega
        have : k * step ≤ t * step := Nat.mul_le_mul_right _ this
        omega
      refine ⟨k - (t + 1), ?_⟩
      have : k * step = (t + 1) * step + (k - (t + 1)) * step := by
        rw [← Nat.add_mul]; congr 1; omega
      omega
  · simp only [h, if_false]
    constructor
    · rintro ⟨k, rfl⟩; exact ⟨k, by omega⟩
    · rintro ⟨k, hk⟩; exact ⟨k, by omega⟩

theorem shiftLeft_one_eq (x : ℕ) : x <<< 1 = 2 * x := by
  rw [Nat.shiftLeft_eq]; omega

/-- one stride of block_resieve / first_block_primesieve, started at bit L (global index) of the window -/
theorem stride_spec (p L off bits : ℕ) (hp : 0 < p) (a : Array ℕ) (hsz : bits / 64 < a.size) (hl : LimbsA a) :
    (markFor bits (2 * p) (2 * p % 64) (bits + 1) a (adj L (2 * p) off) (1 <<< (adj L (2 * p) off % 64))).size = a.size ∧
    LimbsA (markFor bits (2 * p) (2 * p % 64) (bits + 1) a (adj L (2 * p) off) (1 <<< (adj L (2 * p) off % 64))) ∧
    ∀ b, sieveBit (markFor bits (2 * p) (2 * p % 64) (bits + 1) a (adj L (2 * p) off) (1 <<< (adj L (2 * p) off % 64))) b = true ↔
      (sieveBit a b = true ∨ (b ≤ bits ∧ ∃ k, bit_to_n (b + off) = bit_to_n L + 6 * p * k)) := by
  rw [Nat.one_shiftLeft]
  have hf : bits < adj L (2 * p) off + (bits + 1) * (2 * p) := by
    have : bits + 1 ≤ (bits + 1) * (2 * p) := Nat.le_mul_of_pos_right _ (by omega)
    omega
  obtain ⟨h1, h2, h3⟩ := markFor_spec bits (2 * p) (bits + 1) a (adj L (2 * p) off) hf hsz hl
  refine ⟨h1, h2, fun b => ?_⟩
  rw [h3, adj_spec L (2 * p) off (by omega) b]
  constructor
  · rintro (h | ⟨hb, k, hk⟩)
    · exact Or.inl h
    · exact Or.inr ⟨hb, k, by rw [hk, bit_to_n_stride]⟩
  · rintro (h | ⟨hb, k, hk⟩)
    · exact Or.inl h
    · refine Or.inr ⟨hb, k, ?_⟩
      rw [← bit_to_n_stride] at hk
      exact bit_to_n_inj hk

/-- the exact effect of striking with the number p = id_to_n i (both strides) on the window -/
def Struck (a a' : Array ℕ) (i off bits : ℕ) : Prop :=
  a'.size = a.size ∧ LimbsA a' ∧
  ∀ b, sieveBit a' b = true ↔
    (sieveBit a b = true ∨ (b ≤ bits ∧ id_to_n i ∣ bit_to_n (b + off) ∧ id_to_n i * id_to_n i ≤ bit_to_n (b + off)))

theorem id_to_n_pos (i : ℕ) : 0 < id_to_n i := by rw [id_to_n_eq]; omega

theorem strike_both (i off bits : ℕ) (hi : 1 ≤ i) (a : Array ℕ) (hsz : bits / 64 < a.size) (hl : LimbsA a) :
    Struck a
      (markFor bits (2 * id_to_n i) (2 * id_to_n i % 64) (bits + 1)
        (markFor bits (2 * id_to_n i) (2 * id_to_n i % 64) (bits + 1) a
          (adj (sqIndex i (id_to_n i)) (2 * id_to_n i) off) (1 <<< (adj (sqIndex i (id_to_n i)) (2 * id_to_n i) off % 64)))
        (adj (nextIndex i) (2 * id_to_n i) off) (1 <<< (adj (nextIndex i) (2 * id_to_n i) off % 64)))
      i off bits := by
  obtain ⟨s1, l1, b1⟩ := stride_spec (id_to_n i) (sqIndex i (id_to_n i)) off bits (id_to_n_pos i) a hsz hl
  obtain ⟨s2, l2, b2⟩ := stride_spec (id_to_n i) (nextIndex i) off bits (id_to_n_pos i) _ (by rw [s1]; exact hsz) l1
  refine ⟨by rw [s2, s1], l2, fun b => ?_⟩
  rw [b2, b1, bit_to_n_sqIndex i hi, bit_to_n_nextIndex i]
  have hu := stride_union i hi (bit_to_n (b + off)) (bit_to_n_mod6 _)
  constructor
  · rintro ((h | ⟨hb, hk⟩) | ⟨hb, hk⟩)
    · exact Or.inl h
    · exact Or.inr ⟨hb, hu.2 (Or.inl hk)⟩
    · exact Or.inr ⟨hb, hu.2 (Or.inr hk)⟩
  · rintro (h | ⟨hb, hd⟩)
    · exact Or.inl (Or.inl h)
    · rcases hu.1 hd with hk | hk
      · exact Or.inl (Or.inr ⟨hb, hk⟩)
      · exact Or.inr ⟨hb, hk⟩

/-- when the second stride starts beyond the window (the `continue` of primesieve.c:215-216) the first stride alone does it -/
theorem strike_first (i off bits : ℕ) (hi : 1 ≤ i) (hnext : bits + off < nextIndex i)
    (a : Array ℕ) (hsz : bits / 64 < a.size) (hl : LimbsA a) :
    Struck a
      (markFor bits (2 * id_to_n i) (2 * id_to_n i % 64) (bits + 1) a
          (adj (sqIndex i (id_to_n i)) (2 * id_to_n i) off) (1 <<< (adj (sqIndex i (id_to_n i)) (2 * id_to_n i) off % 64)))
      i off bits := by
  obtain ⟨s1, l1, b1⟩ := stride_spec (id_to_n i) (sqIndex i (id_to_n i)) off bits (id_to_n_pos i) a hsz hl
  refine ⟨s1, l1, fun b => ?_⟩
  rw [b1, bit_to_n_sqIndex i hi]
  have hu := stride_union i hi (bit_to_n (b + off)) (bit_to_n_mod6 _)
  constructor
  · rintro (h | ⟨hb, hk⟩)
    · exact Or.inl h
    · exact Or.inr ⟨hb, hu.2 (Or.inl hk)⟩
  · rintro (h | ⟨hb, hd⟩)
    · exact Or.inl h
    · rcases hu.1 hd with hk | ⟨k, hk⟩
      · exact Or.inr ⟨hb, hk⟩
      · exfalso
        have h1 : bit_to_n (b + off) < bit_to_n (nextIndex i) := bit_to_n_lt (by omega)
        rw [bit_to_n_nextIndex] at h1
        have : 0 ≤ 6 * id_to_n i * k := Nat.zero_le _
        omega

/-! ## invariants under striking and advancing -/

theorem sound_struck {a a' : Array ℕ} {i off bits : ℕ} (hi : 1 ≤ i) (h : Struck a a' i off bits) (hs : Sound a off bits) :
    Sound a' off bits := by
  intro b hb hm
  rcases (h.2.2 b).1 hm with h1 | ⟨_, ⟨c, hc⟩, hle⟩
  · exact hs b hb h1
  · rw [hc]
    have hp5 : 5 ≤ id_to_n i := by rw [id_to_n_eq]; omega
    have hcp : id_to_n i ≤ c := by
      rw [hc] at hle; exact Nat.le_of_mul_le_mul_left hle (by omega)
    exact Nat.not_prime_mul (by omega) (by omega)

/-- no number coprime to 6 lies strictly between bit_to_n j and bit_to_n (j+1) -/
theorem prime_lt_next {q j : ℕ} (hq : q.Prime) (h5 : 5 ≤ q) (h : q < bit_to_n (j + 1)) : q < bit_to_n j ∨ q = bit_to_n j := by
  have h6 := prime_mod6 hq h5
  have e := bit_to_n_nb q h5 h6
  have : nb q ≤ j := by
    by_contra hc
    have : bit_to_n (j + 1) ≤ bit_to_n (nb q) := bit_to_n_le (by omega)
    omega
  rcases Nat.lt_or_eq_of_le this with h1 | h1
  · left; rw [← e]; exact bit_to_n_lt h1
  · right; rw [← e, h1]

theorem compl_struck {a a' : Array ℕ} {j off bits : ℕ} (h : Struck a a' (j + 1) off bits)
    (hc : Compl a off bits (bit_to_n j)) : Compl a' off bits (bit_to_n (j + 1)) := by
  intro b hb q hq h5 hlt hd hsq
  rcases prime_lt_next hq h5 hlt with h1 | h1
  · exact (h.2.2 b).2 (Or.inl (hc b hb q hq h5 h1 hd hsq))
  · rw [bit_to_n_eq_id] at h1
    rw [h1] at hd hsq
    exact (h.2.2 b).2 (Or.inr ⟨hb, hd, hsq⟩)

theorem compl_skip {a : Array ℕ} {j off bits : ℕ} (hnp : ¬ (bit_to_n j).Prime)
    (hc : Compl a off bits (bit_to_n j)) : Compl a off bits (bit_to_n (j + 1)) := by
  intro b hb q hq h5 hlt hd hsq
  rcases prime_lt_next hq h5 hlt with h1 | h1
  · exact hc b hb q hq h5 h1 hd hsq
  · exact absurd (h1 ▸ hq) hnp

/-- least prime factor of a composite number coprime to 6 -/
theorem exists_small_factor (m : ℕ) (h5 : 5 ≤ m) (h6 : m % 6 = 1 ∨ m % 6 = 5) (hnp : ¬ m.Prime) :
    ∃ q, q.Prime ∧ 5 ≤ q ∧ q ∣ m ∧ q * q ≤ m := by
  refine ⟨m.minFac, Nat.minFac_prime (by omega), ?_, Nat.minFac_dvd m, ?_⟩
  · have hq := Nat.minFac_prime (n := m) (by omega)
    have hd := Nat.minFac_dvd m
    have h2 : m.minFac ≠ 2 := fun e => by rw [e] at hd; omega
    have h3 : m.minFac ≠ 3 := fun e => by rw [e] at hd; omega
    have h4 : m.minFac ≠ 4 := fun e => by rw [e] at hq; exact absurd hq (by decide)
    have := hq.two_le
    omega
  · have := Nat.minFac_sq_le_self (n := m) (by omega) hnp
    rwa [sq] at this

/-- once every prime below P has struck and P² exceeds the top of the window, every composite is marked -/
theorem final_of_compl {a : Array ℕ} {off bits P : ℕ} (hc : Compl a off bits P)
    (htop : bit_to_n (bits + off) < P * P) :
    ∀ b ≤ bits, ¬ (bit_to_n (b + off)).Prime → sieveBit a b = true := by
  intro b hb hnp
  obtain ⟨q, hq, h5, hd, hsq⟩ := exists_small_factor _ (bit_to_n_ge _) (bit_to_n_mod6 _) hnp
  refine hc b hb q hq h5 ?_ hd hsq
  have : bit_to_n (b + off) ≤ bit_to_n (bits + off) := bit_to_n_le (by omega)
  by_contra hge
  have : P * P ≤ q * q := Nat.mul_le_mul (by omega) (by omega)
  omega

/-- an unmarked position below the striking frontier is a prime -/
theorem prime_of_clear {a : Array ℕ} {j off bits : ℕ} (hc : Compl a off bits (bit_to_n (j + off)))
    (hj : j ≤ bits) (hclr : sieveBit a j = false) : (bit_to_n (j + off)).Prime := by
  by_contra hnp
  obtain ⟨q, hq, h5, hd, hsq⟩ := exists_small_factor _ (bit_to_n_ge _) (bit_to_n_mod6 _) hnp
  have hlt : q < bit_to_n (j + off) := by
    by_contra hge
    have : bit_to_n (j + off) * 5 ≤ q * q := Nat.mul_le_mul (by omega) h5
    have := bit_to_n_ge (j + off)
    omega
  have := hc j hj q hq h5 hlt hd hsq
  rw [hclr] at this; exact absurd this (by simp)

/-! ## mask / index bookkeeping of the bit walk -/

theorem mask_step (j : ℕ) : rotl (2 ^ (j % 64)) 1 = 2 ^ ((j + 1) % 64) := by
  rw [rotl_two_pow _ (Nat.mod_lt _ (by norm_num)) 1 (by norm_num)]
  congr 1; omega

theorem index_step (j : ℕ) : j / 64 + (2 ^ ((j + 1) % 64) &&& 1) = (j + 1) / 64 := by
  rw [two_pow_and_one]
  split <;> omega


/-! ## first_block_primesieve: the outer loop -/

theorem markDo_eq (bits step r : ℕ) (a : Array ℕ) (l m : ℕ) (h : l ≤ bits) :
    markDo bits step r bits a l m = markFor bits step r (bits + 1) a l m := by
  simp [markDo, markFor, h]

theorem bool_eq_of_iff_or {x y : Bool} {P : Prop} (h : x = true ↔ (y = true ∨ P)) (hP : ¬ P) : x = y := by
  cases x <;> cases y <;> simp_all

/-- The `do … while (1)` of first_block_primesieve leaves through its `break` (never reading beyond the
    array) with every composite of the window marked and no prime marked.  j0 = the bit of a prime whose
    square exceeds the window (Bertrand). -/
theorem fbLoop_spec (bits j0 : ℕ) (hj0 : j0 ≤ bits) (hp0 : (bit_to_n j0).Prime)
    (hsq0 : bit_to_n bits < bit_to_n j0 * bit_to_n j0) :
    ∀ fuel j (a : Array ℕ), j ≤ j0 → j0 < fuel + j → bits / 64 < a.size → LimbsA a → Sound a 0 bits →
      Compl a 0 bits (bit_to_n j) →
      ∃ a', fbLoop bits fuel a (2 ^ (j % 64)) (j / 64) (j + 1) = some a' ∧ a'.size = a.size ∧ LimbsA a' ∧
        Sound a' 0 bits ∧ (∀ b ≤ bits, ¬ (bit_to_n b).Prime → sieveBit a' b = true) ∧
        (∀ b, bits < b → sieveBit a' b = sieveBit a b) := by
  intro fuel
  induction fuel with
  | zero => intro j a h1 h2; omega
  | succ f ih =>
    intro j a hj hfuel hsz hl hs hc
    have hidx : ¬ (j / 64 ≥ a.size) := by
      have := Nat.div_le_div_right (c := 64) (Nat.le_trans hj hj0); omega
    simp only [fbLoop, hidx, if_false, clearAt_eq, mask_step, index_step]
    cases hbit : sieveBit a j
    · -- the bit is clear: id_to_n (j+1) is a prime
      simp only [Bool.not_false, if_true]
      have hc' : Compl a 0 bits (bit_to_n (j + 0)) := by simpa using hc
      have hprime : (bit_to_n j).Prime := by
        simpa using prime_of_clear hc' (Nat.le_trans hj hj0) hbit
      have hsqn : bit_to_n (sqIndex (j + 1) (id_to_n (j + 1))) = bit_to_n j * bit_to_n j := by
        rw [bit_to_n_sqIndex (j + 1) (by omega), ← bit_to_n_eq_id]
      by_cases hbrk : sqIndex (j + 1) (id_to_n (j + 1)) > bits
      · simp only [hbrk, if_true]
        refine ⟨a, rfl, rfl, hl, hs, ?_, fun _ _ => rfl⟩
        have htop : bit_to_n (bits + 0) < bit_to_n j * bit_to_n j := by
          rw [Nat.add_zero, ← hsqn]; exact bit_to_n_lt hbrk
        have := final_of_compl hc' htop
        simpa using this
      · simp only [hbrk, if_false]
        have hle : sqIndex (j + 1) (id_to_n (j + 1)) ≤ bits := by omega
        have hjlt : j < j0 := by
          rcases Nat.lt_or_eq_of_le hj with h | h
          · exact h
          · exfalso
            have := bit_to_n_le hle
            rw [hsqn, h] at this; omega
        rw [markDo_eq _ _ _ _ _ _ hle, shiftLeft_one_eq]
        have hst := strike_both (j + 1) 0 bits (by omega) a hsz hl
        simp only [adj_zero] at hst
        obtain ⟨a', e, s', l', so', fin', pad'⟩ := ih (j + 1) _ (by omega) (by omega)
          (by rw [hst.1]; exact hsz) hst.2.1 (sound_struck (by omega) hst hs) (compl_struck hst hc)
        refine ⟨a', e, by rw [s', hst.1], l', so', fin', fun b hb => ?_⟩
        rw [pad' b hb]
        exact bool_eq_of_iff_or (hst.2.2 b) (by omega)
    · -- the bit is set: a composite, skip
      simp only [Bool.not_true, Bool.false_eq_true, if_false]
      have hnp : ¬ (bit_to_n j).Prime := by
        simpa using hs j (Nat.le_trans hj hj0) hbit
      have hjlt : j < j0 := by
        rcases Nat.lt_or_eq_of_le hj with h | h
        · exact h
        · exfalso; rw [h] at hnp; exact hnp hp0
      exact ih (j + 1) a (by omega) (by omega) hsz hl hs (compl_skip hnp hc)


/-! ## block_resieve: the LOOP_ON_SIEVE with its `break` and `continue` -/

theorem adj_def (L step off : ℕ) :
    (if L < off then L + step * ((off - L - 1) / step + 1) else L) - off = adj L step off := rfl

/-- after the `continue` of primesieve.c:216 (`__i` advanced, `__mask`/`__index` not) the next pass tests the
    same clear bit with the next number, whose square index is beyond the window: `break`. -/
theorem brLoop_desync (bits off sb : ℕ) (sv : Array ℕ) (fuel : ℕ) (a : Array ℕ) (mask index j : ℕ)
    (hclr : clearAt sv index mask = true) (hsq : bits + off < sqIndex (j + 2) (id_to_n (j + 2))) :
    brLoop bits off sb sv fuel a mask index (j + 1) = a := by
  cases fuel with
  | zero => rfl
  | succ f => simp only [brLoop, hclr, if_true, show j + 1 + 1 = j + 2 by omega, gt_iff_lt, hsq]

def Final (a : Array ℕ) (off bits : ℕ) : Prop :=
  Sound a off bits ∧ ∀ b ≤ bits, ¬ (bit_to_n (b + off)).Prime → sieveBit a b = true

theorem brLoop_spec (bits off sb : ℕ) (sv : Array ℕ)
    (hsv : ∀ j ≤ sb, (sieveBit sv j = true ↔ ¬ (bit_to_n j).Prime))
    (hH : bit_to_n (bits + off) < bit_to_n (sb + 1) * bit_to_n (sb + 1)) :
    ∀ fuel j (a : Array ℕ), j ≤ sb → sb < fuel + j → bits / 64 < a.size → LimbsA a → Sound a off bits →
      Compl a off bits (bit_to_n j) →
      (brLoop bits off sb sv fuel a (2 ^ (j % 64)) (j / 64) j).size = a.size ∧
      LimbsA (brLoop bits off sb sv fuel a (2 ^ (j % 64)) (j / 64) j) ∧
      Final (brLoop bits off sb sv fuel a (2 ^ (j % 64)) (j / 64) j) off bits := by
  intro fuel
  induction fuel with
  | zero => intro j a h1 h2; omega
  | succ f ih =>
    intro j a hj hfuel hsz hl hs hc
    simp only [brLoop, clearAt_eq, mask_step, index_step]
    cases hbit : sieveBit sv j
    · -- clear: bit_to_n j = id_to_n (j+1) is a prime
      simp only [Bool.not_false, if_true]
      have hprime : (bit_to_n j).Prime := by
        by_contra hnp
        have := (hsv j hj).2 hnp
        rw [hbit] at this; exact absurd this (by simp)
      have hsqn : bit_to_n (sqIndex (j + 1) (id_to_n (j + 1))) = bit_to_n j * bit_to_n j := by
        rw [bit_to_n_sqIndex (j + 1) (by omega), ← bit_to_n_eq_id]
      have hnxn : bit_to_n (nextIndex (j + 1)) = bit_to_n j * bit_to_n (j + 1) := by
        rw [bit_to_n_nextIndex (j + 1), ← bit_to_n_eq_id, ← bit_to_n_eq_id]
      by_cases hbrk : sqIndex (j + 1) (id_to_n (j + 1)) > bits + off
      · simp only [hbrk, if_true]
        refine ⟨trivial, hl, hs, final_of_compl hc ?_⟩
        rw [← hsqn]; exact bit_to_n_lt hbrk
      · simp only [hbrk, if_false, adj_def, shiftLeft_one_eq]
        by_cases hcont : nextIndex (j + 1) > bits + off
        · -- `continue`
          simp only [hcont, if_true]
          have hst := strike_first (j + 1) off bits (by omega) hcont a hsz hl
          have hdes : ∀ x, brLoop bits off sb sv f x (2 ^ (j % 64)) (j / 64) (j + 1) = x := by
            intro x
            apply brLoop_desync
            · rw [clearAt_eq, hbit]; rfl
            · have h1 : bit_to_n (nextIndex (j + 1)) < bit_to_n (sqIndex (j + 2) (id_to_n (j + 2))) := by
                rw [hnxn, bit_to_n_sqIndex (j + 2) (by omega), ← bit_to_n_eq_id]
                exact Nat.mul_lt_mul_of_pos_right (bit_to_n_lt (by omega)) (by have := bit_to_n_ge (j + 1); omega)
              have h2 : nextIndex (j + 1) < sqIndex (j + 2) (id_to_n (j + 2)) := by
                by_contra hge
                have := bit_to_n_le (Nat.le_of_not_lt hge)
                omega
              omega
          rw [hdes, ite_self]
          refine ⟨hst.1, hst.2.1, sound_struck (by omega) hst hs, final_of_compl (compl_struck hst hc) ?_⟩
          have h1 : bit_to_n (bits + off) < bit_to_n (nextIndex (j + 1)) := bit_to_n_lt hcont
          rw [hnxn] at h1
          have : bit_to_n j * bit_to_n (j + 1) ≤ bit_to_n (j + 1) * bit_to_n (j + 1) :=
            Nat.mul_le_mul_right _ (bit_to_n_le (by omega))
          omega
        · simp only [hcont, if_false]
          have hst := strike_both (j + 1) off bits (by omega) a hsz hl
          by_cases hmore : j + 1 ≤ sb
          · simp only [hmore, if_true]
            obtain ⟨s', l', fin'⟩ := ih (j + 1) _ hmore (by omega) (by rw [hst.1]; exact hsz) hst.2.1
              (sound_struck (by omega) hst hs) (compl_struck hst hc)
            exact ⟨by rw [s', hst.1], l', fin'⟩
          · simp only [hmore, if_false]
            have hjsb : j = sb := by omega
            refine ⟨hst.1, hst.2.1, sound_struck (by omega) hst hs, final_of_compl (compl_struck hst hc) ?_⟩
            rw [hjsb]; exact hH
    · -- set: a composite
      simp only [Bool.not_true, Bool.false_eq_true, if_false]
      have hnp : ¬ (bit_to_n j).Prime := (hsv j hj).1 hbit
      by_cases hmore : j + 1 ≤ sb
      · simp only [hmore, if_true]
        exact ih (j + 1) a hmore (by omega) hsz hl hs (compl_skip hnp hc)
      · simp only [hmore, if_false]
        have hjsb : j = sb := by omega
        refine ⟨trivial, hl, hs, final_of_compl (compl_skip hnp hc) ?_⟩
        rw [hjsb]; exact hH

end Mpir.Sieve
