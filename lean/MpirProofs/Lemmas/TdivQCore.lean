/-
  C02 / mpn_tdiv_q: the value-level core of the second branch of mpn/generic/tdiv_q.c (pure Nat arithmetic).

  Setting.  N, D the operands; P = B^t the weight of the dividend limbs that are dropped; the divisor loses one limb
  more (P·B).  c = 2^cnt is the normalising shift, c·c' = B.  The C hands to the approximate division
      N' = ⌊N/P⌋·c            (tdiv_q.c:208: the dividend is truncated FIRST, then shifted),
      D' = ⌊D·c/(P·B)⌋        (tdiv_q.c:214-215: top limbs shifted, bits of the next limb shifted in),
  D' normalised on qn+1 limbs (B^(qn+1) ≤ 2·D'), and N < D·B^qn (the quotient has at most qn limbs).
  The callee returns Q' with ⌊N'/D'⌋ ≤ Q' ≤ ⌊N'/D'⌋ + E.  Then, with Q = ⌊N/D⌋:
      B·Q ≤ ⌊N'/D'⌋ ≤ B·(Q+1) + 1          (`trunc_lower`, `trunc_upper`)
  i.e. truncating both operands makes the estimate at most "one unit of the guard limb past B·(Q+1)", so
      Q ≤ ⌊Q'/B⌋ ≤ Q+1   and   ⌊Q'/B⌋ = Q+1  ⇒  Q' mod B ≤ E + 1      (`guard_budget`).
  The test `tp[0] <= 4` of tdiv_q.c:280 is therefore sufficient exactly as long as E + 1 ≤ 4.
-/
import MpirProofs.Lemmas.Base
import Mathlib.Tactic.Ring
import Mathlib.Tactic.Linarith
import Mathlib.Tactic.NormNum
namespace Mpir.TdivQ
open Mpir

/-- (a) the truncated estimate is never too small: B·⌊N/D⌋ ≤ ⌊N'/D'⌋.  Needs c | B (the shift is by whole bits of a
    limb): the dividend is truncated before it is shifted, so its low `cnt` bits are lost. -/
theorem trunc_lower (N D P c c' : Nat) (hP : 0 < P) (hc : c * c' = B)
    (hD' : 0 < D * c / (P * B)) :
    B * (N / D) ≤ N / P * c / (D * c / (P * B)) := by
  have hc0 : 0 < c := by
    rcases Nat.eq_zero_or_pos c with h | h
    · rw [h, Nat.zero_mul] at hc; exact absurd hc.symm (Nat.ne_of_gt B_pos)
    · exact h
  set D' := D * c / (P * B) with hD'def
  set Q := N / D with hQ
  have h1 : D' * (P * B) ≤ D * c := Nat.div_mul_le_self _ _
  have h2 : Q * D ≤ N := Nat.div_mul_le_self _ _
  -- D'·P·c' ≤ D
  have h3 : D' * P * c' ≤ D := by
    have : D' * P * c' * c ≤ D * c := by
      calc D' * P * c' * c = D' * (P * (c * c')) := by ring
        _ = D' * (P * B) := by rw [hc]
        _ ≤ D * c := h1
    exact Nat.le_of_mul_le_mul_right this hc0
  -- Q·D'·c' ≤ N/P
  have h4 : Q * D' * c' ≤ N / P := by
    rw [Nat.le_div_iff_mul_le hP]
    calc Q * D' * c' * P = Q * (D' * P * c') := by ring
      _ ≤ Q * D := Nat.mul_le_mul_left _ h3
      _ ≤ N := h2
  rw [Nat.le_div_iff_mul_le hD']
  calc B * Q * D' = Q * D' * c' * c := by rw [← hc]; ring
    _ ≤ N / P * c := Nat.mul_le_mul_right _ h4

/-- (b) the truncated estimate exceeds B·(⌊N/D⌋+1) by less than 2: N' < D'·(B·(Q+1) + 2).
    The "2" is 2·D'/B^(qn+1)-normalisation times the relative size (Q+1)/B^qn ≤ 1 of the quotient. -/
theorem trunc_upper (N D P c qn : Nat) (hP : 0 < P)
    (hnorm : B ^ (qn + 1) ≤ 2 * (D * c / (P * B))) (hND : N < D * B ^ qn) :
    N / P * c < D * c / (P * B) * (B * (N / D + 1) + 2) := by
  have hB := B_pos
  have hD0 : 0 < D := by
    rcases Nat.eq_zero_or_pos D with h | h
    · rw [h, Nat.zero_mul] at hND; exact absurd hND (Nat.not_lt_zero _)
    · exact h
  have hPB : 0 < P * B := Nat.mul_pos hP hB
  set D' := D * c / (P * B) with hD'def
  set Q := N / D with hQ
  -- N < (Q+1)·D
  have h1 : N < D * (Q + 1) := Nat.lt_mul_div_succ N hD0
  -- D·c < D'·(P·B) + P·B
  have h2 : D * c < P * B * (D' + 1) := Nat.lt_mul_div_succ (D * c) hPB
  -- (Q+1)·B ≤ 2·D'
  have h3 : (Q + 1) * B ≤ 2 * D' := by
    have : Q < B ^ qn := Nat.div_lt_of_lt_mul hND
    calc (Q + 1) * B ≤ B ^ qn * B := Nat.mul_le_mul_right _ this
      _ = B ^ (qn + 1) := by rw [pow_succ]
      _ ≤ 2 * D' := hnorm
  have h4 : N / P * P ≤ N := Nat.div_mul_le_self _ _
  apply Nat.lt_of_mul_lt_mul_right (a := P)
  -- N'·P ≤ N·c < (Q+1)·D·c ≤ (Q+1)·(D'·P·B + P·B − 1) and (Q+1)·B·P ≤ 2·D'·P
  have e1 : N / P * c * P ≤ N * c := by
    calc N / P * c * P = N / P * P * c := by ring
      _ ≤ N * c := Nat.mul_le_mul_right _ h4
  have e2 : N * c + c ≤ D * (Q + 1) * c := by
    have : (N + 1) * c ≤ D * (Q + 1) * c := Nat.mul_le_mul_right _ h1
    linarith
  have e3 : (Q + 1) * (D * c + 1) ≤ (Q + 1) * (P * B * (D' + 1)) := Nat.mul_le_mul_left _ h2
  have e4 : (Q + 1) * B * P ≤ 2 * D' * P := Nat.mul_le_mul_right _ h3
  rcases Nat.eq_zero_or_pos c with hc0 | hc0
  · -- c = 0 makes D' = 0, contradicting the normalisation
    rw [hc0, Nat.mul_zero, Nat.zero_div] at hD'def
    have : 0 < B ^ (qn + 1) := Nat.pow_pos hB
    omega
  · nlinarith [e1, e2, e3, e4]

/-- (a)+(b)+(c) for a callee with error at most E: the high part of the estimate is ⌊N/D⌋ or ⌊N/D⌋+1, and it can be
    ⌊N/D⌋+1 only if the guard limb Q' mod B is at most E+1. -/
theorem guard_budget (N D P c c' qn Q' E : Nat) (hP : 0 < P) (hc : c * c' = B)
    (hnorm : B ^ (qn + 1) ≤ 2 * (D * c / (P * B))) (hND : N < D * B ^ qn)
    (hlo : N / P * c / (D * c / (P * B)) ≤ Q') (hhi : Q' ≤ N / P * c / (D * c / (P * B)) + E)
    (hE : E + 1 < B) :
    N / D ≤ Q' / B ∧ Q' / B ≤ N / D + 1 ∧ (Q' / B = N / D + 1 → Q' % B ≤ E + 1) := by
  have hB := B_pos
  have hD' : 0 < D * c / (P * B) := by
    have : 0 < B ^ (qn + 1) := Nat.pow_pos hB
    omega
  have hl := trunc_lower N D P c c' hP hc hD'
  have hu := trunc_upper N D P c qn hP hnorm hND
  set D' := D * c / (P * B)
  set N' := N / P * c
  set Q := N / D
  have hu' : N' / D' < B * (Q + 1) + 2 := Nat.div_lt_of_lt_mul hu
  have hdm := Nat.div_add_mod Q' B
  refine ⟨?_, ?_, ?_⟩
  · rw [Nat.le_div_iff_mul_le hB]; linarith
  · have : Q' / B < Q + 2 := Nat.div_lt_of_lt_mul (by linarith)
    omega
  · intro h
    rw [h] at hdm
    linarith

/-- (c) tdiv_q.c:289: once the candidate Qh is ⌊N/D⌋ or ⌊N/D⌋+1, the comparison `N < D·Qh` decides the decrement -/
theorem cmp_decides (N D Qh : Nat) (hD : 0 < D) (h1 : N / D ≤ Qh) (h2 : Qh ≤ N / D + 1) :
    N < D * Qh ↔ Qh = N / D + 1 := by
  constructor
  · intro h
    rcases Nat.lt_or_ge (N / D) Qh with h3 | h3
    · omega
    · have : Qh = N / D := by omega
      rw [this] at h
      exact absurd h (Nat.not_lt.mpr (Nat.mul_div_le N D))
  · intro h; rw [h]; exact Nat.lt_mul_div_succ N hD

/-- the soundness of the constant 4 of tdiv_q.c:280 for a callee error E ≤ 3: a guard limb above 4 certifies the
    quotient, and otherwise the multiply-back compare decides -/
theorem guard_four (N D P c c' qn Q' E : Nat) (hP : 0 < P) (hc : c * c' = B)
    (hnorm : B ^ (qn + 1) ≤ 2 * (D * c / (P * B))) (hND : N < D * B ^ qn)
    (hlo : N / P * c / (D * c / (P * B)) ≤ Q') (hhi : Q' ≤ N / P * c / (D * c / (P * B)) + E)
    (hE : E ≤ 3) :
    (4 < Q' % B → Q' / B = N / D) ∧
    (if N < D * (Q' / B) then Q' / B - 1 else Q' / B) = N / D := by
  have hE' : E + 1 < B := by have := B_eq; omega
  obtain ⟨h1, h2, h3⟩ := guard_budget N D P c c' qn Q' E hP hc hnorm hND hlo hhi hE'
  have hD0 : 0 < D := by
    rcases Nat.eq_zero_or_pos D with h | h
    · rw [h, Nat.zero_mul] at hND; exact absurd hND (Nat.not_lt_zero _)
    · exact h
  have hc := cmp_decides N D (Q' / B) hD0 h1 h2
  refine ⟨?_, ?_⟩
  · intro hg
    rcases Nat.lt_or_ge (N / D) (Q' / B) with h | h
    · have := h3 (Nat.le_antisymm h2 h)
      exact absurd hg (by omega)
    · exact Nat.le_antisymm h h1
  · split
    · rename_i h; rw [hc.mp h]; rfl
    · rename_i h
      have h4 : ¬ (Q' / B = N / D + 1) := fun e => h (hc.mpr e)
      rcases Nat.lt_or_ge (N / D) (Q' / B) with h5 | h5
      · exact absurd (Nat.le_antisymm h2 h5) h4
      · exact Nat.le_antisymm h5 h1

/-- the bits shifted in at tdiv_q.c:215: ⌊D·c/(P·B)⌋ = ⌊D/(P·B)⌋·c + ⌊x/c'⌋ with x = the limb of D of weight P -/
theorem shift_in (D P c c' : Nat) (hP : 0 < P) (hc : c * c' = B) :
    D * c / (P * B) = D / (P * B) * c + (D / P % B) / c' := by
  have hB := B_pos
  have hc'0 : 0 < c' := by
    rcases Nat.eq_zero_or_pos c' with h | h
    · rw [h, Nat.mul_zero] at hc; exact absurd hc.symm (Nat.ne_of_gt hB)
    · exact h
  have hc0 : 0 < c := by
    rcases Nat.eq_zero_or_pos c with h | h
    · rw [h, Nat.zero_mul] at hc; exact absurd hc.symm (Nat.ne_of_gt hB)
    · exact h
  set x := D / P % B with hx
  have e1 : D = D / P * P + D % P := by rw [Nat.mul_comm]; exact (Nat.div_add_mod D P).symm
  have e2 : D / P = D / (P * B) * B + x := by
    rw [← Nat.div_div_eq_div_mul, Nat.mul_comm]; exact (Nat.div_add_mod (D / P) B).symm
  have e3 : x = x / c' * c' + x % c' := by rw [Nat.mul_comm]; exact (Nat.div_add_mod x c').symm
  have hl : D % P < P := Nat.mod_lt _ hP
  have hxl : x % c' < c' := Nat.mod_lt _ hc'0
  set Dh := D / (P * B)
  set Dl := D % P
  set xh := x / c'
  set xl := x % c'
  have key : D * c = (Dh * c + xh) * (P * B) + (xl * c * P + Dl * c) := by
    rw [e1, e2, e3, ← hc]; ring
  have hr : xl * c * P + Dl * c < P * B := by
    have a1 : (xl + 1) * (c * P) ≤ c' * (c * P) := Nat.mul_le_mul_right _ hxl
    have a2 : (Dl + 1) * c ≤ P * c := Nat.mul_le_mul_right _ hl
    rw [← hc]; nlinarith [a1, a2]
  have := Nat.div_eq_of_lt_le (k := Dh * c + xh) (m := D * c) (n := P * B)
    (by rw [key]; exact Nat.le_add_right _ _)
    (by rw [key, Nat.add_mul (Dh * c + xh) 1, Nat.one_mul]; exact Nat.add_lt_add_left hr _)
  exact this

end Mpir.TdivQ
