/- Helper lemmas for the value-level multiplication algorithms (Mpir/Model/MulAlgo.lean). -/
import MpirProofs.Lemmas.Base
import Mpir.Model.MulAlgo
import Mathlib.Tactic.Ring
import Mathlib.Tactic.Linarith
import Mathlib.Tactic.LinearCombination
namespace Mpir.MulAlgo

theorem absDiff_ge {a b : Nat} (h : a ≥ b) : absDiff a b = a - b := by simp [absDiff, h]
theorem absDiff_lt {a b : Nat} (h : ¬ a ≥ b) : absDiff a b = b - a := by simp [absDiff, h]

/-- Karatsuba recombination, the four sign cases of mul_n.c:161-222. -/
theorem kara_combine (W xl xh yl yh : Nat) :
    (if ((if xh ≥ xl then (1:Int) else -1) * (if yh ≥ yl then 1 else -1) * (-1)) = -1
     then xl * yl + W ^ 2 * (xh * yh) + W * (xl * yl + xh * yh - absDiff xh xl * absDiff yh yl)
     else xl * yl + W ^ 2 * (xh * yh) + W * (xl * yl + xh * yh + absDiff xh xl * absDiff yh yl))
    = (xl + W * xh) * (yl + W * yh) := by
  by_cases hx : xh ≥ xl <;> by_cases hy : yh ≥ yl
  · obtain ⟨a, rfl⟩ := Nat.exists_eq_add_of_le hx
    obtain ⟨b, rfl⟩ := Nat.exists_eq_add_of_le hy
    simp only [absDiff_ge hx, absDiff_ge hy, hx, hy, if_true, Nat.add_sub_cancel_left]
    have : xl * yl + (xl + a) * (yl + b) - a * b = 2 * (xl * yl) + xl * b + a * yl := by
      apply Nat.sub_eq_of_eq_add; ring
    norm_num
    rw [this]; ring
  · have hy' : yh ≤ yl := by omega
    obtain ⟨a, rfl⟩ := Nat.exists_eq_add_of_le hx
    obtain ⟨b, rfl⟩ := Nat.exists_eq_add_of_le hy'
    simp only [absDiff_ge hx, absDiff_lt hy, hx, hy, if_true, if_false, Nat.add_sub_cancel_left]
    norm_num
    ring
  · have hx' : xh ≤ xl := by omega
    obtain ⟨a, rfl⟩ := Nat.exists_eq_add_of_le hx'
    obtain ⟨b, rfl⟩ := Nat.exists_eq_add_of_le hy
    simp only [absDiff_lt hx, absDiff_ge hy, hx, hy, if_true, if_false, Nat.add_sub_cancel_left]
    norm_num
    ring
  · have hx' : xh ≤ xl := by omega
    have hy' : yh ≤ yl := by omega
    obtain ⟨a, rfl⟩ := Nat.exists_eq_add_of_le hx'
    obtain ⟨b, rfl⟩ := Nat.exists_eq_add_of_le hy'
    simp only [absDiff_lt hx, absDiff_lt hy, hx, hy, if_false, Nat.add_sub_cancel_left]
    have : (xh + a) * (yh + b) + xh * yh - a * b = 2 * (xh * yh) + xh * b + a * yh := by
      apply Nat.sub_eq_of_eq_add; ring
    norm_num
    rw [this]; ring

/-- `mpn_kara_mul_n` returns the product for every n ≥ 2 and every recursion threshold T ≥ 3
    (strong induction on n; the recursion of mul_n.c:214-216 is modelled, not assumed). -/
theorem kara_mul_n_eq (T : Nat) (hT : 3 ≤ T) : ∀ (n : Nat), 2 ≤ n → ∀ x y, kara_mul_n T x y n = some (x * y) := by
  intro n
  induction n using Nat.strong_induction_on with
  | _ n ih =>
    intro hn x y
    rw [kara_mul_n]
    have hn2 : ¬ n < 2 := by omega
    simp only [hn2, dite_false]
    have hx : x = x % B ^ (n / 2) + B ^ (n / 2) * (x / B ^ (n / 2)) := (Nat.mod_add_div x _).symm
    have hy : y = y % B ^ (n / 2) + B ^ (n / 2) * (y / B ^ (n / 2)) := (Nat.mod_add_div y _).symm
    have hpow : B ^ (2 * (n / 2)) = (B ^ (n / 2)) ^ 2 := by ring
    have key := kara_combine (B ^ (n / 2)) (x % B ^ (n / 2)) (x / B ^ (n / 2)) (y % B ^ (n / 2)) (y / B ^ (n / 2))
    by_cases hb : n - n / 2 < T
    · simp only [hb, if_true, hpow]
      generalize ((if x / B ^ (n / 2) ≥ x % B ^ (n / 2) then (1:Int) else -1) * (if y / B ^ (n / 2) ≥ y % B ^ (n / 2) then 1 else -1) * (-1)) = c at key ⊢
      by_cases hs : c = -1
      · rw [if_pos hs] at key ⊢; rw [key, ← hx, ← hy]
      · rw [if_neg hs] at key ⊢; rw [key, ← hx, ← hy]
    · have h1 : n / 2 < n := by omega
      have h2 : n - n / 2 < n := by omega
      have g1 : 2 ≤ n / 2 := by omega
      have g2 : 2 ≤ n - n / 2 := by omega
      simp only [hb, if_false, h1, h2, dite_true, ih _ h1 g1, ih _ h2 g2, hpow]
      generalize ((if x / B ^ (n / 2) ≥ x % B ^ (n / 2) then (1:Int) else -1) * (if y / B ^ (n / 2) ≥ y % B ^ (n / 2) then 1 else -1) * (-1)) = c at key ⊢
      by_cases hs : c = -1
      · rw [if_pos hs] at key ⊢; rw [key, ← hx, ← hy]
      · rw [if_neg hs] at key ⊢; rw [key, ← hx, ← hy]

/-! ### interpolation sequences -/

/-- toom3_mul.c:69-187 — the five-point sequence returns the coefficients; every exact division is exact. -/
theorem toom3Interp_spec (c0 c1 c2 c3 c4 vm1 sa : Int)
    (hs : (if sa < 0 then -vm1 else vm1) = c0 - c1 + c2 - c3 + c4) :
    (toom3Interp c0 (c0 + c1 + c2 + c3 + c4) (c0 + 2 * c1 + 4 * c2 + 8 * c3 + 16 * c4) vm1 c4 sa).coeffs
      = [c0, c1, c2, c3, c4] ∧
    ∀ p ∈ (toom3Interp c0 (c0 + c1 + c2 + c3 + c4) (c0 + 2 * c1 + 4 * c2 + 8 * c3 + 16 * c4) vm1 c4 sa).divs, p.2 ∣ p.1 := by
  unfold toom3Interp
  by_cases h : sa < 0 <;> simp only [h, if_true, if_false] at hs ⊢ <;> refine ⟨?_, ?_⟩
  · simp only [List.cons.injEq, and_true]; refine ⟨trivial, ?_, ?_, ?_⟩ <;> omega
  · intro p hp
    simp only [List.mem_cons, List.mem_nil_iff, or_false] at hp
    rcases hp with rfl | rfl | rfl <;> simp only <;> omega
  · simp only [List.cons.injEq, and_true]; refine ⟨trivial, ?_, ?_, ?_⟩ <;> omega
  · intro p hp
    simp only [List.mem_cons, List.mem_nil_iff, or_false] at hp
    rcases hp with rfl | rfl | rfl <;> simp only <;> omega

theorem toom3Interp_coeffs {v0 v1 v2 vm1 vinf sa c0 c1 c2 c3 c4 : Int} (h0 : v0 = c0)
    (h1 : v1 = c0 + c1 + c2 + c3 + c4) (h2 : v2 = c0 + 2 * c1 + 4 * c2 + 8 * c3 + 16 * c4)
    (hm : (if sa < 0 then -vm1 else vm1) = c0 - c1 + c2 - c3 + c4) (hi : vinf = c4) :
    (toom3Interp v0 v1 v2 vm1 vinf sa).coeffs = [c0, c1, c2, c3, c4] := by
  subst h0 h1 h2 hi; exact (toom3Interp_spec _ _ _ _ _ _ _ hm).1

/-- toom3_mul.c:728-811 — the four-point sequence of mpn_toom32_mul. -/
theorem toom32Interp_spec (c0 c1 c2 c3 vm1 sa : Int)
    (hs : (if sa > 0 then vm1 else -vm1) = c0 - c1 + c2 - c3) :
    (toom32Interp c0 (c0 + c1 + c2 + c3) vm1 c3 sa).coeffs = [c0, c1, c2, c3] ∧
    ∀ p ∈ (toom32Interp c0 (c0 + c1 + c2 + c3) vm1 c3 sa).divs, p.2 ∣ p.1 := by
  unfold toom32Interp
  by_cases h : sa > 0 <;> simp only [h, if_true, if_false] at hs ⊢ <;> refine ⟨?_, ?_⟩
  · simp only [List.cons.injEq, and_true]; refine ⟨trivial, ?_, ?_⟩ <;> omega
  · intro p hp
    simp only [List.mem_cons, List.mem_nil_iff, or_false] at hp
    rcases hp with rfl <;> simp only <;> omega
  · simp only [List.cons.injEq, and_true]; refine ⟨trivial, ?_, ?_⟩ <;> omega
  · intro p hp
    simp only [List.mem_cons, List.mem_nil_iff, or_false] at hp
    rcases hp with rfl <;> simp only <;> omega

theorem toom32Interp_coeffs {v0 v1 vm1 vinf sa c0 c1 c2 c3 : Int} (h0 : v0 = c0)
    (h1 : v1 = c0 + c1 + c2 + c3) (hm : (if sa > 0 then vm1 else -vm1) = c0 - c1 + c2 - c3) (hi : vinf = c3) :
    (toom32Interp v0 v1 vm1 vinf sa).coeffs = [c0, c1, c2, c3] := by
  subst h0 h1 hi; exact (toom32Interp_spec _ _ _ _ _ _ hm).1

/-- toom4_mul_n.c:852-976 — the seven-point sequence: coefficients, exactness of the eight divisions
    (by 2, 8, 3, 2, 3, 3, 15, 4), and non-negativity of the three values that are shifted *logically*
    (`mpn_rshift` at :925, :937, :956) whenever the product coefficients c1, c2, c5 are non-negative. -/
theorem toom4Interp_spec (c0 c1 c2 c3 c4 c5 c6 r4 r6 : Int) (n4 n6 : Bool)
    (h4 : (if n4 then -r4 else r4) = c0 - c1 + c2 - c3 + c4 - c5 + c6)
    (h6 : (if n6 then -r6 else r6) = 64 * c0 - 32 * c1 + 16 * c2 - 8 * c3 + 4 * c4 - 2 * c5 + c6) :
    let r := toom4Interp c6 (c0 + 2 * c1 + 4 * c2 + 8 * c3 + 16 * c4 + 32 * c5 + 64 * c6) (c0 + c1 + c2 + c3 + c4 + c5 + c6) r4
        (64 * c0 + 32 * c1 + 16 * c2 + 8 * c3 + 4 * c4 + 2 * c5 + c6) r6 c0 n4 n6
    r.coeffs = [c0, c1, c2, c3, c4, c5, c6] ∧ (∀ p ∈ r.divs, p.2 ∣ p.1) ∧
    (0 ≤ c1 → 0 ≤ c2 → 0 ≤ c5 → ∀ p ∈ r.shifts, 0 ≤ p.1) := by
  unfold toom4Interp
  extract_lets a2 a6 a4 a5 b5 d1 b4 a3 c5' e5 b2 b3 c2' f5 d2 g5 d3 h5 b6 e2 d4 f2 d5 g2 d6 h2 c3' c4' c6' d7 e6 d8 f6 i2 r
  have h_a6 : a6 = 64 * c1 + 16 * c3 + 4 * c5 := by
    simp only [a6]; cases n6 <;> simp only [if_true, if_false, Bool.false_eq_true] at h6 ⊢ <;> omega
  have h_a4 : a4 = 2 * (c1 + c3 + c5) := by
    simp only [a4]; cases n4 <;> simp only [if_true, if_false, Bool.false_eq_true] at h4 ⊢ <;> omega
  clear_value a6 a4
  have h_b4 : b4 = c1 + c3 + c5 := by show a4 / 2 = _; omega
  have h_b5 : b5 = 32 * c1 + 16 * c2 + 8 * c3 + 4 * c4 + 2 * c5 := by show (_ - c6) - 64 * c0 = _; omega
  clear_value b4 b5
  have h_a3 : a3 = c0 + c2 + c4 + c6 := by show _ - b4 = _; omega
  have h_e5 : e5 = 32 * c2 + 8 * c4 := by show 2 * b5 - a6 = _; omega
  clear_value a3 e5
  have h_b3 : b3 = c2 + c4 := by show a3 - c0 - c6 = _; omega
  have h_c2 : c2' = 34 * c1 + 16 * c3 + 34 * c5 := by show (_ + _ - 65 * a3) + 45 * b3 = _; omega
  clear_value c2'
  have h_f5 : f5 = 24 * c2 := by show e5 - 8 * b3 = _; omega
  clear_value b3 f5
  have h_g5 : g5 = 3 * c2 := by show f5 / 8 = _; omega
  clear_value g5
  have h_h5 : h5 = c2 := by show g5 / 3 = _; omega
  have h_b6 : b6 = 30 * c1 - 30 * c5 := by show a6 - c2' = _; omega
  have h_e2 : e2 = 18 * c1 + 18 * c5 := by show c2' - 16 * b4 = _; omega
  clear_value h5 b6 e2
  have h_f2 : f2 = 9 * c1 + 9 * c5 := by show e2 / 2 = _; omega
  clear_value f2
  have h_g2 : g2 = 3 * c1 + 3 * c5 := by show f2 / 3 = _; omega
  clear_value g2
  have h_h2 : h2 = c1 + c5 := by show g2 / 3 = _; omega
  clear_value h2
  have h_c3 : c3' = c4 := by show b3 - h5 = _; omega
  have h_c4 : c4' = c3 := by show b4 - h2 = _; omega
  have h_c6 : c6' = 60 * c1 := by show b6 + 30 * h2 = _; omega
  clear_value c3' c4' c6'
  have h_e6 : e6 = 4 * c1 := by show c6' / 15 = _; omega
  clear_value e6
  have h_f6 : f6 = c1 := by show e6 / 4 = _; omega
  clear_value f6
  have h_i2 : i2 = c5 := by show h2 - f6 = _; omega
  clear_value i2
  refine ⟨?_, ?_, ?_⟩
  · simp only [r, h_f6, h_h5, h_c4, h_c3, h_i2]
  · intro p hp
    simp only [r, List.mem_cons, List.mem_nil_iff, or_false] at hp
    rcases hp with rfl | rfl | rfl | rfl | rfl | rfl | rfl | rfl <;> simp only [d1, d2, d3, d4, d5, d6, d7, d8] <;> omega
  · intro p1 p2 p5 p hp
    simp only [r, List.mem_cons, List.mem_nil_iff, or_false] at hp
    rcases hp with rfl | rfl | rfl <;> simp only [d2, d4, d8] <;> omega

theorem toom4Interp_coeffs {r1 r2 r3 r4 r5 r6 r7 c0 c1 c2 c3 c4 c5 c6 : Int} {n4 n6 : Bool}
    (h1 : r1 = c6) (h2 : r2 = c0 + 2 * c1 + 4 * c2 + 8 * c3 + 16 * c4 + 32 * c5 + 64 * c6)
    (h3 : r3 = c0 + c1 + c2 + c3 + c4 + c5 + c6)
    (h4 : (if n4 then -r4 else r4) = c0 - c1 + c2 - c3 + c4 - c5 + c6)
    (h5 : r5 = 64 * c0 + 32 * c1 + 16 * c2 + 8 * c3 + 4 * c4 + 2 * c5 + c6)
    (h6 : (if n6 then -r6 else r6) = 64 * c0 - 32 * c1 + 16 * c2 - 8 * c3 + 4 * c4 - 2 * c5 + c6)
    (h7 : r7 = c0) :
    (toom4Interp r1 r2 r3 r4 r5 r6 r7 n4 n6).coeffs = [c0, c1, c2, c3, c4, c5, c6] := by
  subst h1 h2 h3 h5 h7; exact (toom4Interp_spec _ _ _ _ _ _ _ _ _ _ _ h4 h6).1

/-! ### signs of the evaluations at negative points -/

/-- toom3 family: `sa = cmp`, magnitudes `|p - q|`, `sa *= sb`; tested as `sa < 0`. -/
theorem cmpS_signed (p q p' q' : Nat) :
    (if cmpS p q * cmpS p' q' < 0
      then -(((if cmpS p q ≥ 0 then p - q else q - p) * (if cmpS p' q' ≥ 0 then p' - q' else q' - p') : Nat) : Int)
      else (((if cmpS p q ≥ 0 then p - q else q - p) * (if cmpS p' q' ≥ 0 then p' - q' else q' - p') : Nat) : Int))
    = ((p : Int) - q) * ((p' : Int) - q') := by
  unfold cmpS
  rcases Nat.lt_trichotomy p q with h | h | h <;> rcases Nat.lt_trichotomy p' q' with h' | h' | h'
  all_goals first
    | (subst h; simp)
    | (subst h'; simp)
    | skip
  · have e1 : ¬ p > q := by omega
    have e2 : ¬ p' > q' := by omega
    simp only [e1, e2, h, h', if_true, if_false]
    norm_num
    rw [Nat.cast_sub (le_of_lt h), Nat.cast_sub (le_of_lt h')]; ring
  · have e1 : ¬ p > q := by omega
    have e2 : p' > q' := h'
    have e3 : ¬ p' < q' := by omega
    simp only [e1, e2, e3, h, if_true, if_false]
    norm_num
    rw [Nat.cast_sub (le_of_lt h), Nat.cast_sub (le_of_lt h')]; ring
  · have e1 : p > q := h
    have e2 : ¬ p' > q' := by omega
    have e3 : ¬ p < q := by omega
    simp only [e1, e2, e3, h', if_true, if_false]
    norm_num
    rw [Nat.cast_sub (le_of_lt h), Nat.cast_sub (le_of_lt h')]; ring
  · have e1 : p > q := h
    have e2 : p' > q' := h'
    simp only [e1, e2, if_true]
    norm_num
    rw [Nat.cast_sub (le_of_lt h), Nat.cast_sub (le_of_lt h')]

/-- toom32: the same magnitudes, tested as `sa > 0` (toom3_mul.c:728). -/
theorem cmpS_signed_pos (p q p' q' : Nat) :
    (if cmpS p q * cmpS p' q' > 0
      then (((if cmpS p' q' ≥ 0 then p' - q' else q' - p') * (if cmpS p q ≥ 0 then p - q else q - p) : Nat) : Int)
      else -(((if cmpS p' q' ≥ 0 then p' - q' else q' - p') * (if cmpS p q ≥ 0 then p - q else q - p) : Nat) : Int))
    = ((p : Int) - q) * ((p' : Int) - q') := by
  unfold cmpS
  rcases Nat.lt_trichotomy p q with h | h | h <;> rcases Nat.lt_trichotomy p' q' with h' | h' | h'
  all_goals first
    | (subst h; simp)
    | (subst h'; simp)
    | skip
  · have e1 : ¬ p > q := by omega
    have e2 : ¬ p' > q' := by omega
    simp only [e1, e2, h, h', if_true, if_false]
    norm_num
    rw [Nat.cast_sub (le_of_lt h), Nat.cast_sub (le_of_lt h')]; ring
  · have e1 : ¬ p > q := by omega
    have e2 : p' > q' := h'
    have e3 : ¬ p' < q' := by omega
    simp only [e1, e2, e3, h, if_true, if_false]
    norm_num
    rw [Nat.cast_sub (le_of_lt h), Nat.cast_sub (le_of_lt h')]; ring
  · have e1 : p > q := h
    have e2 : ¬ p' > q' := by omega
    have e3 : ¬ p < q := by omega
    simp only [e1, e2, e3, h', if_true, if_false]
    norm_num
    rw [Nat.cast_sub (le_of_lt h), Nat.cast_sub (le_of_lt h')]; ring
  · have e1 : p > q := h
    have e2 : p' > q' := h'
    simp only [e1, e2, if_true]
    norm_num
    rw [Nat.cast_sub (le_of_lt h), Nat.cast_sub (le_of_lt h')]; ring

/-- toom4 family: magnitudes by `absDiff`, sign flags `n = -n` when the subtrahend was larger, combined
    by MUL_TC4 (`sign = n1 ^ n2`, result size 0 when the product vanishes). -/
theorem absDiff_signed (p q p' q' : Nat) :
    (if ((decide (p < q) != decide (p' < q')) && (absDiff p q * absDiff p' q' != 0)) = true
      then -((absDiff p q * absDiff p' q' : Nat) : Int) else ((absDiff p q * absDiff p' q' : Nat) : Int))
    = ((p : Int) - q) * ((p' : Int) - q') := by
  unfold absDiff
  rcases Nat.lt_trichotomy p q with h | h | h <;> rcases Nat.lt_trichotomy p' q' with h' | h' | h'
  all_goals first
    | (subst h; simp)
    | (subst h'; simp)
    | skip
  · have e1 : ¬ p ≥ q := by omega
    have e2 : ¬ p' ≥ q' := by omega
    simp only [e1, e2, h, h', if_false, decide_true, bne_self_eq_false, Bool.false_and, Bool.false_eq_true]
    rw [Nat.cast_mul, Nat.cast_sub (le_of_lt h), Nat.cast_sub (le_of_lt h')]; ring
  · have e1 : ¬ p ≥ q := by omega
    have e2 : p' ≥ q' := by omega
    have e3 : ¬ p' < q' := by omega
    have nz : (q - p) * (p' - q') ≠ 0 := Nat.mul_ne_zero (by omega) (by omega)
    simp only [e1, e2, e3, h, if_true, if_false, decide_true, decide_false]
    rw [if_pos (by rw [Bool.and_eq_true]; exact ⟨by decide, by simpa using nz⟩)]
    rw [Nat.cast_mul, Nat.cast_sub (le_of_lt h), Nat.cast_sub (le_of_lt h')]; ring
  · have e1 : p ≥ q := by omega
    have e2 : ¬ p' ≥ q' := by omega
    have e3 : ¬ p < q := by omega
    have nz : (p - q) * (q' - p') ≠ 0 := Nat.mul_ne_zero (by omega) (by omega)
    simp only [e1, e2, e3, h', if_true, if_false, decide_true, decide_false]
    rw [if_pos (by rw [Bool.and_eq_true]; exact ⟨by decide, by simpa using nz⟩)]
    rw [Nat.cast_mul, Nat.cast_sub (le_of_lt h), Nat.cast_sub (le_of_lt h')]; ring
  · have e1 : p ≥ q := by omega
    have e2 : p' ≥ q' := by omega
    have e3 : ¬ p < q := by omega
    have e4 : ¬ p' < q' := by omega
    simp only [e1, e2, e3, e4, if_true, decide_false, bne_self_eq_false, Bool.false_and, Bool.false_eq_true, if_false]
    rw [Nat.cast_mul, Nat.cast_sub (le_of_lt h), Nat.cast_sub (le_of_lt h')]

/-! ### splitting at limb boundaries -/

theorem split2 (a t : Nat) : a = a % t + t * (a / t) := (Nat.mod_add_div a t).symm

theorem split3 (a t : Nat) : a = a % t + t * (a / t % t) + t ^ 2 * (a / t ^ 2) := by
  have h1 := Nat.mod_add_div a t
  have h2 := Nat.mod_add_div (a / t) t
  have h3 : a / t ^ 2 = a / t / t := by rw [pow_two, Nat.div_div_eq_div_mul]
  rw [h3]
  generalize a / t / t = y2 at *
  generalize a / t % t = x1 at *
  generalize a / t = y1 at *
  generalize a % t = x0 at *
  subst h1; subst h2; ring

theorem split4 (a t : Nat) : a = a % t + t * (a / t % t) + t ^ 2 * (a / t ^ 2 % t) + t ^ 3 * (a / t ^ 3) := by
  have h := split3 a t
  have h2 := Nat.mod_add_div (a / t ^ 2) t
  have h3 : a / t ^ 3 = a / t ^ 2 / t := by rw [pow_succ t 2, Nat.div_div_eq_div_mul]
  rw [h3]
  generalize a / t ^ 2 / t = y3 at *
  generalize a / t ^ 2 % t = x2 at *
  generalize a / t ^ 2 = y2 at *
  generalize a / t % t = x1 at *
  generalize a % t = x0 at *
  subst h2; rw [h]; ring

theorem split5 (a t : Nat) :
    a = a % t + t * (a / t % t) + t ^ 2 * (a / t ^ 2 % t) + t ^ 3 * (a / t ^ 3 % t) + t ^ 4 * (a / t ^ 4) := by
  have h := split4 a t
  have h2 := Nat.mod_add_div (a / t ^ 3) t
  have h3 : a / t ^ 4 = a / t ^ 3 / t := by rw [pow_succ t 3, Nat.div_div_eq_div_mul]
  rw [h3]
  generalize a / t ^ 3 / t = y4 at *
  generalize a / t ^ 3 % t = x3 at *
  generalize a / t ^ 3 = y3 at *
  generalize a / t ^ 2 % t = x2 at *
  generalize a / t % t = x1 at *
  generalize a % t = x0 at *
  subst h2; rw [h]; ring

/-! ### the complete routines -/

theorem toom3_mul_eq (mul : Nat → Nat → Nat) (hmul : ∀ x y, mul x y = x * y) (a an b bn : Nat) :
    toom3_mul mul a an b bn = a * b := by
  obtain rfl : mul = fun x y => x * y := by funext x y; exact hmul x y
  unfold toom3_mul
  extract_lets k t a0 a1 a2 b0 b1 b2 sa02 sb02 v1 sa sb da db s vm1 ea eb v2 v0 vinf
  have ha : a = a0 + t * a1 + t ^ 2 * a2 := split3 a t
  have hb : b = b0 + t * b1 + t ^ 2 * b2 := split3 b t
  have hm := cmpS_signed sa02 a1 sb02 b1
  clear_value a0 a1 a2 b0 b1 b2
  have hc := toom3Interp_coeffs (v0 := (v0 : Int)) (v1 := v1) (v2 := v2) (vm1 := vm1) (vinf := vinf) (sa := s)
    (c0 := (a0 : Int) * b0) (c1 := (a0 : Int) * b1 + a1 * b0) (c2 := (a0 : Int) * b2 + a1 * b1 + a2 * b0)
    (c3 := (a1 : Int) * b2 + a2 * b1) (c4 := (a2 : Int) * b2)
    (by simp only [v0]; push_cast; ring) (by simp only [v1, sa02, sb02]; push_cast; ring)
    (by simp only [v2, ea, eb]; push_cast; ring)
    (by rw [show (vm1 : Int) = ((da * db : Nat) : Int) from rfl]; simp only [s, sa, sb, da, db]; rw [hm]; simp only [sa02, sb02]; push_cast; ring)
    (by simp only [vinf]; push_cast; ring)
  unfold recompose
  rw [hc]
  simp only [evalAt]
  subst ha hb
  have : ((a0 : Int) * b0 + (B : Int) ^ k * ((a0 : Int) * b1 + a1 * b0 + (B : Int) ^ k * ((a0 : Int) * b2 + a1 * b1 + a2 * b0 + (B : Int) ^ k * ((a1 : Int) * b2 + a2 * b1 + (B : Int) ^ k * ((a2 : Int) * b2 + (B : Int) ^ k * 0)))))
      = (((a0 + t * a1 + t ^ 2 * a2) * (b0 + t * b1 + t ^ 2 * b2) : Nat) : Int) := by
    simp only [t]; push_cast; ring
  rw [this, Int.toNat_natCast]

theorem toom42_mul_eq (mul : Nat → Nat → Nat) (hmul : ∀ x y, mul x y = x * y) (a an b bn : Nat) :
    toom42_mul mul a an b bn = a * b := by
  obtain rfl : mul = fun x y => x * y := by funext x y; exact hmul x y
  unfold toom42_mul
  extract_lets k t a0 a1 a2 a3 b0 b1 e o sb01 v1 sa da sb db s vm1 ea eb v2 v0 vinf
  have ha : a = a0 + t * a1 + t ^ 2 * a2 + t ^ 3 * a3 := split4 a t
  have hb : b = b0 + t * b1 := split2 b t
  have hm := cmpS_signed e o b0 b1
  clear_value a0 a1 a2 a3 b0 b1
  have hc := toom3Interp_coeffs (v0 := (v0 : Int)) (v1 := v1) (v2 := v2) (vm1 := vm1) (vinf := vinf) (sa := s)
    (c0 := (a0 : Int) * b0) (c1 := (a0 : Int) * b1 + a1 * b0) (c2 := (a1 : Int) * b1 + a2 * b0)
    (c3 := (a2 : Int) * b1 + a3 * b0) (c4 := (a3 : Int) * b1)
    (by simp only [v0]; push_cast; ring) (by simp only [v1, e, o, sb01]; push_cast; ring)
    (by simp only [v2, ea, eb]; push_cast; ring)
    (by rw [show (vm1 : Int) = ((da * db : Nat) : Int) from rfl]; simp only [s, sa, sb, da, db]; rw [hm]; simp only [e, o]; push_cast; ring)
    (by simp only [vinf]; push_cast; ring)
  unfold recompose
  rw [hc]
  simp only [evalAt]
  subst ha hb
  have : ((a0 : Int) * b0 + (B : Int) ^ k * ((a0 : Int) * b1 + a1 * b0 + (B : Int) ^ k * ((a1 : Int) * b1 + a2 * b0 + (B : Int) ^ k * ((a2 : Int) * b1 + a3 * b0 + (B : Int) ^ k * ((a3 : Int) * b1 + (B : Int) ^ k * 0)))))
      = (((a0 + t * a1 + t ^ 2 * a2 + t ^ 3 * a3) * (b0 + t * b1) : Nat) : Int) := by
    simp only [t]; push_cast; ring
  rw [this, Int.toNat_natCast]

theorem toom32_mul_eq (mul : Nat → Nat → Nat) (hmul : ∀ x y, mul x y = x * y) (a an b bn : Nat) :
    toom32_mul mul a an b bn = a * b := by
  obtain rfl : mul = fun x y => x * y := by funext x y; exact hmul x y
  unfold toom32_mul
  extract_lets k t a0 a1 a2 b0 b1 sa02 v1 sa da sb db s vm1 vinf v0
  have ha : a = a0 + t * a1 + t ^ 2 * a2 := split3 a t
  have hb : b = b0 + t * b1 := split2 b t
  have hm := cmpS_signed_pos sa02 a1 b0 b1
  clear_value a0 a1 a2 b0 b1
  have hc := toom32Interp_coeffs (v0 := (v0 : Int)) (v1 := v1) (vm1 := vm1) (vinf := vinf) (sa := s)
    (c0 := (a0 : Int) * b0) (c1 := (a0 : Int) * b1 + a1 * b0) (c2 := (a1 : Int) * b1 + a2 * b0) (c3 := (a2 : Int) * b1)
    (by simp only [v0]; push_cast; ring) (by simp only [v1, sa02]; push_cast; ring)
    (by rw [show (vm1 : Int) = ((db * da : Nat) : Int) from rfl]; simp only [s, sa, sb, da, db]; rw [hm]; simp only [sa02]; push_cast; ring)
    (by simp only [vinf]; push_cast; ring)
  unfold recompose
  rw [hc]
  simp only [evalAt]
  subst ha hb
  have : ((a0 : Int) * b0 + (B : Int) ^ k * ((a0 : Int) * b1 + a1 * b0 + (B : Int) ^ k * ((a1 : Int) * b1 + a2 * b0 + (B : Int) ^ k * ((a2 : Int) * b1 + (B : Int) ^ k * 0))))
      = (((a0 + t * a1 + t ^ 2 * a2) * (b0 + t * b1) : Nat) : Int) := by
    simp only [t]; push_cast; ring
  rw [this, Int.toNat_natCast]

theorem toom4_mul_eq (mul : Nat → Nat → Nat) (hmul : ∀ x y, mul x y = x * y) (a un b vn : Nat) :
    toom4_mul mul a un b vn = a * b := by
  obtain rfl : mul = fun x y => x * y := by funext x y; exact hmul x y
  unfold toom4_mul
  extract_lets sn t a0 a1 a2 a3 b0 b1 b2 b3 ao ae u3 u4 s4 bo be w2 u5 s5 r3 r4 n4neg ah al u5' u6 s6 bh bl u2 w8 s8 r5 r6 n6neg e2a e2b r2 r1 r7
  have ha : a = a0 + t * a1 + t ^ 2 * a2 + t ^ 3 * a3 := split4 a t
  have hb : b = b0 + t * b1 + t ^ 2 * b2 + t ^ 3 * b3 := split4 b t
  have hm4 := absDiff_signed ae ao be bo
  have hm6 := absDiff_signed ah al bh bl
  clear_value a0 a1 a2 a3 b0 b1 b2 b3
  have hc := toom4Interp_coeffs (r1 := (r1 : Int)) (r2 := r2) (r3 := r3) (r4 := r4) (r5 := r5) (r6 := r6) (r7 := r7)
    (n4 := n4neg) (n6 := n6neg)
    (c0 := (a0 : Int) * b0) (c1 := (a0 : Int) * b1 + a1 * b0) (c2 := (a0 : Int) * b2 + a1 * b1 + a2 * b0)
    (c3 := (a0 : Int) * b3 + a1 * b2 + a2 * b1 + a3 * b0) (c4 := (a1 : Int) * b3 + a2 * b2 + a3 * b1)
    (c5 := (a2 : Int) * b3 + a3 * b2) (c6 := (a3 : Int) * b3)
    (by simp only [r1]; push_cast; ring) (by simp only [r2, e2a, e2b]; push_cast; ring)
    (by simp only [r3, u3, w2, ae, ao, be, bo]; push_cast; ring)
    (by rw [show (r4 : Int) = ((u4 * u5 : Nat) : Int) from rfl]; simp only [n4neg, s4, s5, r4, u4, u5]; rw [hm4]; simp only [ae, ao, be, bo]; push_cast; ring)
    (by simp only [r5, u5', u2, ah, al, bh, bl]; push_cast; ring)
    (by rw [show (r6 : Int) = ((u6 * w8 : Nat) : Int) from rfl]; simp only [n6neg, s6, s8, r6, u6, w8]; rw [hm6]; simp only [ah, al, bh, bl]; push_cast; ring)
    (by simp only [r7]; push_cast; ring)
  unfold recompose
  rw [hc]
  simp only [evalAt]
  subst ha hb
  have : ((a0 : Int) * b0 + (B : Int) ^ sn * ((a0 : Int) * b1 + a1 * b0 + (B : Int) ^ sn * ((a0 : Int) * b2 + a1 * b1 + a2 * b0 + (B : Int) ^ sn * ((a0 : Int) * b3 + a1 * b2 + a2 * b1 + a3 * b0 + (B : Int) ^ sn * ((a1 : Int) * b3 + a2 * b2 + a3 * b1 + (B : Int) ^ sn * ((a2 : Int) * b3 + a3 * b2 + (B : Int) ^ sn * ((a3 : Int) * b3 + (B : Int) ^ sn * 0)))))))
      = (((a0 + t * a1 + t ^ 2 * a2 + t ^ 3 * a3) * (b0 + t * b1 + t ^ 2 * b2 + t ^ 3 * b3) : Nat) : Int) := by
    simp only [t]; push_cast; ring
  rw [this, Int.toNat_natCast]

theorem toom53_mul_eq (mul : Nat → Nat → Nat) (hmul : ∀ x y, mul x y = x * y) (a un b vn : Nat) :
    toom53_mul mul a un b vn = a * b := by
  obtain rfl : mul = fun x y => x * y := by funext x y; exact hmul x y
  unfold toom53_mul
  extract_lets sn t a0 a1 a2 a3 a4 b0 b1 b2 ao ae u3 u4 s4 be w8 u5 s5 r3 r4 n4neg ah al u5' u3' s9 bh bl u2 w8' s8 r5 r6 n6neg e2a e2b r2 r1 r7
  have ha : a = a0 + t * a1 + t ^ 2 * a2 + t ^ 3 * a3 + t ^ 4 * a4 := split5 a t
  have hb : b = b0 + t * b1 + t ^ 2 * b2 := split3 b t
  have hm4 := absDiff_signed ae ao be b1
  have hm6 := absDiff_signed ah al bh bl
  clear_value a0 a1 a2 a3 a4 b0 b1 b2
  have hc := toom4Interp_coeffs (r1 := (r1 : Int)) (r2 := r2) (r3 := r3) (r4 := r4) (r5 := r5) (r6 := r6) (r7 := r7)
    (n4 := n4neg) (n6 := n6neg)
    (c0 := (a0 : Int) * b0) (c1 := (a0 : Int) * b1 + a1 * b0) (c2 := (a0 : Int) * b2 + a1 * b1 + a2 * b0)
    (c3 := (a1 : Int) * b2 + a2 * b1 + a3 * b0) (c4 := (a2 : Int) * b2 + a3 * b1 + a4 * b0)
    (c5 := (a3 : Int) * b2 + a4 * b1) (c6 := (a4 : Int) * b2)
    (by simp only [r1]; push_cast; ring) (by simp only [r2, e2a, e2b]; push_cast; ring)
    (by simp only [r3, u3, w8, ae, ao, be]; push_cast; ring)
    (by rw [show (r4 : Int) = ((u4 * u5 : Nat) : Int) from rfl]; simp only [n4neg, s4, s5, r4, u4, u5]; rw [hm4]; simp only [ae, ao, be]; push_cast; ring)
    (by simp only [r5, u5', u2, ah, al, bh, bl]; push_cast; ring)
    (by rw [show (r6 : Int) = ((u3' * w8' : Nat) : Int) from rfl]; simp only [n6neg, s9, s8, r6, u3', w8']; rw [hm6]; simp only [ah, al, bh, bl]; push_cast; ring)
    (by simp only [r7]; push_cast; ring)
  unfold recompose
  rw [hc]
  simp only [evalAt]
  subst ha hb
  have : ((a0 : Int) * b0 + (B : Int) ^ sn * ((a0 : Int) * b1 + a1 * b0 + (B : Int) ^ sn * ((a0 : Int) * b2 + a1 * b1 + a2 * b0 + (B : Int) ^ sn * ((a1 : Int) * b2 + a2 * b1 + a3 * b0 + (B : Int) ^ sn * ((a2 : Int) * b2 + a3 * b1 + a4 * b0 + (B : Int) ^ sn * ((a3 : Int) * b2 + a4 * b1 + (B : Int) ^ sn * ((a4 : Int) * b2 + (B : Int) ^ sn * 0)))))))
      = (((a0 + t * a1 + t ^ 2 * a2 + t ^ 3 * a3 + t ^ 4 * a4) * (b0 + t * b1 + t ^ 2 * b2) : Nat) : Int) := by
    simp only [t]; push_cast; ring
  rw [this, Int.toNat_natCast]

/-! ### sizes of the evaluation values -/

/-- toom3_mul_n.c:126-135, :152-161, :199-208 — the evaluation values fit 2k+1 limbs with the small top limbs the
    C asserts: v1 < 9·B^2k (`ASSERT(c2[k+k] < 9)`), |vm1| < 4·B^2k (`ASSERT(t[k+k] < 4)`), v2 < 49·B^2k
    (`ASSERT(v2[k+k] < 49)`), for all blocks below t = B^k. -/
theorem toom3_eval_bounds (t a0 a1 a2 b0 b1 b2 : Nat) (ha0 : a0 < t) (ha1 : a1 < t) (ha2 : a2 < t)
    (hb0 : b0 < t) (hb1 : b1 < t) (hb2 : b2 < t) :
    (a0 + a2 + a1) * (b0 + b2 + b1) < 9 * t ^ 2 ∧
    absDiff (a0 + a2) a1 * absDiff (b0 + b2) b1 < 4 * t ^ 2 ∧
    ((2 * a2 + a1) * 2 + a0) * ((2 * b2 + b1) * 2 + b0) < 49 * t ^ 2 := by
  have h1 : a0 + a2 + a1 < 3 * t := by omega
  have h2 : b0 + b2 + b1 < 3 * t := by omega
  have h3 : absDiff (a0 + a2) a1 < 2 * t := by unfold absDiff; split <;> omega
  have h4 : absDiff (b0 + b2) b1 < 2 * t := by unfold absDiff; split <;> omega
  have h5 : (2 * a2 + a1) * 2 + a0 < 7 * t := by omega
  have h6 : (2 * b2 + b1) * 2 + b0 < 7 * t := by omega
  refine ⟨?_, ?_, ?_⟩
  · calc (a0 + a2 + a1) * (b0 + b2 + b1) < (3 * t) * (3 * t) := Nat.mul_lt_mul'' h1 h2
      _ = 9 * t ^ 2 := by ring
  · calc absDiff (a0 + a2) a1 * absDiff (b0 + b2) b1 < (2 * t) * (2 * t) := Nat.mul_lt_mul'' h3 h4
      _ = 4 * t ^ 2 := by ring
  · calc ((2 * a2 + a1) * 2 + a0) * ((2 * b2 + b1) * 2 + b0) < (7 * t) * (7 * t) := Nat.mul_lt_mul'' h5 h6
      _ = 49 * t ^ 2 := by ring

/-- toom3_mul.c:472, :507, :561 (mpn_toom42_mul): |vm1| < 2·B^2k (`ASSERT(t[k+k] < 2)`), v2 < 45·B^2k
    (`ASSERT(v2[k+k] < 45)`), but v1 = (a0+a1+a2+a3)(b0+b1) is only below 8·B^2k — NOT below the 6·B^2k that
    `ASSERT(c2[k+k] < 6)` at :472 claims (that assertion fails for bn = 2k with large limbs, e.g. an = 20, bn = 10,
    all limbs 2^64-1, in a WANT_ASSERT build; the product itself is still correct, and mpn_mul only calls
    mpn_toom42_mul with bn < 2k, where the top limb stays below 5). -/
theorem toom42_eval_bounds (t a0 a1 a2 a3 b0 b1 : Nat) (ha0 : a0 < t) (ha1 : a1 < t) (ha2 : a2 < t) (ha3 : a3 < t)
    (hb0 : b0 < t) (hb1 : b1 < t) :
    (a0 + a2 + (a1 + a3)) * (b0 + b1) < 8 * t ^ 2 ∧
    absDiff (a0 + a2) (a1 + a3) * absDiff b0 b1 < 2 * t ^ 2 ∧
    (((2 * a3 + a2) * 2 + a1) * 2 + a0) * (2 * b1 + b0) < 45 * t ^ 2 := by
  have h1 : a0 + a2 + (a1 + a3) < 4 * t := by omega
  have h2 : b0 + b1 < 2 * t := by omega
  have h3 : absDiff (a0 + a2) (a1 + a3) < 2 * t := by unfold absDiff; split <;> omega
  have h4 : absDiff b0 b1 < t := by unfold absDiff; split <;> omega
  have h5 : ((2 * a3 + a2) * 2 + a1) * 2 + a0 < 15 * t := by omega
  have h6 : 2 * b1 + b0 < 3 * t := by omega
  refine ⟨?_, ?_, ?_⟩
  · calc (a0 + a2 + (a1 + a3)) * (b0 + b1) < (4 * t) * (2 * t) := Nat.mul_lt_mul'' h1 h2
      _ = 8 * t ^ 2 := by ring
  · calc absDiff (a0 + a2) (a1 + a3) * absDiff b0 b1 < (2 * t) * t := Nat.mul_lt_mul'' h3 h4
      _ = 2 * t ^ 2 := by ring
  · calc (((2 * a3 + a2) * 2 + a1) * 2 + a0) * (2 * b1 + b0) < (15 * t) * (3 * t) := Nat.mul_lt_mul'' h5 h6
      _ = 45 * t ^ 2 := by ring
end Mpir.MulAlgo
