/- Lemmas for C20: C integer conversions, the modelled mpz function objects of mpirxx.h compute their
   operator for every alias pattern and every built-in value (`fnBinZ_spec`, `fnUnZ_spec`, `fnShZ_spec`). -/
import Mpir.Model.Cxx
import Mathlib.Tactic.Ring
import Mathlib.Tactic.Linarith
import Mathlib.Algebra.Order.Ring.Rat
import Mathlib.Data.Rat.Lemmas
namespace Mpir.Cxx

theorem Heap.ext' {h1 h2 : Heap} (e : ∀ l, h1 l = h2 l) : h1 = h2 := by
  cases h1; cases h2; congr; funext l; exact e l

theorem Heap.set_self (h : Heap) (p : ZLoc) : h.set p (h p) = h := by
  apply Heap.ext'; intro l; simp only [Heap.set]; split <;> simp_all

@[simp] theorem Heap.set_get (h : Heap) (p : ZLoc) (x : Int) : (h.set p x) p = x := by simp [Heap.set]

theorem Heap.set_get_ne (h : Heap) (p l : ZLoc) (x : Int) (hne : l ≠ p) : (h.set p x) l = h l := by
  simp [Heap.set, hne]

@[simp] theorem Heap.set_set (h : Heap) (p : ZLoc) (x y : Int) : (h.set p x).set p y = h.set p y := by
  apply Heap.ext'; intro l; simp only [Heap.set]; split <;> simp_all

theorem copyZ_eq (p w : ZLoc) (h : Heap) : copyZ p w h = some (h.set p (h w)) := by
  unfold copyZ mpz_set
  by_cases hpw : p = w
  · subst hpw; simp [Heap.set_self]
  · simp [hpw]

theorem two64_eq : two64 = 18446744073709551616 := by decide

theorem toUi_of_nonneg {l : Int} (hr : SiRange l) (h0 : 0 ≤ l) : (Int.ofNat (toUi l)) = l := by
  unfold SiRange LONG_MIN LONG_MAX at hr
  unfold toUi
  have : (l % (2 ^ 64 : Int)) = l := by omega
  rw [this]; simp; omega

theorem negUi_eq {l : Int} (hr : SiRange l) (h0 : l < 0) : (Int.ofNat (negUi l)) = -l := by
  unfold SiRange LONG_MIN LONG_MAX at hr
  unfold negUi toUi wrapSi
  simp only [Int.ofNat_eq_natCast]
  omega

theorem absUi_eq {l : Int} (hr : SiRange l) : absUi l = l.natAbs := by
  unfold absUi
  split
  · have := toUi_of_nonneg hr (by omega); simp only [Int.ofNat_eq_natCast] at this; omega
  · have := negUi_eq hr (by omega); simp only [Int.ofNat_eq_natCast] at this; omega

theorem tmpzSi_eq {l : Int} (hr : SiRange l) : tmpzSi l = l := by
  unfold tmpzSi
  split
  · rw [negUi_eq hr (by omega)]; omega
  · rw [toUi_of_nonneg hr (by omega)]


theorem ctz_pow2 : ∀ (l : Nat), 0 < l → l &&& (l - 1) = 0 → 2 ^ ctz l = l := by
  intro l
  induction l using Nat.strong_induction_on with
  | _ l ih =>
    intro hpos hand
    obtain ⟨n, rfl⟩ : ∃ n, l = n + 1 := ⟨l - 1, by omega⟩
    rw [ctz]
    have hdiv := congrArg (· / 2) hand
    simp only [Nat.and_div_two, Nat.zero_div] at hdiv
    by_cases hodd : (n + 1) % 2 = 1
    · simp only [hodd, if_true, Nat.pow_zero]
      have h2 : (n + 1 - 1) / 2 = (n + 1) / 2 := by omega
      rw [h2, Nat.and_self] at hdiv
      omega
    · simp only [hodd, if_false]
      have h2 : (n + 1 - 1) / 2 = (n + 1) / 2 - 1 := by omega
      rw [h2] at hdiv
      have := ih ((n + 1) / 2) (by omega) (by omega) hdiv
      rw [Nat.pow_add, this]; omega

theorem pow2Test_ctz {l : Nat} (ht : pow2Test l = true) (hpos : l ≠ 0) (hr : UiRange l) : 2 ^ ctz l = l := by
  unfold pow2Test at ht
  unfold UiRange at hr
  rw [two64_eq] at ht hr
  have e : (l + (18446744073709551616 - 1)) % 18446744073709551616 = l - 1 := by omega
  rw [e] at ht
  exact ctz_pow2 l (by omega) (by simpa using ht)

/-! ### plus / minus -/

theorem Plus.z_ui_spec (cst : Bool) (p w : ZLoc) (l : Nat) (h : Heap) :
    Plus.z_ui cst p w l h = some (h.set p (h w + Int.ofNat l)) := by
  unfold Plus.z_ui
  split
  · rename_i hc; simp only [Bool.and_eq_true, beq_iff_eq] at hc
    rw [copyZ_eq, hc.2]; simp
  · rfl

theorem Plus.z_si_spec (cst : Bool) (p w : ZLoc) (l : Int) (h : Heap) (hr : SiRange l) :
    Plus.z_si cst p w l h = some (h.set p (h w + l)) := by
  unfold Plus.z_si
  split
  · rw [Plus.z_ui_spec, toUi_of_nonneg hr (by omega)]
  · simp only [mpz_sub_ui]; rw [negUi_eq hr (by omega)]; first | rfl | (congr 2; omega)

theorem Minus.z_ui_spec (cst : Bool) (p w : ZLoc) (l : Nat) (h : Heap) :
    Minus.z_ui cst p w l h = some (h.set p (h w - Int.ofNat l)) := by
  unfold Minus.z_ui
  split
  · rename_i hc; simp only [Bool.and_eq_true, beq_iff_eq] at hc
    rw [copyZ_eq, hc.2]; simp
  · rfl

theorem Minus.ui_z_spec (cst : Bool) (p w : ZLoc) (l : Nat) (h : Heap) :
    Minus.ui_z cst p l w h = some (h.set p (Int.ofNat l - h w)) := by
  unfold Minus.ui_z
  split
  · rename_i hc; simp only [Bool.and_eq_true, beq_iff_eq] at hc
    simp [mpz_neg, hc.2]
  · rfl

theorem Minus.z_si_spec (cst : Bool) (p w : ZLoc) (l : Int) (h : Heap) (hr : SiRange l) :
    Minus.z_si cst p w l h = some (h.set p (h w - l)) := by
  unfold Minus.z_si
  split
  · rw [Minus.z_ui_spec, toUi_of_nonneg hr (by omega)]
  · simp only [mpz_add_ui]; rw [negUi_eq hr (by omega)]; first | rfl | (congr 2; omega)

theorem Minus.si_z_spec (cst : Bool) (p w : ZLoc) (l : Int) (h : Heap) (hr : SiRange l) :
    Minus.si_z cst p l w h = some (h.set p (l - h w)) := by
  unfold Minus.si_z
  split
  · rw [Minus.ui_z_spec, toUi_of_nonneg hr (by omega)]
  · simp only [mpz_add_ui, mpz_neg, Heap.set_get, Heap.set_set]; rw [negUi_eq hr (by omega)]; first | rfl | (congr 2; omega)

/-! ### multiplies -/

theorem Lshift.z_spec (cst : Bool) (p w : ZLoc) (n : Nat) (h : Heap) :
    Lshift.z cst p w n h = some (h.set p (zshl (h w) n)) := by
  unfold Lshift.z
  split
  · rename_i hc; simp only [Bool.and_eq_true, beq_iff_eq] at hc
    rw [copyZ_eq, hc.2]; simp [zshl]
  · rfl

theorem Rshift.z_spec (cst : Bool) (p w : ZLoc) (n : Nat) (h : Heap) :
    Rshift.z cst p w n h = some (h.set p (zshr (h w) n)) := by
  unfold Rshift.z
  split
  · rename_i hc; simp only [Bool.and_eq_true, beq_iff_eq] at hc
    rw [copyZ_eq, hc.2]; simp [zshr]
  · rfl

theorem Multiplies.z_ui_spec (cst : Bool) (p w : ZLoc) (l : Nat) (h : Heap) (hr : UiRange l) :
    Multiplies.z_ui cst p w l h = some (h.set p (h w * Int.ofNat l)) := by
  unfold Multiplies.z_ui
  split
  · rename_i hc; simp only [Bool.and_eq_true] at hc
    split
    · rename_i h0; subst h0; simp
    · rename_i h0
      rw [Lshift.z_spec]
      have := pow2Test_ctz hc.2 h0 hr
      unfold zshl
      congr 2
      have e : ((2 : Int) ^ ctz l) = Int.ofNat (2 ^ ctz l) := by simp
      rw [e, this]
  · rfl

theorem Multiplies.z_si_spec (cst : Bool) (p w : ZLoc) (l : Int) (h : Heap) (hr : SiRange l) :
    Multiplies.z_si cst p w l h = some (h.set p (h w * l)) := by
  unfold Multiplies.z_si
  have hr' := hr
  unfold SiRange LONG_MIN LONG_MAX at hr'
  split
  · split
    · have e := toUi_of_nonneg hr (by omega)
      rw [Multiplies.z_ui_spec _ _ _ _ _ (by unfold UiRange; rw [two64_eq]; simp only [Int.ofNat_eq_natCast] at e; omega), e]
    · have e := negUi_eq hr (by omega)
      rw [Multiplies.z_ui_spec _ _ _ _ _ (by unfold UiRange; rw [two64_eq]; simp only [Int.ofNat_eq_natCast] at e; omega), e]
      simp only [Option.map_some, mpz_neg, Heap.set_get, Heap.set_set]
      congr 2; ring
  · rfl


/-! ### divides / modulus -/

theorem tdiv_eq_zero_of_natAbs_lt {a b : Int} (hlt : a.natAbs < b.natAbs) : a.tdiv b = 0 := by
  have := Int.natAbs_tdiv a b
  have h0 : a.natAbs.div b.natAbs = 0 := Nat.div_eq_of_lt hlt
  rw [h0] at this
  exact Int.natAbs_eq_zero.mp this

theorem tmod_eq_self_of_natAbs_lt {a b : Int} (hlt : a.natAbs < b.natAbs) : a.tmod b = a := by
  rw [Int.tmod_def, tdiv_eq_zero_of_natAbs_lt hlt]; simp

theorem ofNat_toNat_of_nonneg {x : Int} (h : 0 ≤ x) : Int.ofNat x.toNat = x := by
  simp only [Int.ofNat_eq_natCast]; omega

theorem Divides.z_ui_spec (cst : Bool) (p w : ZLoc) (l : Nat) (h : Heap) (hr : UiRange l) :
    Divides.z_ui cst p w l h = if l = 0 then none else some (h.set p (Int.tdiv (h w) (Int.ofNat l))) := by
  unfold Divides.z_ui
  split
  · rename_i hc; simp only [Bool.and_eq_true, bne_iff_ne, ne_eq] at hc
    rw [if_neg hc.2]
    split
    · rename_i h1; subst h1; rw [copyZ_eq]; simp
    · have := pow2Test_ctz hc.1.2 hc.2 hr
      simp only [mpz_tdiv_q_2exp]
      have e : ((2 : Int) ^ ctz l) = Int.ofNat (2 ^ ctz l) := by simp
      rw [e, this]
  · rfl

theorem Divides.ui_z_spec (p w : ZLoc) (l : Nat) (h : Heap) (hr : UiRange l) :
    Divides.ui_z p l w h = if h w = 0 then none else some (h.set p (Int.tdiv (Int.ofNat l) (h w))) := by
  unfold Divides.ui_z UiRange at *
  rw [two64_eq] at hr
  by_cases h0 : h w = 0
  · simp [h0, mpz_tdiv_q]
  · simp only [h0, if_false]
    by_cases hpos : h w ≥ 0
    · simp only [hpos, if_true]
      by_cases hf : fitsUi (h w) = true
      · simp only [hf, if_true, mpz_set_ui]
        congr 2
        have := Int.ofNat_tdiv l (h w).toNat
        rw [show ((h w).toNat : Int) = h w from by omega] at this
        exact this
      · simp only [hf, mpz_set_ui]
        simp only [fitsUi, two64_eq, decide_eq_true_eq, not_and, not_lt] at hf
        have := hf hpos
        rw [Int.tdiv_eq_zero_of_lt (by simp) (by simp only [Int.ofNat_eq_natCast]; omega)]
        simp
    · simp only [hpos, if_false, mpz_neg, Heap.set_get]
      by_cases hf : fitsUi (-(h w)) = true
      · simp only [hf, if_true, mpz_set_ui, Heap.set_set, Heap.set_get]
        congr 2
        have := Int.ofNat_tdiv l (-(h w)).toNat
        rw [show ((-(h w)).toNat : Int) = -(h w) from by omega, Int.tdiv_neg] at this
        simp only [Int.ofNat_eq_natCast] at *
        omega
      · simp only [hf, mpz_set_ui, Heap.set_set]
        simp only [fitsUi, two64_eq, decide_eq_true_eq, not_and, not_lt] at hf
        have := hf (by omega)
        have e : (Int.ofNat l).tdiv (h w) = 0 := by
          have := Int.tdiv_eq_zero_of_lt (a := Int.ofNat l) (b := -(h w)) (by simp) (by simp only [Int.ofNat_eq_natCast]; omega)
          rw [Int.tdiv_neg] at this; omega
        rw [e]; simp

theorem Divides.z_si_spec (cst : Bool) (p w : ZLoc) (l : Int) (h : Heap) (hr : SiRange l) :
    Divides.z_si cst p w l h = if l = 0 then none else some (h.set p (Int.tdiv (h w) l)) := by
  unfold Divides.z_si
  have hr' := hr
  unfold SiRange LONG_MIN LONG_MAX at hr'
  split
  · have e := toUi_of_nonneg hr (by omega)
    rw [Divides.z_ui_spec _ _ _ _ _ (by unfold UiRange; rw [two64_eq]; simp only [Int.ofNat_eq_natCast] at e; omega), e]
    by_cases h0 : l = 0
    · have : toUi l = 0 := by simp only [Int.ofNat_eq_natCast] at e; omega
      rw [if_pos this, if_pos h0]
    · have : toUi l ≠ 0 := by simp only [Int.ofNat_eq_natCast] at e; omega
      rw [if_neg this, if_neg h0]
  · have e := negUi_eq hr (by omega)
    rw [Divides.z_ui_spec _ _ _ _ _ (by unfold UiRange; rw [two64_eq]; simp only [Int.ofNat_eq_natCast] at e; omega), e]
    have : negUi l ≠ 0 := by simp only [Int.ofNat_eq_natCast] at e; omega
    have h0 : l ≠ 0 := by omega
    simp only [this, h0, if_false, Option.map_some, mpz_neg, Heap.set_get, Heap.set_set, Int.tdiv_neg, Int.neg_neg]

theorem Divides.si_z_spec (p w : ZLoc) (l : Int) (h : Heap) (hr : SiRange l) :
    Divides.si_z p l w h = if h w = 0 then none else some (h.set p (Int.tdiv l (h w))) := by
  unfold Divides.si_z
  by_cases hf : fitsSi (h w) = true
  · simp only [hf, if_true]
    by_cases h0 : h w = 0
    · simp [h0, mpz_tdiv_q]
    · simp only [h0, if_false]
      by_cases h1 : h w = -1
      · simp [h1, mpz_set_si, mpz_neg]
      · simp [h1, mpz_set_si]
  · simp only [hf, mpz_set_si, Bool.false_eq_true, if_false]
    simp only [fitsSi, decide_eq_true_eq, not_and, not_le] at hf
    have hr' := hr
    unfold SiRange at hr'
    unfold LONG_MIN LONG_MAX at hf hr'
    have h0 : h w ≠ 0 := by omega
    simp only [h0, if_false, absUi_eq hr]
    congr 2
    by_cases he : (h w).natAbs = l.natAbs
    · simp only [he, if_true]
      have hl : l = -9223372036854775808 := by omega
      have hw : h w = 9223372036854775808 := by omega
      rw [hl, hw]; decide
    · simp only [he, if_false]
      exact (tdiv_eq_zero_of_natAbs_lt (a := l) (b := h w) (by omega)).symm

theorem Modulus.ui_z_spec (p w : ZLoc) (l : Nat) (h : Heap) (hr : UiRange l) :
    Modulus.ui_z p l w h = if h w = 0 then none else some (h.set p (Int.tmod (Int.ofNat l) (h w))) := by
  unfold Modulus.ui_z UiRange at *
  rw [two64_eq] at hr
  by_cases h0 : h w = 0
  · simp [h0, mpz_tdiv_r]
  · simp only [h0, if_false]
    by_cases hpos : h w ≥ 0
    · simp only [hpos, if_true]
      by_cases hf : fitsUi (h w) = true
      · simp only [hf, if_true, mpz_set_ui]
        congr 2
        have := Int.ofNat_tmod l (h w).toNat
        rw [show ((h w).toNat : Int) = h w from by omega] at this
        exact this
      · simp only [hf, mpz_set_ui]
        simp only [fitsUi, two64_eq, decide_eq_true_eq, not_and, not_lt] at hf
        have := hf hpos
        rw [Int.tmod_eq_of_lt (by simp) (by simp only [Int.ofNat_eq_natCast]; omega)]
        simp
    · simp only [hpos, if_false, mpz_neg, Heap.set_get]
      by_cases hf : fitsUi (-(h w)) = true
      · simp only [hf, if_true, mpz_set_ui, Heap.set_set, Heap.set_get]
        congr 2
        have := Int.ofNat_tmod l (-(h w)).toNat
        rw [show ((-(h w)).toNat : Int) = -(h w) from by omega, Int.tmod_neg] at this
        exact this
      · simp only [hf, mpz_set_ui, Heap.set_set]
        simp only [fitsUi, two64_eq, decide_eq_true_eq, not_and, not_lt] at hf
        have := hf (by omega)
        have e : (Int.ofNat l).tmod (h w) = Int.ofNat l := by
          have := Int.tmod_eq_of_lt (a := Int.ofNat l) (b := -(h w)) (by simp) (by simp only [Int.ofNat_eq_natCast]; omega)
          rw [Int.tmod_neg] at this; exact this
        rw [e]; simp

theorem Modulus.z_si_spec (p w : ZLoc) (l : Int) (h : Heap) (hr : SiRange l) :
    Modulus.z_si p w l h = if l = 0 then none else some (h.set p (Int.tmod (h w) l)) := by
  unfold Modulus.z_si mpz_tdiv_r_ui
  rw [absUi_eq hr]
  by_cases h0 : l = 0
  · simp [h0]
  · have : l.natAbs ≠ 0 := by omega
    simp only [this, h0, if_false]
    congr 2
    by_cases hp : 0 ≤ l
    · rw [show Int.ofNat l.natAbs = l from by simp only [Int.ofNat_eq_natCast]; omega]
    · rw [show Int.ofNat l.natAbs = -l from by simp only [Int.ofNat_eq_natCast]; omega, Int.tmod_neg]

theorem Modulus.si_z_spec (p w : ZLoc) (l : Int) (h : Heap) (hr : SiRange l) :
    Modulus.si_z p l w h = if h w = 0 then none else some (h.set p (Int.tmod l (h w))) := by
  unfold Modulus.si_z
  by_cases hf : fitsSi (h w) = true
  · simp only [hf, if_true]
    by_cases h0 : h w = 0
    · simp [h0, mpz_tdiv_r]
    · simp only [h0, if_false]
      by_cases h1 : h w = -1
      · simp [h1, mpz_set_si]
      · simp [h1, mpz_set_si]
  · simp only [hf, mpz_set_si, Bool.false_eq_true, if_false]
    simp only [fitsSi, decide_eq_true_eq, not_and, not_le] at hf
    have hr' := hr
    unfold SiRange at hr'
    unfold LONG_MIN LONG_MAX at hf hr'
    have h0 : h w ≠ 0 := by omega
    simp only [h0, if_false, absUi_eq hr]
    congr 2
    by_cases he : (h w).natAbs = l.natAbs
    · simp only [he, if_true]
      have hl : l = -9223372036854775808 := by omega
      have hw : h w = 9223372036854775808 := by omega
      rw [hl, hw]; decide
    · simp only [he, if_false]
      exact (tmod_eq_self_of_natAbs_lt (a := l) (b := h w) (by omega)).symm


/-! ### the combined statement: every mpz function object computes its operator -/

theorem zand_comm (x y : Int) : zand x y = zand y x := by
  cases x <;> cases y <;> simp [zand, Nat.and_comm, Nat.or_comm]
theorem zior_comm (x y : Int) : zior x y = zior y x := by
  cases x <;> cases y <;> simp [zior, Nat.and_comm, Nat.or_comm]
theorem zxor_comm (x y : Int) : zxor x y = zxor y x := by
  cases x <;> cases y <;> simp [zxor, Nat.xor_comm]
theorem zgcd_comm (x y : Int) : zgcd x y = zgcd y x := by simp [zgcd, Nat.gcd_comm]
theorem zlcm_comm (x y : Int) : zlcm x y = zlcm y x := by simp [zlcm, Nat.lcm_comm]

macro "fin_z" : tactic => `(tactic|
  ((try split) <;> (try simp_all) <;>
   (try (congr 1; first | ring | exact zand_comm _ _ | exact zior_comm _ _ | exact zxor_comm _ _ | exact zgcd_comm _ _ | exact zlcm_comm _ _ | (simp only [Int.natAbs_abs]; done) | (rw [Int.natAbs_abs]; first | exact Nat.gcd_comm _ _ | exact Nat.lcm_comm _ _) | (congr 1; rw [Int.natAbs_abs]; first | exact Nat.gcd_comm _ _ | exact Nat.lcm_comm _ _) | simp [Nat.gcd_comm, Nat.lcm_comm]))))

def argZ (h : Heap) : ZArg → Option Int
  | .loc l => some (h l)
  | .bi c => biZ c

def ZArg.ok : ZArg → Prop
  | .loc _ => True
  | .bi c => c.ok = true

def ZArg.isBi : ZArg → Bool
  | .loc _ => false
  | .bi _ => true

theorem biVal_z (c : Bi) : biVal .z c = (biZ c).map Val.z := by
  cases c <;> simp [biVal, biZ, tmpzD, Option.map_map, Function.comp_def]

theorem bi_ok_si {v : Int} (h : (Bi.si v).ok = true) : SiRange v := by simpa [Bi.ok] using h
theorem bi_ok_ui {v : Nat} (h : (Bi.ui v).ok = true) : UiRange v := by simpa [Bi.ok] using h

/-- **fnobj_spec (mpz)**: for every operator, every overload (mpz/ui/si/double on either side), every
    alias pattern of the destination and the operands (`p`, `w`, `v` arbitrary, equal or not), every
    built-in value in range (negative `si`, `LONG_MIN`, `ULONG_MAX` included) and both answers of
    `__builtin_constant_p`, the function object stores `a op b` into `p` and changes nothing else —
    or raises exactly when the C function applied to temporaries raises. -/
theorem fnBinZ_spec (cst : Bool) (o : Bin) (p : ZLoc) (a b : ZArg) (h : Heap)
    (ha : a.ok) (hb : b.ok) (hab : ¬(a.isBi = true ∧ b.isBi = true)) :
    fnBinZ cst o p a b h =
      ((argZ h a).bind fun x => (argZ h b).bind fun y => binZ o x y).map (fun r => h.set p r) := by
  cases a with
  | loc w =>
    cases b with
    | loc v =>
      cases o <;> simp [fnBinZ, argZ, binZ, Plus.zz, Minus.zz, Multiplies.zz, Divides.zz, Modulus.zz, Bitop.zz, Gcd.zz, Lcm.zz,
        mpz_add, mpz_sub, mpz_mul, mpz_tdiv_q, mpz_tdiv_r, mpz_gcd, mpz_lcm] <;> fin_z
    | bi c =>
      cases c with
      | ui l =>
        have hr := bi_ok_ui hb
        cases o <;> simp [fnBinZ, argZ, biZ, binZ, Plus.z_ui_spec, Minus.z_ui_spec, Multiplies.z_ui_spec _ _ _ _ _ hr,
          Divides.z_ui_spec _ _ _ _ _ hr, Modulus.z_ui, mpz_tdiv_r_ui, Bitop.z_ui, Gcd.z_ui, Lcm.z_ui, mpz_opT, mpz_gcd_ui, mpz_lcm_ui] <;> fin_z
      | si l =>
        have hr := bi_ok_si hb
        cases o <;> simp [fnBinZ, argZ, biZ, binZ, Plus.z_si_spec _ _ _ _ _ hr, Minus.z_si_spec _ _ _ _ _ hr, Multiplies.z_si_spec _ _ _ _ _ hr,
          Divides.z_si_spec _ _ _ _ _ hr, Modulus.z_si_spec _ _ _ _ hr, Bitop.z_si, Gcd.z_si, Lcm.z_si, Gcd.z_ui, Lcm.z_ui, mpz_opT, mpz_gcd_ui, mpz_lcm_ui,
          tmpzSi_eq hr, absUi_eq hr, zgcd, zlcm] <;> fin_z
      | d d =>
        cases o <;> simp [fnBinZ, argZ, biZ, binZ, Plus.z_d, Minus.z_d, Multiplies.z_d, Divides.z_d, Modulus.z_d, Bitop.z_d, Gcd.z_d, Lcm.z_d, mpz_opT] <;>
          cases tmpzD d <;> simp <;> fin_z
  | bi c =>
    cases b with
    | bi c' => simp [ZArg.isBi] at hab
    | loc w =>
      cases c with
      | ui l =>
        have hr := bi_ok_ui ha
        cases o <;> simp [fnBinZ, argZ, biZ, binZ, Plus.ui_z, Plus.z_ui_spec, Minus.ui_z_spec, Multiplies.ui_z, Multiplies.z_ui_spec _ _ _ _ _ hr,
          Divides.ui_z_spec _ _ _ _ hr, Modulus.ui_z_spec _ _ _ _ hr, Bitop.z_ui, Gcd.z_ui, Lcm.z_ui, mpz_opT, mpz_gcd_ui, mpz_lcm_ui] <;> fin_z
      | si l =>
        have hr := bi_ok_si ha
        cases o <;> simp [fnBinZ, argZ, biZ, binZ, Plus.si_z, Plus.z_si_spec _ _ _ _ _ hr, Minus.si_z_spec _ _ _ _ _ hr, Multiplies.si_z, Multiplies.z_si_spec _ _ _ _ _ hr,
          Divides.si_z_spec _ _ _ _ hr, Modulus.si_z_spec _ _ _ _ hr, Bitop.z_si, Gcd.z_si, Lcm.z_si, Gcd.z_ui, Lcm.z_ui, mpz_opT, mpz_gcd_ui, mpz_lcm_ui,
          tmpzSi_eq hr, absUi_eq hr, zgcd, zlcm] <;> fin_z
      | d d =>
        cases o <;> simp [fnBinZ, argZ, biZ, binZ, Plus.d_z, Plus.z_d, Minus.d_z, Multiplies.d_z, Multiplies.z_d, Divides.d_z, Modulus.d_z, Bitop.z_d, Gcd.z_d, Lcm.z_d, mpz_opT] <;>
          cases tmpzD d <;> simp <;> fin_z


theorem fnUnZ_spec (o : Un) (p w : ZLoc) (h : Heap) :
    fnUnZ o p w h = (unZ o (h w)).map (fun r => h.set p r) := by
  cases o <;> simp [fnUnZ, unZ, mpz_set, mpz_neg, mpz_com, mpz_abs, mpz_sqrt]
  split <;> simp_all

theorem fnShZ_spec (cst : Bool) (o : Sh) (p w : ZLoc) (n : Nat) (h : Heap) :
    fnShZ cst o p w n h = some (h.set p (shZ o n (h w))) := by
  cases o <;> simp [fnShZ, shZ, Lshift.z_spec, Rshift.z_spec]

/-! ### the template strategy on mpz-typed trees

  `evalTmpZ` (temporaries semantics over the raw contents of the mpz_t objects), `biZ`, `shZ` are defined in the model. -/

/-- every mpq_class object the tree mentions — as an `mpq_class` leaf or through an accessor — is canonical -/
def E.canon (h : Heap) : E → Prop
  | .zv _ => True
  | .qv i => Canon h i
  | .zn i => Canon h i
  | .zd i => Canon h i
  | .un _ a => a.canon h
  | .bin _ a b => a.canon h ∧ b.canon h
  | .binL _ _ b => b.canon h
  | .binR _ a _ => a.canon h
  | .sh _ a _ => a.canon h

theorem qval_num_den {h : Heap} {i : Nat} (hc : Canon h i) :
    (qval h i).num = h (.num i) ∧ ((qval h i).den : Int) = h (.den i) := by
  unfold qval
  rw [Rat.divInt_eq_div]
  exact ⟨Rat.num_div_eq_of_coprime hc.1 hc.2, Rat.den_div_eq_of_coprime hc.1 hc.2⟩

/-- on a heap whose mentioned mpq objects are canonical, the temporaries semantics of an mpz-typed tree is the one
    over the raw fields (an accessor leaf reads the numerator / denominator field) -/
theorem evalTmp_z (h : Heap) : ∀ (e : E), e.ty = .z → e.canon h → evalTmp h.abs e = (evalTmpZ h.get e).map Val.z := by
  intro e
  induction e with
  | zv i => intro _ _; simp [evalTmp, evalTmpZ, Heap.abs]
  | qv i => intro h; simp [E.ty] at h
  | zn i => intro _ hc; simp only [evalTmp, evalTmpZ, Heap.abs, Option.map_some, (qval_num_den hc).1]
  | zd i =>
    intro _ hc
    have := (qval_num_den hc).2
    simp only [evalTmp, evalTmpZ, Heap.abs, Option.map_some, Int.ofNat_eq_natCast, this]
  | un o a ih =>
    intro h hc; simp only [E.ty] at h
    simp only [evalTmp, evalTmpZ, ih h hc]
    cases evalTmpZ _ a <;> simp [unV]
  | bin o a b iha ihb =>
    intro h hc; simp only [E.ty] at h
    have h2 : a.ty = .z ∧ b.ty = .z := by
      by_cases hc : a.ty = .z ∧ b.ty = .z
      · exact hc
      · simp [hc] at h
    simp only [evalTmp, evalTmpZ, iha h2.1 hc.1, ihb h2.2 hc.2]
    cases evalTmpZ _ a <;> cases evalTmpZ _ b <;> simp [binV]
  | binL o c b ih =>
    intro h hc; simp only [E.ty] at h
    simp only [evalTmp, evalTmpZ, ih h hc]
    cases evalTmpZ _ b <;> simp [Val.ty, biVal_z]
    cases biZ c <;> simp [binV]
  | binR o a c ih =>
    intro h hc; simp only [E.ty] at h
    simp only [evalTmp, evalTmpZ, ih h hc]
    cases evalTmpZ _ a <;> simp [Val.ty, biVal_z]
    cases biZ c <;> simp [binV]
  | sh o a n ih =>
    intro h hc; simp only [E.ty] at h
    simp only [evalTmp, evalTmpZ, ih h hc]
    cases evalTmpZ _ a <;> simp [shV, shZ]
    try (cases o <;> rfl)

/-- the `mpz_class` variables a tree mentions all have index below `k` (accessor sub-objects are fields of mpq
    objects: they are never temporaries of the mpz pool; see `E.qbelow` for the mpq pool) -/
def E.zbelow (k : Nat) : E → Prop
  | .zv i => i < k
  | .qv _ => True
  | .zn _ => True
  | .zd _ => True
  | .un _ a => a.zbelow k
  | .bin _ a b => a.zbelow k ∧ b.zbelow k
  | .binL _ _ b => b.zbelow k
  | .binR _ a _ => a.zbelow k
  | .sh _ a _ => a.zbelow k

theorem E.zbelow_mono {k k' : Nat} (hk : k ≤ k') : ∀ (e : E), e.zbelow k → e.zbelow k' := by
  intro e
  induction e with
  | zv i => intro h; simp only [E.zbelow] at *; omega
  | qv i => intro _; trivial
  | zn i => intro _; trivial
  | zd i => intro _; trivial
  | un o a ih => exact ih
  | bin o a b iha ihb => intro h; exact ⟨iha h.1, ihb h.2⟩
  | binL o c b ih => exact ih
  | binR o a c ih => exact ih
  | sh o a n ih => exact ih

/-- objects that exist before the evaluation starts: variables/temporaries below `k` and all mpq fields -/
def ZLoc.below (k : Nat) : ZLoc → Prop
  | .v i => i < k
  | _ => True

theorem ZLoc.below_mono {k k' : Nat} (hk : k ≤ k') {l : ZLoc} (h : l.below k) : l.below k' := by
  cases l <;> simp only [ZLoc.below] at * <;> omega

theorem ZLoc.ne_of_below {k : Nat} {l : ZLoc} (h : l.below k) : l ≠ .v k := by
  intro e; subst e; simp [ZLoc.below] at h

/-- heaps that agree on the objects below `k` give the same value to a tree over those objects -/
theorem evalTmpZ_frame {k : Nat} {h1 h2 : Heap} (hag : ∀ l : ZLoc, l.below k → h1 l = h2 l) :
    ∀ (e : E), e.zbelow k → evalTmpZ h1.get e = evalTmpZ h2.get e := by
  intro e
  induction e with
  | zv i => intro h; simp only [evalTmpZ, E.zbelow] at *; exact congrArg some (hag (.v i) h)
  | qv i => intro _; rfl
  | zn i => intro _; simp only [evalTmpZ]; exact congrArg some (hag (.num i) trivial)
  | zd i => intro _; simp only [evalTmpZ]; exact congrArg some (hag (.den i) trivial)
  | un o a ih => intro h; simp only [evalTmpZ, ih h]
  | bin o a b iha ihb => intro h; simp only [evalTmpZ, iha h.1, ihb h.2]
  | binL o c b ih => intro h; simp only [evalTmpZ, ih h]
  | binR o a c ih => intro h; simp only [evalTmpZ, ih h]
  | sh o a n ih => intro h; simp only [evalTmpZ, ih h]

/-- an `mpz_class`-typed leaf (variable or accessor sub-object) reads its object -/
theorem zleaf?_eval {a : E} {l : ZLoc} (h : a.zleaf? = some l) (zs : ZLoc → Int) : evalTmpZ zs a = some (zs l) := by
  cases a <;> simp [E.zleaf?] at h <;> subst h <;> rfl

theorem zleaf?_below {a : E} {l : ZLoc} (h : a.zleaf? = some l) {k : Nat} (hb : a.zbelow k) : l.below k := by
  cases a <;> simp [E.zleaf?] at h <;> subst h <;> simpa [ZLoc.below, E.zbelow] using hb

/-- what one evaluation step guarantees: the destination holds the value, every pre-existing object
    other than the destination is unchanged; an exception of the temporaries semantics is an exception here -/
def Post (k : Nat) (p : ZLoc) (h : Heap) (r : Option Int) (res : Option Heap) : Prop :=
  match r with
  | none => res = none
  | some x => ∃ h', res = some h' ∧ h' p = x ∧ ∀ l : ZLoc, l.below k → l ≠ p → h' l = h l

theorem Post.of_set {k : Nat} {p : ZLoc} {h : Heap} {r : Option Int} :
    Post k p h r (r.map fun x => h.set p x) := by
  cases r with
  | none => rfl
  | some x => exact ⟨_, rfl, by simp, fun l _ hne => Heap.set_get_ne _ _ _ _ hne⟩


/-! ### comparisons -/

theorem qcmp_swap (x y : Rat) : qcmp y x = -(qcmp x y) := by
  unfold qcmp
  rcases lt_trichotomy x y with h | h | h
  · have h1 : ¬ y < x := not_lt.mpr h.le
    have h2 : y ≠ x := (ne_of_lt h).symm
    simp [h, h1, h2]
  · subst h; simp
  · have h1 : ¬ x < y := not_lt.mpr h.le
    have h2 : x ≠ y := (ne_of_lt h).symm
    simp [h, h1, h2]

theorem zcmp_eq_qcmp (x y : Int) : zcmp x y = qcmp (x : Rat) (y : Rat) := by
  unfold zcmp qcmp
  simp only [Rat.intCast_lt_intCast, Rat.intCast_inj]

theorem qcmp_cases (x y : Rat) : qcmp x y = -1 ∨ qcmp x y = 0 ∨ qcmp x y = 1 := by
  unfold qcmp; split <;> [skip; split] <;> simp

/-- exact value of an operand of a comparison -/
def argQ (h : Heap) : ZArg → Option Rat
  | .loc l => some ((h l : Int) : Rat)
  | .bi c => biRat c

theorem CmpF.zArg_spec (h : Heap) (z : ZLoc) (b : ZArg) :
    CmpF.zArg h z b = (argQ h b).map fun y => qcmp ((h z : Int) : Rat) y := by
  cases b with
  | loc w => simp [CmpF.zArg, argQ, zcmp_eq_qcmp]
  | bi c => cases c <;> simp [CmpF.zArg, argQ, biRat, zcmp_eq_qcmp]

/-- every comparison function object / operator returns the comparison of the exact values -/
theorem fnCmpZ_spec (o : Cmp) (a b : ZArg) (h : Heap) (hab : ¬(a.isBi = true ∧ b.isBi = true)) :
    fnCmpZ o a b h = (argQ h a).bind fun x => (argQ h b).map fun y => cmpRes o (qcmp x y) := by
  cases a with
  | loc z =>
    cases o <;> simp only [fnCmpZ, CmpF.cmp, CmpF.equal, CmpF.less, CmpF.greater, CmpF.zArg_spec, argQ, Option.bind_some, Option.map_map] <;>
      cases argQ h b <;> simp [cmpRes, b2i, Function.comp_def] <;>
      try (rename_i y; rcases qcmp_cases ((h z : Int) : Rat) y with e | e | e <;> simp [e])
  | bi c =>
    cases b with
    | bi c' => simp [ZArg.isBi] at hab
    | loc z =>
      cases o <;> simp only [fnCmpZ, CmpF.cmp, CmpF.equal, CmpF.less, CmpF.greater, CmpF.zArg_spec, argQ, Option.bind_some, Option.map_map, Option.map_some] <;>
        cases biRat c <;> simp [cmpRes, b2i, Function.comp_def] <;>
        try (rename_i y; rw [qcmp_swap ((h z : Int) : Rat) y] <;> (rcases qcmp_cases ((h z : Int) : Rat) y with e | e | e <;> simp [e]))

/-- `const& temp(expr)`: the bound object holds the value of the operand; nothing that existed before changes -/
theorem bindZ_correct (cst : Bool) (evalZ_ok : ∀ (e : E), e.ty = .z → e.wt = true →
      ∀ (k : Nat) (p : ZLoc) (h : Heap), p.below k → e.zbelow k →
        Post k p h (evalTmpZ h.get e) (evalZ cst k p e h))
    (e : E) (hty : e.ty = .z) (hwt : e.wt = true) (k : Nat) (h : Heap) (hb : e.zbelow k) :
    match evalTmpZ h.get e with
    | none => bindZ cst k e h = none
    | some x => ∃ l h', bindZ cst k e h = some (l, h') ∧ h' l = x ∧ l.below (k + 1) ∧ ∀ l' : ZLoc, l'.below k → h' l' = h l' := by
  unfold bindZ
  cases hl : e.zleaf? with
  | some l =>
    rw [zleaf?_eval hl]
    exact ⟨l, h, rfl, rfl, ZLoc.below_mono (by omega) (zleaf?_below hl hb), fun _ _ => rfl⟩
  | none =>
    simp only []
    have H := evalZ_ok e hty hwt (k + 1) (.v k) h (by simp [ZLoc.below]) (E.zbelow_mono (by omega) _ hb)
    cases hr : evalTmpZ h.get e with
    | none => rw [hr] at H; simp only [Post] at H; simp [H]
    | some x =>
      rw [hr] at H
      obtain ⟨h', e1, hx, hfr⟩ := H
      exact ⟨.v k, h', by simp [e1], hx, by simp [ZLoc.below], fun l' hl' => hfr l' (ZLoc.below_mono (by omega) hl') (ZLoc.ne_of_below hl')⟩

end Mpir.Cxx
