/- C20 lemmas: the expression-template strategy for mpq destinations (mixed mpz/mpq trees, the mpz±mpq special cases,
   conversions) equals evaluation into temporaries (`evalQ_correct`). -/
import MpirProofs.Lemmas.CxxQ
import MpirProofs.Lemmas.CxxZ
namespace Mpir.Cxx

def evalTmpR (env : Env) (e : E) : Option Rat := (evalTmp env e).map Val.toQ
def shQ (o : Sh) (n : Nat) (x : Rat) : Rat := match o with | .shl => qshl x n | .shr => qshr x n

theorem evalTmp_ty (env : Env) : ∀ (e : E) (v : Val), evalTmp env e = some v → v.ty = e.ty := by
  intro e
  induction e with
  | zv i => intro v h; simp [evalTmp] at h; subst h; rfl
  | qv i => intro v h; simp [evalTmp] at h; subst h; rfl
  | zn i => intro v h; simp [evalTmp] at h; subst h; rfl
  | zd i => intro v h; simp [evalTmp] at h; subst h; rfl
  | un o a ih =>
    intro v h; simp only [evalTmp] at h
    cases ha : evalTmp env a with
    | none => simp [ha] at h
    | some x =>
      have := ih x ha
      rw [ha] at h; simp only [Option.bind_some] at h
      cases x with
      | z y => simp only [unV, Option.map_eq_some_iff] at h; obtain ⟨_, _, rfl⟩ := h; simpa [E.ty, Val.ty] using this
      | q y => simp only [unV, Option.map_eq_some_iff] at h; obtain ⟨_, _, rfl⟩ := h; simpa [E.ty, Val.ty] using this
  | bin o a b iha ihb =>
    intro v h; simp only [evalTmp] at h
    cases ha : evalTmp env a with
    | none => simp [ha] at h
    | some x =>
      cases hb : evalTmp env b with
      | none => simp [ha, hb] at h
      | some y =>
        have ta := iha x ha; have tb := ihb y hb
        rw [ha, hb] at h; simp only [Option.bind_some] at h
        cases x <;> cases y <;> simp only [binV, Option.map_eq_some_iff] at h <;> obtain ⟨_, _, rfl⟩ := h <;>
          simp [E.ty, Val.ty] at * <;> simp [← ta, ← tb]
  | binL o c b ih =>
    intro v h; simp only [evalTmp] at h
    cases hb : evalTmp env b with
    | none => simp [hb] at h
    | some y =>
      have tb := ih y hb
      rw [hb] at h; simp only [Option.bind_some] at h
      cases hc : biVal y.ty c with
      | none => simp [hc] at h
      | some x =>
        rw [hc] at h; simp only [Option.bind_some] at h
        have tx : x.ty = y.ty := by
          cases c <;> cases hy : y.ty <;> simp [biVal, hy] at hc <;> (try (obtain ⟨_, _, rfl⟩ := hc)) <;> (try subst hc) <;> rfl
        cases x <;> cases y <;> simp only [binV, Option.map_eq_some_iff] at h <;> obtain ⟨_, _, rfl⟩ := h <;>
          simp [E.ty, Val.ty] at * <;> simp [← tb]
  | binR o a c ih =>
    intro v h; simp only [evalTmp] at h
    cases ha : evalTmp env a with
    | none => simp [ha] at h
    | some x =>
      have ta := ih x ha
      rw [ha] at h; simp only [Option.bind_some] at h
      cases hc : biVal x.ty c with
      | none => simp [hc] at h
      | some y =>
        rw [hc] at h; simp only [Option.bind_some] at h
        have ty : y.ty = x.ty := by
          cases c <;> cases hx : x.ty <;> simp [biVal, hx] at hc <;> (try (obtain ⟨_, _, rfl⟩ := hc)) <;> (try subst hc) <;> rfl
        cases x <;> cases y <;> simp only [binV, Option.map_eq_some_iff] at h <;> obtain ⟨_, _, rfl⟩ := h <;>
          simp [E.ty, Val.ty] at * <;> simp [← ta]
  | sh o a n ih =>
    intro v h; simp only [evalTmp, Option.map_eq_some_iff] at h
    obtain ⟨x, hx, rfl⟩ := h
    have := ih x hx
    cases x <;> simpa [shV, E.ty, Val.ty] using this


theorem val_of_ty_q {v : Val} (h : v.ty = .q) : ∃ r, v = .q r := by
  cases v <;> simp [Val.ty] at h; exact ⟨_, rfl⟩
theorem val_of_ty_z {v : Val} (h : v.ty = .z) : ∃ x, v = .z x := by
  cases v <;> simp [Val.ty] at h; exact ⟨_, rfl⟩

theorem biVal_q (c : Bi) : biVal .q c = (biRat c).map Val.q := by
  cases c <;> simp [biVal, biRat, Option.map_map, Function.comp_def]

theorem evalTmpR_z (h : Heap) (e : E) (hty : e.ty = .z) (hc : e.canon h) :
    evalTmpR h.abs e = (evalTmpZ h.get e).map fun x => ((x : Int) : Rat) := by
  unfold evalTmpR; rw [evalTmp_z h e hty hc, Option.map_map]; rfl

theorem evalTmpR_un (env : Env) (o : Un) (a : E) (hty : a.ty = .q) :
    evalTmpR env (.un o a) = (evalTmpR env a).bind (unQ o) := by
  unfold evalTmpR; simp only [evalTmp]
  cases ha : evalTmp env a with
  | none => rfl
  | some v =>
    obtain ⟨r, rfl⟩ := val_of_ty_q ((evalTmp_ty env a v ha).trans hty)
    simp only [Option.bind_some, unV, Option.map_some, Val.toQ, Option.map_map]
    cases unQ o r <;> rfl

theorem evalTmpR_sh (env : Env) (o : Sh) (a : E) (n : Nat) (hty : a.ty = .q) :
    evalTmpR env (.sh o a n) = (evalTmpR env a).map (shQ o n) := by
  unfold evalTmpR; simp only [evalTmp]
  cases ha : evalTmp env a with
  | none => rfl
  | some v =>
    obtain ⟨r, rfl⟩ := val_of_ty_q ((evalTmp_ty env a v ha).trans hty)
    simp only [Option.map_some, shV, Val.toQ, shQ]
    cases o <;> rfl

theorem binV_q {o : Bin} {x y : Val} (h : ¬(x.ty = .z ∧ y.ty = .z)) :
    (binV o x y).map Val.toQ = binQ o x.toQ y.toQ := by
  cases x <;> cases y <;> simp [Val.ty] at h <;> simp only [binV, Option.map_map] <;> cases binQ o _ _ <;> rfl

theorem evalTmpR_bin (env : Env) (o : Bin) (a b : E) (hty : ¬(a.ty = .z ∧ b.ty = .z)) :
    evalTmpR env (.bin o a b) = (evalTmpR env a).bind fun x => (evalTmpR env b).bind fun y => binQ o x y := by
  unfold evalTmpR; simp only [evalTmp]
  cases ha : evalTmp env a with
  | none => rfl
  | some va =>
    cases hb : evalTmp env b with
    | none => rfl
    | some vb =>
      simp only [Option.bind_some, Option.map_some]
      apply binV_q
      rw [evalTmp_ty env a va ha, evalTmp_ty env b vb hb]; exact hty

theorem evalTmpR_binL (env : Env) (o : Bin) (c : Bi) (b : E) (hty : b.ty = .q) :
    evalTmpR env (.binL o c b) = (evalTmpR env b).bind fun y => (biRat c).bind fun x => binQ o x y := by
  unfold evalTmpR; simp only [evalTmp]
  cases hb : evalTmp env b with
  | none => rfl
  | some vb =>
    obtain ⟨r, rfl⟩ := val_of_ty_q ((evalTmp_ty env b vb hb).trans hty)
    simp only [Option.bind_some, Option.map_some, Val.ty, biVal_q, Val.toQ]
    cases biRat c with
    | none => rfl
    | some x => simp only [Option.map_some, Option.bind_some]; exact binV_q (by simp [Val.ty])

theorem evalTmpR_binR (env : Env) (o : Bin) (a : E) (c : Bi) (hty : a.ty = .q) :
    evalTmpR env (.binR o a c) = (evalTmpR env a).bind fun x => (biRat c).bind fun y => binQ o x y := by
  unfold evalTmpR; simp only [evalTmp]
  cases ha : evalTmp env a with
  | none => rfl
  | some va =>
    obtain ⟨r, rfl⟩ := val_of_ty_q ((evalTmp_ty env a va ha).trans hty)
    simp only [Option.bind_some, Option.map_some, Val.ty, biVal_q, Val.toQ]
    cases biRat c with
    | none => rfl
    | some x => simp only [Option.map_some, Option.bind_some]; exact binV_q (by simp [Val.ty])

/-! frames -/

def E.qbelow (k : Nat) : E → Prop
  | .zv _ => True
  | .qv i => i < k
  | .zn i => i < k
  | .zd i => i < k
  | .un _ a => a.qbelow k
  | .bin _ a b => a.qbelow k ∧ b.qbelow k
  | .binL _ _ b => b.qbelow k
  | .binR _ a _ => a.qbelow k
  | .sh _ a _ => a.qbelow k

theorem E.qbelow_mono {k k' : Nat} (hk : k ≤ k') : ∀ (e : E), e.qbelow k → e.qbelow k' := by
  intro e
  induction e with
  | zv i => intro _; trivial
  | qv i => intro h; simp only [E.qbelow] at *; omega
  | zn i => intro h; simp only [E.qbelow] at *; omega
  | zd i => intro h; simp only [E.qbelow] at *; omega
  | un o a ih => exact ih
  | bin o a b iha ihb => intro h; exact ⟨iha h.1, ihb h.2⟩
  | binL o c b ih => exact ih
  | binR o a c ih => exact ih
  | sh o a n ih => exact ih

/-- objects (of either pool) with index below `k` -/
def ZLoc.belowQ (k : Nat) : ZLoc → Prop
  | .v i => i < k
  | .num i => i < k
  | .den i => i < k

theorem ZLoc.belowQ_mono {k k' : Nat} (hk : k ≤ k') {l : ZLoc} (h : l.belowQ k) : l.belowQ k' := by
  cases l <;> simp only [ZLoc.belowQ] at * <;> omega

theorem ZLoc.below_of_belowQ {k : Nat} {l : ZLoc} (h : l.belowQ k) : l.below k := by
  cases l <;> simp only [ZLoc.belowQ, ZLoc.below] at * <;> trivial

/-- two heaps agree on everything below `k` -/
def AgreeBelow (k : Nat) (h h' : Heap) : Prop := ∀ l : ZLoc, l.belowQ k → h' l = h l

theorem evalTmp_agree {k : Nat} {h h' : Heap} (hag : AgreeBelow k h h') :
    ∀ (e : E), e.zbelow k → e.qbelow k → evalTmp h'.abs e = evalTmp h.abs e := by
  intro e
  induction e with
  | zv i => intro hz _; simp only [evalTmp, Heap.abs]; rw [hag (.v i) hz]
  | qv i =>
    intro _ hq; simp only [evalTmp, Heap.abs, qval]
    rw [hag (.num i) hq, hag (.den i) hq]
  | zn i =>
    intro _ hq; simp only [evalTmp, Heap.abs, qval]
    rw [hag (.num i) hq, hag (.den i) hq]
  | zd i =>
    intro _ hq; simp only [evalTmp, Heap.abs, qval]
    rw [hag (.num i) hq, hag (.den i) hq]
  | un o a ih => intro hz hq; simp only [evalTmp, ih hz hq]
  | bin o a b iha ihb => intro hz hq; simp only [evalTmp, iha hz.1 hq.1, ihb hz.2 hq.2]
  | binL o c b ih => intro hz hq; simp only [evalTmp, ih hz hq]
  | binR o a c ih => intro hz hq; simp only [evalTmp, ih hz hq]
  | sh o a n ih => intro hz hq; simp only [evalTmp, ih hz hq]

theorem canon_agree {k : Nat} {h h' : Heap} (hag : AgreeBelow k h h') :
    ∀ (e : E), e.qbelow k → e.canon h → e.canon h' := by
  intro e
  induction e with
  | zv i => intro _ _; trivial
  | qv i =>
    intro hq hc; simp only [E.canon, Canon] at *
    rw [hag (.num i) hq, hag (.den i) hq]; exact hc
  | zn i =>
    intro hq hc; simp only [E.canon, Canon] at *
    rw [hag (.num i) hq, hag (.den i) hq]; exact hc
  | zd i =>
    intro hq hc; simp only [E.canon, Canon] at *
    rw [hag (.num i) hq, hag (.den i) hq]; exact hc
  | un o a ih => exact ih
  | bin o a b iha ihb => intro hq hc; exact ⟨iha hq.1 hc.1, ihb hq.2 hc.2⟩
  | binL o c b ih => exact ih
  | binR o a c ih => exact ih
  | sh o a n ih => exact ih

def PostQ (k p : Nat) (h : Heap) (r : Option Rat) (res : Option Heap) : Prop :=
  match r with
  | none => res = none
  | some x => ∃ h', res = some h' ∧ Canon h' p ∧ qval h' p = x ∧
      ∀ l : ZLoc, l.belowQ k → l ≠ .num p → l ≠ .den p → h' l = h l

theorem PostQ.of_setQ {k p : Nat} {h : Heap} {r : Option Rat} :
    PostQ k p h r (r.map fun x => h.setQ p x) := by
  cases r with
  | none => rfl
  | some x => exact ⟨_, rfl, Canon_setQ h p x, qval_setQ h p x, fun l _ h1 h2 => setQ_get_ne h p x l h1 h2⟩

theorem mpq_set_eq {h : Heap} {r : Nat} (p : Nat) (hc : Canon h r) : mpq_set p r h = h.setQ p (qval h r) := by
  have := copyQ_eq p hc
  unfold copyQ at this
  by_cases hpr : p = r
  · subst hpr
    unfold mpq_set
    rw [Heap.set_self, Heap.set_self, setQ_self hc]
  · simpa [hpr] using this

theorem qleaf?_some {a : E} {i : Nat} (h : a.qleaf? = some i) : a = .qv i := by
  cases a <;> simp [E.qleaf?] at h; subst h; rfl

theorem fnUnQ_spec (o : Un) (p r : Nat) (h : Heap) (hc : Canon h r) :
    fnUnQ o p r h = (unQ o (qval h r)).map (fun x => h.setQ p x) := by
  cases o <;> simp [fnUnQ, unQ, mpq_set_eq p hc, mpq_neg_eq p hc, mpq_abs_eq p hc]

theorem fnShQ_spec (cst : Bool) (o : Sh) (p r n : Nat) (h : Heap) (hc : Canon h r) :
    fnShQ cst o p r n h = some (h.setQ p (shQ o n (qval h r))) := by
  cases o <;> simp [fnShQ, shQ, Lshift.q_spec _ _ _ _ _ hc, Rshift.q_spec _ _ _ _ _ hc]

/-- conversion of an mpz-typed tree into an mpq destination: evaluated into the numerator field -/
theorem convZ_correct (cst : Bool) (e : E) (hty : e.ty = .z) (hwt : e.wt = true) (k p : Nat) (h : Heap) (hb : e.zbelow k) :
    PostQ k p h ((evalTmpZ h.get e).map fun x => ((x : Int) : Rat)) (convZ cst k p e h) := by
  unfold convZ
  have H := evalZ_correct cst e hty hwt k (.num p) h trivial hb
  cases hr : evalTmpZ h.get e with
  | none => rw [hr] at H; simp only [Post] at H; simp [H, PostQ]
  | some x =>
    rw [hr] at H
    obtain ⟨h', e1, hx, hfr⟩ := H
    simp only [e1, Option.map_some, PostQ]
    refine ⟨_, rfl, ?_, ?_, fun l hl h1 h2 => ?_⟩
    · simp [Canon, mpz_set_ui, Heap.set]
    · simp only [qval, mpz_set_ui, Heap.set_get, Heap.set_get_ne _ (.den p) (.num p) _ (by simp), hx]
      simp [Rat.divInt_eq_div]
    · simp only [mpz_set_ui]; rw [Heap.set_get_ne _ _ _ _ h2]; exact hfr l (ZLoc.below_of_belowQ hl) h1


theorem PostQ.bind {k p : Nat} {h : Heap} {ra : Option Rat} {res : Option Heap} (H : PostQ k p h ra res)
    (g : Rat → Option Rat) (F : M)
    (hF : ∀ h1 : Heap, Canon h1 p → (∀ l : ZLoc, l.belowQ k → l ≠ .num p → l ≠ .den p → h1 l = h l) →
      F h1 = (g (qval h1 p)).map (fun r => h1.setQ p r)) :
    PostQ k p h (ra.bind g) (res.bind F) := by
  cases ra with
  | none => simp only [PostQ] at H; subst H; rfl
  | some x =>
    obtain ⟨h1, e1, hc, hx, hfr⟩ := H
    subst e1
    simp only [Option.bind_some, hF h1 hc hfr, hx]
    cases g x with
    | none => rfl
    | some r =>
      exact ⟨_, rfl, Canon_setQ _ _ _, qval_setQ _ _ _, fun l hl h1' h2' => by rw [setQ_get_ne _ _ _ _ h1' h2']; exact hfr l hl h1' h2'⟩

theorem PostQ.rebase {k p : Nat} {h h1 : Heap} {r : Option Rat} {res : Option Heap}
    (H : PostQ (k + 1) p h1 r res) (hag : AgreeBelow k h h1) : PostQ k p h r res := by
  cases r with
  | none => exact H
  | some x =>
    obtain ⟨h2, e1, hc, hx, hfr⟩ := H
    exact ⟨h2, e1, hc, hx, fun l hl a b => by rw [hfr l (ZLoc.belowQ_mono (by omega) hl) a b]; exact hag l hl⟩

/-- after evaluating a temporary mpq object `k`, everything below `k` is as before -/
theorem agree_of_PostQ_temp {k : Nat} {h h1 : Heap}
    (hfr : ∀ l : ZLoc, l.belowQ (k + 1) → l ≠ .num k → l ≠ .den k → h1 l = h l) : AgreeBelow k h h1 := by
  intro l hl
  apply hfr l (ZLoc.belowQ_mono (by omega) hl) <;> (intro e; subst e; simp [ZLoc.belowQ] at hl)

theorem agree_of_Post_temp {k : Nat} {h h1 : Heap}
    (hfr : ∀ l : ZLoc, l.below (k + 1) → l ≠ .v k → h1 l = h l) : AgreeBelow k h h1 := by
  intro l hl
  apply hfr l (ZLoc.below_mono (by omega) (ZLoc.below_of_belowQ hl))
  intro e; subst e; simp [ZLoc.belowQ] at hl

/-- final function-object call writing `p`, relative to a heap that agrees with `h` below `k` -/
theorem PostQ.final {k p : Nat} {h h1 : Heap} (hag : AgreeBelow k h h1) (r : Option Rat) :
    PostQ k p h r (r.map fun x => h1.setQ p x) := by
  cases r with
  | none => rfl
  | some x => exact ⟨_, rfl, Canon_setQ _ _ _, qval_setQ _ _ _, fun l hl a b => by rw [setQ_get_ne _ _ _ _ a b]; exact hag l hl⟩

theorem canon_of_agree {k i : Nat} {h h1 : Heap} (hag : AgreeBelow k h h1) (hi : i < k) (hc : Canon h i) : Canon h1 i := by
  unfold Canon at *; rw [hag (.num i) hi, hag (.den i) hi]; exact hc

theorem qval_of_agree {k i : Nat} {h h1 : Heap} (hag : AgreeBelow k h h1) (hi : i < k) : qval h1 i = qval h i := by
  unfold qval; rw [hag (.num i) hi, hag (.den i) hi]


/-- evaluate a temporary mpq object `k`, then continue -/
theorem tempQ_then {k p : Nat} {h : Heap} {rb : Option Rat} {res : Option Heap} (H : PostQ (k + 1) k h rb res)
    (g : Rat → Option Rat) (F : M)
    (hF : ∀ h1 : Heap, Canon h1 k → AgreeBelow k h h1 → PostQ k p h (g (qval h1 k)) (F h1)) :
    PostQ k p h (rb.bind g) (res.bind F) := by
  cases rb with
  | none => simp only [PostQ] at H; subst H; rfl
  | some y =>
    obtain ⟨h1, e1, hc, hy, hfr⟩ := H
    subst e1
    simp only [Option.bind_some]
    rw [← hy]; exact hF h1 hc (agree_of_PostQ_temp hfr)

/-- evaluate a temporary mpz object `.v k`, then continue -/
theorem tempZ_then {k p : Nat} {h : Heap} {ra : Option Int} {res : Option Heap} (H : Post (k + 1) (.v k) h ra res)
    (g : Rat → Option Rat) (F : M)
    (hF : ∀ h1 : Heap, AgreeBelow k h h1 → PostQ k p h (g ((h1 (.v k) : Int) : Rat)) (F h1)) :
    PostQ k p h ((ra.map fun x => ((x : Int) : Rat)).bind g) (res.bind F) := by
  cases ra with
  | none => simp only [Post] at H; subst H; rfl
  | some x =>
    obtain ⟨h1, e1, hx, hfr⟩ := H
    subst e1
    simp only [Option.map_some, Option.bind_some]
    rw [← hx]; exact hF h1 (agree_of_Post_temp hfr)

theorem evalTmpR_agree {k : Nat} {h h' : Heap} (hag : AgreeBelow k h h') (e : E) (hz : e.zbelow k) (hq : e.qbelow k) :
    evalTmpR h'.abs e = evalTmpR h.abs e := by
  unfold evalTmpR; rw [evalTmp_agree hag e hz hq]

theorem evalTmpR_qv (h : Heap) (i : Nat) : evalTmpR h.abs (.qv i) = some (qval h i) := rfl
theorem evalTmpR_zv (h : Heap) (i : Nat) : evalTmpR h.abs (.zv i) = some ((h (.v i) : Int) : Rat) := rfl

/-- an `mpz_class`-typed leaf (variable or accessor of a canonical mpq object) has the value of its object -/
theorem zleaf?_evalR {a : E} {l : ZLoc} (hl : a.zleaf? = some l) (h : Heap) (hc : a.canon h) :
    evalTmpR h.abs a = some ((h l : Int) : Rat) := by
  cases a <;> simp [E.zleaf?] at hl <;> subst hl
  · rfl
  · simp only [evalTmpR, evalTmp, Heap.abs, Option.map_some, Val.toQ, (qval_num_den hc).1]
  · have := (qval_num_den hc).2
    simp only [evalTmpR, evalTmp, Heap.abs, Option.map_some, Val.toQ, Int.ofNat_eq_natCast, this]

theorem zleaf?_belowQ {a : E} {l : ZLoc} (hl : a.zleaf? = some l) {k : Nat} (hz : a.zbelow k) (hq : a.qbelow k) : l.belowQ k := by
  cases a <;> simp [E.zleaf?] at hl <;> subst hl <;> first | simpa [ZLoc.belowQ, E.zbelow] using hz | simpa [ZLoc.belowQ, E.qbelow] using hq

theorem ty_q_of_ne_z {e : E} (h : ¬ e.ty = .z) : e.ty = .q := by
  cases h' : e.ty <;> simp_all


/-- The template strategy for an mpq destination is evaluation into temporaries: for every well-typed tree `e`
    (mpz- or mpq-typed, mixed operands, built-ins on either side), every destination object `p < k` (also one
    occurring in `e`), every heap whose mentioned mpq objects are canonical. -/
theorem evalQ_correct (cst : Bool) : ∀ (e : E), e.wt = true →
    ∀ (k p : Nat) (h : Heap), p < k → e.zbelow k → e.qbelow k → e.canon h →
      PostQ k p h (evalTmpR h.abs e) (evalQ cst k p e h) := by
  intro e
  induction e with
  | zv i =>
    intro _ k p h _ _ _ _
    simp only [evalQ, evalTmpR_zv, mpq_set_z_eq]
    exact PostQ.of_setQ (r := some _)
  | qv i =>
    intro _ k p h _ _ _ hc
    simp only [evalQ, evalTmpR_qv]
    rw [mpq_set_eq p hc]
    exact PostQ.of_setQ (r := some _)
  | zn i =>
    intro _ k p h _ _ _ hc
    rw [zleaf?_evalR (a := .zn i) rfl h hc]
    simp only [evalQ, mpq_set_z_eq]
    exact PostQ.of_setQ (r := some _)
  | zd i =>
    intro _ k p h _ _ _ hc
    rw [zleaf?_evalR (a := .zd i) rfl h hc]
    simp only [evalQ, mpq_set_z_eq]
    exact PostQ.of_setQ (r := some _)
  | un o a ih =>
    intro hwt k p h hp hz hq hc
    simp only [E.wt, Bool.and_eq_true] at hwt
    simp only [E.zbelow, E.qbelow, E.canon] at hz hq hc
    simp only [evalQ]
    by_cases hta : a.ty = .z
    · simp only [hta, if_true]
      rw [evalTmpR_z _ _ (by simpa [E.ty] using hta) (by simpa [E.canon] using hc)]
      exact convZ_correct cst (.un o a) (by simpa [E.ty] using hta) (by simp [E.wt, hwt.1, hta]) k p h hz
    · have htq := ty_q_of_ne_z hta
      simp only [hta, if_false]
      rw [evalTmpR_un _ _ _ htq]
      cases hl : a.qleaf? with
      | some i =>
        have := qleaf?_some hl; subst this
        simp only [evalTmpR_qv, Option.bind_some]
        rw [fnUnQ_spec o p i h hc]; exact PostQ.of_setQ
      | none =>
        simp only []
        exact PostQ.bind (ih hwt.1 k p h hp hz hq hc) (unQ o) (fnUnQ o p p) (fun h1 hc1 _ => fnUnQ_spec o p p h1 hc1)
  | sh o a n ih =>
    intro hwt k p h hp hz hq hc
    simp only [E.wt, Bool.and_eq_true] at hwt
    simp only [E.zbelow, E.qbelow, E.canon] at hz hq hc
    simp only [evalQ]
    by_cases hta : a.ty = .z
    · simp only [hta, if_true]
      rw [evalTmpR_z _ _ (by simpa [E.ty] using hta) (by simpa [E.canon] using hc)]
      exact convZ_correct cst (.sh o a n) (by simpa [E.ty] using hta) (by simp [E.wt, hwt.1, hwt.2]) k p h hz
    · have htq := ty_q_of_ne_z hta
      simp only [hta, if_false]
      rw [evalTmpR_sh _ _ _ _ htq]
      cases hl : a.qleaf? with
      | some i =>
        have := qleaf?_some hl; subst this
        simp only [evalTmpR_qv, Option.map_some]
        rw [fnShQ_spec cst o p i n h hc]; exact PostQ.of_setQ (r := some _)
      | none =>
        simp only []
        have := PostQ.bind (ih hwt.1 k p h hp hz hq hc) (fun x => some (shQ o n x)) (fnShQ cst o p p n)
          (fun h1 hc1 _ => by rw [fnShQ_spec cst o p p n h1 hc1]; rfl)
        cases hr : evalTmpR h.abs a <;> simpa [hr] using this
  | binL o c b ih =>
    intro hwt k p h hp hz hq hc
    simp only [E.wt, Bool.and_eq_true] at hwt
    simp only [E.zbelow, E.qbelow, E.canon] at hz hq hc
    simp only [evalQ]
    by_cases htb : b.ty = .z
    · simp only [htb, if_true]
      rw [evalTmpR_z _ _ (by simpa [E.ty] using htb) (by simpa [E.canon] using hc)]
      exact convZ_correct cst (.binL o c b) (by simpa [E.ty] using htb) (by simp [E.wt, hwt.1.1, hwt.1.2, htb]) k p h hz
    · have htq := ty_q_of_ne_z htb
      have hoq : o.qOk = true := by simpa [htb] using hwt.2
      simp only [htb, if_false]
      rw [evalTmpR_binL _ _ _ _ htq]
      cases hl : b.qleaf? with
      | some j =>
        have := qleaf?_some hl; subst this
        simp only [evalTmpR_qv, Option.bind_some]
        rw [fnBinQ_spec cst o p (.bi c) (.q j) h hoq trivial hc hwt.1.1 trivial]
        simp only [argR, Option.bind_some]
        exact PostQ.of_setQ
      | none =>
        simp only []
        exact PostQ.bind (ih hwt.1.2 k p h hp hz hq hc) (fun y => (biRat c).bind fun x => binQ o x y) (fnBinQ cst o p (.bi c) (.q p))
          (fun h1 hc1 _ => by rw [fnBinQ_spec cst o p (.bi c) (.q p) h1 hoq trivial hc1 hwt.1.1 trivial]; simp only [argR, Option.bind_some])
  | binR o a c ih =>
    intro hwt k p h hp hz hq hc
    simp only [E.wt, Bool.and_eq_true] at hwt
    simp only [E.zbelow, E.qbelow, E.canon] at hz hq hc
    simp only [evalQ]
    by_cases hta : a.ty = .z
    · simp only [hta, if_true]
      rw [evalTmpR_z _ _ (by simpa [E.ty] using hta) (by simpa [E.canon] using hc)]
      exact convZ_correct cst (.binR o a c) (by simpa [E.ty] using hta) (by simp [E.wt, hwt.1.1, hwt.1.2, hta]) k p h hz
    · have htq := ty_q_of_ne_z hta
      have hoq : o.qOk = true := by simpa [hta] using hwt.2
      simp only [hta, if_false]
      rw [evalTmpR_binR _ _ _ _ htq]
      cases hl : a.qleaf? with
      | some i =>
        have := qleaf?_some hl; subst this
        simp only [evalTmpR_qv, Option.bind_some]
        rw [fnBinQ_spec cst o p (.q i) (.bi c) h hoq hc trivial trivial hwt.1.1]
        simp only [argR, Option.bind_some]
        exact PostQ.of_setQ
      | none =>
        simp only []
        exact PostQ.bind (ih hwt.1.2 k p h hp hz hq hc) (fun x => (biRat c).bind fun y => binQ o x y) (fnBinQ cst o p (.q p) (.bi c))
          (fun h1 hc1 _ => by rw [fnBinQ_spec cst o p (.q p) (.bi c) h1 hoq hc1 trivial trivial hwt.1.1]; simp only [argR, Option.bind_some])
  | bin o a b iha ihb =>
    intro hwt k p h hp hz hq hc
    simp only [E.wt, Bool.and_eq_true] at hwt
    simp only [E.zbelow, E.qbelow, E.canon] at hz hq hc
    obtain ⟨⟨hwa, hwb⟩, hop⟩ := hwt
    have hk1 : k ≤ k + 1 := by omega
    simp only [evalQ]
    by_cases hzz : a.ty = .z ∧ b.ty = .z
    · rw [if_pos hzz, evalTmpR_z _ _ (by simp [E.ty, hzz]) (by simpa [E.canon] using hc)]
      exact convZ_correct cst (.bin o a b) (by simp [E.ty, hzz]) (by simp [E.wt, hwa, hwb, hzz]) k p h hz
    · have hoq : o.qOk = true := by
        rcases Bool.or_eq_true _ _ |>.mp hop with h1 | h1
        · exact absurd (by simpa using h1) hzz
        · exact h1
      rw [if_neg hzz, evalTmpR_bin _ _ _ _ hzz]
      by_cases hA : isAddSub o = true ∧ a.ty = .z
      · -- mpz ± mpq
        rw [if_pos hA]
        have htb : b.ty = .q := ty_q_of_ne_z (fun hb => hzz ⟨hA.2, hb⟩)
        cases hla : a.zleaf? with
        | some i =>
          have hBi : i.belowQ k := zleaf?_belowQ hla hz.1 hq.1
          rw [zleaf?_evalR hla h hc.1]
          cases hlb : b.qleaf? with
          | some j =>
            have := qleaf?_some hlb; subst this
            simp only [evalTmpR_qv, Option.bind_some]
            rw [fnBinQ_spec cst o p (.z i) (.q j) h hA.1 trivial hc.2 trivial trivial]
            exact PostQ.of_setQ
          | none =>
            simp only [Option.bind_some]
            refine tempQ_then (ihb hwb (k + 1) k h (by omega) (E.zbelow_mono hk1 _ hz.2) (E.qbelow_mono hk1 _ hq.2) hc.2)
              (fun y => binQ o ((h i : Int) : Rat) y) (fnBinQ cst o p (.z i) (.q k)) (fun h1 hc1 hag => ?_)
            rw [fnBinQ_spec cst o p (.z i) (.q k) h1 hA.1 trivial hc1 trivial trivial]
            simp only [argR, Option.bind_some, hag i hBi]
            exact PostQ.final hag _
        | none =>
          rw [evalTmpR_z _ a hA.2 hc.1]
          have HZ := evalZ_correct cst a hA.2 hwa (k + 1) (.v k) h (by simp [ZLoc.below]) (E.zbelow_mono hk1 _ hz.1)
          cases hlb : b.qleaf? with
          | some j =>
            have := qleaf?_some hlb; subst this
            simp only [evalTmpR_qv]
            refine tempZ_then HZ (fun x => (some (qval h j)).bind fun y => binQ o x y) (fnBinQ cst o p (.z (.v k)) (.q j)) (fun h1 hag => ?_)
            rw [fnBinQ_spec cst o p (.z (.v k)) (.q j) h1 hA.1 trivial (canon_of_agree hag hq.2 hc.2) trivial trivial]
            simp only [argR, Option.bind_some, qval_of_agree hag hq.2]
            exact PostQ.final hag _
          | none =>
            simp only []
            refine tempZ_then HZ (fun x => (evalTmpR h.abs b).bind fun y => binQ o x y)
              (fun h1 => (evalQ cst (k + 1) p b h1).bind (fnBinQ cst o p (.z (.v k)) (.q p))) (fun h1 hag => ?_)
            have IH := ihb hwb (k + 1) p h1 (by omega) (E.zbelow_mono hk1 _ hz.2) (E.qbelow_mono hk1 _ hq.2) (canon_agree hag _ hq.2 hc.2)
            rw [evalTmpR_agree hag b hz.2 hq.2] at IH
            refine PostQ.rebase (PostQ.bind IH _ _ (fun h2 hc2 hfr2 => ?_)) hag
            rw [fnBinQ_spec cst o p (.z (.v k)) (.q p) h2 hA.1 trivial hc2 trivial trivial]
            have e : h2 (.v k) = h1 (.v k) := hfr2 _ (by simp [ZLoc.belowQ]) (by simp) (by simp)
            simp only [argR, Option.bind_some, e]
      · rw [if_neg hA]
        by_cases hB : isAddSub o = true ∧ b.ty = .z
        · -- mpq ± mpz
          rw [if_pos hB]
          have hta : a.ty = .q := ty_q_of_ne_z (fun ha => hzz ⟨ha, hB.2⟩)
          cases hla : a.qleaf? with
          | some i =>
            have := qleaf?_some hla; subst this
            cases hlb : b.zleaf? with
            | some j =>
              rw [zleaf?_evalR hlb h hc.2]
              simp only [evalTmpR_qv, Option.bind_some]
              rw [fnBinQ_spec cst o p (.q i) (.z j) h hB.1 hc.1 trivial trivial trivial]
              exact PostQ.of_setQ
            | none =>
              simp only [evalTmpR_qv, Option.bind_some]
              rw [evalTmpR_z _ b hB.2 hc.2]
              have HZ := evalZ_correct cst b hB.2 hwb (k + 1) (.v k) h (by simp [ZLoc.below]) (E.zbelow_mono hk1 _ hz.2)
              refine tempZ_then HZ (fun y => binQ o (qval h i) y) (fnBinQ cst o p (.q i) (.z (.v k))) (fun h1 hag => ?_)
              rw [fnBinQ_spec cst o p (.q i) (.z (.v k)) h1 hB.1 (canon_of_agree hag hq.1 hc.1) trivial trivial trivial]
              simp only [argR, Option.bind_some, qval_of_agree hag hq.1]
              exact PostQ.final hag _
          | none =>
            rw [Option.bind_comm]
            cases hlb : b.zleaf? with
            | some j =>
              have hBj : j.belowQ k := zleaf?_belowQ hlb hz.2 hq.2
              rw [zleaf?_evalR hlb h hc.2]
              simp only [Option.bind_some]
              refine tempQ_then (iha hwa (k + 1) k h (by omega) (E.zbelow_mono hk1 _ hz.1) (E.qbelow_mono hk1 _ hq.1) hc.1)
                (fun x => binQ o x ((h j : Int) : Rat)) (fnBinQ cst o p (.q k) (.z j)) (fun h1 hc1 hag => ?_)
              rw [fnBinQ_spec cst o p (.q k) (.z j) h1 hB.1 hc1 trivial trivial trivial]
              simp only [argR, Option.bind_some, hag j hBj]
              exact PostQ.final hag _
            | none =>
              simp only []
              rw [evalTmpR_z _ b hB.2 hc.2]
              have HZ := evalZ_correct cst b hB.2 hwb (k + 1) (.v k) h (by simp [ZLoc.below]) (E.zbelow_mono hk1 _ hz.2)
              refine tempZ_then HZ (fun y => (evalTmpR h.abs a).bind fun x => binQ o x y)
                (fun h1 => (evalQ cst (k + 1) p a h1).bind (fnBinQ cst o p (.q p) (.z (.v k)))) (fun h1 hag => ?_)
              have IH := iha hwa (k + 1) p h1 (by omega) (E.zbelow_mono hk1 _ hz.1) (E.qbelow_mono hk1 _ hq.1) (canon_agree hag _ hq.1 hc.1)
              rw [evalTmpR_agree hag a hz.1 hq.1] at IH
              refine PostQ.rebase (PostQ.bind IH _ _ (fun h2 hc2 hfr2 => ?_)) hag
              rw [fnBinQ_spec cst o p (.q p) (.z (.v k)) h2 hB.1 hc2 trivial trivial trivial]
              have e : h2 (.v k) = h1 (.v k) := hfr2 _ (by simp [ZLoc.belowQ]) (by simp) (by simp)
              simp only [argR, Option.bind_some, e]
        · -- generic rules
          rw [if_neg hB]
          cases hla : a.qleaf? with
          | some i =>
            have := qleaf?_some hla; subst this
            cases hlb : b.qleaf? with
            | some j =>
              have := qleaf?_some hlb; subst this
              simp only [evalTmpR_qv, Option.bind_some]
              rw [fnBinQ_spec cst o p (.q i) (.q j) h hoq hc.1 hc.2 trivial trivial]
              exact PostQ.of_setQ
            | none =>
              simp only [evalTmpR_qv, Option.bind_some]
              by_cases hpi : p ≠ i
              · simp only [hpi, ne_eq, not_false_eq_true, if_true]
                refine PostQ.bind (ihb hwb k p h hp hz.2 hq.2 hc.2) (fun y => binQ o (qval h i) y) _ (fun h1 hc1 hfr => ?_)
                have hni : (ZLoc.num i) ≠ .num p := by intro e; injection e with e; exact hpi e.symm
                have hdi : (ZLoc.den i) ≠ .den p := by intro e; injection e with e; exact hpi e.symm
                have e1 := hfr (.num i) hq.1 hni (by simp)
                have e2 := hfr (.den i) hq.1 (by simp) hdi
                have hci : Canon h1 i := by unfold Canon at *; rw [e1, e2]; exact hc.1
                rw [fnBinQ_spec cst o p (.q i) (.q p) h1 hoq hci hc1 trivial trivial]
                simp only [argR, Option.bind_some, qval, e1, e2]
              · simp only [hpi, if_false]
                refine tempQ_then (ihb hwb (k + 1) k h (by omega) (E.zbelow_mono hk1 _ hz.2) (E.qbelow_mono hk1 _ hq.2) hc.2)
                  (fun y => binQ o (qval h i) y) (fnBinQ cst o p (.q i) (.q k)) (fun h1 hc1 hag => ?_)
                rw [fnBinQ_spec cst o p (.q i) (.q k) h1 hoq (canon_of_agree hag hq.1 hc.1) hc1 trivial trivial]
                simp only [argR, Option.bind_some, qval_of_agree hag hq.1]
                exact PostQ.final hag _
          | none =>
            cases hlb : b.qleaf? with
            | some j =>
              have := qleaf?_some hlb; subst this
              rw [Option.bind_comm]
              simp only [evalTmpR_qv, Option.bind_some]
              by_cases hpj : p ≠ j
              · simp only [hpj, ne_eq, not_false_eq_true, if_true]
                refine PostQ.bind (iha hwa k p h hp hz.1 hq.1 hc.1) (fun x => binQ o x (qval h j)) _ (fun h1 hc1 hfr => ?_)
                have hnj : (ZLoc.num j) ≠ .num p := by intro e; injection e with e; exact hpj e.symm
                have hdj : (ZLoc.den j) ≠ .den p := by intro e; injection e with e; exact hpj e.symm
                have e1 := hfr (.num j) hq.2 hnj (by simp)
                have e2 := hfr (.den j) hq.2 (by simp) hdj
                have hcj : Canon h1 j := by unfold Canon at *; rw [e1, e2]; exact hc.2
                rw [fnBinQ_spec cst o p (.q p) (.q j) h1 hoq hc1 hcj trivial trivial]
                simp only [argR, Option.bind_some, qval, e1, e2]
              · simp only [hpj, if_false]
                refine tempQ_then (iha hwa (k + 1) k h (by omega) (E.zbelow_mono hk1 _ hz.1) (E.qbelow_mono hk1 _ hq.1) hc.1)
                  (fun x => binQ o x (qval h j)) (fnBinQ cst o p (.q k) (.q j)) (fun h1 hc1 hag => ?_)
                rw [fnBinQ_spec cst o p (.q k) (.q j) h1 hoq hc1 (canon_of_agree hag hq.2 hc.2) trivial trivial]
                simp only [argR, Option.bind_some, qval_of_agree hag hq.2]
                exact PostQ.final hag _
            | none =>
              simp only []
              by_cases hta : a.ty = .q
              · simp only [hta, if_true]
                rw [Option.bind_comm]
                refine tempQ_then (ihb hwb (k + 1) k h (by omega) (E.zbelow_mono hk1 _ hz.2) (E.qbelow_mono hk1 _ hq.2) hc.2)
                  (fun y => (evalTmpR h.abs a).bind fun x => binQ o x y)
                  (fun h1 => (evalQ cst (k + 1) p a h1).bind (fnBinQ cst o p (.q p) (.q k))) (fun h1 hc1 hag => ?_)
                have IH := iha hwa (k + 1) p h1 (by omega) (E.zbelow_mono hk1 _ hz.1) (E.qbelow_mono hk1 _ hq.1) (canon_agree hag _ hq.1 hc.1)
                rw [evalTmpR_agree hag a hz.1 hq.1] at IH
                refine PostQ.rebase (PostQ.bind IH _ _ (fun h2 hc2 hfr2 => ?_)) hag
                have hnk : (ZLoc.num k) ≠ .num p := by intro e; injection e with e; omega
                have hdk : (ZLoc.den k) ≠ .den p := by intro e; injection e with e; omega
                have e1 := hfr2 (.num k) (by simp [ZLoc.belowQ]) hnk (by simp)
                have e2 := hfr2 (.den k) (by simp [ZLoc.belowQ]) (by simp) hdk
                have hck : Canon h2 k := by unfold Canon at *; rw [e1, e2]; exact hc1
                rw [fnBinQ_spec cst o p (.q p) (.q k) h2 hoq hc2 hck trivial trivial]
                simp only [argR, Option.bind_some, qval, e1, e2]
              · simp only [hta, if_false]
                refine tempQ_then (iha hwa (k + 1) k h (by omega) (E.zbelow_mono hk1 _ hz.1) (E.qbelow_mono hk1 _ hq.1) hc.1)
                  (fun x => (evalTmpR h.abs b).bind fun y => binQ o x y)
                  (fun h1 => (evalQ cst (k + 1) p b h1).bind (fnBinQ cst o p (.q k) (.q p))) (fun h1 hc1 hag => ?_)
                have IH := ihb hwb (k + 1) p h1 (by omega) (E.zbelow_mono hk1 _ hz.2) (E.qbelow_mono hk1 _ hq.2) (canon_agree hag _ hq.2 hc.2)
                rw [evalTmpR_agree hag b hz.2 hq.2] at IH
                refine PostQ.rebase (PostQ.bind IH _ _ (fun h2 hc2 hfr2 => ?_)) hag
                have hnk : (ZLoc.num k) ≠ .num p := by intro e; injection e with e; omega
                have hdk : (ZLoc.den k) ≠ .den p := by intro e; injection e with e; omega
                have e1 := hfr2 (.num k) (by simp [ZLoc.belowQ]) hnk (by simp)
                have e2 := hfr2 (.den k) (by simp [ZLoc.belowQ]) (by simp) hdk
                have hck : Canon h2 k := by unfold Canon at *; rw [e1, e2]; exact hc1
                rw [fnBinQ_spec cst o p (.q k) (.q p) h2 hoq hck hc2 trivial trivial]
                simp only [argR, Option.bind_some, qval, e1, e2]


end Mpir.Cxx
