/- mpn_mul_trunc_sqrt2 (value-level transforms, limb-level split / pointwise product / combine) computes the product. -/
import MpirProofs.Lemmas.FftXConv
import Mpir.Model.FftParams
set_option linter.unusedSimpArgs false
namespace Mpir.FftX
open Mpir Finset

/-! ### coefficient lists as sequences -/

theorem polyEval_eq_sum (bits : Nat) (cs : List (List Nat)) :
    (Fft.polyEval bits cs : Int) = ∑ j ∈ range cs.length, (val (cs.getD j []) : Int) * ((2 : Int) ^ bits) ^ j := by
  induction cs with
  | nil => simp [Fft.polyEval]
  | cons c cs ih =>
    rw [List.length_cons, sum_range_succ', Fft.polyEval]
    push_cast
    rw [ih, mul_sum]
    simp only [List.getD_cons_succ, List.getD_cons_zero, pow_zero, mul_one, pow_succ]
    rw [add_comm]; congr 1
    apply sum_congr rfl; intro j _; ring

/-- `ii[j]` after mpir_fft_split_bits and the zeroing of the remaining entries (mul_trunc_sqrt2.c:82-84) -/
def padC (N : Nat) (cs : List (List Nat)) : List Int :=
  (cs.map fun c => Fft.rval c) ++ List.replicate (N - cs.length) (0 : Int)

theorem el_replicate_zero (k m : Nat) : el (List.replicate k (0 : Int)) m = 0 := by
  simp only [el, List.getD_eq_getElem?_getD, List.getElem?_replicate]; split <;> rfl

theorem el_padC (N L bits : Nat) (cs : List (List Nat))
    (hc : ∀ c ∈ cs, c.length = L + 1 ∧ Limbs c ∧ val c < 2 ^ bits) (hb : 2 ^ bits ≤ B ^ L) (i : Nat) :
    el (padC N cs) i = if i < cs.length then (val (cs.getD i []) : Int) else 0 := by
  unfold padC
  split_ifs with h
  · rw [el_append_left _ _ _ (by simpa using h)]
    have hm : cs.getD i [] ∈ cs := by
      rw [List.getD_eq_getElem?_getD, List.getElem?_eq_getElem h]; simp
    obtain ⟨h1, h2, h3⟩ := hc _ hm
    rw [← Fft.rval_of_small _ L h1 h2 (by omega)]
    simp [el, List.getD_eq_getElem?_getD, List.getElem?_eq_getElem h]
  · have : i = (cs.map fun c => Fft.rval c).length + (i - cs.length) := by simp; omega
    rw [this, el_append_right, el_replicate_zero]

theorem length_padC (N : Nat) (cs : List (List Nat)) (h : cs.length ≤ N) : (padC N cs).length = N := by
  simp [padC]; omega

theorem padC_eval (N L bits : Nat) (cs : List (List Nat))
    (hc : ∀ c ∈ cs, c.length = L + 1 ∧ Limbs c ∧ val c < 2 ^ bits) (hb : 2 ^ bits ≤ B ^ L) (hN : cs.length ≤ N) :
    ∑ i ∈ range N, el (padC N cs) i * ((2 : Int) ^ bits) ^ i = (Fft.polyEval bits cs : Int) := by
  rw [polyEval_eq_sum]
  have e : ∑ j ∈ range cs.length, (val (cs.getD j []) : Int) * ((2 : Int) ^ bits) ^ j =
      ∑ i ∈ range cs.length, el (padC N cs) i * ((2 : Int) ^ bits) ^ i := by
    apply sum_congr rfl; intro i hi
    rw [el_padC N L bits cs hc hb, if_pos (mem_range.mp hi)]
  rw [e]
  symm
  apply sum_subset (range_subset_range.mpr hN)
  intro i _ hi
  have : cs.length ≤ i := by simpa using hi
  rw [el_padC N L bits cs hc hb, if_neg (by omega)]; ring

/-! ### the transform chain: transform, multiply pointwise, transform back, scale = the acyclic convolution -/

theorem two_pow_ge (d : Nat) : d + 1 ≤ 2 ^ d := Nat.lt_two_pow_self

theorem conv_chain (depth w L trunc j1 j2 : Nat) (a b : List Int) (hL : 2 ^ depth * w = 64 * L) (hw : 1 ≤ w)
    (ht : TruncSOk depth trunc) (ha : ∀ i, j1 ≤ i → el a i = 0) (hb : ∀ k, j2 ≤ k → el b k = 0)
    (hj1 : 1 ≤ j1) (hj2 : 1 ≤ j2) (hJ : j1 + j2 ≤ trunc + 1) (j : Nat) (hj : j < trunc) :
    el (ifft_trunc_sqrt2 depth w trunc
        ((List.range (4 * 2 ^ depth)).map fun j =>
          if j < trunc then pointwise L (64 * L) (el (fft_trunc_sqrt2 depth w trunc a) j) (el (fft_trunc_sqrt2 depth w trunc b) j)
          else el (fft_trunc_sqrt2 depth w trunc a) j)) j * 2 ^ (2 * (64 * L) - (depth + 2))
      ≡ el (conv a b (4 * 2 ^ depth)) j [ZMOD pOf (64 * L)] := by
  have hd : 64 ∣ 2 ^ depth * w := ⟨L, hL⟩
  have hL1 : 1 ≤ L := by
    have : 1 ≤ 2 ^ depth * w := Nat.mul_pos (two_pow_pos' _) hw
    omega
  have hN : 2 ^ (depth + 1 + 1) = 4 * 2 ^ depth := by rw [pow_succ, pow_succ]; ring
  obtain ⟨ht1, ht2, ht3⟩ := ht
  have ht : TruncSOk depth trunc := ⟨ht1, ht2, ht3⟩
  -- work in ZMod p
  rw [← zmod_eq_iff]
  set F := Int.castRingHom (ZMod (2 ^ (64 * L) + 1)) with hF
  have hz' : F 2 ^ (64 * L) = -1 := zmod_two_pow (64 * L)
  have hz : F 2 ^ (2 ^ depth * w) = -1 := (congrArg (fun e => F 2 ^ e) hL).trans hz'
  have hu : F 2 ^ (2 * (64 * L)) = 1 := by rw [pow_mul' (F 2) 2 (64 * L), hz']; norm_num
  have hza : ∀ i, trunc ≤ i → el a i = 0 := fun i hi => ha i (by omega)
  have hzb : ∀ i, trunc ≤ i → el b i = 0 := fun i hi => hb i (by omega)
  -- the pointwise products are the transform values of the convolution
  have H1 : ∀ k < trunc, F (el ((List.range (4 * 2 ^ depth)).map fun j =>
        if j < trunc then pointwise L (64 * L) (el (fft_trunc_sqrt2 depth w trunc a) j) (el (fft_trunc_sqrt2 depth w trunc b) j)
        else el (fft_trunc_sqrt2 depth w trunc a) j) k) =
      F (el (fft_full_sqrt2 depth w (conv a b (4 * 2 ^ depth))) k) := by
    intro k hk
    have hk4 : k < 2 ^ (depth + 1 + 1) := by omega
    rw [el_range_map _ _ _ (by omega), if_pos hk, (zmod_eq_iff (64 * L) _ _).mpr (pointwise_spec L hL1 _ _), map_mul,
      fft_trunc_sqrt2_eq _ _ _ _ ht hza k hk, fft_trunc_sqrt2_eq _ _ _ _ ht hzb k hk,
      fft_full_sqrt2_dft F depth w hd hz a k hk4, fft_full_sqrt2_dft F depth w hd hz b k hk4,
      fft_full_sqrt2_dft F depth w hd hz _ k hk4, hN]
    generalize F (s2 (2 ^ depth * w)) ^ w = σ
    generalize rev (depth + 1 + 1) k = r
    simp only [pow_mul]
    rw [← cauchy_range (fun i => F (el a i)) (fun i => F (el b i)) (σ ^ r) (4 * 2 ^ depth) j1 j2
      (fun i hi => by simp [ha i hi]) (fun i hi => by simp [hb i hi]) (by omega)]
    apply sum_congr rfl; intro i hi
    rw [el_conv _ _ _ _ (mem_range.mp hi), map_sum]
    congr 1
    apply sum_congr rfl; intro m _; rw [map_mul]
  have H0 : ∀ i, trunc ≤ i → i < 2 ^ (depth + 1 + 1) → F (el (conv a b (4 * 2 ^ depth)) i) = 0 := by
    intro i hi _
    rw [conv_zero a b _ j1 j2 i ha hb (by omega)]; simp
  have I := ifft_trunc_sqrt2_spec F depth w trunc ht hd hw hz (conv a b (4 * 2 ^ depth)) _ H1 H0 j hj
  rw [map_mul, I, map_pow]
  have hle : depth + 2 ≤ 2 * (64 * L) := by
    have := two_pow_ge depth
    have : 2 ^ depth ≤ 2 ^ depth * w := Nat.le_mul_of_pos_right _ hw
    omega
  have e := pow_mul_pow_sub_eq_one (F 2) (2 * (64 * L)) (depth + 2) hu hle
  have f2 : F 2 = 2 := by simp [hF]
  rw [f2] at e ⊢
  linear_combination (F (el (conv a b (4 * 2 ^ depth)) j)) * e

/-- the canonical residue of a value congruent to a small non-negative c is the limb vector of c, top limb 0 -/
theorem canon_of_small (L : Nat) (v c : Int) (h : v ≡ c [ZMOD pOf (64 * L)]) (hc0 : 0 ≤ c) (hc1 : c < 2 ^ (64 * L)) :
    (canon L v).length = L + 1 ∧ Limbs (canon L v) ∧ val (canon L v) < B ^ L ∧ (val (canon L v) : Int) = c := by
  obtain ⟨lo, t, e, ll, lL, ht, lv, fl, h0⟩ := canon_spec L v
  have hvm : v % pOf (64 * L) = c := by
    have hP : c < pOf (64 * L) := by unfold pOf; omega
    have := h; unfold Int.ModEq at this
    rw [this, Int.emod_eq_of_lt hc0 hP]
  have ht0 : t = 0 := by
    rcases ht with rfl | rfl
    · rfl
    · exfalso
      unfold Fft.flaggedb at fl; rw [if_pos rfl, hvm] at fl
      omega
  subst ht0
  have hBL : B ^ L = 2 ^ (64 * L) := Fft.B_pow_two' L
  rw [e]
  refine ⟨by simp [ll], Fft.Limbs_snoc.mpr ⟨lL, by unfold B; norm_num⟩, ?_, ?_⟩
  · rw [Fft.val_snoc]; simp; rw [hBL]; exact lv
  · rw [Fft.val_snoc]; simp; rw [h0 rfl, hvm]

theorem polyEval_range_map (bits J : Nat) (g : Nat → List Nat) :
    (Fft.polyEval bits ((List.range J).map g) : Int) = ∑ j ∈ range J, (val (g j) : Int) * ((2 : Int) ^ bits) ^ j := by
  rw [polyEval_eq_sum]
  simp only [List.length_map, List.length_range]
  apply sum_congr rfl; intro j hj
  have : j < J := mem_range.mp hj
  simp [List.getD_eq_getElem?_getD, this]

/-- mpn_mul_trunc_sqrt2 at parameters satisfying the conditions that `fft_params_sound` establishes:
    the result is the product -/
theorem mul_trunc_sqrt2_spec (i1 i2 : List Nat) (depth w : Nat) (hi1 : Limbs i1) (hi2 : Limbs i2)
    (hn1 : 1 ≤ i1.length) (hn2 : 1 ≤ i2.length)
    (hs : FftParams.Sound i1.length i2.length ⟨false, depth, w⟩) :
    (mul_trunc_sqrt2 i1 i2 depth w).length = i1.length + i2.length ∧ Limbs (mul_trunc_sqrt2 i1 i2 depth w) ∧
    val (mul_trunc_sqrt2 i1 i2 depth w) = val i1 * val i2 := by
  obtain ⟨s1, s2, s3, s4, s5, _⟩ := hs
  simp only [FftParams.limbBits, FftParams.bitsOf, FftParams.trunc, FftParams.coeffs] at s1 s2 s3 s4 s5
  unfold mul_trunc_sqrt2
  simp only []
  obtain ⟨L, hL⟩ := s1
  have eL : 2 ^ depth * w / 64 = L := by rw [hL]; omega
  rw [eL]
  generalize hbits : (2 ^ depth * w - (depth + 1)) / 2 = bits at *
  have hw : 1 ≤ w := by
    rcases Nat.eq_zero_or_pos w with h | h
    · subst h; simp at hbits; omega
    · exact h
  have hL1 : 1 ≤ L := by
    have : 1 ≤ 2 ^ depth * w := Nat.mul_pos (two_pow_pos' _) hw
    omega
  -- coefficient counts
  generalize hj1 : (i1.length * 64 - 1) / bits + 1 = j1 at *
  generalize hj2 : (i2.length * 64 - 1) / bits + 1 = j2 at *
  have hj1p : 1 ≤ j1 := by rw [← hj1]; exact Nat.le_add_left 1 _
  have hj2p : 1 ≤ j2 := by rw [← hj2]; exact Nat.le_add_left 1 _
  -- trunc
  generalize htr : 2 * (((if j1 + j2 - 1 ≤ 2 * 2 ^ depth then 2 * 2 ^ depth + 1 else j1 + j2 - 1) + 1) / 2) = trunc at *
  have ht : TruncSOk depth trunc := by
    refine ⟨by omega, ?_, ?_⟩ <;> (split_ifs at htr <;> omega)
  have hJt : j1 + j2 ≤ trunc + 1 := by split_ifs at htr <;> omega
  -- the split coefficients
  have hbL : 2 ^ bits ≤ B ^ L := by
    rw [Fft.B_pow_two']; apply Nat.pow_le_pow_right (by norm_num); omega
  have hol : (bits + 63) / 64 ≤ L + 1 := by omega
  obtain ⟨pa, ca, la⟩ := Fft.split_bits_val i1 bits L hi1 hn1 s2 hol
  obtain ⟨pb, cb, lb⟩ := Fft.split_bits_val i2 bits L hi2 hn2 s2 hol
  rw [Nat.mul_comm 64] at la lb
  rw [hj1] at la; rw [hj2] at lb
  -- the coefficient sequences
  rw [hL]
  set a := List.map (fun c => Fft.rval c) (Fft.split_bits i1 bits L) ++
    List.replicate (4 * 2 ^ depth - (Fft.split_bits i1 bits L).length) (0 : Int) with ha'
  set b := List.map (fun c => Fft.rval c) (Fft.split_bits i2 bits L) ++
    List.replicate (4 * 2 ^ depth - (Fft.split_bits i2 bits L).length) (0 : Int) with hb'
  have ha : a = padC (4 * 2 ^ depth) (Fft.split_bits i1 bits L) := rfl
  have hb : b = padC (4 * 2 ^ depth) (Fft.split_bits i2 bits L) := rfl
  have ea := el_padC (4 * 2 ^ depth) L bits _ ca hbL
  have eb := el_padC (4 * 2 ^ depth) L bits _ cb hbL
  rw [la] at ea; rw [lb] at eb
  have a0 : ∀ i, j1 ≤ i → el a i = 0 := fun i hi => by rw [ha, ea, if_neg (by omega)]
  have b0 : ∀ i, j2 ≤ i → el b i = 0 := fun i hi => by rw [hb, eb, if_neg (by omega)]
  have mem_getD : ∀ (cs : List (List Nat)) (i : Nat), i < cs.length → cs.getD i [] ∈ cs := by
    intro cs i h; rw [List.getD_eq_getElem?_getD, List.getElem?_eq_getElem h]; simp
  have abound : ∀ i, 0 ≤ el a i ∧ el a i ≤ 2 ^ bits - 1 := by
    intro i; rw [ha, ea]
    split_ifs with h
    · have := (ca _ (mem_getD _ i (by rw [la]; exact h))).2.2
      constructor
      · positivity
      · have : (val ((Fft.split_bits i1 bits L).getD i []) : Int) < 2 ^ bits := by exact_mod_cast this
        omega
    · constructor
      · rfl
      · have : (1 : Int) ≤ 2 ^ bits := one_le_pow₀ (by norm_num)
        omega
  have bbound : ∀ i, 0 ≤ el b i ∧ el b i ≤ 2 ^ bits - 1 := by
    intro i; rw [hb, eb]
    split_ifs with h
    · have := (cb _ (mem_getD _ i (by rw [lb]; exact h))).2.2
      constructor
      · positivity
      · have : (val ((Fft.split_bits i2 bits L).getD i []) : Int) < 2 ^ bits := by exact_mod_cast this
        omega
    · constructor
      · rfl
      · have : (1 : Int) ≤ 2 ^ bits := one_le_pow₀ (by norm_num)
        omega
  -- the convolution entries are below 2^(64 L)
  have hM : (0 : Int) ≤ 2 ^ bits - 1 := by
    have : (1 : Int) ≤ 2 ^ bits := one_le_pow₀ (by norm_num)
    omega
  have cbound : ∀ j, j < 4 * 2 ^ depth → 0 ≤ el (conv a b (4 * 2 ^ depth)) j ∧
      el (conv a b (4 * 2 ^ depth)) j < 2 ^ (64 * L) := by
    intro j hj
    obtain ⟨c0, c1, c2⟩ := conv_bound a b (4 * 2 ^ depth) j1 j2 j (2 ^ bits - 1) hM a0 b0 abound bbound hj
    refine ⟨c0, ?_⟩
    -- min(j1, j2) ≤ 2n, (2^bits − 1)² < 2^(2 bits), 2n·2^(2 bits) ≤ 2^(64 L)
    have hmin : (j1 : Int) ≤ 2 * 2 ^ depth ∨ (j2 : Int) ≤ 2 * 2 ^ depth := by
      rcases Nat.le_total j1 j2 with h | h
      · left; have : j1 ≤ 2 * 2 ^ depth := by omega
        exact_mod_cast this
      · right; have : j2 ≤ 2 * 2 ^ depth := by omega
        exact_mod_cast this
    have hsq : ((2 : Int) ^ bits - 1) * (2 ^ bits - 1) < 2 ^ bits * 2 ^ bits := by nlinarith
    have hsq0 : (0 : Int) ≤ (2 ^ bits - 1) * (2 ^ bits - 1) := mul_nonneg hM hM
    have hpow : (2 : Int) * 2 ^ depth * (2 ^ bits * 2 ^ bits) ≤ 2 ^ (64 * L) := by
      have e : (2 : Int) * 2 ^ depth * (2 ^ bits * 2 ^ bits) = 2 ^ (2 * bits + depth + 1) := by
        rw [pow_succ, pow_add, pow_mul']; ring
      rw [e]; apply pow_le_pow_right₀ (by norm_num); omega
    have hdpos : (0 : Int) < 2 * 2 ^ depth := by positivity
    rcases hmin with h | h
    · calc el (conv a b (4 * 2 ^ depth)) j ≤ (j1 : Int) * ((2 ^ bits - 1) * (2 ^ bits - 1)) := c1
        _ ≤ 2 * 2 ^ depth * ((2 ^ bits - 1) * (2 ^ bits - 1)) := mul_le_mul_of_nonneg_right h hsq0
        _ < 2 * 2 ^ depth * (2 ^ bits * 2 ^ bits) := mul_lt_mul_of_pos_left hsq hdpos
        _ ≤ 2 ^ (64 * L) := hpow
    · calc el (conv a b (4 * 2 ^ depth)) j ≤ (j2 : Int) * ((2 ^ bits - 1) * (2 ^ bits - 1)) := c2
        _ ≤ 2 * 2 ^ depth * ((2 ^ bits - 1) * (2 ^ bits - 1)) := mul_le_mul_of_nonneg_right h hsq0
        _ < 2 * 2 ^ depth * (2 ^ bits * 2 ^ bits) := mul_lt_mul_of_pos_left hsq hdpos
        _ ≤ 2 ^ (64 * L) := hpow
  -- every recombined coefficient is the convolution entry, in a buffer with top limb zero
  set P := (List.range (4 * 2 ^ depth)).map (fun j =>
    if j < trunc then pointwise L (64 * L) (el (fft_trunc_sqrt2 depth w trunc a) j) (el (fft_trunc_sqrt2 depth w trunc b) j)
    else el (fft_trunc_sqrt2 depth w trunc a) j) with hP
  set g : Nat → List Nat := fun j =>
    canon L (el (ifft_trunc_sqrt2 depth w trunc P) j * 2 ^ (2 * (64 * L) - (depth + 2))) with hg
  have hcoef : ∀ j, j < j1 + j2 - 1 →
      (g j).length = L + 1 ∧ Limbs (g j) ∧ val (g j) < B ^ L ∧ (val (g j) : Int) = el (conv a b (4 * 2 ^ depth)) j :=
    fun j hj =>
      canon_of_small L _ _ (conv_chain depth w L trunc j1 j2 a b hL hw ht a0 b0 hj1p hj2p hJt j (by omega))
        (cbound j (by omega)).1 (cbound j (by omega)).2
  obtain ⟨r1, r2, r3⟩ := Fft.combine_bits_eval (List.replicate (i1.length + i2.length) 0)
    ((List.range (j1 + j2 - 1)).map g) bits L
    (Fft.Limbs_replicate_zero _) (Fft.val_replicate_zero _) s2
    (fun c hc => by
      obtain ⟨j, hj, rfl⟩ := List.mem_map.mp hc
      have hj := List.mem_range.mp hj
      obtain ⟨q1, q2, q3, _⟩ := hcoef j hj
      exact ⟨q1, q2, q3⟩)
  refine ⟨by rw [r1]; simp, r2, ?_⟩
  rw [r3]
  -- the evaluation at 2^bits
  have hev : (Fft.polyEval bits ((List.range (j1 + j2 - 1)).map g) : Int) = (val i1 : Int) * (val i2 : Int) := by
    rw [polyEval_range_map]
    have e1 : ∀ j ∈ range (j1 + j2 - 1), (val (g j) : Int) * ((2 : Int) ^ bits) ^ j =
        el (conv a b (4 * 2 ^ depth)) j * ((2 : Int) ^ bits) ^ j :=
      fun j hj => by rw [(hcoef j (mem_range.mp hj)).2.2.2]
    rw [sum_congr rfl e1]
    have e2 : ∑ j ∈ range (j1 + j2 - 1), el (conv a b (4 * 2 ^ depth)) j * ((2 : Int) ^ bits) ^ j =
        ∑ j ∈ range (4 * 2 ^ depth), el (conv a b (4 * 2 ^ depth)) j * ((2 : Int) ^ bits) ^ j := by
      apply sum_subset (range_subset_range.mpr s4)
      intro j _ hj
      have : j1 + j2 - 1 ≤ j := by simpa using hj
      rw [conv_zero a b _ j1 j2 j a0 b0 (by omega)]; ring
    rw [e2]
    have e3 : ∀ j ∈ range (4 * 2 ^ depth), el (conv a b (4 * 2 ^ depth)) j * ((2 : Int) ^ bits) ^ j =
        (∑ i ∈ range (j + 1), el a i * el b (j - i)) * ((2 : Int) ^ bits) ^ j :=
      fun j hj => by rw [el_conv _ _ _ _ (mem_range.mp hj)]
    rw [sum_congr rfl e3, cauchy_range (fun i => el a i) (fun i => el b i) ((2 : Int) ^ bits) (4 * 2 ^ depth) j1 j2 a0 b0
      (by omega)]
    rw [ha, hb, padC_eval _ L bits _ ca hbL (by rw [la]; omega), padC_eval _ L bits _ cb hbL (by rw [lb]; omega), pa, pb]
  have hev' : Fft.polyEval bits ((List.range (j1 + j2 - 1)).map g) = val i1 * val i2 := by
    exact_mod_cast hev
  rw [hev']
  apply Nat.mod_eq_of_lt
  simp only [List.length_replicate]
  rw [pow_add]
  exact Nat.mul_lt_mul'' (val_lt i1 hi1) (val_lt i2 hi2)

end Mpir.FftX
