/- Refinement proof for the size-aware model of mpz/set_d.c (Mpir/Model/AllocSafeMpz4.lean `set_d`): `_mpz_realloc (r, rn)`
   covers the zero fill of `rn - 2` limbs and the two limbs of the double stored above it; the limbs are those of the value-level
   model of C09 (`Conv.mpz_set_d`). -/
import MpirProofs.Lemmas.AllocSafeSqrtrem
import MpirProofs.Props.C11
namespace Mpir.AllocSafe
open Mpir
open Mpir.Mpz (sgn natAbs_sgn)

theorem set_two (L : List Nat) (k a b : Nat) (hL : L.length = k + 2) :
    ((List.replicate k 0 ++ L.drop k).set (k + 1) b).set k a = List.replicate k 0 ++ [a, b] := by
  have hd : (L.drop k).length = 2 := by simp [hL]
  match h : L.drop k, hd with
  | [x, y], _ =>
    rw [List.set_append_right _ _ (by simp), List.set_append_right _ _ (by simp)]
    simp

theorem set_d_refines (s : St) (r : Nat) (d : Nat) (hs : s.ok = true) (hr : OWF (s.h r))
    (hfin : (Conv.isNaN d || Conv.isInf d) = false)
    (hlimb : (Conv.extract_double (Conv.absBits d)).1 < B ∧ (Conv.extract_double (Conv.absBits d)).2.1 < B) :
    ∃ s' z, set_d 0 s r d = some s' ∧ Conv.mpz_set_d d = some z ∧
      Refines s s' r ⟨(Mpz.grow (view (s.h r)) (Conv.extract_double (Conv.absBits d)).2.2.toNat).alloc,
        sgn (Conv.isNeg d) (Conv.extract_double (Conv.absBits d)).2.2.toNat, z.d⟩ ∧
      z.size = sgn (Conv.isNeg d) (Conv.extract_double (Conv.absBits d)).2.2.toNat := by
  unfold set_d Conv.mpz_set_d
  simp only [hfin, Bool.false_eq_true, if_false, Nat.sub_zero]
  generalize Conv.extract_double (Conv.absBits d) = t at *
  obtain ⟨h0B, h1B⟩ := hlimb
  have G := MPZ_REALLOC_grown s r t.2.2.toNat hr
  have halloc : (Mpz.grow (view (s.h r)) t.2.2.toNat).alloc = ((MPZ_REALLOC s r t.2.2.toNat).h r).buf.alloc := G.alloc.symm
  rw [halloc]
  have hok1 : (MPZ_REALLOC s r t.2.2.toNat).ok = true := by rw [G.ok]; exact hs
  have hb1 := G.bwf r hr.1
  have hroom := G.room
  generalize MPZ_REALLOC s r t.2.2.toNat = s1 at *
  rw [show t = (t.1, t.2.1, t.2.2) from rfl]
  simp only []
  have W0 := Wrote.refl s1 r t.2.2.toNat hok1 hb1 hroom
  have hR0 : ((s1.h r).buf.limbs.take t.2.2.toNat).length = t.2.2.toNat := by rw [List.length_take, hb1.1]; omega
  generalize (s1.h r).buf.limbs.take t.2.2.toNat = R0 at W0 hR0
  by_cases h0 : t.2.2.toNat = 0
  · have hle : t.2.2 ≤ 0 := by omega
    simp only [h0, beq_self_eq_true, if_true, hle]
    refine ⟨_, _, rfl, rfl, Refines.of_grown G ?_, by simp [sgn]⟩
    have F := W0.fin_take (Conv.isNeg d) 0 (Nat.zero_le _)
    simpa using F
  · have hpos : ¬ t.2.2 ≤ 0 := by omega
    have h0' : (t.2.2.toNat == 0) = false := by simpa using h0
    have hz : (if t.2.2 ≤ 0 then (0 : Int) else t.2.2) = t.2.2 := by rw [if_neg hpos]
    simp only [h0', Bool.false_eq_true, if_false, hz]
    have hne0 : ¬ t.2.2 = 0 := by omega
    have hsz : sgn (Conv.isNeg d) t.2.2.toNat = (if Conv.isNeg d = true then -t.2.2 else t.2.2) := by
      unfold sgn; rw [Int.toNat_of_nonneg (by omega)]
    by_cases h1 : t.2.2.toNat = 1
    · have h1' : t.2.2 = 1 := by omega
      have e : (t.2.2.toNat == 1) = true := by simpa using h1
      simp only [e, if_true, hne0, if_false, eq_true h1']
      refine ⟨_, _, rfl, rfl, Refines.of_grown G ?_, hsz.symm⟩
      have W1 := W0.store_set 0 t.2.1 (by omega) h1B
      have F := W1.fin_take (Conv.isNeg d) 1 (by simp; omega)
      have hset : (R0.set 0 t.2.1).take 1 = [t.2.1] := by
        match R0, hR0.trans h1 with
        | [x], _ => rfl
      rw [hset] at F
      rw [h1]
      exact F
    · have e : (t.2.2.toNat == 1) = false := by simpa using h1
      have hn1 : ¬ t.2.2 = 1 := by omega
      simp only [e, Bool.false_eq_true, if_false, hne0, hn1]
      refine ⟨_, _, rfl, rfl, Refines.of_grown G ?_, hsz.symm⟩
      have hk : t.2.2.toNat = (t.2.2.toNat - 2) + 2 := by omega
      have W1 := W0.wr 0 (List.replicate (t.2.2.toNat - 2) 0) (Limbs_rep0 _) (Nat.zero_le _) (by simp; omega)
      simp only [add_zero_ptr, List.take_zero, List.nil_append, Nat.zero_add, List.length_replicate] at W1
      have hl1 : (List.replicate (t.2.2.toNat - 2) 0 ++ R0.drop (t.2.2.toNat - 2)).length = t.2.2.toNat := by
        simp [hR0] <;> omega
      have W2 := W1.store_set (t.2.2.toNat - 2 + 1) t.2.1 (by rw [hl1]; omega) h1B
      have W3 := W2.store_set (t.2.2.toNat - 2) t.1 (by simp [hR0] <;> omega) h0B
      rw [set_two R0 (t.2.2.toNat - 2) t.1 t.2.1 (by rw [hR0]; omega)] at W3
      have F := W3.fin_take (Conv.isNeg d) t.2.2.toNat (by simp; omega)
      rw [List.take_of_length_le (by simp; omega)] at F
      simpa [MPN_ZERO] using F

theorem extract_double_limbs (d : Nat) (hfin : Conv.expOf d ≠ 2047) :
    (Conv.extract_double (Conv.absBits d)).1 < B ∧ (Conv.extract_double (Conv.absBits d)).2.1 < B := by
  obtain ⟨he, _, _, _, _⟩ := Conv.absBits_fields d
  by_cases hzero : Conv.isZero (Conv.absBits d) = true
  · have : Conv.extract_double (Conv.absBits d) = (0, 0, 0) := by unfold Conv.extract_double; rw [if_pos hzero]
    rw [this]; exact ⟨B_pos, B_pos⟩
  · have hz' : Conv.isZero (Conv.absBits d) = false := by simpa using hzero
    obtain ⟨r0, r1, ex, e, h0, _, h1, _⟩ := Conv.extract_double_eq _ hz' (by rw [he]; exact hfin)
    rw [e]; exact ⟨h0, h1⟩

theorem finite_of_exp (d : Nat) (hfin : Conv.expOf d ≠ 2047) : (Conv.isNaN d || Conv.isInf d) = false := by
  unfold Conv.isNaN Conv.isInf
  simp [hfin]

end Mpir.AllocSafe
