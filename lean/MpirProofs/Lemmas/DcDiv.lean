/-
  Helper lemmas for C02 part c02_dc (MpirProofs/Props/C02_dc.lean): the value-level model Mpir/Model/DcDiv.lean of
  mpn_dc_div_qr_n / mpn_dc_div_qr / mpn_dc_div_q.
  Plan: (1) subN / addN, (2) the correction loop keeps  W + cy·B^n = (qh·B^k + q)·D + r  and leaves after
  ⌊Wt/Dt⌋ - ⌊W/D⌋ add-backs, (3) that number is ≤ 4, and ≤ 2 when the quotient block has no high limb,
  (4) the multiply-subtract-correct block, (5) mpn_dc_div_qr_n by induction on the recursion fuel,
  (6) mpn_dc_div_qr (first block, main loop), (7) mpn_dc_div_q.
-/
import MpirProofs.Lemmas.SbDiv
import Mpir.Model.DcDiv
import Mathlib.Tactic.Ring
import Mathlib.Tactic.Linarith
import Mathlib.Tactic.IntervalCases
namespace Mpir.DcDiv
open Mpir

/-! ## (1) subN / addN -/

theorem subN_spec (k a b : Nat) (ha : a < B ^ k) (hb : b ≤ B ^ k) :
    (subN k a b).1 + b = a + (subN k a b).2 * B ^ k ∧ (subN k a b).1 < B ^ k ∧ (subN k a b).2 ≤ 1 := by
  unfold subN
  generalize B ^ k = P at *
  split <;> simp <;> omega

theorem addN_spec (k a b : Nat) (ha : a < B ^ k) (hb : b ≤ B ^ k) :
    (addN k a b).1 + (addN k a b).2 * B ^ k = a + b ∧ (addN k a b).1 < B ^ k ∧ (addN k a b).2 ≤ 1 := by
  unfold addN
  generalize B ^ k = P at *
  split <;> simp <;> omega

theorem pow_pos' (k : Nat) : 0 < B ^ k := Nat.pos_of_ne_zero (by have := B_pos; positivity)

/-- `qh -= mpn_sub_1 (qp, qp, k, 1)` on a quotient qh·B^k + q ≥ 1 -/
theorem dec_repr (k q qh : Nat) (hq : q < B ^ k) (hqh : qh ≤ 1) (h1 : 1 ≤ qh * B ^ k + q) :
    ((qh + B - (subN k q 1).2) % B) * B ^ k + (subN k q 1).1 + 1 = qh * B ^ k + q ∧
      (subN k q 1).1 < B ^ k ∧ (qh + B - (subN k q 1).2) % B ≤ 1 := by
  have hB := B_eq
  have hP := pow_pos' k
  unfold subN
  generalize B ^ k = P at *
  by_cases h0 : q < 1
  · have hq0 : q = 0 := by omega
    subst hq0
    have hqh1 : qh = 1 := by
      rcases Nat.eq_zero_or_pos qh with h | h
      · subst h; omega
      · omega
    subst hqh1
    rw [if_pos h0]
    simp only []
    rw [hB]; omega
  · rw [if_neg h0]
    simp only []
    rw [hB]
    have : (qh + 18446744073709551616 - 0) % 18446744073709551616 = qh := by omega
    rw [this]; omega

/-! ## (2) the correction loop -/

/-- invariant of `while (cy != 0)`: the true partial remainder is r - cy·B^n, it is below D, and
    W = (qh·B^k + q)·D + (r - cy·B^n) -/
def Inv (k n D W : Nat) (s : Corr) : Prop :=
  s.q < B ^ k ∧ s.qh ≤ 1 ∧ s.r < B ^ n ∧ s.cy ≤ 2 ∧
    W + s.cy * B ^ n = (s.qh * B ^ k + s.q) * D + s.r ∧ s.r < D + s.cy * B ^ n

theorem corrLoop_spec (k n D W : Nat) (hD0 : 0 < D) (hDn : D < B ^ n) :
    ∀ (fuel : Nat) (s : Corr), Inv k n D W s → (s.qh * B ^ k + s.q) - W / D < fuel →
      (corrLoop k n D fuel s).cy = 0 ∧ Inv k n D W (corrLoop k n D fuel s) ∧
        (corrLoop k n D fuel s).adds = s.adds + ((s.qh * B ^ k + s.q) - W / D) := by
  intro fuel
  generalize ht : W / D = t
  induction fuel with
  | zero => intro s _ h; omega
  | succ fuel ih =>
    intro s hI hf
    obtain ⟨hq, hqh, hr, hcy, hW, hlt⟩ := hI
    unfold corrLoop
    by_cases hc0 : s.cy = 0
    · rw [if_pos hc0]
      refine ⟨hc0, ⟨hq, hqh, hr, hcy, hW, hlt⟩, ?_⟩
      rw [hc0, Nat.zero_mul, Nat.add_zero] at hW hlt
      have := (Mpir.DivWord.divmod_of_eq W D _ _ hW hlt).1
      omega
    · rw [if_neg hc0]
      simp only []
      have hPn := pow_pos' n
      -- the quotient is still too large
      have hQD : W < (s.qh * B ^ k + s.q) * D := by
        have : B ^ n ≤ s.cy * B ^ n := Nat.le_mul_of_pos_left _ (by omega)
        omega
      have hQt : t < s.qh * B ^ k + s.q := by rw [← ht]; exact (Nat.div_lt_iff_lt_mul hD0).mpr hQD
      have hQ1 : 1 ≤ s.qh * B ^ k + s.q := by omega
      obtain ⟨e1, e2, e3⟩ := dec_repr k s.q s.qh hq hqh hQ1
      obtain ⟨a1, a2, a3⟩ := addN_spec n s.r D hr (Nat.le_of_lt hDn)
      have hB := B_eq
      have hcy' : (s.cy + B - (addN n s.r D).2) % B = s.cy - (addN n s.r D).2 := by
        rw [hB]; omega
      have hle : (addN n s.r D).2 ≤ s.cy := by omega
      generalize (addN n s.r D).1 = r' at *
      generalize (addN n s.r D).2 = c at *
      generalize (subN k s.q 1).1 = q' at *
      generalize (s.qh + B - (subN k s.q 1).2) % B = qh' at *
      have hI' : Inv k n D W { q := q', qh := qh', r := r', cy := (s.cy + B - c) % B, adds := s.adds + 1 } := by
        refine ⟨e2, e3, a2, ?_, ?_, ?_⟩
        · show (s.cy + B - c) % B ≤ 2
          rw [hcy']; omega
        · show W + (s.cy + B - c) % B * B ^ n = (qh' * B ^ k + q') * D + r'
          rw [hcy']
          have hmul : (s.qh * B ^ k + s.q) * D = (qh' * B ^ k + q') * D + D := by
            rw [← e1]; ring
          have hsub : (s.cy - c) * B ^ n + c * B ^ n = s.cy * B ^ n := by
            rw [← Nat.add_mul]; congr 1; omega
          omega
        · show r' < D + (s.cy + B - c) % B * B ^ n
          rw [hcy']
          have hsub : (s.cy - c) * B ^ n + c * B ^ n = s.cy * B ^ n := by
            rw [← Nat.add_mul]; congr 1; omega
          have : B ^ n ≤ s.cy * B ^ n := Nat.le_mul_of_pos_left _ (by omega)
          omega
      have hf' : (qh' * B ^ k + q') - t < fuel := by
        show (qh' * B ^ k + q') - t < fuel
        omega
      obtain ⟨r1, r2, r3⟩ := ih _ hI' hf'
      refine ⟨r1, r2, ?_⟩
      rw [r3]
      show s.adds + 1 + ((qh' * B ^ k + q') - t) = s.adds + ((s.qh * B ^ k + s.q) - t)
      omega

/-! ## (3) how many add-backs -/

/-- the heart of the bound: if the estimated block quotient is t+1+i where t is the true one, then i·Dt < t+1
    (Dt: the divisor part the estimate used, Dl < Bm: the neglected part) -/
theorem adds_key (Bm Dt Dl D i t M0 W : Nat) (hD : D = Dt * Bm + Dl) (hDl : Dl < Bm)
    (hW : W + (t + 1 + i) * Dl = (t + 1 + i) * D + M0) (ht1 : W < (t + 1) * D) : i * Dt < t + 1 := by
  subst hD
  have h1 : i * (Dt * Bm) < (t + 1) * Dl := by nlinarith
  have h2 : (t + 1) * Dl ≤ (t + 1) * Bm := Nat.mul_le_mul_left _ (Nat.le_of_lt hDl)
  have h3 : i * Dt * Bm < (t + 1) * Bm := by rw [Nat.mul_assoc]; omega
  exact Nat.lt_of_mul_lt_mul_right h3

/-- true quotient of a window below K·K·Bm by a normalised divisor: below 2K -/
theorem quot_lt_2K (K Bm Dt Dl D W t : Nat) (hD : D = Dt * Bm + Dl) (hnorm : K ≤ 2 * Dt)
    (hW : W < K * K * Bm) (ht : t * D ≤ W) (hK : 0 < K) : t < 2 * K := by
  subst hD
  by_contra hc
  have hc : 2 * K ≤ t := by omega
  have hDt : 0 < Dt := by omega
  have h1 : 2 * K * (Dt * Bm) ≤ t * (Dt * Bm + Dl) := by
    calc 2 * K * (Dt * Bm) ≤ t * (Dt * Bm) := Nat.mul_le_mul_right _ hc
      _ ≤ t * (Dt * Bm + Dl) := Nat.mul_le_mul_left _ (Nat.le_add_right _ _)
  have h2 : K * K * Bm ≤ 2 * K * (Dt * Bm) := by
    have : K * K ≤ K * (2 * Dt) := Nat.mul_le_mul_left _ hnorm
    calc K * K * Bm ≤ K * (2 * Dt) * Bm := Nat.mul_le_mul_right _ this
      _ = 2 * K * (Dt * Bm) := by ring
  omega

theorem adds_le (K Bm Dt Dl D Qe t M0 W : Nat) (hD : D = Dt * Bm + Dl) (hDl : Dl < Bm) (hnorm : K ≤ 2 * Dt)
    (hK : 0 < K) (hD0 : 0 < D) (hWlt : W < K * K * Bm) (hW : W + Qe * Dl = Qe * D + M0) (ht : t = W / D) :
    Qe - t ≤ 4 ∧ (W < D * K → Qe - t ≤ 2) := by
  have ht0 : t * D ≤ W := by rw [ht]; exact Nat.div_mul_le_self W D
  have ht1 : W < (t + 1) * D := by
    have := Nat.lt_mul_div_succ W hD0
    rw [ht, Nat.mul_comm]; exact this
  have h2K := quot_lt_2K K Bm Dt Dl D W t hD hnorm hWlt ht0 hK
  have hDt : 0 < Dt := by omega
  by_cases hle : Qe ≤ t + 1
  · exact ⟨by omega, fun _ => by omega⟩
  · obtain ⟨i, hi⟩ : ∃ i, Qe = t + 1 + i := ⟨Qe - t - 1, by omega⟩
    subst hi
    have hk := adds_key Bm Dt Dl D i t M0 W hD hDl hW ht1
    constructor
    · have : i * Dt < 4 * Dt := by omega
      have := Nat.lt_of_mul_lt_mul_right this
      omega
    · intro hWK
      have htK : t < K := by
        have : t * D < K * D := by rw [Nat.mul_comm K D]; omega
        exact Nat.lt_of_mul_lt_mul_right this
      have : i * Dt < 2 * Dt := by omega
      have := Nat.lt_of_mul_lt_mul_right this
      omega

/-! ## (4) the multiply-subtract-correct block -/

/-- the area and `cy` when the correction loop is entered -/
def pre (k m D Q qh R1 Wl : Nat) : Nat × Nat :=
  let s1 := subN (k + m) (Wl + B ^ m * R1) (Q * (D % B ^ m))
  if qh ≠ 0 then
    let t := subN m (s1.1 / B ^ k) (D % B ^ m)
    (s1.1 % B ^ k + B ^ k * t.1, s1.2 + t.2)
  else s1

theorem mulSubCorr_eq (k m D Q qh R1 Wl : Nat) :
    mulSubCorr k m D Q qh R1 Wl =
      { q := (corrLoop k (k + m) D loopFuel { q := Q, qh := qh, r := (pre k m D Q qh R1 Wl).1, cy := (pre k m D Q qh R1 Wl).2, adds := 0 }).q,
        qh := (corrLoop k (k + m) D loopFuel { q := Q, qh := qh, r := (pre k m D Q qh R1 Wl).1, cy := (pre k m D Q qh R1 Wl).2, adds := 0 }).qh,
        r := (corrLoop k (k + m) D loopFuel { q := Q, qh := qh, r := (pre k m D Q qh R1 Wl).1, cy := (pre k m D Q qh R1 Wl).2, adds := 0 }).r,
        adds := (corrLoop k (k + m) D loopFuel { q := Q, qh := qh, r := (pre k m D Q qh R1 Wl).1, cy := (pre k m D Q qh R1 Wl).2, adds := 0 }).adds,
        ok := (corrLoop k (k + m) D loopFuel { q := Q, qh := qh, r := (pre k m D Q qh R1 Wl).1, cy := (pre k m D Q qh R1 Wl).2, adds := 0 }).cy == 0 } := rfl

theorem pre_spec (k m D Q qh R1 Wl : Nat) (hQ : Q < B ^ k) (hqh : qh ≤ 1)
    (hM0 : Wl + B ^ m * R1 < B ^ (k + m)) :
    (pre k m D Q qh R1 Wl).1 + (qh * B ^ k + Q) * (D % B ^ m) = Wl + B ^ m * R1 + (pre k m D Q qh R1 Wl).2 * B ^ (k + m) ∧
      (pre k m D Q qh R1 Wl).1 < B ^ (k + m) ∧ (pre k m D Q qh R1 Wl).2 ≤ 2 := by
  have hK := pow_pos' k
  have hBm := pow_pos' m
  have hDl : D % B ^ m < B ^ m := Nat.mod_lt _ hBm
  have htp : Q * (D % B ^ m) ≤ B ^ (k + m) := by
    rw [pow_add]; exact Nat.mul_le_mul (Nat.le_of_lt hQ) (Nat.le_of_lt hDl)
  obtain ⟨a1, a2, a3⟩ := subN_spec (k + m) _ _ hM0 htp
  unfold pre
  simp only []
  generalize hs1 : subN (k + m) (Wl + B ^ m * R1) (Q * (D % B ^ m)) = s1 at *
  obtain ⟨r1, c1⟩ := s1
  simp only [] at a1 a2 a3 ⊢
  by_cases h0 : qh = 0
  · subst h0
    rw [if_neg (by simp)]
    simp only [Nat.zero_mul, Nat.zero_add]
    exact ⟨a1, a2, by omega⟩
  · have h1 : qh = 1 := by omega
    subst h1
    rw [if_pos (by simp)]
    simp only []
    have hdiv : r1 / B ^ k < B ^ m := by
      rw [Nat.div_lt_iff_lt_mul hK, Nat.mul_comm, ← pow_add]; exact a2
    obtain ⟨b1, b2, b3⟩ := subN_spec m _ _ hdiv (Nat.le_of_lt hDl)
    generalize (subN m (r1 / B ^ k) (D % B ^ m)).1 = r2 at *
    generalize (subN m (r1 / B ^ k) (D % B ^ m)).2 = c2 at *
    have hr1 : r1 % B ^ k + B ^ k * (r1 / B ^ k) = r1 := Nat.mod_add_div r1 (B ^ k)
    have hmod : r1 % B ^ k < B ^ k := Nat.mod_lt _ hK
    rw [pow_add] at *
    generalize r1 % B ^ k = rm at *
    generalize r1 / B ^ k = rd at *
    generalize D % B ^ m = Dl at *
    generalize B ^ k = K at *
    generalize B ^ m = Bm at *
    refine ⟨?_, ?_, by omega⟩
    · nlinarith
    · nlinarith

/-- The block after a 2k/k division.  Hypotheses: what the division left — (qh·B^k + Q)·Dt + R1 is the divided window
    Wt < B^(2k) with Dt = D / B^m the normalised k-limb top of D, R1 < Dt.  W is the whole window (Wt and the m limbs
    below it).  The block ends with the exact quotient and remainder of W by D after ⌊Wt/Dt⌋ - ⌊W/D⌋ add-backs. -/
theorem mulSubCorr_spec (k m D Q qh R1 Wl : Nat)
    (hDn : D < B ^ (k + m)) (hnorm : B ^ k ≤ 2 * (D / B ^ m))
    (hQ : Q < B ^ k) (hqh : qh ≤ 1) (hR1 : R1 < D / B ^ m) (hWl : Wl < B ^ m)
    (hWt : (qh * B ^ k + Q) * (D / B ^ m) + R1 < B ^ k * B ^ k) :
    (mulSubCorr k m D Q qh R1 Wl).ok = true ∧
      ((qh * B ^ k + Q) * (D / B ^ m) + R1) * B ^ m + Wl =
        ((mulSubCorr k m D Q qh R1 Wl).qh * B ^ k + (mulSubCorr k m D Q qh R1 Wl).q) * D + (mulSubCorr k m D Q qh R1 Wl).r ∧
      (mulSubCorr k m D Q qh R1 Wl).r < D ∧ (mulSubCorr k m D Q qh R1 Wl).q < B ^ k ∧
      (mulSubCorr k m D Q qh R1 Wl).qh ≤ 1 ∧
      (mulSubCorr k m D Q qh R1 Wl).adds =
        (qh * B ^ k + Q) - (((qh * B ^ k + Q) * (D / B ^ m) + R1) * B ^ m + Wl) / D ∧
      (mulSubCorr k m D Q qh R1 Wl).adds ≤ 4 ∧
      (((qh * B ^ k + Q) * (D / B ^ m) + R1) * B ^ m + Wl < D * B ^ k →
        (mulSubCorr k m D Q qh R1 Wl).adds ≤ 2 ∧ (mulSubCorr k m D Q qh R1 Wl).qh = 0) := by
  have hK := pow_pos' k
  have hBm := pow_pos' m
  have hDl : D % B ^ m < B ^ m := Nat.mod_lt _ hBm
  have hDsplit : D = D / B ^ m * B ^ m + D % B ^ m := (Nat.div_add_mod' D (B ^ m)).symm
  have hpre := pre_spec k m D Q qh R1 Wl hQ hqh
  rw [mulSubCorr_eq]
  simp only []
  generalize D / B ^ m = Dt at *
  generalize D % B ^ m = Dl at *
  have hDt0 : 0 < Dt := by omega
  have hD0 : 0 < D := by
    have : 0 < Dt * B ^ m := Nat.mul_pos hDt0 hBm
    omega
  -- the area np … np+n before the subtraction is below D
  have hM0D : Wl + B ^ m * R1 < D := by
    have : B ^ m * (R1 + 1) ≤ B ^ m * Dt := Nat.mul_le_mul_left _ hR1
    have e : B ^ m * Dt = Dt * B ^ m := Nat.mul_comm _ _
    have e2 : B ^ m * (R1 + 1) = B ^ m * R1 + B ^ m := by ring
    omega
  obtain ⟨p1, p2, p3⟩ := hpre (by omega)
  generalize hW : ((qh * B ^ k + Q) * Dt + R1) * B ^ m + Wl = W
  -- invariant on entry
  have hWeq : W + (qh * B ^ k + Q) * Dl = (qh * B ^ k + Q) * D + (Wl + B ^ m * R1) := by
    rw [← hW]
    conv_rhs => rw [hDsplit]
    ring
  have hI : Inv k (k + m) D W { q := Q, qh := qh, r := (pre k m D Q qh R1 Wl).1, cy := (pre k m D Q qh R1 Wl).2, adds := 0 } := by
    refine ⟨hQ, hqh, p2, p3, ?_, ?_⟩
    · show W + (pre k m D Q qh R1 Wl).2 * B ^ (k + m) = (qh * B ^ k + Q) * D + (pre k m D Q qh R1 Wl).1
      omega
    · show (pre k m D Q qh R1 Wl).1 < D + (pre k m D Q qh R1 Wl).2 * B ^ (k + m)
      omega
  have hWlt : W < B ^ k * B ^ k * B ^ m := by
    rw [← hW]
    have : ((qh * B ^ k + Q) * Dt + R1 + 1) * B ^ m ≤ B ^ k * B ^ k * B ^ m := Nat.mul_le_mul_right _ hWt
    have e : ((qh * B ^ k + Q) * Dt + R1 + 1) * B ^ m = ((qh * B ^ k + Q) * Dt + R1) * B ^ m + B ^ m := by ring
    omega
  obtain ⟨hb4, hb2⟩ := adds_le (B ^ k) (B ^ m) Dt Dl D (qh * B ^ k + Q) (W / D) (Wl + B ^ m * R1) W
    hDsplit hDl hnorm hK hD0 hWlt hWeq rfl
  obtain ⟨c1, c2, c3⟩ := corrLoop_spec k (k + m) D W hD0 hDn loopFuel _ hI (by show _ < 6; simp only []; omega)
  obtain ⟨i1, i2, i3, i4, i5, i6⟩ := c2
  simp only [] at c3
  generalize corrLoop k (k + m) D loopFuel { q := Q, qh := qh, r := (pre k m D Q qh R1 Wl).1, cy := (pre k m D Q qh R1 Wl).2, adds := 0 } = c at *
  rw [c1, Nat.zero_mul, Nat.add_zero] at i5 i6
  refine ⟨by simp [c1], i5, i6, i1, i2, by omega, by omega, ?_⟩
  intro hWK
  refine ⟨by have := hb2 hWK; omega, ?_⟩
  -- the final quotient is ⌊W/D⌋ < B^k
  have hq : (c.qh * B ^ k + c.q) * D < B ^ k * D := by rw [Nat.mul_comm (B ^ k) D]; omega
  have := Nat.lt_of_mul_lt_mul_right hq
  rcases Nat.eq_zero_or_pos c.qh with h | h
  · exact h
  · have : B ^ k ≤ c.qh * B ^ k := Nat.le_mul_of_pos_left _ h
    omega

/-! ## (5) mpn_dc_div_qr_n -/

/-- what every division routine of the model returns on its domain: exact quotient (with high limb ≤ 1) and remainder,
    all callees inside their domains, no correction loop with more than 4 add-backs -/
def Good (k Nw Dw : Nat) (r : Res) : Prop :=
  r.ok = true ∧ Nw = (r.qh * B ^ k + r.q) * Dw + r.r ∧ r.r < Dw ∧ r.q < B ^ k ∧ r.qh ≤ 1 ∧ r.mx ≤ 4

theorem two_pow (k : Nat) : B ^ (2 * k) = B ^ k * B ^ k := by rw [two_mul, pow_add]

/-- quotient and remainder of a window below B^(2k) by a normalised k-limb divisor -/
theorem quotrem_spec (k Nw Dw : Nat) (hnorm : B ^ k ≤ 2 * Dw) (hNw : Nw < B ^ k * B ^ k) :
    Nw = (Nw / Dw / B ^ k * B ^ k + Nw / Dw % B ^ k) * Dw + Nw % Dw ∧ Nw % Dw < Dw ∧ Nw / Dw % B ^ k < B ^ k ∧
      Nw / Dw / B ^ k ≤ 1 := by
  have hK := pow_pos' k
  have hD0 : 0 < Dw := by omega
  have h2 : Nw / Dw < 2 * B ^ k := by
    rw [Nat.div_lt_iff_lt_mul hD0]
    have : B ^ k * B ^ k ≤ 2 * B ^ k * Dw := by
      calc B ^ k * B ^ k ≤ B ^ k * (2 * Dw) := Nat.mul_le_mul_left _ hnorm
        _ = 2 * B ^ k * Dw := by ring
    omega
  refine ⟨?_, Nat.mod_lt _ hD0, Nat.mod_lt _ hK, ?_⟩
  · rw [Nat.div_add_mod' (Nw / Dw) (B ^ k), Nat.div_add_mod' Nw Dw]
  · have : Nw / Dw / B ^ k < 2 := by rw [Nat.div_lt_iff_lt_mul hK]; exact h2
    omega

theorem sbLeaf_spec (k Nw Dw : Nat) (hk : 2 < k) (hnorm : B ^ k ≤ 2 * Dw) (hDw : Dw < B ^ k)
    (hNw : Nw < B ^ k * B ^ k) : Good k Nw Dw (sbLeaf k Nw Dw) ∧ (sbLeaf k Nw Dw).ah = 0 ∧ (sbLeaf k Nw Dw).al = 0 := by
  obtain ⟨h1, h2, h3, h4⟩ := quotrem_spec k Nw Dw hnorm hNw
  refine ⟨⟨?_, h1, h2, h3, h4, by simp [sbLeaf]⟩, rfl, rfl⟩
  have : B ^ k / 2 ≤ Dw := by omega
  simp only [sbLeaf, two_pow, Bool.and_eq_true, decide_eq_true_eq]
  exact ⟨⟨⟨hk, this⟩, hDw⟩, hNw⟩

theorem divrem2Leaf_spec (Nw Dw : Nat) (hnorm : B ^ 2 ≤ 2 * Dw) (hDw : Dw < B ^ 2)
    (hNw : Nw < B ^ 2 * B ^ 2) : Good 2 Nw Dw (divrem2Leaf Nw Dw) := by
  obtain ⟨h1, h2, h3, h4⟩ := quotrem_spec 2 Nw Dw hnorm hNw
  refine ⟨?_, h1, h2, h3, h4, by simp [divrem2Leaf]⟩
  have : B ^ 2 / 2 ≤ Dw := by omega
  have e : B ^ 4 = B ^ 2 * B ^ 2 := by rw [← pow_add]
  simp only [divrem2Leaf, e, Bool.and_eq_true, decide_eq_true_eq]
  exact ⟨⟨this, hDw⟩, hNw⟩

/-- the k top limbs of a normalised (k+m)-limb divisor are a normalised k-limb divisor -/
theorem norm_top (k m D : Nat) (hk : 1 ≤ k) (hnorm : B ^ (k + m) ≤ 2 * D) (hD : D < B ^ (k + m)) :
    B ^ k ≤ 2 * (D / B ^ m) ∧ D / B ^ m < B ^ k := by
  have hBm := pow_pos' m
  constructor
  · obtain ⟨j, hj⟩ : ∃ j, k = j + 1 := ⟨k - 1, by omega⟩
    have he : B ^ k = 2 * (B ^ k / 2) := by
      rw [hj, pow_succ, B_eq]; omega
    rw [pow_add, he] at hnorm
    have : B ^ k / 2 * B ^ m ≤ D := by
      have : 2 * (B ^ k / 2) * B ^ m = 2 * (B ^ k / 2 * B ^ m) := by ring
      omega
    have := (Nat.le_div_iff_mul_le hBm).mpr this
    omega
  · rw [Nat.div_lt_iff_lt_mul hBm, ← pow_add]; exact hD

/-- the assembly of the result record of dcDivQrNF -/
def assemble (lo : Nat) (h l : Res) (b1 b2 : Blk) : Res :=
  { q := b2.q + B ^ lo * b1.q, r := b2.r, qh := b1.qh, ah := b1.adds, al := b2.adds,
    mx := max (max h.mx l.mx) (max b1.adds b2.adds), ok := h.ok && b1.ok && l.ok && b2.ok }

def hiCall (T fuel n N D : Nat) : Res :=
  if n - n / 2 < T then sbLeaf (n - n / 2) (N / B ^ (2 * (n / 2))) (D / B ^ (n / 2))
  else dcDivQrNF T fuel (n - n / 2) (N / B ^ (2 * (n / 2))) (D / B ^ (n / 2))

def loCall (T fuel n P D : Nat) : Res :=
  if n / 2 < T then sbLeaf (n / 2) (P / B ^ (n - n / 2)) (D / B ^ (n - n / 2))
  else dcDivQrNF T fuel (n / 2) (P / B ^ (n - n / 2)) (D / B ^ (n - n / 2))

theorem dcDivQrNF_succ (T fuel n N D : Nat) :
    dcDivQrNF T (fuel + 1) n N D =
      assemble (n / 2) (hiCall T fuel n N D)
        (loCall T fuel n (N % B ^ (n / 2) + B ^ (n / 2) *
          (mulSubCorr (n - n / 2) (n / 2) D (hiCall T fuel n N D).q (hiCall T fuel n N D).qh (hiCall T fuel n N D).r
            (N / B ^ (n / 2) % B ^ (n / 2))).r) D)
        (mulSubCorr (n - n / 2) (n / 2) D (hiCall T fuel n N D).q (hiCall T fuel n N D).qh (hiCall T fuel n N D).r
          (N / B ^ (n / 2) % B ^ (n / 2)))
        (mulSubCorr (n / 2) (n - n / 2) D
          (loCall T fuel n (N % B ^ (n / 2) + B ^ (n / 2) *
            (mulSubCorr (n - n / 2) (n / 2) D (hiCall T fuel n N D).q (hiCall T fuel n N D).qh (hiCall T fuel n N D).r
              (N / B ^ (n / 2) % B ^ (n / 2))).r) D).q
          (loCall T fuel n (N % B ^ (n / 2) + B ^ (n / 2) *
            (mulSubCorr (n - n / 2) (n / 2) D (hiCall T fuel n N D).q (hiCall T fuel n N D).qh (hiCall T fuel n N D).r
              (N / B ^ (n / 2) % B ^ (n / 2))).r) D).qh
          (loCall T fuel n (N % B ^ (n / 2) + B ^ (n / 2) *
            (mulSubCorr (n - n / 2) (n / 2) D (hiCall T fuel n N D).q (hiCall T fuel n N D).qh (hiCall T fuel n N D).r
              (N / B ^ (n / 2) % B ^ (n / 2))).r) D).r
          ((N % B ^ (n / 2) + B ^ (n / 2) *
            (mulSubCorr (n - n / 2) (n / 2) D (hiCall T fuel n N D).q (hiCall T fuel n N D).qh (hiCall T fuel n N D).r
              (N / B ^ (n / 2) % B ^ (n / 2))).r) % B ^ (n - n / 2))) := rfl

theorem dcDivQrNF_spec (T : Nat) (hT : 6 ≤ T) : ∀ (fuel n N D : Nat), 6 ≤ n → n ≤ fuel →
    B ^ n ≤ 2 * D → D < B ^ n → N < B ^ n * B ^ n →
    Good n N D (dcDivQrNF T fuel n N D) ∧ (dcDivQrNF T fuel n N D).al ≤ 2 ∧ (dcDivQrNF T fuel n N D).ah ≤ 4 ∧
      (N < D * B ^ n → (dcDivQrNF T fuel n N D).ah ≤ 2 ∧ (dcDivQrNF T fuel n N D).qh = 0) := by
  intro fuel
  induction fuel with
  | zero => intro n N D h6 hle; omega
  | succ fuel ih =>
    intro n N D h6 hle hnorm hD hN
    rw [dcDivQrNF_succ]
    obtain ⟨lo, hlo⟩ : ∃ lo, n / 2 = lo := ⟨_, rfl⟩
    obtain ⟨hi, hhi⟩ : ∃ hi, n - n / 2 = hi := ⟨_, rfl⟩
    have hsum : n = hi + lo := by omega
    have hlo3 : 3 ≤ lo := by omega
    have hhi3 : 3 ≤ hi := by omega
    have hfu : hi ≤ fuel ∧ lo ≤ fuel := by omega
    subst hsum
    have hKh := pow_pos' hi
    have hKl := pow_pos' lo
    -- the high half: 2hi limbs by the hi top limbs of D
    obtain ⟨hnt, hdt⟩ := norm_top hi lo D (by omega) hnorm hD
    have hNhi : N / B ^ (2 * lo) < B ^ hi * B ^ hi := by
      rw [Nat.div_lt_iff_lt_mul (pow_pos' _), two_pow]
      have e : B ^ hi * B ^ hi * (B ^ lo * B ^ lo) = B ^ (hi + lo) * B ^ (hi + lo) := by rw [pow_add]; ring
      omega
    have Hh : Good hi (N / B ^ (2 * lo)) (D / B ^ lo) (hiCall T fuel (hi + lo) N D) := by
      unfold hiCall
      rw [hhi, hlo]
      split
      · exact (sbLeaf_spec hi _ _ (by omega) hnt hdt hNhi).1
      · exact (ih hi _ _ (by omega) hfu.1 hnt hdt hNhi).1
    rw [hhi, hlo]
    generalize hiCall T fuel (hi + lo) N D = h at *
    obtain ⟨hok, hid, hr, hq, hqh, hmx⟩ := Hh
    have hWl : N / B ^ lo % B ^ lo < B ^ lo := Nat.mod_lt _ hKl
    have hwin : ((h.qh * B ^ hi + h.q) * (D / B ^ lo) + h.r) * B ^ lo + N / B ^ lo % B ^ lo = N / B ^ lo := by
      rw [← hid, two_pow, ← Nat.div_div_eq_div_mul]
      exact Nat.div_add_mod' _ _
    have S1 := mulSubCorr_spec hi lo D h.q h.qh h.r (N / B ^ lo % B ^ lo) hD hnt hq hqh hr hWl (by rw [← hid]; exact hNhi)
    rw [hwin] at S1
    generalize mulSubCorr hi lo D h.q h.qh h.r (N / B ^ lo % B ^ lo) = b1 at *
    obtain ⟨b1ok, b1id, b1r, b1q, b1qh, b1a, b1a4, b1a2⟩ := S1
    -- the partial remainder P = {np, n+lo} is below B^lo·D
    generalize hP : N % B ^ lo + B ^ lo * b1.r = P
    have hNlow : N % B ^ lo < B ^ lo := Nat.mod_lt _ hKl
    have hPlt : P < B ^ lo * D := by
      have : B ^ lo * (b1.r + 1) ≤ B ^ lo * D := Nat.mul_le_mul_left _ b1r
      have e : B ^ lo * (b1.r + 1) = B ^ lo * b1.r + B ^ lo := by ring
      omega
    have hNP : N = (b1.qh * B ^ hi + b1.q) * D * B ^ lo + P := by
      have e1 : N = N / B ^ lo * B ^ lo + N % B ^ lo := (Nat.div_add_mod' N (B ^ lo)).symm
      have e2 : N / B ^ lo * B ^ lo = (b1.qh * B ^ hi + b1.q) * D * B ^ lo + B ^ lo * b1.r := by
        rw [b1id]; ring
      omega
    -- the low half: 2lo limbs by the lo top limbs of D
    have hnorm' : B ^ (lo + hi) ≤ 2 * D := by rw [Nat.add_comm]; exact hnorm
    have hD' : D < B ^ (lo + hi) := by rw [Nat.add_comm]; exact hD
    obtain ⟨hnt2, hdt2⟩ := norm_top lo hi D (by omega) hnorm' hD'
    have hNlo : P / B ^ hi < B ^ lo * B ^ lo := by
      rw [Nat.div_lt_iff_lt_mul hKh]
      have : B ^ lo * D < B ^ lo * B ^ (hi + lo) := Nat.mul_lt_mul_of_pos_left hD hKl
      have e : B ^ lo * B ^ (hi + lo) = B ^ lo * B ^ lo * B ^ hi := by rw [pow_add]; ring
      omega
    have Hl : Good lo (P / B ^ hi) (D / B ^ hi) (loCall T fuel (hi + lo) P D) := by
      unfold loCall
      rw [hhi, hlo]
      split
      · exact (sbLeaf_spec lo _ _ (by omega) hnt2 hdt2 hNlo).1
      · exact (ih lo _ _ (by omega) hfu.2 hnt2 hdt2 hNlo).1
    generalize loCall T fuel (hi + lo) P D = l at *
    obtain ⟨lok, lid, lr, lq, lqh, lmx⟩ := Hl
    have hwin2 : ((l.qh * B ^ lo + l.q) * (D / B ^ hi) + l.r) * B ^ hi + P % B ^ hi = P := by
      rw [← lid]; exact Nat.div_add_mod' _ _
    have S2 := mulSubCorr_spec lo hi D l.q l.qh l.r (P % B ^ hi) hD' hnt2 lq lqh lr (Nat.mod_lt _ hKh)
      (by rw [← lid]; exact hNlo)
    rw [hwin2] at S2
    generalize mulSubCorr lo hi D l.q l.qh l.r (P % B ^ hi) = b2 at *
    obtain ⟨b2ok, b2id, b2r, b2q, b2qh, b2a, b2a4, b2a2⟩ := S2
    obtain ⟨b2a2', b2qh0⟩ := b2a2 (by rw [Nat.mul_comm]; exact hPlt)
    rw [b2qh0, Nat.zero_mul, Nat.zero_add] at b2id
    unfold assemble Good
    simp only []
    refine ⟨⟨by simp [hok, b1ok, lok, b2ok], ?_, b2r, ?_, b1qh, by omega⟩, b2a2', b1a4, ?_⟩
    · rw [hNP, b2id, pow_add]; ring
    · rw [pow_add]
      have : B ^ lo * (b1.q + 1) ≤ B ^ lo * B ^ hi := Nat.mul_le_mul_left _ b1q
      have e : B ^ lo * (b1.q + 1) = B ^ lo * b1.q + B ^ lo := by ring
      have e2 : B ^ hi * B ^ lo = B ^ lo * B ^ hi := Nat.mul_comm _ _
      omega
    · intro hND
      apply b1a2
      rw [Nat.div_lt_iff_lt_mul hKl]
      have e : D * B ^ hi * B ^ lo = D * B ^ (hi + lo) := by rw [pow_add]; ring
      omega

/-- the same for the public entry point (fuel = n) -/
theorem dcDivQrN_spec (T n N D : Nat) (hT : 6 ≤ T) (hn : 6 ≤ n) (hnorm : B ^ n ≤ 2 * D) (hD : D < B ^ n)
    (hN : N < B ^ n * B ^ n) :
    Good n N D (dcDivQrN T n N D) ∧ (dcDivQrN T n N D).al ≤ 2 ∧ (dcDivQrN T n N D).ah ≤ 4 ∧
      (N < D * B ^ n → (dcDivQrN T n N D).ah ≤ 2 ∧ (dcDivQrN T n N D).qh = 0) :=
  dcDivQrNF_spec T hT n n N D hn (Nat.le_refl _) hnorm hD hN

/-! ## (6) mpn_dc_div_qr -/

theorem reduceQn_spec (dn : Nat) (hdn : 1 ≤ dn) : ∀ (fuel qn j : Nat), dn < qn → qn ≤ fuel →
    1 ≤ (reduceQn dn fuel qn j).1 ∧ (reduceQn dn fuel qn j).1 ≤ dn ∧ j + 1 ≤ (reduceQn dn fuel qn j).2 ∧
      qn + j * dn = (reduceQn dn fuel qn j).1 + (reduceQn dn fuel qn j).2 * dn := by
  intro fuel
  induction fuel with
  | zero => intro qn j h1 h2; omega
  | succ fuel ih =>
    intro qn j h1 h2
    unfold reduceQn
    simp only []
    by_cases hc : qn - dn > dn
    · rw [if_pos hc]
      obtain ⟨a1, a2, a3, a4⟩ := ih (qn - dn) (j + 1) hc (by omega)
      refine ⟨a1, a2, by omega, ?_⟩
      rw [← a4, Nat.add_mul, Nat.one_mul]; omega
    · rw [if_neg hc]
      refine ⟨by simp only []; omega, by simp only []; omega, by simp only []; omega, ?_⟩
      simp only []
      rw [Nat.add_mul, Nat.one_mul]; omega

theorem oneStep_spec (dn W D : Nat) (hnorm : B ^ dn ≤ 2 * D) (hD : D < B ^ dn) (hW : W < B ^ dn * B) :
    Good 1 W D (oneStep W D) ∧ (oneStep W D).ah = 0 ∧ (oneStep W D).al = 0 := by
  have hB := B_pos
  have hD0 : 0 < D := by have := pow_pos' dn; omega
  have hWB : W / B < B ^ dn := by rw [Nat.div_lt_iff_lt_mul hB]; exact hW
  -- after the conditional subtraction the dn top limbs are below D
  have key : ∀ W1 : Nat, W1 / B < D → W1 = (W1 / D) * D + W1 % D ∧ W1 % D < D ∧ W1 / D < B := by
    intro W1 h
    refine ⟨(Nat.div_add_mod' W1 D).symm, Nat.mod_lt _ hD0, ?_⟩
    rw [Nat.div_lt_iff_lt_mul hD0]
    have := (Nat.div_lt_iff_lt_mul hB).mp h
    rw [Nat.mul_comm]; exact this
  unfold oneStep Good
  simp only [pow_one]
  by_cases hc : W / B ≥ D
  · rw [if_pos hc]
    simp only [if_pos (show (1 : Nat) ≠ 0 by decide)]
    have hBD : B * D ≤ W := by
      have := Nat.div_mul_le_self W B
      have : D * B ≤ W / B * B := Nat.mul_le_mul_right _ hc
      rw [Nat.mul_comm B D]; omega
    have h1 : (W - B * D) / B < D := by
      rw [Nat.div_lt_iff_lt_mul hB]
      have := (Nat.div_lt_iff_lt_mul hB).mp hWB
      have : B ^ dn * B ≤ 2 * D * B := Nat.mul_le_mul_right _ hnorm
      have e : 2 * D * B = B * D + D * B := by ring
      omega
    obtain ⟨k1, k2, k3⟩ := key _ h1
    refine ⟨⟨by simp [k3], ?_, k2, k3, by omega, by omega⟩, trivial, trivial⟩
    have e : (1 * B + (W - B * D) / D) * D = B * D + (W - B * D) / D * D := by ring
    omega
  · rw [if_neg hc]
    simp only [if_neg (show ¬ (0 : Nat) ≠ 0 by decide)]
    obtain ⟨k1, k2, k3⟩ := key W (by omega)
    refine ⟨⟨by simp [k3], ?_, k2, k3, by omega, by omega⟩, trivial, trivial⟩
    rw [Nat.zero_mul, Nat.zero_add]; exact k1

/-- the 2qn/qn division of blockQR -/
def blkCall (T : Nat) (two : Bool) (qn m W D : Nat) : Res :=
  if two && qn == 2 then divrem2Leaf (W / B ^ m) (D / B ^ m)
  else if qn < T then sbLeaf qn (W / B ^ m) (D / B ^ m)
  else dcDivQrN T qn (W / B ^ m) (D / B ^ m)

theorem blockQR_eq (T : Nat) (two : Bool) (qn dn W D : Nat) :
    blockQR T two qn dn W D =
      if qn ≠ dn then
        { q := (mulSubCorr qn (dn - qn) D (blkCall T two qn (dn - qn) W D).q (blkCall T two qn (dn - qn) W D).qh
                  (blkCall T two qn (dn - qn) W D).r (W % B ^ (dn - qn))).q,
          r := (mulSubCorr qn (dn - qn) D (blkCall T two qn (dn - qn) W D).q (blkCall T two qn (dn - qn) W D).qh
                  (blkCall T two qn (dn - qn) W D).r (W % B ^ (dn - qn))).r,
          qh := (mulSubCorr qn (dn - qn) D (blkCall T two qn (dn - qn) W D).q (blkCall T two qn (dn - qn) W D).qh
                  (blkCall T two qn (dn - qn) W D).r (W % B ^ (dn - qn))).qh,
          ah := (mulSubCorr qn (dn - qn) D (blkCall T two qn (dn - qn) W D).q (blkCall T two qn (dn - qn) W D).qh
                  (blkCall T two qn (dn - qn) W D).r (W % B ^ (dn - qn))).adds,
          al := 0,
          mx := max (blkCall T two qn (dn - qn) W D).mx
                  (mulSubCorr qn (dn - qn) D (blkCall T two qn (dn - qn) W D).q (blkCall T two qn (dn - qn) W D).qh
                    (blkCall T two qn (dn - qn) W D).r (W % B ^ (dn - qn))).adds,
          ok := (blkCall T two qn (dn - qn) W D).ok &&
                  (mulSubCorr qn (dn - qn) D (blkCall T two qn (dn - qn) W D).q (blkCall T two qn (dn - qn) W D).qh
                    (blkCall T two qn (dn - qn) W D).r (W % B ^ (dn - qn))).ok }
      else blkCall T two qn (dn - qn) W D := rfl

/-- the first quotient block of mpn_dc_div_qr (not the qn == 1 sub-case): W = {np-dn, dn+qn} -/
theorem blockQR_spec (T : Nat) (hT : 6 ≤ T) (two : Bool) (qn dn W D : Nat) (hqd : qn ≤ dn)
    (hqn : 3 ≤ qn ∨ (two = true ∧ qn = 2)) (hnorm : B ^ dn ≤ 2 * D) (hD : D < B ^ dn) (hW : W < B ^ dn * B ^ qn) :
    Good qn W D (blockQR T two qn dn W D) ∧ (blockQR T two qn dn W D).al ≤ 2 ∧
      (W < D * B ^ qn → (blockQR T two qn dn W D).ah ≤ 2 ∧ (blockQR T two qn dn W D).qh = 0) := by
  obtain ⟨m, hm⟩ : ∃ m, dn = qn + m := ⟨dn - qn, by omega⟩
  subst hm
  have hmm : qn + m - qn = m := by omega
  have hKq := pow_pos' qn
  have hBm := pow_pos' m
  obtain ⟨hnt, hdt⟩ := norm_top qn m D (by omega) hnorm hD
  have hWt : W / B ^ m < B ^ qn * B ^ qn := by
    rw [Nat.div_lt_iff_lt_mul hBm]
    have e : B ^ (qn + m) * B ^ qn = B ^ qn * B ^ qn * B ^ m := by rw [pow_add]; ring
    omega
  -- the 2qn/qn division
  have Hh : Good qn (W / B ^ m) (D / B ^ m) (blkCall T two qn m W D) ∧ (blkCall T two qn m W D).al ≤ 2 ∧
      (W / B ^ m < D / B ^ m * B ^ qn → (blkCall T two qn m W D).ah ≤ 2 ∧ (blkCall T two qn m W D).qh = 0) := by
    unfold blkCall
    by_cases h2 : (two && qn == 2) = true
    · rw [if_pos h2]
      have hq2 : qn = 2 := by
        simp only [Bool.and_eq_true, beq_iff_eq] at h2; exact h2.2
      subst hq2
      have G := divrem2Leaf_spec _ _ hnt hdt hWt
      refine ⟨G, by simp [divrem2Leaf], ?_⟩
      intro hlt
      refine ⟨by simp [divrem2Leaf], ?_⟩
      obtain ⟨_, gid, gr, gq, gqh, _⟩ := G
      rcases Nat.eq_zero_or_pos (divrem2Leaf (W / B ^ m) (D / B ^ m)).qh with h | h
      · exact h
      · exfalso
        have h1 : (divrem2Leaf (W / B ^ m) (D / B ^ m)).qh = 1 := by omega
        rw [h1] at gid
        have : (1 * B ^ 2 + (divrem2Leaf (W / B ^ m) (D / B ^ m)).q) * (D / B ^ m) =
            D / B ^ m * B ^ 2 + (divrem2Leaf (W / B ^ m) (D / B ^ m)).q * (D / B ^ m) := by ring
        omega
    · rw [if_neg h2]
      have hq3 : 3 ≤ qn := by
        rcases hqn with h | ⟨ht, hq⟩
        · exact h
        · exfalso; apply h2; simp [ht, hq]
      by_cases hlt : qn < T
      · rw [if_pos hlt]
        obtain ⟨G, ga, gl⟩ := sbLeaf_spec qn _ _ (by omega) hnt hdt hWt
        refine ⟨G, by omega, ?_⟩
        intro hlt2
        refine ⟨by omega, ?_⟩
        obtain ⟨_, gid, gr, gq, gqh, _⟩ := G
        rcases Nat.eq_zero_or_pos (sbLeaf qn (W / B ^ m) (D / B ^ m)).qh with h | h
        · exact h
        · exfalso
          have h1 : (sbLeaf qn (W / B ^ m) (D / B ^ m)).qh = 1 := by omega
          rw [h1] at gid
          have : (1 * B ^ qn + (sbLeaf qn (W / B ^ m) (D / B ^ m)).q) * (D / B ^ m) =
              D / B ^ m * B ^ qn + (sbLeaf qn (W / B ^ m) (D / B ^ m)).q * (D / B ^ m) := by ring
          omega
      · rw [if_neg hlt]
        obtain ⟨G, gl, _, g2⟩ := dcDivQrN_spec T qn _ _ hT (by omega) hnt hdt hWt
        exact ⟨G, gl, g2⟩
  rw [blockQR_eq, hmm]
  generalize blkCall T two qn m W D = h at *
  obtain ⟨⟨hok, hid, hr, hq, hqh, hmx⟩, hal, hah⟩ := Hh
  by_cases hm0 : m = 0
  · subst hm0
    rw [if_neg (by simp)]
    simp only [pow_zero, Nat.div_one, Nat.add_zero] at *
    exact ⟨⟨hok, hid, hr, hq, hqh, hmx⟩, hal, fun hlt => hah hlt⟩
  · rw [if_pos (by omega)]
    simp only []
    have hwin : ((h.qh * B ^ qn + h.q) * (D / B ^ m) + h.r) * B ^ m + W % B ^ m = W := by
      rw [← hid]; exact Nat.div_add_mod' _ _
    have S := mulSubCorr_spec qn m D h.q h.qh h.r (W % B ^ m) hD hnt hq hqh hr (Nat.mod_lt _ hBm) (by rw [← hid]; exact hWt)
    rw [hwin] at S
    generalize mulSubCorr qn m D h.q h.qh h.r (W % B ^ m) = b at *
    obtain ⟨bok, bid, br, bq, bqh, ba, ba4, ba2⟩ := S
    unfold Good
    simp only []
    exact ⟨⟨by simp [hok, bok], bid, br, bq, bqh, by omega⟩, by omega, ba2⟩

theorem mainLoop_succ (T dn N D j : Nat) (acc : Res) :
    mainLoop T dn N D (j + 1) acc =
      mainLoop T dn N D j
        { q := (dcDivQrN T dn (N / B ^ (j * dn) % B ^ dn + B ^ dn * acc.r) D).q + B ^ dn * acc.q,
          r := (dcDivQrN T dn (N / B ^ (j * dn) % B ^ dn + B ^ dn * acc.r) D).r, qh := acc.qh, ah := acc.ah,
          al := max acc.al (max (dcDivQrN T dn (N / B ^ (j * dn) % B ^ dn + B ^ dn * acc.r) D).ah
                  (dcDivQrN T dn (N / B ^ (j * dn) % B ^ dn + B ^ dn * acc.r) D).al),
          mx := max acc.mx (dcDivQrN T dn (N / B ^ (j * dn) % B ^ dn + B ^ dn * acc.r) D).mx,
          ok := acc.ok && (dcDivQrN T dn (N / B ^ (j * dn) % B ^ dn + B ^ dn * acc.r) D).ok &&
                  (dcDivQrN T dn (N / B ^ (j * dn) % B ^ dn + B ^ dn * acc.r) D).qh == 0 } := rfl

/-- the main loop: `acc` is the exact division of the part of N above the j lowest dn-limb blocks -/
theorem mainLoop_spec (T dn N D : Nat) (hT : 6 ≤ T) (hdn : 6 ≤ dn) (hnorm : B ^ dn ≤ 2 * D) (hD : D < B ^ dn) :
    ∀ (j a : Nat) (acc : Res), Good a (N / B ^ (j * dn)) D acc → acc.al ≤ 2 →
      Good (a + j * dn) N D (mainLoop T dn N D j acc) ∧ (mainLoop T dn N D j acc).qh = acc.qh ∧
        (mainLoop T dn N D j acc).ah = acc.ah ∧ (mainLoop T dn N D j acc).al ≤ 2 := by
  intro j
  induction j with
  | zero =>
    intro a acc hG hal
    simp only [Nat.zero_mul, pow_zero, Nat.div_one, Nat.add_zero] at *
    exact ⟨hG, rfl, rfl, hal⟩
  | succ j ih =>
    intro a acc hG hal
    rw [mainLoop_succ]
    have hK := pow_pos' dn
    obtain ⟨aok, aid, ar, aq, aqh, amx⟩ := hG
    have hNb : N / B ^ (j * dn) % B ^ dn < B ^ dn := Nat.mod_lt _ hK
    have hsplit : N / B ^ (j * dn) = N / B ^ ((j + 1) * dn) * B ^ dn + N / B ^ (j * dn) % B ^ dn := by
      rw [Nat.add_mul, Nat.one_mul, pow_add, ← Nat.div_div_eq_div_mul]
      exact (Nat.div_add_mod' _ _).symm
    generalize N / B ^ (j * dn) % B ^ dn = Nb at *
    have hle : B ^ dn * (acc.r + 1) ≤ B ^ dn * D := Nat.mul_le_mul_left _ ar
    have hle2 : B ^ dn * D ≤ B ^ dn * B ^ dn := Nat.mul_le_mul_left _ (Nat.le_of_lt hD)
    have e : B ^ dn * (acc.r + 1) = B ^ dn * acc.r + B ^ dn := by ring
    obtain ⟨G, gl, _, g2⟩ := dcDivQrN_spec T dn (Nb + B ^ dn * acc.r) D hT hdn hnorm hD (by omega)
    obtain ⟨gah, gqh⟩ := g2 (by rw [Nat.mul_comm D]; omega)
    generalize dcDivQrN T dn (Nb + B ^ dn * acc.r) D = r at *
    obtain ⟨rok, rid, rr, rq, rqh, rmx⟩ := G
    rw [gqh, Nat.zero_mul, Nat.zero_add] at rid
    have hG' : Good (a + dn) (N / B ^ (j * dn)) D
        { q := r.q + B ^ dn * acc.q, r := r.r, qh := acc.qh, ah := acc.ah, al := max acc.al (max r.ah r.al),
          mx := max acc.mx r.mx, ok := acc.ok && r.ok && r.qh == 0 } := by
      refine ⟨by simp [aok, rok, gqh], ?_, rr, ?_, aqh, by simp only []; omega⟩
      · show N / B ^ (j * dn) = (acc.qh * B ^ (a + dn) + (r.q + B ^ dn * acc.q)) * D + r.r
        rw [hsplit, aid]
        have : ((acc.qh * B ^ a + acc.q) * D + acc.r) * B ^ dn + Nb =
            (acc.qh * B ^ a + acc.q) * B ^ dn * D + (Nb + B ^ dn * acc.r) := by ring
        rw [this, rid, pow_add]; ring
      · show r.q + B ^ dn * acc.q < B ^ (a + dn)
        rw [pow_add]
        have : B ^ dn * (acc.q + 1) ≤ B ^ dn * B ^ a := Nat.mul_le_mul_left _ aq
        have e1 : B ^ dn * (acc.q + 1) = B ^ dn * acc.q + B ^ dn := by ring
        have e2 : B ^ a * B ^ dn = B ^ dn * B ^ a := Nat.mul_comm _ _
        omega
    obtain ⟨i1, i2, i3, i4⟩ := ih (a + dn) _ hG' (by simp only []; omega)
    have ea : a + dn + j * dn = a + (j + 1) * dn := by rw [Nat.add_mul, Nat.one_mul]; omega
    rw [ea] at i1
    exact ⟨i1, i2, i3, i4⟩

/-- mpn_dc_div_qr: exact, callees in their domains, loops bounded -/
theorem dcDivQr_spec (T nn dn N D : Nat) (hT : 6 ≤ T) (hdn : 6 ≤ dn) (hqn : dn + 3 ≤ nn)
    (hnorm : B ^ dn ≤ 2 * D) (hD : D < B ^ dn) (hN : N < B ^ nn) :
    Good (nn - dn) N D (dcDivQr T nn dn N D) ∧ (dcDivQr T nn dn N D).al ≤ 2 := by
  unfold dcDivQr
  simp only []
  by_cases hc : nn - dn > dn
  · rw [if_pos hc]
    obtain ⟨r1, r2, r3, r4⟩ := reduceQn_spec dn (by omega) (nn - dn) (nn - dn) 0 hc (Nat.le_refl _)
    generalize reduceQn dn (nn - dn) (nn - dn) 0 = rj at *
    obtain ⟨qn0, j⟩ := rj
    simp only [Nat.zero_mul, Nat.add_zero] at r1 r2 r3 r4 ⊢
    have hnn : nn = dn + qn0 + j * dn := by omega
    have hW : N / B ^ (j * dn) < B ^ dn * B ^ qn0 := by
      rw [Nat.div_lt_iff_lt_mul (pow_pos' _), ← pow_add, ← pow_add, ← hnn]; exact hN
    have Hf : Good qn0 (N / B ^ (j * dn)) D
          (if qn0 = 1 then oneStep (N / B ^ (j * dn)) D else blockQR T true qn0 dn (N / B ^ (j * dn)) D) ∧
        (if qn0 = 1 then oneStep (N / B ^ (j * dn)) D else blockQR T true qn0 dn (N / B ^ (j * dn)) D).al ≤ 2 := by
      by_cases h1 : qn0 = 1
      · rw [if_pos h1]
        subst h1
        rw [pow_one] at hW
        obtain ⟨G, _, gl⟩ := oneStep_spec dn _ D hnorm hD hW
        exact ⟨G, by omega⟩
      · rw [if_neg h1]
        have hq : 3 ≤ qn0 ∨ (true = true ∧ qn0 = 2) := by
          rcases Nat.lt_or_ge qn0 3 with h | h
          · exact Or.inr ⟨rfl, by omega⟩
          · exact Or.inl h
        obtain ⟨G, gl, _⟩ := blockQR_spec T hT true qn0 dn _ D r2 hq hnorm hD hW
        exact ⟨G, gl⟩
    obtain ⟨i1, _, _, i4⟩ := mainLoop_spec T dn N D hT hdn hnorm hD j qn0 _ Hf.1 Hf.2
    have e : nn - dn = qn0 + j * dn := by omega
    rw [e]
    exact ⟨i1, i4⟩
  · rw [if_neg hc]
    have hW : N < B ^ dn * B ^ (nn - dn) := by
      rw [← pow_add]
      have : dn + (nn - dn) = nn := by omega
      rw [this]; exact hN
    obtain ⟨G, gl, _⟩ := blockQR_spec T hT false (nn - dn) dn N D (by omega) (Or.inl (by omega)) hnorm hD hW
    exact ⟨G, gl⟩

/-! ## (7) mpn_dc_div_q -/

/-- X = X'·B + w0 is ⌊N·B/D⌋ or one more: what the high part X' can be -/
theorem approx_cases (X' w0 F : Nat) (hw : w0 < B) (h : X' * B + w0 = F ∨ X' * B + w0 = F + 1) :
    (w0 ≠ 0 → F / B = X') ∧ (w0 = 0 → F / B = X' ∨ F / B + 1 = X') := by
  have hB := B_eq
  generalize B = b at *
  subst hB
  omega

theorem floor_shift (N D : Nat) : N * B / D / B = N / D := by
  rw [Nat.div_div_eq_div_mul, Nat.mul_div_mul_right _ _ B_pos]

/-- mpn_dc_div_q given the callee's contract.  (A, ah) = what mpn_dc_divappr_q returned for N·B: ah ≤ 1 and
    ah·B^(qn+1) + A is ⌊N·B/D⌋ or ⌊N·B/D⌋ + 1. -/
theorem dcDivQ_spec (nn dn N D A ah : Nat) (hnn : dn ≤ nn) (hD0 : 0 < D) (hD : D < B ^ dn) (hN : N < B ^ nn)
    (hA : A < B ^ (nn - dn + 1)) (hah : ah ≤ 1)
    (hX : ah * B ^ (nn - dn + 1) + A = N * B / D ∨ ah * B ^ (nn - dn + 1) + A = N * B / D + 1) :
    (dcDivQ nn dn N D A ah).2 * B ^ (nn - dn) + (dcDivQ nn dn N D A ah).1 = N / D ∧
      (dcDivQ nn dn N D A ah).1 < B ^ (nn - dn) ∧ (dcDivQ nn dn N D A ah).2 ≤ 1 := by
  obtain ⟨qn, hqn⟩ : ∃ qn, nn = qn + dn := ⟨nn - dn, by omega⟩
  subst hqn
  have hq : qn + dn - dn = qn := by omega
  rw [hq] at hA hX ⊢
  have hB := B_pos
  have hK := pow_pos' qn
  have hKd := pow_pos' dn
  -- split the callee's answer into the guard limb and the rest
  have hA' : A = A / B * B + A % B := (Nat.div_add_mod' A B).symm
  have hw0 : A % B < B := Nat.mod_lt _ hB
  have hWlt : A / B < B ^ qn := by
    rw [Nat.div_lt_iff_lt_mul hB, ← pow_succ]; exact hA
  have hXsplit : ah * B ^ (qn + 1) + A = (ah * B ^ qn + A / B) * B + A % B := by
    rw [pow_succ]
    have : (ah * B ^ qn + A / B) * B = ah * (B ^ qn * B) + A / B * B := by ring
    omega
  rw [hXsplit] at hX
  obtain ⟨c1, c2⟩ := approx_cases _ _ _ hw0 hX
  rw [floor_shift] at c1 c2
  unfold dcDivQ
  simp only [hq]
  generalize A / B = W at *
  generalize ht : N / D = t at *
  by_cases h0 : A % B = 0
  · rw [if_pos h0]
    have hXt := c2 h0
    -- tp (with the carry of the mpn_add_n) is X'·D
    have htp : W * D < B ^ qn * B ^ dn := Nat.mul_lt_mul'' hWlt hD
    have hS : ∀ s : Nat × Nat, s = (if ah ≠ 0 then
          (W * D % B ^ qn + B ^ qn * (addN dn (W * D / B ^ qn) D).1, (addN dn (W * D / B ^ qn) D).2) else (W * D, 0)) →
        s.1 + s.2 * (B ^ qn * B ^ dn) = (ah * B ^ qn + W) * D ∧ s.1 < B ^ qn * B ^ dn ∧ s.2 ≤ 1 := by
      intro s hs
      by_cases ha : ah = 0
      · subst ha
        rw [if_neg (by simp)] at hs
        subst hs
        simp only [Nat.zero_mul, Nat.zero_add, Nat.add_zero]
        exact ⟨trivial, htp, by omega⟩
      · have ha1 : ah = 1 := by omega
        subst ha1
        rw [if_pos (by simp)] at hs
        subst hs
        have hdiv : W * D / B ^ qn < B ^ dn := by
          rw [Nat.div_lt_iff_lt_mul hK, Nat.mul_comm (B ^ dn)]; exact htp
        obtain ⟨a1, a2, a3⟩ := addN_spec dn _ D hdiv (Nat.le_of_lt hD)
        have hmd : W * D % B ^ qn + B ^ qn * (W * D / B ^ qn) = W * D := Nat.mod_add_div _ _
        have hml : W * D % B ^ qn < B ^ qn := Nat.mod_lt _ hK
        simp only []
        generalize (addN dn (W * D / B ^ qn) D).1 = r at *
        generalize (addN dn (W * D / B ^ qn) D).2 = c at *
        generalize W * D % B ^ qn = lo at *
        generalize W * D / B ^ qn = hi at *
        generalize hWD : W * D = WD at *
        refine ⟨?_, ?_, a3⟩
        · have : (1 * B ^ qn + W) * D = B ^ qn * D + WD := by rw [← hWD]; ring
          rw [this]
          have e1 : B ^ qn * (r + c * B ^ dn) = B ^ qn * (hi + D) := by rw [a1]
          have e2 : B ^ qn * (r + c * B ^ dn) = B ^ qn * r + c * (B ^ qn * B ^ dn) := by ring
          have e3 : B ^ qn * (hi + D) = B ^ qn * hi + B ^ qn * D := by ring
          omega
        · have : B ^ qn * (r + 1) ≤ B ^ qn * B ^ dn := Nat.mul_le_mul_left _ a2
          have e : B ^ qn * (r + 1) = B ^ qn * r + B ^ qn := by ring
          omega
    obtain ⟨s1, s2, s3⟩ := hS _ rfl
    generalize (if ah ≠ 0 then
          (W * D % B ^ qn + B ^ qn * (addN dn (W * D / B ^ qn) D).1, (addN dn (W * D / B ^ qn) D).2) else (W * D, 0)) = s at *
    rw [pow_add] at hN
    -- the test is X'·D > N, i.e. X' > ⌊N/D⌋
    have htest : (s.2 ≠ 0 ∨ s.1 > N) ↔ t < ah * B ^ qn + W := by
      rw [← ht, Nat.div_lt_iff_lt_mul hD0, ← s1]
      constructor
      · rintro (h | h)
        · have : s.2 = 1 := by omega
          rw [this]; omega
        · omega
      · intro h
        by_cases hs : s.2 = 0
        · right; rw [hs] at h; omega
        · left; exact hs
    by_cases hts : s.2 ≠ 0 ∨ s.1 > N
    · rw [if_pos hts]
      have hgt := htest.mp hts
      have h1 : 1 ≤ ah * B ^ qn + W := by omega
      obtain ⟨e1, e2, e3⟩ := dec_repr qn W ah hWlt hah h1
      simp only []
      exact ⟨by omega, e2, e3⟩
    · rw [if_neg hts]
      have hle : ¬ t < ah * B ^ qn + W := fun h => hts (htest.mpr h)
      simp only []
      exact ⟨by omega, hWlt, hah⟩
  · rw [if_neg h0]
    simp only []
    exact ⟨(c1 h0).symm, hWlt, hah⟩

/-! ## limb vectors -/

theorem toLimbs_add_high : ∀ (k v h : Nat), toLimbs k (v + B ^ k * h) = toLimbs k v
  | 0, _, _ => rfl
  | k + 1, v, h => by
    have hB := B_pos
    have e : v + B ^ (k + 1) * h = v + B * (B ^ k * h) := by rw [pow_succ]; ring
    rw [Mpir.SbDiv.toLimbs_succ, Mpir.SbDiv.toLimbs_succ, e, Nat.add_mul_mod_self_left, Nat.add_mul_div_left _ _ hB,
      toLimbs_add_high k (v / B) h]

/-- a normalised dn-limb vector, as a value -/
theorem norm_val (d : List Nat) (hd : Limbs d) (hdn : 1 ≤ d.length) (hnorm : B / 2 ≤ d.getD (d.length - 1) 0) :
    B ^ d.length ≤ 2 * val d ∧ val d < B ^ d.length ∧ DivZ.normalised d = true := by
  refine ⟨?_, val_lt d hd, ?_⟩
  · obtain ⟨k, hk⟩ : ∃ k, d.length = k + 1 := ⟨d.length - 1, by omega⟩
    have hsplit := Mpir.SbDiv.val_take_top d k hk
    rw [hk, show k + 1 - 1 = k from rfl] at hnorm
    rw [hk, ← hsplit, pow_succ]
    have : B ^ k * B ≤ B ^ k * (2 * d.getD k 0) := Nat.mul_le_mul_left _ (by rw [B_eq] at *; omega)
    have e : B ^ k * (2 * d.getD k 0) = 2 * (B ^ k * d.getD k 0) := by ring
    omega
  · obtain ⟨k, hk⟩ : ∃ k, d.length = k + 1 := ⟨d.length - 1, by omega⟩
    rw [hk, show k + 1 - 1 = k from rfl] at hnorm
    unfold DivZ.normalised
    have : d.getLast? = some (d.getD k 0) := by
      rw [List.getLast?_eq_getElem?, hk, show k + 1 - 1 = k from rfl, List.getD_eq_getElem?_getD]
      have hlt : k < d.length := by omega
      rw [List.getElem?_eq_getElem hlt]; rfl
    rw [this]
    simpa using hnorm

end Mpir.DcDiv
