/- mpn_mul_mfa_trunc_sqrt2 (value-level transforms, limb-level split / pointwise product / combine) computes the
   product; the parameter records of mpn_mul_fft_main that select it have depth ≥ 10. -/
import MpirProofs.Lemmas.FftXMfaChain
import MpirProofs.Lemmas.FftParams
set_option linter.unusedSimpArgs false
namespace Mpir.FftX
open Mpir Finset

/-- rounding up to a multiple of M (mul_mfa_trunc_sqrt2.c:82) -/
theorem roundup_spec (M t q : Nat) (hM : 0 < M) (ht : t ≤ M * q) :
    t ≤ M * ((t + M - 1) / M) ∧ M * ((t + M - 1) / M) ≤ M * q := by
  constructor
  · have h2 := Nat.lt_mul_div_succ (t + M - 1) hM
    rw [Nat.mul_succ] at h2
    omega
  · apply Nat.mul_le_mul_left
    apply Nat.lt_succ_iff.mp
    rw [Nat.div_lt_iff_lt_mul hM, Nat.succ_mul, Nat.mul_comm q M]
    omega

/-- mpn_mul_mfa_trunc_sqrt2 at parameters satisfying the conditions that `fft_params_sound` establishes, depth ≥ 2
    (sqrt = 2^(depth/2) ≥ 2 columns): the result is the product -/
theorem mul_mfa_trunc_sqrt2_spec (i1 i2 : List Nat) (depth w : Nat) (hi1 : Limbs i1) (hi2 : Limbs i2)
    (hn1 : 1 ≤ i1.length) (hn2 : 1 ≤ i2.length) (hdep : 2 ≤ depth)
    (hs : FftParams.Sound i1.length i2.length ⟨true, depth, w⟩) :
    (mul_mfa_trunc_sqrt2 i1 i2 depth w).length = i1.length + i2.length ∧ Limbs (mul_mfa_trunc_sqrt2 i1 i2 depth w) ∧
    val (mul_mfa_trunc_sqrt2 i1 i2 depth w) = val i1 * val i2 := by
  obtain ⟨s1, s2, s3, s4, s5, _⟩ := hs
  simp only [FftParams.limbBits, FftParams.bitsOf, FftParams.trunc, FftParams.coeffs] at s1 s2 s3 s4 s5
  obtain ⟨e1, he1⟩ : ∃ e1, depth / 2 = e1 + 1 := ⟨depth / 2 - 1, by omega⟩
  obtain ⟨e2, he2⟩ : ∃ e2, depth = e1 + e2 + 1 := ⟨depth - depth / 2, by omega⟩
  unfold mul_mfa_trunc_sqrt2
  simp only []
  rw [he1]
  subst he2
  obtain ⟨L, hL⟩ := s1
  have eL : 2 ^ (e1 + e2 + 1) * w / 64 = L := by rw [hL]; omega
  rw [eL]
  generalize hbits : (2 ^ (e1 + e2 + 1) * w - (e1 + e2 + 1 + 1)) / 2 = bits at *
  have hw : 1 ≤ w := by
    rcases Nat.eq_zero_or_pos w with h | h
    · subst h; simp at hbits; omega
    · exact h
  have hL1 : 1 ≤ L := by
    have : 1 ≤ 2 ^ (e1 + e2 + 1) * w := Nat.mul_pos (two_pow_pos' _) hw
    omega
  -- coefficient counts
  generalize hj1 : (i1.length * 64 - 1) / bits + 1 = j1 at *
  generalize hj2 : (i2.length * 64 - 1) / bits + 1 = j2 at *
  have hj1p : 1 ≤ j1 := by rw [← hj1]; exact Nat.le_add_left 1 _
  have hj2p : 1 ≤ j2 := by rw [← hj2]; exact Nat.le_add_left 1 _
  -- trunc
  have hN4 : 4 * 2 ^ (e1 + e2 + 1) = 2 * 2 ^ (e1 + 1) * 2 ^ (e2 + 1) := by
    rw [show e1 + e2 + 1 = (e1 + 1) + e2 by ring, pow_add, pow_succ 2 e2]; ring
  have ht0 : (if j1 + j2 - 1 ≤ 2 * 2 ^ (e1 + e2 + 1) then 2 * 2 ^ (e1 + e2 + 1) + 1 else j1 + j2 - 1) ≤
      2 * 2 ^ (e1 + 1) * 2 ^ (e2 + 1) := by
    rw [← hN4]; have := two_pow_pos' (e1 + e2 + 1); split_ifs <;> omega
  obtain ⟨r1, r2⟩ := roundup_spec (2 * 2 ^ (e1 + 1)) _ (2 ^ (e2 + 1)) (by have := two_pow_pos' (e1 + 1); omega) ht0
  have hdiv : 2 * 2 ^ (e1 + 1) ∣ 2 * 2 ^ (e1 + 1) *
      (((if j1 + j2 - 1 ≤ 2 * 2 ^ (e1 + e2 + 1) then 2 * 2 ^ (e1 + e2 + 1) + 1 else j1 + j2 - 1) + 2 * 2 ^ (e1 + 1) - 1) /
        (2 * 2 ^ (e1 + 1))) := Dvd.intro _ rfl
  generalize htr : 2 * 2 ^ (e1 + 1) *
      (((if j1 + j2 - 1 ≤ 2 * 2 ^ (e1 + e2 + 1) then 2 * 2 ^ (e1 + e2 + 1) + 1 else j1 + j2 - 1) + 2 * 2 ^ (e1 + 1) - 1) /
        (2 * 2 ^ (e1 + 1))) = trunc at *
  rw [← hN4] at r2
  have hev2 : trunc % 2 = 0 := by
    obtain ⟨q, hq⟩ := hdiv; rw [hq, Nat.mul_assoc]; exact Nat.mul_mod_right 2 _
  have ht : TruncSOk (e1 + e2 + 1) trunc := by
    refine ⟨hev2, ?_, r2⟩
    split_ifs at r1 <;> omega
  have hJt : j1 + j2 ≤ trunc + 1 := by split_ifs at r1 <;> omega
  -- the split coefficients
  have hbL : 2 ^ bits ≤ B ^ L := by
    rw [Fft.B_pow_two']; apply Nat.pow_le_pow_right (by norm_num); omega
  have hol : (bits + 63) / 64 ≤ L + 1 := by omega
  obtain ⟨pa, ca, la⟩ := Fft.split_bits_val i1 bits L hi1 hn1 s2 hol
  obtain ⟨pb, cb, lb⟩ := Fft.split_bits_val i2 bits L hi2 hn2 s2 hol
  rw [Nat.mul_comm 64] at la lb
  rw [hj1] at la; rw [hj2] at lb
  -- the coefficient sequences
  set a := List.map (fun c => Fft.rval c) (Fft.split_bits i1 bits L) ++
    List.replicate (4 * 2 ^ (e1 + e2 + 1) - (Fft.split_bits i1 bits L).length) (0 : Int) with ha'
  set b := List.map (fun c => Fft.rval c) (Fft.split_bits i2 bits L) ++
    List.replicate (4 * 2 ^ (e1 + e2 + 1) - (Fft.split_bits i2 bits L).length) (0 : Int) with hb'
  have ha : a = padC (4 * 2 ^ (e1 + e2 + 1)) (Fft.split_bits i1 bits L) := rfl
  have hb : b = padC (4 * 2 ^ (e1 + e2 + 1)) (Fft.split_bits i2 bits L) := rfl
  have hla : a.length = 4 * 2 ^ (e1 + e2 + 1) := by rw [ha, length_padC _ _ (by rw [la]; omega)]
  have hlb : b.length = 4 * 2 ^ (e1 + e2 + 1) := by rw [hb, length_padC _ _ (by rw [lb]; omega)]
  have ea := el_padC (4 * 2 ^ (e1 + e2 + 1)) L bits _ ca hbL
  have eb := el_padC (4 * 2 ^ (e1 + e2 + 1)) L bits _ cb hbL
  rw [la] at ea; rw [lb] at eb
  have a0 : ∀ i, j1 ≤ i → el a i = 0 := fun i hi => by rw [ha, ea, if_neg (by omega)]
  have b0 : ∀ i, j2 ≤ i → el b i = 0 := fun i hi => by rw [hb, eb, if_neg (by omega)]
  have mem_getD : ∀ (cs : List (List Nat)) (i : Nat), i < cs.length → cs.getD i [] ∈ cs := by
    intro cs i h; rw [List.getD_eq_getElem?_getD, List.getElem?_eq_getElem h]; simp
  have abound : ∀ i, 0 ≤ el a i ∧ el a i ≤ 2 ^ bits - 1 := by
    intro i; rw [ha, ea]
    split_ifs with h
    · have := (ca _ (mem_getD _ i (by rw [la]; exact h))).2.2
      constructor
      · positivity
      · have : (val ((Fft.split_bits i1 bits L).getD i []) : Int) < 2 ^ bits := by exact_mod_cast this
        omega
    · constructor
      · rfl
      · have : (1 : Int) ≤ 2 ^ bits := one_le_pow₀ (by norm_num)
        omega
  have bbound : ∀ i, 0 ≤ el b i ∧ el b i ≤ 2 ^ bits - 1 := by
    intro i; rw [hb, eb]
    split_ifs with h
    · have := (cb _ (mem_getD _ i (by rw [lb]; exact h))).2.2
      constructor
      · positivity
      · have : (val ((Fft.split_bits i2 bits L).getD i []) : Int) < 2 ^ bits := by exact_mod_cast this
        omega
    · constructor
      · rfl
      · have : (1 : Int) ≤ 2 ^ bits := one_le_pow₀ (by norm_num)
        omega
  -- the convolution entries are below 2^(64 L)
  have hM : (0 : Int) ≤ 2 ^ bits - 1 := by
    have : (1 : Int) ≤ 2 ^ bits := one_le_pow₀ (by norm_num)
    omega
  have cbound : ∀ j, j < 4 * 2 ^ (e1 + e2 + 1) → 0 ≤ el (conv a b (4 * 2 ^ (e1 + e2 + 1))) j ∧
      el (conv a b (4 * 2 ^ (e1 + e2 + 1))) j < 2 ^ (64 * L) := by
    intro j hj
    obtain ⟨c0, c1, c2⟩ := conv_bound a b (4 * 2 ^ (e1 + e2 + 1)) j1 j2 j (2 ^ bits - 1) hM a0 b0 abound bbound hj
    refine ⟨c0, ?_⟩
    have hmin : (j1 : Int) ≤ 2 * 2 ^ (e1 + e2 + 1) ∨ (j2 : Int) ≤ 2 * 2 ^ (e1 + e2 + 1) := by
      rcases Nat.le_total j1 j2 with h | h
      · left; have : j1 ≤ 2 * 2 ^ (e1 + e2 + 1) := by omega
        exact_mod_cast this
      · right; have : j2 ≤ 2 * 2 ^ (e1 + e2 + 1) := by omega
        exact_mod_cast this
    have hsq : ((2 : Int) ^ bits - 1) * (2 ^ bits - 1) < 2 ^ bits * 2 ^ bits := by nlinarith
    have hsq0 : (0 : Int) ≤ (2 ^ bits - 1) * (2 ^ bits - 1) := mul_nonneg hM hM
    have hpow : (2 : Int) * 2 ^ (e1 + e2 + 1) * (2 ^ bits * 2 ^ bits) ≤ 2 ^ (64 * L) := by
      have e : ∀ D : Nat, (2 : Int) * 2 ^ D * (2 ^ bits * 2 ^ bits) = 2 ^ (2 * bits + D + 1) := by
        intro D; rw [pow_succ, pow_add, pow_mul']; ring
      rw [e]; apply pow_le_pow_right₀ (by norm_num); omega
    have hdpos : (0 : Int) < 2 * 2 ^ (e1 + e2 + 1) := by positivity
    rcases hmin with h | h
    · calc el (conv a b (4 * 2 ^ (e1 + e2 + 1))) j ≤ (j1 : Int) * ((2 ^ bits - 1) * (2 ^ bits - 1)) := c1
        _ ≤ 2 * 2 ^ (e1 + e2 + 1) * ((2 ^ bits - 1) * (2 ^ bits - 1)) := mul_le_mul_of_nonneg_right h hsq0
        _ < 2 * 2 ^ (e1 + e2 + 1) * (2 ^ bits * 2 ^ bits) := mul_lt_mul_of_pos_left hsq hdpos
        _ ≤ 2 ^ (64 * L) := hpow
    · calc el (conv a b (4 * 2 ^ (e1 + e2 + 1))) j ≤ (j2 : Int) * ((2 ^ bits - 1) * (2 ^ bits - 1)) := c2
        _ ≤ 2 * 2 ^ (e1 + e2 + 1) * ((2 ^ bits - 1) * (2 ^ bits - 1)) := mul_le_mul_of_nonneg_right h hsq0
        _ < 2 * 2 ^ (e1 + e2 + 1) * (2 ^ bits * 2 ^ bits) := mul_lt_mul_of_pos_left hsq hdpos
        _ ≤ 2 ^ (64 * L) := hpow
  -- every recombined coefficient is the convolution entry, in a buffer with top limb zero
  set g : Nat → List Nat := fun j =>
    canon L (el (ifft_mfa_trunc_sqrt2_outer (e1 + e2 + 1) w (2 ^ (e1 + 1)) trunc
      (fft_mfa_trunc_sqrt2_inner (e1 + e2 + 1) w (2 ^ (e1 + 1)) trunc
        (fft_mfa_trunc_sqrt2_outer (e1 + e2 + 1) w (2 ^ (e1 + 1)) trunc a)
        (fft_mfa_trunc_sqrt2_outer (e1 + e2 + 1) w (2 ^ (e1 + 1)) trunc b))) j) with hg
  have hcoef : ∀ j, j < j1 + j2 - 1 →
      (g j).length = L + 1 ∧ Limbs (g j) ∧ val (g j) < B ^ L ∧
        (val (g j) : Int) = el (conv a b (4 * 2 ^ (e1 + e2 + 1))) j :=
    fun j hj =>
      canon_of_small L _ _ (mfa_conv_chain e1 e2 w L trunc j1 j2 a b hL hw hla hlb ht hdiv a0 b0 hj1p hj2p hJt j (by omega))
        (cbound j (by omega)).1 (cbound j (by omega)).2
  obtain ⟨r1', r2', r3'⟩ := Fft.combine_bits_eval (List.replicate (i1.length + i2.length) 0)
    ((List.range (j1 + j2 - 1)).map g) bits L
    (Fft.Limbs_replicate_zero _) (Fft.val_replicate_zero _) s2
    (fun c hc => by
      obtain ⟨j, hj, rfl⟩ := List.mem_map.mp hc
      have hj := List.mem_range.mp hj
      obtain ⟨q1, q2, q3, _⟩ := hcoef j hj
      exact ⟨q1, q2, q3⟩)
  refine ⟨by rw [r1']; simp, r2', ?_⟩
  rw [r3']
  -- the evaluation at 2^bits
  have hev : (Fft.polyEval bits ((List.range (j1 + j2 - 1)).map g) : Int) = (val i1 : Int) * (val i2 : Int) := by
    rw [polyEval_range_map]
    have e1' : ∀ j ∈ range (j1 + j2 - 1), (val (g j) : Int) * ((2 : Int) ^ bits) ^ j =
        el (conv a b (4 * 2 ^ (e1 + e2 + 1))) j * ((2 : Int) ^ bits) ^ j :=
      fun j hj => by rw [(hcoef j (mem_range.mp hj)).2.2.2]
    rw [sum_congr rfl e1']
    have e2' : ∑ j ∈ range (j1 + j2 - 1), el (conv a b (4 * 2 ^ (e1 + e2 + 1))) j * ((2 : Int) ^ bits) ^ j =
        ∑ j ∈ range (4 * 2 ^ (e1 + e2 + 1)), el (conv a b (4 * 2 ^ (e1 + e2 + 1))) j * ((2 : Int) ^ bits) ^ j := by
      apply sum_subset (range_subset_range.mpr s4)
      intro j _ hj
      have : j1 + j2 - 1 ≤ j := by simpa using hj
      rw [conv_zero a b _ j1 j2 j a0 b0 (by omega)]; ring
    rw [e2']
    have e3 : ∀ j ∈ range (4 * 2 ^ (e1 + e2 + 1)), el (conv a b (4 * 2 ^ (e1 + e2 + 1))) j * ((2 : Int) ^ bits) ^ j =
        (∑ i ∈ range (j + 1), el a i * el b (j - i)) * ((2 : Int) ^ bits) ^ j :=
      fun j hj => by rw [el_conv _ _ _ _ (mem_range.mp hj)]
    rw [sum_congr rfl e3, cauchy_range (fun i => el a i) (fun i => el b i) ((2 : Int) ^ bits) (4 * 2 ^ (e1 + e2 + 1)) j1 j2 a0 b0
      (by omega)]
    rw [ha, hb, padC_eval _ L bits _ ca hbL (by rw [la]; omega), padC_eval _ L bits _ cb hbL (by rw [lb]; omega), pa, pb]
  have hev' : Fft.polyEval bits ((List.range (j1 + j2 - 1)).map g) = val i1 * val i2 := by
    exact_mod_cast hev
  rw [hev']
  apply Nat.mod_eq_of_lt
  simp only [List.length_replicate]
  rw [pow_add]
  exact Nat.mul_lt_mul'' (val_lt i1 hi1) (val_lt i2 hi2)

end Mpir.FftX

namespace Mpir.FftParams

/-- mul_fft_main.c:70, :93-101: the matrix Fourier multiplier is only ever selected with depth ≥ 10 -/
theorem fftParams_mfa_depth (tab : List (List Int)) (n1 n2 : Nat) (depth w : Nat)
    (h : fftParams tab n1 n2 = some ⟨true, depth, w⟩) : 10 ≤ depth := by
  unfold fftParams at h
  simp only [] at h
  split at h
  · simp at h
  · rename_i d0 w0 hf
    simp only [Option.some.injEq] at h
    unfold adjust at h
    by_cases hd : d0 < 11
    · simp only [hd, if_true] at h
      have := congrArg Choice.mfa h
      simp at this
    · simp only [hd, if_false] at h
      split at h
      · have := congrArg Choice.depth h
        simp only at this; omega
      · have := congrArg Choice.depth h
        simp only at this; omega

end Mpir.FftParams
