/- Exactness of the truncations in mpf_set_str when the numbers involved fit in p = 64·(prec-1) bits:
   nothing but zero limbs is ever dropped. -/
import MpirProofs.Lemmas.MpfStr
import Mathlib.Algebra.Ring.Parity
import Mathlib.Data.Nat.GCD.Basic
import Mathlib.Data.Nat.Factorization.Basic
namespace Mpir.MpfStr
open Mpir Mpir.Mpf

/-- a factor of a number that fits in p bits fits in p bits -/
theorem fitsN_of_mul {x y p : ℕ} (h : FitsN (x * y) p) (hne : x * y ≠ 0) : FitsN x p := by
  obtain ⟨m, j, hm, hmp⟩ := h
  have hx : x ≠ 0 := left_ne_zero_of_mul hne
  obtain ⟨k, x', hodd, hxx⟩ := Nat.exists_eq_two_pow_mul_odd hx
  refine ⟨x', k, by rw [hxx]; ring, ?_⟩
  have hdvd : x' ∣ m * 2 ^ j := by
    rw [← hm, hxx]; exact ⟨2 ^ k * y, by ring⟩
  have hcop : Nat.Coprime x' (2 ^ j) := (Nat.coprime_two_right.mpr hodd).pow_right j
  have hd : x' ∣ m := hcop.dvd_of_dvd_mul_right hdvd
  have hm0 : m ≠ 0 := by
    intro h0; rw [h0, Nat.zero_mul] at hm; exact hne hm
  exact lt_of_le_of_lt (Nat.le_of_dvd (Nat.pos_of_ne_zero hm0) hd) hmp

theorem fitsN_of_mul_Bpow {N k p : ℕ} (h : FitsN (N * B ^ k) p) : FitsN N p := by
  rw [B_pow'] at h; exact fitsN_of_mul_pow h

/-- a floor by a divisor of the number is exact -/
theorem floor_exact {t q d : ℕ} (hd : 0 < d) (h1 : t * d ≤ q) (h2 : q < (t + 1) * d) (hdvd : d ∣ q) : t * d = q := by
  obtain ⟨c, hc⟩ := hdvd
  rw [hc, mul_comm d c] at h1 h2 ⊢
  have a : t ≤ c := Nat.le_of_mul_le_mul_right h1 hd
  have b : c < t + 1 := Nat.lt_of_mul_lt_mul_right h2
  have : t = c := by omega
  rw [this]

/-- keeping the top prec+1 limbs of a number that fits in 64(prec-1) bits drops only zero limbs -/
theorem keepTop_exact (prec : ℕ) (hp : 1 ≤ prec) {v : ℕ} (hv : v ≠ 0) (h : FitsN v (64 * (prec - 1))) :
    (keepTop (prec + 1) v).1 * B ^ (keepTop (prec + 1) v).2 = v := by
  obtain ⟨a, b, c, d, e, f⟩ := keepTop_spec (prec + 1) (by omega) hv
  obtain ⟨la, _⟩ := limbLen_spec hv
  have hdvd := fitsN_dvd h la hp
  set t := (keepTop (prec + 1) v).1
  set dd := (keepTop (prec + 1) v).2
  have hdd : dd ≤ limbLen v - prec := by rw [c] at e; omega
  obtain ⟨q, hq⟩ : B ^ dd ∣ v := Dvd.dvd.trans (Nat.pow_dvd_pow B hdd) hdvd
  have hB := Bpow_pos dd
  rw [hq] at a b ⊢
  have h1 : t ≤ q := by
    by_contra hc
    have : (q + 1) * B ^ dd ≤ t * B ^ dd := Nat.mul_le_mul_right _ (by omega)
    nlinarith
  have h2 : q < t + 1 := by
    by_contra hc
    have : (t + 1) * B ^ dd ≤ q * B ^ dd := Nat.mul_le_mul_right _ (by omega)
    nlinarith
  have : t = q := by omega
  rw [this]; ring

/-- if base^e fits in 64(prec-1) bits, every state of the squaring loop is an exact power -/
theorem powLoop_exact (b prec e : ℕ) (hp : 1 ≤ prec) (hb : 1 ≤ b) (hfit : FitsN (b ^ e) (64 * (prec - 1))) :
    ∀ k : ℕ, 1 ≤ k → k ≤ e →
      (powLoop b (prec + 1) k).1 * B ^ (powLoop b (prec + 1) k).2 = b ^ k := by
  intro k
  induction k using Nat.strong_induction_on with
  | _ k ih =>
    intro hk1 hke
    by_cases h1 : k = 1
    · subst h1; rw [powLoop_one]; simp
    · have hk2 : 2 ≤ k := by omega
      have ih' := ih (k / 2) (by omega) (by omega) (by omega)
      rw [powLoop_step b (prec + 1) k hk2]
      set st := powLoop b (prec + 1) (k / 2)
      have hbk : b ^ (k / 2) ≠ 0 := pow_ne_zero _ (by omega)
      have hst1 : st.1 ≠ 0 := by
        intro h0; rw [h0] at ih'; simp at ih'; exact hbk ih'.symm
      have hsq : st.1 * st.1 ≠ 0 := Nat.mul_ne_zero hst1 hst1
      have hval : st.1 * st.1 * B ^ (2 * st.2) = b ^ (2 * (k / 2)) := by
        rw [two_mul, pow_add, two_mul, pow_add, ← ih']; ring
      -- the square fits
      have hfit2 : FitsN (b ^ (2 * (k / 2))) (64 * (prec - 1)) := by
        have hsplit : b ^ e = b ^ (2 * (k / 2)) * b ^ (e - 2 * (k / 2)) := by
          rw [← pow_add]; congr 1; omega
        rw [hsplit] at hfit
        exact fitsN_of_mul hfit (by rw [← hsplit]; exact pow_ne_zero _ (by omega))
      have hfsq : FitsN (st.1 * st.1) (64 * (prec - 1)) := by
        rw [← hval] at hfit2; exact fitsN_of_mul_Bpow hfit2
      have hk := keepTop_exact prec hp hsq hfsq
      unfold powStep
      set kt := keepTop (prec + 1) (st.1 * st.1)
      by_cases hbit : k % 2 = 1
      · have : (k % 2 == 1) = true := by simp [hbit]
        simp only [this, if_true]
        have e1 : kt.1 * b * B ^ (2 * st.2 + kt.2) = (kt.1 * B ^ kt.2) * B ^ (2 * st.2) * b := by
          rw [pow_add]; ring
        rw [e1, hk, hval, ← pow_succ]; congr 1; omega
      · have : (k % 2 == 1) = false := by simp [hbit]
        simp only [this, Bool.false_eq_true, if_false]
        have e1 : kt.1 * B ^ (2 * st.2 + kt.2) = (kt.1 * B ^ kt.2) * B ^ (2 * st.2) := by
          rw [pow_add]; ring
        rw [e1, hk, hval]; congr 1; omega

/-- mpn_pow_1_highpart is exact when base^e fits in 64(prec-1) bits -/
theorem powHigh_exact_of_fits (b prec e : ℕ) (hp : 1 ≤ prec) (hb : 1 ≤ b) (he : 1 ≤ e)
    (hfit : FitsN (b ^ e) (64 * (prec - 1))) :
    (powHigh b e (prec + 1)).1 * B ^ (powHigh b e (prec + 1)).2 = b ^ e := by
  have hl := powLoop_exact b prec e hp hb hfit e he (le_refl _)
  unfold powHigh
  set st := powLoop b (prec + 1) e
  have hbe : b ^ e ≠ 0 := pow_ne_zero _ (by omega)
  have hst1 : st.1 ≠ 0 := by
    intro h0; rw [h0] at hl; simp at hl; exact hbe hl.symm
  have hf : FitsN st.1 (64 * (prec - 1)) := by
    rw [← hl] at hfit; exact fitsN_of_mul_Bpow hfit
  have hk := keepTop_exact prec hp hst1 hf
  have e1 : (keepTop (prec + 1) st.1).1 * B ^ (st.2 + (keepTop (prec + 1) st.1).2) =
      ((keepTop (prec + 1) st.1).1 * B ^ (keepTop (prec + 1) st.1).2) * B ^ st.2 := by rw [pow_add]; ring
  rw [e1, hk, hl]

end Mpir.MpfStr
