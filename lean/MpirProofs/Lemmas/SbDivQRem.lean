/-
  Lemmas for C02 part c02_dcappr: what mpn_sb_divappr_q LEAVES BEHIND.  The three limbs np[dn-2 .. dn] after the call are
  the truncated remainder  ⌊W/B^(m-1)⌋ - tS D Q m  of the window by the quotient returned (tS = the truncated product of
  MpirProofs/Lemmas/DcDivapprArith.lean), whichever exit is taken (ordinary last limb, __divappr_helper from the
  truncating loop or from the last limb).  This is the leaf specification the contract of mpn_dc_divappr_q needs.
-/
import MpirProofs.Lemmas.SbDivQTop
import MpirProofs.Lemmas.DcDivapprArith
namespace Mpir.SbDivQ
open Mpir Mpir.DivWord Mpir.SbDiv Mpir.DcDivappr

/-- limb i of a limb vector's value -/
theorem val_div_mod : ∀ (i : Nat) (l : List Nat), Limbs l → val l / B ^ i % B = l.getD i 0
  | 0, [], _ => by simp
  | 0, x :: xs, h => by
    have ⟨hx, _⟩ := Limbs_cons.mp h
    simp only [pow_zero, Nat.div_one, val_cons, List.getD_cons_zero]
    rw [Nat.add_mul_mod_self_left, Nat.mod_eq_of_lt hx]
  | i + 1, [], _ => by simp
  | i + 1, x :: xs, h => by
    have ⟨hx, hxs⟩ := Limbs_cons.mp h
    have hB := B_pos
    rw [← div_pow_succ, val_cons, List.getD_cons_succ]
    have : (x + B * val xs) / B = val xs := by
      rw [Nat.mul_comm B, Nat.add_mul_div_right _ _ hB, Nat.div_eq_of_lt hx, Nat.zero_add]
    rw [this]; exact val_div_mod i xs hxs

/-- the sum of the K low limbs -/
theorem sumd_succ_list (l : List Nat) (hl : Limbs l) (K : Nat) : sumd (val l) (K + 1) = sumd (val l) K + l.getD K 0 := by
  show sumd (val l) K + val l / B ^ K % B = _
  rw [val_div_mod K l hl]

theorem subNC_cons (u v cy : Nat) (us vs : List Nat) :
    (subNC (u :: us) (v :: vs) cy).1 =
      ((u + B - v) % B + B - cy) % B ::
        (subNC us vs (boolToNat ((u + B - v) % B > u) ||| boolToNat (((u + B - v) % B + B - cy) % B > (u + B - v) % B))).1 := by
  rw [subNC]

/-- the low two limbs of mpn_sub_n depend on the low two limbs of the operands only -/
theorem subNC_low2 (u1 u2 v1 v2 : Nat) (us vs : List Nat) :
    (sub_n (u1 :: u2 :: us) (v1 :: v2 :: vs)).1.getD 0 0 = (u1 + B - v1) % B ∧
    (sub_n (u1 :: u2 :: us) (v1 :: v2 :: vs)).1.getD 1 0
      = ((u2 + B - v2) % B + B - (boolToNat ((u1 + B - v1) % B > u1))) % B := by
  unfold sub_n
  rw [subNC_cons, subNC_cons]
  have e : ((u1 + B - v1) % B + B - 0) % B = (u1 + B - v1) % B := by
    rw [Nat.sub_zero, Nat.add_mod_right, Nat.mod_mod]
  have e2 : boolToNat (((u1 + B - v1) % B + B - 0) % B > (u1 + B - v1) % B) = 0 := by
    rw [e]; simp [boolToNat]
  rw [e2]
  refine ⟨by rw [List.getD_cons_zero, e], ?_⟩
  rw [List.getD_cons_succ, List.getD_cons_zero, Nat.or_zero]

/-- `for (…) mpn_add_1 (np, np, 3, x)` over a list of limbs: the sum modulo B³ -/
theorem fold_add1 : ∀ (xs np3 : List Nat), Limbs xs → Limbs np3 → np3.length = 3 →
    Limbs (xs.foldl (fun m x => (add_1 m x).1) np3) ∧ (xs.foldl (fun m x => (add_1 m x).1) np3).length = 3 ∧
    val (xs.foldl (fun m x => (add_1 m x).1) np3) = (val np3 + xs.sum) % B ^ 3
  | [], np3, _, h3, hl => by
    have := val_lt np3 h3
    rw [hl] at this
    simp [h3, hl, Nat.mod_eq_of_lt this]
  | x :: xs, np3, hxs, h3, hl => by
    have ⟨hx, hxs'⟩ := Limbs_cons.mp hxs
    match np3, hl with
    | [a, b, c], _ =>
      obtain ⟨av, ac, al, an⟩ := add_1_val' a [b, c] x h3 hx
      obtain ⟨i1, i2, i3⟩ := fold_add1 xs (add_1 [a, b, c] x).1 hxs' al (by simpa using an)
      refine ⟨i1, i2, ?_⟩
      simp only [List.foldl_cons, List.sum_cons] at i3 ⊢
      rw [i3]
      simp only [List.length_cons, List.length_nil] at av
      have hv := val_lt _ al
      rw [an] at hv
      simp only [List.length_cons, List.length_nil] at hv
      generalize val (add_1 [a, b, c] x).1 = v at *
      generalize (add_1 [a, b, c] x).2 = cc at *
      have e : val [a, b, c] + (x + xs.sum) = (v + xs.sum) + B ^ 3 * cc := by
        have : (0 : Nat) + 1 + 1 + 1 = 3 := rfl
        rw [this] at av; omega
      rw [e, Nat.add_mul_mod_self_left]

theorem sum_take_sumd (l : List Nat) (hl : Limbs l) : ∀ K, (l.take K).sum = sumd (val l) K
  | 0 => by simp [sumd]
  | K + 1 => by
    rw [sumd_succ_list l hl, ← sum_take_sumd l hl K, List.take_add_one, List.sum_append]
    congr 1
    rw [List.getD_eq_getElem?_getD]
    rcases l[K]? with _ | x <;> simp

/-- the two-limb arithmetic of __divappr_helper :37-38 -/
theorem helper_np3 (a1 a2 b0 b1 dK : Nat) (ha1 : a1 < B) (ha2 : a2 < B) (hb0 : b0 < B) (hb1 : b1 < B) (_hdK : dK < B) :
    ((a1 + B - b0) % B + dK) % B
      + B * ((((a2 + B - b1) % B + B - boolToNat ((a1 + B - b0) % B > a1)) % B + 0 + ((a1 + B - b0) % B + dK) / B) % B)
      = (a1 + B * a2 + B * B - (b0 + B * b1) + dK) % (B * B) := by
  unfold boolToNat
  simp only [B_eq, decide_eq_true_eq] at *
  split <;> omega


/-- __divappr_helper (qp, np, dp, K) on np[0..2]: np = a0, a1, a2, …; dp = b0, b1, … (K+1 limbs) -/
theorem helper_val (a0 a1 a2 b0 b1 : Nat) (ar br : List Nat) (K : Nat)
    (hm : Limbs (a0 :: a1 :: a2 :: ar)) (hd : Limbs (b0 :: b1 :: br)) (hK : br.length + 1 = K) :
    (divapprHelper (a0 :: a1 :: a2 :: ar) (b0 :: b1 :: br) K).length = 3 ∧
    Limbs (divapprHelper (a0 :: a1 :: a2 :: ar) (b0 :: b1 :: br) K) ∧
    val (divapprHelper (a0 :: a1 :: a2 :: ar) (b0 :: b1 :: br) K)
      = (a0 + B * ((a1 + B * a2 + B * B - (b0 + B * b1) + (b0 :: b1 :: br).getD K 0) % (B * B))
          + sumd (val (b0 :: b1 :: br)) K) % B ^ 3 := by
  have hB := B_pos
  obtain ⟨ha0, hm1⟩ := Limbs_cons.mp hm
  obtain ⟨ha1, hm2⟩ := Limbs_cons.mp hm1
  obtain ⟨ha2, _⟩ := Limbs_cons.mp hm2
  obtain ⟨hb0, hd1⟩ := Limbs_cons.mp hd
  obtain ⟨hb1, _⟩ := Limbs_cons.mp hd1
  have hdK := limb_getD hd K
  subst hK
  unfold divapprHelper
  have e1 : ((a0 :: a1 :: a2 :: ar).drop 1).take (br.length + 1 + 1) = a1 :: a2 :: ar.take br.length := by simp
  have e2 : (b0 :: b1 :: br).take (br.length + 1 + 1) = b0 :: b1 :: br := by simp
  simp only [e1, e2, List.getD_cons_zero]
  obtain ⟨s0, s1⟩ := subNC_low2 a1 a2 b0 b1 (ar.take br.length) br
  rw [s0, s1]
  unfold add_ssaaaa
  simp only []
  have hx : ((a1 + B - b0) % B + (b0 :: b1 :: br).getD (br.length + 1) 0) % B < B := Nat.mod_lt _ hB
  have hy : (((a2 + B - b1) % B + B - boolToNat ((a1 + B - b0) % B > a1)) % B + 0
      + ((a1 + B - b0) % B + (b0 :: b1 :: br).getD (br.length + 1) 0) / B) % B < B := Nat.mod_lt _ hB
  have hnp : Limbs [a0, ((a1 + B - b0) % B + (b0 :: b1 :: br).getD (br.length + 1) 0) % B,
      (((a2 + B - b1) % B + B - boolToNat ((a1 + B - b0) % B > a1)) % B + 0
        + ((a1 + B - b0) % B + (b0 :: b1 :: br).getD (br.length + 1) 0) / B) % B] :=
    Limbs_cons.mpr ⟨ha0, Limbs_pair hx hy⟩
  obtain ⟨f1, f2, f3⟩ := fold_add1 ((b0 :: b1 :: br).take (br.length + 1)).reverse _
    (Limbs_reverse (Limbs_take hd _)) hnp rfl
  refine ⟨f2, f1, ?_⟩
  rw [f3, List.sum_reverse, sum_take_sumd _ hd]
  have h3 := helper_np3 a1 a2 b0 b1 _ ha1 ha2 hb0 hb1 hdK
  have ev : ∀ x y : Nat, val [a0, x, y] = a0 + B * (x + B * y) := by
    intro x y; simp only [val_cons, val_nil]; ring
  rw [ev, h3]
theorem B3 : B ^ 3 = B * B * B := by ring

/-- the three limbs __divappr_helper leaves are the truncated remainder of the all-ones quotient: with the window
    X = a0 + B·a1 + B²·a2 + B³·Wr, the divisor V = b0 + B·b1 + B²·Vr, dK its top limb and S the sum of its other limbs -/
theorem helper_formula (a0 a1 a2 b0 b1 dK S Wr Vr u t : Nat) (ha1 : a1 < B) (ha2 : a2 < B) (hb0 : b0 < B)
    (hb1 : b1 < B)
    (hid : a0 + B * a1 + B * B * a2 + B * B * B * Wr + B * dK + S + u * (B * B * B) = B * (b0 + B * b1 + B * B * Vr) + t)
    (ht : t < B * B * B) :
    (a0 + B * ((a1 + B * a2 + B * B - (b0 + B * b1) + dK) % (B * B)) + S) % B ^ 3 = t := by
  rw [B3]
  simp only [B_eq] at *
  omega

theorem helper_formula0 (a0 a1 a2 b0 b1 dK S Wr Vr t : Nat) (ha1 : a1 < B) (ha2 : a2 < B) (hb0 : b0 < B)
    (hb1 : b1 < B)
    (hid : a0 + B * a1 + B * B * a2 + B * B * B * Wr + B * dK + S = B * (b0 + B * b1 + B * B * Vr) + t)
    (ht : t < B * B * B) :
    (a0 + B * ((a1 + B * a2 + B * B - (b0 + B * b1) + dK) % (B * B)) + S) % B ^ 3 = t := by
  rw [B3]
  simp only [B_eq] at *
  omega

theorem list3 (l : List Nat) (h : 3 ≤ l.length) : ∃ a0 a1 a2 ar, l = a0 :: a1 :: a2 :: ar := by
  match l, h with
  | a0 :: a1 :: a2 :: ar, _ => exact ⟨a0, a1, a2, ar, rfl⟩

theorem list2 (l : List Nat) (h : 2 ≤ l.length) : ∃ b0 b1 br, l = b0 :: b1 :: br := by
  match l, h with
  | b0 :: b1 :: br, _ => exact ⟨b0, b1, br, rfl⟩

theorem val3 (x y z : Nat) : val [x, y, z] = x + B * y + B * B * z := by
  simp only [val_cons, val_nil]; ring

theorem Limbs3 {x y z : Nat} (hx : x < B) (hy : y < B) (hz : z < B) : Limbs [x, y, z] :=
  Limbs_cons.mpr ⟨hx, Limbs_pair hy hz⟩

/-- the last quotient limb (sb_divappr_q.c:199-242): the three limbs left are window - q·(d0 + B·d1), on every path -/
theorem daFinal_rem (d0 d1 dinv m0 n1 cy c : Nat) (hd0 : d0 < B) (hd1 : d1 < B) (hm0 : m0 < B) (hn1 : n1 < B)
    (hcy : cy < B) (hc : c < B) (hnorm : B / 2 ≤ d1) (hdinv : dinv = invert_pi1 d1 d0)
    (hW : m0 + B * n1 + B * B * cy < c + B * (d0 + B * d1)) :
    (daFinal d1 d0 dinv m0 n1 cy).2.length = 3 ∧ Limbs (daFinal d1 d0 dinv m0 n1 cy).2 ∧
    m0 + B * n1 + B * B * cy
      = (daFinal d1 d0 dinv m0 n1 cy).1 * (d0 + B * d1) + val (daFinal d1 d0 dinv m0 n1 cy).2 := by
  have hB := B_pos
  have hreg : cy * B + n1 < d1 * B + d0 →
      ([(udiv_qr_3by2 cy n1 m0 d1 d0 dinv).2.2, (udiv_qr_3by2 cy n1 m0 d1 d0 dinv).2.1, 0] : List Nat).length = 3 ∧
      Limbs [(udiv_qr_3by2 cy n1 m0 d1 d0 dinv).2.2, (udiv_qr_3by2 cy n1 m0 d1 d0 dinv).2.1, 0] ∧
      m0 + B * n1 + B * B * cy = (udiv_qr_3by2 cy n1 m0 d1 d0 dinv).1 * (d0 + B * d1)
        + val [(udiv_qr_3by2 cy n1 m0 d1 d0 dinv).2.2, (udiv_qr_3by2 cy n1 m0 d1 d0 dinv).2.1, 0] := by
    intro hN
    rw [udiv_qr_3by2_eq cy n1 m0 d1 d0 dinv hcy hn1 hm0 hd1 hd0 hnorm hN
      (by rw [hdinv]; exact invert_pi1_eq d1 d0 hnorm hd1 hd0)]
    simp only []
    have hddpos : 0 < d1 * B + d0 := by omega
    have hdm := Nat.div_add_mod (cy * B * B + n1 * B + m0) (d1 * B + d0)
    have hrem := Nat.mod_lt (cy * B * B + n1 * B + m0) hddpos
    have hddlt : d1 * B + d0 < B * B := by nlinarith
    generalize (cy * B * B + n1 * B + m0) / (d1 * B + d0) = q at *
    generalize (cy * B * B + n1 * B + m0) % (d1 * B + d0) = rem at *
    have h1 : rem / B < B := by rw [Nat.div_lt_iff_lt_mul hB]; omega
    have h2 := Nat.div_add_mod rem B
    refine ⟨rfl, Limbs3 (Nat.mod_lt _ hB) h1 hB, ?_⟩
    rw [val3]
    nlinarith
  unfold daFinal
  by_cases h1 : cy ≥ d1
  · rw [if_pos h1]
    by_cases h2 : cy > d1 ∨ (cy = d1 ∧ n1 ≥ d0)
    · rw [if_pos h2]
      simp only []
      have hge : B * (d0 + B * d1) ≤ m0 + B * n1 + B * B * cy := by
        rcases h2 with h | ⟨rfl, h⟩
        · have : B * B * (d1 + 1) ≤ B * B * cy := Nat.mul_le_mul_left _ h
          have : B * (d0 + 1) ≤ B * B := Nat.mul_le_mul_left _ hd0
          nlinarith
        · have : B * d0 ≤ B * n1 := Nat.mul_le_mul_left _ h
          nlinarith
      obtain ⟨l1, l2, l3⟩ := helper_val m0 n1 cy d0 d1 [] [] 1 (Limbs3 hm0 hn1 hcy) (Limbs_pair hd0 hd1) rfl
      refine ⟨l1, l2, ?_⟩
      rw [l3]
      have eS : sumd (val [d0, d1]) 1 = d0 := by
        rw [sumd_succ_list _ (Limbs_pair hd0 hd1)]; simp [sumd]
      have eK : ([d0, d1] : List Nat).getD 1 0 = d1 := rfl
      rw [eS, eK]
      obtain ⟨t, ht⟩ : ∃ t, m0 + B * n1 + B * B * cy + d0 + B * d1 = B * (d0 + B * d1) + t :=
        ⟨m0 + B * n1 + B * B * cy + d0 + B * d1 - B * (d0 + B * d1), by omega⟩
      have hf := helper_formula m0 n1 cy d0 d1 d1 d0 0 0 0 t hn1 hcy hd0 hd1 (by linarith) (by
        have : B * d1 + d0 < B * B := by nlinarith
        nlinarith)
      rw [hf]
      obtain ⟨b, hb⟩ : ∃ b, B = b + 1 := ⟨B - 1, by omega⟩
      have : B - 1 = b := by omega
      rw [this]
      have : B * (d0 + B * d1) = b * (d0 + B * d1) + (d0 + B * d1) := by rw [hb]; ring
      omega
    · rw [if_neg h2]
      have hlt : ¬ n1 ≥ d0 := by omega
      rw [if_neg hlt]
      exact hreg (by simp only [B_eq] at *; omega)
  · rw [if_neg h1]
    exact hreg (by
      have : (cy + 1) * B ≤ d1 * B := Nat.mul_le_mul_right _ (by omega)
      nlinarith)

theorem tS_top (V q Ql k : Nat) (hQl : Ql < B ^ k) : tS V (Ql + B ^ k * q) (k + 1) = q * V + tS (V / B) Ql k := by
  show ((Ql + B ^ k * q) / B ^ k) * V + tS (V / B) ((Ql + B ^ k * q) % B ^ k) k = _
  have e : Ql + B ^ k * q = q * B ^ k + Ql := by ring
  rw [e, div_of_split _ _ _ hQl, mod_of_split _ _ _ hQl]

/-- invariant of the truncating loop and the last limb, REMAINDER part: the three limbs left in np[0..2] are the
    window minus the truncated product of the quotient limbs produced -/
theorem daLoop2_rem (d0 d1 dinv : Nat) (hd0 : d0 < B) (hd1 : d1 < B) (hnorm : B / 2 ≤ d1)
    (hdinv : dinv = invert_pi1 d1 d0) :
    ∀ (k : Nat) (dlo m : List Nat) (cy n1 c : Nat) (qs : List Nat), dlo.length = k → m.length = k + 1 →
      Limbs dlo → Limbs m → n1 < B → cy < B → c < B → k + 4 ≤ B →
      val m + B ^ (k + 1) * (n1 + B * cy) < c + B * (val dlo + B ^ k * (d0 + B * d1)) →
      ∃ ql r3, daLoop2 d1 d0 dinv k (dlo ++ [d0, d1]) m cy n1 qs = (ql ++ qs, r3) ∧
        ql.length = k + 1 ∧ Limbs ql ∧ r3.length = 3 ∧ Limbs r3 ∧
        val m + B ^ (k + 1) * (n1 + B * cy)
          = tS (val dlo + B ^ k * (d0 + B * d1)) (val ql) (k + 1) + val r3
  | 0, dlo, m, cy, n1, c, qs, hdl, hml, _, hm, hn1, hcy, hc, _, hW => by
    have hB := B_pos
    match dlo, hdl, m, hml, hm with
    | [], _, [m0], _, hm =>
      have hm0 : m0 < B := (Limbs_cons.mp hm).1
      simp only [val_nil, val_cons, pow_zero, Nat.zero_add, pow_one, Nat.mul_zero, Nat.add_zero,
        Nat.one_mul, List.nil_append] at hW ⊢
      obtain ⟨k0, _, _⟩ := daFinal_spec d0 d1 dinv m0 n1 cy c hd0 hd1 hm0 hn1 hcy hc hnorm hdinv (by linarith)
      obtain ⟨r1, r2, r3⟩ := daFinal_rem d0 d1 dinv m0 n1 cy c hd0 hd1 hm0 hn1 hcy hc hnorm hdinv (by linarith)
      rw [daLoop2_zero]
      refine ⟨[(daFinal d1 d0 dinv m0 n1 cy).1], _, rfl, rfl, ?_, r1, r2, ?_⟩
      · intro x hx; simp at hx; subst hx; exact k0
      · simp only [val_cons, val_nil, Nat.mul_zero, Nat.add_zero, List.getD_cons_zero]
        show _ = ((daFinal d1 d0 dinv m0 n1 cy).1 / B ^ 0) * (d0 + B * d1) + 0 + _
        rw [pow_zero, Nat.div_one]
        linarith
  | k + 1, dlo, m, cy, n1, c, qs, hdl, hml, hdlo, hm, hn1, hcy, hc, hk, hW => by
    have hB := B_pos
    have hPpos : 0 < B ^ (k + 1 + 1) := by positivity
    have hsat := daSat_iff dlo m d0 d1 n1 cy (by omega) hdlo hm hd0 hd1 hn1
    rw [hdl] at hsat
    rw [daLoop2_succ]
    by_cases hs : cy ≥ d1 ∧ (cy > d1 ∨ (cy = d1 ∧
        cmp ((m ++ [n1]).drop 1) ((dlo ++ [d0, d1]).take (k + 1 + 1)) ≥ 0))
    · rw [if_pos hs]
      have hge := hsat.mp hs
      have hv := val_replicate_max (k + 1 + 1)
      have hdp : Limbs (dlo ++ [d0, d1]) := Limbs_append.mpr ⟨hdlo, Limbs_pair hd0 hd1⟩
      have hmem : Limbs (m ++ [n1]) := Limbs_snoc hm hn1
      obtain ⟨a0, a1, a2, ar, emem⟩ := list3 (m ++ [n1]) (by simp [hml])
      obtain ⟨b0, b1, br, edp⟩ := list2 (dlo ++ [d0, d1]) (by simp)
      have hbr : br.length + 1 = k + 1 + 1 := by
        have := congrArg List.length edp
        simp [hdl] at this; omega
      have eK : (dlo ++ [d0, d1]).getD (k + 1 + 1) 0 = d1 := by rw [← hdl]; exact getD_top1 dlo d0 d1
      have eK0 : (dlo ++ [d0, d1]).getD (k + 1) 0 = d0 := by rw [← hdl]; exact getD_top0 dlo d0 d1
      have eV : val (dlo ++ [d0, d1]) = val dlo + B ^ (k + 1) * (d0 + B * d1) := by rw [val_top2, hdl]
      have eS := sumd_succ_list (dlo ++ [d0, d1]) hdp (k + 1)
      rw [eK0] at eS
      have eM : val (m ++ [n1]) = val m + B ^ (k + 1 + 1) * n1 := by rw [val_top1, hml]
      rw [emem] at hmem eM
      rw [edp] at hdp eK eV eS
      obtain ⟨ha0, hm1⟩ := Limbs_cons.mp hmem
      obtain ⟨ha1, hm2⟩ := Limbs_cons.mp hm1
      obtain ⟨ha2, _⟩ := Limbs_cons.mp hm2
      obtain ⟨hb0, hd1'⟩ := Limbs_cons.mp hdp
      obtain ⟨hb1, _⟩ := Limbs_cons.mp hd1'
      obtain ⟨l1, l2, l3⟩ := helper_val a0 a1 a2 b0 b1 ar br (k + 1 + 1) hmem hdp hbr
      rw [emem, edp]
      refine ⟨List.replicate (k + 1 + 1) (B - 1), _, rfl, by simp, Limbs_replicate_max _, l1, l2, ?_⟩
      have e : val (List.replicate (k + 1 + 1) (B - 1)) = B ^ (k + 1 + 1) - 1 := by omega
      rw [e, l3, eK]
      have hsat' := tS_sat (k + 1) (val (b0 :: b1 :: br))
      have hVdiv : val (b0 :: b1 :: br) / B ^ (k + 1) = d0 + B * d1 := by
        have hlt' := val_lt dlo hdlo
        rw [hdl] at hlt'
        have e' : val dlo + B ^ (k + 1) * (d0 + B * d1) = (d0 + B * d1) * B ^ (k + 1) + val dlo := by ring
        rw [eV, e', div_of_split _ _ _ hlt']
      rw [hVdiv] at hsat'
      have hSle := sumd_le (k + 1) (val (b0 :: b1 :: br))
      rw [← eV]
      rw [← eV] at hge hW
      have eV3 : val (b0 :: b1 :: br) = b0 + B * b1 + B * B * val br := by
        simp only [val_cons]; ring
      have eW : val m + B ^ (k + 1 + 1) * (n1 + B * cy)
          = a0 + B * a1 + B * B * a2 + B * B * B * (val ar + B ^ k * cy) := by
        have : val (a0 :: a1 :: a2 :: ar) = a0 + B * a1 + B * B * a2 + B * B * B * val ar := by
          simp only [val_cons]; ring
        have e2 : B ^ (k + 1 + 1) * (n1 + B * cy) = B ^ (k + 1 + 1) * n1 + B * B * B * (B ^ k * cy) := by
          rw [pow_succ, pow_succ]; ring
        rw [e2]; linarith
      obtain ⟨W, hWd⟩ : ∃ W, W = val m + B ^ (k + 1 + 1) * (n1 + B * cy) := ⟨_, rfl⟩
      obtain ⟨V, hVd⟩ : ∃ V, V = val (b0 :: b1 :: br) := ⟨_, rfl⟩
      rw [← hWd] at hge hW eW ⊢
      rw [← hVd] at hge hW eV3 hsat' hSle eS ⊢
      have hbig : B * B * 2 ≤ B * B * B := by
        have : 2 ≤ B := by rw [B_eq]; omega
        exact Nat.mul_le_mul_left _ this
      clear l3 l1 l2 hsat hs hv e emem edp eM hmem hdp hm1 hm2 hd1' hWd hVd
      have hd1B : B * d1 + B ≤ B * B := by
        rw [← Nat.mul_succ]; exact Nat.mul_le_mul_left _ hd1
      have hkB : (k + 1) * B + 4 * B ≤ B * B := by
        calc (k + 1) * B + 4 * B = (k + 1 + 4) * B := by ring
          _ ≤ B * B := Nat.mul_le_mul_right _ hk
      obtain ⟨t, ht⟩ : ∃ t, W + B * d1 + sumd V (k + 1 + 1) = B * V + t :=
        ⟨W + B * d1 + sumd V (k + 1 + 1) - B * V, by omega⟩
      have hid : a0 + B * a1 + B * B * a2 + B * B * B * (val ar + B ^ k * cy) + B * d1 + sumd V (k + 1 + 1)
          = B * (b0 + B * b1 + B * B * val br) + t := by rw [← eV3, ← eW]; exact ht
      have htlt : t < B * B * B := by omega
      have hf := helper_formula0 a0 a1 a2 b0 b1 d1 (sumd V (k + 1 + 1)) (val ar + B ^ k * cy) (val br) t
        ha1 ha2 hb0 hb1 hid htlt
      rw [hf]
      omega
    · rw [if_neg hs]
      have hlt : val m + B ^ (k + 1 + 1) * (n1 + B * cy) < B * (val dlo + B ^ (k + 1) * (d0 + B * d1)) := by
        by_contra hge
        exact hs (hsat.mpr (by omega))
      have hstep := daStep2_spec dlo m d0 d1 dinv n1 cy (by omega) hdlo hm hd0 hd1 hn1 hcy hnorm hdinv
        (by rw [hdl]; exact hlt)
      rw [hdl] at hstep
      obtain ⟨q, w, cy', n1', es, e1, e2, hq, hw, hwl, hn1', hcy'⟩ := hstep
      rw [es]
      simp only []
      match dlo, hdl, hdlo with
      | c' :: dlo', hdl', hdlo' =>
        have ⟨hc', hdlo''⟩ := Limbs_cons.mp hdlo'
        have hdl'' : dlo'.length = k := by simpa using hdl'
        have edrop : ((c' :: dlo') ++ [d0, d1]).drop 1 = dlo' ++ [d0, d1] := rfl
        rw [edrop]
        have eV : val (c' :: dlo') + B ^ (k + 1) * (d0 + B * d1)
            = c' + B * (val dlo' + B ^ k * (d0 + B * d1)) := by rw [val_cons, pow_succ]; ring
        rw [eV] at e1 e2 hW hlt ⊢
        obtain ⟨ql', r3, el, hqll, hql, hr3l, hr3, i1⟩ :=
          daLoop2_rem d0 d1 dinv hd0 hd1 hnorm hdinv k dlo' w cy' n1' c' (q :: qs) hdl'' hwl hdlo'' hw hn1' hcy' hc'
            (by omega) e2
        rw [el]
        have hQ' := val_lt ql' hql
        rw [hqll] at hQ'
        refine ⟨ql' ++ [q], r3, by simp, by simp [hqll], Limbs_snoc hql hq, hr3l, hr3, ?_⟩
        rw [val_top1, hqll, tS_top _ _ _ _ hQ']
        have eVd : (c' + B * (val dlo' + B ^ k * (d0 + B * d1))) / B = val dlo' + B ^ k * (d0 + B * d1) := by
          have e' : c' + B * (val dlo' + B ^ k * (d0 + B * d1)) = (val dlo' + B ^ k * (d0 + B * d1)) * B + c' := by ring
          rw [e', div_of_split _ _ _ hc']
        rw [eVd, e1, i1]; ring

/-- mpn_sb_divappr_q after the cut of the divisor, no iteration of the first loop, window below B·divisor (qh = 0):
    the quotient limbs, the three limbs left and both halves of the contract relative to the limbs really used -/
theorem daCore_rem (nlow hi dlo : List Nat) (x d0 d1 dinv : Nat) (hhi : hi.length = dlo.length + 2)
    (hhil : Limbs hi) (hx : x < B) (hdlo : Limbs dlo) (hd0 : d0 < B) (hd1 : d1 < B)
    (hnorm : B / 2 ≤ d1) (hdinv : dinv = invert_pi1 d1 d0) (hk : dlo.length + 4 ≤ B)
    (hlt : val hi < val dlo + B ^ dlo.length * (d0 + B * d1)) :
    ∃ q r3, daCore (nlow ++ x :: hi) (dlo ++ [d0, d1]) (dlo.length + 1) dinv = (q, r3, 0) ∧
      q.length = dlo.length + 1 ∧ Limbs q ∧ r3.length = 3 ∧ Limbs r3 ∧
      x + B * val hi = tS (val dlo + B ^ dlo.length * (d0 + B * d1)) (val q) (dlo.length + 1) + val r3 ∧
      B ^ dlo.length * (x + B * val hi + 1) ≤ (val q + 1) * (val dlo + B ^ dlo.length * (d0 + B * d1)) := by
  have hB := B_pos
  have hd : Limbs (dlo ++ [d0, d1]) := Limbs_append.mpr ⟨hdlo, Limbs_pair hd0 hd1⟩
  have hdl : (dlo ++ [d0, d1]).length = dlo.length + 2 := by simp
  have eV : val (dlo ++ [d0, d1]) = val dlo + B ^ dlo.length * (d0 + B * d1) := val_top2 _ _ _
  obtain ⟨qh, hi', e1, e2, hqh, hv, hlt', hl', hll'⟩ :=
    sb_init hi (dlo ++ [d0, d1]) hhil hd (by rw [hdl]; exact hhi) (by rw [hdl]; exact norm_pow dlo d0 d1 hnorm)
  rw [eV] at hv hlt'
  have hq0 : qh = 0 := by
    rcases Nat.eq_zero_or_pos qh with h | h
    · exact h
    · have : qh = 1 := by omega
      subst this; omega
  subst hq0
  have ehi : hi' = hi := by rw [← e2]; simp
  subst ehi
  have hcore := daCore_eq nlow [] hi' dlo x d0 d1 dinv hhi
  simp only [List.nil_append, List.length_nil, Nat.zero_add, List.reverse_nil, daLoop1] at hcore
  rw [hcore]
  simp only [e1, ne_eq, not_true_eq_false, if_false]
  have hsp := split_top2_val hi' dlo.length hhi
  have hW : val (x :: hi'.take dlo.length) + B ^ (dlo.length + 1) * (hi'.getD dlo.length 0 + B * hi'.getD (dlo.length + 1) 0)
      = x + B * val hi' := by
    rw [val_cons, pow_succ, ← hsp]; ring
  have hWlt : val (x :: hi'.take dlo.length) + B ^ (dlo.length + 1) * (hi'.getD dlo.length 0 + B * hi'.getD (dlo.length + 1) 0)
      < 0 + B * (val dlo + B ^ dlo.length * (d0 + B * d1)) := by
    rw [hW, Nat.zero_add]
    have : B * (val hi' + 1) ≤ B * (val dlo + B ^ dlo.length * (d0 + B * d1)) := Nat.mul_le_mul_left _ hlt
    linarith
  have hml : (x :: hi'.take dlo.length).length = dlo.length + 1 := by simp [hhi]
  have hmL : Limbs (x :: hi'.take dlo.length) := Limbs_cons.mpr ⟨hx, Limbs_take hhil _⟩
  obtain ⟨ql, r3, el, hqll, hql, hr3l, hr3, i1⟩ :=
    daLoop2_rem d0 d1 dinv hd0 hd1 hnorm hdinv dlo.length dlo (x :: hi'.take dlo.length) (hi'.getD (dlo.length + 1) 0)
      (hi'.getD dlo.length 0) 0 [] rfl hml hdlo hmL (limb_getD hhil _) (limb_getD hhil _) hB hk hWlt
  obtain ⟨ql', r3', el', _, _, j1, _⟩ :=
    daLoop2_spec d0 d1 dinv hd0 hd1 hnorm hdinv dlo.length dlo (x :: hi'.take dlo.length) (hi'.getD (dlo.length + 1) 0)
      (hi'.getD dlo.length 0) 0 [] rfl hml hdlo hmL (limb_getD hhil _) (limb_getD hhil _) hB hWlt
  rw [el] at el'
  have eql : ql = ql' := by
    have := congrArg Prod.fst el'
    simpa using this
  subst eql
  rw [el]
  refine ⟨ql, r3, by simp, hqll, hql, hr3l, hr3, ?_, ?_⟩
  · rw [← hW]; exact i1
  · rw [hW, Nat.zero_add] at j1
    apply Nat.le_of_mul_le_mul_left _ hB
    calc B * (B ^ dlo.length * (x + B * val hi' + 1)) = B ^ (dlo.length + 1) * (x + B * val hi' + 1) := by
          rw [pow_succ]; ring
      _ ≤ (val ql + 1) * (B * (val dlo + B ^ dlo.length * (d0 + B * d1))) := j1
      _ = B * ((val ql + 1) * (val dlo + B ^ dlo.length * (d0 + B * d1))) := by ring

theorem toLimbs_spec' : ∀ (k v : Nat), val (toLimbs k v) = v % B ^ k ∧ (toLimbs k v).length = k ∧ Limbs (toLimbs k v)
  | 0, v => by simp [toLimbs, Nat.mod_one, Limbs_nil]
  | k + 1, v => by
    obtain ⟨ih1, ih2, ih3⟩ := toLimbs_spec' k (v / B)
    have hB := B_pos
    refine ⟨?_, by simp [toLimbs, ih2], ?_⟩
    · simp only [toLimbs, val_cons, ih1]
      rw [Nat.pow_succ, Nat.mul_comm (B ^ k) B, Nat.mod_mul]
    · simp only [toLimbs]
      exact Limbs_cons.mpr ⟨Nat.mod_lt _ hB, ih3⟩

theorem val_drop (l : List Nat) (hl : Limbs l) (j : Nat) (hj : j ≤ l.length) : val (l.drop j) = val l / B ^ j := by
  have h := val_take_drop l j hj
  have hlt := val_lt (l.take j) (Limbs_take hl _)
  rw [List.length_take, Nat.min_eq_left hj] at hlt
  rw [h]
  have e : val (l.take j) + B ^ j * val (l.drop j) = val (l.drop j) * B ^ j + val (l.take j) := by ring
  rw [e, div_of_split _ _ _ hlt]

theorem div_succ_split (N j : Nat) : N / B ^ j = N / B ^ j % B + B * (N / B ^ (j + 1)) := by
  rw [← div_pow_succ' N j]
  have := Nat.div_add_mod (N / B ^ j) B
  omega

theorem floor_side (Wc P Q Dc : Nat) (hP : 0 < P) (h : P * (Wc / P + 1) ≤ (Q + 1) * Dc) : Wc < (Q + 1) * Dc := by
  have h1 := Nat.div_add_mod Wc P
  have h2 := Nat.mod_lt Wc hP
  nlinarith

/-- LEAF SPECIFICATION.  mpn_sb_divappr_q (qp, np, dn + m, dp, dn, dinv) with m + 1 < dn (the divisor is cut to its m + 1 top
    limbs, s = dn - (m + 1) limbs of divisor and dividend are ignored) on a window whose top m + 1 limbs are below the
    cut divisor: the m quotient limbs Q and the three limbs r3 it leaves satisfy, with Wc = ⌊N/B^s⌋ (2m + 1 limbs) and
    Dc = ⌊D/B^s⌋:  Wc < (Q + 1)·Dc  and  ⌊Wc/B^(m-1)⌋ = tS Dc Q m + r3. -/
theorem sbLeaf_spec (m dn N D : Nat) (hm : 1 ≤ m) (hcut : m + 1 < dn) (hN : N < B ^ (dn + m)) (hD : D < B ^ dn)
    (hnorm : B ^ dn ≤ 2 * D) (hsize : 2 * dn + 2 ≤ B)
    (hpre : N / B ^ (dn - (m + 1)) / B ^ m < D / B ^ (dn - (m + 1))) :
    (sbLeaf (dn + m) dn N D).ok = true ∧ (sbLeaf (dn + m) dn N D).q < B ^ m ∧ (sbLeaf (dn + m) dn N D).wl = 0 ∧
    N / B ^ (dn - (m + 1)) < ((sbLeaf (dn + m) dn N D).q + 1) * (D / B ^ (dn - (m + 1))) ∧
    N / B ^ (dn - (m + 1)) / B ^ (m - 1)
      = tS (D / B ^ (dn - (m + 1))) (sbLeaf (dn + m) dn N D).q m + (sbLeaf (dn + m) dn N D).r3 := by
  have hB := B_pos
  obtain ⟨k, rfl⟩ : ∃ k, m = k + 1 := ⟨m - 1, by omega⟩
  obtain ⟨s, hs⟩ : ∃ s, dn = s + (k + 1 + 1) := ⟨dn - (k + 1 + 1), by omega⟩
  have es : dn - (k + 1 + 1) = s := by omega
  rw [es] at hpre ⊢
  obtain ⟨nv, nl, nL⟩ := toLimbs_spec' (dn + (k + 1)) N
  obtain ⟨dv, dl, dL⟩ := toLimbs_spec' dn D
  rw [Nat.mod_eq_of_lt hN] at nv
  rw [Nat.mod_eq_of_lt hD] at dv
  -- the model call
  have ecall : sbLeaf (dn + (k + 1)) dn N D =
      { q := val (sb_divappr_q (toLimbs (dn + (k + 1)) N) (toLimbs dn D)
                (invert_pi1 ((toLimbs dn D).getD (dn - 1) 0) ((toLimbs dn D).getD (dn - 2) 0))).1,
        qh := (sb_divappr_q (toLimbs (dn + (k + 1)) N) (toLimbs dn D)
                (invert_pi1 ((toLimbs dn D).getD (dn - 1) 0) ((toLimbs dn D).getD (dn - 2) 0))).2.2,
        r3 := val (sb_divappr_q (toLimbs (dn + (k + 1)) N) (toLimbs dn D)
                (invert_pi1 ((toLimbs dn D).getD (dn - 1) 0) ((toLimbs dn D).getD (dn - 2) 0))).2.1,
        ok := decide (2 < dn) && decide (dn < dn + (k + 1)) && decide (B ^ dn / 2 ≤ D) && decide (D < B ^ dn) } := rfl
  have hok : (decide (2 < dn) && decide (dn < dn + (k + 1)) && decide (B ^ dn / 2 ≤ D) && decide (D < B ^ dn)) = true := by
    have : B ^ dn / 2 ≤ D := by omega
    simp [this, hD]; omega
  generalize hn : toLimbs (dn + (k + 1)) N = n at *
  generalize hd : toLimbs dn D = d at *
  -- the cut divisor
  have hdpl : (d.drop s).length = k + 2 := by rw [List.length_drop, dl]; omega
  have hdsplit := split_top2 (d.drop s) k hdpl
  have hdlo : Limbs ((d.drop s).take k) := Limbs_take (Limbs_drop dL _) _
  have hdlol : ((d.drop s).take k).length = k := by rw [List.length_take, hdpl]; omega
  have e_d0 : (d.drop s).getD k 0 = d.getD (dn - 2) 0 := by rw [getD_drop]; congr 1; omega
  have e_d1 : (d.drop s).getD (k + 1) 0 = d.getD (dn - 1) 0 := by rw [getD_drop]; congr 1; omega
  have hd0 := limb_getD dL (dn - 2)
  have hd1 := limb_getD dL (dn - 1)
  have hVd : val (d.drop s) = D / B ^ s := by rw [val_drop d dL s (by omega), dv]
  rw [e_d0, e_d1] at hdsplit
  -- normalisation of the top limb
  have hnormL : B / 2 ≤ d.getD (dn - 1) 0 := by
    have h1 := val_div_mod (dn - 1) d dL
    rw [dv] at h1
    have hlt : D / B ^ (dn - 1) < B := by
      rw [Nat.div_lt_iff_lt_mul (Bpow_pos _), ← pow_succ']
      have : dn - 1 + 1 = dn := by omega
      rw [this]; exact hD
    rw [Nat.mod_eq_of_lt hlt] at h1
    rw [← h1, Nat.le_div_iff_mul_le (Bpow_pos _)]
    have e : B ^ dn = B ^ (dn - 1) * B := by rw [← pow_succ]; congr 1; omega
    have e2 : B = B / 2 * 2 := by rw [B_eq]
    rw [e] at hnorm
    have : B ^ (dn - 1) * (B / 2 * 2) ≤ 2 * D := by rw [← e2]; exact hnorm
    nlinarith
  generalize d.getD (dn - 2) 0 = d0 at *
  generalize d.getD (dn - 1) 0 = d1 at *
  generalize (d.drop s).take k = dlo at *
  -- the dividend
  have hf : s + k < n.length := by omega
  have hnsplit := split_dividend n (s + k) 0 hf
  simp only [List.take_zero, List.nil_append, Nat.add_zero] at hnsplit
  have hx := limb_getD nL (s + k)
  have hhil : Limbs (n.drop (s + k + 1)) := Limbs_drop nL _
  have hhill : (n.drop (s + k + 1)).length = dlo.length + 2 := by rw [List.length_drop, nl, hdlol]; omega
  have hxv : n.getD (s + k) 0 = N / B ^ (s + k) % B := by rw [← val_div_mod _ n nL, nv]
  have hhiv : val (n.drop (s + k + 1)) = N / B ^ (s + k + 1) := by rw [val_drop n nL _ (by omega), nv]
  have hVd' : val dlo + B ^ dlo.length * (d0 + B * d1) = D / B ^ s := by
    rw [← hVd, hdsplit, val_top2]
  have hpre' : val (n.drop (s + k + 1)) < val dlo + B ^ dlo.length * (d0 + B * d1) := by
    rw [hhiv, hVd', show s + k + 1 = s + (k + 1) from rfl, ← div_pow_add]; exact hpre
  obtain ⟨q, r3, ec, hql, hqL, hr3l, hr3L, c1, c2⟩ :=
    daCore_rem (n.take (s + k)) (n.drop (s + k + 1)) dlo (n.getD (s + k) 0) d0 d1 (invert_pi1 d1 d0)
      hhill hhil hx hdlo hd0 hd1 hnormL rfl (by rw [hdlol]; omega) hpre'
  have ecore : sb_divappr_q n d (invert_pi1 d1 d0) = (q, r3, 0) := by
    unfold sb_divappr_q
    simp only []
    have e1 : n.length - d.length = dlo.length + 1 := by rw [nl, dl, hdlol]; omega
    have e2 : (if dlo.length + 1 + 1 < d.length then d.drop (d.length - (dlo.length + 1 + 1)) else d) = dlo ++ [d0, d1] := by
      rw [if_pos (by rw [dl, hdlol]; omega)]
      have : d.length - (dlo.length + 1 + 1) = s := by rw [dl, hdlol]; omega
      rw [this]; exact hdsplit
    rw [e1, e2]
    conv_lhs => rw [hnsplit]
    exact ec
  rw [ecall, ecore]
  simp only []
  have hQlt := val_lt q hqL
  rw [hql, hdlol] at hQlt
  have hW : N / B ^ s / B ^ (k + 1 - 1) = n.getD (s + k) 0 + B * val (n.drop (s + k + 1)) := by
    rw [Nat.add_sub_cancel, div_pow_add, hxv, hhiv]; exact div_succ_split N (s + k)
  rw [hVd', hdlol] at c1 c2
  refine ⟨hok, hQlt, trivial, ?_, ?_⟩
  · rw [Nat.add_sub_cancel] at hW
    rw [← hW] at c2
    exact floor_side _ _ _ _ (Bpow_pos k) c2
  · rw [hW]; exact c1

end Mpir.SbDivQ
