/- Helper lemmas for the FFT ring layer (Mpir/Model/FftRing.lean): signed limbs, residues, mpn_addmod_2expp1_1. -/
import MpirProofs.Lemmas.Kernels
import Mpir.Model.FftRing
import Mathlib.Tactic.Ring
import Mathlib.Tactic.Linarith
import Mathlib.Tactic.NormNum
import Mathlib.Tactic.LinearCombination
import Mathlib.Tactic.IntervalCases
import Mathlib.Tactic.Positivity
import Mathlib.Tactic.Zify
import Mathlib.Data.Int.ModEq
import Mathlib.Data.Nat.Bitwise
namespace Mpir.Fft
open Mpir

/-! ### signed limbs -/

theorem BZ_pos : (0 : Int) < (B : Int) := by exact_mod_cast B_pos
theorem BZpow_pos (n : Nat) : (0 : Int) < (B : Int) ^ n := pow_pos BZ_pos n
theorem Bpow_pos (n : Nat) : 0 < B ^ n := Nat.pow_pos B_pos

theorem sint_def (t : Nat) : sint t = if t < 9223372036854775808 then (t : Int) else (t : Int) - 18446744073709551616 := by
  unfold sint; simp only [B_eq]; rfl

theorem sint_range (t : Nat) (ht : t < B) : -9223372036854775808 ≤ sint t ∧ sint t < 9223372036854775808 := by
  rw [sint_def]; simp only [B_eq] at ht; split <;> omega

/-- a limb is its signed reading plus `B` times its sign bit -/
theorem sint_eq (t : Nat) : (t : Int) = sint t + (B : Int) * (if t < B / 2 then 0 else 1) := by
  unfold sint; split <;> simp

theorem sint_of_small (t : Nat) (h : t < B / 2) : sint t = t := by unfold sint; simp [h]

theorem ofInt_lt (z : Int) : ofInt z < B := by
  unfold ofInt
  have h := Int.emod_lt_of_pos z BZ_pos
  have h0 := Int.emod_nonneg z (ne_of_gt BZ_pos)
  omega

theorem sint_ofInt (z : Int) (h0 : -9223372036854775808 ≤ z) (h1 : z < 9223372036854775808) : sint (ofInt z) = z := by
  rw [sint_def]; unfold ofInt; simp only [B_eq]; push_cast
  have hm := Int.emod_emod_of_dvd z (dvd_refl (18446744073709551616 : Int))
  have e : ((z % 18446744073709551616).toNat : Int) = z % 18446744073709551616 := Int.toNat_of_nonneg (by omega)
  split <;> omega

theorem lneg_lt (c : Nat) : lneg c < B := Nat.mod_lt _ B_pos
theorem ladd_lt (a b : Nat) : ladd a b < B := Nat.mod_lt _ B_pos
theorem lsub_lt (a b : Nat) : lsub a b < B := Nat.mod_lt _ B_pos

/-- `-c` read as signed is the negation, except for the most negative limb -/
theorem sint_lneg (c : Nat) (hc : c < B) (hmin : c ≠ B / 2) : sint (lneg c) = - sint c := by
  rw [sint_def, sint_def]; unfold lneg; simp only [B_eq] at *; split <;> split <;> omega

/-! ### residues as `xs ++ [h]` -/

theorem exists_snoc (x : List Nat) (n : Nat) (h : x.length = n + 1) :
    ∃ xs t, x = xs ++ [t] ∧ xs.length = n := by
  refine ⟨x.take n, x.getD n 0, ?_, by simp [h]⟩
  have h1 : x.drop n = [x.getD n 0] := by
    rw [List.drop_eq_getElem_cons (by omega)]
    have : x.drop (n + 1) = [] := List.drop_eq_nil_of_le (by omega)
    simp [this, List.getD_eq_getElem?_getD, List.getElem?_eq_getElem (show n < x.length by omega)]
  conv_lhs => rw [← List.take_append_drop n x, h1]

@[simp] theorem lo_snoc (xs : List Nat) (t : Nat) : lo (xs ++ [t]) = xs := by simp [lo]
@[simp] theorem top_snoc (xs : List Nat) (t : Nat) : top (xs ++ [t]) = t := by
  simp [top, List.getD_eq_getElem?_getD]
@[simp] theorem setTop_snoc (xs : List Nat) (t v : Nat) : setTop (xs ++ [t]) v = xs ++ [v] := by simp [setTop]

theorem rval_snoc (xs : List Nat) (t : Nat) :
    rval (xs ++ [t]) = (val xs : Int) + (B : Int) ^ xs.length * sint t := by
  unfold rval; simp

theorem val_snoc (xs : List Nat) (t : Nat) : val (xs ++ [t]) = val xs + B ^ xs.length * t := by
  rw [val_append]; simp

theorem Limbs_snoc {xs : List Nat} {t : Nat} : Limbs (xs ++ [t]) ↔ Limbs xs ∧ t < B := by
  rw [Limbs_append]; constructor
  · rintro ⟨a, b⟩; exact ⟨a, (Limbs_cons.mp b).1⟩
  · rintro ⟨a, b⟩; exact ⟨a, Limbs_cons.mpr ⟨b, Limbs_nil⟩⟩

theorem valZ_lt (l : List Nat) (h : Limbs l) : (val l : Int) < (B : Int) ^ l.length := by
  exact_mod_cast val_lt l h

/-- the two's complement reading of the whole vector -/
theorem rval_eq_val (xs : List Nat) (t : Nat) :
    rval (xs ++ [t]) = (val (xs ++ [t]) : Int) - (B : Int) ^ (xs.length + 1) * (if t < B / 2 then 0 else 1) := by
  rw [rval_snoc, val_snoc]; push_cast; rw [sint_eq t]
  have : sint (t : Nat) = sint t := rfl
  split <;> simp [sint, *]; ring

/-- a vector whose value is congruent to `E` modulo `B^(n+1)`, with `E` inside the two's complement range,
    has residue value exactly `E` -/
theorem rval_of_eq (xs : List Nat) (t : Nat) (hx : Limbs (xs ++ [t])) (E K : Int)
    (h : (val (xs ++ [t]) : Int) = E + K * (B : Int) ^ (xs.length + 1))
    (hlo : -((B : Int) ^ (xs.length + 1)) ≤ 2 * E) (hhi : 2 * E < (B : Int) ^ (xs.length + 1)) :
    rval (xs ++ [t]) = E := by
  have ⟨hxs, ht⟩ := Limbs_snoc.mp hx
  have hv0 : (0 : Int) ≤ val xs := by positivity
  have hv1 := valZ_lt xs hxs
  have hP := BZpow_pos xs.length
  rw [rval_snoc]
  rw [val_snoc] at h; push_cast at h
  have hB : (B : Int) = 18446744073709551616 := by exact_mod_cast B_eq
  have hs := sint_range t ht
  have ht' : (t : Int) = sint t + (B : Int) * (if t < B / 2 then 0 else 1) := sint_eq t
  set P := (B : Int) ^ xs.length with hPdef
  have hpow : (B : Int) ^ (xs.length + 1) = P * B := by rw [pow_succ]
  rw [hpow] at h hlo hhi
  set s := sint t
  set v := (val xs : Int)
  -- v + P*s and E differ by a multiple of P*B and both lie in [-P*B/2, P*B/2)
  have hrange1 : -(P * B) ≤ 2 * (v + P * s) := by nlinarith
  have hrange2 : 2 * (v + P * s) < P * B := by nlinarith
  have hdiff : ∃ K' : Int, v + P * s = E + K' * (P * B) := by
    split at ht'
    · exact ⟨K, by rw [ht'] at h; linear_combination h⟩
    · exact ⟨K - 1, by rw [ht'] at h; linear_combination h⟩
  obtain ⟨K', hK'⟩ := hdiff
  have hPB : 0 < P * B := mul_pos hP BZ_pos
  have : K' = 0 := by
    by_contra hne
    rcases lt_or_gt_of_ne hne with hneg | hpos
    · have : K' * (P * B) ≤ -(P * B) := by nlinarith
      linarith
    · have : (P * B) ≤ K' * (P * B) := by nlinarith
      linarith
  rw [hK', this]; ring

/-- the top limb of a residue from bounds on its value -/
theorem top_bounds (xs : List Nat) (t : Nat) (hx : Limbs (xs ++ [t])) (a b : Int)
    (hlo : a * (B : Int) ^ xs.length ≤ rval (xs ++ [t])) (hhi : rval (xs ++ [t]) < (b + 1) * (B : Int) ^ xs.length) :
    a ≤ sint t ∧ sint t ≤ b := by
  have ⟨hxs, _⟩ := Limbs_snoc.mp hx
  have hv0 : (0 : Int) ≤ val xs := by positivity
  have hv1 := valZ_lt xs hxs
  have hP := BZpow_pos xs.length
  rw [rval_snoc] at hlo hhi
  constructor
  · by_contra hc; push Not at hc
    have : (B : Int) ^ xs.length * sint t ≤ (B : Int) ^ xs.length * (a - 1) := by nlinarith
    nlinarith
  · by_contra hc; push Not at hc
    have : (B : Int) ^ xs.length * (b + 1) ≤ (B : Int) ^ xs.length * sint t := by nlinarith
    nlinarith

/-- small signed values as limbs -/
theorem sint_eq_zero {t : Nat} (ht : t < B) : sint t = 0 ↔ t = 0 := by
  rw [sint_def]; simp only [B_eq] at ht; split <;> omega
theorem sint_eq_one {t : Nat} (ht : t < B) : sint t = 1 ↔ t = 1 := by
  rw [sint_def]; simp only [B_eq] at ht; split <;> omega
theorem sint_eq_neg_one {t : Nat} (ht : t < B) : sint t = -1 ↔ t = B - 1 := by
  rw [sint_def]; simp only [B_eq] at *; split <;> omega

/-! ### the sign test of mpn_addmod_2expp1_1 -/

theorem msb_iff (a : Nat) (ha : a < B) : a < B / 2 ↔ a.testBit 63 = false := by
  simp only [B_eq] at *
  rw [Nat.testBit_eq_decide_div_mod_eq]
  simp only [decide_eq_false_iff_not]
  omega

theorem xor_sign (a b : Nat) (ha : a < B) (hb : b < B) :
    (a ^^^ b) < B / 2 ↔ ((a < B / 2) ↔ (b < B / 2)) := by
  have hx : a ^^^ b < B := by
    have : B = 2 ^ 64 := rfl
    rw [this] at *; exact Nat.xor_lt_two_pow ha hb
  rw [msb_iff _ hx, msb_iff a ha, msb_iff b hb, Nat.testBit_xor]
  cases a.testBit 63 <;> cases b.testBit 63 <;> simp

/-! ### mpn_addmod_2expp1_1 adds the signed limb modulo B^length -/

theorem addmod1_spec (r0 : Nat) (rs : List Nat) (c : Nat) (hr : Limbs (r0 :: rs)) (hc : c < B) :
    (∃ k : Int, (val (addmod1 (r0 :: rs) c) : Int) = val (r0 :: rs) + sint c + k * (B : Int) ^ (rs.length + 1)) ∧
    Limbs (addmod1 (r0 :: rs) c) ∧ (addmod1 (r0 :: rs) c).length = rs.length + 1 := by
  have ⟨hr0, hrs⟩ := Limbs_cons.mp hr
  have hsum : (r0 + c) % B < B := Nat.mod_lt _ B_pos
  unfold addmod1
  simp only
  split
  · rename_i hx
    rw [xor_sign _ _ hsum hr0] at hx
    refine ⟨⟨0, ?_⟩, Limbs_cons.mpr ⟨hsum, hrs⟩, by simp⟩
    have : (((r0 + c) % B : Nat) : Int) = r0 + sint c := by
      rw [sint_def]; simp only [B_eq] at *; split <;> omega
    simp only [val_cons]; rw [Nat.cast_add, this]; push_cast; ring
  · split
    · rename_i _ hcs
      obtain ⟨hv, _, hl, hn⟩ := add_1_val' r0 rs c hr hc
      refine ⟨⟨-((add_1 (r0 :: rs) c).2 : Int), ?_⟩, hl, hn⟩
      rw [sint_of_small c hcs]
      have := congrArg (fun z : Nat => (z : Int)) hv
      push_cast at this ⊢
      linear_combination this
    · rename_i _ hcs
      have hl' := lneg_lt c
      obtain ⟨hv, _, hl, hn⟩ := sub_1_val' r0 rs (lneg c) hr hl'
      refine ⟨⟨((sub_1 (r0 :: rs) (lneg c)).2 : Int), ?_⟩, hl, hn⟩
      have e1 : (lneg c : Int) = (B : Int) - c := by
        unfold lneg; simp only [B_eq] at *; omega
      have e2 : sint c = (c : Int) - B := by unfold sint; simp [hcs]
      have := congrArg (fun z : Nat => (z : Int)) hv
      push_cast at this ⊢
      rw [e1] at this; rw [e2]
      linear_combination this

end Mpir.Fft
