/-
  Helper lemmas for MpirProofs/Props/C04_allocsafe6.lean (mpq arithmetic on the size-aware memory model).
-/
import MpirProofs.Props.C04_allocsafe4
import MpirProofs.Lemmas.Bits
import MpirProofs.Lemmas.Powm
import Mpir.Model.AllocSafeMpq6
namespace Mpir.AllocSafe6
open Mpir Mpir.AllocSafe

/-- what a single-destination callee guarantees (the `Safe` of C04_allocsafe.lean with the value as an integer) -/
structure Wrote (s s' : St) (w : Nat) (z : Int) : Prop where
  ok : s'.ok = true
  owf : OWF (s'.h w)
  frame : ∀ x, x ≠ w → s'.h x = s.h x
  val : valOf s' w = z

theorem natLimbs_len_zero (n : Nat) : (natLimbs n).length = 0 ↔ n = 0 := by
  constructor
  · intro h
    have := (Bits.natLimbs_spec n).1
    rw [List.length_eq_zero_iff.mp h] at this
    simpa [val] using this.symm
  · intro h; subst h; rw [natLimbs]; simp

/-- the object-level store is safe as soon as the block (after `MPZ_REALLOC (w, req)`) has room for the limbs of z -/
theorem objWrite_wrote (s : St) (w req : Nat) (z : Int) (hs : s.ok = true) (hw : OWF (s.h w))
    (hreq : (natLimbs z.natAbs).length ≤ max req (s.h w).buf.alloc) :
    Wrote s (objWrite s w req z) w z ∧
    ((objWrite s w req z).h w).buf.alloc = (Mpz.grow (view (s.h w)) req).alloc ∧
    ((objWrite s w req z).h w).gen = ((MPZ_REALLOC s w req).h w).gen := by
  have G := MPZ_REALLOC_grown s w req hw
  obtain ⟨hv, hl, hn⟩ := Bits.natLimbs_spec z.natAbs
  set s1 := MPZ_REALLOC s w req with hs1
  set l := natLimbs z.natAbs with hl'
  have hroom : l.length ≤ (s1.h w).buf.alloc := by
    have := G.room; have := G.mono w; omega
  have hb1 : BWF (s1.h w).buf := G.bwf w hw.1
  have hlimbs : ((s1.wr (s1.PTR w) l).h w).buf.limbs = l ++ (s1.h w).buf.limbs.drop l.length := by
    have := wr_limbs s1 (s1.PTR w) l (by simpa [St.PTR] using hroom)
    simpa [St.PTR] using this
  set sz : Int := if z < 0 then -(l.length : Int) else l.length with hsz
  have hszabs : sz.natAbs = l.length := by rw [hsz]; split <;> simp
  have hobj : objWrite s w req z = (s1.wr (s1.PTR w) l).setSize w sz := rfl
  have hview : view ((objWrite s w req z).h w) = ⟨(s1.h w).buf.alloc, sz, l⟩ := by
    rw [hobj]
    simp only [view, setSize_size, setSize_buf, hlimbs, wr_alloc, hszabs]
    rw [List.take_append_of_le_length (Nat.le_refl _), List.take_length]
  have h1 : 1 ≤ (s1.h w).buf.alloc := by
    have := G.mono w; have := hw.2.1; simp only [view] at this; omega
  refine ⟨⟨?_, ⟨?_, ?_⟩, ?_, ?_⟩, ?_, ?_⟩
  · rw [hobj, setSize_ok, wr_ok]
    have hlv : s1.live (s1.PTR w) = true := by simp [St.live, St.PTR]
    rw [hlv, G.ok, hs]
    simpa [St.PTR] using hroom
  · rw [hobj]; simp only [setSize_buf]; exact wr_BWF _ _ hl _ hb1
  · rw [hview]
    exact ⟨h1, by simpa [hszabs] using hroom, hszabs.symm, hl, hn⟩
  · intro x hx
    rw [hobj, setSize_other _ _ _ hx, wr_other _ _ _ (by simpa [St.PTR] using hx)]
    exact G.other x hx
  · unfold valOf; rw [hview]
    unfold Mpz.toInt
    simp only [hv]
    by_cases hz : z < 0
    · have hne : l.length ≠ 0 := by
        intro h; have := (natLimbs_len_zero _).mp h; omega
      have : sz < 0 := by rw [hsz, if_pos hz]; omega
      rw [if_pos this]; omega
    · have : ¬ sz < 0 := by rw [hsz, if_neg hz]; omega
      rw [if_neg this]; omega
  · rw [hobj]; simp only [setSize_buf, wr_alloc]; exact G.alloc
  · rw [hobj]; simp

/-- mpz_gcd at object level: the request is exactly the size of the result -/
theorem mpz_gcd_wrote (s : St) (g u v : Nat) (hs : s.ok = true) (hg : OWF (s.h g)) :
    Wrote s (mpz_gcd s g u v) g (Int.gcd (valOf s u) (valOf s v) : Nat) := by
  unfold mpz_gcd
  exact (objWrite_wrote s g _ _ hs hg (by omega)).1

/-! ## sizes -/

theorem norm_ge {l : List Nat} (hl : Limbs l) (hn : l.getLast? ≠ some 0) (hne : l ≠ []) : B ^ (l.length - 1) ≤ val l :=
  Powm.Norm_ge l ⟨hl, fun h h0 => hn (by rw [List.getLast?_eq_some_getLast h, h0])⟩ hne

theorem natLimbs_len_le (n k : Nat) (h : n < B ^ k) : (natLimbs n).length ≤ k := by
  by_contra hc
  rw [Nat.not_le] at hc
  obtain ⟨hv, hl, hn⟩ := Bits.natLimbs_spec n
  have hne : natLimbs n ≠ [] := by intro e; rw [e] at hc; simp at hc
  have h1 := norm_ge hl hn hne
  have h2 : B ^ k ≤ B ^ ((natLimbs n).length - 1) := Nat.pow_le_pow_right B_pos (by omega)
  omega

theorem natAbs_valOf (s : St) (x : Nat) : (valOf s x).natAbs = val (view (s.h x)).d := by
  unfold valOf Mpz.toInt; split <;> simp

theorem valOf_lt (s : St) (x : Nat) (h : OWF (s.h x)) : (valOf s x).natAbs < B ^ (s.h x).size.natAbs := by
  rw [natAbs_valOf]
  obtain ⟨_, _, hlen, hl, _⟩ := h.2
  have := val_lt _ hl
  rw [hlen] at this; exact this

theorem valOf_ge (s : St) (x : Nat) (h : OWF (s.h x)) (hne : (s.h x).size ≠ 0) :
    B ^ ((s.h x).size.natAbs - 1) ≤ (valOf s x).natAbs := by
  rw [natAbs_valOf]
  obtain ⟨_, _, hlen, hl, hn⟩ := h.2
  have hne' : (view (s.h x)).d ≠ [] := by
    intro e; rw [e] at hlen; simp [view] at hlen; exact hne (by omega)
  have := norm_ge hl hn hne'
  rw [hlen] at this; exact this

theorem valOf_size_zero (s : St) (x : Nat) (h : (s.h x).size = 0) : valOf s x = 0 := by
  unfold valOf Mpz.toInt view; simp [h]

theorem setSize_zero_wrote (s : St) (q : Nat) (hs : s.ok = true) (hq : OWF (s.h q)) : Wrote s (s.setSize q 0) q 0 := by
  refine ⟨by simpa using hs, ⟨by simpa using hq.1, ?_⟩, fun x hx => setSize_other _ _ _ hx, ?_⟩
  · have := hq.2.1
    simp only [view] at this
    refine ⟨by simpa [view] using this, by simp [view], by simp [view], ?_, by simp [view]⟩
    simp [view]; intro x hx; simp at hx
  · apply valOf_size_zero; simp

/-- mpz_divexact_gcd at object level: the sizes requested (`ABSIZ (a)` for a one-limb divisor, `ABSIZ (a) - ABSIZ (d) + 1` from
    mpz_divexact otherwise) have room for the quotient -/
theorem MPZ_REALLOC_noop (s : St) (w n : Nat) (h : n ≤ s.ALLOC w) : MPZ_REALLOC s w n = s := by
  unfold MPZ_REALLOC; rw [if_neg (by omega)]

theorem mpz_divexact_gcd_wrote' (s : St) (q a d : Nat) (hs : s.ok = true) (hq : OWF (s.h q)) (ha : OWF (s.h a))
    (hd : OWF (s.h d)) (hpos : 0 < valOf s d) (hdvd : valOf s d ∣ valOf s a) :
    Wrote s (mpz_divexact_gcd s q a d) q (valOf s a / valOf s d) ∧
    (s.ABSIZ a ≤ s.ALLOC q → ((mpz_divexact_gcd s q a d).h q).gen = (s.h q).gen) := by
  unfold mpz_divexact_gcd
  by_cases h0 : (s.h a).size = 0
  · simp only [St.SIZ, h0, beq_self_eq_true, if_true]
    rw [valOf_size_zero s a h0, Int.zero_ediv]
    exact ⟨setSize_zero_wrote s q hs hq, fun _ => by simp⟩
  · have hb : (s.SIZ a == 0) = false := by simpa [St.SIZ] using h0
    simp only [hb, Bool.false_eq_true, if_false]
    have hdn0 : (s.h d).size ≠ 0 := by
      intro e; have := valOf_size_zero s d e; omega
    suffices hfit : (natLimbs (valOf s a / valOf s d).natAbs).length ≤
        (if (s.SIZ d == 1) = true then s.ABSIZ a else s.ABSIZ a - s.ABSIZ d + 1) by
      have OW := objWrite_wrote s q _ _ hs hq (Nat.le_trans hfit (Nat.le_max_left _ _))
      refine ⟨OW.1, fun hroom => ?_⟩
      rw [OW.2.2, MPZ_REALLOC_noop _ _ _ (by
        have : 1 ≤ s.ABSIZ d := by simp only [St.ABSIZ]; omega
        have : 1 ≤ s.ABSIZ a := by simp only [St.ABSIZ]; omega
        by_cases hc : (s.SIZ d == 1) = true
        · rw [if_pos hc]; exact hroom
        · rw [if_neg hc]; omega)]
    obtain ⟨c, hc⟩ := hdvd
    have hz : valOf s a / valOf s d = c := by rw [hc]; exact Int.mul_ediv_cancel_left _ (by omega)
    rw [hz]
    have hA : (valOf s a).natAbs = (valOf s d).natAbs * c.natAbs := by rw [hc, Int.natAbs_mul]
    have hD : 1 ≤ (valOf s d).natAbs := by omega
    have hlt := valOf_lt s a ha
    have hdn : (s.h d).size ≠ 0 := by
      intro e; have := valOf_size_zero s d e; omega
    have hge := valOf_ge s d hd hdn
    generalize (valOf s a).natAbs = A at *
    generalize (valOf s d).natAbs = D at *
    generalize c.natAbs = Z at *
    generalize hna : (s.h a).size.natAbs = na at *
    generalize hnd : (s.h d).size.natAbs = nd at *
    have hnd1 : 1 ≤ nd := by omega
    apply natLimbs_len_le
    cases h1l : (s.SIZ d == 1)
    rotate_left
    · -- one-limb divisor
      simp only [if_true]
      simp only [St.ABSIZ, hna]
      have : Z ≤ D * Z := Nat.le_mul_of_pos_left _ hD
      omega
    · simp only [Bool.false_eq_true, if_false]
      simp only [St.ABSIZ, hna, hnd]
      by_cases hle : nd ≤ na
      · have e : B ^ na = B ^ (na - nd + 1) * B ^ (nd - 1) := by rw [← pow_add]; congr 1; omega
        have h1 : Z * B ^ (nd - 1) ≤ Z * D := Nat.mul_le_mul_left _ hge
        have h2 : Z * B ^ (nd - 1) < B ^ (na - nd + 1) * B ^ (nd - 1) := by
          rw [← e]; calc Z * B ^ (nd - 1) ≤ Z * D := h1
            _ = D * Z := Nat.mul_comm _ _
            _ < B ^ na := by omega
        exact Nat.lt_of_mul_lt_mul_right h2
      · have h3 : B ^ na ≤ B ^ (nd - 1) := Nat.pow_le_pow_right B_pos (by omega)
        have : Z = 0 := by
          by_contra hZ
          have : D ≤ D * Z := Nat.le_mul_of_pos_right _ (Nat.pos_of_ne_zero hZ)
          omega
        rw [this]; exact Nat.pos_of_ne_zero (by have := B_pos; positivity)

/-- mpz_divexact_gcd at object level: the sizes requested (`ABSIZ (a)` for a one-limb divisor, `ABSIZ (a) - ABSIZ (d) + 1` from
    mpz_divexact otherwise) have room for the quotient -/
theorem mpz_divexact_gcd_wrote (s : St) (q a d : Nat) (hs : s.ok = true) (hq : OWF (s.h q)) (ha : OWF (s.h a))
    (hd : OWF (s.h d)) (hpos : 0 < valOf s d) (hdvd : valOf s d ∣ valOf s a) :
    Wrote s (mpz_divexact_gcd s q a d) q (valOf s a / valOf s d) :=
  (mpz_divexact_gcd_wrote' s q a d hs hq ha hd hpos hdvd).1

/-! ## the mpz callees that have a size-aware model, as `Wrote` -/

theorem mpz_mul_wrote (s : St) (w u v : Nat) (hs : s.ok = true) (hw : OWF (s.h w)) (hu : OWF (s.h u)) (hv : OWF (s.h v)) :
    Wrote s (mpz_mul s w u v) w (valOf s u * valOf s v) := by
  obtain ⟨S, E⟩ := mpz_mul_alloc_safe 17 s w u v hs hw hu hv
  exact ⟨S.1, S.2.1, S.2.2.1, E⟩

theorem mpz_set_wrote (s : St) (w u : Nat) (hs : s.ok = true) (hw : OWF (s.h w)) (hu : OWF (s.h u)) :
    Wrote s (mpz_set s w u) w (valOf s u) := by
  obtain ⟨S, E⟩ := mpz_set_alloc_safe s w u hs hw hu
  exact ⟨S.1, S.2.1, S.2.2.1, E⟩

theorem mpz_add_wrote (s : St) (w u v : Nat) (hs : s.ok = true) (hw : OWF (s.h w)) (hu : OWF (s.h u)) (hv : OWF (s.h v)) :
    Wrote s (mpz_add s w u v) w (valOf s u + valOf s v) := by
  obtain ⟨S, E⟩ := mpz_add_alloc_safe s w u v hs hw hu hv
  exact ⟨S.1, S.2.1, S.2.2.1, E⟩

theorem mpz_sub_wrote (s : St) (w u v : Nat) (hs : s.ok = true) (hw : OWF (s.h w)) (hu : OWF (s.h u)) (hv : OWF (s.h v)) :
    Wrote s (mpz_sub s w u v) w (valOf s u - valOf s v) := by
  obtain ⟨S, E⟩ := mpz_sub_alloc_safe s w u v hs hw hu hv
  exact ⟨S.1, S.2.1, S.2.2.1, E⟩

theorem Wrote.owf_of {s s' : St} {w : Nat} {z : Int} (W : Wrote s s' w z) (x : Nat) (h : OWF (s.h x)) : OWF (s'.h x) := by
  by_cases e : x = w
  · subst e; exact W.owf
  · rw [W.frame x e]; exact h

theorem Wrote.val_other {s s' : St} {w : Nat} {z : Int} (W : Wrote s s' w z) (x : Nat) (h : x ≠ w) : valOf s' x = valOf s x := by
  unfold valOf; rw [W.frame x h]

theorem fresh_owf : OWF ⟨0, 0, Buf.new 1⟩ := by
  refine ⟨BWF_new 1, ?_⟩
  refine ⟨by simp [view, Buf.new], by simp [view], by simp [view], ?_, by simp [view]⟩
  simp [view]; intro x hx; simp at hx

@[simp] theorem mpzInit_ok (s : St) (x : Nat) : (mpzInit s x).ok = s.ok := rfl
theorem mpzInit_same (s : St) (x : Nat) : (mpzInit s x).h x = ⟨0, 0, Buf.new 1⟩ := by simp [mpzInit, upd]
theorem mpzInit_other (s : St) (x : Nat) {y : Nat} (h : y ≠ x) : (mpzInit s x).h y = s.h y := by simp [mpzInit, upd, h]
theorem mpzInit_owf (s : St) (x y : Nat) (h : OWF (s.h y)) : OWF ((mpzInit s x).h y) := by
  by_cases e : y = x
  · subst e; rw [mpzInit_same]; exact fresh_owf
  · rw [mpzInit_other s x e]; exact h
theorem mpzInit_owf_self (s : St) (x : Nat) : OWF ((mpzInit s x).h x) := by rw [mpzInit_same]; exact fresh_owf

/-! ## signs -/

theorem valOf_ne_zero (s : St) (x : Nat) (h : OWF (s.h x)) (hne : (s.h x).size ≠ 0) : valOf s x ≠ 0 := by
  have := valOf_ge s x h hne
  have hp : 0 < B ^ ((s.h x).size.natAbs - 1) := Nat.pos_of_ne_zero (by have := B_pos; positivity)
  have h1 : 1 ≤ (valOf s x).natAbs := Nat.le_trans hp this
  intro e; rw [e] at h1; simp at h1

theorem size_neg_iff (s : St) (x : Nat) (h : OWF (s.h x)) : (s.h x).size < 0 ↔ valOf s x < 0 := by
  constructor
  · intro hn
    have hne : (s.h x).size ≠ 0 := by omega
    have h0 := valOf_ne_zero s x h hne
    have : valOf s x = -(val (view (s.h x)).d : Int) := by
      unfold valOf Mpz.toInt; rw [if_pos (by simpa [view] using hn)]
    omega
  · intro hv
    by_contra hn
    have : valOf s x = (val (view (s.h x)).d : Int) := by
      unfold valOf Mpz.toInt; rw [if_neg (by simpa [view] using hn)]
    omega

/-- `SIZ (x) = -SIZ (x)` (div.c:67-68): still well formed, value negated, nothing else touched -/
theorem setSize_neg (s : St) (x : Nat) (h : OWF (s.h x)) :
    OWF ((s.setSize x (-(s.h x).size)).h x) ∧ valOf (s.setSize x (-(s.h x).size)) x = -valOf s x := by
  obtain ⟨hb, h1, h2, h3, h4, h5⟩ := h
  have hv : view ((s.setSize x (-(s.h x).size)).h x) = ⟨(view (s.h x)).alloc, -(s.h x).size, (view (s.h x)).d⟩ := by
    simp [view, St.setSize, upd]
  refine ⟨⟨by simpa using hb, ?_⟩, ?_⟩
  · rw [hv]
    exact ⟨h1, by simpa [view] using h2, by simpa [view] using h3, h4, h5⟩
  · unfold valOf; rw [hv]; unfold Mpz.toInt
    simp only [view] at h3 ⊢
    have hz : (s.h x).size = 0 → val (List.take (s.h x).size.natAbs (s.h x).buf.limbs) = 0 := by
      intro h0
      have : (List.take (s.h x).size.natAbs (s.h x).buf.limbs) = [] := by
        apply List.eq_nil_of_length_eq_zero; rw [h3, h0]; rfl
      rw [this]; simp [val]
    split_ifs <;> omega

/-! ## TMP variables: blocks that must not be reallocated -/

theorem mulTail_gen (s : St) (w : Nat) (up vp : Src) (usize vsize : Nat) (same neg : Bool) (x : Nat) :
    ((mulTail s w up vp usize vsize same neg).h x).gen = (s.h x).gen := by
  unfold mulTail
  split <;> simp [mpn_mul_S, St.load]

theorem mulGeneric_gen (s : St) (w u v usize vsize : Nat) (neg : Bool) (h : usize + vsize ≤ s.ALLOC w) (x : Nat) :
    ((mulGeneric true s w u v usize vsize neg).h x).gen = (s.h x).gen := by
  unfold mulGeneric
  simp only []
  rw [if_neg (by omega)]
  split
  · rw [mulTail_gen]; simp [tmp_copy]
  · split
    · rw [mulTail_gen]; simp [tmp_copy]
    · rw [mulTail_gen]

/-- mpz_mul does not replace the block of w when it has room for usize + vsize limbs -/
theorem mpz_mul_gen_keep (s : St) (w u v : Nat) (h : (s.SIZ u).natAbs + (s.SIZ v).natAbs ≤ s.ALLOC w) (x : Nat) :
    ((mpz_mul s w u v).h x).gen = (s.h x).gen := by
  unfold mpz_mul mul
  simp only []
  split
  · simp
  · split
    · rename_i h1
      have h1' : (s.SIZ v).natAbs = 1 := by simpa using h1
      rw [MPZ_REALLOC_noop _ _ _ (by omega)]
      simp [mpn_mul_1, St.load, St.store]
    · split
      · rw [MPZ_REALLOC_noop _ _ _ (by omega)]
        split <;> simp [mpn_mul, St.load]
      · split
        · exact mulGeneric_gen _ _ _ _ _ _ _ (by omega) x
        · exact mulGeneric_gen _ _ _ _ _ _ _ (by omega) x

theorem chk_true (s : St) : s.chk true = s := by cases s; simp [St.chk]

theorem tmpKept_eq (s : St) (x : Nat) (h : (s.h x).gen = 0) : tmpKept s x = s := by
  unfold tmpKept; rw [h]; exact chk_true s

theorem tmp_owf (n : Nat) (h : 1 ≤ n) : OWF ⟨0, 0, Buf.new n⟩ := by
  refine ⟨BWF_new n, ?_⟩
  refine ⟨by simpa [view, Buf.new] using h, by simp [view], by simp [view], ?_, by simp [view]⟩
  simp [view]; intro x hx; simp at hx

@[simp] theorem tmpInit_ok (s : St) (x n : Nat) : (tmpInit s x n).ok = s.ok := rfl
theorem tmpInit_same (s : St) (x n : Nat) : (tmpInit s x n).h x = ⟨0, 0, Buf.new n⟩ := by simp [tmpInit, upd]
theorem tmpInit_other (s : St) (x n : Nat) {y : Nat} (h : y ≠ x) : (tmpInit s x n).h y = s.h y := by simp [tmpInit, upd, h]

/-- mpz_gcd leaves the block of g alone when it has room for the result -/
theorem mpz_gcd_gen_keep (s : St) (g u v : Nat) (hs : s.ok = true) (hg : OWF (s.h g))
    (h : (natLimbs (Int.gcd (valOf s u) (valOf s v))).length ≤ s.ALLOC g) :
    ((mpz_gcd s g u v).h g).gen = (s.h g).gen := by
  unfold mpz_gcd
  have := (objWrite_wrote s g (natLimbs (Int.gcd (valOf s u) (valOf s v) : Int).natAbs).length (Int.gcd (valOf s u) (valOf s v) : Nat) hs hg
    (by omega)).2.2
  rw [this, MPZ_REALLOC_noop _ _ _ (by simpa using h)]

/-- `MPZ_EQUAL_1_P` on a variable that holds 1: true, and the load of PTR(z)[0] is inside the block -/
theorem equal1_one (s : St) (z : Nat) (hz : OWF (s.h z)) (h1 : valOf s z = 1) : equal1 s z = (true, s) := by
  have hnn : ¬ (s.h z).size < 0 := by rw [size_neg_iff s z hz, h1]; omega
  have hne : (s.h z).size ≠ 0 := by intro e; have := valOf_size_zero s z e; omega
  have hge := valOf_ge s z hz hne
  rw [h1] at hge
  have hsz : (s.h z).size = 1 := by
    by_contra hc
    have : 2 ≤ (s.h z).size.natAbs := by omega
    have : B ^ 1 ≤ B ^ ((s.h z).size.natAbs - 1) := Nat.pow_le_pow_right B_pos (by omega)
    have hB : 2 ≤ B := by unfold B; norm_num
    simp at hge this; omega
  obtain ⟨hb, ha, hfit, hlen, hl, hn⟩ := hz
  have hv := natAbs_valOf s z
  rw [h1] at hv
  simp only [view, hsz] at hv hlen ha
  have hna : Int.natAbs 1 = 1 := rfl
  rw [hna] at hv hlen
  have hd : (s.h z).buf.limbs.take 1 = [1] := by
    match hm : (s.h z).buf.limbs.take 1, hlen with
    | [a], _ => rw [hm] at hv; simp [val] at hv; rw [← hv]
  unfold equal1
  simp only [St.SIZ, hsz, beq_self_eq_true, if_true, St.load, Ptr.add, St.PTR]
  have e1 : s.rd ⟨z, (s.h z).gen, 0 + 0⟩ 1 = [1] := by
    simp [St.rd, Buf.read, hd]
  have e2 : s.rdOk ⟨z, (s.h z).gen, 0 + 0⟩ 1 = true := by
    simp [St.rdOk, Buf.read, St.live]; simpa using ha
  rw [e1, e2, chk_true]; rfl

theorem zaors_wrote (isSub : Bool) (s : St) (w u v : Nat) (hs : s.ok = true) (hw : OWF (s.h w)) (hu : OWF (s.h u)) (hv : OWF (s.h v)) :
    Wrote s (zaors isSub s w u v) w (if isSub then valOf s u - valOf s v else valOf s u + valOf s v) := by
  unfold zaors
  cases isSub
  · simpa using mpz_add_wrote s w u v hs hw hu hv
  · simpa using mpz_sub_wrote s w u v hs hw hu hv

theorem size_toNat (s : St) (x : Nat) (h : OWF (s.h x)) (hp : 0 < valOf s x) : (s.SIZ x).toNat = (s.h x).size.natAbs ∧ 1 ≤ (s.h x).size.natAbs := by
  have hnn : ¬ (s.h x).size < 0 := by rw [size_neg_iff s x h]; omega
  have hne : (s.h x).size ≠ 0 := by intro e; have := valOf_size_zero s x e; omega
  simp only [St.SIZ]; omega


theorem aorsCore_gen (s : St) (w u v : Nat) (usize vsize : Int) (h : usize.natAbs + 1 ≤ s.ALLOC w) (x : Nat) :
    ((aorsCore false 1 s w u v usize vsize).h x).gen = (s.h x).gen := by
  unfold aorsCore
  simp only []
  rw [MPZ_REALLOC_noop _ _ _ h]
  simp only [Bool.false_eq_true, if_false]
  split
  · split
    · simp [mpn_sub, MPN_NORMALIZE]
    · by_cases hc : cmp (s.rd (s.PTR u) usize.natAbs) (s.rd (s.PTR v) usize.natAbs) < 0 <;>
        simp [hc, mpn_cmp, mpn_sub_n, MPN_NORMALIZE]
  · simp [mpn_add, St.store]

/-- mpz_add / mpz_sub do not replace the block of w when it has max (usize, vsize) + 1 limbs -/
theorem zaors_gen_keep (isSub : Bool) (s : St) (w u v : Nat)
    (h : max (s.SIZ u).natAbs (s.SIZ v).natAbs + 1 ≤ s.ALLOC w) (x : Nat) :
    ((zaors isSub s w u v).h x).gen = (s.h x).gen := by
  have hn : ∀ z : Int, (-z).natAbs = z.natAbs := Int.natAbs_neg
  unfold zaors
  cases isSub
  · simp only [Bool.false_eq_true, if_false, mpz_add, aors]
    split
    · exact aorsCore_gen _ _ _ _ _ _ (by omega) x
    · exact aorsCore_gen _ _ _ _ _ _ (by omega) x
  · simp only [if_true, mpz_sub, aors]
    split
    · exact aorsCore_gen _ _ _ _ _ _ (by rw [hn]; omega) x
    · exact aorsCore_gen _ _ _ _ _ _ (by omega) x

/-- the size field is bounded by any power-of-B bound on the value -/
theorem absiz_le (s : St) (x : Nat) (h : OWF (s.h x)) (k : Nat) (hk : (valOf s x).natAbs < B ^ k) : (s.h x).size.natAbs ≤ k := by
  by_cases h0 : (s.h x).size = 0
  · rw [h0]; simp
  · have := valOf_ge s x h h0
    by_contra hc
    have : B ^ k ≤ B ^ ((s.h x).size.natAbs - 1) := Nat.pow_le_pow_right B_pos (by omega)
    omega

/-- `MPZ_EQUAL_1_P` decides "the value is 1" and its load is inside the block -/
theorem equal1_spec (s : St) (z : Nat) (hz : OWF (s.h z)) : equal1 s z = (decide (valOf s z = 1), s) := by
  by_cases h1 : valOf s z = 1
  · rw [equal1_one s z hz h1]; simp [h1]
  · have hd : decide (valOf s z = 1) = false := by simpa using h1
    rw [hd]
    unfold equal1
    by_cases hsz : (s.h z).size = 1
    · obtain ⟨hb, ha, hfit, hlen, hl, hn⟩ := hz
      simp only [view, hsz] at hlen ha
      have hna : Int.natAbs 1 = 1 := rfl
      rw [hna] at hlen
      match hm : (s.h z).buf.limbs.take 1, hlen with
      | [a], _ =>
        have hv : valOf s z = a := by
          unfold valOf Mpz.toInt view; simp [hsz, hm, val]
        have ha1 : a ≠ 1 := by intro e; apply h1; rw [hv, e]; rfl
        simp only [St.SIZ, hsz, beq_self_eq_true, if_true, St.load, Ptr.add, St.PTR]
        have e1 : s.rd ⟨z, (s.h z).gen, 0 + 0⟩ 1 = [a] := by simp [St.rd, Buf.read, hm]
        have e2 : s.rdOk ⟨z, (s.h z).gen, 0 + 0⟩ 1 = true := by
          simp [St.rdOk, Buf.read, St.live]; simpa using ha
        rw [e1, e2, chk_true]; simp [ha1]
    · have : ((s.SIZ z) == 1) = false := by simpa [St.SIZ] using hsz
      rw [this]; simp


theorem objWrite_alloc (s : St) (w req : Nat) (z : Int) :
    ((objWrite s w req z).h w).buf.alloc = ((MPZ_REALLOC s w req).h w).buf.alloc := by
  simp [objWrite]

theorem mpz_divexact_gcd_alloc_keep (s : St) (q a d : Nat) (hd0 : (s.h d).size ≠ 0) (hroom : s.ABSIZ a ≤ s.ALLOC q) :
    ((mpz_divexact_gcd s q a d).h q).buf.alloc = (s.h q).buf.alloc := by
  unfold mpz_divexact_gcd
  by_cases h0 : (s.SIZ a == 0) = true
  · rw [if_pos h0]; simp
  · rw [if_neg h0]
    have h0' : (s.h a).size ≠ 0 := by simpa [St.SIZ] using h0
    rw [objWrite_alloc, MPZ_REALLOC_noop _ _ _ (by
      have : 1 ≤ s.ABSIZ d := by simp only [St.ABSIZ]; omega
      have : 1 ≤ s.ABSIZ a := by simp only [St.ABSIZ]; omega
      by_cases hc : (s.SIZ d == 1) = true
      · rw [if_pos hc]; exact hroom
      · rw [if_neg hc]; omega)]

theorem mpz_gcd_alloc_keep (s : St) (g u v : Nat)
    (h : (natLimbs (Int.gcd (valOf s u) (valOf s v))).length ≤ s.ALLOC g) :
    ((mpz_gcd s g u v).h g).buf.alloc = (s.h g).buf.alloc := by
  unfold mpz_gcd
  rw [objWrite_alloc, MPZ_REALLOC_noop _ _ _ (by simpa using h)]

theorem mulTail_alloc (s : St) (w : Nat) (up vp : Src) (usize vsize : Nat) (same neg : Bool) (x : Nat) :
    ((mulTail s w up vp usize vsize same neg).h x).buf.alloc = (s.h x).buf.alloc := by
  unfold mulTail
  split <;> simp [mpn_mul_S, St.load]

theorem mulGeneric_alloc (s : St) (w u v usize vsize : Nat) (neg : Bool) (h : usize + vsize ≤ s.ALLOC w) (x : Nat) :
    ((mulGeneric true s w u v usize vsize neg).h x).buf.alloc = (s.h x).buf.alloc := by
  unfold mulGeneric
  simp only []
  rw [if_neg (by omega)]
  split
  · rw [mulTail_alloc]; simp [tmp_copy]
  · split
    · rw [mulTail_alloc]; simp [tmp_copy]
    · rw [mulTail_alloc]

theorem mpz_mul_alloc_keep (s : St) (w u v : Nat) (h : (s.SIZ u).natAbs + (s.SIZ v).natAbs ≤ s.ALLOC w) (x : Nat) :
    ((mpz_mul s w u v).h x).buf.alloc = (s.h x).buf.alloc := by
  unfold mpz_mul mul
  simp only []
  split
  · simp
  · split
    · rename_i h1
      have h1' : (s.SIZ v).natAbs = 1 := by simpa using h1
      rw [MPZ_REALLOC_noop _ _ _ (by omega)]
      simp [mpn_mul_1, St.load, St.store]
    · split
      · rw [MPZ_REALLOC_noop _ _ _ (by omega)]
        split <;> simp [mpn_mul, St.load]
      · split
        · exact mulGeneric_alloc _ _ _ _ _ _ _ (by omega) x
        · exact mulGeneric_alloc _ _ _ _ _ _ _ (by omega) x

theorem gcd_len_le (a b : Int) (k : Nat) (hb : 0 < b) (hk : b.natAbs < B ^ k) : (natLimbs (Int.gcd a b)).length ≤ k := by
  apply natLimbs_len_le
  have : Int.gcd a b ≤ b.natAbs := Nat.le_of_dvd (by omega) (Int.gcd_dvd_natAbs_right a b)
  omega


theorem natAbs_div_le (a g : Int) (hg : 0 < g) (hd : g ∣ a) : (a / g).natAbs ≤ a.natAbs := by
  obtain ⟨c, hc⟩ := hd
  rw [hc, Int.mul_ediv_cancel_left _ (by omega), Int.natAbs_mul]
  exact Nat.le_mul_of_pos_left _ (by omega)

theorem size_ne_zero_of_pos (s : St) (x : Nat) (h : 0 < valOf s x) : (s.h x).size ≠ 0 := by
  intro e; have := valOf_size_zero s x e; omega

macro "dq" : tactic => `(tactic| first | assumption | (apply Ne.symm; assumption))


theorem top_ne_zero (o : Obj) (h : OWF o) (h0 : o.size ≠ 0) : o.buf.limbs.getD (o.size.natAbs - 1) junk ≠ 0 := by
  obtain ⟨hb, _, hfit, hlen, _, hn⟩ := h
  simp only [view] at hlen hn hfit
  have hpos : 0 < o.size.natAbs := by omega
  have hne : o.buf.limbs.take o.size.natAbs ≠ [] := by
    intro e; rw [e] at hlen; simp at hlen; omega
  rw [List.getLast?_eq_some_getLast hne] at hn
  have : (o.buf.limbs.take o.size.natAbs).getLast hne = o.buf.limbs.getD (o.size.natAbs - 1) junk := by
    rw [List.getLast_eq_getElem]
    simp only [hlen, List.getElem_take]
    rw [List.getD_eq_getElem?_getD, List.getElem?_eq_getElem (by rw [hb.1]; omega)]; rfl
  intro e; apply hn; rw [this, e]

end Mpir.AllocSafe6
