/-
  Helper lemmas for MpirProofs/Props/C04_allocsafe6.lean (mpq arithmetic on the size-aware memory model).
-/
import MpirProofs.Props.C04_allocsafe4
import Mpir.Model.AllocSafeMpq6
namespace Mpir.AllocSafe6
open Mpir Mpir.AllocSafe

end Mpir.AllocSafe6
