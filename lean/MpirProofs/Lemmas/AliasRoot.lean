/- mpz_sqrtrem on the pointer-level model: manual free + allocate of the root block, "Make OP not overlap with ROOT",
   remainder in place when rem is op. -/
import MpirProofs.Lemmas.AliasBits
import Mathlib.Data.Nat.Sqrt
namespace Mpir.AliasMem
open Mpir
open Mpir.DivZ (sizeNat siz sameSign)

theorem val_replicate_junk_norm (k : Nat) : sizeNat (val (List.replicate k junk)) = k := by
  have := sizeNat_of_norm (Limbs_replicate_junk k) (by
    cases k with
    | zero => simp
    | succ k => rw [List.getLast?_replicate]; simp [junk])
  simpa using this

/-- a new block with junk contents for `v` (its old contents are lost, SIZ is kept): the invariant survives — `v` now
    holds some junk value of the same size —, every other variable is untouched -/
theorem freshBlock_spec {s : St} (h : Inv s) {v : Nat} (hv : v < s.nv) (n : Nat) (hlt : s.alloc v < n) :
    Inv (s.freshBlock v n) ∧ (s.freshBlock v n).nv = s.nv ∧ (∀ i, (s.freshBlock v n).size i = s.size i) ∧
    (∀ i, i < s.nv → i ≠ v → (s.freshBlock v n).value i = s.value i) ∧
    (s.freshBlock v n).alloc v = n ∧ (∀ i, i ≠ v → (s.freshBlock v n).alloc i = s.alloc i) ∧
    (s.freshBlock v n).ptr v = s.next ∧ (∀ i, i ≠ v → (s.freshBlock v n).ptr i = s.ptr i) ∧
    (s.freshBlock v n).next = s.next + 1 ∧
    (∀ q, q ≠ s.next → q ≠ s.ptr v → (s.freshBlock v n).blk q = s.blk q) := by
  have hvars : ∀ i, (s.freshBlock v n).vars i =
      if i = v then { alloc := n, size := s.size v, ptr := s.next } else s.vars i := fun i => by
    simp [St.freshBlock, St.setVar, St.malloc, St.free, St.setBlk]
  have hblk : ∀ q, (s.freshBlock v n).blk q =
      if q = s.next then some (List.replicate n junk) else if q = s.ptr v then none else s.blk q := fun q => by
    simp only [St.freshBlock, St.setVar, St.malloc, St.free, St.setBlk]
    by_cases e1 : q = s.next
    · simp [e1]
    · by_cases e2 : q = s.ptr v
      · simp [e1, e2]
      · simp [e1, e2]
  have hnext : (s.freshBlock v n).next = s.next + 1 := by
    simp [St.freshBlock, St.setVar, St.malloc, St.free, St.setBlk]
  have hnv : (s.freshBlock v n).nv = s.nv := by
    simp [St.freshBlock, St.setVar, St.malloc, St.free, St.setBlk]
  have hsize : ∀ i, (s.freshBlock v n).size i = s.size i := fun i => by
    unfold St.size; rw [hvars]; split
    · next e => subst e; rfl
    · rfl
  have hptr_v : (s.freshBlock v n).ptr v = s.next := by unfold St.ptr; rw [hvars]; simp
  have hptr_o : ∀ i, i ≠ v → (s.freshBlock v n).ptr i = s.ptr i := fun i hi => by
    unfold St.ptr; rw [hvars]; simp [hi]
  have halloc_v : (s.freshBlock v n).alloc v = n := by unfold St.alloc; rw [hvars]; simp
  have halloc_o : ∀ i, i ≠ v → (s.freshBlock v n).alloc i = s.alloc i := fun i hi => by
    unfold St.alloc; rw [hvars]; simp [hi]
  have hblk_o : ∀ i, i < s.nv → i ≠ v → (s.freshBlock v n).blk (s.ptr i) = s.blk (s.ptr i) := fun i hi hiv => by
    rw [hblk]
    have h1 : s.ptr i ≠ s.next := Nat.ne_of_lt (h.lt i hi)
    have h2 : s.ptr i ≠ s.ptr v := fun e => hiv (h.inj i v hi hv e)
    simp [h1, h2]
  have hfit := h.fits v hv
  have hval : ∀ i, i < s.nv → i ≠ v → (s.freshBlock v n).value i = s.value i := fun i hi hiv =>
    value_congr (by rw [hvars]; simp [hiv]) (hblk_o i hi hiv)
  refine ⟨⟨fun i hi => ?_, fun i j hi hj e => ?_, fun i hi => ?_, fun q hq => ?_, fun i hi => ?_, fun i hi => ?_⟩,
    hnv, hsize, hval, halloc_v, halloc_o, hptr_v, hptr_o, hnext, fun q h1 h2 => by rw [hblk]; simp [h1, h2]⟩
  · rw [hnv] at hi
    by_cases hiv : i = v
    · subst hiv
      exact ⟨List.replicate n junk, by rw [hptr_v, hblk]; simp, by rw [halloc_v]; simp, Limbs_replicate_junk _⟩
    · obtain ⟨b, hb, hbl, hbL⟩ := h.live i hi
      exact ⟨b, by rw [hptr_o i hiv, hblk_o i hi hiv, hb], by rw [halloc_o i hiv]; exact hbl, hbL⟩
  · rw [hnv] at hi hj
    by_cases hiv : i = v <;> by_cases hjv : j = v
    · rw [hiv, hjv]
    · rw [hiv, hptr_v, hptr_o j hjv] at e
      exact absurd e.symm (Nat.ne_of_lt (h.lt j hj))
    · rw [hjv, hptr_v, hptr_o i hiv] at e
      exact absurd e (Nat.ne_of_lt (h.lt i hi))
    · rw [hptr_o i hiv, hptr_o j hjv] at e; exact h.inj i j hi hj e
  · rw [hnv] at hi; rw [hnext]
    by_cases hiv : i = v
    · rw [hiv, hptr_v]; omega
    · rw [hptr_o i hiv]; have := h.lt i hi; omega
  · rw [hnext] at hq
    rw [hblk]
    have h1 : q ≠ s.next := by omega
    have h2 : q ≠ s.ptr v := by have := h.lt v hv; omega
    simp only [h1, h2, if_false]
    exact h.fresh q (by omega)
  · rw [hnv] at hi; rw [hsize]
    by_cases hiv : i = v
    · rw [hiv, halloc_v]; omega
    · rw [halloc_o i hiv]; exact h.fits i hi
  · rw [hnv] at hi
    by_cases hiv : i = v
    · subst hiv
      rw [hsize]
      have hk : (s.size i).natAbs ≤ n := by omega
      have hmag : (s.freshBlock i n).mag i = val (List.replicate (s.size i).natAbs junk) := by
        unfold St.mag St.limbs
        rw [hsize, hptr_v, hblk]; simp [List.take_replicate, Nat.min_eq_left hk]
      have hsn := val_replicate_junk_norm (s.size i).natAbs
      rw [value_eq_sgnv, hsize, hmag]
      unfold siz sgnv
      by_cases h0 : s.size i < 0
      · rw [if_pos h0]
        have hpos : val (List.replicate (s.size i).natAbs junk) ≠ 0 := fun e => by
          rw [e, DivZ.sizeNat_eq_zero.mpr rfl] at hsn; omega
        rw [if_pos (by omega)]; simp only [Int.natAbs_neg, Int.natAbs_natCast]; omega
      · rw [if_neg h0, if_neg (by omega)]; simp only [Int.natAbs_natCast]; omega
    · rw [hsize, hval i hi hiv]; exact h.norm i hi


theorem sqrt_size {N n : Nat} (h1 : B ^ (n - 1) ≤ N) (h2 : N < B ^ n) (hn : 1 ≤ n) :
    sizeNat (Nat.sqrt N) = (n + 1) / 2 := by
  apply sizeNat_eq
  · rw [Nat.le_sqrt, ← pow_two, ← pow_mul]
    exact Nat.le_trans (Nat.pow_le_pow_right B_pos (by omega)) h1
  · rw [Nat.sqrt_lt, ← pow_two, ← pow_mul]
    exact Nat.lt_of_lt_of_le h2 (Nat.pow_le_pow_right B_pos (by omega))
  · omega

theorem mpn_sqrtrem_ok {s : St} {sp rp np nn : Nat} {Nl bs br : List Nat}
    (hN : s.load np nn = .ok Nl) (hbs : s.blk sp = some bs) (hbr : s.blk rp = some br)
    (h1 : sp ≠ np) (h2 : sp ≠ rp) (hnn : 1 ≤ nn) (htop : Nl.getD (nn - 1) 0 ≠ 0)
    (has : (nn + 1) / 2 ≤ bs.length) (har : sizeNat (val Nl - Nat.sqrt (val Nl) * Nat.sqrt (val Nl)) ≤ br.length) :
    mpn_sqrtrem sp rp np nn s =
      .ok (sizeNat (val Nl - Nat.sqrt (val Nl) * Nat.sqrt (val Nl)),
        (s.setBlk sp (some (toLimbs ((nn + 1) / 2) (Nat.sqrt (val Nl)) ++ bs.drop ((nn + 1) / 2)))).setBlk rp
          (some (toLimbs (sizeNat (val Nl - Nat.sqrt (val Nl) * Nat.sqrt (val Nl))) (val Nl - Nat.sqrt (val Nl) * Nat.sqrt (val Nl))
            ++ br.drop (sizeNat (val Nl - Nat.sqrt (val Nl) * Nat.sqrt (val Nl)))))) := by
  unfold mpn_sqrtrem
  have hc : ¬ (sp = np ∨ sp = rp) := by tauto
  have hs : ¬ ¬ 1 ≤ nn := by omega
  simp only [bind, Except.bind, hc, if_false, hN, hs, htop, pure, Except.pure]
  have st1 : s.store sp (toLimbs ((nn + 1) / 2) (Nat.sqrt (val Nl))) =
      .ok (s.setBlk sp (some (toLimbs ((nn + 1) / 2) (Nat.sqrt (val Nl)) ++ bs.drop ((nn + 1) / 2)))) := by
    unfold St.store; rw [hbs]; simp only [toLimbs_length]; rw [if_pos has]
  rw [st1]; simp only []
  unfold St.store
  have : (s.setBlk sp (some (toLimbs ((nn + 1) / 2) (Nat.sqrt (val Nl)) ++ bs.drop ((nn + 1) / 2)))).blk rp = some br := by
    simp [St.setBlk, Ne.symm h2, hbr]
  rw [this]; simp only [toLimbs_length]; rw [if_pos har]

theorem sqrtrem_ok {s : St} (h : Inv s) {root rem op : Nat} (hr : root < s.nv) (hm : rem < s.nv) (ho : op < s.nv)
    (hrm : root ≠ rem) (hop : 0 ≤ s.value op) :
    ∃ s', sqrtrem root rem op s = .ok s' ∧ Inv s' ∧ s'.nv = s.nv ∧
      s'.value root = (Nat.sqrt (s.value op).toNat : Int) ∧
      s'.value rem = s.value op - (Nat.sqrt (s.value op).toNat : Int) * (Nat.sqrt (s.value op).toNat : Int) ∧
      ∀ i, i < s.nv → i ≠ root → i ≠ rem → s'.value i = s.value i := by
  unfold sqrtrem sqrtremV
  simp only [Variant.c, bind, Except.bind, pure, Except.pure, true_and]
  have hsz0 : ¬ s.size op < 0 := fun e => by have := (h.size_neg_iff ho).mp e; omega
  rw [if_neg hsz0]
  by_cases hz : s.size op = 0
  · rw [if_pos hz]
    have hv0 : s.value op = 0 := (h.size_eq_zero_iff ho).mp hz
    obtain ⟨i1, u1, v1⟩ := setSize_zero_spec h hr
    have hm1 : rem < (s.setSize root 0).nv := by rw [u1.nv]; exact hm
    obtain ⟨i2, u2, v2⟩ := setSize_zero_spec i1 hm1
    refine ⟨_, rfl, i2, by rw [u2.nv, u1.nv], ?_, ?_, fun i hi hir him => ?_⟩
    · rw [u2.value_o i1 hm1 (by rw [u1.nv]; exact hr) hrm, v1, hv0]; simp
    · rw [v2, hv0]; simp
    · rw [u2.value_o i1 hm1 (by rw [u1.nv]; exact hi) him, u1.value_o h hr hi hir]
  · rw [if_neg hz]
    set n := (s.size op).natAbs with hn
    have hn1 : 1 ≤ n := by omega
    have hvN : s.value op = (s.mag op : Int) := by rw [value_eq_sgnv]; unfold sgnv; rw [if_neg hsz0]
    have htoNat : (s.value op).toNat = s.mag op := by rw [hvN]; simp
    rw [htoNat, hvN]
    -- MPZ_REALLOC (rem, n)
    obtain ⟨i1, nv1, size1, val1, a1, ag1⟩ := realloc_spec h hm n
    set s1 := s.mpzRealloc rem n with hs1
    have hr1 : root < s1.nv := by rw [nv1]; exact hr
    have hm1 : rem < s1.nv := by rw [nv1]; exact hm
    have ho1 : op < s1.nv := by rw [nv1]; exact ho
    -- the block of root
    generalize hgrow : decide (s1.alloc root < (n + 1) / 2) = grow
    have hS2 : ∃ s2, (if grow = true then s1.freshBlock root ((n + 1) / 2) else s1) = s2 ∧ Inv s2 ∧ s2.nv = s.nv ∧
        (∀ i, s2.size i = s.size i) ∧ (∀ i, i < s.nv → i ≠ root → s2.value i = s.value i) ∧
        (n + 1) / 2 ≤ s2.alloc root ∧ n ≤ s2.alloc rem ∧
        (grow = true → root ≠ op ∧ ∀ i, i < s.nv → i ≠ root → s2.ptr root ≠ s2.ptr i) ∧
        (grow = false → s2 = s1) ∧ (∀ i, i < s.nv → s2.mag i = s.mag i ∨ (i = root ∧ grow = true)) ∧
        s2.ptr op = s1.ptr op ∧ s2.mag op = s.mag op := by
      cases grow
      · have hge : ¬ s1.alloc root < (n + 1) / 2 := by simpa using hgrow
        exact ⟨s1, by simp, i1, nv1, size1, fun i hi _ => val1 i hi, by omega, a1, (fun e => by cases e), (fun _ => rfl),
          (fun i hi => Or.inl (by rw [← value_natAbs, ← value_natAbs, val1 i hi])), rfl,
          by rw [← value_natAbs, ← value_natAbs, val1 op ho]⟩
      · have hlt : s1.alloc root < (n + 1) / 2 := by simpa using hgrow
        obtain ⟨i2, nv2, size2, val2, aV, aO, pV, pO, nx, _⟩ := freshBlock_spec i1 hr1 ((n + 1) / 2) hlt
        refine ⟨s1.freshBlock root ((n + 1) / 2), by simp, i2, by rw [nv2, nv1], fun i => by rw [size2, size1],
          fun i hi hir => by rw [val2 i (by rw [nv1]; exact hi) hir, val1 i hi], by rw [aV],
          by rw [aO rem (Ne.symm hrm)]; exact a1, (fun _ => ⟨?_, fun i hi hir => ?_⟩), (fun e => by cases e), (fun i hi => ?_), ?_, ?_⟩
        · intro e
          have hf := i1.fits op ho1
          rw [size1, ← hn, ← e] at hf
          omega
        · rw [pV, pO i hir]; exact Nat.ne_of_gt (i1.lt i (by rw [nv1]; exact hi))
        · by_cases hir : i = root
          · exact Or.inr ⟨hir, rfl⟩
          · left; rw [← value_natAbs, ← value_natAbs, val2 i (by rw [nv1]; exact hi) hir, val1 i hi]
        · have hne : op ≠ root := fun e => by
            have hf := i1.fits op ho1
            rw [size1, ← hn, e] at hf
            omega
          exact pO op hne
        · have hne : op ≠ root := fun e => by
            have hf := i1.fits op ho1
            rw [size1, ← hn, e] at hf
            omega
          rw [← value_natAbs, ← value_natAbs, val2 op ho1 hne, val1 op ho]
    obtain ⟨s2, es2, i2, nv2, size2, val2, ar2, am2, hg2, hng2, mag2, hpo, hmagop⟩ := hS2
    rw [es2]
    have hr2 : root < s2.nv := by rw [nv2]; exact hr
    have hm2 : rem < s2.nv := by rw [nv2]; exact hm
    have ho2 : op < s2.nv := by rw [nv2]; exact ho
    have hroot_ptr : (if grow = true then s2.ptr root else s1.ptr root) = s2.ptr root := by
      cases grow
      · simp only [Bool.false_eq_true, if_false]; rw [hng2 rfl]
      · rfl
    rw [hroot_ptr]
    have hop_ptr : s1.ptr op = s2.ptr op ∨ (grow = true) := by
      cases grow
      · left; rw [hng2 rfl]
      · right; rfl
    -- the copy of op
    rw [← hpo]
    generalize hcc : decide ((!grow) = true ∧ s2.ptr root = s2.ptr op) = c
    have hl := i2.load_var ho2; rw [size2, ← hn] at hl
    obtain ⟨q, s3, e3, i3, x3, l3, t3, f3⟩ := copyIf_spec i2 c hl
    rw [e3]; simp only []
    have hr3 : root < s3.nv := by rw [x3.nv]; exact hr2
    have hm3 : rem < s3.nv := by rw [x3.nv]; exact hm2
    obtain ⟨bs, hbs, hbsl, hbsL⟩ := i3.live root hr3
    obtain ⟨br, hbr, hbrl, hbrL⟩ := i3.live rem hm3
    have hsp : s3.ptr root = s2.ptr root := x3.ptr root
    rw [hsp] at hbs
    have hspq : s2.ptr root ≠ q := by
      cases c
      · rw [(f3 rfl).1]
        have h' : ¬ ((!grow) = true ∧ s2.ptr root = s2.ptr op) := by simpa using of_decide_eq_false hcc
        cases hg : grow
        · rw [hg] at h'; exact fun e => h' ⟨rfl, e⟩
        · exact (hg2 hg).2 op ho (Ne.symm (hg2 hg).1)
      · rw [(t3 rfl).1]; exact Nat.ne_of_lt (i2.lt root hr2)
    have hspr : s2.ptr root ≠ s3.ptr rem := by
      rw [← hsp]; exact fun e => hrm (i3.inj root rem hr3 hm3 e)
    have hsop : s2.size op ≠ 0 := by rw [size2]; exact hz
    have htop := i2.top_ne_zero ho2 hsop; rw [size2, ← hn] at htop
    have hN1 := i2.mag_ge ho2 hsop; rw [size2, ← hn] at hN1
    have hN2 := i2.mag_lt ho2; rw [size2, ← hn] at hN2
    set N := s2.mag op with hNdef
    have hvalN : val (s2.limbs op) = N := rfl
    set Rt := Nat.sqrt N with hRt
    have hsq : Rt * Rt ≤ N := Nat.sqrt_le N
    set Rm := N - Rt * Rt with hRm
    have hRtsz : sizeNat Rt = (n + 1) / 2 := sqrt_size hN1 hN2 hn1
    have hRmsz : sizeNat Rm ≤ n := (DivZ.sizeNat_le_iff _ _).mpr (by omega)
    have hmpn : mpn_sqrtrem (s2.ptr root) (s3.ptr rem) q n s3 =
        .ok (sizeNat Rm, (s3.setBlk (s2.ptr root) (some (toLimbs ((n + 1) / 2) Rt ++ bs.drop ((n + 1) / 2)))).setBlk (s3.ptr rem)
          (some (toLimbs (sizeNat Rm) Rm ++ br.drop (sizeNat Rm)))) :=
      mpn_sqrtrem_ok l3 hbs hbr hspq hspr hn1 htop (by rw [hbsl, x3.alloc]; exact ar2)
        (by rw [hbrl, x3.alloc]; exact Nat.le_trans hRmsz am2)
    rw [hmpn]; simp only []
    rw [← hsp, put_put_eq s3 hrm]
    have p1 := put_upd i3 hr3 (toLimbs ((n + 1) / 2) Rt ++ bs.drop ((n + 1) / 2)) Rt false
      (by rw [length_wr' (by rw [hbsl, x3.alloc]; exact ar2)]; exact hbsl) (Limbs_wr' (Limbs_toLimbs _ _) hbsL)
      (by rw [hRtsz, x3.alloc]; exact ar2) (val_take_wr _ (by rw [hRtsz]))
    simp only [Bool.false_eq_true, if_false, hRtsz] at p1
    set s4 := s3.put root (toLimbs ((n + 1) / 2) Rt ++ bs.drop ((n + 1) / 2)) (((n + 1) / 2 : Nat) : Int) with hs4
    have hm4 : rem < s4.nv := by rw [p1.2.1.nv]; exact hm3
    have p2 := put_upd p1.1 hm4 (toLimbs (sizeNat Rm) Rm ++ br.drop (sizeNat Rm)) Rm false
      (by rw [length_wr' (by rw [hbrl, x3.alloc]; exact Nat.le_trans hRmsz am2), p1.2.1.alloc]; exact hbrl)
      (Limbs_wr' (Limbs_toLimbs _ _) hbrL)
      (by rw [p1.2.1.alloc, x3.alloc]; exact Nat.le_trans hRmsz am2) (val_take_wr _ (Nat.le_refl _))
    simp only [Bool.false_eq_true, if_false] at p2
    set s5 := s4.put rem (toLimbs (sizeNat Rm) Rm ++ br.drop (sizeNat Rm)) ((sizeNat Rm : Nat) : Int) with hs5
    have nv5 : s5.nv = s.nv := by rw [p2.2.1.nv, p1.2.1.nv, x3.nv, nv2]
    have hvr : s5.value root = (Rt : Int) := by
      rw [p2.2.1.value_o p1.1 hm4 (by rw [p1.2.1.nv]; exact hr3) hrm, p1.2.2]
    have hvm : s5.value rem = (N : Int) - (Rt : Int) * (Rt : Int) := by
      rw [p2.2.2, hRm]; push_cast [hsq]; ring
    have hvo : ∀ i, i < s.nv → i ≠ root → i ≠ rem → s5.value i = s.value i := fun i hi hir him => by
      rw [p2.2.1.value_o p1.1 hm4 (by rw [p1.2.1.nv, x3.nv, nv2]; exact hi) him,
        p1.2.1.value_o i3 hr3 (by rw [x3.nv, nv2]; exact hi) hir, x3.value i2 (by rw [nv2]; exact hi), val2 i hi hir]
    rw [← hmagop]
    cases c
    · simp only [Bool.false_eq_true, if_false]
      exact ⟨_, rfl, p2.1, nv5, hvr, hvm, hvo⟩
    · simp only [if_true]
      obtain ⟨i6, n6, _, v6⟩ := free_inv p2.1 q (fun i hi => by
        rw [nv5] at hi
        rw [p2.2.1.ptr, p1.2.1.ptr, x3.ptr, (t3 rfl).1]
        exact Nat.ne_of_lt (i2.lt i (by rw [nv2]; exact hi)))
      exact ⟨_, rfl, i6, by rw [n6, nv5], by rw [v6 root (by rw [nv5]; exact hr), hvr],
        by rw [v6 rem (by rw [nv5]; exact hm), hvm], fun i hi hir him => by rw [v6 i (by rw [nv5]; exact hi), hvo i hi hir him]⟩

end Mpir.AliasMem
