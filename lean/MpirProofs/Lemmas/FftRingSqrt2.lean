/- FFT ring layer: the √2 twiddles — mpir_fft_adjust_sqrt2 and the sqrt2 butterflies.
   √2 ≡ 2^(wn/4)·(2^(wn/2) − 1) modulo p = 2^wn + 1 (wn = 64·n). -/
import MpirProofs.Lemmas.FftRingBfly
namespace Mpir.Fft
open Mpir

/-- |rval| < 2·B^n: top limb in {−2,…,1} (what the limb rotation and the small shifts leave) -/
def Near (x : List Nat) : Prop :=
  -(2 * (B : Int) ^ (x.length - 1)) < rval x ∧ rval x < 2 * (B : Int) ^ (x.length - 1)

theorem near_snoc (xs : List Nat) (t : Nat) :
    Near (xs ++ [t]) ↔ -(2 * (B : Int) ^ xs.length) < rval (xs ++ [t]) ∧ rval (xs ++ [t]) < 2 * (B : Int) ^ xs.length := by
  unfold Near; simp

theorem near_top (xs : List Nat) (t : Nat) (hx : Limbs (xs ++ [t])) (h : Near (xs ++ [t])) :
    -2 ≤ sint t ∧ sint t ≤ 1 := by
  rw [near_snoc] at h
  exact top_bounds xs t hx (-2) 1 (by linarith [h.1]) (by linarith [h.2])

theorem near_topSmall (xs : List Nat) (t : Nat) (hx : Limbs (xs ++ [t])) (h : Near (xs ++ [t])) :
    TopSmall (xs ++ [t]) := by
  have := near_top xs t hx h
  unfold TopSmall; simp only [top_snoc]; omega

theorem near_rot (P X V W S : Int) (hX : X * (B : Int) ≤ P) (hX0 : 0 < X) (hV0 : 0 ≤ V) (hV1 : V < P)
    (hW0 : 0 ≤ W) (hW1 : W < X) (hS1 : X * (-4611686018427387904) ≤ S) (hS2 : S ≤ X * 4611686018427387904) :
    -(2 * P) < V - W - S ∧ V - W - S < 2 * P := by
  rw [BZ_eq] at hX; constructor <;> linarith

/-- the limb rotation of a residue with a small top limb stays near -/
theorem mulBx_near (L H : List Nat) (h : Nat) (hx : Limbs (L ++ H ++ [h])) (hL : 1 ≤ L.length)
    (ht : TopSmall (L ++ H ++ [h])) :
    ∃ ys g, mulBx (L ++ H ++ [h]) H.length = ys ++ [g] ∧ ys.length = L.length + H.length ∧ Limbs (ys ++ [g]) ∧
      rval (ys ++ [g]) ≡ rval (L ++ H ++ [h]) * (B : Int) ^ H.length [ZMOD pmod (L.length + H.length)] ∧
      Near (ys ++ [g]) := by
  unfold TopSmall at ht; simp only [top_snoc] at ht
  have hmin : h ≠ B / 2 := ne_half h (by omega)
  obtain ⟨ys, g, e, l, L', c, v⟩ := mulBx_spec L H h hx hL hmin
  refine ⟨ys, g, e, l, L', c, ?_⟩
  rw [near_snoc, l, v]
  have ⟨hLH, _⟩ := Limbs_snoc.mp hx
  have ⟨hLl, hHl⟩ := Limbs_append.mp hLH
  have hL0 : (0 : Int) ≤ val L := by positivity
  have hL1 := valZ_lt L hLl
  have hH0 : (0 : Int) ≤ val H := by positivity
  have hH1 := valZ_lt H hHl
  have hX := BZpow_pos H.length
  have hPX : (B : Int) ^ (L.length + H.length) = (B : Int) ^ H.length * (B : Int) ^ L.length := by
    rw [← pow_add]; congr 1; omega
  have hBL := B_le_pow L.length hL
  have a1 : (B : Int) ^ H.length * val L < (B : Int) ^ H.length * (B : Int) ^ L.length := mul_lt_mul_of_pos_left hL1 hX
  have a2 : (0 : Int) ≤ (B : Int) ^ H.length * val L := mul_nonneg (le_of_lt hX) hL0
  have a3 : (B : Int) ^ H.length * (B : Int) ≤ (B : Int) ^ H.length * (B : Int) ^ L.length :=
    mul_le_mul_of_nonneg_left hBL (le_of_lt hX)
  have a4 : (B : Int) ^ H.length * (-4611686018427387904) ≤ (B : Int) ^ H.length * sint h :=
    mul_le_mul_of_nonneg_left (by omega) (le_of_lt hX)
  have a5 : (B : Int) ^ H.length * sint h ≤ (B : Int) ^ H.length * 4611686018427387904 :=
    mul_le_mul_of_nonneg_left (by omega) (le_of_lt hX)
  rw [hPX]
  exact near_rot _ _ _ _ _ a3 hX a2 a1 hH0 hH1 a4 a5

/-- a shift by d < 64 bits of a residue whose top limb is below 2^61 in absolute value has a small top limb -/
theorem mul_2expmod_small (xs : List Nat) (h d : Nat) (hx : Limbs (xs ++ [h])) (hn : 1 ≤ xs.length) (hd : d < 64)
    (ht : -2305843009213693952 ≤ sint h ∧ sint h < 2305843009213693952) :
    ∃ ys g, mul_2expmod (xs ++ [h]) d = ys ++ [g] ∧ ys.length = xs.length ∧ Limbs (ys ++ [g]) ∧
      rval (ys ++ [g]) ≡ rval (xs ++ [h]) * 2 ^ d [ZMOD pmod xs.length] ∧
      (-2305843009213693952 ≤ sint g ∧ sint g < 2305843009213693952) := by
  by_cases hd0 : d = 0
  · subst hd0
    exact ⟨xs, h, by simp [mul_2expmod], rfl, hx, by simp, ht⟩
  · obtain ⟨ys, g, e, l, L, c, b1, b2⟩ := mul_2expmod_spec xs h d hx hn (by omega) (by omega)
    refine ⟨ys, g, e, l, L, c, ?_⟩
    have hpos : (0 : Int) < 2 ^ (64 - d) := by positivity
    have h2d : (2 : Int) ≤ 2 ^ (64 - d) := by
      calc (2 : Int) = 2 ^ 1 := by norm_num
        _ ≤ 2 ^ (64 - d) := pow_le_pow_right₀ (by norm_num) (by omega)
    have q1 : -1152921504606846976 ≤ sint h / 2 ^ (64 - d) := by
      apply Int.le_ediv_of_mul_le hpos; nlinarith
    have q2 : sint h / 2 ^ (64 - d) < 1152921504606846976 := by
      apply Int.ediv_lt_of_lt_mul hpos; nlinarith
    have hP := B_le_pow xs.length hn
    rw [← l] at b2 hP
    generalize sint h / 2 ^ (64 - d) = q at *
    have tb := top_bounds ys g L (-1152921504606846978) 1152921504606846977
      (by generalize (B : Int) ^ ys.length = P at *; rw [BZ_eq] at *; nlinarith)
      (by generalize (B : Int) ^ ys.length = P at *; rw [BZ_eq] at *; nlinarith)
    omega

/-- shifts keep near residues near -/
theorem mul_2expmod_near (xs : List Nat) (h d : Nat) (hx : Limbs (xs ++ [h])) (hn : 1 ≤ xs.length) (hd : d < 64)
    (hnear : Near (xs ++ [h])) :
    ∃ ys g, mul_2expmod (xs ++ [h]) d = ys ++ [g] ∧ ys.length = xs.length ∧ Limbs (ys ++ [g]) ∧
      rval (ys ++ [g]) ≡ rval (xs ++ [h]) * 2 ^ d [ZMOD pmod xs.length] ∧ Near (ys ++ [g]) := by
  by_cases hd0 : d = 0
  · subst hd0
    exact ⟨xs, h, by simp [mul_2expmod], rfl, hx, by simp, hnear⟩
  · obtain ⟨ys, g, e, l, L, c, b1, b2⟩ := mul_2expmod_spec xs h d hx hn (by omega) (by omega)
    refine ⟨ys, g, e, l, L, c, ?_⟩
    have tb := near_top xs h hx hnear
    have hpos : (0 : Int) < 2 ^ (64 - d) := by positivity
    have h2d : (2 : Int) ≤ 2 ^ (64 - d) := by
      calc (2 : Int) = 2 ^ 1 := by norm_num
        _ ≤ 2 ^ (64 - d) := pow_le_pow_right₀ (by norm_num) (by omega)
    have q1 : -1 ≤ sint h / 2 ^ (64 - d) := by
      apply Int.le_ediv_of_mul_le hpos; nlinarith
    have q2 : sint h / 2 ^ (64 - d) < 1 := by
      apply Int.ediv_lt_of_lt_mul hpos; nlinarith
    have hP := B_le_pow xs.length hn
    rw [near_snoc, l]
    generalize sint h / 2 ^ (64 - d) = q at *
    generalize (B : Int) ^ xs.length = P at *
    have hB0 := BZ_pos
    constructor <;> nlinarith

/-- mpn_sub_n over whole residues with small top limbs is the exact difference -/
theorem sub_full (A C : List Nat) (h1 h2 : Nat) (hA : Limbs (A ++ [h1])) (hC : Limbs (C ++ [h2]))
    (hl : A.length = C.length) (t1 : TopSmall (A ++ [h1])) (t2 : TopSmall (C ++ [h2])) :
    ∃ us ug, (sub_n (A ++ [h1]) (C ++ [h2])).1 = us ++ [ug] ∧ us.length = A.length ∧ Limbs (us ++ [ug]) ∧
      rval (us ++ [ug]) = rval (A ++ [h1]) - rval (C ++ [h2]) := by
  obtain ⟨_, _, us, ug, _, e2, _, l2, _, ld, _, r2⟩ := sumdiff_full A C h1 h2 hA hC hl t1 t2
  exact ⟨us, ug, e2, l2, ld, r2⟩

theorem half_pow (n : Nat) : (B : Int) ^ (n / 2) * (if n % 2 = 1 then 2 ^ 32 else 1) = 2 ^ (32 * n) := by
  rw [B_pow_two]
  split
  · rw [← pow_add]; congr 1; omega
  · rw [mul_one]; congr 1; omega

/-- the common tail of the √2 twiddles: ±(r·2^(wn/2) − r) -/
theorem sqrt2Tail_spec (xs : List Nat) (h : Nat) (negate : Bool) (hx : Limbs (xs ++ [h])) (hn : 1 ≤ xs.length)
    (ht : TopSmall (xs ++ [h])) :
    ∃ (ys : List Nat) (g : Nat) (T : Int), sqrt2Tail (xs ++ [h]) negate = ys ++ [g] ∧ ys.length = xs.length ∧ Limbs (ys ++ [g]) ∧
      rval (ys ++ [g]) = (if negate then rval (xs ++ [h]) - T else T - rval (xs ++ [h])) ∧
      T ≡ rval (xs ++ [h]) * 2 ^ (32 * xs.length) [ZMOD pmod xs.length] ∧
      -(2 * (B : Int) ^ xs.length) < T ∧ T < 2 * (B : Int) ^ xs.length := by
  obtain ⟨L, H, eLH, lL, lH⟩ := split_at xs (xs.length / 2) (by omega)
  subst eLH
  have hlen : (L ++ H ++ [h]).length - 1 = (L ++ H).length := by simp
  obtain ⟨ms, mg, m1, m2, m3, m4, m5⟩ := mulBx_near L H h hx (by rw [lL]; omega) ht
  rw [lH] at m1
  have hml : ms.length = (L ++ H).length := by rw [m2]; simp
  rw [show L.length + H.length = (L ++ H).length by simp] at m4
  -- the optional half-limb shift
  have hstep : ∃ ts tg, (if (L ++ H).length % 2 = 1 then mul_2expmod (ms ++ [mg]) 32 else ms ++ [mg]) = ts ++ [tg] ∧
      ts.length = (L ++ H).length ∧ Limbs (ts ++ [tg]) ∧ Near (ts ++ [tg]) ∧
      rval (ts ++ [tg]) ≡ rval (L ++ H ++ [h]) * 2 ^ (32 * (L ++ H).length) [ZMOD pmod (L ++ H).length] := by
    have hp := half_pow (L ++ H).length
    by_cases hodd : (L ++ H).length % 2 = 1
    · simp only [hodd, ↓reduceIte] at hp ⊢
      obtain ⟨ts, tg, e, l, Lt, c, nr⟩ := mul_2expmod_near ms mg 32 m3 (by omega) (by norm_num) m5
      refine ⟨ts, tg, e, by rw [l, hml], Lt, nr, ?_⟩
      rw [hml] at c
      refine c.trans ?_
      rw [← hp, ← lH, ← mul_assoc]
      exact m4.mul_right _
    · simp only [hodd, ↓reduceIte] at hp ⊢
      refine ⟨ms, mg, rfl, hml, m3, m5, ?_⟩
      rw [← hp, mul_one, ← lH]; exact m4
  obtain ⟨ts, tg, e, tl, tL, tnear, tc⟩ := hstep
  have tsm := near_topSmall ts tg tL tnear
  rw [near_snoc, tl] at tnear
  unfold sqrt2Tail
  simp only [hlen, m1, e]
  cases negate
  · obtain ⟨us, ug, e2, l2, L2, r2⟩ := sub_full ts (L ++ H) tg h tL hx tl tsm ht
    exact ⟨us, ug, rval (ts ++ [tg]), by simpa using e2, by rw [l2, tl], L2, by simpa using r2, tc, tnear.1, tnear.2⟩
  · obtain ⟨us, ug, e2, l2, L2, r2⟩ := sub_full (L ++ H) ts h tg hx tL tl.symm ht tsm
    exact ⟨us, ug, rval (ts ++ [tg]), by simpa using e2, l2, L2, by simpa using r2, tc, tnear.1, tnear.2⟩

/-- top limb below 2^61 in absolute value -/
def Top61 (x : List Nat) : Prop :=
  -2305843009213693952 ≤ sint (top x) ∧ sint (top x) < 2305843009213693952

theorem near_top61 (xs : List Nat) (t : Nat) (hx : Limbs (xs ++ [t])) (h : Near (xs ++ [t])) : Top61 (xs ++ [t]) := by
  have := near_top xs t hx h
  unfold Top61; simp only [top_snoc]; omega

theorem Top61.small {x : List Nat} (h : Top61 x) : TopSmall x := by
  unfold Top61 at h; unfold TopSmall; omega

/-- multiplication by 2^e, e < 64·n: limb rotation by e/64 limbs, then a shift by e%64 bits
    (adjust_sqrt2.c:51-64, the same code as adjust.c:37-51) -/
theorem mulpow_spec (xs : List Nat) (h e : Nat) (hx : Limbs (xs ++ [h])) (he : e < 64 * xs.length)
    (ht : Top61 (xs ++ [h])) :
    ∃ ys g, (if e / 64 ≠ 0 then mul_2expmod (mulBx (xs ++ [h]) (e / 64)) (e % 64) else mul_2expmod (xs ++ [h]) (e % 64))
        = ys ++ [g] ∧ ys.length = xs.length ∧ Limbs (ys ++ [g]) ∧
      rval (ys ++ [g]) ≡ rval (xs ++ [h]) * 2 ^ e [ZMOD pmod xs.length] ∧ Top61 (ys ++ [g]) := by
  have hn : 1 ≤ xs.length := by omega
  have hd : e % 64 < 64 := Nat.mod_lt _ (by norm_num)
  have hdm := Nat.div_add_mod e 64
  by_cases hX : e / 64 = 0
  · simp only [hX, ne_eq, not_true_eq_false, ↓reduceIte]
    have : e = e % 64 := by omega
    unfold Top61 at ht; simp only [top_snoc] at ht
    obtain ⟨ys, g, h1, h2, h3, h4, h5⟩ := mul_2expmod_small xs h (e % 64) hx hn hd ht
    exact ⟨ys, g, h1, h2, h3, by rw [← this] at h4; exact h4, by unfold Top61; simpa using h5⟩
  · simp only [hX, ne_eq, not_false_eq_true, ↓reduceIte]
    obtain ⟨L, H, eLH, lL, lH⟩ := split_at xs (e / 64) (by omega)
    subst eLH
    obtain ⟨ms, mg, m1, m2, m3, m4, m5⟩ := mulBx_near L H h hx (by rw [lL]; omega) ht.small
    rw [lH] at m1
    rw [m1]
    have hml : ms.length = (L ++ H).length := by rw [m2]; simp
    rw [show L.length + H.length = (L ++ H).length by simp] at m4
    obtain ⟨ys, g, h1, h2, h3, h4, h5⟩ := mul_2expmod_near ms mg (e % 64) m3 (by omega) hd m5
    refine ⟨ys, g, h1, by rw [h2, hml], h3, ?_, near_top61 ys g h3 h5⟩
    rw [hml] at h4
    refine h4.trans ?_
    have e2 : (2 : Int) ^ e = (B : Int) ^ (e / 64) * 2 ^ (e % 64) := by
      rw [B_pow_two, ← pow_add]; congr 1; omega
    rw [e2, ← mul_assoc, ← lH]
    exact m4.mul_right _

/-- p − … : 2^(64·n) ≡ −1 -/
theorem pow_wn (n : Nat) : (2 : Int) ^ (64 * n) ≡ -1 [ZMOD pmod n] := by
  rw [modEq_pmod_iff, ← B_pow_two]; exact ⟨1, by ring⟩

/-- mpir_fft_adjust_sqrt2: multiplication by 2^(i/2 + wn/4 + i·(w/2))·(2^(wn/2) − 1), wn = 64·n -/
theorem adjust_sqrt2_spec (xs : List Nat) (h i w : Nat) (hx : Limbs (xs ++ [h]))
    (hb : i / 2 + xs.length * 64 / 4 + i * (w / 2) < 2 * (xs.length * 64)) (hn : 1 ≤ xs.length)
    (ht : Top61 (xs ++ [h])) :
    ∃ ys g, adjust_sqrt2 (xs ++ [h]) i w = ys ++ [g] ∧ ys.length = xs.length ∧ Limbs (ys ++ [g]) ∧
      rval (ys ++ [g]) ≡ rval (xs ++ [h]) * (2 ^ (i / 2 + xs.length * 64 / 4 + i * (w / 2)) * (2 ^ (32 * xs.length) - 1))
        [ZMOD pmod xs.length] := by
  have hlen : (xs ++ [h]).length - 1 = xs.length := by simp
  unfold adjust_sqrt2
  simp only [hlen]
  generalize hb1 : i / 2 + xs.length * 64 / 4 + i * (w / 2) = b1 at *
  by_cases hneg : b1 ≥ xs.length * 64
  · simp only [hneg, ↓reduceIte, decide_true]
    obtain ⟨rs, rg, e, l, L, c, tsm⟩ := mulpow_spec xs h (b1 - xs.length * 64) hx (by omega) ht
    rw [e]
    obtain ⟨ys, g, T, e2, l2, L2, r2, tc, _, _⟩ := sqrt2Tail_spec rs rg true L (by omega) tsm.small
    refine ⟨ys, g, e2, by rw [l2, l], L2, ?_⟩
    simp only [↓reduceIte] at r2
    rw [l] at tc
    rw [r2]
    have hpow : (2 : Int) ^ b1 = 2 ^ (b1 - xs.length * 64) * 2 ^ (64 * xs.length) := by
      rw [← pow_add]; congr 1; omega
    have s1 : rval (rs ++ [rg]) - T ≡ rval (xs ++ [h]) * 2 ^ (b1 - xs.length * 64) -
        rval (xs ++ [h]) * 2 ^ (b1 - xs.length * 64) * 2 ^ (32 * xs.length) [ZMOD pmod xs.length] :=
      c.sub (tc.trans (c.mul_right _))
    refine s1.trans ?_
    rw [hpow]
    have := (pow_wn xs.length).mul_left (rval (xs ++ [h]) * 2 ^ (b1 - xs.length * 64) * (2 ^ (32 * xs.length) - 1))
    refine Int.ModEq.trans ?_ (Int.ModEq.trans this.symm ?_)
    · ring_nf; exact Int.ModEq.refl _
    · ring_nf; exact Int.ModEq.refl _
  · simp only [hneg, ↓reduceIte, decide_false]
    obtain ⟨rs, rg, e, l, L, c, tsm⟩ := mulpow_spec xs h b1 hx (by omega) ht
    rw [e]
    obtain ⟨ys, g, T, e2, l2, L2, r2, tc, _, _⟩ := sqrt2Tail_spec rs rg false L (by omega) tsm.small
    refine ⟨ys, g, e2, by rw [l2, l], L2, ?_⟩
    simp only [Bool.false_eq_true, ↓reduceIte] at r2
    rw [l] at tc
    rw [r2]
    have s1 : T - rval (rs ++ [rg]) ≡ rval (xs ++ [h]) * 2 ^ b1 * 2 ^ (32 * xs.length) -
        rval (xs ++ [h]) * 2 ^ b1 [ZMOD pmod xs.length] :=
      (tc.trans (c.mul_right _)).sub c
    refine s1.trans ?_
    ring_nf; exact Int.ModEq.refl _

/-! ### the sqrt2 butterflies -/

/-- top limb below 2^59 in absolute value: the hypothesis of the sqrt2 butterflies (a difference of two such
    residues still has a top limb below 2^61, which a following shift brings back to a few units) -/
def TopTiny (x : List Nat) : Prop :=
  -576460752303423488 ≤ sint (top x) ∧ sint (top x) < 576460752303423488

theorem TopTiny.small {x : List Nat} (h : TopTiny x) : TopSmall x := by
  unfold TopTiny at h; unfold TopSmall; omega

theorem topTiny_rval (xs : List Nat) (h : Nat) (hx : Limbs (xs ++ [h])) (ht : TopTiny (xs ++ [h])) :
    -(576460752303423488 * (B : Int) ^ xs.length) ≤ rval (xs ++ [h]) ∧
    rval (xs ++ [h]) < 576460752303423488 * (B : Int) ^ xs.length := by
  have ⟨hxs, _⟩ := Limbs_snoc.mp hx
  have hv0 : (0 : Int) ≤ val xs := by positivity
  have hv1 := valZ_lt xs hxs
  unfold TopTiny at ht; simp only [top_snoc] at ht
  have hP := BZpow_pos xs.length
  rw [rval_snoc]
  constructor <;> nlinarith

theorem near_rot2 (P X V W S : Int) (hX : X * (B : Int) ≤ P) (hX0 : 0 < X) (hV0 : -P < V) (hV1 : V < P)
    (hW0 : -X < W) (hW1 : W < X) (hS1 : X * (-1152921504606846976) ≤ S) (hS2 : S ≤ X * 1152921504606846976) :
    -(2 * P) < V - W - S ∧ V - W - S < 2 * P := by
  rw [BZ_eq] at hX; constructor <;> linarith

/-- butterfly_lshB with x = 0 on residues with tiny top limbs: as `lshB_x0_spec`, and the second output's
    top limb is below 2^61 -/
theorem lshB_x0_spec2 (A C : List Nat) (h1 h2 y : Nat) (hA : Limbs (A ++ [h1])) (hC : Limbs (C ++ [h2]))
    (hl : A.length = C.length) (hy : y < A.length)
    (t1 : TopTiny (A ++ [h1])) (t2 : TopTiny (C ++ [h2])) :
    ∃ ts tg us ug, butterfly_lshB (A ++ [h1]) (C ++ [h2]) 0 y = (ts ++ [tg], us ++ [ug]) ∧
      ts.length = A.length ∧ us.length = A.length ∧ Limbs (ts ++ [tg]) ∧ Limbs (us ++ [ug]) ∧
      rval (ts ++ [tg]) ≡ rval (A ++ [h1]) + rval (C ++ [h2]) [ZMOD pmod A.length] ∧
      rval (us ++ [ug]) ≡ (rval (A ++ [h1]) - rval (C ++ [h2])) * (B : Int) ^ y [ZMOD pmod A.length] ∧
      Top61 (us ++ [ug]) := by
  by_cases hy0 : y = 0
  · subst hy0
    obtain ⟨ts, tg, us, ug, e1, e2, l1, l2, la, ld, r1, r2⟩ := sumdiff_full A C h1 h2 hA hC hl t1.small t2.small
    refine ⟨ts, tg, us, ug, by rw [lshB_00, e1, e2], l1, l2, la, ld, by rw [r1], by rw [r2]; simp, ?_⟩
    have b1 := topTiny_rval A h1 hA t1
    have b2 := topTiny_rval C h2 hC t2
    rw [← hl] at b2
    have hP := BZpow_pos A.length
    rw [← l2] at b1 b2 hP
    have tb := top_bounds us ug ld (-1152921504606846977) 1152921504606846976
      (by rw [r2]; linarith [b1.1, b2.2]) (by rw [r2]; linarith [b1.2, b2.1])
    unfold Top61; simp only [top_snoc]; omega
  · obtain ⟨A1, A2, eA, lA1, lA2⟩ := split_at A y (by omega)
    obtain ⟨C1, C2, eC, lC1, lC2⟩ := split_at C y (by omega)
    subst eA eC
    simp only [List.length_append] at hl hy lA1 lC1
    have hl1 : A1.length = C1.length := by omega
    have hl2 : A2.length = C2.length := by omega
    obtain ⟨ts, tg, us, ug, e, l1, l2, la, ld, r1, r2⟩ :=
      lshB_x0_y_spec A1 A2 C1 C2 h1 h2 hA hC hl1 hl2 (by omega) (by omega) t1.small t2.small
    rw [lA2] at e
    refine ⟨ts, tg, us, ug, e, by simp [l1], by simp [l2], la, ld, ?_, ?_, ?_⟩
    · rw [modEq_pmod_iff]; refine ⟨-(sint h1 + sint h2), ?_⟩
      rw [r1, rval_snoc, rval_snoc]; simp only [List.length_append, ← hl1, ← hl2]; ring
    · rw [modEq_pmod_iff]
      refine ⟨-(((val A2 : Int) - val C2) + (B : Int) ^ A2.length * (sint h1 - sint h2)), ?_⟩
      rw [r2, rval_snoc, rval_snoc, val_append, val_append]
      simp only [List.length_append, ← hl1, ← hl2, ← lA2]; push_cast
      rw [pow_add]; ring
    · apply near_top61 us ug ld
      rw [near_snoc, l2, r2]
      have ⟨hA12, _⟩ := Limbs_snoc.mp hA
      have ⟨hC12, _⟩ := Limbs_snoc.mp hC
      have ⟨hA1, hA2⟩ := Limbs_append.mp hA12
      have ⟨hC1, hC2⟩ := Limbs_append.mp hC12
      have hA1v := valZ_lt _ hA1
      have hC1v := valZ_lt _ hC1
      have hA2v := valZ_lt _ hA2
      have hC2v := valZ_lt _ hC2
      rw [← hl1] at hC1v; rw [← hl2] at hC2v
      have p0A : (0 : Int) ≤ val A1 := by positivity
      have p0C : (0 : Int) ≤ val C1 := by positivity
      have p0A2 : (0 : Int) ≤ val A2 := by positivity
      have p0C2 : (0 : Int) ≤ val C2 := by positivity
      have hX := BZpow_pos A2.length
      have hPX : (B : Int) ^ (A1.length + A2.length) = (B : Int) ^ A2.length * (B : Int) ^ A1.length := by
        rw [← pow_add]; congr 1; omega
      have hBL := B_le_pow A1.length (by omega)
      unfold TopTiny at t1 t2; simp only [top_snoc] at t1 t2
      rw [hPX]
      exact near_rot2 _ _ _ _ _ (mul_le_mul_of_nonneg_left hBL (le_of_lt hX)) hX
        (by rw [← mul_neg]; exact mul_lt_mul_of_pos_left (by linarith only [hC1v, p0A]) hX)
        (mul_lt_mul_of_pos_left (by linarith only [hA1v, p0C]) hX)
        (by linarith only [hC2v, p0A2]) (by linarith only [hA2v, p0C2])
        (mul_le_mul_of_nonneg_left (by linarith only [t1.1, t2.2]) (le_of_lt hX))
        (mul_le_mul_of_nonneg_left (by linarith only [t1.2, t2.1]) (le_of_lt hX))

theorem finish_pos (n b1 : Nat) (X r T : Int) (c : r ≡ X * 2 ^ b1 [ZMOD pmod n]) (tc : T ≡ r * 2 ^ (32 * n) [ZMOD pmod n]) :
    T - r ≡ X * (2 ^ b1 * (2 ^ (32 * n) - 1)) [ZMOD pmod n] := by
  have s1 : T - r ≡ X * 2 ^ b1 * 2 ^ (32 * n) - X * 2 ^ b1 [ZMOD pmod n] := (tc.trans (c.mul_right _)).sub c
  refine s1.trans ?_
  ring_nf; exact Int.ModEq.refl _

theorem finish_neg (n b1 : Nat) (X r T : Int) (hb : 64 * n ≤ b1) (c : r ≡ X * 2 ^ (b1 - 64 * n) [ZMOD pmod n])
    (tc : T ≡ r * 2 ^ (32 * n) [ZMOD pmod n]) :
    r - T ≡ X * (2 ^ b1 * (2 ^ (32 * n) - 1)) [ZMOD pmod n] := by
  have hpow : (2 : Int) ^ b1 = 2 ^ (b1 - 64 * n) * 2 ^ (64 * n) := by
    rw [← pow_add]; congr 1; omega
  have s1 : r - T ≡ X * 2 ^ (b1 - 64 * n) - X * 2 ^ (b1 - 64 * n) * 2 ^ (32 * n) [ZMOD pmod n] :=
    c.sub (tc.trans (c.mul_right _))
  refine s1.trans ?_
  rw [hpow]
  have := (pow_wn n).mul_left (X * 2 ^ (b1 - 64 * n) * (2 ^ (32 * n) - 1))
  refine Int.ModEq.trans ?_ (Int.ModEq.trans this.symm ?_)
  · ring_nf; exact Int.ModEq.refl _
  · ring_nf; exact Int.ModEq.refl _

/-- mpir_fft_butterfly_sqrt2: (s, t) = (a + b, (a − b)·2^(i/2 + wn/4 + i·(w/2))·(2^(wn/2) − 1)) -/
theorem fft_butterfly_sqrt2_spec (A C : List Nat) (h1 h2 i w : Nat) (hA : Limbs (A ++ [h1])) (hC : Limbs (C ++ [h2]))
    (hl : A.length = C.length) (hn : 1 ≤ A.length)
    (hb : i / 2 + A.length * 64 / 4 + i * (w / 2) < 2 * (A.length * 64))
    (t1 : TopTiny (A ++ [h1])) (t2 : TopTiny (C ++ [h2])) :
    ∃ ss sg ts tg, fft_butterfly_sqrt2 (A ++ [h1]) (C ++ [h2]) i w = (ss ++ [sg], ts ++ [tg]) ∧
      ss.length = A.length ∧ ts.length = A.length ∧ Limbs (ss ++ [sg]) ∧ Limbs (ts ++ [tg]) ∧
      rval (ss ++ [sg]) ≡ rval (A ++ [h1]) + rval (C ++ [h2]) [ZMOD pmod A.length] ∧
      rval (ts ++ [tg]) ≡ (rval (A ++ [h1]) - rval (C ++ [h2])) *
        (2 ^ (i / 2 + A.length * 64 / 4 + i * (w / 2)) * (2 ^ (32 * A.length) - 1)) [ZMOD pmod A.length] := by
  have hlen : (A ++ [h1]).length - 1 = A.length := by simp
  unfold fft_butterfly_sqrt2
  simp only [hlen]
  generalize hb1 : i / 2 + A.length * 64 / 4 + i * (w / 2) = b1 at *
  -- the reduced exponent
  obtain ⟨e, he, hcase⟩ : ∃ e, (if b1 ≥ A.length * 64 then b1 - A.length * 64 else b1) = e ∧
      ((b1 ≥ A.length * 64 ∧ e = b1 - 64 * A.length) ∨ (¬ b1 ≥ A.length * 64 ∧ e = b1)) := by
    by_cases hneg : b1 ≥ A.length * 64
    · exact ⟨_, rfl, Or.inl ⟨hneg, by simp [hneg]; omega⟩⟩
    · exact ⟨_, rfl, Or.inr ⟨hneg, by simp [hneg]⟩⟩
  rw [he]
  have he64 : e < 64 * A.length := by rcases hcase with ⟨_, h⟩ | ⟨_, h⟩ <;> omega
  have hd : e % 64 < 64 := Nat.mod_lt _ (by norm_num)
  obtain ⟨ss, sg, us, ug, eb, l1, l2, la, ld, r1, r2, t61⟩ :=
    lshB_x0_spec2 A C h1 h2 (e / 64) hA hC hl (by omega) t1 t2
  unfold Top61 at t61; simp only [top_snoc] at t61
  obtain ⟨rs, rg, m1, m2, m3, m4, m5⟩ := mul_2expmod_small us ug (e % 64) ld (by omega) hd t61
  have rsm : TopSmall (rs ++ [rg]) := by unfold TopSmall; simp only [top_snoc]; omega
  simp only [eb, m1]
  have hr : rval (rs ++ [rg]) ≡ (rval (A ++ [h1]) - rval (C ++ [h2])) * 2 ^ e [ZMOD pmod A.length] := by
    rw [l2] at m4
    refine m4.trans ?_
    have e2 : (2 : Int) ^ e = (B : Int) ^ (e / 64) * 2 ^ (e % 64) := by
      rw [B_pow_two, ← pow_add]; congr 1; omega
    rw [e2, ← mul_assoc]; exact r2.mul_right _
  rcases hcase with ⟨hneg, hee⟩ | ⟨hneg, hee⟩
  · simp only [hneg, decide_true]
    obtain ⟨ts, tg, T, e2, l3, L3, r3, tc, _, _⟩ := sqrt2Tail_spec rs rg true m3 (by omega) rsm
    simp only [↓reduceIte] at r3
    refine ⟨ss, sg, ts, tg, by rw [e2], l1, by rw [l3, m2, l2], la, L3, r1, ?_⟩
    rw [m2, l2] at tc
    rw [r3]; rw [hee] at hr
    exact finish_neg A.length b1 _ _ T (by omega) hr tc
  · simp only [hneg, decide_false]
    obtain ⟨ts, tg, T, e2, l3, L3, r3, tc, _, _⟩ := sqrt2Tail_spec rs rg false m3 (by omega) rsm
    simp only [Bool.false_eq_true, ↓reduceIte] at r3
    refine ⟨ss, sg, ts, tg, by rw [e2], l1, by rw [l3, m2, l2], la, L3, r1, ?_⟩
    rw [m2, l2] at tc
    rw [r3]; rw [hee] at hr
    exact finish_pos A.length b1 _ _ T hr tc

/-- undo a division by B^y given as a multiplied congruence: B^y·B^y2 = B^n ≡ −1 -/
theorem unshift (n y y2 : Nat) (hy : y + y2 = n) (t a q : Int)
    (h : t * (B : Int) ^ y ≡ a * (B : Int) ^ y + q [ZMOD pmod n]) :
    t ≡ a - q * (B : Int) ^ y2 [ZMOD pmod n] := by
  rw [modEq_pmod_iff] at h ⊢
  obtain ⟨k, hk⟩ := h
  refine ⟨t - a - k * (B : Int) ^ y2, ?_⟩
  have hP : (B : Int) ^ n = (B : Int) ^ y * (B : Int) ^ y2 := by rw [← pow_add, hy]
  rw [hP] at hk ⊢
  linear_combination (-(B : Int) ^ y2) * hk

theorem mul_2expmod_if (x : List Nat) (d : Nat) : (if d ≠ 0 then mul_2expmod x d else x) = mul_2expmod x d := by
  by_cases h : d = 0
  · subst h; simp [mul_2expmod]
  · simp [h]

/-- mpir_ifft_butterfly_sqrt2: (s, t) = (a − b·ω, a + b·ω) with
    ω = 2^(wn − i/2 − i·(w/2) − 1 + wn/4)·(2^(wn/2) − 1), the inverse of the forward twiddle -/
theorem ifft_butterfly_sqrt2_spec (A C : List Nat) (h1 h2 i w : Nat) (hA : Limbs (A ++ [h1])) (hC : Limbs (C ++ [h2]))
    (hl : A.length = C.length) (hn : 1 ≤ A.length)
    (hb : i / 2 + i * (w / 2) + 1 ≤ A.length * 64)
    (t1 : TopTiny (A ++ [h1])) (t2 : TopTiny (C ++ [h2])) :
    ∃ ss sg ts tg i2', ifft_butterfly_sqrt2 (A ++ [h1]) (C ++ [h2]) i w = (ss ++ [sg], ts ++ [tg], i2') ∧
      ss.length = A.length ∧ ts.length = A.length ∧ Limbs (ss ++ [sg]) ∧ Limbs (ts ++ [tg]) ∧
      rval (ss ++ [sg]) ≡ rval (A ++ [h1]) - rval (C ++ [h2]) *
        (2 ^ (A.length * 64 - i / 2 - i * (w / 2) - 1 + A.length * 64 / 4) * (2 ^ (32 * A.length) - 1))
        [ZMOD pmod A.length] ∧
      rval (ts ++ [tg]) ≡ rval (A ++ [h1]) + rval (C ++ [h2]) *
        (2 ^ (A.length * 64 - i / 2 - i * (w / 2) - 1 + A.length * 64 / 4) * (2 ^ (32 * A.length) - 1))
        [ZMOD pmod A.length] := by
  have hlen : (A ++ [h1]).length - 1 = A.length := by simp
  unfold ifft_butterfly_sqrt2
  simp only [hlen, mul_2expmod_if]
  generalize hb1 : A.length * 64 - i / 2 - i * (w / 2) - 1 + A.length * 64 / 4 = b1 at *
  have hb1lt : b1 < 2 * (A.length * 64) := by omega
  obtain ⟨e, he, hcase⟩ : ∃ e, (if b1 ≥ A.length * 64 then b1 - A.length * 64 else b1) = e ∧
      ((b1 ≥ A.length * 64 ∧ e = b1 - 64 * A.length) ∨ (¬ b1 ≥ A.length * 64 ∧ e = b1)) := by
    by_cases hneg : b1 ≥ A.length * 64
    · exact ⟨_, rfl, Or.inl ⟨hneg, by simp [hneg]; omega⟩⟩
    · exact ⟨_, rfl, Or.inr ⟨hneg, by simp [hneg]⟩⟩
  rw [he]
  have he64 : e < 64 * A.length := by rcases hcase with ⟨_, h⟩ | ⟨_, h⟩ <;> omega
  have hd : e % 64 < 64 := Nat.mod_lt _ (by norm_num)
  have hdm := Nat.div_add_mod e 64
  -- i2·2^d
  have t2' : -2305843009213693952 ≤ sint h2 ∧ sint h2 < 2305843009213693952 := by
    unfold TopTiny at t2; simp only [top_snoc] at t2; omega
  obtain ⟨rs, rg, m1, m2, m3, m4, m5⟩ := mul_2expmod_small C h2 (e % 64) hC (by omega) hd t2'
  have rsm : TopSmall (rs ++ [rg]) := by unfold TopSmall; simp only [top_snoc]; omega
  rw [m1]
  rw [← hl] at m4
  -- the common conclusion once the tail is analysed
  have fin : ∀ (qs : List Nat) (qg : Nat) (T : Int), qs.length = rs.length → Limbs (qs ++ [qg]) →
      (rval (qs ++ [qg]) = T - rval (rs ++ [rg]) ∨ rval (qs ++ [qg]) = rval (rs ++ [rg]) - T) →
      -(2 * (B : Int) ^ rs.length) < T → T < 2 * (B : Int) ^ rs.length →
      rval (qs ++ [qg]) * (B : Int) ^ (e / 64) ≡ rval (C ++ [h2]) * (2 ^ b1 * (2 ^ (32 * A.length) - 1)) [ZMOD pmod A.length] →
      ∃ ss sg ts tg i2', (match butterfly_rshB (A ++ [h1]) (qs ++ [qg]) 0 (A.length - e / 64) with
          | (s, t, _, i2') => (s, t, i2')) = (ss ++ [sg], ts ++ [tg], i2') ∧
        ss.length = A.length ∧ ts.length = A.length ∧ Limbs (ss ++ [sg]) ∧ Limbs (ts ++ [tg]) ∧
        rval (ss ++ [sg]) ≡ rval (A ++ [h1]) - rval (C ++ [h2]) * (2 ^ b1 * (2 ^ (32 * A.length) - 1)) [ZMOD pmod A.length] ∧
        rval (ts ++ [tg]) ≡ rval (A ++ [h1]) + rval (C ++ [h2]) * (2 ^ b1 * (2 ^ (32 * A.length) - 1)) [ZMOD pmod A.length] := by
    intro qs qg T ql qL qv T1 T2 qc
    -- TopSmall of the tail output
    have qsm : TopSmall (qs ++ [qg]) := by
      have ⟨hrs, hrg⟩ := Limbs_snoc.mp m3
      have hv0 : (0 : Int) ≤ val rs := by positivity
      have hv1 := valZ_lt rs hrs
      have hP := BZpow_pos rs.length
      have rb : -(2305843009213693953 * (B : Int) ^ rs.length) < rval (rs ++ [rg]) ∧
          rval (rs ++ [rg]) < 2305843009213693953 * (B : Int) ^ rs.length := by
        rw [rval_snoc]; constructor <;> nlinarith
      rw [← ql] at rb T1 T2 hP
      have tb := top_bounds qs qg qL (-2305843009213693955) 2305843009213693955
        (by rcases qv with h | h <;> rw [h] <;> linarith [rb.1, rb.2])
        (by rcases qv with h | h <;> rw [h] <;> linarith [rb.1, rb.2])
      unfold TopSmall; simp only [top_snoc]; omega
    obtain ⟨ss, sg, ts, tg, eb, l1, l2, la, lb, r1, r2⟩ :=
      rshB_x0_spec A qs h1 qg (A.length - e / 64) hA qL (by rw [ql, m2, hl]) hn (by omega) t1.small qsm
    refine ⟨ss, sg, ts, tg, qs ++ [qg], by rw [eb], l1, l2, la, lb, ?_, ?_⟩
    · have := unshift A.length (A.length - e / 64) (e / 64) (by omega) _ _ _ r1
      exact this.trans ((Int.ModEq.refl _).sub qc)
    · have r2' : rval (ts ++ [tg]) * (B : Int) ^ (A.length - e / 64) ≡
          rval (A ++ [h1]) * (B : Int) ^ (A.length - e / 64) + (-rval (qs ++ [qg])) [ZMOD pmod A.length] := by
        rw [← sub_eq_add_neg]; exact r2
      have := unshift A.length (A.length - e / 64) (e / 64) (by omega) _ _ _ r2'
      rw [neg_mul, sub_neg_eq_add] at this
      exact this.trans ((Int.ModEq.refl _).add qc)
  have e2 : (2 : Int) ^ e = 2 ^ (e % 64) * (B : Int) ^ (e / 64) := by
    rw [B_pow_two, ← pow_add]; congr 1; omega
  rcases hcase with ⟨hneg, hee⟩ | ⟨hneg, hee⟩
  · have hdec : (!decide (¬ b1 ≥ A.length * 64)) = true := by simp [hneg]
    rw [hdec]
    obtain ⟨qs, qg, T, e3, l3, L3, r3, tc, T1, T2⟩ := sqrt2Tail_spec rs rg true m3 (by omega) rsm
    simp only [↓reduceIte] at r3
    rw [e3]
    apply fin qs qg T l3 L3 (Or.inr r3) T1 T2
    rw [m2, ← hl] at tc
    have hr : rval (rs ++ [rg]) ≡ rval (C ++ [h2]) * 2 ^ ((e % 64 + 64 * A.length) - 64 * A.length) [ZMOD pmod A.length] := by
      rw [Nat.add_sub_cancel]; exact m4
    have := finish_neg A.length (e % 64 + 64 * A.length) _ _ T (by omega) hr tc
    rw [r3]
    have hpow : (2 : Int) ^ b1 = 2 ^ (e % 64 + 64 * A.length) * (B : Int) ^ (e / 64) := by
      rw [B_pow_two, ← pow_add]; congr 1; omega
    rw [hpow]
    have := this.mul_right ((B : Int) ^ (e / 64))
    refine this.trans ?_
    ring_nf; exact Int.ModEq.refl _
  · have hdec : (!decide (¬ b1 ≥ A.length * 64)) = false := by simp [hneg]
    rw [hdec]
    obtain ⟨qs, qg, T, e3, l3, L3, r3, tc, T1, T2⟩ := sqrt2Tail_spec rs rg false m3 (by omega) rsm
    simp only [Bool.false_eq_true, ↓reduceIte] at r3
    rw [e3]
    apply fin qs qg T l3 L3 (Or.inl r3) T1 T2
    rw [m2, ← hl] at tc
    have := finish_pos A.length (e % 64) _ _ T m4 tc
    rw [r3]
    have hpow : (2 : Int) ^ b1 = 2 ^ (e % 64) * (B : Int) ^ (e / 64) := by rw [← hee]; exact e2
    rw [hpow]
    have := this.mul_right ((B : Int) ^ (e / 64))
    refine this.trans ?_
    ring_nf; exact Int.ModEq.refl _

end Mpir.Fft
