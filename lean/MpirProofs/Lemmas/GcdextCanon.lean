/- The canonical cofactor `Mpir.Gcd.gcdextS` (what `Mpir.Gcd.mpn_gcdext` returns by definition on the divide-and-conquer
   range) meets the identity and the bound `CofBound`; the cofactor with identity and bound is unique (including the
   exception S = 1 ∧ V = 2G); hence the sized divide-and-conquer model returns exactly the canonical cofactor. -/
import MpirProofs.Lemmas.GcdextDc2
import Mathlib.Data.Int.GCD
namespace Mpir.Gcdext
open Mpir Mpir.Gcd Mpir.Hgcd

/-- the symmetric residue: x = S + m·k with −m < 2S ≤ m -/
theorem symMod_props (x m : Int) (hm : 0 < m) :
    ∃ k : Int, x = symMod x m + m * k ∧ -m < 2 * symMod x m ∧ 2 * symMod x m ≤ m := by
  unfold symMod
  have h1 := Int.emod_nonneg x hm.ne'
  have h2 := Int.emod_lt_of_pos x hm
  have h3 : x % m + m * (x / m) = x := by rw [Int.emod_def]; ring
  simp only
  split
  · exact ⟨x / m + 1, by linear_combination (-1 : Int) * h3, by omega, by omega⟩
  · exact ⟨x / m, by linear_combination (-1 : Int) * h3, by omega, by omega⟩

/-- **the canonical cofactor**: for V > 0 and any A, S = gcdextS A V satisfies V ∣ gcd(A, V) − A·S and
    2·G·|S| < V, or S = 1 and V = 2G. -/
theorem gcdextS_cof (A V : Nat) (hV : 0 < V) :
    ((Nat.gcd A V : Int) - A * gcdextS A V) % V = 0 ∧ CofBound V (Nat.gcd A V) (gcdextS A V) := by
  obtain ⟨hx1, hx2⟩ := xgcd_spec A V
  unfold gcdextS
  rcases hx : xgcd A V with ⟨g, x, y⟩
  rw [hx] at hx1 hx2
  simp only at hx1 hx2 ⊢
  subst hx1
  have hGpos : 0 < Nat.gcd A V := Nat.gcd_pos_of_pos_right _ hV
  have hGV : A % V = 0 → Nat.gcd A V = V := fun h => Nat.gcd_eq_right (Nat.dvd_of_mod_eq_zero h)
  obtain ⟨u, hu⟩ := Nat.gcd_dvd_left A V
  obtain ⟨m, hm⟩ := Nat.gcd_dvd_right A V
  generalize Nat.gcd A V = G at *
  have hGi : (0 : Int) < G := by exact_mod_cast hGpos
  have hAi : (A : Int) = G * u := by exact_mod_cast hu
  have hVi : (V : Int) = G * m := by exact_mod_cast hm
  have hmpos : 0 < m := Nat.pos_of_ne_zero (by rintro rfl; simp at hm; omega)
  by_cases hz : A % V = 0
  · rw [if_pos hz, hGV hz]
    refine ⟨by simp, Or.inl (by simpa using hV)⟩
  · rw [if_neg hz]
    by_cases h2 : (V : Int) = 2 * G
    · rw [if_pos h2]
      have h2n : V = 2 * G := by exact_mod_cast h2
      have hm2 : m = 2 := by
        have : G * m = G * 2 := by rw [← hm, h2n]; ring
        exact Nat.eq_of_mul_eq_mul_left hGpos this
      refine ⟨?_, Or.inr ⟨rfl, h2n⟩⟩
      rcases Nat.even_or_odd' u with ⟨k, hk | hk⟩
      · exfalso; apply hz
        apply Nat.mod_eq_zero_of_dvd
        exact ⟨k, by rw [hu, hk, h2n]; ring⟩
      · apply Int.emod_eq_zero_of_dvd
        refine ⟨-(k : Int), ?_⟩
        rw [hAi, h2, hk]; push_cast; ring
    · rw [if_neg h2]
      have hdiv : (V : Int) / (G : Int) = m := by
        rw [hVi]; exact Int.mul_ediv_cancel_left _ (ne_of_gt hGi)
      rw [hdiv]
      have hmi : (0 : Int) < m := by exact_mod_cast hmpos
      obtain ⟨k, hk, lo, hi⟩ := symMod_props x m hmi
      generalize symMod x (m : Int) = S at hk lo hi ⊢
      have hbez : (u : Int) * x + m * y = 1 := by
        have : (G : Int) * (u * x + m * y) = G * 1 := by rw [hAi, hVi] at hx2; linarith
        exact mul_left_cancel₀ (ne_of_gt hGi) this
      refine ⟨?_, ?_⟩
      · apply Int.emod_eq_zero_of_dvd
        refine ⟨y + u * k, ?_⟩
        rw [hAi, hVi]
        have e : (G : Int) = G * (u * x + m * y) := by rw [hbez, mul_one]
        rw [hk] at e
        linear_combination e
      · apply cofBound_of_lt
        have hne : 2 * S ≠ m := by
          intro he
          have hS0 : 0 ≤ S := by omega
          have : S * (u + 2 * (u * k) + 2 * y) = 1 := by
            rw [hk, ← he] at hbez
            linear_combination hbez
          have hS1 : S = 1 := Int.eq_one_of_mul_eq_one_right hS0 this
          apply h2
          rw [hVi, ← he, hS1]; ring
        have hlt : 2 * |S| < m := by
          rcases abs_cases S with ⟨e, _⟩ | ⟨e, _⟩ <;> rw [e] <;> omega
        rw [hVi]
        have : (G : Int) * (2 * |S|) < G * m := mul_lt_mul_of_pos_left hlt hGi
        linarith

/-- the same with respect to the operand before the initial division (U ≡ U' modulo V) -/
theorem gcdextS_cof_mod (U V U' : Nat) (hV : 0 < V) (hU' : U' = U ∨ U' = U % V) :
    ((Nat.gcd U V : Int) - U * gcdextS U' V) % V = 0 ∧ CofBound V (Nat.gcd U V) (gcdextS U' V) := by
  rcases hU' with h | h
  · rw [h]; exact gcdextS_cof U V hV
  · have hgcd : Nat.gcd (U % V) V = Nat.gcd U V := by rw [Nat.gcd_comm U V, Nat.gcd_rec V U]
    obtain ⟨c1, c2⟩ := gcdextS_cof (U % V) V hV
    rw [hgcd] at c1 c2
    rw [h]
    refine ⟨?_, c2⟩
    obtain ⟨t, ht⟩ := Int.dvd_of_emod_eq_zero c1
    apply Int.emod_eq_zero_of_dvd
    refine ⟨t - (U / V : Nat) * gcdextS (U % V) V, ?_⟩
    have hU : (U : Int) = (U % V : Nat) + V * (U / V : Nat) := by exact_mod_cast (Nat.mod_add_div U V).symm
    conv_lhs => rw [hU]
    linear_combination ht

/-- **uniqueness**: identity and bound determine the cofactor (the exception S = 1 ∧ V = 2G included) -/
theorem cofactor_unique (U V G : Nat) (S1 S2 : Int) (hV : 0 < V) (hG : G = Nat.gcd U V)
    (h1 : ((G : Int) - U * S1) % V = 0) (h2 : ((G : Int) - U * S2) % V = 0)
    (b1 : CofBound V G S1) (b2 : CofBound V G S2) : S1 = S2 := by
  have hGpos : 0 < G := by rw [hG]; exact Nat.gcd_pos_of_pos_right _ hV
  have hcop : Nat.Coprime (U / G) (V / G) := by
    rw [hG]; exact Nat.coprime_div_gcd_div_gcd (hG ▸ hGpos)
  obtain ⟨u, hu⟩ : G ∣ U := hG ▸ Nat.gcd_dvd_left U V
  obtain ⟨m, hm⟩ : G ∣ V := hG ▸ Nat.gcd_dvd_right U V
  have hud : U / G = u := by rw [hu]; exact Nat.mul_div_cancel_left _ hGpos
  have hmd : V / G = m := by rw [hm]; exact Nat.mul_div_cancel_left _ hGpos
  rw [hud, hmd] at hcop
  have hGi : (0 : Int) < G := by exact_mod_cast hGpos
  have hUi : (U : Int) = G * u := by exact_mod_cast hu
  have hVi : (V : Int) = G * m := by exact_mod_cast hm
  have hmpos : 0 < m := Nat.pos_of_ne_zero (by rintro rfl; simp at hm; omega)
  have hmi : (0 : Int) < m := by exact_mod_cast hmpos
  -- m ∣ S1 − S2
  have hdvd : (m : Int) ∣ S1 - S2 := by
    obtain ⟨t1, ht1⟩ := Int.dvd_of_emod_eq_zero h1
    obtain ⟨t2, ht2⟩ := Int.dvd_of_emod_eq_zero h2
    have e : (G : Int) * (u * (S1 - S2)) = G * (m * (t2 - t1)) := by
      rw [hUi, hVi] at ht1 ht2
      linear_combination ht2 - ht1
    have e' : (u : Int) * (S1 - S2) = m * (t2 - t1) := mul_left_cancel₀ (ne_of_gt hGi) e
    have hd : (m : Int) ∣ (S1 - S2) * (u : Int) := ⟨t2 - t1, by rw [mul_comm]; exact e'⟩
    have hg1 : Int.gcd (m : Int) (u : Int) = 1 := by
      rw [Int.gcd_natCast_natCast]; exact Nat.Coprime.symm hcop
    exact Int.dvd_of_dvd_mul_left_of_gcd_one hd hg1
  -- the bounds in terms of m
  have conv : ∀ S : Int, CofBound V G S → 2 * |S| < m ∨ (S = 1 ∧ m = 2) := by
    intro S hb
    rcases hb with h | ⟨h, h'⟩
    · left
      have hi : 2 * (G : Int) * |S| < V := by
        rw [← Int.natCast_natAbs]; exact_mod_cast h
      rw [hVi] at hi
      have : (G : Int) * (2 * |S|) < G * m := by linarith
      exact lt_of_mul_lt_mul_left this hGi.le
    · right
      refine ⟨h, ?_⟩
      have : G * m = G * 2 := by rw [← hm, h']; ring
      exact Nat.eq_of_mul_eq_mul_left hGpos this
  have zero_of : ∀ d : Int, (m : Int) ∣ d → |d| < m → d = 0 := fun d hd hl => Int.eq_zero_of_abs_lt_dvd hd hl
  rcases conv S1 b1 with c1 | ⟨c1, c1'⟩ <;> rcases conv S2 b2 with c2 | ⟨c2, c2'⟩
  · have : |S1 - S2| < m := by
      have := abs_sub S1 S2
      omega
    have := zero_of _ hdvd this
    omega
  · subst c2; subst c2'
    have hS1 : S1 = 0 := by
      rcases abs_cases S1 with ⟨e, _⟩ | ⟨e, _⟩ <;> rw [e] at c1 <;> push_cast at c1 <;> omega
    subst hS1
    obtain ⟨t, ht⟩ := hdvd
    push_cast at ht; omega
  · subst c1; subst c1'
    have hS2 : S2 = 0 := by
      rcases abs_cases S2 with ⟨e, _⟩ | ⟨e, _⟩ <;> rw [e] at c2 <;> push_cast at c2 <;> omega
    subst hS2
    obtain ⟨t, ht⟩ := hdvd
    push_cast at ht; omega
  · rw [c1, c2]

/-- `Mpir.Gcd.mpn_gcdext` at n ≥ GCDEXT_DC_THRESHOLD (the canonical cofactor by definition): gcd, identity, bound -/
theorem mpn_gcdext_value_dc (U V : Nat) (hV0 : 0 < V) (hdc : GCDEXT_DC_THRESHOLD ≤ nlimbs V) :
    (mpn_gcdext U (nlimbs U) V (nlimbs V)).1 = Nat.gcd U V ∧
    ((Nat.gcd U V : Int) - U * (mpn_gcdext U (nlimbs U) V (nlimbs V)).2) % V = 0 ∧
    CofBound V (Nat.gcd U V) (mpn_gcdext U (nlimbs U) V (nlimbs V)).2 := by
  unfold mpn_gcdext
  dsimp only
  by_cases hc : nlimbs U > nlimbs V ∧ (if nlimbs U > nlimbs V then U % V else U) = 0
  · rw [if_pos hc]
    obtain ⟨hgt, hz⟩ := hc
    rw [if_pos hgt] at hz
    have hVU : V ∣ U := Nat.dvd_of_mod_eq_zero hz
    have hG : Nat.gcd U V = V := Nat.gcd_eq_right hVU
    simp only [hG]
    exact ⟨trivial, by simp, Or.inl (by simpa using hV0)⟩
  · rw [if_neg hc, if_neg (by omega)]
    simp only
    obtain ⟨c1, c2⟩ := gcdextS_cof_mod U V (if nlimbs U > nlimbs V then U % V else U) hV0
      (by split <;> simp)
    exact ⟨trivial, c1, c2⟩

/-- the manual's contract implies the precise bound: S = 1 without 2·G·|S| < V forces V = 2G -/
theorem cofBound_of_contract (U V G : Nat) (S : Int) (hV0 : 0 < V) (h : mpnGcdextOk U V G S) : CofBound V G S := by
  obtain ⟨q1, _, q3, q4⟩ := h
  rcases q3 with h | h
  · by_cases hs : 2 * G * S.natAbs < V
    · exact Or.inl hs
    · right
      refine ⟨h, ?_⟩
      rw [h] at hs q4
      simp only [Int.natAbs_one, Nat.mul_one, not_lt] at hs
      have hGV : G ∣ V := q1 ▸ Nat.gcd_dvd_right U V
      obtain ⟨m, hm⟩ := hGV
      have hne : U % V ≠ 0 := fun hz => by have := q4.mpr hz; omega
      have hm1 : m ≠ 1 := by
        rintro rfl
        apply hne
        rw [Nat.mul_one] at hm
        rw [hm, q1]
        exact Nat.mod_eq_zero_of_dvd (Nat.gcd_dvd_left U V)
      have hm0 : m ≠ 0 := by rintro rfl; omega
      have hm2 : m ≤ 2 := by
        by_contra hc
        have : G * 3 ≤ G * m := Nat.mul_le_mul_left _ (by omega)
        omega
      have : m = 2 := by omega
      rw [hm, this]; ring
  · exact Or.inl h

/-- the contract of mpn_gcdext determines (G, S) -/
theorem contract_unique (U V G1 G2 : Nat) (S1 S2 : Int) (hV : 0 < V) (h1 : mpnGcdextOk U V G1 S1) (h2 : mpnGcdextOk U V G2 S2) :
    G1 = G2 ∧ S1 = S2 := by
  have b1 := cofBound_of_contract U V G1 S1 hV h1
  have b2 := cofBound_of_contract U V G2 S2 hV h2
  have e : G1 = G2 := h1.1.trans h2.1.symm
  subst e
  exact ⟨rfl, cofactor_unique U V G1 S1 S2 hV h1.1 h1.2.1 h2.2.1 b1 b2⟩

end Mpir.Gcdext
