/- mpn_matrix22_mul (matrix22_mul.c): the Strassen-like schedule of mpn_matrix22_mul_strassen, with the sign
   flags and the dropped carries of the C, computes the plain 2x2 product for ALL operands. -/
import MpirProofs.Lemmas.Base
import Mpir.Model.Hgcd
import Mathlib.Tactic.Ring
import Mathlib.Tactic.Linarith
import Mathlib.Tactic.LinearCombination
import Mathlib.Tactic.Positivity
import Mathlib.Tactic.Zify
set_option linter.unusedSimpArgs false
namespace Mpir.Hgcd
open Mpir

/-- value of a sign/magnitude pair (sign flag true = negative) -/
def sv (s : Bool) (x : Nat) : Int := if s then -(x : Int) else x

theorem sv_false (x : Nat) : sv false x = x := rfl
theorem sv_true (x : Nat) : sv true x = -(x : Int) := rfl

theorem absSubN_sv (a b : Nat) : sv (absSubN a b).2 (absSubN a b).1 = (a : Int) - b := by
  unfold absSubN
  split
  · rename_i h; simp only [sv_false]; omega
  · rename_i h; simp only [sv_true]; omega

theorem absSubN_le (a b : Nat) : (absSubN a b).1 ≤ a ∨ (absSubN a b).1 ≤ b := by
  unfold absSubN
  split
  · left; simp
  · right; simp

theorem absSubN_lt {a b K : Nat} (ha : a < K) (hb : b < K) : (absSubN a b).1 < K := by
  rcases absSubN_le a b with h | h <;> omega

theorem sv_abs_le (s : Bool) (x : Nat) : sv s x ≤ x ∧ -(x : Int) ≤ sv s x := by
  cases s <;> simp [sv]

/-- magnitude from a non-negative signed value -/
theorem sv_nat {s : Bool} {x v : Nat} (h : sv s x = (v : Int)) : x = v := by
  cases s
  · simp only [sv_false] at h; exact_mod_cast h
  · simp only [sv_true] at h; omega

theorem sv_mul (s t : Bool) (x y : Nat) : sv (s != t) (x * y) = sv s x * sv t y := by
  cases s <;> cases t <;> simp [sv]

theorem addSignedN_sv (a : Nat) (as : Bool) (b : Nat) (bs : Bool) (n : Nat) (h : a + b < B ^ n) :
    sv (addSignedN a as b bs n).2 (addSignedN a as b bs n).1 = sv as a + sv bs b ∧
    (addSignedN a as b bs n).1 ≤ a + b := by
  unfold addSignedN
  have hs := absSubN_sv a b
  have hl := absSubN_le a b
  cases as <;> cases bs <;> simp only [bne_self_eq_false, Bool.false_eq_true, ↓reduceIte, Bool.true_bne,
      Bool.false_bne, Bool.not_false, Bool.not_true, bne_iff_ne, ne_eq, not_true_eq_false, not_false_eq_true,
      Bool.true_eq_false, reduceCtorEq]
  · rw [Nat.mod_eq_of_lt h]; simp [sv]
  · refine ⟨?_, by omega⟩
    generalize (absSubN a b).2 = s at *
    cases s <;> simp only [sv, Bool.false_eq_true, ↓reduceIte] at hs ⊢ <;> omega
  · refine ⟨?_, by omega⟩
    generalize (absSubN a b).2 = s at *
    cases s <;> simp only [sv, Bool.false_eq_true, ↓reduceIte, Bool.not_false, Bool.not_true] at hs ⊢ <;> omega
  · rw [Nat.mod_eq_of_lt h]; simp [sv]; omega

/-- `s0[rn] = r1[rn] - mpn_sub_n (s0, r1, r0, rn)` (and the same shape for t0): for K ≤ x < 2K and y < K
    the low part minus y with the borrow taken from the top limb is x - y. -/
theorem top_borrow (x y K : Nat) (hK : 0 < K) (hx : x / K ≠ 0) (hx2 : x < 2 * K) (hy : y < K) :
    (x % K + K - y) % K + ((x / K + B - (if x % K < y then 1 else 0)) % B) * K = x - y := by
  have hq : x / K = 1 := by
    have h1 : x / K < 2 := Nat.div_lt_of_lt_mul (by omega)
    have h0 : 0 < x / K := Nat.pos_of_ne_zero hx
    exact Nat.le_antisymm (Nat.lt_succ_iff.mp h1) h0
  have hx' : x = K + x % K := by
    have := Nat.div_add_mod x K
    rw [hq] at this; omega
  have hm : x % K < K := Nat.mod_lt _ hK
  have hB : 2 ≤ B := by rw [B_eq]; norm_num
  rw [hq]
  split
  · rename_i h
    have e1 : (x % K + K - y) % K = x % K + K - y := Nat.mod_eq_of_lt (by omega)
    have e2 : (1 + B - 1) % B = 0 := by simp
    rw [e1, e2]; omega
  · rename_i h
    have e1 : (x % K + K - y) % K = x % K - y := by
      have : x % K + K - y = (x % K - y) + K := by omega
      rw [this, Nat.add_mod_right]; exact Nat.mod_eq_of_lt (by omega)
    have e2 : (1 + B - 0) % B = 1 := by
      rw [Nat.sub_zero, Nat.add_mod_right]; exact Nat.mod_eq_of_lt (by omega)
    rw [e1, e2]; omega

theorem sv_not (s : Bool) (x : Nat) : sv (!s) x = -sv s x := by cases s <;> simp [sv]

theorem split_mul (x t K : Nat) (hK : 0 < K) (hx : x < 2 * K) :
    x % K * t + (if x / K ≠ 0 then K * t else 0) = x * t := by
  by_cases h : x / K = 0
  · have hlt : x < K := by
      by_contra hc
      have : 0 < x / K := Nat.div_pos (by omega) hK
      omega
    rw [if_neg (not_not.mpr h), Nat.mod_eq_of_lt hlt]; rfl
  · rw [if_pos h]
    have h1 : x / K < 2 := Nat.div_lt_of_lt_mul (by omega)
    have h0 : 0 < x / K := Nat.pos_of_ne_zero h
    have hq : x / K = 1 := Nat.le_antisymm (Nat.lt_succ_iff.mp h1) h0
    have := Nat.div_add_mod x K
    rw [hq] at this
    calc x % K * t + K * t = (K * 1 + x % K) * t := by ring
      _ = x * t := by rw [this]

/-- `if s then abs_sub_n (a, x) else a + x` (matrix22_mul.c:137-146, 171-179): a plus a signed value -/
theorem stage_addpos (a x K : Nat) (s : Bool) (v : Int) (ha : a < K) (hx : x < K) (hv : sv s x = v) :
    sv (if s = true then absSubN a x else (a + x, false)).2 (if s = true then absSubN a x else (a + x, false)).1 = a + v ∧
    (if s = true then absSubN a x else (a + x, false)).1 < 2 * K ∧
    ((if s = true then absSubN a x else (a + x, false)).2 = true →
      (if s = true then absSubN a x else (a + x, false)).1 < K) := by
  cases s
  · simp only [Bool.false_eq_true, ↓reduceIte, sv_false, false_implies, and_true]
    simp only [sv_false] at hv
    constructor
    · push_cast; omega
    · omega
  · simp only [↓reduceIte]
    refine ⟨?_, ?_, fun _ => absSubN_lt ha hx⟩
    · rw [absSubN_sv]; simp only [sv_true] at hv; omega
    · have := absSubN_lt ha hx; omega

theorem stage_addpos' (a x K : Nat) (s : Bool) (v : Int) (ha : a < K) (hx : x < K) (hv : sv s x = v) :
    sv (if s = true then absSubN a x else (x + a, false)).2 (if s = true then absSubN a x else (x + a, false)).1 = a + v ∧
    (if s = true then absSubN a x else (x + a, false)).1 < 2 * K ∧
    ((if s = true then absSubN a x else (x + a, false)).2 = true →
      (if s = true then absSubN a x else (x + a, false)).1 < K) := by
  rw [Nat.add_comm x a]; exact stage_addpos a x K s v ha hx hv

/-- matrix22_mul.c:147-162: s0 := r0 - (signed r1), with the sign reversed -/
theorem stage_s0 (r0 r1a K : Nat) (r1s : Bool) (v : Int) (hK : 0 < K) (h0 : r0 < K) (b1 : r1a < 2 * K)
    (c1 : r1s = true → r1a < K) (e1 : sv r1s r1a = v) :
    sv (if r1s = true then (r1a + r0, false)
        else if r1a / K ≠ 0 then
          ((r1a % K + K - r0) % K + ((r1a / K + B - (if r1a % K < r0 then 1 else 0)) % B) * K, true)
        else absSubN r0 r1a).2
       (if r1s = true then (r1a + r0, false)
        else if r1a / K ≠ 0 then
          ((r1a % K + K - r0) % K + ((r1a / K + B - (if r1a % K < r0 then 1 else 0)) % B) * K, true)
        else absSubN r0 r1a).1 = (r0 : Int) - v ∧
    (if r1s = true then (r1a + r0, false)
        else if r1a / K ≠ 0 then
          ((r1a % K + K - r0) % K + ((r1a / K + B - (if r1a % K < r0 then 1 else 0)) % B) * K, true)
        else absSubN r0 r1a).1 < 2 * K := by
  cases r1s
  · simp only [Bool.false_eq_true, ↓reduceIte, sv_false] at e1 ⊢
    split
    · rename_i hq
      rw [top_borrow r1a r0 K hK hq b1 h0]
      have : K ≤ r1a := by
        by_contra hc
        exact hq (Nat.div_eq_of_lt (by omega))
      simp only [sv_true]
      constructor
      · omega
      · omega
    · rename_i hq
      have hlt : r1a < K := by
        by_contra hc
        apply hq
        have : 0 < r1a / K := Nat.div_pos (by omega) hK
        omega
      refine ⟨?_, ?_⟩
      · rw [absSubN_sv]; omega
      · have := absSubN_lt h0 hlt; omega
  · have := c1 rfl
    simp only [↓reduceIte, sv_false, sv_true] at e1 ⊢
    constructor
    · push_cast; omega
    · omega

/-- matrix22_mul.c:213-224: t0 := (signed t0) - m0, sign kept -/
theorem stage_t4 (m0 t0b L : Nat) (t0sb : Bool) (v : Int) (hL : 0 < L) (g0 : m0 < L) (b : t0b < 2 * L)
    (c : t0sb = true → t0b < L) (e : sv t0sb t0b = v) :
    sv (if t0sb = true then (t0b + m0, true)
        else if t0b / L ≠ 0 then
          ((t0b % L + L - m0) % L + ((t0b / L + B - (if t0b % L < m0 then 1 else 0)) % B) * L, false)
        else absSubN t0b m0).2
       (if t0sb = true then (t0b + m0, true)
        else if t0b / L ≠ 0 then
          ((t0b % L + L - m0) % L + ((t0b / L + B - (if t0b % L < m0 then 1 else 0)) % B) * L, false)
        else absSubN t0b m0).1 = v - m0 ∧
    (if t0sb = true then (t0b + m0, true)
        else if t0b / L ≠ 0 then
          ((t0b % L + L - m0) % L + ((t0b / L + B - (if t0b % L < m0 then 1 else 0)) % B) * L, false)
        else absSubN t0b m0).1 < 2 * L := by
  cases t0sb
  · simp only [Bool.false_eq_true, ↓reduceIte, sv_false] at e ⊢
    split
    · rename_i hq
      rw [top_borrow t0b m0 L hL hq b g0]
      have : L ≤ t0b := by
        by_contra hc
        exact hq (Nat.div_eq_of_lt (by omega))
      simp only [sv_false]
      constructor
      · omega
      · omega
    · rename_i hq
      have hlt : t0b < L := by
        by_contra hc
        apply hq
        have : 0 < t0b / L := Nat.div_pos (by omega) hL
        omega
      refine ⟨?_, ?_⟩
      · rw [absSubN_sv]; omega
      · have := absSubN_lt hlt g0; omega
  · have := c rfl
    simp only [↓reduceIte, sv_false, sv_true] at e ⊢
    constructor
    · push_cast; omega
    · omega

/-- matrix22_mul.c:187-198: the product of the (rn+1)-limb r1 and the (mn+1)-limb t0, both ways of computing it -/
theorem stage_u3 (r1a t0b K L P : Nat) (hK : 0 < K) (b1 : r1a < 2 * K) (bt : t0b < 2 * L) (hP : 4 * (K * L) ≤ P) :
    (if t0b / L ≠ 0 then (r1a % K * t0b + if r1a / K ≠ 0 then K * t0b else 0) % P else r1a * t0b) = r1a * t0b ∧
    r1a * t0b < 4 * (K * L) := by
  have hb : r1a * t0b < 4 * (K * L) := by
    have : r1a * t0b < (2 * K) * (2 * L) := Nat.mul_lt_mul'' b1 bt
    calc r1a * t0b < (2 * K) * (2 * L) := this
      _ = 4 * (K * L) := by ring
  refine ⟨?_, hb⟩
  split
  · rw [split_mul r1a t0b K hK b1]
    exact Nat.mod_eq_of_lt (by omega)
  · rfl

/-- matrix22_mul.c:252-272: `if (s) add_n (u, x) else sub_n (u, x)` with the carry/borrow dropped -/
theorem stage_final (u x P v : Nat) (s : Bool) (h : (v : Int) = u - sv s x) (hv : v < P) :
    (if s = true then (u + x) % P else (u + P - x) % P) = v := by
  cases s
  · simp only [Bool.false_eq_true, ↓reduceIte, sv_false] at h ⊢
    have : u + P - x = v + P := by omega
    rw [this, Nat.add_mod_right]
    exact Nat.mod_eq_of_lt hv
  · simp only [↓reduceIte, sv_true] at h ⊢
    have : u + x = v := by omega
    rw [this]; exact Nat.mod_eq_of_lt hv

theorem mul_lt_of (a b c d K L : Nat) (ha : a < c * K) (hb : b < d * L) : a * b < c * d * (K * L) := by
  calc a * b < (c * K) * (d * L) := Nat.mul_lt_mul'' ha hb
    _ = c * d * (K * L) := by ring

/-- **mpn_matrix22_mul_strassen computes the plain 2×2 product** for all operands r_i < B^rn, m_i < B^mn:
    every sign flag, every stored carry limb and every dropped carry/borrow (ASSERT_NOCARRY) of the C
    schedule is accounted for. -/
theorem strassen_eq (r0 r1 r2 r3 rn m0 m1 m2 m3 mn : Nat)
    (h0 : r0 < B ^ rn) (h1 : r1 < B ^ rn) (h2 : r2 < B ^ rn) (h3 : r3 < B ^ rn)
    (g0 : m0 < B ^ mn) (g1 : m1 < B ^ mn) (g2 : m2 < B ^ mn) (g3 : m3 < B ^ mn) :
    strassen r0 r1 r2 r3 rn m0 m1 m2 m3 mn = matrix22MulBase r0 r1 r2 r3 m0 m1 m2 m3 := by
  unfold strassen matrix22MulBase
  extract_lets K L P u0 r3' r3a r3s r1' r1a r1s s0' s0 s0s u1a r0f t0' t0a t0sa u1s u1b t0'' t0b t0sb r3b r3'' r3c r3sc t0''' t0c t0sc u0b r1b rn1 r2' r2a t0sd r3''' r3d r3sd u0c t0d u1c mn1 r1f r3f r2f
  have hKp : 0 < K := pow_pos B_pos _
  have hLp : 0 < L := pow_pos B_pos _
  have hB8 : 8 ≤ B := by rw [B_eq]; norm_num
  have hP1 : P = K * L * B := by simp only [P, K, L]; rw [pow_succ, pow_add]
  have hP2 : B ^ (rn1 + mn) = P := by simp only [rn1, P]; congr 1; omega
  have hP3 : B ^ mn1 = P := by simp only [mn1, rn1, P]; congr 1; omega
  have hbig : 8 * (K * L) ≤ P := by
    rw [hP1, Nat.mul_comm 8]; exact Nat.mul_le_mul_left _ hB8
  replace h0 : r0 < K := h0
  replace h1 : r1 < K := h1
  replace h2 : r2 < K := h2
  replace h3 : r3 < K := h3
  replace g0 : m0 < L := g0
  replace g1 : m1 < L := g1
  replace g2 : m2 < L := g2
  replace g3 : m3 < L := g3
  clear_value K L P
  clear hP1 hB8
  -- stage 1: r3 := |r3 - r2|
  have e_r3 : sv r3s r3a = (r3 : Int) - r2 := absSubN_sv r3 r2
  have b_r3 : r3a < K := absSubN_lt h3 h2
  clear_value r3a r3s
  clear r3'
  -- stage 2: r1 := r1 - r2 + r3
  obtain ⟨e_r1, b_r1, c_r1⟩ : sv r1s r1a = (r1 : Int) + (r3 - r2) ∧ r1a < 2 * K ∧ (r1s = true → r1a < K) :=
    stage_addpos r1 r3a K r3s _ h1 b_r3 e_r3
  clear_value r1a r1s
  clear r1'
  -- stage 3: s0 := r0 - (r1 - r2 + r3)  ("reverse sign")
  obtain ⟨e_s0, b_s0⟩ : sv s0s s0 = (r0 : Int) - (r1 + (r3 - r2)) ∧ s0 < 2 * K :=
    stage_s0 r0 r1a K r1s _ hKp h0 b_r1 c_r1 e_r1
  clear_value s0 s0s
  clear s0'
  -- stage 4: t0 := |m3 - m2|
  have e_t0a : sv t0sa t0a = (m3 : Int) - m2 := absSubN_sv m3 m2
  have b_t0a : t0a < L := absSubN_lt g3 g2
  clear_value t0a t0sa
  clear t0'
  -- stage 5: u2 = s2·t2 with reversed sign
  have e_u1b : sv u1s u1b = -(((r3 : Int) - r2) * (m3 - m2)) := by
    simp only [u1s, u1b]
    rw [sv_not, sv_mul, e_r3, e_t0a]
  have b_u1b : u1b < K * L := Nat.mul_lt_mul'' b_r3 b_t0a
  clear_value u1b u1s
  -- stage 6: t0 := m1 - m2 + m3
  obtain ⟨e_t0b, b_t0b, c_t0b⟩ : sv t0sb t0b = (m1 : Int) + (m3 - m2) ∧ t0b < 2 * L ∧ (t0sb = true → t0b < L) :=
    stage_addpos' m1 t0a L t0sa _ g1 b_t0a e_t0a
  clear_value t0b t0sb
  clear t0''
  -- stage 7: u3 = s3·t3 (magnitude)
  obtain ⟨e_r3b, b_r3b⟩ : r3b = r1a * t0b ∧ r1a * t0b < 4 * (K * L) :=
    stage_u3 r1a t0b K L P hKp b_r1 b_t0b (by omega)
  have s_r3b : sv (r1s != t0sb) r3b = ((r1 : Int) + (r3 - r2)) * (m1 + (m3 - m2)) := by
    rw [e_r3b, sv_mul, e_r1, e_t0b]
  rw [← e_r3b] at b_r3b
  clear_value r3b
  have b_u0 : u0 < K * L := Nat.mul_lt_mul'' h1 g2
  -- stage 8: u3 + u5
  obtain ⟨e_r3c, b_r3c⟩ : sv r3sc r3c = ((r1 : Int) + (r3 - r2)) * (m1 + (m3 - m2)) + r1 * m2 ∧ r3c < 5 * (K * L) := by
    simp only [r3c, r3sc, r3'']
    generalize (r1s != t0sb) = sg at *
    cases sg
    · simp only [Bool.false_eq_true, ↓reduceIte, sv_false] at s_r3b ⊢
      rw [Nat.mod_eq_of_lt (by omega)]
      refine ⟨?_, by omega⟩
      push_cast; rw [s_r3b]; simp only [u0]; push_cast; ring
    · simp only [↓reduceIte, sv_true] at s_r3b ⊢
      refine ⟨?_, ?_⟩
      · rw [absSubN_sv]; simp only [u0]; push_cast; linear_combination s_r3b
      · rcases absSubN_le u0 r3b with h | h <;> omega
  clear_value r3c r3sc
  clear r3''
  -- stage 9: t0 := t3 - m0
  obtain ⟨e_t0c, b_t0c⟩ : sv t0sc t0c = (m1 : Int) + (m3 - m2) - m0 ∧ t0c < 2 * L :=
    stage_t4 m0 t0b L t0sb _ hLp g0 b_t0b c_t0b e_t0b
  clear_value t0c t0sc
  clear t0'''
  -- stage 10: u6 = s6·t4, s1 = r1 + r3
  have b_u0b : u0b < 2 * (K * L) := by
    have := mul_lt_of r2 t0c 1 2 K L (by omega) b_t0c
    simp only [u0b]; omega
  have s_u0b : sv t0sc u0b = (r2 : Int) * ((m1 : Int) + (m3 - m2) - m0) := by
    simp only [u0b]
    have := sv_mul false t0sc r2 t0c
    simp only [Bool.false_bne, sv_false] at this
    rw [this, e_t0c]
  clear_value u0b
  have e_r1b : r1b = r1 + r3 := by
    simp only [r1b]
    cases r1s
    · simp only [Bool.false_eq_true, ↓reduceIte, sv_false] at e_r1 ⊢; omega
    · have := c_r1 rfl
      simp only [↓reduceIte, sv_true] at e_r1 ⊢
      have h4 : r2 + K - r1a = (r1 + r3) + K := by omega
      rw [h4, Nat.add_mod_right]
      exact Nat.mod_eq_of_lt (by omega)
  clear_value r1b
  -- stage 11: r2 := u3 + u5 + u6, r3 := -u2 + u3 + u5
  have e_r2a := addSignedN_sv r3c r3sc u0b t0sc (rn1 + mn) (by rw [hP2]; omega)
  have e_r3d := addSignedN_sv r3c r3sc u1b u1s (rn1 + mn) (by rw [hP2]; omega)
  rw [e_r3c, s_u0b] at e_r2a
  rw [e_r3c, e_u1b] at e_r3d
  change sv t0sd r2a = _ ∧ r2a ≤ _ at e_r2a
  change sv r3sd r3d = _ ∧ r3d ≤ _ at e_r3d
  obtain ⟨e_r2a, b_r2a⟩ := e_r2a
  obtain ⟨e_r3d, b_r3d⟩ := e_r3d
  clear_value r2a t0sd r3d r3sd
  clear r2' r3'''
  -- stage 12: u4 = s4·t5 (sign s0s), u1 = s1·t1
  have b_u0c : u0c < 2 * (K * L) := by
    have := mul_lt_of s0 m1 2 1 K L b_s0 (by omega)
    simp only [u0c]; omega
  have s_u0c : sv s0s u0c = ((r0 : Int) - (r1 + (r3 - r2))) * m1 := by
    simp only [u0c]
    have := sv_mul s0s false s0 m1
    simp only [Bool.bne_false, sv_false] at this
    rw [this, e_s0]
  clear_value u0c
  have e_u1c : u1c = (r1 + r3) * (m3 + m1) := by simp only [u1c, t0d, e_r1b]
  clear_value u1c
  -- stage 13: the results
  have e_r1f := addSignedN_sv r3d r3sd u0c s0s mn1 (by rw [hP3]; omega)
  rw [e_r3d, s_u0c] at e_r1f
  have v_r1f : r1f = r0 * m1 + r1 * m3 := by
    apply sv_nat (s := (addSignedN r3d r3sd u0c s0s mn1).2)
    simp only [r1f]
    rw [e_r1f.1]; push_cast; ring
  have b_p3 : r2 * m1 + r3 * m3 < P := by
    have a1 : r2 * m1 < K * L := Nat.mul_lt_mul'' h2 g1
    have a2 : r3 * m3 < K * L := Nat.mul_lt_mul'' h3 g3
    omega
  have b_p2 : r3 * m2 + r2 * m0 < P := by
    have a1 : r3 * m2 < K * L := Nat.mul_lt_mul'' h3 g2
    have a2 : r2 * m0 < K * L := Nat.mul_lt_mul'' h2 g0
    omega
  have v_r3f : r3f = r2 * m1 + r3 * m3 := by
    simp only [r3f]; rw [hP3]
    apply stage_final _ _ _ _ _ _ b_p3
    rw [e_r3d, e_u1c]; push_cast; ring
  have v_r2f : r2f = r3 * m2 + r2 * m0 := by
    simp only [r2f]; rw [hP3]
    apply stage_final _ _ _ _ _ _ b_p2
    rw [e_r2a, e_u1c]; push_cast; ring
  rw [v_r1f, v_r3f, v_r2f]

/-- mpn_matrix22_mul, for every value of MATRIX22_STRASSEN_THRESHOLD: the plain product. -/
theorem matrix22Mul_eq (thr r0 r1 r2 r3 rn m0 m1 m2 m3 mn : Nat)
    (h0 : r0 < B ^ rn) (h1 : r1 < B ^ rn) (h2 : r2 < B ^ rn) (h3 : r3 < B ^ rn)
    (g0 : m0 < B ^ mn) (g1 : m1 < B ^ mn) (g2 : m2 < B ^ mn) (g3 : m3 < B ^ mn) :
    matrix22Mul thr r0 r1 r2 r3 rn m0 m1 m2 m3 mn
      = (r0 * m0 + r1 * m2, r0 * m1 + r1 * m3, r2 * m0 + r3 * m2, r2 * m1 + r3 * m3) := by
  unfold matrix22Mul
  split
  · unfold matrix22MulBase; simp only [Nat.add_comm]
  · rw [strassen_eq _ _ _ _ _ _ _ _ _ _ h0 h1 h2 h3 g0 g1 g2 g3]
    unfold matrix22MulBase; simp only [Nat.add_comm]

end Mpir.Hgcd
