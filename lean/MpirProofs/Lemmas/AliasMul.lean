/- mpz_mul on the pointer-level model (Mpir/Model/AliasMul.lean): the mpn_mul_1 arm in place, the basecase shortcut guarded by
   `w != u && w != v`, free + allocate of the destination block with the release postponed when the block is an operand
   (`free_me`), TMP copy of an operand that is the (large enough) destination. -/
import MpirProofs.Lemmas.AliasRootrem
import Mpir.Model.AliasMul
namespace Mpir.AliasMem
open Mpir
open Mpir.DivZ (sizeNat siz sameSign)

/-- a new block with junk contents for `v` while the old one stays allocated: the invariant survives — `v` now holds some
    junk value of the same size —, every other variable and every old block (also the one `v` had) is untouched -/
theorem newBlock_spec {s : St} (h : Inv s) {v : Nat} (hv : v < s.nv) (n : Nat) (hlt : s.alloc v < n) :
    Inv (s.newBlock v n) ∧ (s.newBlock v n).nv = s.nv ∧ (∀ i, (s.newBlock v n).size i = s.size i) ∧
    (∀ i, i < s.nv → i ≠ v → (s.newBlock v n).value i = s.value i) ∧
    (s.newBlock v n).alloc v = n ∧ (∀ i, i ≠ v → (s.newBlock v n).alloc i = s.alloc i) ∧
    (s.newBlock v n).ptr v = s.next ∧ (∀ i, i ≠ v → (s.newBlock v n).ptr i = s.ptr i) ∧
    (s.newBlock v n).next = s.next + 1 ∧
    (∀ q, q ≠ s.next → (s.newBlock v n).blk q = s.blk q) ∧
    (s.newBlock v n).blk s.next = some (List.replicate n junk) := by
  have hvars : ∀ i, (s.newBlock v n).vars i =
      if i = v then { alloc := n, size := s.size v, ptr := s.next } else s.vars i := fun i => by
    simp [St.newBlock, St.setVar, St.malloc, St.setBlk]
  have hblk : ∀ q, (s.newBlock v n).blk q =
      if q = s.next then some (List.replicate n junk) else s.blk q := fun q => by
    simp only [St.newBlock, St.setVar, St.malloc, St.setBlk]
  have hnext : (s.newBlock v n).next = s.next + 1 := by
    simp [St.newBlock, St.setVar, St.malloc, St.setBlk]
  have hnv : (s.newBlock v n).nv = s.nv := by
    simp [St.newBlock, St.setVar, St.malloc, St.setBlk]
  have hsize : ∀ i, (s.newBlock v n).size i = s.size i := fun i => by
    unfold St.size; rw [hvars]; split
    · next e => subst e; rfl
    · rfl
  have hptr_v : (s.newBlock v n).ptr v = s.next := by unfold St.ptr; rw [hvars]; simp
  have hptr_o : ∀ i, i ≠ v → (s.newBlock v n).ptr i = s.ptr i := fun i hi => by
    unfold St.ptr; rw [hvars]; simp [hi]
  have halloc_v : (s.newBlock v n).alloc v = n := by unfold St.alloc; rw [hvars]; simp
  have halloc_o : ∀ i, i ≠ v → (s.newBlock v n).alloc i = s.alloc i := fun i hi => by
    unfold St.alloc; rw [hvars]; simp [hi]
  have hblk_o : ∀ i, i < s.nv → (s.newBlock v n).blk (s.ptr i) = s.blk (s.ptr i) := fun i hi => by
    rw [hblk, if_neg (Nat.ne_of_lt (h.lt i hi))]
  have hfit := h.fits v hv
  have hval : ∀ i, i < s.nv → i ≠ v → (s.newBlock v n).value i = s.value i := fun i hi hiv =>
    value_congr (by rw [hvars]; simp [hiv]) (hblk_o i hi)
  refine ⟨⟨fun i hi => ?_, fun i j hi hj e => ?_, fun i hi => ?_, fun q hq => ?_, fun i hi => ?_, fun i hi => ?_⟩,
    hnv, hsize, hval, halloc_v, halloc_o, hptr_v, hptr_o, hnext, fun q h1 => by rw [hblk, if_neg h1], by rw [hblk, if_pos rfl]⟩
  · rw [hnv] at hi
    by_cases hiv : i = v
    · subst hiv
      exact ⟨List.replicate n junk, by rw [hptr_v, hblk]; simp, by rw [halloc_v]; simp, Limbs_replicate_junk _⟩
    · obtain ⟨b, hb, hbl, hbL⟩ := h.live i hi
      exact ⟨b, by rw [hptr_o i hiv, hblk_o i hi, hb], by rw [halloc_o i hiv]; exact hbl, hbL⟩
  · rw [hnv] at hi hj
    by_cases hiv : i = v <;> by_cases hjv : j = v
    · rw [hiv, hjv]
    · rw [hiv, hptr_v, hptr_o j hjv] at e
      exact absurd e.symm (Nat.ne_of_lt (h.lt j hj))
    · rw [hjv, hptr_v, hptr_o i hiv] at e
      exact absurd e (Nat.ne_of_lt (h.lt i hi))
    · rw [hptr_o i hiv, hptr_o j hjv] at e; exact h.inj i j hi hj e
  · rw [hnv] at hi; rw [hnext]
    by_cases hiv : i = v
    · rw [hiv, hptr_v]; omega
    · rw [hptr_o i hiv]; have := h.lt i hi; omega
  · rw [hnext] at hq
    rw [hblk, if_neg (by omega)]
    exact h.fresh q (by omega)
  · rw [hnv] at hi; rw [hsize]
    by_cases hiv : i = v
    · rw [hiv, halloc_v]; omega
    · rw [halloc_o i hiv]; exact h.fits i hi
  · rw [hnv] at hi
    by_cases hiv : i = v
    · subst hiv
      rw [hsize]
      have hk : (s.size i).natAbs ≤ n := by omega
      have hmag : (s.newBlock i n).mag i = val (List.replicate (s.size i).natAbs junk) := by
        unfold St.mag St.limbs
        rw [hsize, hptr_v, hblk]; simp [List.take_replicate, Nat.min_eq_left hk]
      have hsn := val_replicate_junk_norm (s.size i).natAbs
      rw [value_eq_sgnv, hsize, hmag]
      unfold siz sgnv
      by_cases h0 : s.size i < 0
      · rw [if_pos h0]
        have hpos : val (List.replicate (s.size i).natAbs junk) ≠ 0 := fun e => by
          rw [e, DivZ.sizeNat_eq_zero.mpr rfl] at hsn; omega
        rw [if_pos (by omega)]; simp only [Int.natAbs_neg, Int.natAbs_natCast]; omega
      · rw [if_neg h0, if_neg (by omega)]; simp only [Int.natAbs_natCast]; omega
    · rw [hsize, hval i hi hiv]; exact h.norm i hi

theorem free_newBlock (s : St) (v n : Nat) : (s.free (s.ptr v)).newBlock v n = s.freshBlock v n := rfl

/-! ### sizes of a product -/

theorem mul_bounds {U V un vn : Nat} (hU1 : B ^ (un - 1) ≤ U) (hU2 : U < B ^ un) (hV1 : B ^ (vn - 1) ≤ V) (hV2 : V < B ^ vn)
    (hun : 1 ≤ un) (hvn : 1 ≤ vn) : B ^ (un + vn - 2) ≤ U * V ∧ U * V < B ^ (un + vn) := by
  constructor
  · have : un + vn - 2 = (un - 1) + (vn - 1) := by omega
    rw [this, pow_add]; exact Nat.mul_le_mul hU1 hV1
  · rw [pow_add]; exact Nat.mul_lt_mul'' hU2 hV2

/-- `wsize -= (top limb == 0)` is the normalised size of the product (mul.c:100, :160-161) -/
theorem mul_size {P k : Nat} (h1 : B ^ (k - 2) ≤ P) (h2 : P < B ^ k) (hk : 2 ≤ k) :
    sizeNat P = k - (if P / B ^ (k - 1) = 0 then 1 else 0) := by
  by_cases h0 : P / B ^ (k - 1) = 0
  · rw [if_pos h0]
    have hlt : P < B ^ (k - 1) := by
      rcases Nat.div_eq_zero_iff.mp h0 with e | e
      · exact absurd e (Nat.pos_iff_ne_zero.mp (Nat.pow_pos B_pos))
      · exact e
    exact sizeNat_eq (by rw [show k - 1 - 1 = k - 2 by omega]; exact h1) hlt (by omega)
  · rw [if_neg h0]
    have hge : B ^ (k - 1) ≤ P := by
      by_contra hc
      exact h0 (Nat.div_eq_of_lt (by omega))
    exact sizeNat_eq hge h2 (by omega)

/-- mpn_mul / mpn_mul_basecase / mpn_sqr into the block of `w`, followed by the size store -/
theorem mul_core_ok {s : St} (h : Inv s) {w : Nat} (hw : w < s.nv) {up vp un vn : Nat} {Ul Vl : List Nat}
    (hlU : s.load up un = .ok Ul) (hlV : s.load vp vn = .ok Vl)
    (hU1 : B ^ (un - 1) ≤ val Ul) (hU2 : val Ul < B ^ un) (hV1 : B ^ (vn - 1) ≤ val Vl) (hV2 : val Vl < B ^ vn)
    (hvn : 1 ≤ vn) (hle : vn ≤ un) (h1 : s.ptr w ≠ up) (h2 : s.ptr w ≠ vp) (ha : un + vn ≤ s.alloc w) (neg : Bool) :
    ∃ r, mpn_mul (s.ptr w) up un vp vn s = .ok r ∧
      Inv (r.2.setSize w (if neg then -((un + vn - (if r.1 = 0 then 1 else 0) : Nat) : Int) else ((un + vn - (if r.1 = 0 then 1 else 0) : Nat) : Int))) ∧
      Upd s (r.2.setSize w (if neg then -((un + vn - (if r.1 = 0 then 1 else 0) : Nat) : Int) else ((un + vn - (if r.1 = 0 then 1 else 0) : Nat) : Int))) w ∧
      (r.2.setSize w (if neg then -((un + vn - (if r.1 = 0 then 1 else 0) : Nat) : Int) else ((un + vn - (if r.1 = 0 then 1 else 0) : Nat) : Int))).value w =
        (if neg then -((val Ul * val Vl : Nat) : Int) else ((val Ul * val Vl : Nat) : Int)) := by
  obtain ⟨bw, hbw, hbwl, hbwL⟩ := h.live w hw
  obtain ⟨hP1, hP2⟩ := mul_bounds hU1 hU2 hV1 hV2 (by omega) hvn
  have hsz := mul_size hP1 hP2 (by omega)
  unfold mpn_mul
  have hc : ¬ (s.ptr w = up ∨ s.ptr w = vp) := by tauto
  have hs : ¬ ¬ (1 ≤ vn ∧ vn ≤ un) := by omega
  simp only [bind, Except.bind, hc, if_false, hlU, hlV, hs, pure, Except.pure]
  rw [store_blk hbw (by rw [toLimbs_length]; omega)]
  simp only [toLimbs_length]
  refine ⟨_, rfl, ?_⟩
  simp only []
  rw [← hsz]
  have p := put_upd h hw (toLimbs (un + vn) (val Ul * val Vl) ++ bw.drop (un + vn)) (val Ul * val Vl) neg
    (by rw [length_wr' (by omega)]; exact hbwl) (Limbs_wr' (Limbs_toLimbs _ _) hbwL)
    (by rw [hsz]; omega) (val_take_wr _ (by rw [hsz]; omega))
  exact p

theorem mul_sign (a b : Int) (m n : Nat) :
    (if (!decide (sameSign a b)) = true then -((m * n : Nat) : Int) else ((m * n : Nat) : Int)) = sgnv a m * sgnv b n := by
  unfold sameSign sgnv
  by_cases ha : a < 0 <;> by_cases hb : b < 0 <;> simp [ha, hb]

theorem toLimbs_snoc (n P : Nat) (hP : P < B ^ (n + 1)) : toLimbs n P ++ [P / B ^ n] = toLimbs (n + 1) P := by
  have hcy : P / B ^ n < B := Nat.div_lt_of_lt_mul (by rw [← pow_succ]; exact hP)
  have hL : Limbs (toLimbs n P ++ [P / B ^ n]) :=
    Limbs_append.mpr ⟨Limbs_toLimbs _ _, by intro x hx; simp at hx; subst hx; exact hcy⟩
  have hlen : (toLimbs n P ++ [P / B ^ n]).length = n + 1 := by simp [toLimbs_length]
  have hval : val (toLimbs n P ++ [P / B ^ n]) = P := by
    rw [val_append, toLimbs_length, val_toLimbs]
    simp only [val_cons, val_nil, Nat.mul_zero, Nat.add_zero]
    exact Nat.mod_add_div P (B ^ n)
  have := eq_toLimbs' _ hL
  rw [hlen, hval] at this; exact this

/-- `wp[usize] = cy_limb` after mpn_mul_1 (mul.c:73-74) -/
theorem wrAt_carry (n P : Nat) (bw : List Nat) (hn : n + 1 ≤ bw.length) (hP : P < B ^ (n + 1)) :
    wrAt (toLimbs n P ++ bw.drop n) n [P / B ^ n] = toLimbs (n + 1) P ++ bw.drop (n + 1) := by
  unfold wrAt
  rw [List.take_left' (toLimbs_length _ _), toLimbs_snoc n P hP]
  congr 1
  simp only [List.length_cons, List.length_nil, Nat.zero_add]
  rw [List.drop_append, toLimbs_length]
  simp [List.drop_of_length_le, toLimbs_length]

theorem opnd {s : St} (h : Inv s) {u : Nat} (hu : u < s.nv) (hz : s.size u ≠ 0) :
    s.load (s.ptr u) (s.size u).natAbs = .ok (s.limbs u) ∧ B ^ ((s.size u).natAbs - 1) ≤ val (s.limbs u) ∧
      val (s.limbs u) < B ^ (s.size u).natAbs :=
  ⟨h.load_var hu, h.mag_ge hu hz, h.mag_lt hu⟩

theorem mul_value (s : St) (u v : Nat) :
    (if (!decide (sameSign (s.size u) (s.size v))) = true then -((s.mag u * s.mag v : Nat) : Int) else ((s.mag u * s.mag v : Nat) : Int))
      = s.value u * s.value v := by
  rw [mul_sign, value_eq_sgnv, value_eq_sgnv]

/-- mul.c:83-103: the basecase shortcut, entered only when w is neither operand -/
theorem mulSmall_ok {s : St} (h : Inv s) {w u v : Nat} (hw : w < s.nv) (hu : u < s.nv) (hv : v < s.nv)
    (hwu : w ≠ u) (hwv : w ≠ v) (hzu : s.size u ≠ 0) (hzv : s.size v ≠ 0) (neg : Bool) :
    ∃ r, (if (s.size v).natAbs ≤ (s.size u).natAbs then
            mpn_mul ((s.mpzRealloc w ((s.size u).natAbs + (s.size v).natAbs)).ptr w)
              ((s.mpzRealloc w ((s.size u).natAbs + (s.size v).natAbs)).ptr u) (s.size u).natAbs
              ((s.mpzRealloc w ((s.size u).natAbs + (s.size v).natAbs)).ptr v) (s.size v).natAbs
              (s.mpzRealloc w ((s.size u).natAbs + (s.size v).natAbs))
          else
            mpn_mul ((s.mpzRealloc w ((s.size u).natAbs + (s.size v).natAbs)).ptr w)
              ((s.mpzRealloc w ((s.size u).natAbs + (s.size v).natAbs)).ptr v) (s.size v).natAbs
              ((s.mpzRealloc w ((s.size u).natAbs + (s.size v).natAbs)).ptr u) (s.size u).natAbs
              (s.mpzRealloc w ((s.size u).natAbs + (s.size v).natAbs))) = .ok r ∧
      Res s (r.2.setSize w (if neg then -(((s.size u).natAbs + (s.size v).natAbs - (if r.1 = 0 then 1 else 0) : Nat) : Int)
          else (((s.size u).natAbs + (s.size v).natAbs - (if r.1 = 0 then 1 else 0) : Nat) : Int))) w
        (if neg then -((s.mag u * s.mag v : Nat) : Int) else ((s.mag u * s.mag v : Nat) : Int)) ∧
      ((s.size u).natAbs + (s.size v).natAbs ≤ s.alloc w →
        Upd s (r.2.setSize w (if neg then -(((s.size u).natAbs + (s.size v).natAbs - (if r.1 = 0 then 1 else 0) : Nat) : Int)
          else (((s.size u).natAbs + (s.size v).natAbs - (if r.1 = 0 then 1 else 0) : Nat) : Int))) w) := by
  obtain ⟨i1, nv1, size1, val1, a1, _⟩ := realloc_spec h hw ((s.size u).natAbs + (s.size v).natAbs)
  have hs1 : (s.size u).natAbs + (s.size v).natAbs ≤ s.alloc w → s.mpzRealloc w ((s.size u).natAbs + (s.size v).natAbs) = s :=
    fun ha => realloc_noop (by omega)
  generalize s.mpzRealloc w ((s.size u).natAbs + (s.size v).natAbs) = s1 at *
  have hw1 : w < s1.nv := by rw [nv1]; exact hw
  have hu1 : u < s1.nv := by rw [nv1]; exact hu
  have hv1 : v < s1.nv := by rw [nv1]; exact hv
  obtain ⟨lu, u1, u2⟩ := opnd i1 hu1 (by rw [size1]; exact hzu)
  obtain ⟨lv, v1, v2⟩ := opnd i1 hv1 (by rw [size1]; exact hzv)
  rw [size1] at lu u1 u2 lv v1 v2
  have hpu : s1.ptr w ≠ s1.ptr u := fun e => hwu (i1.inj w u hw1 hu1 e)
  have hpv : s1.ptr w ≠ s1.ptr v := fun e => hwv (i1.inj w v hw1 hv1 e)
  have hmu : val (s1.limbs u) = s.mag u := mag_of_value (val1 u hu)
  have hmv : val (s1.limbs v) = s.mag v := mag_of_value (val1 v hv)
  have hv0 : 1 ≤ (s.size v).natAbs := by omega
  have hu0 : 1 ≤ (s.size u).natAbs := by omega
  by_cases hle : (s.size v).natAbs ≤ (s.size u).natAbs
  · rw [if_pos hle]
    obtain ⟨r, hr, ir, ur, vr⟩ := mul_core_ok i1 hw1 lu lv u1 u2 v1 v2 hv0 hle hpu hpv a1 neg
    refine ⟨r, hr, ⟨ir, by rw [ur.nv, nv1], by rw [vr, hmu, hmv], fun i hi hiw => by rw [ur.value_o i1 hw1 (by rw [nv1]; exact hi) hiw, val1 i hi]⟩,
      fun ha' => by have := hs1 ha'; subst this; exact ur⟩
  · rw [if_neg hle]
    obtain ⟨r, hr, ir, ur, vr⟩ := mul_core_ok i1 hw1 lv lu v1 v2 u1 u2 hu0 (by omega) hpv hpu (by omega) neg
    rw [Nat.add_comm (s.size v).natAbs] at ir ur vr
    refine ⟨r, hr, ⟨ir, by rw [ur.nv, nv1], by rw [vr, hmu, hmv, Nat.mul_comm], fun i hi hiw => by rw [ur.value_o i1 hw1 (by rw [nv1]; exact hi) hiw, val1 i hi]⟩,
      fun ha' => by have := hs1 ha'; subst this; exact ur⟩

/-- mul.c:111-152 -/
theorem mulPrep_ok {s : St} (h : Inv s) {w u v : Nat} (hw : w < s.nv) (hu : u < s.nv) (hv : v < s.nv) :
    ∃ wp up vp fm tmp s1, mulPrep .c w u v (s.size u).natAbs (s.size v).natAbs s = .ok (wp, up, vp, fm, tmp, s1) ∧
      Inv s1 ∧ s1.nv = s.nv ∧ wp = s1.ptr w ∧ (s.size u).natAbs + (s.size v).natAbs ≤ s1.alloc w ∧
      s1.load up (s.size u).natAbs = .ok (s.limbs u) ∧ s1.load vp (s.size v).natAbs = .ok (s.limbs v) ∧
      wp ≠ up ∧ wp ≠ vp ∧ (∀ i, i < s.nv → i ≠ w → s1.value i = s.value i) ∧
      (∀ p, p ∈ fm ++ tmp → ∀ i, i < s.nv → s1.ptr i ≠ p) ∧
      ((s.size u).natAbs + (s.size v).natAbs ≤ s.alloc w → w ≠ u → w ≠ v → s1 = s ∧ fm = [] ∧ tmp = []) := by
  have hlu := h.load_var hu
  have hlv := h.load_var hv
  by_cases hlt : s.alloc w < (s.size u).natAbs + (s.size v).natAbs
  · by_cases hop : s.ptr w = s.ptr u ∨ s.ptr w = s.ptr v
    · -- the block of w is an operand: new block now, the old one is released after the product (free_me)
      obtain ⟨i1, nv1, size1, val1, aV, aO, pV, pO, nx, bO, bN⟩ := newBlock_spec h hw _ hlt
      refine ⟨s.next, s.ptr u, s.ptr v, [s.ptr w], [], s.newBlock w ((s.size u).natAbs + (s.size v).natAbs), ?_, i1, nv1, pV.symm,
        by rw [aV], ?_, ?_, Ne.symm (Nat.ne_of_lt (h.lt u hu)), Ne.symm (Nat.ne_of_lt (h.lt v hv)), val1, ?_, fun ha' => by omega⟩
      · simp [mulPrep, MulVariant.c, hlt, hop, pV, pure, Except.pure]
      · rw [load_eq_of_blk (bO _ (Nat.ne_of_lt (h.lt u hu)))]; exact hlu
      · rw [load_eq_of_blk (bO _ (Nat.ne_of_lt (h.lt v hv)))]; exact hlv
      · intro p hp i hi
        simp at hp; subst hp
        by_cases hiw : i = w
        · rw [hiw, pV]; exact Ne.symm (Nat.ne_of_lt (h.lt w hw))
        · rw [pO i hiw]; exact fun e => hiw (h.inj i w hi hw e)
    · -- w is neither operand: free, then allocate
      have hwu : w ≠ u := fun e => hop (Or.inl (by rw [e]))
      have hwv : w ≠ v := fun e => hop (Or.inr (by rw [e]))
      obtain ⟨i1, nv1, size1, val1, aV, aO, pV, pO, nx, bO⟩ := freshBlock_spec h hw _ hlt
      have hnu : s.ptr u ≠ s.ptr w := fun e => hwu (h.inj u w hu hw e).symm
      have hnv : s.ptr v ≠ s.ptr w := fun e => hwv (h.inj v w hv hw e).symm
      refine ⟨s.next, s.ptr u, s.ptr v, [], [], s.freshBlock w ((s.size u).natAbs + (s.size v).natAbs), ?_, i1, nv1, pV.symm,
        by rw [aV], ?_, ?_, Ne.symm (Nat.ne_of_lt (h.lt u hu)), Ne.symm (Nat.ne_of_lt (h.lt v hv)), val1, by simp, fun ha' => by omega⟩
      · simp [mulPrep, MulVariant.c, hlt, hop, free_newBlock, pV, pure, Except.pure]
      · rw [load_eq_of_blk (bO _ (Nat.ne_of_lt (h.lt u hu)) hnu)]; exact hlu
      · rw [load_eq_of_blk (bO _ (Nat.ne_of_lt (h.lt v hv)) hnv)]; exact hlv
  · have ha : (s.size u).natAbs + (s.size v).natAbs ≤ s.alloc w := by omega
    have hls_u := (h.limbs_spec hu).1
    have hls_v := (h.limbs_spec hv).1
    by_cases hwu : s.ptr w = s.ptr u
    · -- w is u (and large enough): TMP copy of u; v keeps pointing to the same limbs as u when it is u too
      have i1 : Inv (s.malloc (s.limbs u)).2 := malloc_inv h _
      have x1 : Ext s (s.malloc (s.limbs u)).2 := malloc_ext h _
      have hnew : (s.malloc (s.limbs u)).2.load s.next (s.size u).natAbs = .ok (s.limbs u) := by
        have := load_of_blk (malloc_blk_new s (s.limbs u)); rwa [hls_u] at this
      refine ⟨s.ptr w, s.next, (if s.ptr w = s.ptr v then s.next else s.ptr v), [], [s.next], (s.malloc (s.limbs u)).2, ?_, i1, x1.nv,
        (x1.ptr w).symm, by rw [x1.alloc]; exact ha, hnew, ?_, Nat.ne_of_lt (h.lt w hw), ?_, fun i hi _ => x1.value h hi, ?_,
        fun _ e _ => absurd (h.inj w u hw hu hwu) e⟩
      · have e : s.load (s.ptr w) (s.size u).natAbs = .ok (s.limbs u) := by rw [hwu]; exact hlu
        simp [mulPrep, MulVariant.c, hlt, hwu, St.tmpCopy, bind, Except.bind, e, hlu, pure, Except.pure, St.malloc]
      · by_cases hwv : s.ptr w = s.ptr v
        · rw [if_pos hwv]
          have : v = u := h.inj v u hv hu (by rw [← hwv, hwu])
          rw [this]; exact hnew
        · rw [if_neg hwv]; exact x1.load hlv
      · by_cases hwv : s.ptr w = s.ptr v
        · rw [if_pos hwv]; exact Nat.ne_of_lt (h.lt w hw)
        · rw [if_neg hwv]; exact hwv
      · intro p hp i hi
        simp at hp; subst hp
        rw [x1.ptr]; exact Nat.ne_of_lt (h.lt i hi)
    · by_cases hwv : s.ptr w = s.ptr v
      · -- w is v: TMP copy of v
        have i1 : Inv (s.malloc (s.limbs v)).2 := malloc_inv h _
        have x1 : Ext s (s.malloc (s.limbs v)).2 := malloc_ext h _
        have hnew : (s.malloc (s.limbs v)).2.load s.next (s.size v).natAbs = .ok (s.limbs v) := by
          have := load_of_blk (malloc_blk_new s (s.limbs v)); rwa [hls_v] at this
        refine ⟨s.ptr w, s.ptr u, s.next, [], [s.next], (s.malloc (s.limbs v)).2, ?_, i1, x1.nv,
          (x1.ptr w).symm, by rw [x1.alloc]; exact ha, x1.load hlu, hnew, hwu, Nat.ne_of_lt (h.lt w hw), fun i hi _ => x1.value h hi, ?_,
          fun _ _ e => absurd (h.inj w v hw hv hwv) e⟩
        · have e : s.load (s.ptr w) (s.size v).natAbs = .ok (s.limbs v) := by rw [hwv]; exact hlv
          have hwu' : ¬ s.ptr v = s.ptr u := by rw [← hwv]; exact hwu
          simp [mulPrep, MulVariant.c, hlt, hwu, hwu', hwv, St.tmpCopy, bind, Except.bind, e, hlv, pure, Except.pure, St.malloc]
        · intro p hp i hi
          simp at hp; subst hp
          rw [x1.ptr]; exact Nat.ne_of_lt (h.lt i hi)
      · -- all blocks distinct and w large enough: nothing to do
        refine ⟨s.ptr w, s.ptr u, s.ptr v, [], [], s, ?_, h, rfl, rfl, ha, hlu, hlv, hwu, hwv, fun _ _ _ => rfl, by simp,
          fun _ _ _ => ⟨rfl, rfl, rfl⟩⟩
        simp [mulPrep, MulVariant.c, hlt, hwu, hwv, pure, Except.pure]

theorem foldl_free_ptr (l : List Nat) (X : St) (i : Nat) : (l.foldl St.free X).ptr i = X.ptr i := by
  induction l generalizing X with
  | nil => rfl
  | cons a l ih => simp only [List.foldl_cons]; rw [ih]; rfl

/-- mul.c:111-166 -/
theorem mulBig_ok {s : St} (h : Inv s) {w u v : Nat} (hw : w < s.nv) (hu : u < s.nv) (hv : v < s.nv)
    (hzu : s.size u ≠ 0) (hzv : s.size v ≠ 0) (hle : (s.size v).natAbs ≤ (s.size u).natAbs) (neg : Bool) :
    ∃ s', mulBig .c w u v (s.size u).natAbs (s.size v).natAbs neg s = .ok s' ∧
      Res s s' w (if neg then -((s.mag u * s.mag v : Nat) : Int) else ((s.mag u * s.mag v : Nat) : Int)) ∧
      ((s.size u).natAbs + (s.size v).natAbs ≤ s.alloc w → w ≠ u → w ≠ v → Upd s s' w) := by
  obtain ⟨wp, up, vp, fm, tmp, s1, hprep, i1, nv1, hwp, ha, hlU, hlV, h1, h2, hval, hfree, hsame⟩ := mulPrep_ok h hw hu hv
  subst hwp
  have hw1 : w < s1.nv := by rw [nv1]; exact hw
  obtain ⟨r, hr, ir, ur, vr⟩ := mul_core_ok i1 hw1 hlU hlV (h.mag_ge hu hzu) (h.mag_lt hu) (h.mag_ge hv hzv) (h.mag_lt hv)
    (by omega) hle h1 h2 ha neg
  unfold mulBig
  simp only [bind, Except.bind, pure, Except.pure, hprep, hr]
  generalize r.2.setSize w (if neg = true then -((((s.size u).natAbs + (s.size v).natAbs - if r.1 = 0 then 1 else 0) : Nat) : Int)
      else ((((s.size u).natAbs + (s.size v).natAbs - if r.1 = 0 then 1 else 0) : Nat) : Int)) = X at *
  have nvX : X.nv = s.nv := by rw [ur.nv, nv1]
  obtain ⟨j1, m1, w1⟩ := free_list_inv fm ir (fun p hp i hi => by
    rw [ur.ptr]; exact hfree p (List.mem_append_left _ hp) i (by rw [nvX] at hi; exact hi))
  obtain ⟨j2, m2, w2⟩ := free_list_inv tmp j1 (fun p hp i hi => by
    rw [foldl_free_ptr, ur.ptr]; exact hfree p (List.mem_append_right _ hp) i (by rw [m1, nvX] at hi; exact hi))
  refine ⟨_, rfl, ⟨j2, by rw [m2, m1, nvX], ?_, fun i hi hiw => ?_⟩, fun a b c => ?_⟩
  · rw [w2 w (by rw [m1, nvX]; exact hw), w1 w (by rw [nvX]; exact hw), vr]; rfl
  · rw [w2 i (by rw [m1, nvX]; exact hi), w1 i (by rw [nvX]; exact hi), ur.value_o i1 hw1 (by rw [nv1]; exact hi) hiw, hval i hi hiw]
  · obtain ⟨e1, e2, e3⟩ := hsame a b c
    subst e1 e2 e3
    exact ur

/-- mul.c:69-78 -/
theorem mulOne_ok {s : St} (h : Inv s) {w u v : Nat} (hw : w < s.nv) (hu : u < s.nv) (hv : v < s.nv)
    (hzu : s.size u ≠ 0) (hv1 : (s.size v).natAbs = 1) (neg : Bool) :
    ∃ s', mulOne w u v (s.size u).natAbs neg s = .ok s' ∧
      Res s s' w (if neg then -((s.mag u * s.mag v : Nat) : Int) else ((s.mag u * s.mag v : Nat) : Int)) ∧
      ((s.size u).natAbs + 1 ≤ s.alloc w → Upd s s' w) := by
  obtain ⟨i1, nv1, size1, val1, a1, _⟩ := realloc_spec h hw ((s.size u).natAbs + 1)
  have hs1 : (s.size u).natAbs + 1 ≤ s.alloc w → s.mpzRealloc w ((s.size u).natAbs + 1) = s := fun ha => realloc_noop (by omega)
  unfold mulOne
  simp only [bind, Except.bind, pure, Except.pure]
  generalize s.mpzRealloc w ((s.size u).natAbs + 1) = s1 at *
  have hw1 : w < s1.nv := by rw [nv1]; exact hw
  have hu1 : u < s1.nv := by rw [nv1]; exact hu
  have hv1' : v < s1.nv := by rw [nv1]; exact hv
  obtain ⟨bw, hbw, hbwl, hbwL⟩ := i1.live w hw1
  obtain ⟨bv, hbv, hbvl, hbvL⟩ := i1.live v hv1'
  have hfv := i1.fits v hv1'; rw [size1, hv1] at hfv
  obtain ⟨lu, u1, u2⟩ := opnd i1 hu1 (by rw [size1]; exact hzu)
  rw [size1] at lu u1 u2
  have hmu : val (s1.limbs u) = s.mag u := mag_of_value (val1 u hu)
  -- the one limb of v
  obtain ⟨x, xs, hbvx⟩ : ∃ x xs, bv = x :: xs := by
    cases bv with
    | nil => simp at hbvl; omega
    | cons x xs => exact ⟨x, xs, rfl⟩
  have hxB : x < B := hbvL x (by rw [hbvx]; simp)
  have hmv : s.mag v = x := by
    rw [← mag_of_value (val1 v hv)]
    unfold St.mag St.limbs
    rw [hbv, size1, hv1, hbvx]; simp
  have hx0 : 1 ≤ x := by
    have := h.mag_ge hv (by omega); rw [hv1, hmv] at this; simpa using this
  rw [limbAt_of_blk hbv (by omega), hbvx]
  simp only [List.getD_cons_zero]
  unfold mpn_mul_1
  have hs : ¬ ¬ (1 ≤ (s.size u).natAbs ∧ x < B) := by omega
  simp only [bind, Except.bind, hs, if_false, lu, pure, Except.pure]
  rw [store_blk hbw (by rw [toLimbs_length]; omega)]
  simp only [toLimbs_length]
  have hP2 : val (s1.limbs u) * x < B ^ ((s.size u).natAbs + 1) := by
    rw [pow_succ]; exact Nat.mul_lt_mul'' u2 hxB
  have hP1 : B ^ ((s.size u).natAbs + 1 - 2) ≤ val (s1.limbs u) * x := by
    rw [show (s.size u).natAbs + 1 - 2 = (s.size u).natAbs - 1 by omega]
    calc B ^ ((s.size u).natAbs - 1) ≤ val (s1.limbs u) := u1
      _ = val (s1.limbs u) * 1 := (Nat.mul_one _).symm
      _ ≤ val (s1.limbs u) * x := Nat.mul_le_mul_left _ hx0
  rw [storeAt_ok (setBlk_blk_self _ _ _) (by simp [toLimbs_length]; omega), setBlk_setBlk,
    wrAt_carry _ _ bw (by omega) hP2]
  have hsz := mul_size hP1 hP2 (by omega)
  simp only [Nat.add_sub_cancel] at hsz
  have hn : (s.size u).natAbs + (if val (s1.limbs u) * x / B ^ (s.size u).natAbs ≠ 0 then 1 else 0) = sizeNat (val (s1.limbs u) * x) := by
    rw [hsz]; by_cases e : val (s1.limbs u) * x / B ^ (s.size u).natAbs = 0 <;> simp [e]
  rw [hn]
  have p := put_upd i1 hw1 (toLimbs ((s.size u).natAbs + 1) (val (s1.limbs u) * x) ++ bw.drop ((s.size u).natAbs + 1))
    (val (s1.limbs u) * x) neg (by rw [length_wr' (by omega)]; exact hbwl) (Limbs_wr' (Limbs_toLimbs _ _) hbwL)
    (by rw [hsz]; omega) (val_take_wr _ (by rw [hsz]; omega))
  refine ⟨_, rfl, ⟨p.1, by show (s1.put w _ _).nv = _; rw [p.2.1.nv, nv1], ?_, fun i hi hiw => ?_⟩, fun ha' => ?_⟩
  · show (s1.put w _ _).value w = _
    rw [p.2.2, hmu, hmv]
  · show (s1.put w _ _).value i = _
    rw [p.2.1.value_o i1 hw1 (by rw [nv1]; exact hi) hiw, val1 i hi]
  · have := hs1 ha'; subst this; exact p.2.1

/-- mpz_mul, every choice of w, u, v -/
theorem mpz_mul_ok {s : St} (h : Inv s) {w u v : Nat} (hw : w < s.nv) (hu : u < s.nv) (hv : v < s.nv) :
    ∃ s', mpz_mul w u v s = .ok s' ∧ Res s s' w (s.value u * s.value v) ∧
      ((s.size u).natAbs + (s.size v).natAbs ≤ s.alloc w → w ≠ u → w ≠ v → Upd s s' w) := by
  rw [← mul_value]
  unfold mpz_mul mpz_mulV
  simp only [MulVariant.c, bind, Except.bind, pure, Except.pure, forall_const]
  by_cases hz : (s.size u).natAbs = 0 ∨ (s.size v).natAbs = 0
  · rw [if_pos hz]
    obtain ⟨i1, u1, v1⟩ := setSize_zero_spec h hw
    have hm0 : s.mag u * s.mag v = 0 := by
      rcases hz with e | e
      · rw [h.mag_zero hu (by omega)]; simp
      · rw [h.mag_zero hv (by omega)]; simp
    refine ⟨_, rfl, ⟨i1, u1.nv, by rw [v1, hm0]; simp, fun i hi hiw => u1.value_o h hw hi hiw⟩, fun _ _ _ => u1⟩
  · rw [if_neg hz]
    have hzu : s.size u ≠ 0 := by omega
    have hzv : s.size v ≠ 0 := by omega
    by_cases h1 : (s.size v).natAbs = 1
    · rw [if_pos h1]
      obtain ⟨s', e, r1, r2⟩ := mulOne_ok h hw hu hv hzu h1 (!decide (sameSign (s.size u) (s.size v)))
      exact ⟨s', e, r1, fun a _ _ => r2 (by omega)⟩
    · rw [if_neg h1]
      by_cases hsm : (s.size u).natAbs + (s.size v).natAbs ≤ mulKaratsubaThreshold ∧ w ≠ u ∧ w ≠ v
      · rw [if_pos hsm]
        obtain ⟨r, hr, hres, hupd⟩ := mulSmall_ok h hw hu hv hsm.2.1 hsm.2.2 hzu hzv (!decide (sameSign (s.size u) (s.size v)))
        rw [hr]; exact ⟨_, rfl, hres, fun a _ _ => hupd a⟩
      · rw [if_neg hsm]
        by_cases hsw : (s.size u).natAbs < (s.size v).natAbs
        · rw [if_pos hsw, Nat.mul_comm (s.mag u)]
          obtain ⟨s', e, r1, r2⟩ := mulBig_ok h hw hv hu hzv hzu (by omega) (!decide (sameSign (s.size u) (s.size v)))
          exact ⟨s', e, r1, fun a b c => r2 (by omega) c b⟩
        · rw [if_neg hsw]
          obtain ⟨s', e, r1, r2⟩ := mulBig_ok h hw hu hv hzu hzv (by omega) (!decide (sameSign (s.size u) (s.size v)))
          exact ⟨s', e, r1, r2⟩

end Mpir.AliasMem
