/- Helper lemmas for C08 (Mpir/Model/Powm.lean): scalar code, limb access, the sliding window,
   the kernels used by mpz_powm (mpn_sub), REDC. -/
import MpirProofs.Lemmas.Base
import MpirProofs.Lemmas.Kernels
import Mpir.Model.Powm
import Mathlib.Tactic.Ring
import Mathlib.Tactic.Linarith
import Mathlib.Tactic.IntervalCases
import Mathlib.Algebra.Group.Basic
import Mathlib.Data.Nat.ModEq
import Mathlib.Data.Int.ModEq
import Mathlib.Data.List.Basic
namespace Mpir.Powm
open Mpir

/-! ### powers of two -/

theorem B_eq_two_pow : B = 2 ^ 64 := rfl

theorem two_pow_pos (n : Nat) : 0 < 2 ^ n := Nat.pos_of_ne_zero (by positivity)

theorem B_split (s : Nat) (hs : s ≤ 64) : B = 2 ^ s * 2 ^ (64 - s) := by
  rw [B_eq_two_pow, ← pow_add]; congr 1; omega

/-! ### count_trailing_zeros -/

theorem ctzAux_spec : ∀ (f x : Nat), x ≠ 0 → x < 2 ^ f →
    x = 2 ^ ctzAux f x * (x / 2 ^ ctzAux f x) ∧ (x / 2 ^ ctzAux f x) % 2 = 1
  | 0, x, h0, hlt => by simp at hlt; exact absurd hlt h0
  | f + 1, x, h0, hlt => by
    unfold ctzAux
    by_cases hodd : x % 2 = 1
    · simp [hodd]
    · simp only [hodd, if_false]
      have hx2 : x / 2 ≠ 0 := by omega
      have hlt2 : x / 2 < 2 ^ f := by rw [pow_succ] at hlt; omega
      obtain ⟨h1, h2⟩ := ctzAux_spec f (x / 2) hx2 hlt2
      have hdiv : x / 2 ^ (1 + ctzAux f (x / 2)) = x / 2 / 2 ^ ctzAux f (x / 2) := by
        rw [pow_add, pow_one, Nat.div_div_eq_div_mul]
      rw [hdiv]
      refine ⟨?_, h2⟩
      have hx : x = 2 * (x / 2) := by omega
      calc x = 2 * (x / 2) := hx
        _ = 2 * (2 ^ ctzAux f (x / 2) * (x / 2 / 2 ^ ctzAux f (x / 2))) := by rw [← h1]
        _ = _ := by rw [pow_add, pow_one]; ring

/-- `x = 2^ctz · odd` for a non-zero limb. -/
theorem ctz_spec (x : Nat) (h0 : x ≠ 0) (hlt : x < 2 ^ 64) :
    x = 2 ^ ctz x * (x >>> ctz x) ∧ (x >>> ctz x) % 2 = 1 := by
  unfold ctz; simp only [h0, if_false, Nat.shiftRight_eq_div_pow]
  exact ctzAux_spec 64 x h0 hlt

/-! ### limb access -/

theorem val_drop_div (p : List Nat) (hp : Limbs p) (i : Nat) : val p / B ^ i = val (p.drop i) := by
  by_cases hi : i ≤ p.length
  · have h := val_take_drop p i hi
    have hlt := val_lt (p.take i) (Limbs_take hp i)
    rw [List.length_take, Nat.min_eq_left hi] at hlt
    rw [h, Nat.add_mul_div_left _ _ (Nat.pow_pos B_pos), Nat.div_eq_of_lt hlt, Nat.zero_add]
  · have hlt := val_lt p hp
    have : B ^ p.length ≤ B ^ i := Nat.pow_le_pow_right B_pos (by omega)
    rw [List.drop_eq_nil_of_le (by omega), Nat.div_eq_of_lt (by omega)]; rfl

theorem val_take_mod (p : List Nat) (hp : Limbs p) (i : Nat) : val p % B ^ i = val (p.take i) := by
  by_cases hi : i ≤ p.length
  · have h := val_take_drop p i hi
    have hlt := val_lt (p.take i) (Limbs_take hp i)
    rw [List.length_take, Nat.min_eq_left hi] at hlt
    rw [h, Nat.add_mul_mod_self_left, Nat.mod_eq_of_lt hlt]
  · have hlt := val_lt p hp
    have : B ^ p.length ≤ B ^ i := Nat.pow_le_pow_right B_pos (by omega)
    rw [List.take_of_length_le (by omega), Nat.mod_eq_of_lt (by omega)]

theorem val_drop_getD (p : List Nat) (i : Nat) : val (p.drop i) = p.getD i 0 + B * val (p.drop (i + 1)) := by
  induction p generalizing i with
  | nil => simp
  | cons x xs ih =>
    cases i with
    | zero => simp
    | succ j => simpa using ih j

theorem getD_lt (p : List Nat) (hp : Limbs p) (i : Nat) : p.getD i 0 < B := by
  rw [List.getD_eq_getElem?_getD]
  cases h : p[i]? with
  | none => simpa using B_pos
  | some x => exact hp x (List.mem_of_getElem? h)

/-- the value shifted right by `64·i + s` bits, in terms of limb `i` and the limbs above it. -/
theorem val_shift (p : List Nat) (hp : Limbs p) (j : Nat) :
    val p / 2 ^ j = p.getD (j / 64) 0 / 2 ^ (j % 64) + 2 ^ (64 - j % 64) * val (p.drop (j / 64 + 1)) := by
  have hs : j % 64 ≤ 64 := by omega
  have hj : 2 ^ j = B ^ (j / 64) * 2 ^ (j % 64) := by
    rw [B_eq_two_pow, ← pow_mul, ← pow_add]; congr 1; omega
  rw [hj, ← Nat.div_div_eq_div_mul, val_drop_div p hp, val_drop_getD, B_split _ hs, Nat.mul_assoc,
    Nat.add_mul_div_left _ _ (two_pow_pos _)]

/-! ### getbit / getbits -/

theorem getbit_spec (p : List Nat) (hp : Limbs p) (bi : Nat) :
    getbit p bi = (val p / 2 ^ (bi - 1)) % 2 := by
  unfold getbit
  rw [Nat.and_one_is_mod, Nat.shiftRight_eq_div_pow, val_shift p hp]
  have : 2 ^ (64 - (bi - 1) % 64) = 2 * 2 ^ (63 - (bi - 1) % 64) := by
    rw [← pow_succ']; congr 1; omega
  rw [this, Nat.mul_assoc, Nat.add_mul_mod_self_left]

theorem getbits_spec (p : List Nat) (hp : Limbs p) (bi nbits : Nat) (hn : nbits ≤ 63) :
    getbits p bi nbits = if bi < nbits then val p % 2 ^ bi else (val p / 2 ^ (bi - nbits)) % 2 ^ nbits := by
  unfold getbits
  by_cases hlt : bi < nbits
  · simp only [hlt, if_true]
    rw [Nat.one_shiftLeft, Nat.and_two_pow_sub_one_eq_mod]
    have hb : bi ≤ 64 := by omega
    -- p[0] % 2^bi = val p % 2^bi
    have h0 := val_shift p hp 0
    simp only [Nat.zero_div, Nat.zero_mod, pow_zero, Nat.div_one, Nat.sub_zero, Nat.zero_add] at h0
    rw [h0]
    have : 2 ^ 64 = 2 ^ bi * 2 ^ (64 - bi) := by rw [← pow_add]; congr 1; omega
    rw [this, Nat.mul_assoc, Nat.add_mul_mod_self_left]
  · simp only [hlt, if_false]
    rw [Nat.one_shiftLeft, Nat.and_two_pow_sub_one_eq_mod, val_shift p hp]
    generalize hj : bi - nbits = j
    have hs : j % 64 < 64 := Nat.mod_lt _ (by decide)
    generalize hs' : j % 64 = s at *
    generalize p.getD (j / 64) 0 = x0
    by_cases hc : 64 - s < nbits
    · simp only [hc, if_true]
      rw [val_drop_getD]
      generalize p.getD (j / 64 + 1) 0 = x1
      generalize val (p.drop (j / 64 + 1 + 1)) = rest
      have hB : B = 2 ^ nbits * 2 ^ (64 - nbits) := B_split _ (by omega)
      rw [Nat.shiftRight_eq_div_pow, Nat.shiftLeft_eq]
      -- reduce `% B % 2^nbits`
      have hd : 2 ^ nbits ∣ B := ⟨_, hB⟩
      rw [Nat.mod_mod_of_dvd _ hd]
      have e1 : (x0 / 2 ^ s + x1 * 2 ^ (64 - s) % B) % 2 ^ nbits = (x0 / 2 ^ s + x1 * 2 ^ (64 - s)) % 2 ^ nbits := by
        rw [Nat.add_mod, Nat.mod_mod_of_dvd _ hd, ← Nat.add_mod]
      rw [e1]
      have e2 : 2 ^ (64 - s) * (x1 + B * rest) = x1 * 2 ^ (64 - s) + 2 ^ nbits * (2 ^ (64 - nbits) * 2 ^ (64 - s) * rest) := by
        rw [hB]; ring
      rw [e2, ← Nat.add_assoc, Nat.add_mul_mod_self_left]
    · simp only [hc, if_false]
      have : 2 ^ (64 - s) = 2 ^ nbits * 2 ^ (64 - s - nbits) := by rw [← pow_add]; congr 1; omega
      rw [Nat.shiftRight_eq_div_pow, this, Nat.mul_assoc, Nat.add_mul_mod_self_left]


/-! ### MPN_SIZEINBASE_2EXP -/

theorem sizeinbase2_spec (ep : List Nat) (hl : Limbs ep) (hne : ep ≠ []) (htop : ep.getLast hne ≠ 0) :
    1 ≤ sizeinbase2 ep ∧ 2 ^ (sizeinbase2 ep - 1) ≤ val ep ∧ val ep < 2 ^ sizeinbase2 ep := by
  have hdec := List.dropLast_concat_getLast hne
  generalize ep.getLast hne = top at *
  generalize ep.dropLast = ini at *
  subst hdec
  have htl : top < B := hl top (by simp)
  have hini : Limbs ini := (Limbs_append.mp hl).1
  have hv : val (ini ++ [top]) = val ini + B ^ ini.length * top := by rw [val_append]; simp
  have hil := val_lt ini hini
  have hlog1 : top < 2 ^ (top.log2 + 1) := Nat.lt_log2_self
  have hlog2 : 2 ^ top.log2 ≤ top := Nat.log2_self_le htop
  have hlog3 : top.log2 < 64 := (Nat.log2_lt htop).mpr htl
  have hsz : sizeinbase2 (ini ++ [top]) = 64 * ini.length + top.log2 + 1 := by
    unfold sizeinbase2 clz; simp; omega
  rw [hsz, hv]
  have hB : B ^ ini.length = 2 ^ (64 * ini.length) := by rw [B_eq_two_pow, ← pow_mul]
  refine ⟨by omega, ?_, ?_⟩
  · have : 64 * ini.length + top.log2 + 1 - 1 = 64 * ini.length + top.log2 := by omega
    rw [this, pow_add, ← hB]
    have := Nat.mul_le_mul_left (B ^ ini.length) hlog2
    omega
  · have e : 64 * ini.length + top.log2 + 1 = 64 * ini.length + (top.log2 + 1) := by omega
    rw [e, pow_add, ← hB]
    have h1 : B ^ ini.length * (top + 1) ≤ B ^ ini.length * 2 ^ (top.log2 + 1) := Nat.mul_le_mul_left _ hlog1
    have h2 : B ^ ini.length * (top + 1) = B ^ ini.length * top + B ^ ini.length := by ring
    omega

/-! ### the window extraction arithmetic -/

/-- One window: the `w'` bits of `e` below bit position `ebi` (1-based, bit `ebi` set) split as
    `2^c · odd`; dropping the `c` low zero bits leaves `E·2^(w'-c) + odd` above position `ebi - w' + c`. -/
theorem window_extract' (e ebi w' : Nat) (hw1 : 1 ≤ w') (hw63 : w' ≤ 63) (hle : w' ≤ ebi)
    (hbit : (e / 2 ^ (ebi - 1)) % 2 = 1) (bits : Nat) (hb : bits = (e / 2 ^ (ebi - w')) % 2 ^ w') :
    ctz bits < w' ∧ bits >>> ctz bits < 2 ^ w' ∧ (bits >>> ctz bits) % 2 = 1 ∧
    e / 2 ^ (ebi - w' + ctz bits) = (e / 2 ^ ebi) * 2 ^ (w' - ctz bits) + (bits >>> ctz bits) := by
  have hblt : bits < 2 ^ w' := by rw [hb]; exact Nat.mod_lt _ (two_pow_pos _)
  have hsplit : 2 ^ w' = 2 ^ (w' - 1) * 2 := by rw [← pow_succ]; congr 1; omega
  -- top bit of the window
  have htopbit : bits / 2 ^ (w' - 1) = 1 := by
    rw [hb, hsplit, Nat.mod_mul_right_div_self, Nat.div_div_eq_div_mul, ← pow_add]
    have : ebi - w' + (w' - 1) = ebi - 1 := by omega
    rw [this, hbit]
  have hbge : 2 ^ (w' - 1) ≤ bits := by
    by_contra hlt
    rw [Nat.div_eq_of_lt (by omega)] at htopbit; omega
  have hb0 : bits ≠ 0 := by have := two_pow_pos (w' - 1); omega
  have h64 : bits < 2 ^ 64 := lt_of_lt_of_le hblt (Nat.pow_le_pow_right (by decide) (by omega))
  obtain ⟨hc1, hc2⟩ := ctz_spec bits hb0 h64
  generalize ctz bits = c at *
  generalize bits >>> c = od at *
  have hod0 : 0 < od := by omega
  have hclt : c < w' := by
    by_contra hge
    have : 2 ^ w' ≤ 2 ^ c := Nat.pow_le_pow_right (by decide) (by omega)
    have : 2 ^ c ≤ 2 ^ c * od := Nat.le_mul_of_pos_right _ hod0
    omega
  have hodlt : od < 2 ^ w' := by
    have : od ≤ 2 ^ c * od := Nat.le_mul_of_pos_left _ (two_pow_pos c)
    omega
  refine ⟨hclt, hodlt, hc2, ?_⟩
  -- e / 2^lo = E * 2^w' + bits
  have hE : e / 2 ^ (ebi - w') = (e / 2 ^ ebi) * 2 ^ w' + bits := by
    have h := Nat.div_add_mod (e / 2 ^ (ebi - w')) (2 ^ w')
    rw [Nat.div_div_eq_div_mul, ← pow_add] at h
    have : ebi - w' + w' = ebi := by omega
    rw [this, ← hb] at h
    rw [← h]; ring
  rw [pow_add, ← Nat.div_div_eq_div_mul, hE, hc1]
  have hw : 2 ^ w' = 2 ^ c * 2 ^ (w' - c) := by rw [← pow_add]; congr 1; omega
  rw [hw]
  have : e / 2 ^ ebi * (2 ^ c * 2 ^ (w' - c)) + 2 ^ c * od = 2 ^ c * (e / 2 ^ ebi * 2 ^ (w' - c) + od) := by ring
  rw [this, Nat.mul_div_cancel_left _ (two_pow_pos c)]


/-! ### the sliding window, for any arithmetic related to exponents by `Rel r k` ("r represents b^k") -/

section Window
variable {α : Type} (sqr : α → α) (mul : α → α → α) (table : Nat → α) (Rel : α → Nat → Prop)

theorem sqrDo_rel (hsqr : ∀ r k, Rel r k → Rel (sqr r) (2 * k)) :
    ∀ (tw : Nat) (r : α) (k : Nat), 1 ≤ tw → Rel r k → Rel (sqrDo sqr tw r) (k * 2 ^ tw)
  | 0, _, _, h, _ => by omega
  | 1, r, k, _, hr => by
    have := hsqr r k hr
    simpa [sqrDo, Nat.mul_comm] using this
  | tw + 2, r, k, _, hr => by
    have := sqrDo_rel hsqr (tw + 1) (sqr r) (2 * k) (by omega) (hsqr r k hr)
    have e : 2 * k * 2 ^ (tw + 1) = k * 2 ^ (tw + 2) := by rw [pow_succ 2 (tw + 1)]; ring
    rw [e] at this
    simpa [sqrDo] using this

/-- what one window contributes, in the shape the model's `let`s have. -/
theorem window_step (ep : List Nat) (hl : Limbs ep) (w ebi : Nat) (hw : 1 ≤ w) (hw63 : w ≤ 63) (hebi : 1 ≤ ebi)
    (hbit : (val ep / 2 ^ (ebi - 1)) % 2 = 1) :
    let expbits := getbits ep ebi w
    let tw := if ebi < w then w - (w - ebi) else w
    let lo := if ebi < w then 0 else ebi - w
    let cnt := ctz expbits
    1 ≤ tw - cnt ∧ lo + cnt < ebi ∧ (expbits >>> cnt) >>> 1 < 2 ^ (w - 1) ∧
    val ep / 2 ^ (lo + cnt) = (val ep / 2 ^ ebi) * 2 ^ (tw - cnt) + (2 * ((expbits >>> cnt) >>> 1) + 1) := by
  intro expbits tw lo cnt
  show 1 ≤ tw - ctz expbits ∧ lo + ctz expbits < ebi ∧ (expbits >>> ctz expbits) >>> 1 < 2 ^ (w - 1) ∧
    val ep / 2 ^ (lo + ctz expbits) =
      (val ep / 2 ^ ebi) * 2 ^ (tw - ctz expbits) + (2 * ((expbits >>> ctz expbits) >>> 1) + 1)
  have hexp : expbits = getbits ep ebi w := rfl
  clear_value expbits
  have hgb := getbits_spec ep hl ebi w hw63
  by_cases hlt : ebi < w
  · have htw : tw = ebi := by simp only [tw, hlt, if_true]; omega
    have hlo : lo = ebi - ebi := by simp only [lo, hlt, if_true]; omega
    have hb : expbits = (val ep / 2 ^ (ebi - ebi)) % 2 ^ ebi := by
      rw [hexp, hgb]; simp only [hlt, if_true, Nat.sub_self, pow_zero, Nat.div_one]
    obtain ⟨h1, h2, h3, h4⟩ := window_extract' (val ep) ebi ebi hebi (by omega) (le_refl _) hbit expbits hb
    rw [htw, hlo]
    refine ⟨by omega, by omega, ?_, ?_⟩
    · rw [Nat.shiftRight_eq_div_pow _ 1, pow_one]
      have : 2 ^ ebi ≤ 2 ^ w := Nat.pow_le_pow_right (by decide) (by omega)
      have hw' : 2 ^ w = 2 * 2 ^ (w - 1) := by rw [← pow_succ']; congr 1; omega
      omega
    · rw [h4, Nat.shiftRight_eq_div_pow _ 1, pow_one]; omega
  · have htw : tw = w := by simp only [tw, hlt, if_false]
    have hlo : lo = ebi - w := by simp only [lo, hlt, if_false]
    have hb : expbits = (val ep / 2 ^ (ebi - w)) % 2 ^ w := by
      rw [hexp, hgb]; simp only [hlt, if_false]
    obtain ⟨h1, h2, h3, h4⟩ := window_extract' (val ep) ebi w hw hw63 (by omega) hbit expbits hb
    rw [htw, hlo]
    refine ⟨by omega, by omega, ?_, ?_⟩
    · rw [Nat.shiftRight_eq_div_pow _ 1, pow_one]
      have hw' : 2 ^ w = 2 * 2 ^ (w - 1) := by rw [← pow_succ']; congr 1; omega
      omega
    · rw [h4, Nat.shiftRight_eq_div_pow _ 1, pow_one]; omega

theorem windowLoop_rel (ep : List Nat) (hl : Limbs ep) (w : Nat) (hw : 1 ≤ w) (hw63 : w ≤ 63)
    (hsqr : ∀ r k, Rel r k → Rel (sqr r) (2 * k))
    (hmul : ∀ r k i, i < 2 ^ (w - 1) → Rel r k → Rel (mul r (table i)) (k + (2 * i + 1))) :
    ∀ (fuel : Nat) (r : α) (ebi : Nat), ebi < fuel → Rel r (val ep / 2 ^ ebi) →
      Rel (windowLoop sqr mul table ep w fuel r ebi) (val ep)
  | 0, _, _, h, _ => by omega
  | fuel + 1, r, ebi, hf, hr => by
    unfold windowLoop
    by_cases h0 : ebi = 0
    · simpa [h0] using hr
    · simp only [h0, if_false]
      have hhalf : val ep / 2 ^ ebi = val ep / 2 ^ (ebi - 1) / 2 := by
        rw [Nat.div_div_eq_div_mul, ← pow_succ]; congr 2; omega
      by_cases hb : getbit ep ebi = 0
      · simp only [hb, if_true]
        apply windowLoop_rel ep hl w hw hw63 hsqr hmul fuel _ _ (by omega)
        rw [getbit_spec ep hl] at hb
        have : val ep / 2 ^ (ebi - 1) = 2 * (val ep / 2 ^ ebi) := by omega
        rw [this]; exact hsqr _ _ hr
      · simp only [hb, if_false]
        have hbit : (val ep / 2 ^ (ebi - 1)) % 2 = 1 := by
          rw [getbit_spec ep hl] at hb; omega
        obtain ⟨h1, h2, h3, h4⟩ := window_step ep hl w ebi hw hw63 (by omega) hbit
        apply windowLoop_rel ep hl w hw hw63 hsqr hmul fuel _ _ (by omega)
        rw [h4]
        exact hmul _ _ _ h3 (sqrDo_rel sqr Rel hsqr _ _ _ h1 hr)

/-- The whole recoding (first window + INNERLOOP): if the table holds the odd powers and the
    arithmetic respects `Rel`, the result represents `b^e`, `e = val ep`. -/
theorem windowExp_rel (ep : List Nat) (hl : Limbs ep) (hne : ep ≠ []) (htop : ep.getLast hne ≠ 0)
    (w : Nat) (hw : 1 ≤ w) (hw63 : w ≤ 63)
    (hsqr : ∀ r k, Rel r k → Rel (sqr r) (2 * k))
    (hmul : ∀ r k i, i < 2 ^ (w - 1) → Rel r k → Rel (mul r (table i)) (k + (2 * i + 1)))
    (htab : ∀ i, i < 2 ^ (w - 1) → Rel (table i) (2 * i + 1)) :
    Rel (windowExp sqr mul table ep (sizeinbase2 ep) w) (val ep) := by
  obtain ⟨hs1, hs2, hs3⟩ := sizeinbase2_spec ep hl hne htop
  generalize sizeinbase2 ep = ebi at *
  have hbit : (val ep / 2 ^ (ebi - 1)) % 2 = 1 := by
    have h2 : 2 ^ ebi = 2 ^ (ebi - 1) * 2 := by rw [← pow_succ]; congr 1; omega
    have : val ep / 2 ^ (ebi - 1) = 1 := by
      apply Nat.div_eq_of_lt_le <;> omega
    rw [this]
  obtain ⟨h1, h2, h3, h4⟩ := window_step ep hl w ebi hw hw63 hs1 hbit
  have hz : val ep / 2 ^ ebi = 0 := Nat.div_eq_of_lt hs3
  rw [hz, Nat.zero_mul, Nat.zero_add] at h4
  unfold windowExp windowInit
  simp only
  apply windowLoop_rel sqr mul table Rel ep hl w hw hw63 hsqr hmul _ _ _ (by omega)
  rw [h4]
  exact htab _ h3

end Window

end Mpir.Powm
